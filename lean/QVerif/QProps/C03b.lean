import QProofs.StepTypes
/-!
# C03 (per transformation step) — each operand has the type its mode prescribes

`QProps/C03.lean` says which transformation a mode requests for an operand and which tensor type a
parameter object denotes (`dtype_of_bits`).  This file closes the gap to the graph: the exact
postcondition of each of the three graph transformations on subgraph `sgi`, for a parameter `p`
with `pinfo pt p = some pi` and `dtypeOf pi = .ok ty`:

* `quantizeOnly_types` (QUANTIZE_TENSOR): tensor `t` itself gets type `ty` (and `quant = some p` for
  uniform parameters), keeps name / shape / buffer; nothing else in the subgraph changes; the
  quantized data goes into the tensor's buffer iff the tensor has one and the parameter has data;
* `insertQuant_tensors` / `_op` / `_consumers` (ADD_QUANTIZE): a new tensor of type `ty` is appended,
  every original tensor (in particular `t`) is untouched, one QUANTIZE `t → new` is inserted at
  `info.opId`, exactly the listed consumers have their operands `t` replaced by `new`;
* `insertDequant_tensors` / `_op` / `_consumers` (ADD_DEQUANTIZE): tensor `t` itself gets type `ty`,
  the appended tensor is float32 without quantization, one DEQUANTIZE `t → new` is inserted, the
  listed consumers are rewired.

Hypothesis `GraphStep.InpOK` is the one of the C01 step lemmas (tensor index valid, producer and
consumer positions in range).  A concrete instance is evaluated at the end (non-vacuity).
-/
open Graph Perform GraphStep StepTypes

namespace C03

/-- position of the original operator `j` after one operator was inserted at position `opId` -/
def shiftPos (opId : Int) (j : Nat) : Nat := if (j : Int) < opId then j else j + 1

/-- operator `o` with every operand equal to `t` replaced by `n`; code, results and `orig`
    (= builtin options and everything else the quantizer never touches) are kept -/
def retarget (t n : Int) (o : Op) : Op :=
  { o with inputs := o.inputs.map fun i => if i = t then n else i }

/-- `retarget` touches nothing but the operand slots equal to `t` -/
theorem retarget_spec (t n : Int) (o : Op) :
    (retarget t n o).code = o.code ∧ (retarget t n o).outputs = o.outputs ∧
    (retarget t n o).orig = o.orig ∧ (retarget t n o).inputs.length = o.inputs.length ∧
    ∀ k : Nat, (retarget t n o).inputs[k]? = (o.inputs[k]?).map fun i => if i = t then n else i := by
  refine ⟨rfl, rfl, rfl, by simp [retarget], fun k => by simp [retarget]⟩

theorem retarget_eq_rew (t n : Int) (o : Op) : GraphStep.rew t n o = retarget t n o := by
  unfold GraphStep.rew retarget
  simp only [beq_iff_eq]

theorem shiftPos_eq (opId : Int) (h0 : 0 ≤ opId) (j : Nat) :
    shiftPos opId j = if j < opId.toNat then j else j + 1 := by
  unfold shiftPos
  by_cases h : (j : Int) < opId
  · rw [if_pos h, if_pos (by omega)]
  · rw [if_neg h, if_neg (by omega)]

/-- the graph outputs after an insertion: the new tensor replaces `t` as a graph output iff `-1`
    (the graph-output pseudo consumer) is among the listed consumers -/
def outputsAfter (sg : Subgraph) (inp : TIn) : List Int :=
  if (-1 : Int) ∈ inp.consumers
  then sg.outputs.map (fun o => if o = inp.tensor then (sg.tensors.length : Int) else o)
  else sg.outputs

theorem newOutputs_eq (sg : Subgraph) (inp : TIn) : newOutputs sg inp = outputsAfter sg inp := by
  unfold newOutputs outputsAfter
  simp only [memI, List.contains_eq_mem, decide_eq_true_eq, beq_iff_eq]

/-! ## QUANTIZE_TENSOR -/

/-- **`quantize_tensor` retypes exactly tensor `t`** -/
theorem quantizeOnly_types (pt : PTable) (m m' : Model) (sgi : Nat) (sg sg' : Subgraph) (inp : TIn)
    (info : TInfoOut) (p : PId) (pi : PInfo) (ty : Nat)
    (hsg : m.subgraphs[sgi]? = some sg) (hsg' : m'.subgraphs[sgi]? = some sg')
    (hp : inp.param = some p) (hpi : pinfo pt p = some pi) (hty : dtypeOf pi = .ok ty)
    (h0 : 0 ≤ inp.tensor)
    (h : quantizeOnly pt m sgi inp = .ok (m', info)) :
    ∃ tn tn', sg.tensors[inp.tensor.toNat]? = some tn ∧ sg'.tensors[inp.tensor.toNat]? = some tn' ∧
      inp.tensor < sg.tensors.length ∧
      sg'.tensors.length = sg.tensors.length ∧
      tn'.dtype = ty ∧ tn'.quant = (if pi.uniform then some p else tn.quant) ∧
      tn'.name = tn.name ∧ tn'.shape = tn.shape ∧ tn'.buffer = tn.buffer ∧
      (∀ i, i ≠ inp.tensor.toNat → sg'.tensors[i]? = sg.tensors[i]?) ∧
      sg'.ops = sg.ops ∧ sg'.inputs = sg.inputs ∧ sg'.outputs = sg.outputs ∧
      m'.buffers = (if tn.buffer ≠ 0 ∧ pi.hasData = true
                    then m.buffers.set tn.buffer (some (.inr p)) else m.buffers) ∧
      m'.opcodes = m.opcodes ∧ info.added = 0 ∧ info.outTensor = inp.tensor := by
  obtain ⟨tn, hget, rfl, hb, hc, -, -, rfl⟩ :=
    quantizeOnly_exact pt m m' sgi sg sg' inp info p pi ty hsg hsg' hp hpi hty h0 h
  have hlt : inp.tensor.toNat < sg.tensors.length := (List.getElem?_eq_some_iff.1 hget).1
  refine ⟨tn, retype pi p ty tn, hget, ?_, by omega, by simp, retype_dtype .., retype_quant ..,
    retype_name .., retype_shape .., retype_buffer .., ?_, rfl, rfl, rfl, hb, hc, rfl, rfl⟩
  · simp [List.getElem?_set_self hlt]
  · intro i hi
    simp [Ne.symm hi]

/-! ## ADD_QUANTIZE -/

/-- **tensors after `insert_quant`**: one tensor of the prescribed type is appended; no original
    tensor (in particular not `t`) changes; no buffer changes -/
theorem insertQuant_tensors (pt : PTable) (m m' : Model) (sgi : Nat) (sg sg' : Subgraph) (inp : TIn)
    (info : TInfoOut) (p : PId) (pi : PInfo) (ty : Nat)
    (hsg : m.subgraphs[sgi]? = some sg) (hsg' : m'.subgraphs[sgi]? = some sg')
    (hinp : InpOK pt m sg inp)
    (hp : inp.param = some p) (hpi : pinfo pt p = some pi) (hty : dtypeOf pi = .ok ty)
    (h : insertQuant pt m sgi inp = .ok (m', info)) :
    ∃ tn nt, sg.tensors[inp.tensor.toNat]? = some tn ∧
      sg'.tensors.length = sg.tensors.length + 1 ∧
      info.outTensor = (sg.tensors.length : Int) ∧
      sg'.tensors[sg.tensors.length]? = some nt ∧
      nt.dtype = ty ∧ nt.quant = (if pi.uniform then some p else none) ∧
      nt.shape = tn.shape ∧ nt.buffer = 0 ∧
      nt.name = uniqueName (sg.tensors.map (·.name)) (tn.name ++ "_quantized") ∧
      (∀ i, i < sg.tensors.length → sg'.tensors[i]? = sg.tensors[i]?) ∧
      sg'.tensors[inp.tensor.toNat]? = some tn ∧
      sg'.inputs = sg.inputs ∧ sg'.outputs = outputsAfter sg inp ∧
      m'.buffers = m.buffers := by
  obtain ⟨tn, ops2, hget, -, hT, -, hI, hOut, hB, -, -, -, -, -, -, -, -, hout⟩ :=
    insertQuant_exact pt m m' sgi sg sg' inp info p pi ty hsg hsg' hinp hp hpi hty h
  have hlt : inp.tensor.toNat < sg.tensors.length := (List.getElem?_eq_some_iff.1 hget).1
  refine ⟨tn, _, hget, by simp [hT], hout, by rw [hT]; exact List.getElem?_concat_length ..,
    retype_dtype .., by rw [retype_quant], by rw [retype_shape], by rw [retype_buffer],
    by rw [retype_name], ?_, ?_, hI, by rw [hOut, newOutputs_eq], hB⟩
  · intro i hi
    rw [hT, List.getElem?_append_left hi]
  · rw [hT, List.getElem?_append_left hlt, hget]

/-- **the operator inserted by `insert_quant`** is a QUANTIZE `t → new` at position `info.opId`,
    placed after the producer and not after any listed consumer; the opcode table is only extended -/
theorem insertQuant_op (pt : PTable) (m m' : Model) (sgi : Nat) (sg sg' : Subgraph) (inp : TIn)
    (info : TInfoOut) (p : PId) (pi : PInfo) (ty : Nat)
    (hsg : m.subgraphs[sgi]? = some sg) (hsg' : m'.subgraphs[sgi]? = some sg')
    (hinp : InpOK pt m sg inp)
    (hp : inp.param = some p) (hpi : pinfo pt p = some pi) (hty : dtypeOf pi = .ok ty)
    (h : insertQuant pt m sgi inp = .ok (m', info)) :
    sg'.ops.length = sg.ops.length + 1 ∧ info.added = 1 ∧
    0 ≤ info.opId ∧ info.opId ≤ sg.ops.length ∧ inp.producer < info.opId ∧
    (∀ c ∈ inp.consumers, 0 ≤ c → info.opId ≤ c) ∧
    ∃ ci, m'.opcodes[ci]? = some Tables.opQuantize ∧ (∃ ext, m'.opcodes = m.opcodes ++ ext) ∧
      sg'.ops[info.opId.toNat]? =
        some { code := ci, inputs := [inp.tensor], outputs := [(sg.tensors.length : Int)], orig := none } := by
  obtain ⟨tn, ops2, -, hrw, -, hO, -, -, -, hC, -, -, i1, i2, i3, i4, i5, -⟩ :=
    insertQuant_exact pt m m' sgi sg sg' inp info p pi ty hsg hsg' hinp hp hpi hty h
  obtain ⟨s1, s2, -⟩ := splice_get sg.ops ops2 _ _ _ info.opId.toNat
    { code := (addOpCode m.opcodes Tables.opQuantize).2, inputs := [inp.tensor],
      outputs := [(sg.tensors.length : Int)] } hrw (by omega)
  obtain ⟨a1, a2⟩ := GraphBasics.addOpCode_spec m.opcodes Tables.opQuantize
  exact ⟨by rw [hO]; exact s1, i5, i1, i2, i3, i4, _, by rw [hC]; exact a1, by rw [hC]; exact a2,
    by rw [hO]; exact s2⟩

/-- **consumers after `insert_quant`**: the original operator `j` sits at `shiftPos info.opId j`;
    if it is a listed consumer its operands `t` now read the new tensor, otherwise it is unchanged -/
theorem insertQuant_consumers (pt : PTable) (m m' : Model) (sgi : Nat) (sg sg' : Subgraph) (inp : TIn)
    (info : TInfoOut) (p : PId) (pi : PInfo) (ty : Nat)
    (hsg : m.subgraphs[sgi]? = some sg) (hsg' : m'.subgraphs[sgi]? = some sg')
    (hinp : InpOK pt m sg inp)
    (hp : inp.param = some p) (hpi : pinfo pt p = some pi) (hty : dtypeOf pi = .ok ty)
    (h : insertQuant pt m sgi inp = .ok (m', info)) :
    (∀ (j : Nat) o, sg.ops[j]? = some o →
      sg'.ops[shiftPos info.opId j]? =
        some (if (j : Int) ∈ inp.consumers then retarget inp.tensor (sg.tensors.length : Int) o else o)) ∧
    (∀ c ∈ inp.consumers, 0 ≤ c → ∃ o, sg.ops[c.toNat]? = some o ∧
      sg'.ops[shiftPos info.opId c.toNat]? = some (retarget inp.tensor (sg.tensors.length : Int) o)) := by
  obtain ⟨tn, ops2, -, hrw, -, hO, -, -, -, -, -, -, i1, i2, -, -, -, -⟩ :=
    insertQuant_exact pt m m' sgi sg sg' inp info p pi ty hsg hsg' hinp hp hpi hty h
  obtain ⟨-, -, s3⟩ := splice_get sg.ops ops2 _ _ _ info.opId.toNat
    { code := (addOpCode m.opcodes Tables.opQuantize).2, inputs := [inp.tensor],
      outputs := [(sg.tensors.length : Int)] } hrw (by omega)
  have main : ∀ (j : Nat) o, sg.ops[j]? = some o →
      sg'.ops[shiftPos info.opId j]? =
        some (if (j : Int) ∈ inp.consumers then retarget inp.tensor (sg.tensors.length : Int) o else o) := by
    intro j o hj
    rw [shiftPos_eq _ i1, hO, s3 j o hj, retarget_eq_rew]
  refine ⟨main, ?_⟩
  intro c hc h0
  have hlt : c.toNat < sg.ops.length := by
    have := hinp.consAfter c hc; omega
  refine ⟨sg.ops[c.toNat], List.getElem?_eq_getElem hlt, ?_⟩
  rw [main c.toNat _ (List.getElem?_eq_getElem hlt),
    if_pos (by rw [show ((c.toNat : Nat) : Int) = c from by omega]; exact hc)]

/-! ## ADD_DEQUANTIZE -/

/-- **tensors after `insert_dequant`**: tensor `t` itself gets the prescribed type (same name, shape,
    buffer), a float32 tensor without quantization is appended, nothing else changes; the quantized
    data goes into `t`'s buffer iff it has one and the parameter has data -/
theorem insertDequant_tensors (pt : PTable) (m m' : Model) (sgi : Nat) (sg sg' : Subgraph) (inp : TIn)
    (info : TInfoOut) (p : PId) (pi : PInfo) (ty : Nat)
    (hsg : m.subgraphs[sgi]? = some sg) (hsg' : m'.subgraphs[sgi]? = some sg')
    (hinp : InpOK pt m sg inp)
    (hp : inp.param = some p) (hpi : pinfo pt p = some pi) (hty : dtypeOf pi = .ok ty)
    (h : insertDequant pt m sgi inp = .ok (m', info)) :
    ∃ tn tn' nt, sg.tensors[inp.tensor.toNat]? = some tn ∧
      sg'.tensors.length = sg.tensors.length + 1 ∧
      info.outTensor = (sg.tensors.length : Int) ∧
      sg'.tensors[inp.tensor.toNat]? = some tn' ∧
      tn'.dtype = ty ∧ tn'.quant = (if pi.uniform then some p else tn.quant) ∧
      tn'.name = tn.name ∧ tn'.shape = tn.shape ∧ tn'.buffer = tn.buffer ∧
      sg'.tensors[sg.tensors.length]? = some nt ∧
      nt.dtype = Tables.ttFloat32 ∧ nt.quant = none ∧ nt.shape = tn.shape ∧ nt.buffer = 0 ∧
      nt.name = uniqueName (sg.tensors.map (·.name)) (tn.name ++ "_dequant") ∧
      (∀ i, i < sg.tensors.length → i ≠ inp.tensor.toNat → sg'.tensors[i]? = sg.tensors[i]?) ∧
      sg'.inputs = sg.inputs ∧ sg'.outputs = outputsAfter sg inp ∧
      m'.buffers = (if tn.buffer ≠ 0 ∧ pi.hasData = true
                    then m.buffers.set tn.buffer (some (.inr p)) else m.buffers) := by
  obtain ⟨tn, ops2, hget, -, hT, -, hI, hOut, hB, -, -, -, -, -, -, -, -, hout⟩ :=
    insertDequant_exact pt m m' sgi sg sg' inp info p pi ty hsg hsg' hinp hp hpi hty h
  have hlt : inp.tensor.toNat < sg.tensors.length := (List.getElem?_eq_some_iff.1 hget).1
  have hlen : (sg.tensors.set inp.tensor.toNat (retype pi p ty tn)).length = sg.tensors.length := by simp
  refine ⟨tn, retype pi p ty tn,
    { name := uniqueName (sg.tensors.map (·.name)) (tn.name ++ "_dequant"),
      dtype := Tables.ttFloat32, shape := tn.shape, buffer := 0 },
    hget, by simp [hT], hout, ?_, retype_dtype .., retype_quant ..,
    retype_name .., retype_shape .., retype_buffer .., ?_, rfl, rfl, rfl, rfl, rfl, ?_, hI,
    by rw [hOut, newOutputs_eq], hB⟩
  · rw [hT, List.getElem?_append_left (by omega)]
    simp [List.getElem?_set_self hlt]
  · rw [hT, ← hlen]; exact List.getElem?_concat_length ..
  · intro i hi hne
    rw [hT, List.getElem?_append_left (by omega)]
    simp [Ne.symm hne]

/-- **the operator inserted by `insert_dequant`** is a DEQUANTIZE `t → new` at position `info.opId` -/
theorem insertDequant_op (pt : PTable) (m m' : Model) (sgi : Nat) (sg sg' : Subgraph) (inp : TIn)
    (info : TInfoOut) (p : PId) (pi : PInfo) (ty : Nat)
    (hsg : m.subgraphs[sgi]? = some sg) (hsg' : m'.subgraphs[sgi]? = some sg')
    (hinp : InpOK pt m sg inp)
    (hp : inp.param = some p) (hpi : pinfo pt p = some pi) (hty : dtypeOf pi = .ok ty)
    (h : insertDequant pt m sgi inp = .ok (m', info)) :
    sg'.ops.length = sg.ops.length + 1 ∧ info.added = 1 ∧
    0 ≤ info.opId ∧ info.opId ≤ sg.ops.length ∧ inp.producer < info.opId ∧
    (∀ c ∈ inp.consumers, 0 ≤ c → info.opId ≤ c) ∧
    ∃ ci, m'.opcodes[ci]? = some Tables.opDequantize ∧ (∃ ext, m'.opcodes = m.opcodes ++ ext) ∧
      sg'.ops[info.opId.toNat]? =
        some { code := ci, inputs := [inp.tensor], outputs := [(sg.tensors.length : Int)], orig := none } := by
  obtain ⟨tn, ops2, -, hrw, -, hO, -, -, -, hC, -, -, i1, i2, i3, i4, i5, -⟩ :=
    insertDequant_exact pt m m' sgi sg sg' inp info p pi ty hsg hsg' hinp hp hpi hty h
  obtain ⟨s1, s2, -⟩ := splice_get sg.ops ops2 _ _ _ info.opId.toNat
    { code := (addOpCode m.opcodes Tables.opDequantize).2, inputs := [inp.tensor],
      outputs := [(sg.tensors.length : Int)] } hrw (by omega)
  obtain ⟨a1, a2⟩ := GraphBasics.addOpCode_spec m.opcodes Tables.opDequantize
  exact ⟨by rw [hO]; exact s1, i5, i1, i2, i3, i4, _, by rw [hC]; exact a1, by rw [hC]; exact a2,
    by rw [hO]; exact s2⟩

/-- **consumers after `insert_dequant`** (as for `insert_quant`) -/
theorem insertDequant_consumers (pt : PTable) (m m' : Model) (sgi : Nat) (sg sg' : Subgraph) (inp : TIn)
    (info : TInfoOut) (p : PId) (pi : PInfo) (ty : Nat)
    (hsg : m.subgraphs[sgi]? = some sg) (hsg' : m'.subgraphs[sgi]? = some sg')
    (hinp : InpOK pt m sg inp)
    (hp : inp.param = some p) (hpi : pinfo pt p = some pi) (hty : dtypeOf pi = .ok ty)
    (h : insertDequant pt m sgi inp = .ok (m', info)) :
    (∀ (j : Nat) o, sg.ops[j]? = some o →
      sg'.ops[shiftPos info.opId j]? =
        some (if (j : Int) ∈ inp.consumers then retarget inp.tensor (sg.tensors.length : Int) o else o)) ∧
    (∀ c ∈ inp.consumers, 0 ≤ c → ∃ o, sg.ops[c.toNat]? = some o ∧
      sg'.ops[shiftPos info.opId c.toNat]? = some (retarget inp.tensor (sg.tensors.length : Int) o)) := by
  obtain ⟨tn, ops2, -, hrw, -, hO, -, -, -, -, -, -, i1, i2, -, -, -, -⟩ :=
    insertDequant_exact pt m m' sgi sg sg' inp info p pi ty hsg hsg' hinp hp hpi hty h
  obtain ⟨-, -, s3⟩ := splice_get sg.ops ops2 _ _ _ info.opId.toNat
    { code := (addOpCode m.opcodes Tables.opDequantize).2, inputs := [inp.tensor],
      outputs := [(sg.tensors.length : Int)] } hrw (by omega)
  have main : ∀ (j : Nat) o, sg.ops[j]? = some o →
      sg'.ops[shiftPos info.opId j]? =
        some (if (j : Int) ∈ inp.consumers then retarget inp.tensor (sg.tensors.length : Int) o else o) := by
    intro j o hj
    rw [shiftPos_eq _ i1, hO, s3 j o hj, retarget_eq_rew]
  refine ⟨main, ?_⟩
  intro c hc h0
  have hlt : c.toNat < sg.ops.length := by
    have := hinp.consAfter c hc; omega
  refine ⟨sg.ops[c.toNat], List.getElem?_eq_getElem hlt, ?_⟩
  rw [main c.toNat _ (List.getElem?_eq_getElem hlt),
    if_pos (by rw [show ((c.toNat : Nat) : Int) = c from by omega]; exact hc)]

/-! ## Non-vacuity: the theorems instantiated on a concrete model

`x --op0--> h --op1(h, w)--> y` with constant `w` (buffer 1).  `inpQ` asks for an int8 QUANTIZE of
the activation `h` in front of its consumer `op1`; `inpD` asks for an int8 weight `w` with an explicit
DEQUANTIZE in front of `op1`; `inpT` quantizes `w` in place. -/
namespace Example

def ptE : PTable := [(7, ⟨true, 8, false⟩), (8, ⟨true, 8, true⟩)]
def sgE : Subgraph :=
  { tensors := [{ name := "x", dtype := 0, shape := [1, 2], buffer := 0 },
                { name := "w", dtype := 0, shape := [2, 2], buffer := 1 },
                { name := "h", dtype := 0, shape := [1, 2], buffer := 0 },
                { name := "y", dtype := 0, shape := [1, 2], buffer := 0 }],
    ops := [{ code := 0, inputs := [0], outputs := [2], orig := some 0 },
            { code := 1, inputs := [2, 1], outputs := [3], orig := some 1 }],
    inputs := [0], outputs := [3] }
def mE : Model := { subgraphs := [sgE], buffers := [none, some (.inl 0)], opcodes := [5, 9], sigs := [] }
def inpQ : TIn := ⟨2, 0, [1], some 7⟩
def inpD : TIn := ⟨1, -1, [1], some 8⟩
def inpT : TIn := ⟨1, -1, [1], some 8⟩

/-- expected result of ADD_QUANTIZE on `h` -/
def sgQ : Subgraph :=
  { tensors := [{ name := "x", dtype := 0, shape := [1, 2], buffer := 0 },
                { name := "w", dtype := 0, shape := [2, 2], buffer := 1 },
                { name := "h", dtype := 0, shape := [1, 2], buffer := 0 },
                { name := "y", dtype := 0, shape := [1, 2], buffer := 0 },
                { name := "h_quantized", dtype := Tables.ttInt8, shape := [1, 2], buffer := 0, quant := some 7 }],
    ops := [{ code := 0, inputs := [0], outputs := [2], orig := some 0 },
            { code := 2, inputs := [2], outputs := [4] },
            { code := 1, inputs := [4, 1], outputs := [3], orig := some 1 }],
    inputs := [0], outputs := [3] }
def mQ : Model :=
  { subgraphs := [sgQ], buffers := [none, some (.inl 0)], opcodes := [5, 9, Tables.opQuantize], sigs := [] }

/-- expected result of ADD_DEQUANTIZE on `w` -/
def sgD : Subgraph :=
  { tensors := [{ name := "x", dtype := 0, shape := [1, 2], buffer := 0 },
                { name := "w", dtype := Tables.ttInt8, shape := [2, 2], buffer := 1, quant := some 8 },
                { name := "h", dtype := 0, shape := [1, 2], buffer := 0 },
                { name := "y", dtype := 0, shape := [1, 2], buffer := 0 },
                { name := "w_dequant", dtype := Tables.ttFloat32, shape := [2, 2], buffer := 0 }],
    ops := [{ code := 0, inputs := [0], outputs := [2], orig := some 0 },
            { code := 2, inputs := [1], outputs := [4] },
            { code := 1, inputs := [2, 4], outputs := [3], orig := some 1 }],
    inputs := [0], outputs := [3] }
def mD : Model :=
  { subgraphs := [sgD], buffers := [none, some (.inr 8)], opcodes := [5, 9, Tables.opDequantize], sigs := [] }

/-- expected result of QUANTIZE_TENSOR on `w` -/
def sgT : Subgraph :=
  { sgE with tensors :=
      [{ name := "x", dtype := 0, shape := [1, 2], buffer := 0 },
       { name := "w", dtype := Tables.ttInt8, shape := [2, 2], buffer := 1, quant := some 8 },
       { name := "h", dtype := 0, shape := [1, 2], buffer := 0 },
       { name := "y", dtype := 0, shape := [1, 2], buffer := 0 }] }
def mT : Model := { mE with subgraphs := [sgT], buffers := [none, some (.inr 8)] }

/-- the three transformations succeed on the example, with the displayed results -/
theorem stepQ : insertQuant ptE mE 0 inpQ = .ok (mQ, ⟨1, 1, 4⟩) := rfl
theorem stepD : insertDequant ptE mE 0 inpD = .ok (mD, ⟨1, 1, 4⟩) := rfl
theorem stepT : quantizeOnly ptE mE 0 inpT = .ok (mT, ⟨0, 0, 1⟩) := rfl

theorem pinfo7 : pinfo ptE 7 = some ⟨true, 8, false⟩ := rfl
theorem pinfo8 : pinfo ptE 8 = some ⟨true, 8, true⟩ := rfl
theorem dtype7 : dtypeOf ⟨true, 8, false⟩ = .ok Tables.ttInt8 := rfl
theorem dtype8 : dtypeOf ⟨true, 8, true⟩ = .ok Tables.ttInt8 := rfl

theorem inpQ_ok : InpOK ptE mE sgE inpQ := by
  refine ⟨by decide, by decide, by decide, by decide, ?_⟩
  intro p pi h1 h2 h3
  cases h1
  rw [pinfo7] at h2
  cases h2
  cases h3

theorem inpD_ok : InpOK ptE mE sgE inpD := by
  refine ⟨by decide, by decide, by decide, by decide, ?_⟩
  intro p pi _ _ _
  decide

/-- the hypotheses of the ADD_QUANTIZE theorems are jointly satisfiable -/
theorem insertQuant_hyps_sat :
    ∃ pt m m' sgi sg sg' inp info p pi ty, m.subgraphs[sgi]? = some sg ∧ m'.subgraphs[sgi]? = some sg' ∧
      InpOK pt m sg inp ∧ inp.param = some p ∧ pinfo pt p = some pi ∧ dtypeOf pi = .ok ty ∧
      insertQuant pt m sgi inp = .ok (m', info) :=
  ⟨ptE, mE, mQ, 0, sgE, sgQ, inpQ, ⟨1, 1, 4⟩, 7, ⟨true, 8, false⟩, Tables.ttInt8,
    rfl, rfl, inpQ_ok, rfl, pinfo7, dtype7, stepQ⟩

/-- the hypotheses of the ADD_DEQUANTIZE theorems are jointly satisfiable -/
theorem insertDequant_hyps_sat :
    ∃ pt m m' sgi sg sg' inp info p pi ty, m.subgraphs[sgi]? = some sg ∧ m'.subgraphs[sgi]? = some sg' ∧
      InpOK pt m sg inp ∧ inp.param = some p ∧ pinfo pt p = some pi ∧ dtypeOf pi = .ok ty ∧
      insertDequant pt m sgi inp = .ok (m', info) :=
  ⟨ptE, mE, mD, 0, sgE, sgD, inpD, ⟨1, 1, 4⟩, 8, ⟨true, 8, true⟩, Tables.ttInt8,
    rfl, rfl, inpD_ok, rfl, pinfo8, dtype8, stepD⟩

/-- the hypotheses of the QUANTIZE_TENSOR theorem are jointly satisfiable -/
theorem quantizeOnly_hyps_sat :
    ∃ pt m m' sgi sg sg' inp info p pi ty, m.subgraphs[sgi]? = some sg ∧ m'.subgraphs[sgi]? = some sg' ∧
      inp.param = some p ∧ pinfo pt p = some pi ∧ dtypeOf pi = .ok ty ∧ 0 ≤ inp.tensor ∧
      quantizeOnly pt m sgi inp = .ok (m', info) :=
  ⟨ptE, mE, mT, 0, sgE, sgT, inpT, ⟨0, 0, 1⟩, 8, ⟨true, 8, true⟩, Tables.ttInt8,
    rfl, rfl, rfl, pinfo8, dtype8, by decide, stepT⟩

/-- … and the theorems instantiated on the example -/
example :=
  quantizeOnly_types ptE mE mT 0 sgE sgT inpT ⟨0, 0, 1⟩ 8 ⟨true, 8, true⟩ Tables.ttInt8
    rfl rfl rfl pinfo8 dtype8 (by decide) stepT

example :=
  insertQuant_tensors ptE mE mQ 0 sgE sgQ inpQ ⟨1, 1, 4⟩ 7 ⟨true, 8, false⟩ Tables.ttInt8
    rfl rfl inpQ_ok rfl pinfo7 dtype7 stepQ

example :=
  insertQuant_op ptE mE mQ 0 sgE sgQ inpQ ⟨1, 1, 4⟩ 7 ⟨true, 8, false⟩ Tables.ttInt8
    rfl rfl inpQ_ok rfl pinfo7 dtype7 stepQ

example :=
  insertQuant_consumers ptE mE mQ 0 sgE sgQ inpQ ⟨1, 1, 4⟩ 7 ⟨true, 8, false⟩ Tables.ttInt8
    rfl rfl inpQ_ok rfl pinfo7 dtype7 stepQ

example :=
  insertDequant_tensors ptE mE mD 0 sgE sgD inpD ⟨1, 1, 4⟩ 8 ⟨true, 8, true⟩ Tables.ttInt8
    rfl rfl inpD_ok rfl pinfo8 dtype8 stepD

example :=
  insertDequant_op ptE mE mD 0 sgE sgD inpD ⟨1, 1, 4⟩ 8 ⟨true, 8, true⟩ Tables.ttInt8
    rfl rfl inpD_ok rfl pinfo8 dtype8 stepD

example :=
  insertDequant_consumers ptE mE mD 0 sgE sgD inpD ⟨1, 1, 4⟩ 8 ⟨true, 8, true⟩ Tables.ttInt8
    rfl rfl inpD_ok rfl pinfo8 dtype8 stepD

/-- what the instantiated theorem says about the listed consumer `op1` of the example: it moved to
    position 2 and reads the new tensor 4 instead of `h` (tensor 2) -/
example : sgQ.ops[2]? = some { code := 1, inputs := [4, 1], outputs := [3], orig := some 1 } := by
  obtain ⟨o, h1, h2⟩ :=
    (insertQuant_consumers ptE mE mQ 0 sgE sgQ inpQ ⟨1, 1, 4⟩ 7 ⟨true, 8, false⟩ Tables.ttInt8
      rfl rfl inpQ_ok rfl pinfo7 dtype7 stepQ).2 1 (by decide) (by decide)
  have ho : o = { code := 1, inputs := [2, 1], outputs := [3], orig := some 1 } := by
    have : sgE.ops[(1 : Int).toNat]? = some { code := 1, inputs := [2, 1], outputs := [3], orig := some 1 } := rfl
    rw [this] at h1; cases h1; rfl
  subst ho
  exact h2

end Example

end C03
