import QProofs.CalibProofs
/-!
# C09 — calibration statistics are exact, order-faithful and resumable

The interpreter is external: the per-sample tensor contents are an input of the model.  The
previous result passed in is an immutable value in the model, so "not modified" is checked on the
real code by the harness (deep equality before/after).
-/
open Graph Arith Num Nd Mat Calib

namespace C09

/-- **resumption**: calibrating on `D1` and continuing on `D2` from the returned result gives
    exactly the statistics of one pass over `D1 ++ D2` (for every model, recipe, data) -/
theorem resume (rx : String → String → Bool) (env : Env) (st : Recipe.State) (sgi : Nat)
    (D1 D2 : List Contents) (q1 : Qsvs)
    (h1 : calibrate rx env st sgi none D1 = .ok q1) :
    calibrate rx env st sgi (some q1) D2 = calibrate rx env st sgi none (D1 ++ D2) :=
  CalibProofs.resume rx env st sgi D1 D2 q1 h1

/-- the first sample initialises: merging into an entry without statistics takes the new values -/
theorem first_sample_initialises (n : Qsv) : ema none n = .ok n := rfl

end C09
