import QProps.C10
import QProofs.PipelineWFExamples
/-!
# C10b — statistics recorded by `calibrate()` are the ones `quantize()` looks up; the
"missing statistics" raise sites are unreachable after a calibration

`Mat.wrapper` (`_get_tensor_transformation_params_wrapper`) has two raise sites that mean "no
statistics for this tensor": the dictionary lookup of a runtime tensor's name
(`tensor_name_to_qsv[name]` → "… not found in tensor_name_to_qsv"), and the empty entry handed to
`_get_tensor_quant_params` ("min and max must be provided").  `wrapper_uses_recorded_stats` says
that with a recorded entry neither is taken: the call IS the parameter computation on the recorded
min/max.  `calibrated_lookup_never_missing` composes it with `C10.stats_complete`: for every
operator that resolution selects for min/max quantization — calibration and quantization resolve
through the same `opScope`/`Recipe.resolve` — and every non-constant operand, `quantize()` finds
the statistics that `calibrate()` recorded.
-/
open Graph Arith Num Nd Mat Calib Cfg

namespace C10

/-- with a recorded entry the wrapper neither raises for a missing name nor for an empty entry: it
    computes the parameters from exactly the recorded min/max -/
theorem wrapper_uses_recorded_stats (env : Env) (qsvs : Qsvs) (oi : OpInfo) (t : Tensor) (inbound : Bool)
    (tc : TCfg) (mn mx : FArr) (hnc : constData env t = none) (hact : oi.cfg.act = some tc)
    (hs : Py.dictGet? qsvs t.name = some (some (mn, mx))) :
    wrapper env qsvs oi t inbound none =
      (do let r ← tensorQuantParams env oi (some (mn, mx)) tc none
          mkReq t.name oi inbound (some r) false) := by
  unfold wrapper
  simp only [hnc, Option.isSome_none, Bool.false_and, Bool.false_eq_true, if_false, hact, hs, bind, Except.bind,
    pure, Except.pure]
  cases tensorQuantParams env oi (some (mn, mx)) tc none <;> rfl

/-- … and the parameter computation itself does not take the "min and max must be provided" branch -/
theorem params_from_stats (env : Env) (oi : OpInfo) (tc : TCfg) (mn mx : FArr) (e : PyErr)
    (h : tensorQuantParams env oi (some (mn, mx)) tc none = .error e) :
    (∃ e', zpScale tc.bits.toNat tc.symmetric mn mx = .error e') ∨ tc.gran = .channelwise := by
  by_cases hg : tc.gran = .channelwise
  · exact .inr hg
  · left
    have hg' : (tc.gran == Gran.channelwise) = false := by
      cases hgg : tc.gran <;> simp_all
    unfold tensorQuantParams at h
    simp only [bind, Except.bind, pure, Except.pure, hg'] at h
    cases hz : zpScale tc.bits.toNat tc.symmetric mn mx with
    | error e' => exact ⟨e', rfl⟩
    | ok zs => simp [hz] at h

/-- **calibrate() then quantize(): the lookup never misses.**  After `calibrate()` on at least one
    sample, for every operator selected for min/max quantization and every non-constant operand the
    materialisation's wrapper call is the parameter computation on the min/max recorded for that tensor -/
theorem calibrated_lookup_never_missing (rx : String → String → Bool) (env : Env) (st : Recipe.State) (sgi : Nat)
    (sg : Subgraph) (hsg : env.model.subgraphs[sgi]? = some sg)
    (previous : Option Qsvs) (samples : List Contents) (hne : samples ≠ []) (qs : Qsvs)
    (hneed : Recipe.needCalibration st = true)
    (h : calibrate rx env st sgi previous samples = .ok qs)
    (op : Op) (k scope : String) (hop : CalibProofs.IsOp env sg op k) (hscope : opScope sg op = .ok scope)
    (hsel : (Recipe.resolve rx st k scope).1 = Tables.algMinMax)
    (i : Int) (hi : i ∈ op.inputs ++ op.outputs) (hi1 : i ≠ -1) (t : Tensor) (ht : tensorAt sg i = .ok t)
    (hnc : constData env t = none)
    (oi : OpInfo) (tc : TCfg) (hact : oi.cfg.act = some tc) (inbound : Bool) :
    ∃ mn mx, Py.dictGet? qs t.name = some (some (mn, mx)) ∧
      wrapper env qs oi t inbound none =
        (do let r ← tensorQuantParams env oi (some (mn, mx)) tc none
            mkReq t.name oi inbound (some r) false) := by
  obtain ⟨mn, mx, hs⟩ := C10.stats_complete rx env st sgi sg hsg previous samples hne qs hneed h op k scope hop hscope hsel
    i hi hi1 t ht hnc
  exact ⟨mn, mx, hs, wrapper_uses_recorded_stats env qs oi t inbound tc mn mx hnc hact hs⟩

/-! ## non-vacuity: a FULLY_CONNECTED under a static-range rule with recorded statistics for its input -/
namespace Witness
open PipelineWFExample

def cfgSRQ : OpCfg :=
  { act := some { bits := 8, symmetric := false }, weight := some { bits := 8, symmetric := true, gran := .channelwise }, cp := .integer }
def oiA : OpInfo := { sgIdx := 0, op := opA, opName := "FULLY_CONNECTED", opId := 0, cfg := cfgSRQ }
def xT : Tensor := T "x" 0 [1,2] 0
def one : FArr := ⟨⟨[1, 1], [1]⟩, .f32⟩
def mone : FArr := ⟨⟨[1, 1], [-1]⟩, .f32⟩
def qsA : Qsvs := [("x", some (mone, one))]

example : constData envA xT = none ∧ oiA.cfg.act = some { bits := 8, symmetric := false } ∧
    Py.dictGet? qsA xT.name = some (some (mone, one)) := ⟨rfl, rfl, rfl⟩

/-- the instance evaluates to a real request (no exception), carrying parameters computed from [-1, 1] -/
example : (match wrapper envA qsA oiA xT true none with | .ok _ => true | .error _ => false) = true := by
  rw [wrapper_uses_recorded_stats envA qsA oiA xT true { bits := 8, symmetric := false } mone one rfl rfl rfl]
  decide +kernel

end Witness

end C10
