import QProofs.SharingProofs
import QProps.C15
/-!
# C15b — soundness of the buffer-sharing check

`Mat.checkBufferSharing m res = .ok ()` guarantees, for every constant buffer (a buffer that holds
data):
1. all operand occurrences of the buffer carry requests that are `compatReq`-compatible with the
   request of the first occurrence;
2. if there is exactly one operand occurrence, its request is self-compatible (all its consumers,
   including the graph-output pseudo consumer, are compatible with the first consumer);
3. a tensor that no operator reads does not share its buffer with an operand whose buffer is
   rewritten (`quantTensor` / `addDequant` as the first transformation of a consumer).
`QProps/C15.lean` says what compatibility of two single requests means; `single_consumers_agree`
combines both.
-/
open Graph Mat

namespace C15

/-- `bufferToTensors m` is a dictionary (its keys are pairwise distinct): being an entry and being
    the result of a lookup are the same thing, so the membership hypotheses `(b, l) ∈ bufferToTensors m`
    below can equally be read as `Py.dictGet? (bufferToTensors m) b = some l` -/
theorem b2t_mem_iff (m : Model) (b : Nat) (l : List String) :
    (b, l) ∈ bufferToTensors m ↔ Py.dictGet? (bufferToTensors m) b = some l :=
  SharingProofs.b2t_mem_iff m b l

/-- (1) all operand occurrences of one constant buffer are compatible with the first one -/
theorem sharing_pairwise (m : Model) (res : List (String × CReq)) (h : checkBufferSharing m res = .ok ())
    (b : Nat) (first : String) (rest : List String) (hb : (b, first :: rest) ∈ bufferToTensors m)
    (hne : rest ≠ []) (hdata : ∃ c, m.buffers[b]? = some (some c)) :
    ∃ fp, Py.dictGet? res first = some fp ∧
      ∀ n ∈ rest, ∃ tp, Py.dictGet? res n = some tp ∧ compatReq fp tp = .ok true :=
  SharingProofs.sharing_pairwise m res h b first rest hb hne hdata

/-- (2) a constant with a single operand occurrence has mutually compatible consumers (incl. the
    graph output pseudo consumer): its request is self-compatible -/
theorem sharing_single (m : Model) (res : List (String × CReq)) (h : checkBufferSharing m res = .ok ())
    (b : Nat) (only : String) (hb : (b, [only]) ∈ bufferToTensors m)
    (hdata : ∃ c, m.buffers[b]? = some (some c))
    (p : CReq) (hp : Py.dictGet? res only = some p) : compatReq p p = .ok true :=
  SharingProofs.sharing_single m res h b only hb hdata p hp

/-- (3) a constant that no operator reads never shares a buffer that is rewritten for an operand -/
theorem sharing_unread (m : Model) (res : List (String × CReq)) (h : checkBufferSharing m res = .ok ())
    (sg : Subgraph) (hsg : sg ∈ m.subgraphs) (t : Tensor) (ht : t ∈ sg.tensors)
    (hun : t.name ∉ (bufferToTensors m).flatMap (·.2))
    (hdata : ∃ c, m.buffers[t.buffer]? = some (some c))
    (n : String) (hn : n ∈ (Py.dictGet? (bufferToTensors m) t.buffer).getD [])
    (sp : CReq) (hsp : Py.dictGet? res n = some sp) :
    ∀ c ∈ sp.consumers.getD [], ∀ x, c.xfs.head? = some x → x ≠ .quantTensor ∧ x ≠ .addDequant :=
  SharingProofs.sharing_unread m res h sg hsg t ht hun hdata n hn sp hsp

/-- (3) with the sharing tensors given as an entry of `bufferToTensors m` -/
theorem sharing_unread_entry (m : Model) (res : List (String × CReq)) (h : checkBufferSharing m res = .ok ())
    (sg : Subgraph) (hsg : sg ∈ m.subgraphs) (t : Tensor) (ht : t ∈ sg.tensors)
    (hun : t.name ∉ (bufferToTensors m).flatMap (·.2))
    (hdata : ∃ c, m.buffers[t.buffer]? = some (some c))
    (l : List String) (hl : (t.buffer, l) ∈ bufferToTensors m) (n : String) (hn : n ∈ l)
    (sp : CReq) (hsp : Py.dictGet? res n = some sp) :
    ∀ c ∈ sp.consumers.getD [], ∀ x, c.xfs.head? = some x → x ≠ .quantTensor ∧ x ≠ .addDequant := by
  refine sharing_unread m res h sg hsg t ht hun hdata n ?_ sp hsp
  rw [(b2t_mem_iff m t.buffer l).1 hl]
  exact hn

/-- self-compatibility, consumer side: every consumer is `compatO2T`-compatible with the first -/
theorem self_compat_consumers (p : CReq) (h : compatReq p p = .ok true)
    (cs : List CO2T) (hcs : p.consumers = some cs) :
    ∃ c0, cs.head? = some c0 ∧ ∀ c ∈ cs, compatO2T c c0 = .ok true := by
  rcases SharingProofs.compatReq_consumers p p h with ⟨hn, _⟩ | ⟨ca, _, a0, _, hca, _, ha0, _, hA, _, _⟩
  · rw [hn] at hcs; cases hcs
  · rw [hca] at hcs; cases hcs
    exact ⟨a0, ha0, hA⟩

/-- consequence of (2): all consumers of such a constant read it through the same kind of source
    as the first consumer (or carry literally the same transformations and `==`-equal parameters) -/
theorem single_consumers_agree (p : CReq) (h : compatReq p p = .ok true)
    (cs : List CO2T) (hcs : p.consumers = some cs) (c0 : CO2T) (hc0 : cs.head? = some c0)
    (x0 : Xf) (hx0 : c0.xfs.head? = some x0) :
    ∀ c ∈ cs, ∀ xc, c.xfs.head? = some xc →
      (floatSrc xc = true ∧ floatSrc x0 = true) ∨ (quantSrc xc = true ∧ quantSrc x0 = true) ∨
        (c.xfs = c0.xfs ∧ optParamEq c.param c0.param = true) := by
  obtain ⟨c0', h0', hall⟩ := self_compat_consumers p h cs hcs
  rw [hc0] at h0'; cases h0'
  intro c hc xc hxc
  exact compat_same_class c c0 xc x0 hxc hx0 (hall c hc)

/-- consequence of (2): every quantizing consumer carries parameters `==`-equal to those of the
    first consumer, when that one quantizes too -/
theorem single_consumers_params (p : CReq) (h : compatReq p p = .ok true)
    (cs : List CO2T) (hcs : p.consumers = some cs) (c0 : CO2T) (hc0 : cs.head? = some c0)
    (x0 : Xf) (hx0 : c0.xfs.head? = some x0) (hq0 : x0 ≠ .noQuant) :
    ∀ c ∈ cs, ∀ xc, c.xfs.head? = some xc → xc ≠ .noQuant →
      optParamEq c.param c0.param = true := by
  obtain ⟨c0', h0', hall⟩ := self_compat_consumers p h cs hcs
  rw [hc0] at h0'; cases h0'
  intro c hc xc hxc hqc
  exact compat_params c c0 xc x0 hxc hx0 hqc hq0 (hall c hc)

/-- (2) + C15, end to end: a checked model, a constant with a single operand occurrence -/
theorem sharing_single_consumers (m : Model) (res : List (String × CReq))
    (h : checkBufferSharing m res = .ok ())
    (b : Nat) (only : String) (hb : (b, [only]) ∈ bufferToTensors m)
    (hdata : ∃ c, m.buffers[b]? = some (some c))
    (p : CReq) (hp : Py.dictGet? res only = some p)
    (cs : List CO2T) (hcs : p.consumers = some cs) (c0 : CO2T) (hc0 : cs.head? = some c0)
    (x0 : Xf) (hx0 : c0.xfs.head? = some x0) :
    ∀ c ∈ cs, ∀ xc, c.xfs.head? = some xc →
      (floatSrc xc = true ∧ floatSrc x0 = true) ∨ (quantSrc xc = true ∧ quantSrc x0 = true) ∨
        (c.xfs = c0.xfs ∧ optParamEq c.param c0.param = true) :=
  single_consumers_agree p (sharing_single m res h b only hb hdata p hp) cs hcs c0 hc0 x0 hx0

/-! ## non-vacuity: the check passes on compatible requests and fails on incompatible ones -/

def exReq (name : String) (cons : List (Xf × Nat)) : String × CReq :=
  (name, ⟨name, none, some (cons.map fun c => ⟨0, [c.1], some (.nonlinear c.2 none)⟩)⟩)

def exOut : String × CReq := ("out", ⟨"out", some ⟨0, [.noQuant], none⟩, none⟩)

/-- part (1). One operator `out = op(w1, w2)`; `w1` and `w2` share the constant buffer 1 -/
def exModel : Model :=
  { subgraphs := [{ tensors := [⟨"out", 0, [], 0, none⟩, ⟨"w1", 0, [], 1, none⟩, ⟨"w2", 0, [], 1, none⟩],
                    ops := [{ code := 0, inputs := [1, 2], outputs := [0] }],
                    inputs := [], outputs := [0] }],
    buffers := [none, some (.inl 0)], opcodes := [0], sigs := [] }

/-- both tensors are quantized with `==`-equal parameters -/
def exResOk : List (String × CReq) := [exOut, exReq "w1" [(.quantTensor, 8)], exReq "w2" [(.quantTensor, 8)]]

/-- the two tensors ask for different parameters -/
def exResBad : List (String × CReq) := [exOut, exReq "w1" [(.quantTensor, 8)], exReq "w2" [(.quantTensor, 4)]]

theorem exModel_b2t : bufferToTensors exModel = [(0, ["out"]), (1, ["w1", "w2"])] := by decide
theorem exModel_ok : checkBufferSharing exModel exResOk = .ok () := by rfl
theorem exModel_bad : checkBufferSharing exModel exResBad = .error .runtimeError := by rfl

/-- `sharing_pairwise` applies to the accepted instance -/
example : ∃ fp, Py.dictGet? exResOk "w1" = some fp ∧
    ∀ n ∈ ["w2"], ∃ tp, Py.dictGet? exResOk n = some tp ∧ compatReq fp tp = .ok true :=
  sharing_pairwise exModel exResOk exModel_ok 1 "w1" ["w2"] (by rw [exModel_b2t]; decide) (by decide) ⟨_, rfl⟩

/-- parts (2) and (3). One operator `out = op(w)`; the tensor `g` (read by no operator, e.g. a graph
    output) shares the constant buffer 1 with `w` -/
def exModel2 : Model :=
  { subgraphs := [{ tensors := [⟨"out", 0, [], 0, none⟩, ⟨"w", 0, [], 1, none⟩, ⟨"g", 0, [], 1, none⟩],
                    ops := [{ code := 0, inputs := [1], outputs := [0] }],
                    inputs := [], outputs := [0, 2] }],
    buffers := [none, some (.inl 0)], opcodes := [0], sigs := [] }

theorem exModel2_b2t : bufferToTensors exModel2 = [(0, ["out"]), (1, ["w"])] := by decide

/-- accepted: `w` is read as a float constant by both of its consumers -/
theorem exModel2_ok :
    checkBufferSharing exModel2 [exOut, exReq "w" [(.addQuant, 8), (.noQuant, 8)]] = .ok () := by rfl
/-- rejected by part (2): the two consumers of `w` disagree on the parameters -/
theorem exModel2_bad_single :
    checkBufferSharing exModel2 [exOut, exReq "w" [(.addQuant, 8), (.addQuant, 4)]] = .error .runtimeError := by rfl
/-- rejected by part (3): the buffer of `w` would be rewritten although the unread tensor `g` shares it -/
theorem exModel2_bad_unread :
    checkBufferSharing exModel2 [exOut, exReq "w" [(.quantTensor, 8)]] = .error .runtimeError := by rfl
/-- the same request is accepted when nothing else shares the buffer (so it is part (3) that rejects) -/
theorem exModel2_ok_unshared :
    checkBufferSharing { exModel2 with subgraphs := exModel2.subgraphs.map fun sg => { sg with tensors := sg.tensors.take 2 } }
      [exOut, exReq "w" [(.quantTensor, 8)]] = .ok () := by rfl

end C15
