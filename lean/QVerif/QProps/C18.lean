import QProofs.ValidateProofs
/-!
# C18 — validate() reports the true per-tensor error, once per tensor (model side)
-/
open Validate

namespace C18

theorem mse_nonneg (a b : List Rat) (v : Rat) (h : mse a b = .ok v) : 0 ≤ v := ValidateProofs.mse_nonneg a b v h
theorem mse_refl (a : List Rat) : mse a a = .ok 0 := ValidateProofs.mse_refl a
theorem mse_symm (a b : List Rat) : mse a b = mse b a := ValidateProofs.mse_symm a b
theorem mdr_nonneg (a b : List Rat) (v : Rat) (h : mdr a b = .ok v) : 0 ≤ v := ValidateProofs.mdr_nonneg a b v h
theorem mdr_refl (a : List Rat) : mdr a a = .ok 0 := ValidateProofs.mdr_refl a

/-- comparing a model with itself: all per-sample values are 0, so every reported mean is 0 -/
theorem self_compare_zero (l : List Rat) (h : ∀ x ∈ l, x = 0) : meanR l = 0 := ValidateProofs.meanR_zeros l h

/-- **exactly one entry per tensor, under exactly one of inputs / outputs / constants /
    intermediates, with its value; nothing else** -/
theorem one_entry_per_tensor (result : List (String × Rat)) (hnd : (result.map (·.1)).Nodup)
    (ins outs cs : List String) (g : Groups) (h : fileGroups result ins outs cs = .ok g) :
    ((g.inputs ++ g.outputs ++ g.constants ++ g.intermediates).map (·.1)).Nodup ∧
    ∀ e : String × Rat, e ∈ g.inputs ++ g.outputs ++ g.constants ++ g.intermediates ↔ e ∈ result :=
  ValidateProofs.fileGroups_partition result hnd ins outs cs g h

theorem inputs_filed (result : List (String × Rat)) (hnd : (result.map (·.1)).Nodup)
    (ins outs cs : List String) (g : Groups) (h : fileGroups result ins outs cs = .ok g) :
    ∀ n ∈ ins, ∃ v, (n, v) ∈ g.inputs := ValidateProofs.inputs_filed result hnd ins outs cs g h

end C18
