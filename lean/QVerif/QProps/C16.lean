import QProofs.SerializeProofs
/-!
# C16 — large-model (external buffer) serialization (model side)

The flatbuffer writer is a parameter `fb`; `LenInvariant fb` says its output length does not
depend on the VALUES of the offset/size fields.  (The real writer drops default-valued (0) fields;
offsets are ≥ 16 and sizes of externalised buffers are ≥ 1 after repair D13, so no real field is a
default — the harness checks the consequence, equal lengths, on every run.)
-/
open Ser SerializeProofs

namespace C16

/-- every external constant is 16-byte aligned, behind the flatbuffer, in bounds, non-overlapping
    with the next one, has the recorded size, and the recorded slice is exactly its bytes -/
theorem layout (fb : List (Option (Nat × Nat)) → List Nat) (hfb : LenInvariant fb)
    (bufs : List (Option (List Nat))) :
    let ext := external bufs
    let dummyLen := (fb (fields bufs (ext.map fun _ => (1, 1)))).length
    let offs := offsets dummyLen (ext.map (·.length))
    let out := serializeLarge fb bufs
    offs.length = ext.length ∧
    ∀ k c off size, ext[k]? = some c → offs[k]? = some (off, size) →
      size = c.length ∧ off % 16 = 0 ∧ dummyLen ≤ off ∧ off + size ≤ out.length ∧ slice out off size = c ∧
      (∀ off' size', offs[k+1]? = some (off', size') → off + size ≤ off') :=
  SerializeProofs.layout fb hfb bufs

/-- the offset/size fields written for buffer `i` select exactly buffer `i`'s data -/
theorem fields_point_to_data (fb : List (Option (Nat × Nat)) → List Nat) (hfb : LenInvariant fb)
    (bufs : List (Option (List Nat))) (i : Nat) (d : List Nat) (hd : bufs[i]? = some (some d)) (hne : d ≠ []) :
    let ext := external bufs
    let dummyLen := (fb (fields bufs (ext.map fun _ => (1, 1)))).length
    let offs := offsets dummyLen (ext.map (·.length))
    ∃ off, (fields bufs offs)[i]? = some (some (off, d.length)) ∧ slice (serializeLarge fb bufs) off d.length = d :=
  SerializeProofs.fields_point_to_data fb hfb bufs i d hd hne

end C16
