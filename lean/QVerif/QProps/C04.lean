import QModel.Pipeline
/-!
# C04 — quantization parameters: op-level rules of the TFLite quantization spec (model side)

The scalar reference laws (positive finite scale, zero point in range, symmetric ⇒ 0) are C17's
theorems; this file proves the op-level rules on the materialisation model.
-/
open Graph Mat Arith Cfg Num Nd

namespace C04

/-- bias: zero points are 0, symmetric, 32 bits (64 for 16-bit activations); the scale array is the
    (squeezed) element-wise float product of input scale and weight scale -/
theorem bias_params (bias : FArr) (inp w : QParams) (qp : QParams) (q : IArr)
    (h : quantizeBias bias inp w = .ok (qp, q)) :
    qp.symmetric = true ∧ qp.bits = (if inp.bits = 16 then 64 else 32) ∧ qp.zp.w = 32 ∧
      (∀ z ∈ qp.zp.arr.data, z = 0) ∧
      ∃ prod, zipB (fun a b => (inp.scale.pr.join w.scale.pr).chk (a * b)) inp.scale.arr w.scale.arr = .ok prod ∧
        qp.scale = ⟨squeeze1 prod, inp.scale.pr.join w.scale.pr⟩ := by
  unfold quantizeBias at h
  simp only [bind, Except.bind, pure, Except.pure] at h
  cases hp : zipB (fun a b => (inp.scale.pr.join w.scale.pr).chk (a * b)) inp.scale.arr w.scale.arr with
  | error e => simp [hp] at h
  | ok prod =>
    simp only [hp] at h
    split at h
    · cases h
    · rename_i q' hq
      simp only [Except.ok.injEq, Prod.mk.injEq] at h
      obtain ⟨h1, _⟩ := h
      subst h1
      refine ⟨rfl, rfl, rfl, ?_, prod, rfl, rfl⟩
      intro z hz
      simp only [Arr.map, List.mem_map] at hz
      obtain ⟨_, _, rfl⟩ := hz
      rfl

/-- the fixed output ranges hard-coded in the runtime kernels -/
theorem fixed_ranges :
    (fixedParams true 8).map (fun p => (p.scale.arr.data, p.zp.arr.data, p.symmetric)) = some ([1/256], [-128], false) ∧
    (fixedParams true 16).map (fun p => (p.scale.arr.data, p.zp.arr.data, p.symmetric)) = some ([1/32768], [0], true) ∧
    (fixedParams false 8).map (fun p => (p.scale.arr.data, p.zp.arr.data, p.symmetric)) = some ([1/128], [0], false) ∧
    (fixedParams false 16).map (fun p => (p.scale.arr.data, p.zp.arr.data, p.symmetric)) = some ([1/32768], [0], true) := by
  refine ⟨?_, ?_, ?_, ?_⟩ <;> rfl

/-- a runtime (non-constant) tensor that is handed another tensor's parameters carries exactly those
    parameters: this is how outputs share their input's parameters (reshape, transpose, split,
    strided-slice, average-pool) and concatenation inputs share the output's -/
theorem shared_params_kept (env : Env) (qsvs : Qsvs) (oi : OpInfo) (t : Tensor) (inbound : Bool) (p : Param)
    (r : CReq) (hnc : constData env t = none) (h : wrapper env qsvs oi t inbound (some p) = .ok r) :
    ∃ xfs, tensorXfs oi.cfg inbound false = .ok xfs ∧
      r = (if inbound then ⟨t.name, none, some [⟨oi.opId, xfs, some p⟩]⟩ else ⟨t.name, some ⟨oi.opId, xfs, some p⟩, none⟩) := by
  unfold wrapper at h
  simp only [hnc, Option.isSome_none, Bool.false_and, Bool.false_eq_true, if_false, bind, Except.bind, pure, Except.pure] at h
  have hp : (match some p, oi.cfg.act with
      | none, some tc => (Except.error PyErr.valueError : PyM (Option Param))
      | some (.uniform qp none), _ => Except.ok (some (.uniform qp none))
      | g, _ => Except.ok g) = Except.ok (some p) := by
    cases p with
    | uniform qp d => cases d <;> rfl
    | nonlinear b d => rfl
  -- evaluate the parameter selection: the tensor is not constant, so the given parameters pass through
  cases p with
  | uniform qp d =>
    cases d with
    | none =>
      simp only [] at h
      unfold mkReq at h
      simp only [bind, Except.bind, pure, Except.pure] at h
      cases hx : tensorXfs oi.cfg inbound false with
      | error e => simp [hx] at h
      | ok xfs => simp only [hx, Except.ok.injEq] at h; exact ⟨xfs, rfl, by rw [← h]⟩
    | some dd =>
      simp only [] at h
      unfold mkReq at h
      simp only [bind, Except.bind, pure, Except.pure] at h
      cases hx : tensorXfs oi.cfg inbound false with
      | error e => simp [hx] at h
      | ok xfs => simp only [hx, Except.ok.injEq] at h; exact ⟨xfs, rfl, by rw [← h]⟩
  | nonlinear b d =>
    simp only [] at h
    unfold mkReq at h
    simp only [bind, Except.bind, pure, Except.pure] at h
    cases hx : tensorXfs oi.cfg inbound false with
    | error e => simp [hx] at h
    | ok xfs => simp only [hx, Except.ok.injEq] at h; exact ⟨xfs, rfl, by rw [← h]⟩

end C04
