import QModel.Recipe
/-!
# C13 — accepted (op, config) pairs are well-formed for the runtime; others are refused

Decision-logic half (complete, over the tables regenerated from the live code) plus the
classification of every accepted point into a runtime mode with legal parameters.
The interpreter half ("the runtime prepares it") is executed by the harness.
-/
open Cfg Recipe

namespace C13

/-- the unrolling code (`_unroll_json_config`, `update_default_config_policy`) produces exactly the
    policy object that the live module exposes: kernel-checked against the model of the unrolling -/
theorem unroll_matches : Policy.unrollPolicy Tables.policyRawJson = Tables.defaultPolicyUnrolled := by
  decide +kernel

/-- the policy registered for min/max is the default policy; the float-casting policy is empty -/
theorem registered_policies :
    Py.dictGet? Tables.policyRegistry Tables.algMinMax = some (some Tables.defaultPolicyUnrolled) ∧
    Py.dictGet? Tables.policyRegistry Tables.algFloatCasting = some (some []) := by
  decide +kernel

/-- every registered algorithm has a check function and a policy entry (no `KeyError` path) -/
theorem registries_consistent :
    Tables.registry.all (fun e => (Py.dictGet? Tables.checkRegistry e.1).isSome &&
      (Py.dictGet? Tables.policyRegistry e.1).isSome) = true := by
  decide +kernel

/-- `skip_checks` accepts anything -/
theorem skip_accepts (alg op : String) (c : OpCfg) (h : c.skipChecks = true) : Policy.accepts alg op c = true := by
  unfold Policy.accepts; simp [h]

/-- every unsupported combination is refused at update time for a specific operator -/
theorem refuse_update (st : State) (regex op : String) (cfg : Option OpCfg) (alg : String)
    (hop : op ≠ Tables.allOpsKey) (halg : alg ≠ Tables.algNoQuantize)
    (h : Policy.accepts alg op (cfg.getD {}) = false) :
    add st regex op cfg alg = .error .valueError := by
  unfold add
  simp only []
  rw [if_neg (by simpa using hop), if_pos (by simp [halg, h])]

/-- … and accepted ones are never refused -/
theorem accept_update (st : State) (regex op : String) (cfg : Option OpCfg) (alg : String)
    (h : Policy.accepts alg op (cfg.getD {}) = true) :
    ∃ st', add st regex op cfg alg = .ok st' := by
  unfold add
  simp only []
  split
  · exact ⟨_, rfl⟩
  · rw [if_neg (by simp [h])]
    split <;> exact ⟨_, rfl⟩

/-- what acceptance without `skip_checks` means -/
theorem accepts_unfold (alg op : String) (c : OpCfg) (hs : c.skipChecks = false)
    (h : Policy.accepts alg op c = true) :
    Policy.registered alg op = true ∧ ∃ fn, Py.dictGet? Tables.checkRegistry alg = some fn ∧
      Policy.algCheck fn ((Py.dictGet? Tables.policyRegistry alg).getD none) op c = true := by
  unfold Policy.accepts at h
  simp only [hs, Bool.false_or, Bool.and_eq_true] at h
  refine ⟨h.1, ?_⟩
  cases hfn : Py.dictGet? Tables.checkRegistry alg with
  | none => simp [hfn] at h
  | some fn => exact ⟨fn, rfl, by simpa [hfn] using h.2⟩

theorem algCheck_minmax (p : Option (List (String × List OpCfg))) (op : String) (c : OpCfg) :
    Policy.algCheck "naive_min_max_quantize.check_op_quantization_config" p op c = Policy.minMaxCheck p op c := by
  have h : ("naive_min_max_quantize.check_op_quantization_config" == "naive_min_max_quantize.check_op_quantization_config") = true := by decide
  unfold Policy.algCheck; rw [if_pos h]

theorem algCheck_fc (p : Option (List (String × List OpCfg))) (op : String) (c : OpCfg) :
    Policy.algCheck "float_casting.check_op_quantization_config" p op c = Policy.floatCastingCheck p op c := by
  have h1 : ¬ ("float_casting.check_op_quantization_config" == "naive_min_max_quantize.check_op_quantization_config") = true := by decide
  have h2 : ("float_casting.check_op_quantization_config" == "float_casting.check_op_quantization_config") = true := by decide
  unfold Policy.algCheck; rw [if_neg h1, if_pos h2]

/-- runtime mode table: the legal shapes of a min/max config for an operator -/
def modeOK (op : String) (c : OpCfg) : Bool :=
  match c.weight with
  | none => false
  | some w =>
    w.dtype == .int && (w.bits == 4 || w.bits == 8) && w.blockSize == 0 && w.gran != .blockwise &&
    !c.skipChecks &&
    (match c.cp, c.act with
     | .integer, some a =>   -- static range
        a.dtype == .int && (a.bits == 8 || a.bits == 16) && a.gran == .tensorwise &&
        (a.bits != 16 || a.symmetric) && w.symmetric && !c.explicitDeq
     | .integer, none =>     -- dynamic range
        Tables.drqOps.contains op && w.symmetric && !c.explicitDeq
     | .float, none =>       -- weight only
        Tables.woOps.contains op && c.explicitDeq
     | .float, some _ => false)

/-- every entry of the (regenerated) policy is a legal runtime mode for its operator,
    and only registered operators appear in the policy -/
theorem policy_entries_legal :
    Tables.defaultPolicyUnrolled.all (fun e =>
      Policy.registered Tables.algMinMax e.1 && e.2.all (fun c => modeOK e.1 c && ctorOk c)) = true := by
  decide +kernel

theorem mem_of_dictGet {κ ν} [BEq κ] [LawfulBEq κ] (d : List (κ × ν)) (k : κ) (v : ν)
    (h : Py.dictGet? d k = some v) : (k, v) ∈ d := by
  unfold Py.dictGet? at h
  cases hf : d.find? (·.1 == k) with
  | none => simp [hf] at h
  | some e =>
    simp [hf] at h
    have hm := List.mem_of_find?_eq_some hf
    have hk := List.find?_some hf
    simp at hk
    subst h; rw [← hk]; exact hm

/-- **accepted ⇒ legal mode** for the min/max algorithm, for *every* config (not only lattice points) -/
theorem accepted_minmax_legal (op : String) (c : OpCfg) (hs : c.skipChecks = false)
    (h : Policy.accepts Tables.algMinMax op c = true) : modeOK op c = true := by
  obtain ⟨_, fn, hfn, hchk⟩ := accepts_unfold _ _ _ hs h
  have hfn' : fn = "naive_min_max_quantize.check_op_quantization_config" := by
    have : Py.dictGet? Tables.checkRegistry Tables.algMinMax
        = some "naive_min_max_quantize.check_op_quantization_config" := by decide +kernel
    rw [this] at hfn; exact (Option.some.inj hfn).symm
  subst hfn'
  rw [registered_policies.1, algCheck_minmax] at hchk
  simp only [Option.getD_some] at hchk
  unfold Policy.minMaxCheck at hchk
  cases hw : c.weight with
  | none => simp [hw] at hchk
  | some w =>
    simp only [hw, Bool.and_eq_true] at hchk
    have hpol := hchk.1.2
    unfold Policy.policyCheck at hpol
    simp only [] at hpol
    cases hd : Py.dictGet? Tables.defaultPolicyUnrolled op with
    | none => simp [hd] at hpol
    | some cfgs =>
      simp only [hd] at hpol
      have hmem := mem_of_dictGet _ _ _ hd
      have hall := policy_entries_legal
      rw [List.all_eq_true] at hall
      have he := hall _ hmem
      simp only [Bool.and_eq_true, List.all_eq_true] at he
      have hc : c ∈ cfgs := by simpa using hpol
      exact (he.2 c hc).1

/-- accepted float-casting configs are float16 weight-only on a supported operator -/
theorem accepted_float_casting (op : String) (c : OpCfg) (hs : c.skipChecks = false)
    (h : Policy.accepts Tables.algFloatCasting op c = true) :
    Tables.fcSupportedOps.contains op = true ∧ c.cp = .float ∧ c.act = none ∧
      ∃ w, c.weight = some w ∧ w.bits = 16 ∧ w.dtype = .float := by
  obtain ⟨_, fn, hfn, hchk⟩ := accepts_unfold _ _ _ hs h
  have hfn' : fn = "float_casting.check_op_quantization_config" := by
    have : Py.dictGet? Tables.checkRegistry Tables.algFloatCasting
        = some "float_casting.check_op_quantization_config" := by decide +kernel
    rw [this] at hfn; exact (Option.some.inj hfn).symm
  subst hfn'
  rw [registered_policies.2, algCheck_fc] at hchk
  simp only [Option.getD_some] at hchk
  unfold Policy.floatCastingCheck at hchk
  simp only [Bool.and_eq_true, beq_iff_eq, Option.isNone_iff_eq_none] at hchk
  obtain ⟨⟨⟨⟨_, hcp⟩, hact⟩, hop⟩, hw⟩ := hchk
  refine ⟨hop, hcp, hact, ?_⟩
  cases hwc : c.weight with
  | none => simp [hwc] at hw
  | some w =>
    simp only [hwc, Bool.and_eq_true, beq_iff_eq, decide_eq_true_eq] at hw
    exact ⟨w, rfl, hw.1, hw.2⟩

/-- non-vacuity: the accepted set is not empty, e.g. int8 channel-wise DRQ on FULLY_CONNECTED -/
example : Policy.accepts Tables.algMinMax "FULLY_CONNECTED"
    { weight := some { bits := 8, symmetric := true, gran := .channelwise }, cp := .integer } = true := by
  decide +kernel

end C13
