import QProps.C04
import QProps.C17b
import Mathlib.Tactic.Ring
import Mathlib.Tactic.Linarith
/-!
# C07 — what the quantizer contributes to the numerics of a full-integer model

The fixed-point kernels of LiteRT are outside this repository.  What makes their integer accumulation
*meaningful* is decided here: the bias is stored with zero point 0 at scale `s_x · s_w`
(`C04.bias_params`), weights are symmetric (`C17.sym_zp_zero`), so the int32 accumulator of a
fully-connected / convolution output channel, multiplied by `s_x · s_w`, is **exactly** the float
operator applied to the dequantized operands (`accumulator_exact`); each dequantized operand is within
half a step of the float value it replaces (`C17.dq_q_rounded`), which bounds the deviation of that
float operator from the original one (`dot_perturbation`).  The requantization of the accumulator to
the output scale and the saturation behaviour are the runtime's; they are executed, not proved.
-/

namespace C07

/-- integer accumulator of one output channel: Σ (q_x − z_x)·q_w + q_b -/
def acc (zx : Int) : List Int → List Int → Int → Int
  | qx :: xs, qw :: ws, qb => (qx - zx) * qw + acc zx xs ws qb
  | _, _, qb => qb

/-- the float operator on dequantized operands: Σ s_x(q_x − z_x) · s_w q_w + (s_x s_w) q_b -/
def deqDot (sx sw : Rat) (zx : Int) : List Int → List Int → Int → Rat
  | qx :: xs, qw :: ws, qb => (sx * ((qx - zx : Int) : Rat)) * (sw * (qw : Rat)) + deqDot sx sw zx xs ws qb
  | _, _, qb => (sx * sw) * (qb : Rat)

/-- **bias scale = input scale × weight scale, zero point 0 ⇒ the integer accumulator is exact**: for
    every operand vector, scale and zero point -/
theorem accumulator_exact (sx sw : Rat) (zx : Int) (qx qw : List Int) (qb : Int) :
    (sx * sw) * ((acc zx qx qw qb : Int) : Rat) = deqDot sx sw zx qx qw qb := by
  induction qx generalizing qw with
  | nil => simp [acc, deqDot]
  | cons x xs ih =>
    cases qw with
    | nil => simp [acc, deqDot]
    | cons w ws =>
      simp only [acc, deqDot]
      rw [← ih ws]
      push_cast
      ring

/-- with any other bias scale `sb ≠ s_x s_w` (or a bias zero point) the identity fails already for the
    empty operand vector: the rule is necessary, not a convention -/
theorem bias_scale_necessary (sx sw sb : Rat) (h : sb ≠ sx * sw) :
    ∃ qb : Int, (sx * sw) * ((acc 0 [] [] qb : Int) : Rat) ≠ sb * (qb : Rat) := by
  refine ⟨1, ?_⟩
  simp only [acc, Int.cast_one, mul_one]
  exact fun e => h e.symm

/-- float dot product -/
def dot : List Rat → List Rat → Rat
  | x :: xs, w :: ws => x * w + dot xs ws
  | _, _ => 0

/-- perturbation bound: operands within `dx` / `dw` of the float values, |x| ≤ X, |w'| ≤ W ⇒ the dot
    product moves by at most n·(X·dw + W·dx) — the "fixed fraction of the activation magnitude" of
    the statement comes from `dx = s_x/2`, `dw = s_w/2` (C17.dq_q_rounded) -/
theorem dot_perturbation (X W dx dw : Rat) (hX : 0 ≤ X) (hW : 0 ≤ W) (hdx : 0 ≤ dx) (hdw : 0 ≤ dw) :
    ∀ (xs xs' ws ws' : List Rat), xs.length = xs'.length → ws.length = ws'.length → xs.length = ws.length →
      (∀ p ∈ xs.zip xs', |p.1 - p.2| ≤ dx ∧ |p.1| ≤ X) →
      (∀ p ∈ ws.zip ws', |p.1 - p.2| ≤ dw ∧ |p.2| ≤ W) →
      |dot xs ws - dot xs' ws'| ≤ (xs.length : Rat) * (X * dw + W * dx) := by
  intro xs
  induction xs with
  | nil =>
    intro xs' ws ws' h1 h2 h3 _ _
    have e1 : xs' = [] := List.length_eq_zero_iff.mp (by simpa using h1.symm)
    have e2 : ws = [] := List.length_eq_zero_iff.mp (by simpa using h3.symm)
    subst e1 e2
    have e3 : ws' = [] := List.length_eq_zero_iff.mp (by simpa using h2.symm)
    subst e3
    simp [dot]
  | cons x xs ih =>
    intro xs' ws ws' h1 h2 h3 hx hw
    cases xs' with
    | nil => simp at h1
    | cons x' xs' =>
      cases ws with
      | nil => simp at h3
      | cons w ws =>
        cases ws' with
        | nil => simp at h2
        | cons w' ws' =>
          simp only [List.length_cons, Nat.add_right_cancel_iff] at h1 h2 h3
          have hx0 := hx (x, x') (by simp)
          have hw0 := hw (w, w') (by simp)
          have ihh := ih xs' ws ws' h1 h2 h3
            (fun p hp => hx p (by simp only [List.zip_cons_cons, List.mem_cons]; exact Or.inr hp))
            (fun p hp => hw p (by simp only [List.zip_cons_cons, List.mem_cons]; exact Or.inr hp))
          simp only [dot, List.length_cons, Nat.cast_add, Nat.cast_one]
          have e : x * w + dot xs ws - (x' * w' + dot xs' ws') =
              (x * (w - w') + w' * (x - x')) + (dot xs ws - dot xs' ws') := by ring
          rw [e]
          have t1 : |x * (w - w')| ≤ X * dw := by
            rw [abs_mul]; exact mul_le_mul hx0.2 hw0.1 (abs_nonneg _) hX
          have t2 : |w' * (x - x')| ≤ W * dx := by
            rw [abs_mul]; exact mul_le_mul hw0.2 hx0.1 (abs_nonneg _) hW
          have t3 := abs_add_le (x * (w - w') + w' * (x - x')) (dot xs ws - dot xs' ws')
          have t4 := abs_add_le (x * (w - w')) (w' * (x - x'))
          linarith

/-- premises are satisfiable -/
example : acc (-3) [5, -7] [2, 4] 9 = (5 + 3) * 2 + ((-7 + 3) * 4 + 9) := by decide

end C07
