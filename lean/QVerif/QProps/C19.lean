import QProofs.GraphFrame
/-!
# C19 — each subgraph is transformed as if it stood alone (local part)

Every single graph transformation touches exactly one subgraph: all other subgraphs of the model are
left literally unchanged (`m'.subgraphs = m.subgraphs.set sgi sg'`); only the shared tables
(opcodes grow, constant buffers are overwritten in place keeping their data/no-data pattern) are
common.  The end-to-end statement (subgraph i of the multi-subgraph result equals the result of the
extracted single-subgraph model) is checked by execution in the C19 check.
-/
open Graph Perform GraphStep GraphFrame

namespace C19

theorem other_subgraphs_untouched (pt : PTable) (m m' : Model) (sgi : Nat) (sg : Subgraph) (inp : TIn)
    (info : TInfoOut) (hsg : m.subgraphs[sgi]? = some sg) (hinp : InpOK pt m sg inp)
    (h : insertQuant pt m sgi inp = .ok (m', info) ∨ insertDequant pt m sgi inp = .ok (m', info) ∨
         quantizeOnly pt m sgi inp = .ok (m', info)) :
    ∀ j, j ≠ sgi → m'.subgraphs[j]? = m.subgraphs[j]? := by
  intro j hj
  have hf : ∃ sg', Frame m m' sgi sg sg' info := by
    rcases h with h | h | h
    · exact insertQuant_frame pt m m' sgi sg inp info hsg hinp h
    · exact insertDequant_frame pt m m' sgi sg inp info hsg hinp h
    · exact quantizeOnly_frame pt m m' sgi sg inp info hsg hinp h
  obtain ⟨sg', hfr⟩ := hf
  rw [hfr.subs, List.getElem?_set_ne (Ne.symm hj)]

end C19
