import QProofs.NumericSessions
import QProofs.NFCheckProofs
import QProps.C08d
/-!
# C08e — `quantize()` is total on what a user really has in hand: statistics of a multi-signature model calibrated in several
sessions, statistics restored from a file, and why the rank-1 branch of `fix_quantization_params_rank` is out of reach

`C08d` proved `quantize_total` under `Hyp` and `Bounded`, and showed that ONE fresh `calibrate()` of a one-subgraph model on
float32 contents delivers the statistics clauses.  Three gaps are closed here.

1. **Sessions** (`calibrateSessions`: any list of `(subgraph index, samples)`, each `Quantizer.calibrate` call resumed from
   the result of the previous one -- several signatures, several batches per signature, any order, any starting
   `previous_calibration_result` that satisfies the invariant).  By induction over the list: the recorded statistics of the
   float32 tensors that matter are good, ordered, of ONE format and of the RANK of the contents (`sessions_stats_good`),
   nothing recorded is lost and every subgraph calibrated on a sample is complete (`sessions_stats_complete`); hence
   `quantize_total_of_sessions`: hypotheses on the MODEL (`HypModel`, `Unshared`, `PassRuntime`, `BoundedModel`) and on the
   sample CONTENTS (`ContOK`) only.
2. **Formats**.  `Bounded` now admits statistics in the format `exact` (statistics of integer tensors; python numbers) beside
   float32 / float64 -- the scalar lemmas of `C08d` hold for the three formats (`zpScale1_total_exact`: `exact` has no
   rounding and no overflow, only `|·| ≤ 2^63` and the `1e-4` floor are used), so `C08.quantize_total` itself covers them.
   Statistics that were saved and restored (`reformat p`: same numbers, format `p`) keep `Hyp` and `Bounded`:
   `quantize_total_restored`; they can also be resumed (`sessions_stats_good` starts from any `previous` satisfying the
   invariant, `restored_resumable`).
   `StatName` (whose entries `Bounded.stats` constrains) is now restricted to FLOAT32 tensors: the entries of integer
   tensors are never read by `generate` (the proof of `numericOK_of_bounded` did not change).
3. **`fix_quantization_params_rank`**.  Its first branch (ranks agree) is the one taken on calibrated statistics
   (`fixRank_calibrated`: the statistics of a tensor have the rank of its contents -- clause `rank` of `StatOrdK` -- and
   `Bounded.concat` follows: `concat_of_rank`).  The rank-1 expansion branch is unreachable from calibrated statistics, and
   on per-tensor parameters it CANNOT succeed: `fixRank_expand_fails` (numpy `expand_dims` over all `r` axes yields rank
   `r + 1`, rejected by `_is_valid_quantization_params`: ValueError), closed witness `Inst2.rank1_stat_fails`.
-/
open Graph Mat Cfg Recipe MatTotal Arith Num Nd

namespace C08

/-! ## 1. sessions -/

/-- a calibration history: one `Quantizer.calibrate(data, signature, previous_calibration_result)` per session, resumed from
    the previous result -/
abbrev calibrateSessions := @MatTotal.calibrateSessions
/-- good, ordered statistics of rank `k`: one format (float32 / float64 / `exact`) for `min` and `max`, one all-ones shape of
    rank `k`, magnitudes at most `B`, `min ≤ max` -/
abbrev StatOrdK := @MatTotal.StatOrdK
/-- the invariant of calibration on the names `P`: no statistics yet, or `StatOrdK (rk n)` -/
abbrev SInv := @MatTotal.SInv
/-- contents of one sample on the names `P`: arrays of rank `rk n` in one of the three formats, magnitudes at most `B` -/
abbrev ContOK := @MatTotal.ContOK
/-- same-as-input operators selected for quantization act on runtime float tensors -/
abbrev PassRuntime := @MatTotal.PassRuntime
/-- `Hyp` without the clauses about the statistics -/
abbrev HypModel := @MatTotal.HypModel
/-- `Bounded` without the clause about the statistics; `concat` as a condition on declared ranks -/
abbrev BoundedModel := @MatTotal.BoundedModel

theorem StatOrdK.good {k : Nat} {mn mx : FArr} (h : StatOrdK k mn mx) : StatGood mn mx := MatTotal.StatOrdK.good h

/-- `moving_average_update` in every format: two float32 pairs give a float32 pair, all other combinations (integer
    statistics are `exact`) a float64 pair; good ordered statistics of rank `k` stay so -/
theorem ema_ordered_any (k : Nat) (mn mx nmn nmx : FArr) (O : StatOrdK k mn mx) (N : StatOrdK k nmn nmx) (v : Mat.Qsv)
    (h : Calib.ema (some (mn, mx)) (some (nmn, nmx)) = .ok v) : ∃ a b, v = some (a, b) ∧ StatOrdK k a b :=
  MatTotal.ema_ordK k mn mx nmn nmx O N v h

/-- **the invariant holds after any list of sessions**, from any `previous` that satisfies it, for any set of names `P` none
    of which names a constant -/
theorem sessions_invariant (P : String → Prop) (rk : String → Nat) (rx : String → String → Bool) (env : Env) (st : Recipe.State)
    (hP : ∀ n, P n → ¬ CalibExact.ConstNamed env n) (hneed : Recipe.needCalibration st = true)
    (previous : Option Qsvs) (L : List (Nat × List Calib.Contents)) (r : Option Qsvs)
    (hprev : SInv P rk (previous.getD []))
    (hcont : ∀ s ∈ L, ∀ c ∈ s.2, ContOK P rk c)
    (h : calibrateSessions rx env st previous L = .ok r) : SInv P rk (r.getD []) :=
  MatTotal.sessions_sinv P rk rx env st hP hneed previous L r hprev hcont h

/-- **after the sessions, `Bounded.stats` holds** (with `min ≤ max` and the rank of the contents in addition) -- model with
    unique tensor names, any number of subgraphs -/
theorem sessions_stats_good (rx : String → String → Bool) (env : Env) (st : Recipe.State)
    (hnu : GenInstsOK.namesUnique env.model) (hp : PassRuntime rx env st) (hneed : Recipe.needCalibration st = true)
    (rk : String → Nat) (previous : Option Qsvs) (L : List (Nat × List Calib.Contents)) (r : Option Qsvs)
    (hprev : SInv (StatName rx env st) rk (previous.getD []))
    (hcont : ∀ s ∈ L, ∀ c ∈ s.2, ContOK (StatName rx env st) rk c)
    (h : calibrateSessions rx env st previous L = .ok r) :
    ∀ n, StatName rx env st n → ∀ mn mx, Py.dictGet? (r.getD []) n = some (some (mn, mx)) → StatOrdK (rk n) mn mx :=
  MatTotal.stats_of_sessions rx env st hnu hp hneed rk previous L r hprev hcont h

/-- **after the sessions, `Hyp.stats` holds**: nothing recorded is ever lost, and every subgraph is calibrated by a session
    with at least one sample -/
theorem sessions_stats_complete (rx : String → String → Bool) (env : Env) (st : Recipe.State) (hns : NoSkip st)
    (hp : PassRuntime rx env st) (hneed : Recipe.needCalibration st = true)
    (previous : Option Qsvs) (L : List (Nat × List Calib.Contents)) (r : Option Qsvs)
    (h : calibrateSessions rx env st previous L = .ok r)
    (hcov : ∀ i sg, env.model.subgraphs[i]? = some sg → ∃ s ∈ L, s.1 = i ∧ s.2 ≠ []) :
    StatsComplete rx env st (r.getD []) :=
  MatTotal.statsComplete_of_sessions rx env st hns hp hneed previous L r h hcov

/-- … subgraph by subgraph: a session on subgraph `s.1` with at least one sample records statistics for every runtime operand /
    result of every operator of that subgraph selected for min/max, and NO LATER SESSION REMOVES THEM (whatever the other
    sessions calibrate) -/
theorem sessions_subgraph_complete (rx : String → String → Bool) (env : Env) (st : Recipe.State)
    (hneed : Recipe.needCalibration st = true) (previous : Option Qsvs) (L : List (Nat × List Calib.Contents))
    (r : Option Qsvs) (h : calibrateSessions rx env st previous L = .ok r)
    (s : Nat × List Calib.Contents) (hs : s ∈ L) (hne : s.2 ≠ [])
    (sg : Subgraph) (hsg : env.model.subgraphs[s.1]? = some sg)
    (op : Op) (k scope : String) (hop : CalibProofs.IsOp env sg op k) (hscope : opScope sg op = .ok scope)
    (hsel : (Recipe.resolve rx st k scope).1 = Tables.algMinMax)
    (i : Int) (hi : i ∈ op.inputs ++ op.outputs) (hi1 : i ≠ -1) (t : Tensor) (ht : tensorAt sg i = .ok t)
    (hnc : Calib.constAny env t = none) : ∃ mm, Py.dictGet? (r.getD []) t.name = some (some mm) :=
  MatTotal.sessions_complete rx env st hneed previous L r h s hs hne sg hsg op k scope hop hscope hsel i hi hi1 t ht hnc

/-- a history of one session is one call of `Quantizer.calibrate` -/
theorem sessions_single (rx : String → String → Bool) (env : Env) (st : Recipe.State) (previous : Option Qsvs) (i : Nat)
    (D : List Calib.Contents) :
    calibrateSessions rx env st previous [(i, D)] =
      (match Calib.calibrate rx env st i previous D with | .ok q => .ok (some q) | .error e => .error e) := by
  unfold calibrateSessions MatTotal.calibrateSessions
  simp only [List.foldlM_cons, List.foldlM_nil, bind, Except.bind, pure, Except.pure]
  cases Calib.calibrate rx env st i previous D <;> rfl

/-- one session (or a given `previous`) suffices for the result to be a dictionary -/
theorem sessions_isSome (rx : String → String → Bool) (env : Env) (st : Recipe.State) (L : List (Nat × List Calib.Contents))
    (previous r : Option Qsvs) (hne : L ≠ [] ∨ previous.isSome = true)
    (h : calibrateSessions rx env st previous L = .ok r) : r.isSome = true :=
  MatTotal.sessions_isSome rx env st L previous r hne h

/-- **C08, `quantize()` after a calibration history**: a normal-form model (any number of subgraphs / signatures) without
    shared constants, bounded constants, a non-empty recipe without `skip_checks`; every subgraph calibrated by some session
    on at least one sample; the contents of the float32 tensors that are quantized finite (within `B = 2^63`) and of the
    declared rank.  Then `quantize()` on the statistics the history returns yields a well-formed model. -/
theorem quantize_total_of_sessions (rx : String → String → Bool) (env : Env) (st : Recipe.State)
    (M : HypModel rx env st) (U : Unshared env.model) (hp : PassRuntime rx env st) (rk : String → Nat)
    (BM : BoundedModel rx env st rk) (hneed : Recipe.needCalibration st = true)
    (hrec : (Recipe.getRecipe st).isEmpty = false)
    (previous : Option Qsvs) (L : List (Nat × List Calib.Contents)) (qs : Qsvs)
    (hprev : SInv (StatName rx env st) rk (previous.getD []))
    (hcov : ∀ i sg, env.model.subgraphs[i]? = some sg → ∃ s ∈ L, s.1 = i ∧ s.2 ≠ [])
    (hcont : ∀ s ∈ L, ∀ c ∈ s.2, ContOK (StatName rx env st) rk c)
    (h : calibrateSessions rx env st previous L = .ok (some qs)) :
    ∃ m' tbl, Pipeline.quantizePure rx env st (some qs) = .ok (m', tbl) ∧ WF.modelOK m' = true :=
  quantize_total rx env st (some qs) (hyp_of_sessions rx env st M hp hneed previous L qs h hcov) U
    (bounded_of_sessions rx env st M.names hp hneed rk BM previous L (some qs) hprev hcont h) hrec

/-- … in particular from scratch (`previous_calibration_result=None` in the first session) -/
theorem quantize_total_of_fresh_sessions (rx : String → String → Bool) (env : Env) (st : Recipe.State)
    (M : HypModel rx env st) (U : Unshared env.model) (hp : PassRuntime rx env st) (rk : String → Nat)
    (BM : BoundedModel rx env st rk) (hneed : Recipe.needCalibration st = true)
    (hrec : (Recipe.getRecipe st).isEmpty = false)
    (L : List (Nat × List Calib.Contents)) (qs : Qsvs)
    (hcov : ∀ i sg, env.model.subgraphs[i]? = some sg → ∃ s ∈ L, s.1 = i ∧ s.2 ≠ [])
    (hcont : ∀ s ∈ L, ∀ c ∈ s.2, ContOK (StatName rx env st) rk c)
    (h : calibrateSessions rx env st none L = .ok (some qs)) :
    ∃ m' tbl, Pipeline.quantizePure rx env st (some qs) = .ok (m', tbl) ∧ WF.modelOK m' = true :=
  quantize_total_of_sessions rx env st M U hp rk BM hneed hrec none L qs (sInv_nil _ _) hcov hcont h

/-! ## 2. formats -/

/-- **one channel of `tensor_zp_scale_from_min_max` on `exact` statistics** (integer tensors, python numbers): total for
    2..16 bits on `|min|, |max| ≤ B`; the scale lies in `[2^-30, B]` -- the same statement as for float32 / float64
    (`C08.zpScale1_total` now takes the three formats) -/
theorem zpScale1_total_exact (bits : Nat) (hb2 : 2 ≤ bits) (hb16 : bits ≤ 16) (sym : Bool)
    (mn mx : Rat) (hmn : |mn| ≤ B) (hmx : |mx| ≤ B) :
    ∃ z s, zpScale1 .exact bits sym mn mx = .ok (z, s) ∧ (2:Rat)^(-30:Int) ≤ s ∧ s ≤ B :=
  zpScale1_total .exact (.inr (.inr rfl)) bits hb2 hb16 sym mn mx hmn hmx

/-- `exact` statistics are good statistics (`Bounded.stats` admits them) -/
theorem statGood_exact (mn mx : Arr Rat) (hs : mn.shape = mx.shape) (hones : ∀ d ∈ mn.shape, d = 1)
    (hmn : ∀ v ∈ mn.data, |v| ≤ B) (hmx : ∀ v ∈ mx.data, |v| ≤ B) : StatGood ⟨mn, .exact⟩ ⟨mx, .exact⟩ :=
  ⟨⟨.inr (.inr rfl), .inr (.inr rfl), hs, hmn, hmx⟩, hones⟩

/-- the same statistics in the format `p`: what a saved and restored calibration result is -/
abbrev reformat := @MatTotal.reformat

/-- **C08, `quantize()` on restored statistics**: whenever the hypotheses of `quantize_total` hold of the statistics `qs`,
    `quantize()` also returns on the same numbers in any of the formats float32 / float64 / `exact` -/
theorem quantize_total_restored (rx : String → String → Bool) (env : Env) (st : Recipe.State) (qs : Qsvs)
    (H : Hyp rx env st (some qs)) (U : Unshared env.model) (Bd : Bounded rx env st (some qs))
    (hrec : (Recipe.getRecipe st).isEmpty = false) (p : Prec) (hp : p = .f32 ∨ p = .f64 ∨ p = .exact) :
    ∃ m' tbl, Pipeline.quantizePure rx env st (some (reformat p qs)) = .ok (m', tbl) ∧ WF.modelOK m' = true :=
  quantize_total rx env st (some (reformat p qs)) (hyp_reformat rx env st qs H p) U (bounded_reformat rx env st qs Bd p hp) hrec

/-- restored statistics can be RESUMED: they satisfy the invariant the sessions start from -/
theorem restored_resumable (P : String → Prop) (rk : String → Nat) (qs : Qsvs) (h : SInv P rk qs) (p : Prec)
    (hp : p = .f32 ∨ p = .f64 ∨ p = .exact) : SInv P rk (reformat p qs) :=
  sInv_reformat P rk qs h p hp

/-! ## 3. `fix_quantization_params_rank` -/

/-- parameters computed from calibrated statistics of rank `k` need no rank fixing on a tensor of rank `k` -/
theorem fixRank_calibrated (k : Nat) (mn mx : FArr) (O : StatOrdK k mn mx) (bits : Nat) (sym : Bool) (qdim : Option Nat)
    (zp : IArr) (scale : FArr) (h : zpScale bits sym mn mx = .ok (zp, scale)) (sh : List Nat) (hk : sh.length = k) :
    fixRank sh { bits := bits, qdim := qdim, scale := scale, zp := zp, symmetric := sym } =
      .ok { bits := bits, qdim := qdim, scale := scale, zp := zp, symmetric := sym } :=
  MatTotal.fixRank_calibrated k mn mx O bits sym qdim zp scale h sh hk

/-- **`Bounded.concat` is a consequence of the rank clause**: the statistics of the result of a CONCATENATION have the rank
    of its constant operand (whose declared rank is that of the result) -/
theorem concat_of_rank (rx : String → String → Bool) (env : Env) (st : Recipe.State) (rk : String → Nat)
    (BM : BoundedModel rx env st rk) (qs : Qsvs) (hI : SInv (StatName rx env st) rk qs) :
    ∀ sg ∈ env.model.subgraphs, ∀ q ∈ Pipe.allOps sg, ∀ k scope ops fn, Selected rx env st sg q k scope ops fn →
    ∀ gi, kindOf (Recipe.resolve rx st k scope).1 fn = .std .sameAsOutput gi →
    ∀ a ∈ q.1.inputs, a ≠ -1 → ∀ t, tensorAt sg a = .ok t → t.dtype = Tables.ttFloat32 → constData env t ≠ none →
    ∀ b ∈ q.1.outputs, b ≠ -1 → ∀ t', tensorAt sg b = .ok t' →
    ∀ mn mx, Py.dictGet? qs t'.name = some (some (mn, mx)) → mn.arr.shape.length = t.shape.length :=
  MatTotal.concat_of_rank rx env st rk BM qs hI

/-- **the rank-1 expansion branch cannot succeed on per-tensor parameters** (`quantized_dimension = None`, or one that is not
    an axis of the tensor): `uniform_quantize` raises ValueError -/
theorem fixRank_expand_fails (x : FArr) (qp : QParams) (h0 : x.arr.shape.length ≠ 0)
    (h1 : x.arr.shape.length ≠ qp.scale.arr.rank) (hr : qp.scale.arr.rank = 1 ∧ qp.zp.arr.rank = 1)
    (hq : qp.qdim = none ∨ ∃ q, qp.qdim = some q ∧ x.arr.shape.length ≤ q) :
    uniformQuantize x qp = .error .valueError :=
  MatTotal.fixRank_expand_fails x qp h0 h1 hr hq

/-- non-vacuity of `fixRank_expand_fails`: per-tensor parameters of shape `[1]` for a `2 × 2` tensor -/
example : uniformQuantize ⟨⟨[2, 2], [1, 2, 3, 4]⟩, .f32⟩
    { bits := 8, qdim := none, scale := ⟨⟨[1], [1/100]⟩, .f32⟩, zp := ⟨⟨[1], [0]⟩, 8⟩, symmetric := false } = .error .valueError :=
  fixRank_expand_fails _ _ (by decide) (by decide) ⟨rfl, rfl⟩ (.inl rfl)

/-! ## NON-VACUITY: a two-signature model, calibrated in three sessions, quantized with the shipped `default_a8w8` recipe -/

namespace Inst2
open PipeNF Pipe GraphStep
open Inst (T f32 rxAll cfgA8W8 st opFC opTanh qFC qTanh res_eq acc_FC acc_TANH acc_IN acc_OUT ops_mm mmOps pin kind_FC kind_Tanh
  kind_In kind_Out slotsFC slotsTanh at0 at1 at2 at3 errIs)

def opTanhB : Op := { code := 1, inputs := [0], outputs := [1], orig := some 0 }
/-- the subgraph of the second signature: `v := TANH(u)` -/
def sgB : Subgraph := { tensors := [T "u" [1, 2] 0, T "v" [1, 2] 0], ops := [opTanhB], inputs := [0], outputs := [1] }
/-- signature `first`: `Inst.sg` (`y := FULLY_CONNECTED(x, w)`, `z := TANH(y)`); signature `second`: `sgB` -/
def m : Model :=
  { subgraphs := [Inst.sg, sgB], buffers := [none, some (.inl 0)], opcodes := [9, 28],
    sigs := [⟨"first", 0, [("x", 0)], [("z", 3)]⟩, ⟨"second", 1, [("u", 0)], [("v", 1)]⟩] }
def env : Env := { model := m, consts := [(1, [1, 2, 3, 4])], adjY := [] }
def qTanhB : Op × Option String × Int := (opTanhB, none, ((0 : Nat) : Int))

def row (a b : Rat) : FArr := ⟨⟨[1, 2], [a, b]⟩, .f32⟩
/-- tensor contents of two samples of signature `first` (the interpreter also reports the constant `w`) … -/
def cA : Calib.Contents := [("x", row (-1) 1), ("w", ⟨⟨[2, 2], [1, 2, 3, 4]⟩, .f32⟩), ("y", row 1 5), ("z", row (3/4) 1)]
def cA' : Calib.Contents := [("x", row (-2) (1/2)), ("w", ⟨⟨[2, 2], [1, 2, 3, 4]⟩, .f32⟩), ("y", row (-3) 2), ("z", row (-1) (1/2))]
/-- … and of one sample of signature `second` -/
def cB : Calib.Contents := [("u", row (-1/2) (1/4)), ("v", row (-1/2) (1/4))]
/-- **the history**: signature `first`, then signature `second`, then `first` again, each call resumed from the previous result -/
def L : List (Nat × List Calib.Contents) := [(0, [cA]), (1, [cB]), (0, [cA'])]

/-- what the history returns -/
def qs2 : Qsvs := match calibrateSessions rxAll env st none L with | .ok (some q) => q | _ => []

theorem sessions_eq : calibrateSessions rxAll env st none L = .ok (some qs2) := by
  unfold qs2
  have hb : (match calibrateSessions rxAll env st none L with | .ok (some _) => true | _ => false) = true := by decide +kernel
  cases h : calibrateSessions rxAll env st none L with
  | error e => rw [h] at hb; cases hb
  | ok r =>
    cases r with
    | none => rw [h] at hb; cases hb
    | some q => rfl

/-- the recorded dictionary (kernel evaluation): the constant `w` keeps the per-channel min/max `initModel` took from its
    data; `x`, `y`, `z` hold the moving average of the two samples of signature `first`; `u`, `v` the sample of `second` -/
theorem qs2_names : qs2.map (·.1) = ["x", "w", "y", "z", "u", "v"] := by decide +kernel

theorem qs2_x : Py.dictGet? qs2 "x" =
    some (some (⟨⟨[1, 1], [Prec.f32.rn (Prec.f32.rn (CalibExact.c1 * (-1)) + Prec.f32.rn (CalibExact.c2 * (-2)))]⟩, .f32⟩,
                ⟨⟨[1, 1], [Prec.f32.rn (Prec.f32.rn (CalibExact.c1 * 1) + Prec.f32.rn (CalibExact.c2 * (1/2)))]⟩, .f32⟩)) := by
  decide +kernel

/-! ### the hypotheses of `quantize_total_of_fresh_sessions` hold -/

theorem sgs (sg' : Subgraph) (h : sg' ∈ env.model.subgraphs) : sg' = Inst.sg ∨ sg' = sgB := by
  simpa [env, m] using h

theorem entriesB (q : Op × Option String × Int) (h : q ∈ allOps sgB) : q = qTanhB ∨ q = inEntry sgB ∨ q = outEntry sgB := by
  rcases mem_allOps sgB q h with ⟨j, op, hop, rfl⟩ | h | h
  · rcases j with _ | j
    · left; simp only [sgB, List.getElem?_cons_zero, Option.some.injEq] at hop; subst hop; rfl
    · simp [sgB] at hop
  · exact .inr (.inl h)
  · exact .inr (.inr h)

theorem selFC {k scope fn : String} {ops : List (String × String)} (S : Selected rxAll env st Inst.sg qFC k scope ops fn) :
    k = "FULLY_CONNECTED" ∧ scope = "y;" ∧ ops = mmOps ∧ fn = "materialize_fc_conv" :=
  pin S _ _ _ _ (by decide) (by decide) (by rw [res_eq _ _ acc_FC]; exact ops_mm) (by decide +kernel)

theorem selTanh {k scope fn : String} {ops : List (String × String)} (S : Selected rxAll env st Inst.sg qTanh k scope ops fn) :
    k = "TANH" ∧ scope = "z;" ∧ ops = mmOps ∧ fn = "materialize_tanh" :=
  pin S _ _ _ _ (by decide) (by decide) (by rw [res_eq _ _ acc_TANH]; exact ops_mm) (by decide +kernel)

theorem selIn {k scope fn : String} {ops : List (String × String)} (S : Selected rxAll env st Inst.sg (inEntry Inst.sg) k scope ops fn) :
    k = "INPUT" ∧ scope = "x;" ∧ ops = mmOps ∧ fn = "materialize_input" :=
  pin S _ _ _ _ (by decide) (by decide) (by rw [res_eq _ _ acc_IN]; exact ops_mm) (by decide +kernel)

theorem selOut {k scope fn : String} {ops : List (String × String)} (S : Selected rxAll env st Inst.sg (outEntry Inst.sg) k scope ops fn) :
    k = "OUTPUT" ∧ scope = "" ∧ ops = mmOps ∧ fn = "materialize_output" :=
  pin S _ _ _ _ (by decide) (by decide) (by rw [res_eq _ _ acc_OUT]; exact ops_mm) (by decide +kernel)

theorem selTanhB {k scope fn : String} {ops : List (String × String)} (S : Selected rxAll env st sgB qTanhB k scope ops fn) :
    k = "TANH" ∧ scope = "v;" ∧ ops = mmOps ∧ fn = "materialize_tanh" :=
  pin S _ _ _ _ (by decide) (by decide) (by rw [res_eq _ _ acc_TANH]; exact ops_mm) (by decide +kernel)

theorem selInB {k scope fn : String} {ops : List (String × String)} (S : Selected rxAll env st sgB (inEntry sgB) k scope ops fn) :
    k = "INPUT" ∧ scope = "u;" ∧ ops = mmOps ∧ fn = "materialize_input" :=
  pin S _ _ _ _ (by decide) (by decide) (by rw [res_eq _ _ acc_IN]; exact ops_mm) (by decide +kernel)

theorem selOutB {k scope fn : String} {ops : List (String × String)} (S : Selected rxAll env st sgB (outEntry sgB) k scope ops fn) :
    k = "OUTPUT" ∧ scope = "" ∧ ops = mmOps ∧ fn = "materialize_output" :=
  pin S _ _ _ _ (by decide) (by decide) (by rw [res_eq _ _ acc_OUT]; exact ops_mm) (by decide +kernel)

/-- what resolution selects for each of the seven entries of the two operator lists -/
theorem kinds (sg' : Subgraph) (hsg : sg' ∈ env.model.subgraphs) (q : Op × Option String × Int) (hq : q ∈ allOps sg')
    (k scope fn : String) (ops : List (String × String)) (S : Selected rxAll env st sg' q k scope ops fn) :
    (q = qFC ∧ kindOf (Recipe.resolve rxAll st k scope).1 fn = .conv) ∨
    kindOf (Recipe.resolve rxAll st k scope).1 fn = .fixed false ∨
    kindOf (Recipe.resolve rxAll st k scope).1 fn = .std .none [] := by
  rcases sgs sg' hsg with rfl | rfl
  · rcases Inst.entries q hq with rfl | rfl | rfl | rfl
    · obtain ⟨rfl, rfl, rfl, rfl⟩ := selFC S
      rw [res_eq _ _ acc_FC, kind_FC]; exact .inl ⟨rfl, rfl⟩
    · obtain ⟨rfl, rfl, rfl, rfl⟩ := selTanh S
      rw [res_eq _ _ acc_TANH, kind_Tanh]; exact .inr (.inl rfl)
    · obtain ⟨rfl, rfl, rfl, rfl⟩ := selIn S
      rw [res_eq _ _ acc_IN, kind_In]; exact .inr (.inr rfl)
    · obtain ⟨rfl, rfl, rfl, rfl⟩ := selOut S
      rw [res_eq _ _ acc_OUT, kind_Out]; exact .inr (.inr rfl)
  · rcases entriesB q hq with rfl | rfl | rfl
    · obtain ⟨rfl, rfl, rfl, rfl⟩ := selTanhB S
      rw [res_eq _ _ acc_TANH, kind_Tanh]; exact .inr (.inl rfl)
    · obtain ⟨rfl, rfl, rfl, rfl⟩ := selInB S
      rw [res_eq _ _ acc_IN, kind_In]; exact .inr (.inr rfl)
    · obtain ⟨rfl, rfl, rfl, rfl⟩ := selOutB S
      rw [res_eq _ _ acc_OUT, kind_Out]; exact .inr (.inr rfl)

theorem tensors_casesB (t : Tensor) (h : t ∈ sgB.tensors) : t = T "u" [1, 2] 0 ∨ t = T "v" [1, 2] 0 := by
  simpa [sgB] using h

theorem cx : constData env (T "x" [1, 2] 0) = none := by decide
theorem cy : constData env (T "y" [1, 2] 0) = none := by decide
theorem cz : constData env (T "z" [1, 2] 0) = none := by decide
theorem cu : constData env (T "u" [1, 2] 0) = none := by decide
theorem cv : constData env (T "v" [1, 2] 0) = none := by decide
theorem cw : constData env (T "w" [2, 2] 1) = some ⟨[2, 2], [1, 2, 3, 4]⟩ := by decide +kernel

/-- the only constant of the model is `w` -/
theorem const_cases (sg' : Subgraph) (hsg : sg' ∈ env.model.subgraphs) (t : Tensor) (ht : t ∈ sg'.tensors) (d : Arr Rat)
    (hd : constData env t = some d) : d = ⟨[2, 2], [1, 2, 3, 4]⟩ := by
  rcases sgs sg' hsg with rfl | rfl
  · rcases Inst.tensors_cases t ht with rfl | rfl | rfl | rfl
    · rw [cx] at hd; cases hd
    · rw [cw] at hd; cases hd; rfl
    · rw [cy] at hd; cases hd
    · rw [cz] at hd; cases hd
  · rcases tensors_casesB t ht with rfl | rfl
    · rw [cu] at hd; cases hd
    · rw [cv] at hd; cases hd

theorem hypModel : HypModel rxAll env st := by
  refine { nf := NFCheckProofs.nfOK_sound env st (by decide +kernel), float := by decide,
           names := by unfold GenInstsOK.namesUnique; decide, noSkip := noSkip_of_b st (by decide),
           inputsNodup := ?_, tensorsNE := ?_, constNE := ?_, shape := ?_ }
  · intro sg' hsg; rcases sgs sg' hsg with rfl | rfl <;> decide
  · intro sg' hsg; rcases sgs sg' hsg with rfl | rfl <;> decide
  · intro sg' hsg t ht d hd
    rw [const_cases sg' hsg t ht d hd]
    exact fun h => by cases h
  · intro sg' hsg j op hop k scope ops fn S
    have hmem : (op, (none : Option String), (j : Int)) ∈ allOps sg' := by
      rw [allOps_eq]; exact List.mem_append_left _ (List.mem_map.2 ⟨(op, j), List.mem_zipIdx_iff_getElem?.2 (by simpa using hop), rfl⟩)
    rcases sgs sg' hsg with rfl | rfl
    · rcases Inst.entries _ hmem with h | h | h | h
      · have hop' : op = opFC := congrArg (·.1) h
        have hj : (j : Int) = ((0 : Nat) : Int) := congrArg (·.2.2) h
        subst hop'
        rw [hj] at S
        obtain ⟨rfl, rfl, rfl, rfl⟩ := selFC S
        rw [res_eq _ _ acc_FC, kind_FC]
        refine ⟨?_, ?_, ?_⟩
        · intro i hi
          rcases i with _ | _ | i
          · exact ⟨0, rfl, by decide⟩
          · exact ⟨1, rfl, by decide⟩
          · omega
        · intro i a t hi hia hat
          rcases slotsFC i a hia with ⟨_, rfl⟩ | ⟨_, rfl⟩
          · rw [at0] at hat; cases hat; rfl
          · rw [at1] at hat; cases hat; rfl
        · intro _ a bt hia
          cases hia
      · have hop' : op = opTanh := congrArg (·.1) h
        have hj : (j : Int) = ((1 : Nat) : Int) := congrArg (·.2.2) h
        subst hop'
        rw [hj] at S
        obtain ⟨rfl, rfl, rfl, rfl⟩ := selTanh S
        rw [res_eq _ _ acc_TANH, kind_Tanh]
        refine ⟨rfl, ?_⟩
        intro a t ha _ hat
        have : a = 3 := by simpa [opTanh] using ha
        subst this
        rw [at3] at hat; cases hat; rfl
      · cases congrArg (·.2.1) h
      · cases congrArg (·.2.1) h
    · rcases entriesB _ hmem with h | h | h
      · have hop' : op = opTanhB := congrArg (·.1) h
        have hj : (j : Int) = ((0 : Nat) : Int) := congrArg (·.2.2) h
        subst hop'
        rw [hj] at S
        obtain ⟨rfl, rfl, rfl, rfl⟩ := selTanhB S
        rw [res_eq _ _ acc_TANH, kind_Tanh]
        refine ⟨rfl, ?_⟩
        intro a t ha _ hat
        have : a = 1 := by simpa [opTanhB] using ha
        subst this
        have h1 : tensorAt sgB 1 = .ok (T "v" [1, 2] 0) := by decide
        rw [h1] at hat; cases hat; rfl
      · cases congrArg (·.2.1) h
      · cases congrArg (·.2.1) h

/-- no selected operator is a same-as-input operator -/
theorem passRuntime : PassRuntime rxAll env st := by
  intro sg' hsg q hq k scope ops fn S hpass
  rcases kinds sg' hsg q hq k scope fn ops S with ⟨_, h⟩ | h | h <;> rw [h] at hpass <;> cases hpass

/-- all tensors have rank 2; the constants are small; there is no CONCATENATION, no bias, no float cast -/
theorem boundedModel : BoundedModel rxAll env st (fun _ => 2) := by
  refine { consts := ?_, cat := ?_, bias := ?_, cast := ?_ }
  · intro sg' hsg t ht d hd x hx
    rw [const_cases sg' hsg t ht d hd] at hx
    have hall : ([1, 2, 3, 4] : List Rat).all finB = true := by decide
    exact finB_sound x (List.all_eq_true.1 hall x hx)
  · intro sg' hsg q hq k scope ops fn S gi hk
    rcases kinds sg' hsg q hq k scope fn ops S with ⟨_, h⟩ | h | h <;> rw [h] at hk <;> cases hk
  · intro sg' hsg q hq k scope ops fn S _ iIn iW iB hcs a bt ha
    rcases kinds sg' hsg q hq k scope fn ops S with ⟨rfl, h⟩ | h | h <;> rw [h] at hcs <;> cases hcs
    cases ha
  · intro sg' hsg q hq k scope ops fn S a b c hk
    rcases kinds sg' hsg q hq k scope fn ops S with ⟨_, h⟩ | h | h <;> rw [h] at hk <;> cases hk

theorem unshared : Unshared env.model := by
  have hb2t : bufferToTensors env.model = [(0, ["y", "x", "z", "y", "v", "u"]), (1, ["w"])] := by decide
  refine ⟨?_, ?_, ?_⟩
  · intro e he hd
    rw [hb2t] at he
    simp only [List.mem_cons, List.mem_nil_iff, or_false] at he
    rcases he with rfl | rfl
    · obtain ⟨c, hc⟩ := hd
      cases hc
    · decide
  · intro b c hb
    have : b = 1 := by
      rcases b with _ | _ | b
      · cases hb
      · rfl
      · simp [env, m] at hb
    subst this
    decide
  · intro sg' hsg i hc o o' h1 h2
    rcases sgs sg' hsg with rfl | rfl
    · have hi : i = 1 := by
        rcases i with _ | _ | _ | _ | i
        · revert hc; decide
        · rfl
        · revert hc; decide
        · revert hc; decide
        · exfalso
          have hnone : Inst.sg.tensors[(((i + 1 + 1 + 1 + 1 : Nat) : Int)).toNat]? = none := by
            rw [Int.toNat_natCast, List.getElem?_eq_none]
            simp [Inst.sg]
          unfold isConst at hc
          rw [if_neg (by omega), hnone] at hc
          cases hc
      subst hi
      have key : ∀ o, ConsumedAt Inst.sg 1 o → o = 0 := by
        intro o h
        rcases h with ⟨h0, op, hop, hm⟩ | ⟨_, hm⟩
        · have : o.toNat = 0 ∨ o.toNat = 1 := by
            have := (List.getElem?_eq_some_iff.1 hop).1
            simp only [Inst.sg, List.length_cons, List.length_nil] at this
            omega
          rcases this with h | h
          · omega
          · rw [h] at hop
            simp only [Inst.sg, List.getElem?_cons_succ, List.getElem?_cons_zero, Option.some.injEq] at hop
            subst hop
            exact absurd hm (by decide)
        · exact absurd hm (by decide)
      rw [key o h1, key o' h2]
    · exfalso
      rcases i with _ | _ | i
      · revert hc; decide
      · revert hc; decide
      · have hnone : sgB.tensors[(((i + 1 + 1 : Nat) : Int)).toNat]? = none := by
          rw [Int.toNat_natCast, List.getElem?_eq_none]
          simp [sgB]
        unfold isConst at hc
        rw [if_neg (by omega), hnone] at hc
        cases hc

/-- Boolean form of `ContOK` for rank 2 (all names) -/
def contOKB (c : Calib.Contents) : Bool :=
  c.all fun e => e.2.pr == .f32 && e.2.arr.shape.length == 2 && e.2.arr.data.all finB

theorem contOKB_sound (P : String → Prop) (c : Calib.Contents) (h : contOKB c = true) : ContOK P (fun _ => 2) c := by
  intro n _ d hd
  have hm := C13.mem_of_dictGet _ _ _ hd
  have := List.all_eq_true.1 h _ hm
  simp only [Bool.and_eq_true, beq_iff_eq, List.all_eq_true] at this
  exact ⟨.inl this.1.1, this.1.2, fun v hv => finB_sound v (this.2 v hv)⟩

theorem hcont : ∀ s ∈ L, ∀ c ∈ s.2, ContOK (StatName rxAll env st) (fun _ => 2) c := by
  intro s hs c hc
  refine contOKB_sound _ c ?_
  have hall : L.all (fun s => s.2.all contOKB) = true := by decide +kernel
  exact List.all_eq_true.1 (List.all_eq_true.1 hall s hs) c hc

/-- both subgraphs are calibrated -/
theorem hcov : ∀ i sg, env.model.subgraphs[i]? = some sg → ∃ s ∈ L, s.1 = i ∧ s.2 ≠ [] := by
  intro i sg hi
  rcases i with _ | _ | i
  · exact ⟨(0, [cA]), by simp [L], rfl, by simp⟩
  · exact ⟨(1, [cB]), by simp [L], rfl, by simp⟩
  · simp [env, m] at hi

/-- **ALL hypotheses of `quantize_total_of_fresh_sessions` hold on the instance** -/
theorem quantize_ok : ∃ m' tbl, Pipeline.quantizePure rxAll env st (some qs2) = .ok (m', tbl) ∧ WF.modelOK m' = true :=
  quantize_total_of_fresh_sessions rxAll env st hypModel unshared passRuntime (fun _ => 2) boundedModel (by decide) (by decide)
    L qs2 hcov hcont sessions_eq

/-- (cross-check by kernel evaluation: calibration in three sessions, then the whole `quantize()`; six int8 tensors) -/
theorem quantize_runs :
    (match Pipeline.quantizePure rxAll env st (some qs2) with
     | .ok r => r.1.subgraphs.map (fun (s : Subgraph) => s.tensors.map (fun (t : Tensor) => (t.name, t.dtype))) ==
           [[("x", 9), ("w", 9), ("y", 9), ("z", 9)], [("u", 9), ("v", 9)]] && WF.modelOK r.1
     | .error _ => false) = true := by
  decide +kernel

/-- the statistics clauses the sessions deliver, on the instance -/
theorem hyp : Hyp rxAll env st (some qs2) :=
  hyp_of_sessions rxAll env st hypModel passRuntime (by decide) none L qs2 sessions_eq hcov

theorem bounded : Bounded rxAll env st (some qs2) :=
  bounded_of_sessions rxAll env st hypModel.names passRuntime (by decide) (fun _ => 2) boundedModel none L (some qs2)
    (sInv_nil _ _) hcont sessions_eq

/-! ### restored statistics (`exact` / float64), and resuming from them -/

/-- **ALL hypotheses of `quantize_total_restored` hold**: the recorded statistics, saved and restored as python numbers -/
theorem restored_ok : ∃ m' tbl, Pipeline.quantizePure rxAll env st (some (reformat .exact qs2)) = .ok (m', tbl) ∧
    WF.modelOK m' = true :=
  quantize_total_restored rxAll env st qs2 hyp unshared bounded (by decide) .exact (.inr (.inr rfl))

/-- (cross-check by kernel evaluation, `exact` and float64) -/
theorem restored_runs :
    (match Pipeline.quantizePure rxAll env st (some (reformat .exact qs2)) with | .ok r => WF.modelOK r.1 | .error _ => false) = true ∧
    (match Pipeline.quantizePure rxAll env st (some (reformat .f64 qs2)) with | .ok r => WF.modelOK r.1 | .error _ => false) = true := by
  constructor <;> decide +kernel

/-- the first session alone, saved and restored as python numbers … -/
def q1x : Qsvs := match calibrateSessions rxAll env st none [(0, [cA])] with | .ok (some q) => reformat .exact q | _ => []

/-- … then RESUMED with the two other sessions (the moving average of `exact` and float32 statistics is float64), then
    quantized: kernel evaluation -/
theorem resumed_runs :
    (match calibrateSessions rxAll env st (some q1x) [(1, [cB]), (0, [cA'])] with
     | .ok (some q) =>
       (match Py.dictGet? q "x" with | some (some mm) => mm.1.pr == .f64 && mm.2.pr == .f64 | _ => false) &&
       (match Pipeline.quantizePure rxAll env st (some q) with | .ok r => WF.modelOK r.1 | .error _ => false)
     | _ => false) = true := by
  decide +kernel

/-- (observation, C09) the law "resume = one pass" does not survive a save / restore: resumed from restored statistics the
    moving average runs in float64, and the recorded minimum of `x` differs in the last bits from the one of the
    uninterrupted history `L` -- both are good statistics and both histories quantize (`resumed_runs`, `quantize_runs`) -/
theorem restored_resume_differs :
    (match calibrateSessions rxAll env st (some q1x) [(1, [cB]), (0, [cA'])] with
     | .ok (some q) =>
       (match Py.dictGet? q "x", Py.dictGet? qs2 "x" with
        | some (some a), some (some b) => decide (a.1.arr ≠ b.1.arr) && decide (a.1.arr.shape = b.1.arr.shape)
        | _, _ => false)
     | _ => false) = true := by
  decide +kernel

/-! ### the rank-1 expansion branch: a statistic that `calibrate()` cannot produce -/

/-- `y := CONCATENATION(x, c)` with a constant `c` of rank 2 (`C08.InstC.envCat [1, 2]`), and a hand-made statistic of rank 1
    for the rank-2 result `y`: the parameters lent to `c` enter the rank-1 expansion branch of `fix_quantization_params_rank`
    and are rejected -- ValueError (`fixRank_expand_fails`).  `calibrate()` records rank 2 for `y` (`sessions_stats_good`), with
    which the run succeeds. -/
theorem rank1_stat_fails :
    errIs (Mat.generate rxAll (InstC.envCat [1, 2]) st
      (some [("x", some (f32 [-1], f32 [1])), ("y", some (⟨⟨[1], [-2]⟩, .f32⟩, ⟨⟨[1], [2]⟩, .f32⟩))])) .valueError = true ∧
    (match Mat.generate rxAll (InstC.envCat [1, 2]) st (some InstC.qsCat) with | .ok r => r.length | .error _ => 0) = 3 := by
  constructor <;> decide +kernel

end Inst2

end C08
