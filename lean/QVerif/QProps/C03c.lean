import QProofs.Wiring
import QProps.C03b
import QProps.C08b
import QProps.C19b
/-!
# C03 (whole performer) — each operand of each operator has the type its mode prescribes

`QProps/C03b.lean` gives the exact postcondition of ONE transformation.  This file states what holds
after the WHOLE `transformGraph`, in terms of the ORIGINAL operator ids that the instructions use
(positions shift with every insertion; the `orig` tag identifies an operator):

* `addQuant_wired` (ADD_QUANTIZE of tensor `t`, parameters `p`): every listed real consumer now reads,
  in every operand slot in which the original operator read `t`, a tensor that stands for `t`
  (`Skeleton.root` maps it back to `t`), has the type `dtypeOf p` and carries `p`;
* `addDequant_typed` / `addDequant_consumers` / `addDequant_wired` (ADD_DEQUANTIZE): tensor `t` itself
  has the prescribed type and carries `p` (same name / shape / buffer), and every listed real consumer
  reads, in the slots where it read `t`, a FLOAT32 tensor without quantization standing for `t`;
* `quantTensor_typed` (QUANTIZE_TENSOR): tensor `t` has the prescribed type and carries `p`; name,
  shape and buffer are unchanged.

Hypotheses beyond those of C01/C02 (`WF.modelOK`, `origTagged`, `TInstsOK` = consistent and
chain-free instruction lists):

* `TensorsDisjoint tis` -- one tensor is the subject of at most one entry of `tis` per subgraph
  (needed by all three; `tensorsDisjoint_needed`);
* `OneRetype ti.insts` -- within one entry at most one instruction per tensor writes the tensor's own
  record (QUANTIZE_TENSOR / ADD_DEQUANTIZE; needed by the two `_typed` theorems only;
  `oneRetype_needed`).  `[QUANTIZE_TENSOR, ADD_QUANTIZE]` (requantize) is allowed.

Within one entry the consumer sets of an op-adding instruction and any later instruction are disjoint
by `NoChain` (part of `TInstsOK`); nothing more is needed there, because every instruction acts on an
ORIGINAL tensor (`InstOK.tvalid`), so a slot that was rewired to a NEW tensor is never rewired again
and a NEW tensor is never retyped.
-/
open Graph Perform

namespace C03

/-- two different entries of `tis` for the same subgraph never perform instructions on the same tensor -/
abbrev TensorsDisjoint := @Wiring.TensorsDisjoint
/-- within one entry, two instructions that write the tensor's own record act on different tensors -/
abbrev OneRetype := @Wiring.OneRetype

/-- **ADD_QUANTIZE, whole run.**  For every instruction of kind ADD_QUANTIZE of a tensor `t` with
    parameters `p`: every listed real consumer `c` (an ORIGINAL operator id) now reads, in every
    operand slot in which the original operator read `t`, a tensor that (i) stands for `t`,
    (ii) has the type `dtypeOf p` and (iii) carries `p`. -/
theorem addQuant_wired (pt : PTable) (m m' : Model) (tis : List TInsts)
    (hwf : WF.modelOK m = true) (htag : Skeleton.origTagged m = true)
    (hok : ∀ ti ∈ tis, GraphInv.TInstsOK pt m ti) (hdisj : TensorsDisjoint tis)
    (h : transformGraph pt m tis = .ok m')
    (ti : TInsts) (hti : ti ∈ tis) (ins : Inst) (hins : ins ∈ ti.insts) (hx : ins.xf = .addQuant)
    (p : PId) (pi : PInfo) (ty : Nat) (hp : ins.param = some p) (hpi : pinfo pt p = some pi)
    (hty : dtypeOf pi = .ok ty)
    (sg sg' : Subgraph) (hsg : m.subgraphs[ti.sg]? = some sg) (hsg' : m'.subgraphs[ti.sg]? = some sg')
    (c : Int) (hc : c ∈ ins.consumers) (hc0 : 0 ≤ c) (o : Op) (ho : sg.ops[c.toNat]? = some o) :
    ∃ o' ∈ sg'.ops, o'.orig = some c.toNat ∧ o'.inputs.length = o.inputs.length ∧
      ∀ j : Nat, o.inputs[j]? = some ins.tensor →
        ∃ x tn, o'.inputs[j]? = some x ∧ sg'.tensors[x.toNat]? = some tn ∧ 0 ≤ x ∧
          tn.dtype = ty ∧ (pi.uniform = true → tn.quant = some p) ∧
          Skeleton.root sg' x = ins.tensor := by
  obtain ⟨o', ho', h1, h2, h3⟩ := Wiring.wired_core pt m m' tis hwf htag hok hdisj h ti hti ins hins
    (by rw [hx]; rfl) p pi ty hp hpi hty sg sg' hsg hsg' c hc hc0 o ho
  refine ⟨o', ho', h1, h2, fun j hj => ?_⟩
  obtain ⟨x, tn, g1, g2, g3, -, ⟨nm, tn0, rfl⟩, g6⟩ := h3 j hj
  rw [if_pos hx] at g2
  refine ⟨x, _, g1, g2, g3, StepTypes.retype_dtype .., ?_, g6⟩
  intro hu
  rw [StepTypes.retype_quant, if_pos hu]

/-- **ADD_DEQUANTIZE, whole run, the tensor itself**: it has the prescribed type and carries `p`;
    name, shape and buffer are those of the input model -/
theorem addDequant_typed (pt : PTable) (m m' : Model) (tis : List TInsts)
    (hwf : WF.modelOK m = true) (htag : Skeleton.origTagged m = true)
    (hok : ∀ ti ∈ tis, GraphInv.TInstsOK pt m ti) (hdisj : TensorsDisjoint tis)
    (h : transformGraph pt m tis = .ok m')
    (ti : TInsts) (hti : ti ∈ tis) (hret : OneRetype ti.insts)
    (ins : Inst) (hins : ins ∈ ti.insts) (hx : ins.xf = .addDequant)
    (p : PId) (pi : PInfo) (ty : Nat) (hp : ins.param = some p) (hpi : pinfo pt p = some pi)
    (hty : dtypeOf pi = .ok ty)
    (sg sg' : Subgraph) (hsg : m.subgraphs[ti.sg]? = some sg) (hsg' : m'.subgraphs[ti.sg]? = some sg') :
    ∃ tn0 tn', sg.tensors[ins.tensor.toNat]? = some tn0 ∧ sg'.tensors[ins.tensor.toNat]? = some tn' ∧
      0 ≤ ins.tensor ∧ tn'.dtype = ty ∧ (pi.uniform = true → tn'.quant = some p) ∧
      tn'.name = tn0.name ∧ tn'.shape = tn0.shape ∧ tn'.buffer = tn0.buffer :=
  Wiring.typed_core pt m m' tis hwf htag hok hdisj h ti hti hret ins hins (by rw [hx]; rfl)
    p pi ty hp hpi hty sg sg' hsg hsg'

/-- **ADD_DEQUANTIZE, whole run, the consumers**: every listed real consumer reads, in the slots where
    the original operator read `t`, a FLOAT32 tensor without quantization that stands for `t` -/
theorem addDequant_consumers (pt : PTable) (m m' : Model) (tis : List TInsts)
    (hwf : WF.modelOK m = true) (htag : Skeleton.origTagged m = true)
    (hok : ∀ ti ∈ tis, GraphInv.TInstsOK pt m ti) (hdisj : TensorsDisjoint tis)
    (h : transformGraph pt m tis = .ok m')
    (ti : TInsts) (hti : ti ∈ tis) (ins : Inst) (hins : ins ∈ ti.insts) (hx : ins.xf = .addDequant)
    (p : PId) (pi : PInfo) (ty : Nat) (hp : ins.param = some p) (hpi : pinfo pt p = some pi)
    (hty : dtypeOf pi = .ok ty)
    (sg sg' : Subgraph) (hsg : m.subgraphs[ti.sg]? = some sg) (hsg' : m'.subgraphs[ti.sg]? = some sg')
    (c : Int) (hc : c ∈ ins.consumers) (hc0 : 0 ≤ c) (o : Op) (ho : sg.ops[c.toNat]? = some o) :
    ∃ o' ∈ sg'.ops, o'.orig = some c.toNat ∧ o'.inputs.length = o.inputs.length ∧
      ∀ j : Nat, o.inputs[j]? = some ins.tensor →
        ∃ x tn, o'.inputs[j]? = some x ∧ sg'.tensors[x.toNat]? = some tn ∧ 0 ≤ x ∧
          tn.dtype = Tables.ttFloat32 ∧ tn.quant = none ∧ Skeleton.root sg' x = ins.tensor := by
  obtain ⟨o', ho', h1, h2, h3⟩ := Wiring.wired_core pt m m' tis hwf htag hok hdisj h ti hti ins hins
    (by rw [hx]; rfl) p pi ty hp hpi hty sg sg' hsg hsg' c hc hc0 o ho
  refine ⟨o', ho', h1, h2, fun j hj => ?_⟩
  obtain ⟨x, tn, g1, g2, g3, -, ⟨nm, tn0, rfl⟩, g6⟩ := h3 j hj
  rw [if_neg (by rw [hx]; decide)] at g2
  exact ⟨x, _, g1, g2, g3, rfl, rfl, g6⟩

/-- **ADD_DEQUANTIZE, whole run** (both halves) -/
theorem addDequant_wired (pt : PTable) (m m' : Model) (tis : List TInsts)
    (hwf : WF.modelOK m = true) (htag : Skeleton.origTagged m = true)
    (hok : ∀ ti ∈ tis, GraphInv.TInstsOK pt m ti) (hdisj : TensorsDisjoint tis)
    (h : transformGraph pt m tis = .ok m')
    (ti : TInsts) (hti : ti ∈ tis) (hret : OneRetype ti.insts)
    (ins : Inst) (hins : ins ∈ ti.insts) (hx : ins.xf = .addDequant)
    (p : PId) (pi : PInfo) (ty : Nat) (hp : ins.param = some p) (hpi : pinfo pt p = some pi)
    (hty : dtypeOf pi = .ok ty)
    (sg sg' : Subgraph) (hsg : m.subgraphs[ti.sg]? = some sg) (hsg' : m'.subgraphs[ti.sg]? = some sg') :
    (∃ tn0 tn', sg.tensors[ins.tensor.toNat]? = some tn0 ∧ sg'.tensors[ins.tensor.toNat]? = some tn' ∧
      0 ≤ ins.tensor ∧ tn'.dtype = ty ∧ (pi.uniform = true → tn'.quant = some p) ∧
      tn'.name = tn0.name ∧ tn'.shape = tn0.shape ∧ tn'.buffer = tn0.buffer) ∧
    ∀ (c : Int), c ∈ ins.consumers → 0 ≤ c → ∀ (o : Op), sg.ops[c.toNat]? = some o →
      ∃ o' ∈ sg'.ops, o'.orig = some c.toNat ∧ o'.inputs.length = o.inputs.length ∧
        ∀ j : Nat, o.inputs[j]? = some ins.tensor →
          ∃ x tn, o'.inputs[j]? = some x ∧ sg'.tensors[x.toNat]? = some tn ∧ 0 ≤ x ∧
            tn.dtype = Tables.ttFloat32 ∧ tn.quant = none ∧ Skeleton.root sg' x = ins.tensor :=
  ⟨addDequant_typed pt m m' tis hwf htag hok hdisj h ti hti hret ins hins hx p pi ty hp hpi hty
      sg sg' hsg hsg',
    fun c hc hc0 o ho => addDequant_consumers pt m m' tis hwf htag hok hdisj h ti hti ins hins hx
      p pi ty hp hpi hty sg sg' hsg hsg' c hc hc0 o ho⟩

/-- **QUANTIZE_TENSOR, whole run**: the tensor has the prescribed type and carries `p`; name, shape
    and buffer are those of the input model -/
theorem quantTensor_typed (pt : PTable) (m m' : Model) (tis : List TInsts)
    (hwf : WF.modelOK m = true) (htag : Skeleton.origTagged m = true)
    (hok : ∀ ti ∈ tis, GraphInv.TInstsOK pt m ti) (hdisj : TensorsDisjoint tis)
    (h : transformGraph pt m tis = .ok m')
    (ti : TInsts) (hti : ti ∈ tis) (hret : OneRetype ti.insts)
    (ins : Inst) (hins : ins ∈ ti.insts) (hx : ins.xf = .quantTensor)
    (p : PId) (pi : PInfo) (ty : Nat) (hp : ins.param = some p) (hpi : pinfo pt p = some pi)
    (hty : dtypeOf pi = .ok ty)
    (sg sg' : Subgraph) (hsg : m.subgraphs[ti.sg]? = some sg) (hsg' : m'.subgraphs[ti.sg]? = some sg') :
    ∃ tn0 tn', sg.tensors[ins.tensor.toNat]? = some tn0 ∧ sg'.tensors[ins.tensor.toNat]? = some tn' ∧
      0 ≤ ins.tensor ∧ tn'.dtype = ty ∧ (pi.uniform = true → tn'.quant = some p) ∧
      tn'.name = tn0.name ∧ tn'.shape = tn0.shape ∧ tn'.buffer = tn0.buffer :=
  Wiring.typed_core pt m m' tis hwf htag hok hdisj h ti hti hret ins hins (by rw [hx]; rfl)
    p pi ty hp hpi hty sg sg' hsg hsg'

/-! ## NON-VACUITY: `C08.Witness` (QUANTIZE before, QUANTIZE_TENSOR on the weight, DEQUANTIZE after)

`y := OP9(x, w)`; the generated instruction lists are
`x: [NO_QUANTIZE, ADD_QUANTIZE → op 0]`, `w: [QUANTIZE_TENSOR]`, `y: [ADD_DEQUANTIZE → graph output]`. -/
namespace Example1
open C08.Witness

theorem htag : Skeleton.origTagged m = true := by decide

theorem hok : ∀ ti ∈ tis, GraphInv.TInstsOK pt m ti := by
  obtain ⟨tis', h, h1, -, -⟩ := C08.genInsts_total pt m reqs wf names reqOK params noMixed
  rw [gen_run] at h
  cases h
  exact h1

theorem hdisj : TensorsDisjoint tis := Wiring.tensorsDisjoint_of_b _ (by decide)

theorem hret : ∀ ti ∈ tis, OneRetype ti.insts := by
  intro ti hti
  exact Wiring.oneRetype_of_b _ (by revert ti; decide)

theorem hrun : transformGraph pt m tis = .ok m' := by decide

/-- the entry of `x` and its ADD_QUANTIZE instruction (real consumer: operator 0) -/
def tiX : TInsts := ⟨"x", 0, [⟨.noQuant, 0, -1, [0], none⟩, ⟨.addQuant, 0, -1, [0], some 0⟩]⟩
def insQ : Inst := ⟨.addQuant, 0, -1, [0], some 0⟩
def tiW : TInsts := ⟨"w", 0, [⟨.quantTensor, 1, -1, [0], some 1⟩]⟩
def insT : Inst := ⟨.quantTensor, 1, -1, [0], some 1⟩
def tiY : TInsts := ⟨"y", 0, [⟨.addDequant, 2, 0, [-1], some 0⟩]⟩
def insD : Inst := ⟨.addDequant, 2, 0, [-1], some 0⟩

/-- all hypotheses of `addQuant_wired` hold on the witness (an ADD_QUANTIZE with a real consumer,
    performed together with a QUANTIZE_TENSOR and an ADD_DEQUANTIZE), and the theorem applies -/
theorem addQuant_instance :
    ∃ o' ∈ (m'.subgraphs[0]'(by decide)).ops, o'.orig = some 0 ∧ o'.inputs.length = 2 ∧
      ∀ j : Nat, ([0, 1] : List Int)[j]? = some 0 →
        ∃ x tn, o'.inputs[j]? = some x ∧ (m'.subgraphs[0]'(by decide)).tensors[x.toNat]? = some tn ∧
          0 ≤ x ∧ tn.dtype = Tables.ttInt8 ∧ ((true : Bool) = true → tn.quant = some 0) ∧
          Skeleton.root (m'.subgraphs[0]'(by decide)) x = 0 :=
  addQuant_wired pt m m' tis wf htag hok hdisj hrun tiX (by decide) insQ (by decide) rfl
    0 ⟨true, 8, false⟩ Tables.ttInt8 rfl (by decide) rfl sg _ rfl rfl 0 (by decide) (by decide)
    { code := 0, inputs := [0, 1], outputs := [2], orig := some 0 } rfl

/-- … what it says on the witness: operator 0 now reads the int8 tensor 3 (`x_quantized`, parameters
    0) in slot 0, and tensor 3 stands for `x` -/
example : ∃ x tn, ((m'.subgraphs[0]'(by decide)).ops[1]'(by decide)).inputs[0]? = some x ∧
    (m'.subgraphs[0]'(by decide)).tensors[x.toNat]? = some tn ∧ tn.dtype = Tables.ttInt8 ∧
    tn.quant = some 0 ∧ Skeleton.root (m'.subgraphs[0]'(by decide)) x = 0 :=
  ⟨3, _, rfl, rfl, rfl, rfl, by decide⟩

/-- `quantTensor_typed` applies to the entry of `w` -/
theorem quantTensor_instance :
    ∃ tn0 tn', sg.tensors[insT.tensor.toNat]? = some tn0 ∧
      (m'.subgraphs[0]'(by decide)).tensors[insT.tensor.toNat]? = some tn' ∧
      0 ≤ insT.tensor ∧ tn'.dtype = Tables.ttInt8 ∧ ((true : Bool) = true → tn'.quant = some 1) ∧
      tn'.name = tn0.name ∧ tn'.shape = tn0.shape ∧ tn'.buffer = tn0.buffer :=
  quantTensor_typed pt m m' tis wf htag hok hdisj hrun tiW (by decide) (hret tiW (by decide))
    insT (by decide) rfl 1 ⟨true, 8, true⟩ Tables.ttInt8 rfl (by decide) rfl sg _ rfl rfl

/-- `addDequant_wired` applies to the entry of `y` (its only consumer is the graph output, so the
    consumer half is about no operator; the typing half says `y` is int8 with parameters 0) -/
theorem addDequant_instance :
    (∃ tn0 tn', sg.tensors[insD.tensor.toNat]? = some tn0 ∧
      (m'.subgraphs[0]'(by decide)).tensors[insD.tensor.toNat]? = some tn' ∧
      0 ≤ insD.tensor ∧ tn'.dtype = Tables.ttInt8 ∧ ((true : Bool) = true → tn'.quant = some 0) ∧
      tn'.name = tn0.name ∧ tn'.shape = tn0.shape ∧ tn'.buffer = tn0.buffer) ∧
    ∀ (c : Int), c ∈ insD.consumers → 0 ≤ c → ∀ (o : Op), sg.ops[c.toNat]? = some o →
      ∃ o' ∈ (m'.subgraphs[0]'(by decide)).ops, o'.orig = some c.toNat ∧
        o'.inputs.length = o.inputs.length ∧
        ∀ j : Nat, o.inputs[j]? = some insD.tensor →
          ∃ x tn, o'.inputs[j]? = some x ∧
            (m'.subgraphs[0]'(by decide)).tensors[x.toNat]? = some tn ∧ 0 ≤ x ∧
            tn.dtype = Tables.ttFloat32 ∧ tn.quant = none ∧
            Skeleton.root (m'.subgraphs[0]'(by decide)) x = insD.tensor :=
  addDequant_wired pt m m' tis wf htag hok hdisj hrun tiY (by decide) (hret tiY (by decide))
    insD (by decide) rfl 0 ⟨true, 8, false⟩ Tables.ttInt8 rfl (by decide) rfl sg _ rfl rfl

end Example1

/-! ## helpers to discharge `TInstsOK` on concrete single-instruction entries -/

theorem instOK_of (pt : PTable) (m : Model) (sg : Subgraph) (ins : Inst)
    (h1 : ins.xf ≠ .emulated) (h2 : WF.validT sg ins.tensor = true)
    (h3 : -1 ≤ ins.producer ∧ ins.producer < sg.ops.length)
    (h4 : WF.avail m sg (ins.producer + 1).toNat ins.tensor = true)
    (h5 : ∀ c ∈ ins.consumers, c < 0 ∨ (ins.producer < c ∧ c < sg.ops.length))
    (h6 : isConst m sg ins.tensor = true ∨
      ∀ p pi, ins.param = some p → pinfo pt p = some pi → pi.hasData = false) :
    GraphInv.InstOK pt m sg ins := by
  refine ⟨h1, h2, h3, h4, h5, ?_⟩
  intro p pi e1 e2 e3
  rcases h6 with h6 | h6
  · exact h6
  · rw [h6 p pi e1 e2] at e3; cases e3

/-- an entry whose instructions add no chain: at most one instruction, or none that adds an operator
    before another one -/
theorem tinstsOK_of (pt : PTable) (m : Model) (nm : String) (s : Nat) (sg : Subgraph)
    (insts : List Inst) (hsg : m.subgraphs[s]? = some sg)
    (h : ∀ ins ∈ insts, GraphInv.InstOK pt m sg ins)
    (hnc : insts.length ≤ 1 ∨ ∀ ins ∈ insts, ins.xf ≠ .addQuant ∧ ins.xf ≠ .addDequant) :
    GraphInv.TInstsOK pt m ⟨nm, s, insts⟩ := by
  refine ⟨⟨sg, hsg, h⟩, ?_⟩
  intro i j a b hij ha hb hx
  rcases hnc with hnc | hnc
  · have := (List.getElem?_eq_some_iff.1 hb).1
    simp only at this
    omega
  · have := hnc a (List.mem_of_getElem? ha)
    rcases hx with hx | hx
    · exact absurd hx this.1
    · exact absurd hx this.2

theorem noData_of (pt : PTable) (q : PId) (pi0 : PInfo) (hq : pinfo pt q = some pi0)
    (hd : pi0.hasData = false) :
    ∀ p pi, (some q : Option PId) = some p → pinfo pt p = some pi → pi.hasData = false := by
  intro p pi h hpi
  cases h
  rw [hq] at hpi
  cases hpi
  exact hd

/-! ## NON-VACUITY 2: two subgraphs, ADD_DEQUANTIZE with a real consumer

The model of `C19.Witness` (two copies of `y := OP9(x, w)`): DEQUANTIZE after the constant `w` of
subgraph 0 (real consumer: operator 0); in subgraph 1 QUANTIZE (int16) after the input `x` and
QUANTIZE_TENSOR on `w`.  Tensor index 1 is the subject of an entry in BOTH subgraphs
(`TensorsDisjoint` is per subgraph). -/
namespace Example2
open C19.Witness

def pt2 : PTable := [(0, ⟨true, 8, true⟩), (1, ⟨true, 16, false⟩)]
def insD : Inst := ⟨.addDequant, 1, -1, [0], some 0⟩
def insQ : Inst := ⟨.addQuant, 0, -1, [0], some 1⟩
def insT : Inst := ⟨.quantTensor, 1, -1, [0], some 0⟩
def tiD : TInsts := ⟨"w", 0, [insD]⟩
def tiQ : TInsts := ⟨"x", 1, [insQ]⟩
def tiT : TInsts := ⟨"w", 1, [insT]⟩
def tis2 : List TInsts := [tiD, tiQ, tiT]

def m2' : Model :=
  { subgraphs :=
      [{ tensors := [t "x" 0, { name := "w", dtype := 9, shape := [2], buffer := 1, quant := some 0 },
                     t "y" 0, t "w_dequant" 0],
         ops := [{ code := 1, inputs := [1], outputs := [3] },
                 { code := 0, inputs := [0, 3], outputs := [2], orig := some 0 }],
         inputs := [0], outputs := [2] },
       { tensors := [t "x" 0, { name := "w", dtype := 9, shape := [2], buffer := 2, quant := some 0 },
                     t "y" 0,
                     { name := "x_quantized", dtype := 7, shape := [2], buffer := 0, quant := some 1 }],
         ops := [{ code := 2, inputs := [0], outputs := [3] },
                 { code := 0, inputs := [3, 1], outputs := [2], orig := some 0 }],
         inputs := [0], outputs := [2] }]
    buffers := [none, some (.inr 0), some (.inr 0)]
    opcodes := [9, 6, 114]
    sigs := m.sigs }

theorem hrun : transformGraph pt2 m tis2 = .ok m2' := by decide
theorem hwf : WF.modelOK m = true := by decide
theorem htag : Skeleton.origTagged m = true := by decide

theorem hok : ∀ ti ∈ tis2, GraphInv.TInstsOK pt2 m ti := by
  intro ti hti
  simp only [tis2, List.mem_cons, List.mem_nil_iff, or_false] at hti
  rcases hti with rfl | rfl | rfl
  · refine tinstsOK_of pt2 m _ 0 (sgW 1) _ rfl (fun ins hins => ?_) (.inl (by decide))
    rw [List.mem_singleton.1 hins]
    exact instOK_of pt2 m (sgW 1) insD (by decide) (by decide) (by decide) (by decide) (by decide)
      (.inl (by decide))
  · refine tinstsOK_of pt2 m _ 1 (sgW 2) _ rfl (fun ins hins => ?_) (.inl (by decide))
    rw [List.mem_singleton.1 hins]
    exact instOK_of pt2 m (sgW 2) insQ (by decide) (by decide) (by decide) (by decide) (by decide)
      (.inr (noData_of pt2 1 ⟨true, 16, false⟩ (by decide) rfl))
  · refine tinstsOK_of pt2 m _ 1 (sgW 2) _ rfl (fun ins hins => ?_) (.inl (by decide))
    rw [List.mem_singleton.1 hins]
    exact instOK_of pt2 m (sgW 2) insT (by decide) (by decide) (by decide) (by decide) (by decide)
      (.inl (by decide))

theorem hdisj : TensorsDisjoint tis2 := Wiring.tensorsDisjoint_of_b _ (by decide)

/-- the DEQUANTIZE entry: `w` of subgraph 0 is int8 with parameters 0, and operator 0 reads, in slot 1
    (where it read `w`), a float32 tensor standing for `w` -/
theorem addDequant_instance :
    (∃ tn0 tn', (sgW 1).tensors[insD.tensor.toNat]? = some tn0 ∧
      (m2'.subgraphs[0]'(by decide)).tensors[insD.tensor.toNat]? = some tn' ∧
      0 ≤ insD.tensor ∧ tn'.dtype = Tables.ttInt8 ∧ ((true : Bool) = true → tn'.quant = some 0) ∧
      tn'.name = tn0.name ∧ tn'.shape = tn0.shape ∧ tn'.buffer = tn0.buffer) ∧
    ∀ (c : Int), c ∈ insD.consumers → 0 ≤ c → ∀ (o : Op), (sgW 1).ops[c.toNat]? = some o →
      ∃ o' ∈ (m2'.subgraphs[0]'(by decide)).ops, o'.orig = some c.toNat ∧
        o'.inputs.length = o.inputs.length ∧
        ∀ j : Nat, o.inputs[j]? = some insD.tensor →
          ∃ x tn, o'.inputs[j]? = some x ∧
            (m2'.subgraphs[0]'(by decide)).tensors[x.toNat]? = some tn ∧ 0 ≤ x ∧
            tn.dtype = Tables.ttFloat32 ∧ tn.quant = none ∧
            Skeleton.root (m2'.subgraphs[0]'(by decide)) x = insD.tensor :=
  addDequant_wired pt2 m m2' tis2 hwf htag hok hdisj hrun tiD (by decide)
    (Wiring.oneRetype_of_b _ (by decide)) insD (by decide) rfl 0 ⟨true, 8, true⟩ Tables.ttInt8 rfl
    (by decide) rfl (sgW 1) _ rfl rfl

/-- the consumer half is about a real operator here -/
example : (0 : Int) ∈ insD.consumers ∧ (sgW 1).ops[(0 : Int).toNat]? =
    some { code := 0, inputs := [0, 1], outputs := [2], orig := some 0 } := ⟨by decide, rfl⟩

/-- the QUANTIZE entry of subgraph 1: operator 0 of subgraph 1 reads an int16 tensor with parameters 1
    standing for `x` -/
theorem addQuant_instance :
    ∃ o' ∈ (m2'.subgraphs[1]'(by decide)).ops, o'.orig = some 0 ∧ o'.inputs.length = 2 ∧
      ∀ j : Nat, ([0, 1] : List Int)[j]? = some 0 →
        ∃ x tn, o'.inputs[j]? = some x ∧ (m2'.subgraphs[1]'(by decide)).tensors[x.toNat]? = some tn ∧
          0 ≤ x ∧ tn.dtype = Tables.ttInt16 ∧ ((true : Bool) = true → tn.quant = some 1) ∧
          Skeleton.root (m2'.subgraphs[1]'(by decide)) x = 0 :=
  addQuant_wired pt2 m m2' tis2 hwf htag hok hdisj hrun tiQ (by decide) insQ (by decide) rfl
    1 ⟨true, 16, false⟩ Tables.ttInt16 rfl (by decide) rfl (sgW 2) _ rfl rfl 0 (by decide) (by decide)
    { code := 0, inputs := [0, 1], outputs := [2], orig := some 0 } rfl

end Example2

/-! ## NON-VACUITY 3: the requantize pair `[QUANTIZE_TENSOR, ADD_QUANTIZE]` inside ONE entry

The model of `C03.Example` (`x --op0--> h --op1(h, w)--> y`): `h` is produced int8 (QUANTIZE_TENSOR,
parameters 7) and requantized to int16 (ADD_QUANTIZE, parameters 9) for its consumer `op1`; `w` is
quantized in place.  `NoChain`, `OneRetype` and `TensorsDisjoint` all allow the pair. -/
namespace Example3
open C03.Example

def pt3 : PTable := [(7, ⟨true, 8, false⟩), (9, ⟨true, 16, false⟩)]
def insHT : Inst := ⟨.quantTensor, 2, 0, [1], some 7⟩
def insHQ : Inst := ⟨.addQuant, 2, 0, [1], some 9⟩
def insWT : Inst := ⟨.quantTensor, 1, -1, [1], some 7⟩
def tiH : TInsts := ⟨"h", 0, [insHT, insHQ]⟩
def tiW : TInsts := ⟨"w", 0, [insWT]⟩
def tis3 : List TInsts := [tiH, tiW]

def sg3' : Subgraph :=
  { tensors := [{ name := "x", dtype := 0, shape := [1, 2], buffer := 0 },
                { name := "w", dtype := 9, shape := [2, 2], buffer := 1, quant := some 7 },
                { name := "h", dtype := 9, shape := [1, 2], buffer := 0, quant := some 7 },
                { name := "y", dtype := 0, shape := [1, 2], buffer := 0 },
                { name := "h_quantized", dtype := 7, shape := [1, 2], buffer := 0, quant := some 9 }],
    ops := [{ code := 0, inputs := [0], outputs := [2], orig := some 0 },
            { code := 2, inputs := [2], outputs := [4] },
            { code := 1, inputs := [4, 1], outputs := [3], orig := some 1 }],
    inputs := [0], outputs := [3] }

def m3' : Model := { mE with subgraphs := [sg3'], opcodes := [5, 9, 114] }

theorem hrun : transformGraph pt3 mE tis3 = .ok m3' := by decide
theorem hwf : WF.modelOK mE = true := by decide
theorem htag : Skeleton.origTagged mE = true := by decide
theorem hdisj : TensorsDisjoint tis3 := Wiring.tensorsDisjoint_of_b _ (by decide)
theorem hretH : OneRetype tiH.insts := Wiring.oneRetype_of_b _ (by decide)

theorem hok : ∀ ti ∈ tis3, GraphInv.TInstsOK pt3 mE ti := by
  intro ti hti
  simp only [tis3, List.mem_cons, List.mem_nil_iff, or_false] at hti
  rcases hti with rfl | rfl
  · refine ⟨⟨sgE, rfl, fun ins hins => ?_⟩, ?_⟩
    · simp only [tiH, List.mem_cons, List.mem_nil_iff, or_false] at hins
      rcases hins with rfl | rfl
      · exact instOK_of pt3 mE sgE insHT (by decide) (by decide) (by decide) (by decide) (by decide)
          (.inr (noData_of pt3 7 ⟨true, 8, false⟩ (by decide) rfl))
      · exact instOK_of pt3 mE sgE insHQ (by decide) (by decide) (by decide) (by decide) (by decide)
          (.inr (noData_of pt3 9 ⟨true, 16, false⟩ (by decide) rfl))
    · -- `NoChain`: the only op-adding instruction is the last one
      intro i j a b hij ha hb hx
      have hj := (List.getElem?_eq_some_iff.1 hb).1
      simp only [tiH, List.length_cons, List.length_nil] at hj
      have hi0 : i = 0 := by omega
      subst hi0
      cases ha
      rcases hx with hx | hx <;> cases hx
  · refine tinstsOK_of pt3 mE _ 0 sgE _ rfl (fun ins hins => ?_) (.inl (by decide))
    rw [List.mem_singleton.1 hins]
    exact instOK_of pt3 mE sgE insWT (by decide) (by decide) (by decide) (by decide) (by decide)
      (.inr (noData_of pt3 7 ⟨true, 8, false⟩ (by decide) rfl))

/-- ADD_QUANTIZE of the pair: `op1` reads, where it read `h`, an int16 tensor with parameters 9
    standing for `h` -/
theorem addQuant_instance :
    ∃ o' ∈ sg3'.ops, o'.orig = some 1 ∧ o'.inputs.length = 2 ∧
      ∀ j : Nat, ([2, 1] : List Int)[j]? = some 2 →
        ∃ x tn, o'.inputs[j]? = some x ∧ sg3'.tensors[x.toNat]? = some tn ∧
          0 ≤ x ∧ tn.dtype = Tables.ttInt16 ∧ ((true : Bool) = true → tn.quant = some 9) ∧
          Skeleton.root sg3' x = 2 :=
  addQuant_wired pt3 mE m3' tis3 hwf htag hok hdisj hrun tiH (by decide) insHQ (by decide) rfl
    9 ⟨true, 16, false⟩ Tables.ttInt16 rfl (by decide) rfl sgE sg3' rfl rfl 1 (by decide) (by decide)
    { code := 1, inputs := [2, 1], outputs := [3], orig := some 1 } rfl

/-- QUANTIZE_TENSOR of the pair: `h` itself is int8 with parameters 7 -/
theorem quantTensor_instance :
    ∃ tn0 tn', sgE.tensors[insHT.tensor.toNat]? = some tn0 ∧
      sg3'.tensors[insHT.tensor.toNat]? = some tn' ∧
      0 ≤ insHT.tensor ∧ tn'.dtype = Tables.ttInt8 ∧ ((true : Bool) = true → tn'.quant = some 7) ∧
      tn'.name = tn0.name ∧ tn'.shape = tn0.shape ∧ tn'.buffer = tn0.buffer :=
  quantTensor_typed pt3 mE m3' tis3 hwf htag hok hdisj hrun tiH (by decide) hretH insHT (by decide) rfl
    7 ⟨true, 8, false⟩ Tables.ttInt8 rfl (by decide) rfl sgE sg3' rfl rfl

end Example3

/-! ## the added hypotheses are necessary -/

namespace Counter
open C08.Witness

/-- int8 (parameter 0) and int16 (parameter 3) activations, no packed data -/
def ptC : PTable := [(0, ⟨true, 8, false⟩), (3, ⟨true, 16, false⟩)]

/-- an instruction on the graph input `x` of `C08.Witness.m` for operator 0 -/
def onX (xf : Xf) (p : PId) : Inst := ⟨xf, 0, -1, [0], some p⟩

theorem onX_ok (xf : Xf) (hx : xf ≠ .emulated) (p : PId) (pi0 : PInfo) (hq : pinfo ptC p = some pi0)
    (hd : pi0.hasData = false) : GraphInv.InstOK ptC m sg (onX xf p) :=
  instOK_of ptC m sg (onX xf p) hx (show WF.validT sg 0 = true by decide)
    (show (-1 : Int) ≤ -1 ∧ (-1 : Int) < sg.ops.length by decide)
    (show WF.avail m sg ((-1 : Int) + 1).toNat 0 = true by decide)
    (show ∀ c ∈ ([0] : List Int), c < 0 ∨ ((-1 : Int) < c ∧ c < sg.ops.length) by decide)
    (.inr (noData_of ptC p pi0 hq hd))

/-- **`TensorsDisjoint` is necessary for `addQuant_wired`.**  Two entries for the same tensor `x`, each
    one ADD_QUANTIZE for operator 0, int8 then int16.  The first rewires operator 0 to its new int8
    tensor; the second finds no operand `x` left to rewire: its QUANTIZE dangles and operator 0 does
    NOT read an int16 tensor. -/
def tisQQ : List TInsts := [⟨"x", 0, [onX .addQuant 0]⟩, ⟨"x", 0, [onX .addQuant 3]⟩]

def sgQQ : Subgraph :=
  { tensors := [t "x" 0, t "w" 1, t "y" 0,
                { name := "x_quantized", dtype := 9, shape := [2], buffer := 0, quant := some 0 },
                { name := "x_quantized_1", dtype := 7, shape := [2], buffer := 0, quant := some 3 }],
    ops := [{ code := 1, inputs := [0], outputs := [3] },
            { code := 1, inputs := [0], outputs := [4] },
            { code := 0, inputs := [3, 1], outputs := [2], orig := some 0 }],
    inputs := [0], outputs := [2] }

def mQQ : Model := { m with subgraphs := [sgQQ], opcodes := [9, 114] }

theorem runQQ : transformGraph ptC m tisQQ = .ok mQQ := by decide

theorem okQQ : ∀ ti ∈ tisQQ, GraphInv.TInstsOK ptC m ti := by
  intro ti hti
  simp only [tisQQ, List.mem_cons, List.mem_nil_iff, or_false] at hti
  rcases hti with rfl | rfl
  · refine tinstsOK_of ptC m _ 0 sg _ rfl (fun ins hins => ?_) (.inl (by decide))
    rw [List.mem_singleton.1 hins]
    exact onX_ok _ (by decide) 0 ⟨true, 8, false⟩ (by decide) rfl
  · refine tinstsOK_of ptC m _ 0 sg _ rfl (fun ins hins => ?_) (.inl (by decide))
    rw [List.mem_singleton.1 hins]
    exact onX_ok _ (by decide) 3 ⟨true, 16, false⟩ (by decide) rfl

theorem tensorsDisjoint_needed :
    ¬ ∀ (pt : PTable) (m m' : Model) (tis : List TInsts), WF.modelOK m = true →
      Skeleton.origTagged m = true → (∀ ti ∈ tis, GraphInv.TInstsOK pt m ti) →
      transformGraph pt m tis = .ok m' →
      ∀ (ti : TInsts), ti ∈ tis → ∀ (ins : Inst), ins ∈ ti.insts → ins.xf = .addQuant →
      ∀ (p : PId) (pi : PInfo) (ty : Nat), ins.param = some p → pinfo pt p = some pi →
      dtypeOf pi = .ok ty →
      ∀ (sg sg' : Subgraph), m.subgraphs[ti.sg]? = some sg → m'.subgraphs[ti.sg]? = some sg' →
      ∀ (c : Int), c ∈ ins.consumers → 0 ≤ c → ∀ (o : Op), sg.ops[c.toNat]? = some o →
      ∃ o' ∈ sg'.ops, o'.orig = some c.toNat ∧ o'.inputs.length = o.inputs.length ∧
        ∀ j : Nat, o.inputs[j]? = some ins.tensor →
          ∃ x tn, o'.inputs[j]? = some x ∧ sg'.tensors[x.toNat]? = some tn ∧ 0 ≤ x ∧
            tn.dtype = ty ∧ (pi.uniform = true → tn.quant = some p) ∧
            Skeleton.root sg' x = ins.tensor := by
  intro H
  obtain ⟨o', ho', h1, -, h3⟩ := H ptC m mQQ tisQQ wf Example1.htag okQQ runQQ
    ⟨"x", 0, [onX .addQuant 3]⟩ (by decide) (onX .addQuant 3) (by decide) rfl
    3 ⟨true, 16, false⟩ Tables.ttInt16 rfl (by decide) rfl sg sgQQ rfl rfl 0 (by decide) (by decide)
    { code := 0, inputs := [0, 1], outputs := [2], orig := some 0 } rfl
  simp only [sgQQ, List.mem_cons, List.mem_nil_iff, or_false] at ho'
  rcases ho' with rfl | rfl | rfl
  · cases h1
  · cases h1
  · obtain ⟨x, tn, g1, g2, -, g4, -⟩ := h3 0 rfl
    cases g1
    cases g2
    cases g4

/-- **`OneRetype` is necessary for `quantTensor_typed`.**  One entry with two QUANTIZE_TENSOR on `x`,
    int8 then int16: the second overwrites the first. -/
def tisTT : List TInsts := [⟨"x", 0, [onX .quantTensor 0, onX .quantTensor 3]⟩]

def mTT : Model :=
  { m with subgraphs := [{ sg with tensors :=
      [{ name := "x", dtype := 7, shape := [2], buffer := 0, quant := some 3 }, t "w" 1, t "y" 0] }] }

theorem runTT : transformGraph ptC m tisTT = .ok mTT := by decide

theorem okTT : ∀ ti ∈ tisTT, GraphInv.TInstsOK ptC m ti := by
  intro ti hti
  rw [List.mem_singleton.1 hti]
  refine tinstsOK_of ptC m _ 0 sg _ rfl (fun ins hins => ?_) (.inr (by decide))
  simp only [List.mem_cons, List.mem_nil_iff, or_false] at hins
  rcases hins with rfl | rfl
  · exact onX_ok _ (by decide) 0 ⟨true, 8, false⟩ (by decide) rfl
  · exact onX_ok _ (by decide) 3 ⟨true, 16, false⟩ (by decide) rfl

theorem oneRetype_needed :
    ¬ ∀ (pt : PTable) (m m' : Model) (tis : List TInsts), WF.modelOK m = true →
      Skeleton.origTagged m = true → (∀ ti ∈ tis, GraphInv.TInstsOK pt m ti) → TensorsDisjoint tis →
      transformGraph pt m tis = .ok m' →
      ∀ (ti : TInsts), ti ∈ tis → ∀ (ins : Inst), ins ∈ ti.insts → ins.xf = .quantTensor →
      ∀ (p : PId) (pi : PInfo) (ty : Nat), ins.param = some p → pinfo pt p = some pi →
      dtypeOf pi = .ok ty →
      ∀ (sg sg' : Subgraph), m.subgraphs[ti.sg]? = some sg → m'.subgraphs[ti.sg]? = some sg' →
      ∃ tn', sg'.tensors[ins.tensor.toNat]? = some tn' ∧ tn'.dtype = ty := by
  intro H
  obtain ⟨tn', g1, g2⟩ := H ptC m mTT tisTT wf Example1.htag okTT
    (Wiring.tensorsDisjoint_of_b _ (by decide)) runTT
    ⟨"x", 0, [onX .quantTensor 0, onX .quantTensor 3]⟩ (by decide) (onX .quantTensor 0) (by decide) rfl
    0 ⟨true, 8, false⟩ Tables.ttInt8 rfl (by decide) rfl sg _ rfl rfl
  cases g1
  cases g2

/-- **`TensorsDisjoint` is necessary for `quantTensor_typed`** as well: the same two instructions in
    two entries (each entry satisfies `OneRetype`). -/
def tisT2 : List TInsts := [⟨"x", 0, [onX .quantTensor 0]⟩, ⟨"x", 0, [onX .quantTensor 3]⟩]

theorem runT2 : transformGraph ptC m tisT2 = .ok mTT := by decide

theorem okT2 : ∀ ti ∈ tisT2, GraphInv.TInstsOK ptC m ti := by
  intro ti hti
  simp only [tisT2, List.mem_cons, List.mem_nil_iff, or_false] at hti
  rcases hti with rfl | rfl
  · refine tinstsOK_of ptC m _ 0 sg _ rfl (fun ins hins => ?_) (.inl (by decide))
    rw [List.mem_singleton.1 hins]
    exact onX_ok _ (by decide) 0 ⟨true, 8, false⟩ (by decide) rfl
  · refine tinstsOK_of ptC m _ 0 sg _ rfl (fun ins hins => ?_) (.inl (by decide))
    rw [List.mem_singleton.1 hins]
    exact onX_ok _ (by decide) 3 ⟨true, 16, false⟩ (by decide) rfl

theorem tensorsDisjoint_needed_typed :
    ¬ ∀ (pt : PTable) (m m' : Model) (tis : List TInsts), WF.modelOK m = true →
      Skeleton.origTagged m = true → (∀ ti ∈ tis, GraphInv.TInstsOK pt m ti) →
      (∀ ti ∈ tis, OneRetype ti.insts) → transformGraph pt m tis = .ok m' →
      ∀ (ti : TInsts), ti ∈ tis → ∀ (ins : Inst), ins ∈ ti.insts → ins.xf = .quantTensor →
      ∀ (p : PId) (pi : PInfo) (ty : Nat), ins.param = some p → pinfo pt p = some pi →
      dtypeOf pi = .ok ty →
      ∀ (sg sg' : Subgraph), m.subgraphs[ti.sg]? = some sg → m'.subgraphs[ti.sg]? = some sg' →
      ∃ tn', sg'.tensors[ins.tensor.toNat]? = some tn' ∧ tn'.dtype = ty := by
  intro H
  obtain ⟨tn', g1, g2⟩ := H ptC m mTT tisT2 wf Example1.htag okT2
    (fun ti hti => Wiring.oneRetype_of_b _ (by revert ti; decide)) runT2
    ⟨"x", 0, [onX .quantTensor 0]⟩ (by decide) (onX .quantTensor 0) (by decide) rfl
    0 ⟨true, 8, false⟩ Tables.ttInt8 rfl (by decide) rfl sg _ rfl rfl
  cases g1
  cases g2

end Counter

end C03
