import QProofs.TypingE2E
import QProps.C15c
import QProps.C03
/-!
# C03, end to end on `Pipeline.quantizePure`

"Each op runs in exactly the mode its recipe rule selected; others are untouched."  `C03.lean`,
`C03b.lean`, `C03c.lean` hold the pieces (which transformation a mode requests, the postcondition of one
transformation, the typing of the whole performer in terms of instruction lists).  This file composes
them with the materialisation and the instruction generator: the statements are about the INPUT model,
the RECIPE resolution and the OUTPUT model of `quantizePure` only; the only hypothesis besides a
successful run is the normal form `PipelineWF.NF` of C01/C02.

* `C03.noquant_op_untouched`, `C03.noquant_op_constants` -- an operator the recipe leaves unquantized;
* `C03.srq_op_typed`, `C03.srq_bias_typed` -- an operator under a static-range config of the min/max
  algorithm: results, runtime / constant operands in regular slots, non-float operands, the bias;
* `C03.drq_op_typed`, `C03.wo_op_typed` -- dynamic-range and weight-only configs of the min/max algorithm;
* `C03.f16_op_typed` -- the float-casting algorithm;
* `C03.inserted_ops_typed` -- the operators of the output without `orig` tag.

Each theorem is followed (namespace `C03.E2E`) by a closed instance on which all hypotheses hold, the
whole `quantizePure` being evaluated by the kernel (`decide +kernel`).

Operand positions are classified by `PipeNF.slotRole nm j` (0 = regular, 1 = index / shape / axis slot,
2 = bias slot of a convolution-like operator): the tables `PipeNF.indexSlots` / `biasSlot` / `dataSlot`
restate the position lists hard-coded in `Mat.materializeOp`.  A float32 tensor in an index slot is NOT
quantized by the library (the slot is ignored by position), which is why the static-range statement is
about regular slots; and the min/max algorithm treats a third operand of EMBEDDING_LOOKUP as a regular
operand (only float casting treats it as a bias), which is why the bias statements exclude that name.
-/
open Graph Mat Perform

namespace C03

/-- the recipe leaves operator `op` of subgraph `sg` unquantized: its builtin code is not one of the
    quantizer's operators ("unsupported op type"), or `Recipe.resolve` maps its name and scope to
    `no_quantize` (unmatched scope, explicit `no_quantize` rule, or only rules whose config the operator
    does not support -- `Recipe.resolve` skips those) -/
abbrev ResolvesNoQuant := @TypingE2E.ResolvesNoQuant

/-- what the output holds in operand slot `j` (original tensor `t`) of an unquantized operator `o'`:
    * an absent optional operand (`-1`) stays absent; otherwise
    * the slot holds `t` itself and `t` has its ORIGINAL record (name, dtype, shape, buffer, no
      quantization parameters); if `t` is a constant, the buffer it references has its original content; or
    * `t` is a float32 RUNTIME tensor (it is produced quantized by its producer) and the slot holds a NEW
      float32 tensor without quantization parameters over the empty buffer 0, which is the result of
      exactly one inserted operator `DEQUANTIZE(t)` and which `Skeleton.root` maps back to `t`. -/
abbrev UntouchedOperand := @TypingE2E.UntouchedOperand

/-- **C03.noquant_op_untouched.**  For every model in normal form, recipe state, regex semantics and
    statistics: if `quantize()` succeeds, then for every operator `op` (position `k` of subgraph `s` of the
    input) that the recipe leaves unquantized, the output subgraph contains exactly one operator `o'`
    tagged `k`; it has the opcode index, the results and the number of operands of `op`;
    `Skeleton.root` maps its operands back to those of `op`; every result tensor has its ORIGINAL record;
    and every operand slot is `UntouchedOperand`.  In particular every CONSTANT operand is read directly,
    keeps its record, and the content of its buffer is unchanged (this is where the buffer-sharing
    check of C15 is needed: another reader of the same buffer cannot have it rewritten). -/
theorem noquant_op_untouched (rx : String → String → Bool) (env : Env) (st : Recipe.State)
    (qsvs : Option Qsvs) (m' : Model) (tbl : List Param) (hnf : PipelineWF.NF env st)
    (h : Pipeline.quantizePure rx env st qsvs = .ok (m', tbl))
    (s : Nat) (sg sg' : Subgraph) (hsg : env.model.subgraphs[s]? = some sg) (hsg' : m'.subgraphs[s]? = some sg')
    (k : Nat) (op : Op) (hop : sg.ops[k]? = some op) (hnq : ResolvesNoQuant rx env st sg op) :
    ∃ o', o' ∈ sg'.ops ∧ o'.orig = some k ∧ (∀ o'' ∈ sg'.ops, o''.orig = some k → o'' = o') ∧
      o'.code = op.code ∧ o'.outputs = op.outputs ∧ o'.inputs.length = op.inputs.length ∧
      o'.inputs.map (Skeleton.root sg') = op.inputs ∧
      (∀ t ∈ op.outputs, t ≠ -1 →
        ∃ tn, sg.tensors[t.toNat]? = some tn ∧ sg'.tensors[t.toNat]? = some tn) ∧
      ∀ (j : Nat) (t : Int), op.inputs[j]? = some t → UntouchedOperand env m' sg sg' o' j t :=
  TypingE2E.noquant_op_untouched rx env st qsvs m' tbl hnf h s sg sg' hsg hsg' k op hop hnq

/-- corollary, the constants: a constant operand of an unquantized operator is read directly, has its
    original record, and its buffer content is that of the input model -/
theorem noquant_op_constants (rx : String → String → Bool) (env : Env) (st : Recipe.State)
    (qsvs : Option Qsvs) (m' : Model) (tbl : List Param) (hnf : PipelineWF.NF env st)
    (h : Pipeline.quantizePure rx env st qsvs = .ok (m', tbl))
    (s : Nat) (sg sg' : Subgraph) (hsg : env.model.subgraphs[s]? = some sg) (hsg' : m'.subgraphs[s]? = some sg')
    (k : Nat) (op : Op) (hop : sg.ops[k]? = some op) (hnq : ResolvesNoQuant rx env st sg op)
    (j : Nat) (t : Int) (hj : op.inputs[j]? = some t) (hc : isConst env.model sg t = true) :
    ∃ o' tn, o' ∈ sg'.ops ∧ o'.orig = some k ∧ o'.inputs[j]? = some t ∧
      sg.tensors[t.toNat]? = some tn ∧ sg'.tensors[t.toNat]? = some tn ∧
      m'.buffers[tn.buffer]? = env.model.buffers[tn.buffer]? := by
  obtain ⟨o', h1, h2, -, -, -, -, -, -, h9⟩ :=
    noquant_op_untouched rx env st qsvs m' tbl hnf h s sg sg' hsg hsg' k op hop hnq
  rcases h9 j t hj with ⟨rfl, -⟩ | ⟨tn, h0, htn, hcase⟩
  · have : isConst env.model sg (-1) = false := by unfold isConst; simp
    rw [this] at hc; cases hc
  · rcases hcase with ⟨a, b, c⟩ | ⟨a, -⟩
    · exact ⟨o', tn, h1, h2, a, htn, b, c hc⟩
    · rw [a] at hc; cases hc

/-- the integer tensor types -/
abbrev IsIntType := @TypingE2E.IsIntType

/-- **C03.inserted_ops_typed.**  Every operator of the output without `orig` tag has one operand, an
    ORIGINAL tensor, and one result, a NEW tensor, and is
    * a QUANTIZE whose operand is float32 without parameters or integer with parameters (requantize), and
      whose result is integer with parameters; or
    * a DEQUANTIZE whose operand is integer with parameters or float16, and whose result is float32
      without parameters. -/
theorem inserted_ops_typed (rx : String → String → Bool) (env : Env) (st : Recipe.State)
    (qsvs : Option Qsvs) (m' : Model) (tbl : List Param) (hnf : PipelineWF.NF env st)
    (h : Pipeline.quantizePure rx env st qsvs = .ok (m', tbl))
    (s : Nat) (sg' : Subgraph) (hsg' : m'.subgraphs[s]? = some sg') (o : Op) (ho : o ∈ sg'.ops)
    (hn : o.orig = none) :
    ∃ (sg : Subgraph) (ci t n : Nat) (tin tout : Tensor), env.model.subgraphs[s]? = some sg ∧
      o = { code := ci, inputs := [(t : Int)], outputs := [(n : Int)], orig := none } ∧
      t < sg.tensors.length ∧ sg.tensors.length ≤ n ∧
      sg'.tensors[t]? = some tin ∧ sg'.tensors[n]? = some tout ∧
      ((m'.opcodes[ci]? = some Tables.opQuantize ∧
          ((tin.dtype = Tables.ttFloat32 ∧ tin.quant = none) ∨ (IsIntType tin.dtype ∧ tin.quant.isSome = true)) ∧
          IsIntType tout.dtype ∧ tout.quant.isSome = true) ∨
       (m'.opcodes[ci]? = some Tables.opDequantize ∧
          ((IsIntType tin.dtype ∧ tin.quant.isSome = true) ∨ tin.dtype = Tables.ttFloat16) ∧
          tout.dtype = Tables.ttFloat32 ∧ tout.quant = none)) :=
  TypingE2E.inserted_ops_typed rx env st qsvs m' tbl hnf h s sg' hsg' o ho hn

/-- the recipe resolves operator `op` (name `nm`) to the min/max algorithm with config `cfg` -/
abbrev ResolvesMinMax := @TypingE2E.ResolvesMinMax

/-- the integer tensor type of a bit width (`quant_params_to_tflite_type`) -/
abbrev intOfBits := @TypingE2E.intOfBits

/-- **C03.srq_op_typed** (operands in regular slots, non-float operands, results; the bias is
    `srq_bias_typed`).  For an operator that the recipe resolves to the min/max algorithm with a
    static-range config of activation width `a.bits`: the output contains exactly one operator `o'` tagged
    `k`, with the opcode index / results / operand count of `op`, and
    * every float32 RESULT tensor is an integer tensor of width `a.bits` with quantization parameters;
    * in every regular operand slot (`slotRole nm j = 0`: not an index / shape / axis slot, not the bias
      slot) that held a float32 RUNTIME tensor `t`, `o'` reads an integer tensor of width `a.bits` with
      parameters that stands for `t` (`Skeleton.root`): `t` itself (when `t` is produced quantized with the
      same parameters), or the result of an inserted `QUANTIZE(t)`;
    * in every regular operand slot that held a float32 CONSTANT `t`, `o'` reads `t` itself, which is an
      integer tensor of the width of the tensor config in force (`MatParams.tcfgOf`: the weight config for
      operators that support weight-only / dynamic-range quantization, else the activation config) with
      parameters, and the buffer of `t` holds the packed integer data of those parameters;
    * every operand that is NOT float32 (indices, shapes, axes), outside the bias slot, is
      `UntouchedOperand`: never quantized. -/
theorem srq_op_typed (rx : String → String → Bool) (env : Env) (st : Recipe.State)
    (qsvs : Option Qsvs) (m' : Model) (tbl : List Param) (hnf : PipelineWF.NF env st)
    (h : Pipeline.quantizePure rx env st qsvs = .ok (m', tbl))
    (s : Nat) (sg sg' : Subgraph) (hsg : env.model.subgraphs[s]? = some sg) (hsg' : m'.subgraphs[s]? = some sg')
    (k : Nat) (op : Op) (hop : sg.ops[k]? = some op) (nm : String) (cfg : Cfg.OpCfg)
    (hres : ResolvesMinMax rx env st sg op nm cfg) (hsrq : isSRQ cfg = true) (a : Cfg.TCfg)
    (ha : cfg.act = some a) :
    ∃ o', o' ∈ sg'.ops ∧ o'.orig = some k ∧ (∀ o'' ∈ sg'.ops, o''.orig = some k → o'' = o') ∧
      o'.code = op.code ∧ o'.outputs = op.outputs ∧ o'.inputs.length = op.inputs.length ∧
      o'.inputs.map (Skeleton.root sg') = op.inputs ∧
      (∀ (j : Nat) (t : Int) (tn : Tensor), op.outputs[j]? = some t → t ≠ -1 → sg.tensors[t.toNat]? = some tn →
        tn.dtype = Tables.ttFloat32 →
        ∃ tn', sg'.tensors[t.toNat]? = some tn' ∧ tn'.dtype = intOfBits a.bits.toNat ∧ tn'.quant.isSome = true) ∧
      (∀ (j : Nat) (t : Int) (tn : Tensor), op.inputs[j]? = some t → t ≠ -1 → sg.tensors[t.toNat]? = some tn →
        tn.dtype = Tables.ttFloat32 → PipeNF.slotRole nm j = 0 →
        (isConst env.model sg t = false →
          ∃ z tz, o'.inputs[j]? = some z ∧ Skeleton.root sg' z = t ∧ sg'.tensors[z.toNat]? = some tz ∧
            tz.dtype = intOfBits a.bits.toNat ∧ tz.quant.isSome = true ∧
            (z = t ∨ ((sg.tensors.length : Int) ≤ z ∧
              ∃ ci, ({ code := ci, inputs := [t], outputs := [z], orig := none } : Op) ∈ sg'.ops ∧
                m'.opcodes[ci]? = some Tables.opQuantize))) ∧
        (isConst env.model sg t = true → ∀ tc, MatParams.tcfgOf env
            { sgIdx := s, op := op, opName := nm, opId := (k : Int), cfg := cfg } tn = some tc →
          ∃ tz pid, o'.inputs[j]? = some t ∧ sg'.tensors[t.toNat]? = some tz ∧
            tz.dtype = intOfBits tc.bits.toNat ∧ tz.quant = some pid ∧
            m'.buffers[tn.buffer]? = some (some (.inr pid)))) ∧
      (∀ (j : Nat) (t : Int) (tn : Tensor), op.inputs[j]? = some t → t ≠ -1 → sg.tensors[t.toNat]? = some tn →
        tn.dtype ≠ Tables.ttFloat32 → PipeNF.biasSlot nm ≠ some j → UntouchedOperand env m' sg sg' o' j t) :=
  TypingE2E.srq_op_typed rx env st qsvs m' tbl hnf h s sg sg' hsg hsg' k op hop nm cfg hres hsrq a ha

/-- **C03.srq_bias_typed.**  The bias (slot `biasSlot nm`) of a convolution-like operator
    (FULLY_CONNECTED, CONV_2D, DEPTHWISE_CONV_2D, CONV_2D_TRANSPOSE; EMBEDDING_LOOKUP has a bias slot only
    under float casting) under a static-range config: it is a constant, the operator reads it directly, it
    carries quantization parameters and its buffer holds the packed integer data of these parameters; when
    the data operand (slot `dataSlot nm`) is a runtime tensor the bias is int32, resp. int64 for 16-bit
    activations. -/
theorem srq_bias_typed (rx : String → String → Bool) (env : Env) (st : Recipe.State)
    (qsvs : Option Qsvs) (m' : Model) (tbl : List Param) (hnf : PipelineWF.NF env st)
    (h : Pipeline.quantizePure rx env st qsvs = .ok (m', tbl))
    (s : Nat) (sg sg' : Subgraph) (hsg : env.model.subgraphs[s]? = some sg) (hsg' : m'.subgraphs[s]? = some sg')
    (k : Nat) (op : Op) (hop : sg.ops[k]? = some op) (nm : String) (cfg : Cfg.OpCfg)
    (hres : ResolvesMinMax rx env st sg op nm cfg) (hsrq : isSRQ cfg = true) (a : Cfg.TCfg)
    (ha : cfg.act = some a)
    (iB : Nat) (hbs : PipeNF.biasSlot nm = some iB) (hnemb : nm ≠ "EMBEDDING_LOOKUP")
    (t : Int) (hj : op.inputs[iB]? = some t) (hne : t ≠ -1) :
    ∃ o' tn tz pid a_in, o' ∈ sg'.ops ∧ o'.orig = some k ∧ sg.tensors[t.toNat]? = some tn ∧
      isConst env.model sg t = true ∧ o'.inputs[iB]? = some t ∧ sg'.tensors[t.toNat]? = some tz ∧
      tz.quant = some pid ∧ m'.buffers[tn.buffer]? = some (some (.inr pid)) ∧
      op.inputs[PipeNF.dataSlot nm]? = some a_in ∧
      (isConst env.model sg a_in = false →
        tz.dtype = intOfBits (if a.bits.toNat = 16 then 64 else 32)) :=
  TypingE2E.srq_bias_typed rx env st qsvs m' tbl hnf h s sg sg' hsg hsg' k op hop nm cfg hres hsrq a ha
    iB hbs hnemb t hj hne

/-- the config quantizes no activations (dynamic-range and weight-only configs) -/
abbrev NoActMode := @TypingSrq.NoActMode

/-- a dynamic-range config (integer compute, no activation config) quantizes no activations -/
theorem noAct_of_drq (c : Cfg.OpCfg) (hcp : c.cp = .integer) (hact : c.act = none) : NoActMode c := by
  refine ⟨hact, fun b isC hb => ?_⟩
  rw [xfs_drq c hcp hact b isC, hb]
  rfl

/-- a weight-only config (float compute, explicit dequantize, no activation config, not blockwise)
    quantizes no activations -/
theorem noAct_of_wo (c : Cfg.OpCfg) (hcp : c.cp = .float) (hed : c.explicitDeq = true)
    (hblk : ∀ w, c.weight = some w → w.gran ≠ .blockwise) (hact : c.act = none) : NoActMode c := by
  refine ⟨hact, fun b isC hb => ?_⟩
  rw [xfs_wo c hcp hed hblk b isC, hb]
  rfl

/-- **C03.drq_op_typed.**  For an operator that the recipe resolves to the min/max algorithm with a
    DYNAMIC-RANGE config (integer compute precision, no activation config):
    * every result tensor has its ORIGINAL record (float activations out);
    * every operand that is a runtime tensor, or not float32, or the bias of a convolution-like operator,
      is `UntouchedOperand` (float activations in, float bias, indices never quantized);
    * a float32 constant in a regular slot for which a tensor config `tc` is in force (the weight config, for
      the operators registered for dynamic-range quantization) is read DIRECTLY, is an integer tensor of
      `tc.bits` bits with parameters, and its buffer holds the packed integer data. -/
theorem drq_op_typed (rx : String → String → Bool) (env : Env) (st : Recipe.State)
    (qsvs : Option Qsvs) (m' : Model) (tbl : List Param) (hnf : PipelineWF.NF env st)
    (h : Pipeline.quantizePure rx env st qsvs = .ok (m', tbl))
    (s : Nat) (sg sg' : Subgraph) (hsg : env.model.subgraphs[s]? = some sg) (hsg' : m'.subgraphs[s]? = some sg')
    (k : Nat) (op : Op) (hop : sg.ops[k]? = some op) (nm : String) (cfg : Cfg.OpCfg)
    (hres : ResolvesMinMax rx env st sg op nm cfg) (hcp : cfg.cp = .integer) (hact : cfg.act = none) :
    ∃ o', o' ∈ sg'.ops ∧ o'.orig = some k ∧ (∀ o'' ∈ sg'.ops, o''.orig = some k → o'' = o') ∧
      o'.code = op.code ∧ o'.outputs = op.outputs ∧ o'.inputs.length = op.inputs.length ∧
      o'.inputs.map (Skeleton.root sg') = op.inputs ∧
      (∀ (j : Nat) (t : Int), op.outputs[j]? = some t → t ≠ -1 →
        ∃ tn, sg.tensors[t.toNat]? = some tn ∧ sg'.tensors[t.toNat]? = some tn) ∧
      (∀ (j : Nat) (t : Int) (tn : Tensor), op.inputs[j]? = some t → t ≠ -1 → sg.tensors[t.toNat]? = some tn →
        (isConst env.model sg t = false ∨ tn.dtype ≠ Tables.ttFloat32 ∨
          (PipeNF.biasSlot nm = some j ∧ nm ≠ "EMBEDDING_LOOKUP")) →
        UntouchedOperand env m' sg sg' o' j t) ∧
      (∀ (j : Nat) (t : Int) (tn : Tensor), op.inputs[j]? = some t → t ≠ -1 → sg.tensors[t.toNat]? = some tn →
        PipeNF.slotRole nm j = 0 → tn.dtype = Tables.ttFloat32 → isConst env.model sg t = true →
        ∀ tc, MatParams.tcfgOf env { sgIdx := s, op := op, opName := nm, opId := (k : Int), cfg := cfg } tn = some tc →
        ∃ tz pid, o'.inputs[j]? = some t ∧ sg'.tensors[t.toNat]? = some tz ∧
          tz.dtype = intOfBits tc.bits.toNat ∧ tz.quant = some pid ∧
          m'.buffers[tn.buffer]? = some (some (.inr pid))) := by
  obtain ⟨o', h1, h2, h3, h4, h5, h6, h7, h8, h9, h10⟩ :=
    TypingE2E.noact_op_typed rx env st qsvs m' tbl hnf h s sg sg' hsg hsg' k op hop nm cfg hres
      (noAct_of_drq cfg hcp hact)
  refine ⟨o', h1, h2, h3, h4, h5, h6, h7, h8, h9, ?_⟩
  intro j t tn hj hne htn hrj hf hc tc htc
  obtain ⟨x, tz, pid, hx, hz, hrest⟩ := h10 j t tn hj hne htn hrj hf hc tc htc
  have hxq : x = .quantTensor := by
    have := xfs_drq cfg hcp hact true true
    rw [hx] at this
    simpa using this
  obtain ⟨a1, a2, a3, a4, -⟩ := hrest (.inl hxq)
  exact ⟨tz, pid, a4 hxq, hz, a1, a2, a3⟩

/-- **C03.wo_op_typed.**  For an operator that the recipe resolves to the min/max algorithm with a
    WEIGHT-ONLY config (float compute precision, explicit dequantize, no activation config):
    results, runtime operands, non-float operands and the bias as for `drq_op_typed`; a float32 constant in
    a regular slot for which a tensor config `tc` is in force becomes an integer tensor of `tc.bits` bits
    with parameters over a buffer with the packed integer data, and the operator receives it through an
    inserted DEQUANTIZE, whose result is a NEW float32 tensor without parameters. -/
theorem wo_op_typed (rx : String → String → Bool) (env : Env) (st : Recipe.State)
    (qsvs : Option Qsvs) (m' : Model) (tbl : List Param) (hnf : PipelineWF.NF env st)
    (h : Pipeline.quantizePure rx env st qsvs = .ok (m', tbl))
    (s : Nat) (sg sg' : Subgraph) (hsg : env.model.subgraphs[s]? = some sg) (hsg' : m'.subgraphs[s]? = some sg')
    (k : Nat) (op : Op) (hop : sg.ops[k]? = some op) (nm : String) (cfg : Cfg.OpCfg)
    (hres : ResolvesMinMax rx env st sg op nm cfg) (hcp : cfg.cp = .float) (hed : cfg.explicitDeq = true)
    (hact : cfg.act = none) :
    ∃ o', o' ∈ sg'.ops ∧ o'.orig = some k ∧ (∀ o'' ∈ sg'.ops, o''.orig = some k → o'' = o') ∧
      o'.code = op.code ∧ o'.outputs = op.outputs ∧ o'.inputs.length = op.inputs.length ∧
      o'.inputs.map (Skeleton.root sg') = op.inputs ∧
      (∀ (j : Nat) (t : Int), op.outputs[j]? = some t → t ≠ -1 →
        ∃ tn, sg.tensors[t.toNat]? = some tn ∧ sg'.tensors[t.toNat]? = some tn) ∧
      (∀ (j : Nat) (t : Int) (tn : Tensor), op.inputs[j]? = some t → t ≠ -1 → sg.tensors[t.toNat]? = some tn →
        (isConst env.model sg t = false ∨ tn.dtype ≠ Tables.ttFloat32 ∨
          (PipeNF.biasSlot nm = some j ∧ nm ≠ "EMBEDDING_LOOKUP")) →
        UntouchedOperand env m' sg sg' o' j t) ∧
      (∀ (j : Nat) (t : Int) (tn : Tensor), op.inputs[j]? = some t → t ≠ -1 → sg.tensors[t.toNat]? = some tn →
        PipeNF.slotRole nm j = 0 → tn.dtype = Tables.ttFloat32 → isConst env.model sg t = true →
        ∀ tc, MatParams.tcfgOf env { sgIdx := s, op := op, opName := nm, opId := (k : Int), cfg := cfg } tn = some tc →
        ∃ tz pid z tzz ci, sg'.tensors[t.toNat]? = some tz ∧
          tz.dtype = intOfBits tc.bits.toNat ∧ tz.quant = some pid ∧
          m'.buffers[tn.buffer]? = some (some (.inr pid)) ∧
          o'.inputs[j]? = some z ∧ (sg.tensors.length : Int) ≤ z ∧
          sg'.tensors[z.toNat]? = some tzz ∧ tzz.dtype = Tables.ttFloat32 ∧ tzz.quant = none ∧
          tzz.buffer = 0 ∧ ({ code := ci, inputs := [t], outputs := [z], orig := none } : Op) ∈ sg'.ops ∧
          m'.opcodes[ci]? = some Tables.opDequantize ∧ Skeleton.root sg' z = t) := by
  have hblk : ∀ w, cfg.weight = some w → w.gran ≠ .blockwise := by
    obtain ⟨code, scope, -, -, -, hr⟩ := hres
    have := Pipe.resolve_noBlockwise rx st nm scope hnf.noBlockwise
    rw [hr] at this
    exact this
  obtain ⟨o', h1, h2, h3, h4, h5, h6, h7, h8, h9, h10⟩ :=
    TypingE2E.noact_op_typed rx env st qsvs m' tbl hnf h s sg sg' hsg hsg' k op hop nm cfg hres
      (noAct_of_wo cfg hcp hed hblk hact)
  refine ⟨o', h1, h2, h3, h4, h5, h6, h7, h8, h9, ?_⟩
  intro j t tn hj hne htn hrj hf hc tc htc
  obtain ⟨x, tz, pid, hx, hz, hrest⟩ := h10 j t tn hj hne htn hrj hf hc tc htc
  have hxq : x = .addDequant := by
    have := xfs_wo cfg hcp hed hblk true true
    rw [hx] at this
    simpa using this
  obtain ⟨a1, a2, a3, -, a5⟩ := hrest (.inr hxq)
  obtain ⟨z, tzz, ci, z1, z2, z3, z4, z5, z6, z7, z8, z9⟩ := a5 hxq
  exact ⟨tz, pid, z, tzz, ci, hz, a1, a2, a3, z1, z2, z3, z4, z5, z6, z7, z8, z9⟩

/-- the recipe resolves operator `op` (name `nm`) to the float-casting algorithm -/
abbrev ResolvesFloatCast := @TypingE2E.ResolvesFloatCast

/-- **C03.f16_op_typed.**  An operator under the float-casting algorithm (FULLY_CONNECTED, CONV_2D,
    DEPTHWISE_CONV_2D, CONV_2D_TRANSPOSE, EMBEDDING_LOOKUP): its weight (operand 1) is a constant that
    becomes a FLOAT16 tensor over a buffer with the packed float16 data, and the operator receives it
    through an inserted DEQUANTIZE whose result is a NEW float32 tensor without parameters; its data
    operand and its bias are `UntouchedOperand`; its first result keeps its record. -/
theorem f16_op_typed (rx : String → String → Bool) (env : Env) (st : Recipe.State)
    (qsvs : Option Qsvs) (m' : Model) (tbl : List Param) (hnf : PipelineWF.NF env st)
    (h : Pipeline.quantizePure rx env st qsvs = .ok (m', tbl))
    (s : Nat) (sg sg' : Subgraph) (hsg : env.model.subgraphs[s]? = some sg) (hsg' : m'.subgraphs[s]? = some sg')
    (k : Nat) (op : Op) (hop : sg.ops[k]? = some op) (nm : String)
    (hres : ResolvesFloatCast rx env st sg op nm) :
    ∃ o' iB, o' ∈ sg'.ops ∧ o'.orig = some k ∧ (∀ o'' ∈ sg'.ops, o''.orig = some k → o'' = o') ∧
      o'.code = op.code ∧ o'.outputs = op.outputs ∧ o'.inputs.length = op.inputs.length ∧
      o'.inputs.map (Skeleton.root sg') = op.inputs ∧ PipeNF.biasSlot nm = some iB ∧
      (∃ sW tw tz pid z tzz ci, op.inputs[1]? = some sW ∧ 0 ≤ sW ∧ sg.tensors[sW.toNat]? = some tw ∧
        isConst env.model sg sW = true ∧ sg'.tensors[sW.toNat]? = some tz ∧ tz.dtype = Tables.ttFloat16 ∧
        m'.buffers[tw.buffer]? = some (some (.inr pid)) ∧
        o'.inputs[1]? = some z ∧ (sg.tensors.length : Int) ≤ z ∧
        sg'.tensors[z.toNat]? = some tzz ∧ tzz.dtype = Tables.ttFloat32 ∧ tzz.quant = none ∧ tzz.buffer = 0 ∧
        ({ code := ci, inputs := [sW], outputs := [z], orig := none } : Op) ∈ sg'.ops ∧
        m'.opcodes[ci]? = some Tables.opDequantize ∧ Skeleton.root sg' z = sW) ∧
      (∃ sIn, op.inputs[PipeNF.dataSlot nm]? = some sIn ∧
        UntouchedOperand env m' sg sg' o' (PipeNF.dataSlot nm) sIn) ∧
      (∀ b, op.inputs[iB]? = some b → UntouchedOperand env m' sg sg' o' iB b) ∧
      (∃ sOut tn, op.outputs[0]? = some sOut ∧ sg.tensors[sOut.toNat]? = some tn ∧
        sg'.tensors[sOut.toNat]? = some tn) :=
  TypingE2E.f16_op_typed rx env st qsvs m' tbl hnf h s sg sg' hsg hsg' k op hop nm hres

/-! ## NON-VACUITY: FULLY_CONNECTED under static-range int8, ABS (not a quantizer op) unselected

`h := FC(x, w)`, `y := ABS(h)`; recipe: FULLY_CONNECTED ↦ static-range int8, nothing else matches.
The whole `quantizePure` is evaluated by the kernel. -/
namespace E2E
open C15.E2E C15.Defect

def mA : Model :=
  { subgraphs := [{ tensors := [T "x" [1,2] 0, T "w" [2,2] 1, T "h" [1,2] 0, T "y" [1,2] 0],
                    ops := [{ code := 0, inputs := [0,1,-1], outputs := [2], orig := some 0 },
                            { code := 1, inputs := [2], outputs := [3], orig := some 1 }],
                    inputs := [0], outputs := [3] }],
    buffers := [none, some (.inl 0)], opcodes := [9, 101], sigs := [] }

def envA : Env := { model := mA, consts := [(1, [1,2,3,4])], adjY := [] }
def qsA : Qsvs := [("x", some (f32 [1,1] [1], f32 [1,1] [2])), ("h", some (f32 [1,1] [1], f32 [1,1] [4]))]
def stA : Recipe.State := [(".*", [⟨".*", "FULLY_CONNECTED", Tables.algMinMax, cfgSRQ⟩])]

def sgA' : Subgraph :=
  { tensors := [T "x" [1,2] 0, { T "w" [2,2] 1 with dtype := 9, quant := some 1 },
                { T "h" [1,2] 0 with dtype := 9, quant := some 2 }, T "y" [1,2] 0,
                { T "x_quantized" [1,2] 0 with dtype := 9, quant := some 0 }, T "h_dequant" [1,2] 0],
    ops := [{ code := 2, inputs := [0], outputs := [4] },
            { code := 0, inputs := [4, 1, -1], outputs := [2], orig := some 0 },
            { code := 3, inputs := [2], outputs := [5] },
            { code := 1, inputs := [5], outputs := [3], orig := some 1 }],
    inputs := [0], outputs := [3] }

def mA' : Model := { subgraphs := [sgA'], buffers := [none, some (.inr 1)], opcodes := [9, 101, 114, 6], sigs := [] }

theorem nfA : PipelineWF.NF envA stA :=
  TypingE2E.nf_of_fcOrUnnamed envA stA (by decide) (by decide) (by decide) (by decide) (by decide)

theorem runA : ∃ tbl, Pipeline.quantizePure rxAll envA stA (some qsA) = .ok (mA', tbl) := by
  have h : (match Pipeline.quantizePure rxAll envA stA (some qsA) with
      | .ok r => decide (r.1 = mA')
      | .error _ => false) = true := by decide +kernel
  cases hq : Pipeline.quantizePure rxAll envA stA (some qsA) with
  | error e => rw [hq] at h; cases h
  | ok r =>
    rw [hq] at h
    simp only [decide_eq_true_eq] at h
    exact ⟨r.2, by rw [← h]⟩

/-- ABS (builtin code 101) is not an operator of the quantizer: "unsupported op type" -/
theorem absNoQuant : ResolvesNoQuant rxAll envA stA (mA.subgraphs[0]'(by decide))
    { code := 1, inputs := [2], outputs := [3], orig := some 1 } :=
  ⟨101, rfl, .inl (by decide)⟩

/-- all hypotheses of `noquant_op_untouched` hold for the ABS operator, the theorem applies … -/
theorem noquant_instance :
    ∃ o', o' ∈ sgA'.ops ∧ o'.orig = some 1 ∧ (∀ o'' ∈ sgA'.ops, o''.orig = some 1 → o'' = o') ∧
      o'.code = 1 ∧ o'.outputs = [3] ∧ o'.inputs.length = 1 ∧
      o'.inputs.map (Skeleton.root sgA') = [2] ∧
      (∀ t ∈ ([3] : List Int), t ≠ -1 →
        ∃ tn, (mA.subgraphs[0]'(by decide)).tensors[t.toNat]? = some tn ∧ sgA'.tensors[t.toNat]? = some tn) ∧
      ∀ (j : Nat) (t : Int), ([2] : List Int)[j]? = some t →
        UntouchedOperand envA mA' (mA.subgraphs[0]'(by decide)) sgA' o' j t := by
  obtain ⟨tbl, hrun⟩ := runA
  exact noquant_op_untouched rxAll envA stA (some qsA) mA' tbl nfA hrun 0 _ sgA' rfl rfl 1 _ rfl absNoQuant

/-- … and what it says here: ABS reads the float32 tensor 5 (`h_dequant`), the result of the inserted
    DEQUANTIZE of the int8 tensor `h` (third alternative of `UntouchedOperand`); its result `y` is
    untouched -/
example : (sgA'.ops[3]'(by decide)) = { code := 1, inputs := [5], outputs := [3], orig := some 1 } ∧
    sgA'.tensors[5]? = some (T "h_dequant" [1,2] 0) ∧
    (sgA'.ops[2]'(by decide)) = { code := 3, inputs := [2], outputs := [5] } ∧
    mA'.opcodes[3]? = some Tables.opDequantize ∧ sgA'.tensors[3]? = some (T "y" [1,2] 0) ∧
    Skeleton.root sgA' 5 = 2 := ⟨rfl, rfl, rfl, rfl, rfl, by decide⟩

/-- the FULLY_CONNECTED operator resolves to the min/max algorithm with the static-range int8 config -/
theorem fcResolves : ResolvesMinMax rxAll envA stA (mA.subgraphs[0]'(by decide))
    { code := 0, inputs := [0,1,-1], outputs := [2], orig := some 0 } "FULLY_CONNECTED" cfgSRQ :=
  ⟨9, "h;", rfl, by decide, by decide, by decide⟩

/-- all hypotheses of `srq_op_typed` hold for the FULLY_CONNECTED operator; the conclusion, read on the
    instance: the result `h` is int8 with parameters; the runtime operand `x` is read through an inserted
    QUANTIZE (tensor 4, int8, parameters); the constant `w` is read directly, is int8 with parameters, and
    its buffer holds packed data -/
theorem srq_instance :
    ∃ o', o' ∈ sgA'.ops ∧ o'.orig = some 0 ∧
      (∃ tn', sgA'.tensors[2]? = some tn' ∧ tn'.dtype = Tables.ttInt8 ∧ tn'.quant.isSome = true) ∧
      (∃ z tz, o'.inputs[0]? = some z ∧ Skeleton.root sgA' z = 0 ∧ sgA'.tensors[z.toNat]? = some tz ∧
        tz.dtype = Tables.ttInt8 ∧ tz.quant.isSome = true) ∧
      (∃ tz pid, o'.inputs[1]? = some 1 ∧ sgA'.tensors[1]? = some tz ∧ tz.dtype = Tables.ttInt8 ∧
        tz.quant = some pid ∧ mA'.buffers[1]? = some (some (.inr pid))) := by
  obtain ⟨tbl, hrun⟩ := runA
  obtain ⟨o', h1, h2, -, -, -, -, -, hres, hin, -⟩ :=
    srq_op_typed rxAll envA stA (some qsA) mA' tbl nfA hrun 0 _ sgA' rfl rfl 0 _ rfl "FULLY_CONNECTED" cfgSRQ
      fcResolves (by decide) { bits := 8, symmetric := false } rfl
  refine ⟨o', h1, h2, ?_, ?_, ?_⟩
  · exact hres 0 2 (T "h" [1,2] 0) rfl (by decide) rfl rfl
  · obtain ⟨z, tz, a1, a2, a3, a4, a5, -⟩ :=
      (hin 0 0 (T "x" [1,2] 0) rfl (by decide) rfl rfl (by decide)).1 (by decide)
    exact ⟨z, tz, a1, a2, a3, a4, a5⟩
  · obtain ⟨tz, pid, a1, a2, a3, a4, a5⟩ :=
      (hin 1 1 (T "w" [2,2] 1) rfl (by decide) rfl rfl (by decide)).2 (by decide)
        { bits := 8, symmetric := true, gran := .tensorwise } (by decide)
    exact ⟨tz, pid, a1, a2, a3, a4, a5⟩

/-- `inserted_ops_typed` applies to both inserted operators -/
theorem inserted_instance (o : Op) (ho : o ∈ sgA'.ops) (hn : o.orig = none) :
    ∃ (sg : Subgraph) (ci t n : Nat) (tin tout : Tensor), envA.model.subgraphs[0]? = some sg ∧
      o = { code := ci, inputs := [(t : Int)], outputs := [(n : Int)], orig := none } ∧
      t < sg.tensors.length ∧ sg.tensors.length ≤ n ∧
      sgA'.tensors[t]? = some tin ∧ sgA'.tensors[n]? = some tout ∧
      ((mA'.opcodes[ci]? = some Tables.opQuantize ∧
          ((tin.dtype = Tables.ttFloat32 ∧ tin.quant = none) ∨ (IsIntType tin.dtype ∧ tin.quant.isSome = true)) ∧
          IsIntType tout.dtype ∧ tout.quant.isSome = true) ∨
       (mA'.opcodes[ci]? = some Tables.opDequantize ∧
          ((IsIntType tin.dtype ∧ tin.quant.isSome = true) ∨ tin.dtype = Tables.ttFloat16) ∧
          tout.dtype = Tables.ttFloat32 ∧ tout.quant = none)) := by
  obtain ⟨tbl, hrun⟩ := runA
  exact inserted_ops_typed rxAll envA stA (some qsA) mA' tbl nfA hrun 0 sgA' rfl o ho hn

/-! ### dynamic range: the tied FULLY_CONNECTED weights of `C15.E2E` (`h := FC(x, w1)`, `y := FC(h, w2)`,
int8 channelwise weights, no activation config) -/

theorem fcResolvesT : ResolvesMinMax rxAll envT stWO (mT.subgraphs[0]'(by decide))
    { code := 0, inputs := [0,1,-1], outputs := [2], orig := some 0 } "FULLY_CONNECTED" cfgWO :=
  ⟨9, "h;", rfl, by decide, by decide, by decide⟩

/-- all hypotheses of `drq_op_typed` hold for the first FULLY_CONNECTED; on the instance: the runtime
    operand `x` is `UntouchedOperand`, the result `h` keeps its record, the constant `w1` is read directly,
    is int8 with parameters, and its buffer holds packed data -/
theorem drq_instance :
    ∃ o', o' ∈ (mT'.subgraphs[0]'(by decide)).ops ∧ o'.orig = some 0 ∧
      (∃ tn, (mT.subgraphs[0]'(by decide)).tensors[2]? = some tn ∧
        (mT'.subgraphs[0]'(by decide)).tensors[2]? = some tn) ∧
      UntouchedOperand envT mT' (mT.subgraphs[0]'(by decide)) (mT'.subgraphs[0]'(by decide)) o' 0 0 ∧
      (∃ tz pid, o'.inputs[1]? = some 1 ∧ (mT'.subgraphs[0]'(by decide)).tensors[1]? = some tz ∧
        tz.dtype = Tables.ttInt8 ∧ tz.quant = some pid ∧ mT'.buffers[1]? = some (some (.inr pid))) := by
  obtain ⟨tbl, hrun, -⟩ := C15.E2E.runT
  obtain ⟨o', h1, h2, -, -, -, -, -, hres, huntouched, hconst⟩ :=
    drq_op_typed rxAll envT stWO none mT' tbl C15.E2E.nfT hrun 0 _ _ rfl rfl 0 _ rfl "FULLY_CONNECTED" cfgWO
      fcResolvesT rfl rfl
  refine ⟨o', h1, h2, ?_, ?_, ?_⟩
  · obtain ⟨tn, a, b⟩ := hres 0 2 rfl (by decide)
    exact ⟨tn, a, b⟩
  · exact huntouched 0 0 (T "x" [1,2] 0) rfl (by decide) rfl (.inl (by decide))
  · obtain ⟨tz, pid, a1, a2, a3, a4, a5⟩ := hconst 1 1 (T "w1" [2,2] 1) rfl (by decide) rfl (by decide) rfl
      (by decide) { bits := 8, symmetric := true, gran := .channelwise } (by decide)
    exact ⟨tz, pid, a1, a2, a3, a4, a5⟩

/-! ### the bias: `y := FC(x, w, b)` under static-range int8 -/

def mB : Model :=
  { subgraphs := [{ tensors := [T "x" [1,2] 0, T "w" [2,2] 1, T "b" [2] 2, T "y" [1,2] 0],
                    ops := [{ code := 0, inputs := [0,1,2], outputs := [3], orig := some 0 }],
                    inputs := [0], outputs := [3] }],
    buffers := [none, some (.inl 0), some (.inl 1)], opcodes := [9], sigs := [] }
def envB : Env := { model := mB, consts := [(1, [1,2,3,4]), (2, [1,2])], adjY := [] }
def qsB : Qsvs := [("x", some (f32 [1,1] [1], f32 [1,1] [2])), ("y", some (f32 [1,1] [1], f32 [1,1] [4]))]

def mB' : Model :=
  { subgraphs := [{ tensors := [T "x" [1,2] 0, { T "w" [2,2] 1 with dtype := 9, quant := some 1 },
                                { T "b" [2] 2 with dtype := 2, quant := some 2 },
                                { T "y" [1,2] 0 with dtype := 9, quant := some 3 },
                                { T "x_quantized" [1,2] 0 with dtype := 9, quant := some 0 },
                                T "y_dequant" [1,2] 0],
                    ops := [{ code := 1, inputs := [0], outputs := [4] },
                            { code := 0, inputs := [4, 1, 2], outputs := [3], orig := some 0 },
                            { code := 2, inputs := [3], outputs := [5] }],
                    inputs := [0], outputs := [5] }],
    buffers := [none, some (.inr 1), some (.inr 2)], opcodes := [9, 114, 6], sigs := [] }

theorem nfB : PipelineWF.NF envB stA :=
  TypingE2E.nf_of_fcOrUnnamed envB stA (by decide) (by decide) (by decide) (by decide) (by decide)

theorem runB : ∃ tbl, Pipeline.quantizePure rxAll envB stA (some qsB) = .ok (mB', tbl) := by
  have h : (match Pipeline.quantizePure rxAll envB stA (some qsB) with
      | .ok r => decide (r.1 = mB')
      | .error _ => false) = true := by decide +kernel
  cases hq : Pipeline.quantizePure rxAll envB stA (some qsB) with
  | error e => rw [hq] at h; cases h
  | ok r =>
    rw [hq] at h
    simp only [decide_eq_true_eq] at h
    exact ⟨r.2, by rw [← h]⟩

theorem fcResolvesB : ResolvesMinMax rxAll envB stA (mB.subgraphs[0]'(by decide))
    { code := 0, inputs := [0,1,2], outputs := [3], orig := some 0 } "FULLY_CONNECTED" cfgSRQ :=
  ⟨9, "y;", rfl, by decide, by decide, by decide⟩

/-- `srq_bias_typed` applies: the bias `b` is read directly, is int32 with parameters, and its buffer holds
    packed data -/
theorem bias_instance :
    ∃ o' tz pid, o' ∈ (mB'.subgraphs[0]'(by decide)).ops ∧ o'.orig = some 0 ∧ o'.inputs[2]? = some 2 ∧
      (mB'.subgraphs[0]'(by decide)).tensors[2]? = some tz ∧ tz.quant = some pid ∧
      mB'.buffers[2]? = some (some (.inr pid)) ∧ tz.dtype = Tables.ttInt32 := by
  obtain ⟨tbl, hrun⟩ := runB
  obtain ⟨o', tn, tz, pid, a_in, h1, h2, h3, h4, h5, h6, h7, h8, h9, h10⟩ :=
    srq_bias_typed rxAll envB stA (some qsB) mB' tbl nfB hrun 0 _ _ rfl rfl 0 _ rfl "FULLY_CONNECTED" cfgSRQ
      fcResolvesB (by decide) { bits := 8, symmetric := false } rfl 2 (by decide) (by decide) 2 rfl (by decide)
  have htn : tn = T "b" [2] 2 := by
    have : some (T "b" [2] 2) = some tn := h3
    exact (Option.some.inj this).symm
  subst htn
  have ha : a_in = 0 := by
    have : some (0 : Int) = some a_in := h9
    exact (Option.some.inj this).symm
  subst ha
  exact ⟨o', tz, pid, h1, h2, h5, h6, h7, h8, h10 (by decide)⟩

/-! ### float casting: `y := FC(x, w)` with float16 weights -/

def mF : Model :=
  { subgraphs := [{ tensors := [T "x" [1,2] 0, T "w" [2,2] 1, T "y" [1,2] 0],
                    ops := [{ code := 0, inputs := [0,1,-1], outputs := [2], orig := some 0 }],
                    inputs := [0], outputs := [2] }],
    buffers := [none, some (.inl 0)], opcodes := [9], sigs := [] }
def envF : Env := { model := mF, consts := [(1, [1,2,3,4])], adjY := [] }
def cfgF : Cfg.OpCfg :=
  { act := none, weight := some { bits := 16, symmetric := true, gran := .tensorwise, dtype := .float },
    cp := .float, explicitDeq := true, skipChecks := true }
def stF : Recipe.State := [(".*", [⟨".*", "FULLY_CONNECTED", Tables.algFloatCasting, cfgF⟩])]

def mF' : Model :=
  { subgraphs := [{ tensors := [T "x" [1,2] 0, { T "w" [2,2] 1 with dtype := 1 }, T "y" [1,2] 0,
                                T "w_dequant" [2,2] 0],
                    ops := [{ code := 1, inputs := [1], outputs := [3] },
                            { code := 0, inputs := [0, 3, -1], outputs := [2], orig := some 0 }],
                    inputs := [0], outputs := [2] }],
    buffers := [none, some (.inr 0)], opcodes := [9, 6], sigs := [] }

theorem nfF : PipelineWF.NF envF stF :=
  SharingData.nf_of_fcOnly envF stF (by decide) (by decide) (by decide) (by decide) (by decide)

theorem runF : ∃ tbl, Pipeline.quantizePure rxAll envF stF none = .ok (mF', tbl) := by
  have h : (match Pipeline.quantizePure rxAll envF stF none with
      | .ok r => decide (r.1 = mF')
      | .error _ => false) = true := by decide +kernel
  cases hq : Pipeline.quantizePure rxAll envF stF none with
  | error e => rw [hq] at h; cases h
  | ok r =>
    rw [hq] at h
    simp only [decide_eq_true_eq] at h
    exact ⟨r.2, by rw [← h]⟩

theorem fcResolvesF : ResolvesFloatCast rxAll envF stF (mF.subgraphs[0]'(by decide))
    { code := 0, inputs := [0,1,-1], outputs := [2], orig := some 0 } "FULLY_CONNECTED" :=
  ⟨9, "y;", cfgF, rfl, by decide, by decide, by decide⟩

/-- `f16_op_typed` applies: the weight `w` is float16 over packed data and is read through the inserted
    DEQUANTIZE (`w_dequant`, float32) -/
theorem f16_instance :
    ∃ o', o' ∈ (mF'.subgraphs[0]'(by decide)).ops ∧ o'.orig = some 0 ∧
      ∃ tz pid z tzz, (mF'.subgraphs[0]'(by decide)).tensors[1]? = some tz ∧ tz.dtype = Tables.ttFloat16 ∧
        mF'.buffers[1]? = some (some (.inr pid)) ∧ o'.inputs[1]? = some z ∧
        (mF'.subgraphs[0]'(by decide)).tensors[z.toNat]? = some tzz ∧ tzz.dtype = Tables.ttFloat32 ∧
        tzz.quant = none := by
  obtain ⟨tbl, hrun⟩ := runF
  obtain ⟨o', iB, h1, h2, -, -, -, -, -, -, ⟨sW, tw, tz, pid, z, tzz, ci, w1, w2, w3, w4, w5, w6, w7, w8, w9, w10,
      w11, w12, -⟩, -⟩ :=
    f16_op_typed rxAll envF stF none mF' tbl nfF hrun 0 _ _ rfl rfl 0 _ rfl "FULLY_CONNECTED" fcResolvesF
  have hsW : sW = 1 := by
    have : ([0, 1, -1] : List Int)[1]? = some sW := w1
    simpa using this.symm
  subst hsW
  have htw : tw = T "w" [2,2] 1 := by
    have : some (T "w" [2,2] 1) = some tw := w3
    exact (Option.some.inj this).symm
  subst htw
  exact ⟨o', h1, h2, tz, pid, z, tzz, w5, w6, w7, w8, w10, w11, w12⟩

/-! ### weight only: the same model with int8 weights, float compute, explicit dequantize -/

def cfgW : Cfg.OpCfg :=
  { act := none, weight := some { bits := 8, symmetric := true, gran := .tensorwise }, cp := .float,
    explicitDeq := true, skipChecks := true }
def stW : Recipe.State := [(".*", [⟨".*", "FULLY_CONNECTED", Tables.algMinMax, cfgW⟩])]

def mW' : Model :=
  { subgraphs := [{ tensors := [T "x" [1,2] 0, { T "w" [2,2] 1 with dtype := 9, quant := some 0 }, T "y" [1,2] 0,
                                T "w_dequant" [2,2] 0],
                    ops := [{ code := 1, inputs := [1], outputs := [3] },
                            { code := 0, inputs := [0, 3, -1], outputs := [2], orig := some 0 }],
                    inputs := [0], outputs := [2] }],
    buffers := [none, some (.inr 0)], opcodes := [9, 6], sigs := [] }

theorem nfW : PipelineWF.NF envF stW :=
  SharingData.nf_of_fcOnly envF stW (by decide) (by decide) (by decide) (by decide) (by decide)

theorem runW : ∃ tbl, Pipeline.quantizePure rxAll envF stW none = .ok (mW', tbl) := by
  have h : (match Pipeline.quantizePure rxAll envF stW none with
      | .ok r => decide (r.1 = mW')
      | .error _ => false) = true := by decide +kernel
  cases hq : Pipeline.quantizePure rxAll envF stW none with
  | error e => rw [hq] at h; cases h
  | ok r =>
    rw [hq] at h
    simp only [decide_eq_true_eq] at h
    exact ⟨r.2, by rw [← h]⟩

theorem fcResolvesW : ResolvesMinMax rxAll envF stW (mF.subgraphs[0]'(by decide))
    { code := 0, inputs := [0,1,-1], outputs := [2], orig := some 0 } "FULLY_CONNECTED" cfgW :=
  ⟨9, "y;", rfl, by decide, by decide, by decide⟩

/-- `wo_op_typed` applies: the weight `w` is int8 with parameters over packed data and is read through the
    inserted DEQUANTIZE (`w_dequant`, float32 without parameters); the activation `x` is untouched -/
theorem wo_instance :
    ∃ o', o' ∈ (mW'.subgraphs[0]'(by decide)).ops ∧ o'.orig = some 0 ∧
      UntouchedOperand envF mW' (mF.subgraphs[0]'(by decide)) (mW'.subgraphs[0]'(by decide)) o' 0 0 ∧
      ∃ tz pid z tzz, (mW'.subgraphs[0]'(by decide)).tensors[1]? = some tz ∧ tz.dtype = Tables.ttInt8 ∧
        tz.quant = some pid ∧ mW'.buffers[1]? = some (some (.inr pid)) ∧ o'.inputs[1]? = some z ∧
        (mW'.subgraphs[0]'(by decide)).tensors[z.toNat]? = some tzz ∧ tzz.dtype = Tables.ttFloat32 ∧
        tzz.quant = none := by
  obtain ⟨tbl, hrun⟩ := runW
  obtain ⟨o', h1, h2, -, -, -, -, -, -, huntouched, hconst⟩ :=
    wo_op_typed rxAll envF stW none mW' tbl nfW hrun 0 _ _ rfl rfl 0 _ rfl "FULLY_CONNECTED" cfgW
      fcResolvesW rfl rfl rfl
  refine ⟨o', h1, h2, huntouched 0 0 (T "x" [1,2] 0) rfl (by decide) rfl (.inl (by decide)), ?_⟩
  obtain ⟨tz, pid, z, tzz, ci, a1, a2, a3, a4, a5, a6, a7, a8, a9, -⟩ :=
    hconst 1 1 (T "w" [2,2] 1) rfl (by decide) rfl (by decide) rfl (by decide)
      { bits := 8, symmetric := true, gran := .tensorwise } (by decide)
  exact ⟨tz, pid, z, tzz, a1, a2, a3, a4, a5, a7, a8, a9⟩

end E2E

end C03
