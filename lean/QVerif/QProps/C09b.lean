import QProofs.CalibExact
import QProofs.GenInstsOK
/-!
# C09b — calibration statistics are EXACT and order-faithful

"After calibrating on a dataset, the recorded min/max of every runtime tensor equals the
exponential moving average (weight 0.95 on the old value, first sample initialises) of that
tensor's true per-sample min and max in the float model, taken in dataset order, and every
constant's statistics equal its true per-tensor or per-channel min/max."

* `emaSpec` is the declarative value: `[] ↦ {}`, `q :: rest ↦ rest.foldlM ema q`.
* `sampleStat n c` is the statistic sample `c` contributes to the tensor named `n`:
  `minMaxAll (c[n])`, the whole-tensor min / max of the contents the interpreter reports.
* The interpreter is external, so "true per-sample min and max in the float model" is: of the
  contents handed to the calibrator for that sample.

Findings recorded here (see the witnesses at the end of the file):
* unique tensor names inside the calibrated subgraph are NOT needed for the runtime statement
  (contents and statistics are both keyed by name, and the `updated` list makes every name count
  once per sample);
* what IS needed is that the name does not start with statistics of a CONSTANT: statistics are
  keyed by tensor name across ALL subgraphs, so a constant called `n` in an earlier subgraph (or an
  earlier operator) seeds the entry of a runtime tensor called `n` and the first sample is averaged
  into the constant's min/max instead of initialising (`Collision.not_exact`).
-/
open Graph Arith Cfg Num Nd Mat Calib

namespace C09

export CalibExact (emaSpec sampleStat ConstNamed Selected UsesName Touches)

/-- `emaSpec` is the left fold of `ema` from "no statistics" -/
theorem emaSpec_eq (vs : List Qsv) : emaSpec vs = vs.foldlM ema none :=
  CalibExact.emaSpec_eq_foldlM vs

theorem emaSpec_cons (q : Qsv) (rest : List Qsv) : emaSpec (q :: rest) = rest.foldlM ema q := rfl

/-- **runtime statistics are exact** (sharpest form).  `hinit` says that the entry
    `_initialize_model_qsvs` creates for the name carries no statistics; it is necessary
    (`Collision.not_exact`). -/
theorem runtime_stats_exact_of_init (rx : String → String → Bool) (env : Env) (st : Recipe.State)
    (sgi : Nat) (sg : Subgraph) (hsg : env.model.subgraphs[sgi]? = some sg)
    (samples : List Contents) (hne : samples ≠ []) (qs : Qsvs)
    (hneed : Recipe.needCalibration st = true)
    (h : calibrate rx env st sgi none samples = .ok qs)
    (op : Op) (k scope : String) (hop : CalibProofs.IsOp env sg op k) (hscope : opScope sg op = .ok scope)
    (hsel : (Recipe.resolve rx st k scope).1 = Tables.algMinMax)
    (i : Int) (hi : i ∈ op.inputs ++ op.outputs) (hi1 : i ≠ -1) (t : Tensor) (ht : tensorAt sg i = .ok t)
    (hnc : constAny env t = none)
    (hinit : ∀ q0, initModel rx env st = .ok q0 → (Py.dictGet? q0 t.name).join = none) :
    ∃ vs, samples.mapM (sampleStat t.name) = .ok vs ∧
      ∃ v, emaSpec vs = .ok v ∧ Py.dictGet? qs t.name = some v :=
  CalibExact.runtime_stats_exact_of_init rx env st sgi sg hsg samples hne qs hneed h op k scope hop
    hscope hsel i hi hi1 t ht hnc hinit

/-- **runtime statistics are exact**: after a fresh `calibrate()` on a non-empty dataset, the entry
    of every non-constant operand / result `t` of every operator (or INPUT / OUTPUT pseudo-operator)
    selected for min/max is the left fold of `ema` over the per-sample whole-tensor min / max of
    `t`'s contents, in dataset order, each sample counted once — provided no tensor of that name,
    anywhere in the model, is a constant with data (`¬ ConstNamed env t.name`). -/
theorem runtime_stats_exact (rx : String → String → Bool) (env : Env) (st : Recipe.State)
    (sgi : Nat) (sg : Subgraph) (hsg : env.model.subgraphs[sgi]? = some sg)
    (samples : List Contents) (hne : samples ≠ []) (qs : Qsvs)
    (hneed : Recipe.needCalibration st = true)
    (h : calibrate rx env st sgi none samples = .ok qs)
    (op : Op) (k scope : String) (hop : CalibProofs.IsOp env sg op k) (hscope : opScope sg op = .ok scope)
    (hsel : (Recipe.resolve rx st k scope).1 = Tables.algMinMax)
    (i : Int) (hi : i ∈ op.inputs ++ op.outputs) (hi1 : i ≠ -1) (t : Tensor) (ht : tensorAt sg i = .ok t)
    (hnc : constAny env t = none)
    (hname : ¬ ConstNamed env t.name) :
    ∃ vs, samples.mapM (sampleStat t.name) = .ok vs ∧
      ∃ v, emaSpec vs = .ok v ∧ Py.dictGet? qs t.name = some v :=
  CalibExact.runtime_stats_exact rx env st sgi sg hsg samples hne qs hneed h op k scope hop
    hscope hsel i hi hi1 t ht hnc hname

/-- **resumed calibration is exact**: calibrating `D2` on top of the result of `D1` records the
    specification of `D1 ++ D2` -/
theorem resumed_stats_exact (rx : String → String → Bool) (env : Env) (st : Recipe.State)
    (sgi : Nat) (sg : Subgraph) (hsg : env.model.subgraphs[sgi]? = some sg)
    (D1 D2 : List Contents) (hne : D1 ++ D2 ≠ []) (q1 q2 : Qsvs)
    (hneed : Recipe.needCalibration st = true)
    (h1 : calibrate rx env st sgi none D1 = .ok q1)
    (h2 : calibrate rx env st sgi (some q1) D2 = .ok q2)
    (op : Op) (k scope : String) (hop : CalibProofs.IsOp env sg op k) (hscope : opScope sg op = .ok scope)
    (hsel : (Recipe.resolve rx st k scope).1 = Tables.algMinMax)
    (i : Int) (hi : i ∈ op.inputs ++ op.outputs) (hi1 : i ≠ -1) (t : Tensor) (ht : tensorAt sg i = .ok t)
    (hnc : constAny env t = none)
    (hname : ¬ ConstNamed env t.name) :
    ∃ vs, (D1 ++ D2).mapM (sampleStat t.name) = .ok vs ∧
      ∃ v, emaSpec vs = .ok v ∧ Py.dictGet? q2 t.name = some v :=
  CalibExact.resumed_stats_exact rx env st sgi sg hsg D1 D2 hne q1 q2 hneed h1 h2 op k scope hop
    hscope hsel i hi hi1 t ht hnc hname

/-- **statistics of constants are exact and never changed by the samples.**
    Let `(P, J)` be the first position in model order (subgraph index, then operator index) of an
    operator that is selected for min/max and has an operand / result named like `t` (`hfirst`),
    let `t` be the tensor of that name among its operands (`huses`, `huniq`; `huniq` follows from
    unique tensor names in subgraph `P`, see `uniq_of_nodup`), and let no NON-constant tensor of
    the calibrated subgraph carry the name (`hnr`).  Then after `calibrate()` the entry of the name
    is `initTensor` of `t` computed with the `OpInfo` of THAT operator, whatever the samples are. -/
theorem const_stats_exact (rx : String → String → Bool) (env : Env) (st : Recipe.State)
    (sgi : Nat) (sgc : Subgraph) (hsgc : env.model.subgraphs[sgi]? = some sgc)
    (samples : List Contents) (qs : Qsvs) (hneed : Recipe.needCalibration st = true)
    (h : calibrate rx env st sgi none samples = .ok qs)
    (P J : Nat) (sg : Subgraph) (op : Op) (k : String) (cfg : OpCfg) (t : Tensor)
    (hsg : env.model.subgraphs[P]? = some sg) (hop : sg.ops[J]? = some op)
    (hsel : Selected rx env st sg op k cfg) (huses : UsesName sg op t.name)
    (huniq : ∀ i ∈ op.inputs ++ op.outputs, ∀ t', tensorAt sg i = .ok t' → t'.name = t.name → t' = t)
    (hfirst : ∀ P' J' sg' op', (P' < P ∨ (P' = P ∧ J' < J)) → env.model.subgraphs[P']? = some sg' →
      sg'.ops[J']? = some op' → ¬ Touches rx env st sg' op' t.name)
    (hnr : ∀ t' ∈ sgc.tensors, t'.name = t.name → constAny env t' ≠ none) :
    ∃ v, Py.dictGet? qs t.name = some v ∧
      initTensor env { sgIdx := P, op := op, opName := k, opId := J, cfg := cfg } t = .ok v :=
  CalibExact.const_stats_exact rx env st sgi sgc hsgc samples qs hneed h P J sg op k cfg t hsg hop
    hsel huses huniq hfirst hnr

/-- … and for a constant with data that value is its true per-tensor / per-channel min and max
    (`initMinMax`: reduction over all axes but the quantized dimension of that operator) -/
theorem const_stats_minmax (rx : String → String → Bool) (env : Env) (st : Recipe.State)
    (sgi : Nat) (sgc : Subgraph) (hsgc : env.model.subgraphs[sgi]? = some sgc)
    (samples : List Contents) (qs : Qsvs) (hneed : Recipe.needCalibration st = true)
    (h : calibrate rx env st sgi none samples = .ok qs)
    (P J : Nat) (sg : Subgraph) (op : Op) (k : String) (cfg : OpCfg) (t : Tensor)
    (hsg : env.model.subgraphs[P]? = some sg) (hop : sg.ops[J]? = some op)
    (hsel : Selected rx env st sg op k cfg) (huses : UsesName sg op t.name)
    (huniq : ∀ i ∈ op.inputs ++ op.outputs, ∀ t', tensorAt sg i = .ok t' → t'.name = t.name → t' = t)
    (hfirst : ∀ P' J' sg' op', (P' < P ∨ (P' = P ∧ J' < J)) → env.model.subgraphs[P']? = some sg' →
      sg'.ops[J']? = some op' → ¬ Touches rx env st sg' op' t.name)
    (hnr : ∀ t' ∈ sgc.tensors, t'.name = t.name → constAny env t' ≠ none)
    (d : Arr Rat) (hc : constAny env t = some d) (hd : d.data.isEmpty = false) :
    ∃ mn mx, initMinMax env { sgIdx := P, op := op, opName := k, opId := J, cfg := cfg } t d = .ok (mn, mx) ∧
      Py.dictGet? qs t.name = some (some (⟨mn.arr, statPrec t⟩, ⟨mx.arr, statPrec t⟩)) := by
  obtain ⟨v, hv, hi⟩ := const_stats_exact rx env st sgi sgc hsgc samples qs hneed h P J sg op k cfg t
    hsg hop hsel huses huniq hfirst hnr
  obtain ⟨mn, mx, hm, rfl⟩ := CalibExact.initTensor_const env _ t d v hc hd hi
  exact ⟨mn, mx, hm, hv⟩

/-- unique tensor names in a subgraph give the hypothesis `huniq` -/
theorem uniq_of_nodup (sg : Subgraph) (hnd : (sg.tensors.map (·.name)).Nodup) (t : Tensor)
    (ht : t ∈ sg.tensors) (op : Op) :
    ∀ i ∈ op.inputs ++ op.outputs, ∀ t', tensorAt sg i = .ok t' → t'.name = t.name → t' = t :=
  CalibExact.uniq_of_nodup sg hnd t ht op

/-- **"weight 0.95 on the old value"** on float32 statistics: every element of `emaArr old new` is
    `rn32 (rn32 (c1·old) + rn32 (c2·new))`, `c1 = rn32 (rn64 (19/20))`, `c2 = rn32 (rn64 (1 − rn64 (19/20)))` -/
theorem emaArr_f32 (w u r : FArr) (hw : w.pr = .f32) (hu : u.pr = .f32) (h : emaArr w u = .ok r) :
    r.pr = .f32 ∧ ∃ rs, bshapeAny w.arr.shape u.arr.shape = some rs ∧ r.arr.shape = rs ∧
      r.arr.data = (List.range (numel rs)).map fun i =>
        Prec.f32.rn (Prec.f32.rn (CalibExact.c1 * w.arr.data.getD (bindex rs w.arr.shape i) 0) +
                     Prec.f32.rn (CalibExact.c2 * u.arr.data.getD (bindex rs u.arr.shape i) 0)) :=
  CalibExact.emaArr_f32_elem w u r hw hu h

/-- the two float32 weights: 0.949999988… and 0.0500000007… (they do not sum to 1) -/
theorem weights : CalibExact.c1 = 15938355 / 16777216 ∧ CalibExact.c2 = 13421773 / 268435456 := by
  decide +kernel

/-! ## order-faithfulness: the specification distinguishes the two orders of two samples -/

/-- a float32 statistic of shape `[1]` -/
def sc (x : Rat) : FArr := ⟨⟨[1], [x]⟩, .f32⟩

theorem emaSpec_order :
    emaSpec [some (sc 1, sc 2), some (sc 3, sc 4)] ≠ emaSpec [some (sc 3, sc 4), some (sc 1, sc 2)] := by
  decide +kernel

/-- the two values: `0.95·1 + 0.05·3`, … in float32 versus `0.95·3 + 0.05·1`, … -/
theorem emaSpec_order_values :
    emaSpec [some (sc 1, sc 2), some (sc 3, sc 4)] = .ok (some (sc (9227469/8388608), sc (4404019/2097152))) ∧
    emaSpec [some (sc 3, sc 4), some (sc 1, sc 2)] = .ok (some (sc (12163481/4194304), sc (16357785/4194304))) := by
  decide +kernel

/-! ## a closed instance of `runtime_stats_exact`: `c = ADD(a, b)`, rule `'*'`, two samples -/

namespace Ex

def rxAll : String → String → Bool := fun _ _ => true
def tA : Tensor := { name := "a", dtype := Tables.ttFloat32, shape := [2], buffer := 0 }
def tB : Tensor := { name := "b", dtype := Tables.ttFloat32, shape := [2], buffer := 0 }
def tC : Tensor := { name := "c", dtype := Tables.ttFloat32, shape := [2], buffer := 0 }
def add : Op := { code := 0, inputs := [0, 1], outputs := [2] }
def sg0 : Subgraph := { tensors := [tA, tB, tC], ops := [add], inputs := [0, 1], outputs := [2] }
def env0 : Env :=
  { model := { subgraphs := [sg0], buffers := [none], opcodes := [0], sigs := [] }, consts := [], adjY := [] }
/-- int8 activations (asymmetric), int8 channel-wise weights, integer compute: a default-policy config -/
def cfg8 : OpCfg :=
  { act := some { bits := 8, symmetric := false }, weight := some { bits := 8, gran := .channelwise },
    cp := .integer }
def st0 : Recipe.State := [(".*", [⟨".*", "*", Tables.algMinMax, cfg8⟩])]
def f32 (l : List Rat) : FArr := ⟨⟨[l.length], l⟩, .f32⟩
def s1 : Contents := [("a", f32 [1, -2]), ("b", f32 [3, 1/2]), ("c", f32 [4, -3/2])]
def s2 : Contents := [("a", f32 [5, 0]), ("b", f32 [-1, 1]), ("c", f32 [4, 1])]

/-- the result of the run -/
def qs : Qsvs :=
  [("a", some (sc (-15938355/8388608), sc (5033165/4194304))),
   ("b", some (sc (14260633/33554432), sc (12163481/4194304))),
   ("c", some (sc (-11/8), sc 4))]

theorem run : calibrate rxAll env0 st0 0 none [s1, s2] = .ok qs := by decide +kernel
theorem need : Recipe.needCalibration st0 = true := by decide
theorem isOp : CalibProofs.IsOp env0 sg0 add "ADD" := .real add "ADD" (by decide) (by decide +kernel)
theorem scope : opScope sg0 add = .ok "c;" := by decide +kernel
theorem sel : (Recipe.resolve rxAll st0 "ADD" "c;").1 = Tables.algMinMax := by decide +kernel
theorem noConst : ¬ ConstNamed env0 tA.name :=
  fun h => absurd ((CalibExact.constNamed_iff _ _).1 h) (by decide +kernel)

/-- all hypotheses of `runtime_stats_exact` hold for the operand `a` of the ADD … -/
theorem instance_a :
    ∃ vs, [s1, s2].mapM (sampleStat "a") = .ok vs ∧
      ∃ v, emaSpec vs = .ok v ∧ Py.dictGet? qs "a" = some v :=
  runtime_stats_exact rxAll env0 st0 0 sg0 rfl [s1, s2] (by simp) qs need run add "ADD" "c;" isOp scope sel
    0 (by decide) (by decide) tA (by decide +kernel) (by decide +kernel) noConst

/-- … and this is what the conclusion says, in numbers: per-sample (min, max) of `a` are `(-2, 1)`
    and `(0, 5)`; the recorded value is `ema (-2, 1) (0, 5)` -/
theorem instance_a_values :
    [s1, s2].mapM (sampleStat "a") = .ok [some (sc (-2), sc 1), some (sc 0, sc 5)] ∧
    emaSpec [some (sc (-2), sc 1), some (sc 0, sc 5)] =
      .ok (some (sc (-15938355/8388608), sc (5033165/4194304))) ∧
    Py.dictGet? qs "a" = some (some (sc (-15938355/8388608), sc (5033165/4194304))) := by
  decide +kernel

/-- the other order of the same two samples records different statistics -/
theorem order_matters :
    calibrate rxAll env0 st0 0 none [s2, s1] ≠ calibrate rxAll env0 st0 0 none [s1, s2] := by
  decide +kernel

/-- `a` is touched by two selected operators in each sample (INPUT and ADD) and still counted once:
    the INPUT pseudo-operator gives the same instance -/
theorem instance_a_via_input :
    ∃ vs, [s1, s2].mapM (sampleStat "a") = .ok vs ∧
      ∃ v, emaSpec vs = .ok v ∧ Py.dictGet? qs "a" = some v :=
  runtime_stats_exact rxAll env0 st0 0 sg0 rfl [s1, s2] (by simp) qs need run _ "INPUT" "a;b;" .input
    (by decide +kernel) (by decide +kernel) 0 (by decide) (by decide) tA (by decide +kernel)
    (by decide +kernel) noConst

/-- resumption instance: `[s1]`, then `[s2]` on top of its result -/
def q1 : Qsvs := [("a", some (sc (-2), sc 1)), ("b", some (sc (1/2), sc 3)), ("c", some (sc (-3/2), sc 4))]
theorem run1 : calibrate rxAll env0 st0 0 none [s1] = .ok q1 := by decide +kernel
theorem run2 : calibrate rxAll env0 st0 0 (some q1) [s2] = .ok qs := by decide +kernel

theorem resumed_instance :
    ∃ vs, ([s1] ++ [s2]).mapM (sampleStat "a") = .ok vs ∧
      ∃ v, emaSpec vs = .ok v ∧ Py.dictGet? qs "a" = some v :=
  resumed_stats_exact rxAll env0 st0 0 sg0 rfl [s1] [s2] (by simp) q1 qs need run1 run2 add "ADD" "c;" isOp
    scope sel 0 (by decide) (by decide) tA (by decide +kernel) (by decide +kernel) noConst

end Ex

/-! ## the hypothesis `¬ ConstNamed` is necessary: a name shared with a constant of another subgraph

Subgraph 0 holds a CONSTANT called `"a"` (data `[10, 20]`) read by a selected ADD; subgraph 1 is the
model `Ex.sg0`, whose runtime input is also called `"a"`.  Statistics are keyed by the bare tensor
name, so `_initialize_model_qsvs` seeds `"a"` with the constant's `(10, 20)` and the first sample of
subgraph 1 is AVERAGED into it (`0.95·10 + 0.05·(-2)`) instead of initialising the entry. -/

namespace Collision
open Ex

def kA : Tensor := { name := "a", dtype := Tables.ttFloat32, shape := [2], buffer := 1 }
def kU : Tensor := { name := "u", dtype := Tables.ttFloat32, shape := [2], buffer := 0 }
def kW : Tensor := { name := "w", dtype := Tables.ttFloat32, shape := [2], buffer := 0 }
def sgK : Subgraph := { tensors := [kA, kU, kW], ops := [add], inputs := [1], outputs := [2] }
def env1 : Env :=
  { model := { subgraphs := [sgK, sg0], buffers := [none, some (.inl 0)], opcodes := [0], sigs := [] },
    consts := [(1, [10, 20])], adjY := [] }

/-- the result of calibrating subgraph 1 on the single sample `s1` -/
def qsK : Qsvs :=
  [("a", some (sc (4928307/524288), sc (4993843/262144))), ("u", none), ("w", none),
   ("b", some (sc (1/2), sc 3)), ("c", some (sc (-3/2), sc 4))]

theorem run : calibrate rxAll env1 st0 1 none [s1] = .ok qsK := by decide +kernel

/-- every hypothesis of `runtime_stats_exact` except `¬ ConstNamed` holds … -/
theorem hyps :
    env1.model.subgraphs[1]? = some sg0 ∧ Recipe.needCalibration st0 = true ∧
    CalibProofs.IsOp env1 sg0 add "ADD" ∧ opScope sg0 add = .ok "c;" ∧
    (Recipe.resolve rxAll st0 "ADD" "c;").1 = Tables.algMinMax ∧
    (0 : Int) ∈ add.inputs ++ add.outputs ∧ tensorAt sg0 0 = .ok tA ∧ constAny env1 tA = none ∧
    ConstNamed env1 tA.name :=
  ⟨rfl, need, .real add "ADD" (by decide) (by decide +kernel), scope, sel, by decide, by decide +kernel,
    by decide +kernel, (CalibExact.constNamed_iff _ _).2 (by decide +kernel)⟩

/-- … and the conclusion FAILS: the recorded value of `"a"` is not the specification of its samples
    (it is `(9.4, 19.05)` instead of `(-2, 1)`) -/
theorem not_exact :
    ¬ ∃ vs, [s1].mapM (sampleStat tA.name) = .ok vs ∧
        ∃ v, emaSpec vs = .ok v ∧ Py.dictGet? qsK tA.name = some v := by
  rintro ⟨vs, hvs, v, hv, hg⟩
  have e1 : [s1].mapM (sampleStat tA.name) = .ok [some (sc (-2), sc 1)] := by decide +kernel
  rw [e1] at hvs
  cases hvs
  have e2 : emaSpec [some (sc (-2), sc 1)] = .ok (some (sc (-2), sc 1)) := rfl
  rw [e2] at hv
  cases hv
  revert hg
  decide +kernel

/-- the same run also shows that `hnr` of `const_stats_exact` is necessary: the constant's entry
    `(10, 20)` written by `initModel` has been changed by the sample -/
theorem const_changed :
    (∃ q0, initModel rxAll env1 st0 = .ok q0 ∧ Py.dictGet? q0 "a" = some (some (sc 10, sc 20))) ∧
    Py.dictGet? qsK "a" ≠ some (some (sc 10, sc 20)) := by
  refine ⟨⟨[("a", some (sc 10, sc 20)), ("u", none), ("w", none), ("b", none), ("c", none)], ?_, ?_⟩, ?_⟩ <;>
    decide +kernel

/-! a closed instance of `const_stats_exact`: calibrating subgraph 0 itself, where the name `"a"`
    belongs to the constant only -/

def k1 : Contents := [("u", f32 [1, 2]), ("w", f32 [11, 22])]
def qsC : Qsvs :=
  [("a", some (sc 10, sc 20)), ("u", some (sc 1, sc 2)), ("w", some (sc 11, sc 22)), ("b", none), ("c", none)]

theorem runC : calibrate rxAll env1 st0 0 none [k1] = .ok qsC := by decide +kernel

theorem const_instance :
    ∃ mn mx, initMinMax env1 { sgIdx := 0, op := add, opName := "ADD", opId := (0 : Nat), cfg := cfg8 } kA
        ⟨[2], [10, 20]⟩ = .ok (mn, mx) ∧
      Py.dictGet? qsC kA.name = some (some (⟨mn.arr, statPrec kA⟩, ⟨mx.arr, statPrec kA⟩)) :=
  const_stats_minmax rxAll env1 st0 0 sgK rfl [k1] qsC need runC 0 0 sgK add "ADD" cfg8 kA rfl rfl
    ⟨by decide +kernel, "w;", by decide +kernel, by decide +kernel⟩
    ⟨0, by decide, by decide, kA, by decide +kernel, rfl⟩
    (uniq_of_nodup sgK (by decide) kA (by decide) add)
    (fun P' J' _ _ h => by omega)
    (by decide +kernel) ⟨[2], [10, 20]⟩ (by decide +kernel) rfl

/-! `huniq` of `const_stats_exact` is necessary too: inside ONE operator the LAST operand of a name
    wins (`op_qsvs[name] = …` overwrites), across operators the FIRST operator wins.  Here both
    operands of the ADD are constants called `"a"`; the entry is that of the second one. -/

def kA2 : Tensor := { name := "a", dtype := Tables.ttFloat32, shape := [2], buffer := 2 }
def sgD : Subgraph := { tensors := [kA, kA2, kW], ops := [add], inputs := [], outputs := [2] }
def env2 : Env :=
  { model := { subgraphs := [sgD], buffers := [none, some (.inl 0), some (.inl 1)], opcodes := [0], sigs := [] },
    consts := [(1, [10, 20]), (2, [30, 40])], adjY := [] }

theorem last_operand_wins :
    initModel rxAll env2 st0 = .ok [("a", some (sc 30, sc 40)), ("w", none)] ∧
    tensorAt sgD 0 = .ok kA ∧
    initTensor env2 { sgIdx := 0, op := add, opName := "ADD", opId := (0 : Nat), cfg := cfg8 } kA =
      .ok (some (sc 10, sc 20)) := by
  decide +kernel

end Collision

end C09

/-! ## the hypothesis `¬ ConstNamed` follows from the library's own requirement of model-wide unique tensor names

`quantize()` refuses a model in which two tensors carry the same name ("Tensor name … is not unique in the model … ParamsGenerator
assumes tensor names are unique", a `ValueError`); `calibrate()` does not check it and, on such a model, silently averages the first
sample of a runtime tensor into the statistics of a same-named constant (`Collision.not_exact`, replayed on the real code: the
entry of `a` is (9.4, 19.05) instead of (−2, 1)).  Under the library's assumption the exactness theorem needs no further premise. -/
namespace C09

theorem not_constNamed_of_unique (env : Env) (hu : GenInstsOK.namesUnique env.model)
    (sg : Subgraph) (hsg : sg ∈ env.model.subgraphs) (t : Tensor) (ht : t ∈ sg.tensors)
    (hnc : constAny env t = none) : ¬ ConstNamed env t.name := by
  rintro ⟨sg', hsg', t', ht', hn, d, hd, _⟩
  have hu' : ((env.model.subgraphs.flatMap (·.tensors)).map (·.name)).Nodup := by
    unfold GenInstsOK.namesUnique at hu
    rwa [List.map_flatMap]
  have h1 : t' ∈ env.model.subgraphs.flatMap (·.tensors) := List.mem_flatMap.mpr ⟨sg', hsg', ht'⟩
  have h2 : t ∈ env.model.subgraphs.flatMap (·.tensors) := List.mem_flatMap.mpr ⟨sg, hsg, ht⟩
  have : t' = t := CalibExact.nodup_map_inj (·.name) _ hu' t' h1 t h2 hn
  subst this
  rw [hnc] at hd
  cases hd

/-- **C09, runtime tensors, under the library's own model assumption (tensor names unique model-wide)** -/
theorem runtime_stats_exact_unique (rx : String → String → Bool) (env : Env) (st : Recipe.State)
    (hu : GenInstsOK.namesUnique env.model)
    (sgi : Nat) (sg : Subgraph) (hsg : env.model.subgraphs[sgi]? = some sg)
    (samples : List Contents) (hne : samples ≠ []) (qs : Qsvs)
    (hneed : Recipe.needCalibration st = true)
    (h : calibrate rx env st sgi none samples = .ok qs)
    (op : Op) (k scope : String) (hop : CalibProofs.IsOp env sg op k) (hscope : opScope sg op = .ok scope)
    (hsel : (Recipe.resolve rx st k scope).1 = Tables.algMinMax)
    (i : Int) (hi : i ∈ op.inputs ++ op.outputs) (hi1 : i ≠ -1) (t : Tensor) (ht : tensorAt sg i = .ok t)
    (hnc : constAny env t = none) :
    ∃ vs, samples.mapM (sampleStat t.name) = .ok vs ∧
      ∃ v, emaSpec vs = .ok v ∧ Py.dictGet? qs t.name = some v :=
  runtime_stats_exact rx env st sgi sg hsg samples hne qs hneed h op k scope hop hscope hsel i hi hi1 t ht hnc
    (not_constNamed_of_unique env hu sg (List.mem_of_getElem? hsg) t (CalibExact.index_mem _ _ _ ht) hnc)

example : GenInstsOK.namesUnique Ex.env0.model := by unfold GenInstsOK.namesUnique; decide

end C09
