import QProofs.ArithRounded
/-!
# C17 under IEEE rounding (float32/float64 arithmetic exactly as numpy performs it)
-/
open Num Arith

namespace C17

/-- the unclipped cast of the zero point is safe: it always lies in the integer range
    (asymmetric, float32 or float64 statistics, any finite range, 2..16 bits) -/
theorem zp_in_range (pr : Prec) (hpr : pr = .f32 ∨ pr = .f64) (bits : Nat) (hb2 : 2 ≤ bits) (hb16 : bits ≤ 16)
    (mn mx : Rat) (hmm : mn ≤ mx) (zp : Int) (s : Rat)
    (h : zpScale1 pr bits false mn mx = .ok (zp, s)) : qmin bits ≤ zp ∧ zp ≤ qmax bits :=
  ArithRounded.zp_in_range pr hpr bits hb2 hb16 mn mx hmm zp s h

/-- quantize(dequantize(q)) = q for **every** integer code and every scale in [2^-100, 2^100],
    in the floating-point formats the library uses -/
theorem q_dq_rounded (bits : Nat) (hb2 : 2 ≤ bits) (hb16 : bits ≤ 16) (narrow : Bool)
    (qw zw : Nat) (hqw : qw = 8 ∨ qw = 16) (hzw : zw = 8 ∨ zw = 16)
    (s : Rat) (hs1 : (2:Rat)^(-100:Int) ≤ s) (hs2 : s ≤ (2:Rat)^(100:Int))
    (zp c : Int) (hz1 : qmin bits ≤ zp) (hz2 : zp ≤ qmax bits)
    (hc1 : qmin bits + (if narrow then 1 else 0) ≤ c) (hc2 : c ≤ qmax bits) :
    roundClip bits narrow (qSum .f64 .f32 zw (dqVal true qw zw .f32 c zp s) s zp) = c :=
  ArithRounded.q_dq_rounded bits hb2 hb16 narrow qw zw hqw hzw s hs1 hs2 zp c hz1 hz2 hc1 hc2

/-- dequantize(quantize(x)) is within half a step (+ explicit float32 slack) of every in-range x -/
theorem dq_q_rounded (bits : Nat) (hb2 : 2 ≤ bits) (hb16 : bits ≤ 16) (narrow : Bool)
    (zw : Nat) (hzw : zw = 8 ∨ zw = 16)
    (s : Rat) (hs1 : (2:Rat)^(-100:Int) ≤ s) (hs2 : s ≤ (2:Rat)^(100:Int))
    (zp : Int) (hz1 : qmin bits ≤ zp) (hz2 : zp ≤ qmax bits) (x : Rat)
    (hlo : ((qmin bits + (if narrow then 1 else 0) - zp : Int) : Rat) * s ≤ x)
    (hhi : x ≤ ((qmax bits - zp : Int) : Rat) * s) :
    |dqVal true (storageBits bits) zw .f32 (roundClip bits narrow (qSum .f32 .f32 zw x s zp)) zp s - x|
      ≤ s * (1/2 + (2:Rat)^(bits + 3) * ArithRounded.u32) :=
  ArithRounded.dq_q_rounded bits hb2 hb16 narrow zw hzw s hs1 hs2 zp hz1 hz2 x hlo hhi

end C17
