import QModel.Pipeline
/-!
# C03 — each op runs in exactly the mode its recipe rule selected

The operand dtypes of the output graph are the composition of three facts: which
transformation a mode requests for an operand (`xfs_*`, below), that non-float operands are
never handed to a quantizing transformation (`nonfloat_never_quantized`), and which tensor type
a transformation with given parameters produces (`dtype_of_bits`).  The wiring of the requests
into the graph is the subject of C01/C02 (QProofs/GraphStep, GraphInv).
-/
open Graph Mat Cfg

namespace C03

/-- static-range mode: activations get QUANTIZE in front, constants are quantized in place,
    results are produced quantized (DEQUANTIZE after, eliminated against a quantized consumer) -/
theorem xfs_srq (c : OpCfg) (h : isSRQ c = true) (inbound isConst : Bool) :
    tensorXfs c inbound isConst =
      .ok (if inbound then (if isConst then [Xf.quantTensor] else [Xf.addQuant]) else [Xf.addDequant]) := by
  unfold isSRQ at h
  simp only [Bool.and_eq_true, beq_iff_eq] at h
  unfold tensorXfs
  simp only [h.1, h.2, beq_self_eq_true, Bool.and_self, if_true]
  cases inbound <;> cases isConst <;> rfl

/-- dynamic-range mode: only constant operands are quantized (in place), everything else stays float -/
theorem xfs_drq (c : OpCfg) (hcp : c.cp = .integer) (hact : c.act = none) (inbound isConst : Bool) :
    tensorXfs c inbound isConst = .ok (if inbound && isConst then [Xf.quantTensor] else [Xf.noQuant]) := by
  unfold tensorXfs
  cases inbound <;> cases isConst <;> simp [hcp, hact]

/-- weight-only mode: constant operands get an explicit DEQUANTIZE, everything else stays float -/
theorem xfs_wo (c : OpCfg) (hcp : c.cp = .float) (hed : c.explicitDeq = true)
    (hblk : ∀ w, c.weight = some w → w.gran ≠ .blockwise) (inbound isConst : Bool) :
    tensorXfs c inbound isConst = .ok (if inbound && isConst then [Xf.addDequant] else [Xf.noQuant]) := by
  unfold tensorXfs
  cases hw : c.weight with
  | none => cases inbound <;> cases isConst <;> simp [hcp, hed]
  | some w =>
    have := hblk w hw
    cases inbound <;> cases isConst <;> simp [hcp, hed, this]

/-- operand slots whose tensor is not float32 (indices, shapes, axes) are always on the ignore
    list of `materialize_standard_op`, hence receive `NO_QUANTIZE` -/
theorem nonfloat_never_quantized (sg : Subgraph) (slots : List Int) (given ign : List Nat)
    (h : ignoredSlots sg slots given = .ok ign) (i : Nat) (t : Int) (tn : Tensor)
    (hi : slots[i]? = some t) (ht : tensorAt sg t = .ok tn) (hd : tn.dtype ≠ Tables.ttFloat32) :
    i ∈ ign := by
  unfold ignoredSlots at h
  simp only [bind, Except.bind, pure, Except.pure] at h
  split at h
  · cases h
  · rename_i keep hk
    cases h
    have hil : i < slots.length := (List.getElem?_eq_some_iff.mp hi).1
    rw [List.mem_filter]
    refine ⟨List.mem_range.mpr hil, ?_⟩
    simp only [Bool.not_eq_true', List.contains_eq_mem, decide_eq_false_iff_not]
    intro hmem
    -- every kept index comes from a slot whose tensor is float32
    have key : ∀ (l : List (Int × Nat)) (keep : List Nat),
        l.filterMapM (fun (p : Int × Nat) => do
          let t ← tensorAt sg p.1
          pure (if t.dtype == Tables.ttFloat32 && !given.contains p.2 then some p.2 else none)) = Except.ok keep →
        ∀ j ∈ keep, ∃ t' tn', (t', j) ∈ l ∧ tensorAt sg t' = .ok tn' ∧ tn'.dtype = Tables.ttFloat32 := by
      intro l
      induction l with
      | nil => intro keep hk j hj; simp [List.filterMapM_nil, pure, Except.pure] at hk; subst hk; cases hj
      | cons p ps ih =>
        intro keep hk j hj
        rw [List.filterMapM_cons] at hk
        simp only [bind, Except.bind, pure, Except.pure] at hk
        cases hp : tensorAt sg p.1 with
        | error e => simp [hp] at hk
        | ok tp =>
          simp only [hp] at hk
          cases hrest : List.filterMapM (fun (p : Int × Nat) => do
              let t ← tensorAt sg p.1
              pure (if t.dtype == Tables.ttFloat32 && !given.contains p.2 then some p.2 else none)) ps with
          | error e => simp [bind, Except.bind, pure, Except.pure] at hrest; simp [hrest] at hk; split at hk <;> simp at hk
          | ok rest =>
            simp only [bind, Except.bind, pure, Except.pure] at hrest
            simp only [hrest] at hk
            by_cases hc : (tp.dtype == Tables.ttFloat32 && !given.contains p.2) = true
            · simp only [hc, if_true] at hk
              cases hk
              rcases List.mem_cons.mp hj with hj | hj
              · subst hj
                refine ⟨p.1, tp, by simp, hp, ?_⟩
                simp only [Bool.and_eq_true, beq_iff_eq] at hc; exact hc.1
              · obtain ⟨t', tn', h1, h2, h3⟩ := ih rest hrest j hj
                exact ⟨t', tn', List.mem_cons_of_mem _ h1, h2, h3⟩
            · simp only [hc] at hk
              cases hk
              obtain ⟨t', tn', h1, h2, h3⟩ := ih keep hrest j hj
              exact ⟨t', tn', List.mem_cons_of_mem _ h1, h2, h3⟩
    obtain ⟨t', tn', h1, h2, h3⟩ := key _ keep hk i hmem
    have : slots[i]? = some t' := by
      have := List.mem_zipIdx_iff_getElem?.mp h1
      simpa using this
    rw [hi] at this; cases this
    rw [ht] at h2; cases h2
    exact hd h3

/-- the tensor type produced by an integer quantization of `bits` bits -/
theorem dtype_of_bits (bits : Nat) (hasData : Bool) (h : bits ≤ 64) :
    Perform.dtypeOf ⟨true, bits, hasData⟩ = .ok
      (if bits ≤ 4 then Tables.ttInt4 else if bits ≤ 8 then Tables.ttInt8 else if bits ≤ 16 then Tables.ttInt16
       else if bits ≤ 32 then Tables.ttInt32 else Tables.ttInt64) := by
  unfold Perform.dtypeOf
  simp only [if_true]
  repeat' split
  all_goals first | rfl | omega

end C03
