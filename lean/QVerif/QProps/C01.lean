import QProofs.GraphBasics
/-!
# C01 — quantize() returns a well-formed model or raises

The structural conclusion of C01 is the decidable predicate `WF.modelOK`
(QModel/WF.lean).  Property theorems available so far are the local ones below;
the step theorems (`C01.step_*`: each single graph transformation preserves
`WF.modelOK`) are imported from QProofs/GraphStep.lean when present.
-/
open Graph Perform

namespace C01

/-- inserted tensors never duplicate a tensor name of the subgraph -/
theorem inserted_name_fresh (names : List String) (base : String) : uniqueName names base ∉ names :=
  GraphBasics.uniqueName_fresh names base

/-- the opcode index of an inserted QUANTIZE/DEQUANTIZE is in range, denotes the requested
    builtin code, and existing opcode indices keep their meaning -/
theorem opcode_index_ok (codes : List Nat) (code : Nat) :
    (addOpCode codes code).1[(addOpCode codes code).2]? = some code ∧
    ∃ ext, (addOpCode codes code).1 = codes ++ ext :=
  GraphBasics.addOpCode_spec codes code

end C01
