import QProofs.GraphBasics
import QProofs.GenInstsOK
import QProofs.PipelineWF
/-!
# C01 — quantize() returns a well-formed model or raises

The structural conclusion of C01 is the decidable predicate `WF.modelOK` (QModel/WF.lean):
buffer 0 empty, all tensor/buffer/opcode indices in range, tensor names unique per subgraph, every
operand a graph input, a constant or the result of an earlier operator, every tensor produced at
most once and never an input/constant, graph inputs/outputs and signature entries valid.
"Raises" is the `.error` branch of the `Except` monad.
-/
open Graph Perform

namespace C01

/-- inserted tensors never duplicate a tensor name of the subgraph -/
theorem inserted_name_fresh (names : List String) (base : String) : uniqueName names base ∉ names :=
  GraphBasics.uniqueName_fresh names base

/-- the opcode index of an inserted QUANTIZE/DEQUANTIZE is in range, denotes the requested
    builtin code, and existing opcode indices keep their meaning -/
theorem opcode_index_ok (codes : List Nat) (code : Nat) :
    (addOpCode codes code).1[(addOpCode codes code).2]? = some code ∧
    ∃ ext, (addOpCode codes code).1 = codes ++ ext :=
  GraphBasics.addOpCode_spec codes code

/-- each single transformation preserves well-formedness -/
theorem step_insertQuant (pt : PTable) (m m' : Model) (sgi : Nat) (sg : Subgraph) (inp : TIn) (info : TInfoOut)
    (hsg : m.subgraphs[sgi]? = some sg) (hwf : WF.modelOK m = true) (hinp : GraphStep.InpOK pt m sg inp)
    (h : insertQuant pt m sgi inp = .ok (m', info)) : WF.modelOK m' = true :=
  GraphStep.insertQuant_ok pt m m' sgi sg inp info hsg hwf hinp h

theorem step_insertDequant (pt : PTable) (m m' : Model) (sgi : Nat) (sg : Subgraph) (inp : TIn) (info : TInfoOut)
    (hsg : m.subgraphs[sgi]? = some sg) (hwf : WF.modelOK m = true) (hinp : GraphStep.InpOK pt m sg inp)
    (h : insertDequant pt m sgi inp = .ok (m', info)) : WF.modelOK m' = true :=
  GraphStep.insertDequant_ok pt m m' sgi sg inp info hsg hwf hinp h

theorem step_quantizeTensor (pt : PTable) (m m' : Model) (sgi : Nat) (sg : Subgraph) (inp : TIn) (info : TInfoOut)
    (hsg : m.subgraphs[sgi]? = some sg) (hwf : WF.modelOK m = true) (hinp : GraphStep.InpOK pt m sg inp)
    (h : quantizeOnly pt m sgi inp = .ok (m', info)) : WF.modelOK m' = true :=
  GraphStep.quantizeOnly_ok pt m m' sgi sg inp info hsg hwf hinp h

/-- the transformation performer (op-id maps, all tensors, all subgraphs) preserves well-formedness
    for instruction lists that are consistent with the input graph and chain-free -/
theorem performer_wf (pt : PTable) (m m' : Model) (tis : List TInsts)
    (hwf : WF.modelOK m = true) (hok : ∀ ti ∈ tis, GraphInv.TInstsOK pt m ti)
    (h : transformGraph pt m tis = .ok m') : WF.modelOK m' = true :=
  GraphInv.transformGraph_ok pt m m' tis hwf hok h

/-- **graph stage of quantize()**: for every well-formed input graph and every set of tensor
    requests of the closed shape the registered algorithms produce (`ReqOK`), instruction generation
    followed by the performer either fails (`.error`) or returns a well-formed graph -/
theorem modify_wf (pt : PTable) (m m' : Model) (reqs : List TReq)
    (hwf : WF.modelOK m = true) (hnames : GenInstsOK.namesUnique m)
    (hreq : ∀ r ∈ reqs, GenInstsOK.ReqOK pt m r)
    (h : Perform.modify pt m reqs = .ok m') : WF.modelOK m' = true :=
  GenInstsOK.modify_ok pt m m' reqs hwf hnames hreq h

/-- **C01 (structural part), end to end**: for every model in converter normal form (`NF`,
    QProofs/PipelineWF.lean), every recipe state, every regex semantics and every statistics,
    `quantize()` raises or returns a well-formed graph -/
theorem quantize_wf (rx : String → String → Bool) (env : Mat.Env) (st : Recipe.State) (qsvs : Option Mat.Qsvs)
    (m' : Model) (tbl : List Mat.Param) (hnf : PipelineWF.NF env st)
    (h : Pipeline.quantizePure rx env st qsvs = .ok (m', tbl)) : WF.modelOK m' = true :=
  PipelineWF.quantizePure_wf rx env st qsvs m' tbl hnf h

end C01
