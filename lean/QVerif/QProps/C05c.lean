import QProofs.ConstSrc
import QProofs.ConstOwnAll
import QProofs.PipelineWFExamples
/-!
# C05c — stored quantized constants, END TO END: the bytes behind `.inr p`

`QProps/C05.lean`, `C05b.lean` prove the storage formats for arbitrary code lists; C17 the scalar
laws; C04b that the requested parameters are the reference formulas; C15c that every rewritten
constant buffer holds the packed data of ONE parameter object `tbl[p]` by which all its tensors are
typed.  This file composes them over `Pipeline.quantizePure`.

## 1. The bytes (`storedBytes`, `decodeStored`)

The graph model keeps a rewritten buffer abstract (`some (.inr p)`).  `storedBytes tbl p` are the
bytes the serializer writes for it: `quantize_tensor` stores
`_pack_data(P.num_bits, np.frombuffer(P.quantized_data.tobytes(), uint8))`, i.e. for integer data
`Bytes.storeInts P.bits (dtype width of the data) (flat values)` (`storedBytes_uniform`; this is the
driver's `"store"` operation, which the correspondence harness compares with `_pack_data` on the real
code with exactly these arguments: `harness/fam_arith.py cmp_store`, `harness/fam_mat.py
model_param_expect`), and for float16 data the flattened output of the driver's `"f16"` operation
`Bytes.castF16` on the original values (`storedBytes_f16`).  No such function exists in `QModel/**`
or `Driver.lean` (the driver returns the parameter table and the harness composes), so it is defined
in `QProofs/ConstBytes.lean`, as that same composition.  `decodeStored dt n bs` decodes `n` values of
tensor type `dt` per the TFLite storage format (INT4: two per byte, low nibble first, sign-extended;
INT8/16/32/64: little-endian two's complement; FLOAT16: IEEE binary16, little endian).

## 2. Where the stored data comes from (`stored_source`)

For `quantizePure … = .ok (m', tbl)` under `PipelineWF.NF` alone, every tensor `tn'` of `m'` over an
original constant buffer that now holds `.inr p` (`Rewritten`; by `rewritten_of_inr` that is EVERY
tensor whose buffer holds `.inr p`, when the input model's data buffers are original constants) is the
tensor at the same position of the input model (same name, shape, buffer), a float constant with data
`d`, and the parameter object
`P` of its rewriting request -- `==`-equal (`Param.eqv`) to the table entry `tbl[p]`, with the SAME
stored bytes -- was computed FROM `d` in one of four ways (`Src`, `src_kinds`):
`own` (reference parameters of the constant's true min/max, C04b `weight_params_reference`, and
`uniform_quantize(d, qp)`), `lent` (borrowed data-free parameters, `uniform_quantize(d, qp)`),
`bias` (`symmetric_quantize_bias_tensor`), `f16` (`astype(float16)`).

## 3. The property

* `stored_length`: the stored bytes have `⌈n·bits/8⌉` bytes for the tensor's type (two values per
  byte for INT4) and the `n` values of the parameter object; `n` is the number of elements of the
  tensor's shape whenever the parameter object FITS the tensor (`Fits`: scale array of the tensor's
  rank with every dimension 1 or the tensor's -- TFLite's per-tensor / per-channel shape), which is
  always the case for `own` parameters (`stored_decodes_within_step`).
  For borrowed parameters and biases the scale's shape comes from the calibration statistics, which
  `quantizePure` takes as an arbitrary argument: `Fits` is NECESSARY (`NeedsFits.length_needs_fits`: a
  closed run, model in normal form, where a ONE-element INT32 bias is stored as 12 bytes because the
  statistics handed in for the operator's input have shape `[3,1]`).
* `stored_decodes_within_step`: `own` constants (weights of FULLY_CONNECTED / CONV / … , constant
  operands of element-wise ops): right length for the tensor's shape, decode to exactly the codes of
  the parameter object, and for 2..16 bits every scale is positive, every zero point in range (0 when
  symmetric), and `dequantize(code)` is within `s·(1/2 + 2^(bits+3)·2^-24)` of the ORIGINAL element
  (C17.dq_q_rounded: half a step plus the float32 evaluation slack) whenever the scale is in
  `[2^-100, 2^100]` and the element lies in the representable range of its channel.
* `stored_bias`: INT32 (INT64 for 16-bit activations) little-endian codes equal to `round(bias/scale)`
  (as evaluated in floating point) unless that leaves `±(2^31-1)` (`±(2^63-1024)`), where they
  saturate with the right sign.
* `stored_f16`: FLOAT16 tensors store the round-to-nearest-even binary16 of the originals.
* `stored_decodes_all`: the same constants, WITHOUT any hypothesis on where the elements lie: for 2..16
  bits, well-formed data (as many values as the shape says) of magnitude at most `2^99`, EVERY stored
  code dequantizes to within `s·(1/2 + 2^(bits+4)·2^-24)` of the original element, for symmetric AND
  asymmetric quantization.  This rests on a new scalar law, `C05.decode_minmax`
  (`QProofs/ConstCover.lean`): the parameters `tensor_zp_scale_from_min_max` computes in float32 from a
  channel's min/max cover `[min, max]` up to `1/2 + 12·2^-24·2^(bits-1)` steps (the zero point is rounded;
  the symmetric scale `rn(max|x|/qmax)` may round down), and `dequantize ∘ quantize` of a value that far
  outside the representable range (it is clipped) still lands within half a step plus rounding slack.  So
  the informal "one step for asymmetric" is in fact half a step (plus `2^(bits+4)·2^-24` of a step), like
  symmetric.

Not covered: bit widths above 16 for the value bound (C17's laws stop there), borrowed (`lent`)
parameters beyond length / round trip (their scales come from another tensor's statistics, so no bound
relative to this constant's range can hold in general).
-/
open Graph Mat Cfg Pipeline Arith Nd Num Bytes MatParams
open ConstBytes ConstProv ConstQuant ConstSrc

set_option autoImplicit false

namespace C05

/-! ## 1. the bytes -/

/-- integer data: the stored bytes are the driver's `storeInts` on the bit width, the dtype width of
    the data and the flat values -/
theorem storedBytes_uniform (tbl : List Param) (p : PId) (qp : QParams) (q : IArr)
    (h : tbl[p]? = some (.uniform qp (some q))) :
    storedBytes tbl p = some (Bytes.storeInts qp.bits q.w q.arr.data) := by
  simp [ConstBytes.storedBytes, h, ConstBytes.paramBytes]

/-- float16 data `h = d.astype(float16)`: the stored bytes are the flattened results of the driver's
    `castF16` on the original values `d` -/
theorem storedBytes_f16 (tbl : List Param) (p : PId) (shape : List Nat) (d h : List Rat)
    (htbl : tbl[p]? = some (.nonlinear 16 (some ⟨shape, h⟩))) (hh : d.mapM Prec.f16.chk = .ok h) :
    ∃ bss, d.mapM Bytes.castF16 = .ok bss ∧ storedBytes tbl p = some bss.flatten := by
  refine ⟨_, mapM_castF16 d h hh, ?_⟩
  simp [ConstBytes.storedBytes, htbl, ConstBytes.paramBytes, flatMap_eq_flatten_map]

/-! ## 2. where the stored data comes from -/

/-- `tn'` is tensor `i` of subgraph `s` of the output `m'`; its buffer `b` was a constant of the input
    and now holds the packed data of parameter `p` -/
structure Rewritten (env : Env) (m' : Model) (b p s i : Nat) (tn' : Tensor) : Prop where
  orig : ∃ k, env.model.buffers[b]? = some (some (.inl k))
  now : m'.buffers[b]? = some (some (.inr p))
  at' : ∃ sg', m'.subgraphs[s]? = some sg' ∧ sg'.tensors[i]? = some tn'
  buf : tn'.buffer = b

/-- **every tensor of the output whose buffer holds packed data `.inr p` is `Rewritten`**, provided the data
    buffers of the INPUT model are original constants (`.inl k`; this is how every input model is
    represented -- `.inr` only arises from `quantize_tensor`): a buffer without data in the input has
    none in the output (`ConstE2E.nodata_frame`) -/
theorem rewritten_of_inr (rx : String → String → Bool) (env : Env) (st : Recipe.State) (qsvs : Option Qsvs)
    (m' : Model) (tbl : List Param) (hnf : PipelineWF.NF env st)
    (hrun : quantizePure rx env st qsvs = .ok (m', tbl))
    (hin : ∀ (b : Nat) (q : PId), env.model.buffers[b]? ≠ some (some (Sum.inr q)))
    (p s i : Nat) (sg' : Subgraph) (tn' : Tensor) (h1 : m'.subgraphs[s]? = some sg')
    (h2 : sg'.tensors[i]? = some tn') (hp : m'.buffers[tn'.buffer]? = some (some (.inr p))) :
    Rewritten env m' tn'.buffer p s i tn' :=
  ⟨ConstE2E.inr_was_const rx env st qsvs m' tbl hnf hrun hin tn'.buffer p hp, hp, ⟨sg', h1, h2⟩, rfl⟩

/-- the facts about the tensor `tn'`, its original `tn` with data `d`, and the parameter object `P`
    behind the stored bytes -/
structure StoredAt (env : Env) (tbl : List Param) (p : PId) (tn' tn : Tensor) (d : Arr Rat) (P : Param) : Prop where
  name : tn'.name = tn.name
  shape : tn'.shape = tn.shape
  buffer : tn'.buffer = tn.buffer
  data : constData env tn = some d
  src : Src env tn d P
  entry : ∃ P0, tbl[p]? = some P0 ∧ P0.eqv P = true ∧ paramBytes P0 = paramBytes P
  typed : SharingE2E.TypedBy (ptableOf tbl) p tn'

/-- **end to end: the source of the stored bytes** -/
theorem stored_source (rx : String → String → Bool) (env : Env) (st : Recipe.State) (qsvs : Option Qsvs)
    (m' : Model) (tbl : List Param) (hnf : PipelineWF.NF env st)
    (hrun : quantizePure rx env st qsvs = .ok (m', tbl))
    (b p s i : Nat) (tn' : Tensor) (hr : Rewritten env m' b p s i tn') :
    ∃ (sg : Subgraph) (tn : Tensor) (d : Arr Rat) (P : Param),
      env.model.subgraphs[s]? = some sg ∧ sg.tensors[i]? = some tn ∧ StoredAt env tbl p tn' tn d P := by
  obtain ⟨k, hb⟩ := hr.orig
  obtain ⟨sg', h1, h2⟩ := hr.at'
  obtain ⟨sg, tn, d, P, P0, a1, a2, a3, a4, a5, a6, a7, a8, a9, a10, a11⟩ :=
    ConstE2E.stored_core rx env st qsvs m' tbl hnf hrun b k hb p hr.now s sg' i tn' h1 h2 hr.buf
  exact ⟨sg, tn, d, P, a1, a2, ⟨a4, a5, by rw [hr.buf, a3], a6, a7, ⟨P0, a8, a9, a10⟩, a11⟩⟩

/-- the reference parameters of the constant's true min/max (the right-hand side of
    `C04.weight_params_reference`) with the quantized values -/
def IsOwn (env : Env) (t : Tensor) (d : Arr Rat) (qp : QParams) (q : IArr) : Prop :=
  ∃ (oi : OpInfo) (tc : TCfg) (mn mx : FArr) (qdim : Option Nat),
    tcfgOf env oi t = some tc ∧ initMinMax env oi t d = .ok (mn, mx) ∧ refQDim env oi tc (some d) = .ok qdim ∧
    refParams tc.bits.toNat tc.symmetric qdim mn mx = .ok qp ∧ tc.gran ≠ Gran.blockwise ∧
    uniformQuantize ⟨d, .f32⟩ qp = .ok q

/-- the four sources, exhaustively -/
theorem src_kinds {env : Env} {t : Tensor} {d : Arr Rat} {P : Param} (h : Src env t d P) :
    (∃ qp q, P = .uniform qp (some q) ∧ IsOwn env t d qp q) ∨
    (∃ qp q, P = .uniform qp (some q) ∧ uniformQuantize ⟨d, .f32⟩ qp = .ok q) ∨
    (∃ qi qw qp q, P = .uniform qp (some q) ∧ quantizeBias ⟨d, .f32⟩ qi qw = .ok (qp, q)) ∨
    (∃ hh, P = .nonlinear 16 (some ⟨d.shape, hh⟩) ∧ d.data.mapM Prec.f16.chk = .ok hh) := by
  cases h with
  | own oi tc mn mx qdim qp q h1 h2 h3 h4 h5 h6 => exact .inl ⟨qp, q, rfl, oi, tc, mn, mx, qdim, h1, h2, h3, h4, h5, h6⟩
  | lent qp q hu => exact .inr (.inl ⟨qp, q, rfl, hu⟩)
  | bias qi qw qp q hb => exact .inr (.inr (.inl ⟨qi, qw, qp, q, rfl, hb⟩))
  | f16 hh hm => exact .inr (.inr (.inr ⟨hh, rfl, hm⟩))

namespace StoredAt
variable {env : Env} {tbl : List Param} {p : PId} {tn' tn : Tensor} {d : Arr Rat} {P : Param}

theorem bytes (h : StoredAt env tbl p tn' tn d P) : storedBytes tbl p = paramBytes P := by
  obtain ⟨P0, h0, _, hb⟩ := h.entry
  simp only [ConstBytes.storedBytes, h0, Option.bind_some]
  exact hb

theorem dtype (h : StoredAt env tbl p tn' tn d P) :
    Perform.dtypeOf (pinfoOf P) = .ok tn'.dtype ∧ ((pinfoOf P).uniform = true → tn'.quant = some p) := by
  obtain ⟨P0, h0, he, _⟩ := h.entry
  exact typed_dtype tbl p tn' P0 P h.typed h0 he

theorem dshape (h : StoredAt env tbl p tn' tn d P) : d.shape = shapeNat tn' := by
  rw [(constData_shape env tn d h.data).1]
  unfold shapeNat
  rw [h.shape]

end StoredAt

/-! ## 3. the property -/

/-- the integer tensor types are not FLOAT16 -/
theorem decodeStored_int (bits : Nat) (b : Bool) (dt n : Nat) (bs : List Nat)
    (h : Perform.dtypeOf ⟨true, bits, b⟩ = .ok dt) :
    decodeStored dt n bs = .inl (decodeInts dt n bs) := by
  unfold ConstBytes.decodeStored
  rcases dtypeOf_uniform bits b dt h with ⟨_, rfl, _⟩ | ⟨_, _, rfl, _⟩ | ⟨_, _, rfl, _⟩ | ⟨_, _, rfl, _⟩ | ⟨_, _, rfl, _⟩ <;>
    rw [if_neg (by decide)]

/-- **stored length.**  For every tensor over a rewritten constant buffer: the buffer's bytes exist, and
    their number is `⌈n·bits/8⌉` for the tensor's own type and the `n` values of the parameter object
    in the table; `n` is the number of elements of the tensor's shape when the parameter object fits the
    tensor. -/
theorem stored_length (rx : String → String → Bool) (env : Env) (st : Recipe.State) (qsvs : Option Qsvs)
    (m' : Model) (tbl : List Param) (hnf : PipelineWF.NF env st)
    (hrun : quantizePure rx env st qsvs = .ok (m', tbl))
    (b p s i : Nat) (tn' : Tensor) (hr : Rewritten env m' b p s i tn') :
    ∃ (P0 : Param) (bs : List Nat) (n : Nat), tbl[p]? = some P0 ∧ storedBytes tbl p = some bs ∧
      storedCount P0 = some n ∧ byteLen tn'.dtype n = some bs.length ∧
      (Fits P0 (shapeNat tn') → n = numel (shapeNat tn')) := by
  obtain ⟨sg, tn, d, P, _, _, H⟩ := stored_source rx env st qsvs m' tbl hnf hrun b p s i tn' hr
  obtain ⟨P0, h0, he, hb⟩ := H.entry
  obtain ⟨hdt, _⟩ := H.dtype
  have hsh := H.dshape
  rcases src_cases H.src with ⟨qp, q, rfl, hu⟩ | ⟨hh, rfl, hm⟩
  · obtain ⟨qp0, q0, rfl, e1, _, e3, _, _, e6⟩ := entry_uniform P0 qp q he
    obtain ⟨bs, hbs, hlen, _⟩ := quantized_bytes _ _ _ tn'.dtype hu hdt
    refine ⟨_, bs, numel q.arr.shape, h0, by rw [H.bytes]; exact hbs, by simp [ConstSrc.storedCount, e6], hlen, ?_⟩
    intro hfit
    simp only [ConstSrc.Fits] at hfit
    rw [e3, ← hsh] at hfit
    rw [quantized_shape _ _ _ hu hfit.1 hfit.2, hsh]
  · have := entry_f16 P0 16 _ he
    subst this
    obtain ⟨bs, hbs, hlen, _, _, hl, _⟩ := ConstValue.f16_bytes d.shape d.data hh hm
    have hty : tn'.dtype = Tables.ttFloat16 := by
      have h1 : Perform.dtypeOf (pinfoOf (.nonlinear 16 (some ⟨d.shape, hh⟩))) = .ok Tables.ttFloat16 := rfl
      rw [h1] at hdt; exact (Except.ok.inj hdt).symm
    refine ⟨_, bs, hh.length, h0, by rw [H.bytes]; exact hbs, rfl, by rw [hty, hl]; exact hlen, ?_⟩
    intro hfit
    simp only [ConstSrc.Fits] at hfit
    exact hfit

/-- **stored weights decode to within the C17 bound of the float originals** (constants quantized with
    their own reference parameters, `IsOwn`).  With `qp`, `q` the parameters and codes of the object
    behind the buffer (the table entry `tbl[p]` has the same bit width, scales, zero points, symmetry
    and codes): the tensor carries `p`, the stored bytes have the length implied by the TENSOR's shape
    and type, decode to exactly `q`, and -- for 2..16 bits -- for every element `i`, with `s`, `z` the
    scale and zero point of its channel: `s > 0`, `z` in the integer range (0 when symmetric), and if
    `s ∈ [2^-100, 2^100]` and the element lies in the representable range `[(qlo - z)s, (qmax - z)s]` the
    dequantized stored code is within `s·(1/2 + 2^(bits+3)·2^-24)` of the ORIGINAL float element. -/
theorem stored_decodes_within_step (rx : String → String → Bool) (env : Env) (st : Recipe.State)
    (qsvs : Option Qsvs) (m' : Model) (tbl : List Param) (hnf : PipelineWF.NF env st)
    (hrun : quantizePure rx env st qsvs = .ok (m', tbl))
    (b p s i : Nat) (tn' : Tensor) (hr : Rewritten env m' b p s i tn') :
    ∃ (tn : Tensor) (d : Arr Rat) (P : Param) (bs : List Nat),
      StoredAt env tbl p tn' tn d P ∧ storedBytes tbl p = some bs ∧
      ∀ qp q, P = .uniform qp (some q) → IsOwn env tn d qp q →
        (∃ qp0 q0, tbl[p]? = some (.uniform qp0 (some q0)) ∧ qp0.bits = qp.bits ∧ qp0.qdim = qp.qdim ∧
          qp0.scale.arr = qp.scale.arr ∧ qp0.zp.arr = qp.zp.arr ∧ qp0.symmetric = qp.symmetric ∧ q0.arr = q.arr) ∧
        tn'.quant = some p ∧ Fits P (shapeNat tn') ∧
        byteLen tn'.dtype (numel (shapeNat tn')) = some bs.length ∧
        decodeStored tn'.dtype (numel (shapeNat tn')) bs = .inl q.arr.data ∧
        q.arr.shape = shapeNat tn' ∧
        (2 ≤ qp.bits → qp.bits ≤ 16 →
          ∀ j < numel (shapeNat tn'), ∀ (sc : Rat) (z : Int),
            sc = qp.scale.arr.data.getD (bindex (shapeNat tn') qp.scale.arr.shape j) 0 →
            z = qp.zp.arr.data.getD (bindex (shapeNat tn') qp.scale.arr.shape j) 0 →
            0 < sc ∧ qmin qp.bits ≤ z ∧ z ≤ qmax qp.bits ∧ (qp.symmetric = true → z = 0) ∧
            ((2:Rat)^(-100:Int) ≤ sc → sc ≤ (2:Rat)^(100:Int) →
              ((qmin qp.bits + (if qp.symmetric then 1 else 0) - z : Int) : Rat) * sc ≤ d.data.getD j 0 →
              d.data.getD j 0 ≤ ((qmax qp.bits - z : Int) : Rat) * sc →
              |dqVal true (storageBits qp.bits) (storageBits qp.bits) .f32
                  ((decodeInts tn'.dtype (numel (shapeNat tn')) bs).getD j 0) z sc - d.data.getD j 0|
                ≤ sc * (1/2 + (2:Rat)^(qp.bits + 3) * ArithRounded.u32))) := by
  obtain ⟨sg, tn, d, P, _, _, H⟩ := stored_source rx env st qsvs m' tbl hnf hrun b p s i tn' hr
  obtain ⟨P0, h0, he, hb⟩ := H.entry
  have hbytes : ∃ bs, storedBytes tbl p = some bs := by
    rw [H.bytes]
    rcases src_cases H.src with ⟨qp, q, rfl, _⟩ | ⟨hh, rfl, _⟩
    · exact ⟨_, rfl⟩
    · exact ⟨_, rfl⟩
  obtain ⟨bs, hbs⟩ := hbytes
  refine ⟨tn, d, P, bs, H, hbs, ?_⟩
  rintro qp q rfl ⟨oi, tc, mn, mx, qdim, _, hi, _, hp, _, hu⟩
  obtain ⟨hdt, hq⟩ := H.dtype
  have hsh := H.dshape
  obtain ⟨bs', hbs', o2, o3, o4, _, o6⟩ := own_stored env oi tn tc d mn mx qdim qp q tn'.dtype H.data hi hp hu hdt
  have hbb : bs' = bs := by
    rw [H.bytes] at hbs
    rw [hbs] at hbs'
    cases hbs'; rfl
  subst hbb
  obtain ⟨_, _, _, _, _, _, _, f8, f9, _, _⟩ := own_facts env oi tn tc d mn mx qdim qp H.data hi hp
  rw [hsh] at o2 o3 o4 o6 f8 f9
  obtain ⟨qp0, q0, rfl, e⟩ := entry_uniform P0 qp q he
  refine ⟨⟨qp0, q0, h0, e⟩, hq rfl, ⟨f8, f9⟩, o2, ?_, o4, o6⟩
  rw [decodeStored_int qp.bits true _ _ _ hdt, o3]

/-- the scalar law behind `stored_decodes_all`: `dequantize ∘ quantize` of ANY value between a channel's min
    and max, with the float32 parameters computed from that min/max (2..16 bits, either symmetry), is
    within `s·(1/2 + 2^(bits+4)·2^-24)` of the value -- clipped values included -/
theorem decode_minmax (bits : Nat) (hb2 : 2 ≤ bits) (hb16 : bits ≤ 16) (sym : Bool)
    (zw : Nat) (hzw : zw = 8 ∨ zw = 16) (mn mx : Rat) (hmm : mn ≤ mx)
    (zp : Int) (s : Rat) (h : zpScale1 .f32 bits sym mn mx = .ok (zp, s))
    (hmn : |mn| ≤ (2:Rat)^(99:Int)) (hmx : |mx| ≤ (2:Rat)^(99:Int)) (x : Rat) (hx1 : mn ≤ x) (hx2 : x ≤ mx) :
    |dqVal true (storageBits bits) zw .f32 (roundClip bits sym (qSum .f32 .f32 zw x s zp)) zp s - x|
      ≤ s * (1/2 + (2:Rat)^(bits + 4) * ArithRounded.u32) :=
  ConstCover.decode_minmax bits hb2 hb16 sym zw hzw mn mx hmm zp s h hmn hmx x hx1 hx2

/-- **every element of a stored weight decodes to within half a step (plus rounding slack) of the float
    original** -- `own` constants, 2..16 bits, symmetric or asymmetric, well-formed data of magnitude at most
    `2^99`; no hypothesis on the representable range is left (clipped extreme elements included) -/
theorem stored_decodes_all (rx : String → String → Bool) (env : Env) (st : Recipe.State)
    (qsvs : Option Qsvs) (m' : Model) (tbl : List Param) (hnf : PipelineWF.NF env st)
    (hrun : quantizePure rx env st qsvs = .ok (m', tbl))
    (b p s i : Nat) (tn' : Tensor) (hr : Rewritten env m' b p s i tn') :
    ∃ (tn : Tensor) (d : Arr Rat) (P : Param) (bs : List Nat),
      StoredAt env tbl p tn' tn d P ∧ storedBytes tbl p = some bs ∧
      ∀ qp q, P = .uniform qp (some q) → IsOwn env tn d qp q → 2 ≤ qp.bits → qp.bits ≤ 16 →
        d.data.length = numel (shapeNat tn') →
        (∀ j < numel (shapeNat tn'), |d.data.getD j 0| ≤ (2:Rat)^(99:Int)) →
        ∀ j < numel (shapeNat tn'),
          |dqVal true (storageBits qp.bits) (storageBits qp.bits) .f32
              ((decodeInts tn'.dtype (numel (shapeNat tn')) bs).getD j 0)
              (qp.zp.arr.data.getD (bindex (shapeNat tn') qp.scale.arr.shape j) 0)
              (qp.scale.arr.data.getD (bindex (shapeNat tn') qp.scale.arr.shape j) 0) - d.data.getD j 0|
            ≤ qp.scale.arr.data.getD (bindex (shapeNat tn') qp.scale.arr.shape j) 0
                * (1/2 + (2:Rat)^(qp.bits + 4) * ArithRounded.u32) := by
  obtain ⟨tn, d, P, bs, H, hbs, hstep⟩ := stored_decodes_within_step rx env st qsvs m' tbl hnf hrun b p s i tn' hr
  refine ⟨tn, d, P, bs, H, hbs, ?_⟩
  rintro qp q rfl hown hb2 hb16 hwf hmag
  obtain ⟨_, _, _, _, hdec, _, _⟩ := hstep qp q rfl hown
  obtain ⟨oi, tc, mn, mx, qdim, _, hi, _, hp, _, hu⟩ := hown
  have hsh := H.dshape
  have hall := ConstOwnAll.own_decode_all env oi tn tc d mn mx qdim qp q H.data hi hp hu hb2 hb16
    (by rw [hsh]; exact hwf) (by rw [hsh]; exact hmag)
  rw [hsh] at hall
  obtain ⟨hdt, _⟩ := H.dtype
  rw [decodeStored_int qp.bits true _ _ _ hdt] at hdec
  have hdec' : decodeInts tn'.dtype (numel (shapeNat tn')) bs = q.arr.data := Sum.inl.inj hdec
  rw [hdec']
  exact hall

/-- **stored biases**: `bias` sources.  INT32 (INT64 when the input activation has 16 bits) tensor
    carrying `p`; the bytes have the length of the code array and decode to exactly the codes; every code
    is the saturating `round(v)` of the floating-point evaluation `v` of `bias/scale` (`qSum`): in the
    symmetric range, equal to `round(v)` inside the saturation bounds, the bound of the same sign
    outside; the code array has the tensor's shape when the parameters fit the tensor -/
theorem stored_bias (rx : String → String → Bool) (env : Env) (st : Recipe.State)
    (qsvs : Option Qsvs) (m' : Model) (tbl : List Param) (hnf : PipelineWF.NF env st)
    (hrun : quantizePure rx env st qsvs = .ok (m', tbl))
    (b p s i : Nat) (tn' : Tensor) (hr : Rewritten env m' b p s i tn') :
    ∃ (tn : Tensor) (d : Arr Rat) (P : Param) (bs : List Nat),
      StoredAt env tbl p tn' tn d P ∧ storedBytes tbl p = some bs ∧
      ∀ qi qw qp q, P = .uniform qp (some q) → quantizeBias ⟨d, .f32⟩ qi qw = .ok (qp, q) →
        ((qp.bits = 32 ∧ tn'.dtype = Tables.ttInt32) ∨ (qp.bits = 64 ∧ tn'.dtype = Tables.ttInt64)) ∧
        (qi.bits = 16 ↔ qp.bits = 64) ∧ qp.symmetric = true ∧ (∀ z ∈ qp.zp.arr.data, z = 0) ∧
        tn'.quant = some p ∧
        byteLen tn'.dtype (numel q.arr.shape) = some bs.length ∧
        decodeStored tn'.dtype (numel q.arr.shape) bs = .inl q.arr.data ∧
        (Fits P (shapeNat tn') → q.arr.shape = shapeNat tn') ∧
        ∀ (j : Nat) (c : Int), q.arr.data[j]? = some c →
          ∃ (x sc v : Rat), sc ≠ 0 ∧ x ∈ (0 :: d.data) ∧ sc ∈ (0 :: qp.scale.arr.data) ∧
            v = qSum .f32 qp.scale.pr 32 x sc 0 ∧ c = roundClip qp.bits true v ∧
            (qmin qp.bits + 1 ≤ c ∧ c ≤ qmax qp.bits) ∧
            (qp.bits = 32 →
              (-(2:Int)^31 + 1 ≤ rhe v → rhe v ≤ (2:Int)^31 - 1 → c = rhe v) ∧
              ((2:Int)^31 - 1 ≤ rhe v → c = (2:Int)^31 - 1) ∧ (rhe v ≤ -(2:Int)^31 + 1 → c = -(2:Int)^31 + 1)) ∧
            (qp.bits = 64 →
              (-(2:Int)^63 + 1024 ≤ rhe v → rhe v ≤ (2:Int)^63 - 1024 → c = rhe v) ∧
              ((2:Int)^63 - 1024 ≤ rhe v → c = (2:Int)^63 - 1024) ∧
              (rhe v ≤ -(2:Int)^63 + 1024 → c = -(2:Int)^63 + 1024)) := by
  obtain ⟨sg, tn, d, P, _, _, H⟩ := stored_source rx env st qsvs m' tbl hnf hrun b p s i tn' hr
  have hbytes : ∃ bs, storedBytes tbl p = some bs := by
    rw [H.bytes]
    rcases src_cases H.src with ⟨qp, q, rfl, _⟩ | ⟨hh, rfl, _⟩
    · exact ⟨_, rfl⟩
    · exact ⟨_, rfl⟩
  obtain ⟨bs, hbs⟩ := hbytes
  refine ⟨tn, d, P, bs, H, hbs, ?_⟩
  rintro qi qw qp q rfl hbias
  obtain ⟨hdt, hq⟩ := H.dtype
  have hsh := H.dshape
  obtain ⟨hu, hsym, hbits, _, hz0, _⟩ := ConstValue.bias_spec _ _ _ _ _ hbias
  obtain ⟨_, _, hb3264, hcodes⟩ := ConstValue.bias_codes d qi qw qp q hbias
  obtain ⟨bs', hbs', hlen, hdec⟩ := quantized_bytes _ _ _ tn'.dtype hu hdt
  have hbb : bs' = bs := by
    rw [H.bytes] at hbs
    rw [hbs] at hbs'
    cases hbs'; rfl
  subst hbb
  have hty : (qp.bits = 32 ∧ tn'.dtype = Tables.ttInt32) ∨ (qp.bits = 64 ∧ tn'.dtype = Tables.ttInt64) := by
    have hdt' : Perform.dtypeOf ⟨true, qp.bits, true⟩ = .ok tn'.dtype := hdt
    rcases hb3264 with hb | hb
    · left
      have h1 : Perform.dtypeOf ⟨true, 32, true⟩ = .ok Tables.ttInt32 := rfl
      rw [hb, h1] at hdt'
      exact ⟨hb, (Except.ok.inj hdt').symm⟩
    · right
      have h1 : Perform.dtypeOf ⟨true, 64, true⟩ = .ok Tables.ttInt64 := rfl
      rw [hb, h1] at hdt'
      exact ⟨hb, (Except.ok.inj hdt').symm⟩
  refine ⟨hty, ?_, hsym, hz0, hq rfl, hlen, ?_, ?_, hcodes⟩
  · rw [hbits]; split_ifs with h16 <;> simp [h16]
  · rw [decodeStored_int qp.bits true _ _ _ hdt, hdec]
  · intro hfit
    simp only [ConstSrc.Fits] at hfit
    rw [← hsh] at hfit ⊢
    exact quantized_shape _ _ _ hu hfit.1 hfit.2

/-- **stored float16 constants**: `f16` sources.  The table entry IS the float16 array, the tensor is
    FLOAT16, the bytes (two per value) are the flattened output of the driver's `castF16` on the
    ORIGINAL values, and decoding them gives the round-to-nearest-even float16 of every original -/
theorem stored_f16 (rx : String → String → Bool) (env : Env) (st : Recipe.State)
    (qsvs : Option Qsvs) (m' : Model) (tbl : List Param) (hnf : PipelineWF.NF env st)
    (hrun : quantizePure rx env st qsvs = .ok (m', tbl))
    (b p s i : Nat) (tn' : Tensor) (hr : Rewritten env m' b p s i tn') :
    ∃ (tn : Tensor) (d : Arr Rat) (P : Param) (bs : List Nat),
      StoredAt env tbl p tn' tn d P ∧ storedBytes tbl p = some bs ∧
      ∀ hh, P = .nonlinear 16 (some ⟨d.shape, hh⟩) → d.data.mapM Prec.f16.chk = .ok hh →
        tbl[p]? = some P ∧ tn'.dtype = Tables.ttFloat16 ∧
        byteLen tn'.dtype d.data.length = some bs.length ∧
        (∃ bss, d.data.mapM castF16 = .ok bss ∧ bs = bss.flatten) ∧
        decodeStored tn'.dtype d.data.length bs = .inr hh ∧ hh.length = d.data.length ∧
        (∀ (j : Nat) (hj : j < d.data.length), hh[j]? = some (Prec.f16.rn d.data[j])) ∧
        (d.data.length = numel d.shape → d.data.length = numel (shapeNat tn')) := by
  obtain ⟨sg, tn, d, P, _, _, H⟩ := stored_source rx env st qsvs m' tbl hnf hrun b p s i tn' hr
  have hbytes : ∃ bs, storedBytes tbl p = some bs := by
    rw [H.bytes]
    rcases src_cases H.src with ⟨qp, q, rfl, _⟩ | ⟨hh, rfl, _⟩
    · exact ⟨_, rfl⟩
    · exact ⟨_, rfl⟩
  obtain ⟨bs, hbs⟩ := hbytes
  refine ⟨tn, d, P, bs, H, hbs, ?_⟩
  rintro hh rfl hm
  obtain ⟨P0, h0, he, _⟩ := H.entry
  have := entry_f16 P0 16 _ he
  subst this
  obtain ⟨hdt, _⟩ := H.dtype
  have hty : tn'.dtype = Tables.ttFloat16 := by
    have h1 : Perform.dtypeOf (pinfoOf (.nonlinear 16 (some ⟨d.shape, hh⟩))) = .ok Tables.ttFloat16 := rfl
    rw [h1] at hdt; exact (Except.ok.inj hdt).symm
  obtain ⟨bs', hbs', hlen, hcast, hdec, hl, hel⟩ := ConstValue.f16_bytes d.shape d.data hh hm
  have hbb : bs' = bs := by
    rw [H.bytes] at hbs
    rw [hbs] at hbs'
    cases hbs'; rfl
  subst hbb
  refine ⟨h0, hty, by rw [hty]; exact hlen, hcast, ?_, hl, ?_, ?_⟩
  · rw [hty]
    unfold ConstBytes.decodeStored
    rw [if_pos rfl, hdec]
  · intro j hj
    have := hel j hj
    rw [hdec] at this
    exact this
  · intro hwf
    rw [hwf, H.dshape]

/-! ## 4. NON-VACUITY: closed runs of the whole pipeline (kernel evaluation, `decide +kernel`)

Decidable equality on the array / parameter records is derived here (the model derives only `BEq`);
it is used only to let the kernel compare the evaluated runs with their expected values. -/

deriving instance DecidableEq for Nd.Arr
deriving instance DecidableEq for Arith.FArr
deriving instance DecidableEq for Arith.IArr
deriving instance DecidableEq for Arith.QParams
deriving instance DecidableEq for Mat.Param

namespace Inst

def T (n : String) (sh : List Int) (b : Nat) : Tensor := { name := n, dtype := 0, shape := sh, buffer := b }
def rxAll : String → String → Bool := fun _ _ => true
/-- weight-only, symmetric, per-channel, `bits` bits -/
def cfgW (bits : Int) : OpCfg :=
  { act := none, weight := some { bits := bits, symmetric := true, gran := .channelwise }, cp := .integer,
    skipChecks := true }
def stW (bits : Int) : Recipe.State := [(".*", [⟨".*", "*", Tables.algMinMax, cfgW bits⟩])]
def fcOp : Op := { code := 0, inputs := [0,1,-1], outputs := [2], orig := some 0 }

/-! ### INT8: `y := FC(x, w)`, `w` a 2×2 weight -/

def m8 : Model :=
  { subgraphs := [{ tensors := [T "x" [1,2] 0, T "w" [2,2] 1, T "y" [1,2] 0], ops := [fcOp],
                    inputs := [0], outputs := [2] }],
    buffers := [none, some (.inl 0)], opcodes := [9], sigs := [] }
def env8 : Env := { model := m8, consts := [(1, [127, 64, -254, 3])], adjY := [] }
def d8 : Arr Rat := ⟨[2,2], [127, 64, -254, 3]⟩
def qp8 : QParams :=
  { bits := 8, qdim := some 0, scale := ⟨⟨[2,1], [1, 2]⟩, .f32⟩, zp := ⟨⟨[2,1], [0, 0]⟩, 8⟩, symmetric := true }
def q8 : IArr := ⟨⟨[2,2], [127, 64, -127, 2]⟩, 8⟩
def w8' : Tensor := { T "w" [2,2] 1 with dtype := Tables.ttInt8, quant := some 0 }
def m8' : Model :=
  { m8 with subgraphs := [{ tensors := [T "x" [1,2] 0, w8', T "y" [1,2] 0], ops := [fcOp],
                            inputs := [0], outputs := [2] }],
            buffers := [none, some (.inr 0)] }

theorem nf8 : PipelineWF.NF env8 (stW 8) :=
  SharingData.nf_of_fcOnly env8 (stW 8) (by decide) (by decide) (by decide) (by decide) (by decide)

/-- the whole run, evaluated by the kernel -/
theorem run8 : quantizePure rxAll env8 (stW 8) none = .ok (m8', [.uniform qp8 (some q8)]) := by
  decide +kernel

theorem rew8 : Rewritten env8 m8' 1 0 0 1 w8' := ⟨⟨0, rfl⟩, rfl, ⟨_, rfl, rfl⟩, rfl⟩

/-- the same from `rewritten_of_inr`: the input model has no `.inr` buffer -/
example : Rewritten env8 m8' w8'.buffer 0 0 1 w8' := by
  refine rewritten_of_inr rxAll env8 (stW 8) none m8' _ nf8 run8 ?_ 0 0 1 _ w8' rfl rfl rfl
  intro b q h
  have e : env8.model.buffers = [none, some (.inl 0)] := rfl
  rw [e] at h
  rcases b with _ | _ | b <;> simp at h

/-- all hypotheses of the end-to-end theorems hold on the instance … -/
example : ∃ (P0 : Param) (bs : List Nat) (n : Nat), [Param.uniform qp8 (some q8)][0]? = some P0 ∧
    storedBytes [.uniform qp8 (some q8)] 0 = some bs ∧ storedCount P0 = some n ∧
    byteLen w8'.dtype n = some bs.length ∧ (Fits P0 (shapeNat w8') → n = numel (shapeNat w8')) :=
  stored_length rxAll env8 (stW 8) none m8' _ nf8 run8 1 0 0 1 w8' rew8

example : ∃ (tn : Tensor) (d : Arr Rat) (P : Param) (bs : List Nat),
    StoredAt env8 [.uniform qp8 (some q8)] 0 w8' tn d P ∧ storedBytes [.uniform qp8 (some q8)] 0 = some bs :=
  let ⟨tn, d, P, bs, h1, h2, _⟩ := stored_decodes_within_step rxAll env8 (stW 8) none m8' _ nf8 run8 1 0 0 1 w8' rew8
  ⟨tn, d, P, bs, h1, h2⟩

/-- … and what they say here: 4 bytes for the 2×2 INT8 tensor, decoding to the codes -/
example : storedBytes [.uniform qp8 (some q8)] 0 = some [127, 64, 129, 2] ∧
    byteLen Tables.ttInt8 (numel [2,2]) = some 4 ∧
    decodeStored Tables.ttInt8 (numel [2,2]) [127, 64, 129, 2] = .inl [127, 64, -127, 2] := by decide +kernel

def oi8 : OpInfo := { sgIdx := 0, op := fcOp, opName := "FULLY_CONNECTED", opId := 0, cfg := cfgW 8 }
def tc8 : TCfg := { bits := 8, symmetric := true, gran := .channelwise }
def mn8 : FArr := ⟨⟨[2,1], [64, -254]⟩, .f32⟩
def mx8 : FArr := ⟨⟨[2,1], [127, 3]⟩, .f32⟩

/-- the stored parameter object IS the reference computation on the weight (`IsOwn`) -/
theorem own8 : IsOwn env8 (T "w" [2,2] 1) d8 qp8 q8 :=
  ⟨oi8, tc8, mn8, mx8, some 0, by decide +kernel, by decide +kernel, by decide +kernel, by decide +kernel,
    by decide, by decide +kernel⟩

/-- the per-object theorem applies, and its side conditions (scale in `[2^-100, 2^100]`, element in the
    representable range of its channel) hold for ALL four elements: every stored code dequantizes to
    within `s·(1/2 + 2^11·2^-24)` of the original weight (e.g. `3 ↦ code 2 ↦ 4` at scale 2) -/
example : ∀ j < 4,
    |dqVal true 8 8 .f32 ((decodeInts Tables.ttInt8 4 [127, 64, 129, 2]).getD j 0)
        (qp8.zp.arr.data.getD (bindex [2,2] [2,1] j) 0) (qp8.scale.arr.data.getD (bindex [2,2] [2,1] j) 0)
      - d8.data.getD j 0|
      ≤ qp8.scale.arr.data.getD (bindex [2,2] [2,1] j) 0 * (1/2 + (2:Rat)^(8 + 3) * ArithRounded.u32) := by
  obtain ⟨oi, tc, mn, mx, qdim, _, hi, _, hp, _, hu⟩ := own8
  obtain ⟨bs, hbs, _, _, _, _, hbound⟩ :=
    own_stored env8 oi (T "w" [2,2] 1) tc d8 mn mx qdim qp8 q8 Tables.ttInt8 (by decide +kernel) hi hp hu (by decide)
  have hb : bs = [127, 64, 129, 2] := by
    have : paramBytes (.uniform qp8 (some q8)) = some [127, 64, 129, 2] := by decide +kernel
    rw [this] at hbs; cases hbs; rfl
  subst hb
  intro j hj
  have hside : (2:Rat)^(-100:Int) ≤ qp8.scale.arr.data.getD (bindex [2,2] [2,1] j) 0 ∧
      qp8.scale.arr.data.getD (bindex [2,2] [2,1] j) 0 ≤ (2:Rat)^(100:Int) ∧
      ((qmin 8 + 1 - qp8.zp.arr.data.getD (bindex [2,2] [2,1] j) 0 : Int) : Rat) *
        qp8.scale.arr.data.getD (bindex [2,2] [2,1] j) 0 ≤ d8.data.getD j 0 ∧
      d8.data.getD j 0 ≤ ((qmax 8 - qp8.zp.arr.data.getD (bindex [2,2] [2,1] j) 0 : Int) : Rat) *
        qp8.scale.arr.data.getD (bindex [2,2] [2,1] j) 0 := by
    have : j = 0 ∨ j = 1 ∨ j = 2 ∨ j = 3 := by omega
    rcases this with rfl | rfl | rfl | rfl <;> decide +kernel
  exact (hbound (by decide) (by decide) j hj _ _ rfl rfl).2.2.2.2 hside.1 hside.2.1 hside.2.2.1 hside.2.2.2

/-- … and without side conditions on the elements (`ConstOwnAll.own_decode_all`): well-formed data of
    magnitude at most `2^99` -/
example : ∀ j < numel d8.shape,
    |dqVal true (storageBits qp8.bits) (storageBits qp8.bits) .f32 (q8.arr.data.getD j 0)
        (qp8.zp.arr.data.getD (bindex d8.shape qp8.scale.arr.shape j) 0)
        (qp8.scale.arr.data.getD (bindex d8.shape qp8.scale.arr.shape j) 0) - d8.data.getD j 0|
      ≤ qp8.scale.arr.data.getD (bindex d8.shape qp8.scale.arr.shape j) 0
          * (1/2 + (2:Rat)^(qp8.bits + 4) * ArithRounded.u32) := by
  obtain ⟨oi, tc, mn, mx, qdim, _, hi, _, hp, _, hu⟩ := own8
  refine ConstOwnAll.own_decode_all env8 oi (T "w" [2,2] 1) tc d8 mn mx qdim qp8 q8 (by decide +kernel) hi hp hu
    (by decide) (by decide) (by decide) ?_
  intro j hj
  have hj4 : j < 4 := hj
  have : j = 0 ∨ j = 1 ∨ j = 2 ∨ j = 3 := by omega
  rcases this with rfl | rfl | rfl | rfl <;> decide +kernel

/-- `decode_minmax` on an ASYMMETRIC channel whose minimum is clipped: `[min, max] = [-0.4, 254.6]` at 8
    bits gives scale 1 and zero point -128, the representable range starts at 0, the element `-0.4` is
    NOT in it (C17.dq_q_rounded does not apply), it is stored as code -128 and dequantizes to 0: `0.4`
    away, within the bound -/
example : zpScale1 .f32 8 false (-2/5) (1273/5) = .ok (-128, 1) ∧
    ¬ (((qmin 8 + 0 - (-128) : Int) : Rat) * 1 ≤ (-2/5 : Rat)) ∧
    roundClip 8 false (qSum .f32 .f32 8 (-2/5) 1 (-128)) = -128 ∧
    |dqVal true (storageBits 8) 8 .f32 (roundClip 8 false (qSum .f32 .f32 8 (-2/5) 1 (-128))) (-128) 1 - (-2/5)|
      ≤ 1 * (1/2 + (2:Rat)^(8 + 4) * ArithRounded.u32) := by
  have h : zpScale1 .f32 8 false (-2/5) (1273/5) = .ok (-128, 1) := by decide +kernel
  refine ⟨h, by decide +kernel, by decide +kernel, ?_⟩
  exact decode_minmax 8 (by decide) (by decide) false 8 (.inl rfl) (-2/5) (1273/5) (by norm_num) (-128) 1 h
    (by norm_num) (by norm_num) (-2/5) (le_refl _) (by norm_num)

/-! ### INT4, odd element count: `y := FC(x, w)`, `w` a 1×3 weight, 4 bits -/

def m4 : Model :=
  { subgraphs := [{ tensors := [T "x" [1,3] 0, T "w" [1,3] 1, T "y" [1,1] 0], ops := [fcOp],
                    inputs := [0], outputs := [2] }],
    buffers := [none, some (.inl 0)], opcodes := [9], sigs := [] }
def env4 : Env := { model := m4, consts := [(1, [7, -3, 14])], adjY := [] }
def qp4 : QParams :=
  { bits := 4, qdim := some 0, scale := ⟨⟨[1,1], [2]⟩, .f32⟩, zp := ⟨⟨[1,1], [0]⟩, 8⟩, symmetric := true }
def q4 : IArr := ⟨⟨[1,3], [4, -2, 7]⟩, 8⟩
def w4' : Tensor := { T "w" [1,3] 1 with dtype := Tables.ttInt4, quant := some 0 }
def m4' : Model :=
  { m4 with subgraphs := [{ tensors := [T "x" [1,3] 0, w4', T "y" [1,1] 0], ops := [fcOp],
                            inputs := [0], outputs := [2] }],
            buffers := [none, some (.inr 0)] }

theorem nf4 : PipelineWF.NF env4 (stW 4) :=
  SharingData.nf_of_fcOnly env4 (stW 4) (by decide) (by decide) (by decide) (by decide) (by decide)

theorem run4 : quantizePure rxAll env4 (stW 4) none = .ok (m4', [.uniform qp4 (some q4)]) := by
  decide +kernel

theorem rew4 : Rewritten env4 m4' 1 0 0 1 w4' := ⟨⟨0, rfl⟩, rfl, ⟨_, rfl, rfl⟩, rfl⟩

example : ∃ (P0 : Param) (bs : List Nat) (n : Nat), [Param.uniform qp4 (some q4)][0]? = some P0 ∧
    storedBytes [.uniform qp4 (some q4)] 0 = some bs ∧ storedCount P0 = some n ∧
    byteLen w4'.dtype n = some bs.length ∧ (Fits P0 (shapeNat w4') → n = numel (shapeNat w4')) :=
  stored_length rxAll env4 (stW 4) none m4' _ nf4 run4 1 0 0 1 w4' rew4

/-- three 4-bit codes `4, -2, 7` in TWO bytes: `4 | (-2 & 15) << 4 = 228`, then `7` with a zero pad
    nibble; decoding (low nibble first, sign-extended) gives the codes back -/
example : storedBytes [.uniform qp4 (some q4)] 0 = some [228, 7] ∧
    byteLen Tables.ttInt4 (numel [1,3]) = some 2 ∧
    decodeStored Tables.ttInt4 (numel [1,3]) [228, 7] = .inl [4, -2, 7] := by decide +kernel

/-! ### bias and float16: `y := FC(x, w, b)` (`PipelineWFExample.envA`: `w = [[1,2],[3,4]]`, `b = [1,1]`) -/

open PipelineWFExample in
theorem nfA' (c : OpCfg) (alg : String) (op : String)
    (hc : ∀ w, c.weight = some w → w.gran ≠ Gran.blockwise) : PipelineWF.NF envA (stOf alg c op) := by
  refine ⟨nfA.wf, nfA.tagged, ?_, nfA.inputsNotConst, nfA.slotRoles, nfA.constWeight, nfA.mandatory⟩
  intro e he r hr w hw
  have : e = (".*", [⟨".*", op, alg, c⟩]) := by simpa [stOf] using he
  subst this
  have : r = ⟨".*", op, alg, c⟩ := by simpa using hr
  subst this
  exact hc w hw

open PipelineWFExample in
/-- calibration statistics of the runtime tensors -/
def qsA : Qsvs := [("x", some (f32 [1,1] [-1], f32 [1,1] [1])), ("y", some (f32 [1,1] [-4], f32 [1,1] [4]))]

def qpB : QParams :=
  { bits := 32, qdim := none, scale := ⟨⟨[1], [(1060977 : Rat)/4294967296]⟩, .f32⟩, zp := ⟨⟨[1], [0]⟩, 32⟩,
    symmetric := true }
def qB : IArr := ⟨⟨[2], [4048, 4048]⟩, 32⟩
def b' : Tensor := { PipelineWFExample.T "b" 0 [2] 2 with dtype := Tables.ttInt32, quant := some 2 }

open PipelineWFExample in
/-- static-range INT8: the run succeeds, `b` becomes INT32 with parameter 2, whose object is `qpB`, `qB` -/
theorem runB : ∃ m' tbl, quantizePure rxAll envA (stOf Tables.algMinMax cfgSRQ) (some qsA) = .ok (m', tbl) ∧
    Rewritten envA m' 2 2 0 2 b' ∧ tbl[2]? = some (.uniform qpB (some qB)) := by
  have h : (match quantizePure rxAll envA (stOf Tables.algMinMax cfgSRQ) (some qsA) with
      | .ok r => decide (r.1.buffers[2]? = some (some (.inr 2)) ∧
          (r.1.subgraphs[0]?.bind fun sg => sg.tensors[2]?) = some b' ∧ r.2[2]? = some (.uniform qpB (some qB)))
      | .error _ => false) = true := by decide +kernel
  cases hq : quantizePure rxAll envA (stOf Tables.algMinMax cfgSRQ) (some qsA) with
  | error e => rw [hq] at h; cases h
  | ok r =>
    rw [hq] at h
    simp only [decide_eq_true_eq] at h
    obtain ⟨h1, h2, h3⟩ := h
    refine ⟨r.1, r.2, rfl, ⟨⟨1, rfl⟩, h1, ?_, rfl⟩, h3⟩
    cases hs : r.1.subgraphs[0]? with
    | none => rw [hs] at h2; cases h2
    | some sg => rw [hs] at h2; exact ⟨sg, rfl, h2⟩

open PipelineWFExample in
example : ∃ (tbl : List Param) (tn : Tensor) (d : Arr Rat) (P : Param) (bs : List Nat),
    StoredAt envA tbl 2 b' tn d P ∧ storedBytes tbl 2 = some bs := by
  obtain ⟨m', tbl, hrun, hrew, _⟩ := runB
  obtain ⟨tn, d, P, bs, h1, h2, _⟩ := stored_bias rxAll envA _ (some qsA) m' tbl
    (nfA' cfgSRQ _ _ (by intro w hw; simp [cfgSRQ] at hw; subst hw; decide)) hrun 2 2 0 2 b' hrew
  exact ⟨tbl, tn, d, P, bs, h1, h2⟩

/-- the bias `[1, 1]` at scale `s_x·s_w ≈ 2.47e-4`: two INT32 codes `4048 = round(1/s)`, 8 bytes little endian -/
example : paramBytes (.uniform qpB (some qB)) = some [208, 15, 0, 0, 208, 15, 0, 0] ∧
    byteLen Tables.ttInt32 2 = some 8 ∧
    decodeStored Tables.ttInt32 2 [208, 15, 0, 0, 208, 15, 0, 0] = .inl [4048, 4048] ∧
    rhe (qSum .f32 .f32 32 1 ((1060977 : Rat)/4294967296) 0) = 4048 := by decide +kernel

def wH : Arr Rat := ⟨[2,2], [1, 2, 3, 4]⟩
def wF' : Tensor := { PipelineWFExample.T "w" 0 [2,2] 1 with dtype := Tables.ttFloat16 }

open PipelineWFExample in
/-- float casting: the run succeeds, `w` becomes FLOAT16 over the float16 array `[1,2,3,4]` -/
theorem runF : ∃ m' tbl, quantizePure rxAll envA (stOf Tables.algFloatCasting cfgFC "FULLY_CONNECTED") none = .ok (m', tbl) ∧
    Rewritten envA m' 1 0 0 1 wF' ∧ tbl[0]? = some (.nonlinear 16 (some wH)) := by
  have h : (match quantizePure rxAll envA (stOf Tables.algFloatCasting cfgFC "FULLY_CONNECTED") none with
      | .ok r => decide (r.1.buffers[1]? = some (some (.inr 0)) ∧
          (r.1.subgraphs[0]?.bind fun sg => sg.tensors[1]?) = some wF' ∧ r.2[0]? = some (.nonlinear 16 (some wH)))
      | .error _ => false) = true := by decide +kernel
  cases hq : quantizePure rxAll envA (stOf Tables.algFloatCasting cfgFC "FULLY_CONNECTED") none with
  | error e => rw [hq] at h; cases h
  | ok r =>
    rw [hq] at h
    simp only [decide_eq_true_eq] at h
    obtain ⟨h1, h2, h3⟩ := h
    refine ⟨r.1, r.2, rfl, ⟨⟨0, rfl⟩, h1, ?_, rfl⟩, h3⟩
    cases hs : r.1.subgraphs[0]? with
    | none => rw [hs] at h2; cases h2
    | some sg => rw [hs] at h2; exact ⟨sg, rfl, h2⟩

open PipelineWFExample in
example : ∃ (tbl : List Param) (tn : Tensor) (d : Arr Rat) (P : Param) (bs : List Nat),
    StoredAt envA tbl 0 wF' tn d P ∧ storedBytes tbl 0 = some bs := by
  obtain ⟨m', tbl, hrun, hrew, _⟩ := runF
  obtain ⟨tn, d, P, bs, h1, h2, _⟩ := stored_f16 rxAll envA _ none m' tbl
    (nfA' cfgFC _ _ (by intro w hw; simp [cfgFC] at hw; subst hw; decide)) hrun 1 0 0 1 wF' hrew
  exact ⟨tbl, tn, d, P, bs, h1, h2⟩

/-- `1, 2, 3, 4` as binary16, little endian: `0x3C00, 0x4000, 0x4200, 0x4400` -/
example : paramBytes (.nonlinear 16 (some wH)) = some [0, 60, 0, 64, 0, 66, 0, 68] ∧
    byteLen Tables.ttFloat16 4 = some 8 ∧
    decodeStored Tables.ttFloat16 4 [0, 60, 0, 64, 0, 66, 0, 68] = .inr [1, 2, 3, 4] := by decide +kernel

end Inst

/-! ## 5. NECESSITY of `Fits` for borrowed parameters and biases

`quantizePure` takes the calibration statistics as an arbitrary argument.  Statistics of a RUNTIME
tensor with a shape that is not all ones (here: three min/max values, shape `[3,1]`, for the input `x` of
a FULLY_CONNECTED with a one-element bias) give that tensor a scale array of shape `[3,1]`; the bias
scale `s_x·s_w` then has shape `[3]`, numpy broadcasts the one-element bias against it, and
`quantize_tensor` stores THREE int32 codes (12 bytes) in the buffer of a tensor of shape `[1]`.  The model
is in normal form and the run succeeds.  (The library's own calibrator only produces all-ones shapes for
activations, so this needs hand-made statistics; the length statement for non-`own` sources is
nevertheless false without `Fits`.) -/
namespace NeedsFits
open PipelineWFExample

def sgN : Subgraph :=
  { tensors := [T "x" 0 [1,2] 0, T "w" 0 [1,2] 1, T "b" 0 [1] 2, T "y" 0 [1,1] 0], ops := [opA],
    inputs := [0], outputs := [3] }
def mN : Model := { subgraphs := [sgN], buffers := [none, some (.inl 0), some (.inl 1)], opcodes := [9], sigs := [] }
def envN : Env := { model := mN, consts := [(1, [1,2]), (2, [1])], adjY := [] }
def qsN : Qsvs :=
  [("x", some (f32 [3,1] [-1,-2,-3], f32 [3,1] [1,2,3])), ("y", some (f32 [1,1] [-4], f32 [1,1] [4]))]
def bN' : Tensor := { T "b" 0 [1] 2 with dtype := Tables.ttInt32, quant := some 2 }

theorem namedN (op : Op) (hop : op ∈ sgN.ops) (k : String) (h : PipeNF.OpNamed envN.model op k) :
    op = opA ∧ k = "FULLY_CONNECTED" := by
  have : op = opA := by simpa [sgN] using hop
  subst this
  obtain ⟨code, hc, hn⟩ := h
  have hc' : code = 9 := by
    have : envN.model.opcodes[opA.code]? = some 9 := by decide
    rw [this] at hc; cases hc; rfl
  subst hc'
  have : opNameOfCode 9 = some "FULLY_CONNECTED" := by decide
  rw [this] at hn; cases hn
  exact ⟨rfl, rfl⟩

theorem nfN : PipelineWF.NF envN (stOf Tables.algMinMax cfgSRQ) := by
  have hsgs : ∀ sg ∈ envN.model.subgraphs, sg = sgN := by
    intro sg h; simpa [envN, mN] using h
  refine ⟨by decide, by decide, ?_, ?_, ?_, ?_, ?_⟩
  · intro e he r hr w hw
    have : e = (".*", [⟨".*", "*", Tables.algMinMax, cfgSRQ⟩]) := by simpa [stOf] using he
    subst this
    have : r = ⟨".*", "*", Tables.algMinMax, cfgSRQ⟩ := by simpa using hr
    subst this
    simp [cfgSRQ] at hw; subst hw; decide
  · intro sg hsg t ht
    rw [hsgs sg hsg] at ht ⊢
    have : t = 0 := by simpa [sgN] using ht
    subst this
    decide
  · intro sg hsg op hop k hk i j a hi hj hne
    rw [hsgs sg hsg] at hop
    obtain ⟨rfl, rfl⟩ := namedN op hop k hk
    rcases slots i a hi with ⟨rfl, rfl⟩ | ⟨rfl, rfl⟩ | ⟨rfl, rfl⟩ <;>
      rcases slots j _ hj with ⟨rfl, h⟩ | ⟨rfl, h⟩ | ⟨rfl, h⟩ <;> first | rfl | cases h
  · intro sg hsg op hop k hk b a hb h1 h0 hne
    rw [hsgs sg hsg] at hop
    obtain ⟨rfl, rfl⟩ := namedN op hop k hk
    have hd : PipeNF.dataSlot "FULLY_CONNECTED" = 0 := by decide
    rw [hd] at h0
    rcases slots 1 a h1 with ⟨h, _⟩ | ⟨_, rfl⟩ | ⟨h, _⟩
    · cases h
    · rcases slots 0 _ h0 with ⟨_, h⟩ | ⟨h, _⟩ | ⟨h, _⟩ <;> cases h
    · cases h
  · intro sg hsg op hop k hk b hb
    rw [hsgs sg hsg] at hop
    obtain ⟨rfl, rfl⟩ := namedN op hop k hk
    have : PipeNF.biasSlot "FULLY_CONNECTED" = some 2 := by decide
    rw [this] at hb; cases hb
    refine ⟨?_, by decide⟩
    intro i hi
    rcases i with _ | _ | i
    · decide
    · decide
    · omega

/-- **the length implied by the tensor's shape is NOT guaranteed without `Fits`**: normal form, successful
    run, the INT32 tensor `b` of shape `[1]` (4 bytes expected) over 12 stored bytes -/
theorem length_needs_fits :
    PipelineWF.NF envN (stOf Tables.algMinMax cfgSRQ) ∧
    ∃ m' tbl, quantizePure Inst.rxAll envN (stOf Tables.algMinMax cfgSRQ) (some qsN) = .ok (m', tbl) ∧
      Rewritten envN m' 2 2 0 2 bN' ∧
      storedBytes tbl 2 = some [160, 31, 0, 0, 208, 15, 0, 0, 139, 10, 0, 0] ∧
      byteLen bN'.dtype (numel (shapeNat bN')) = some 4 := by
  refine ⟨nfN, ?_⟩
  have h : (match quantizePure Inst.rxAll envN (stOf Tables.algMinMax cfgSRQ) (some qsN) with
      | .ok r => decide (r.1.buffers[2]? = some (some (.inr 2)) ∧
          (r.1.subgraphs[0]?.bind fun sg => sg.tensors[2]?) = some bN' ∧
          storedBytes r.2 2 = some [160, 31, 0, 0, 208, 15, 0, 0, 139, 10, 0, 0])
      | .error _ => false) = true := by decide +kernel
  cases hq : quantizePure Inst.rxAll envN (stOf Tables.algMinMax cfgSRQ) (some qsN) with
  | error e => rw [hq] at h; cases h
  | ok r =>
    rw [hq] at h
    simp only [decide_eq_true_eq] at h
    obtain ⟨h1, h2, h3⟩ := h
    refine ⟨r.1, r.2, rfl, ⟨⟨1, rfl⟩, h1, ?_, rfl⟩, h3, by decide⟩
    cases hs : r.1.subgraphs[0]? with
    | none => rw [hs] at h2; cases h2
    | some sg => rw [hs] at h2; exact ⟨sg, rfl, h2⟩

end NeedsFits

end C05
