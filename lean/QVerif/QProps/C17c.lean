import QProps.C17
/-!
# C17c — 64-bit codes (the bias of 16-bit-activation operators) stay inside the range: no wrap-around on saturation

`C17.q_in_range` covers widths up to 32 bits, where the clip bounds are exact floats.  For 64 bits the
exact bounds are not floats.  The pinned code clipped to `float(2**63 - 1) = 2**63` and cast to int64,
which wraps to `-2**63`: a large POSITIVE bias became the most NEGATIVE code (defect D34, replayed on the
real code: bias 3e12 at scale 3e-7 gave −9223372036854775808).  The repaired code saturates at the
nearest floats inside the range (`2^63 − 1024`, and `−2^63 + 1024` when narrow), modelled by
`Arith.qHiI` / `Arith.qLoI`.
-/
open Num Arith PrecL ArithL

namespace C17

/-- **64-bit codes lie in the (narrow, when symmetric) range for every input value** (repaired code) -/
theorem q_in_range_64 (narrow : Bool) (v : Rat) :
    qmin 64 + (if narrow then 1 else 0) ≤ roundClip 64 narrow v ∧ roundClip 64 narrow v ≤ qmax 64 := by
  unfold roundClip
  have hlo : qLoI 64 narrow = if narrow then -(2:Int)^63 + 1024 else -(2:Int)^63 := by
    unfold qLoI qmin; cases narrow <;> norm_num
  have hhi : qHiI 64 = (2:Int)^63 - 1024 := by unfold qHiI qmax; norm_num
  have hsto : storageBits 64 = 64 := by decide
  rw [hlo, hhi, hsto]
  have hlohi : (if narrow then -(2:Int)^63 + 1024 else -(2:Int)^63) ≤ (2:Int)^63 - 1024 := by
    cases narrow <;> norm_num
  obtain ⟨c1, c2⟩ := clipI_range (rhe v) _ _ hlohi
  have h1 : -(2:Int)^(64-1) ≤ clipI (rhe v) (if narrow then -(2:Int)^63 + 1024 else -(2:Int)^63) ((2:Int)^63 - 1024) := by
    cases narrow <;> simp at c1 ⊢ <;> omega
  have h2 : clipI (rhe v) (if narrow then -(2:Int)^63 + 1024 else -(2:Int)^63) ((2:Int)^63 - 1024) < (2:Int)^(64-1) := by
    norm_num at c2 ⊢; omega
  rw [wrapInt_id 64 (by norm_num) _ h1 h2]
  unfold qmin qmax
  constructor
  · cases narrow <;> simp at c1 ⊢ <;> omega
  · norm_num at c2 ⊢; omega

/-- saturation keeps the sign: a value at or above the upper bound gets the largest code, never a negative one -/
theorem saturates_high_64 (narrow : Bool) (v : Rat) (h : (2:Int)^63 - 1024 ≤ rhe v) :
    roundClip 64 narrow v = (2:Int)^63 - 1024 := by
  unfold roundClip
  have hhi : qHiI 64 = (2:Int)^63 - 1024 := by unfold qHiI qmax; norm_num
  have hlo : qLoI 64 narrow ≤ (2:Int)^63 - 1024 := by unfold qLoI qmin; cases narrow <;> norm_num
  have hsto : storageBits 64 = 64 := by decide
  rw [hhi, hsto]
  have hc : clipI (rhe v) (qLoI 64 narrow) ((2:Int)^63 - 1024) = (2:Int)^63 - 1024 := by
    unfold clipI; split_ifs <;> omega
  rw [hc, wrapInt_id 64 (by norm_num) _ (by norm_num) (by norm_num)]

/-- the pinned behaviour, kept as a witness: clipping to `2^63` and casting wraps to the most negative code -/
theorem d34_pinned_wraps : wrapInt 64 (clipI ((2:Int)^64) (-(2:Int)^63) ((2:Int)^63)) = -(2:Int)^63 := by decide

/-- non-vacuity: a huge positive value saturates to a POSITIVE code under the repaired bounds -/
example : roundClip 64 true ((10:Rat)^19) = 9223372036854774784 := by
  rw [saturates_high_64 true _ (by rw [show ((10:Rat)^19) = ((10^19 : Int) : Rat) by norm_num, Rounding.rhe_int]; norm_num)]
  norm_num

end C17
