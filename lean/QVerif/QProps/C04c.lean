import QProofs.ParamsWF
import QProofs.NFCheckProofs
import QProps.C04b
import QProps.C08c
import QProps.C03d
/-!
# C04, end to end on `Pipeline.quantizePure`

"Every quantized tensor carries finite positive scales and in-range zero points of equal length, with zero
point 0 whenever its config is symmetric (except where the runtime kernel fixes the output range), and the
values equal the reference min/max formulas applied to that tensor's statistics under the configured bit
width, symmetry and granularity.  The op-level rules hold (bias, same-scale operators, fixed ranges).
Per-channel parameters appear only on a weight operand and only on the dimension the runtime kernel expects."

`QProps/C04.lean`, `C04b.lean` prove this for the materialisation of ONE operator; this file lifts it to the
OUTPUT MODEL of `quantizePure rx env st qsvs = .ok (m', tbl)` under the normal form `PipelineWF.NF` of C01.

## 1. Where the parameters of a quantized tensor come from (`quantized_tensor_params`)

Every tensor `tn'` of `m'` with `quant = some p` stands for an ORIGINAL tensor `tn` (`Skeleton.root`);
`tbl[p]` is a uniform parameter object with the same bit width, quantized dimension, scale values, zero
points and symmetry flag (`SameValues`; Python `==`) as the parameter object `.uniform qp d` that the
materialisation of ONE definite entry of the operator list attached to the request for `tn`:

* `tn'` an original RUNTIME tensor: the operator that PRODUCES `tn` (or the INPUT pseudo-operator);
* `tn'` an original CONSTANT: an operator that READS `tn`;
* `tn'` a NEW tensor (result of an inserted QUANTIZE of `tn`): an operator that READS `tn`.

`ParamAt` names that entry (position `j` in `Pipe.allOps sg`: the operators in order, then INPUT, OUTPUT;
operator id `o`), the name / scope under which the recipe resolved it to a quantizing algorithm, the
resolved config (`ParamsSrc.oiOf`), and the statistics dictionary `qs` IN FORCE at that moment
(`ParamsSrc.StatsAt`: the materialisation's private copy of the calibration statistics after all earlier
entries).  `param_kinds`: the parameter object is then one of

(a) the reference parameters `refParams tc.bits tc.symmetric qdim mn mx` (the min/max formula
    `tensor_zp_scale_from_min_max`) of `tn`'s own statistics `(mn, mx)` -- the entry `qs[tn.name]` for a
    runtime tensor, the true per-tensor / per-channel min/max of its data for a constant
    (`MatParams.statsOf`; `C04.weight_stats_true_minmax`) -- under the tensor config `tc` that operator applies
    to `tn` (`MatParams.tcfgOf`: weight config for constant operands of the operators with weights,
    activation config otherwise) and the kernel's quantized dimension `qdim` (`MatParams.refQDim`);
(a') the same reference parameters of ANOTHER tensor `t0` of that operator (same-as-input: the data
    operand, for a result; same-as-output: the result, for an operand);
(a'') `fixedParams` (SOFTMAX / LOGISTIC / TANH result);
(b) `quantizeBias` of the reference parameters of the data operand and of the weight.

`stats_in_force`: every entry of the dictionary in force is the caller's entry, a copy of the entry of the
data operand made by a same-as-input operator (RESHAPE, TRANSPOSE, AVERAGE_POOL_2D, STRIDED_SLICE, SPLIT) for
its result, or the min/max of the fixed range that a SOFTMAX / LOGISTIC / TANH wrote for its result.

## 2. Corollaries

* `output_params_wellformed`: under a recipe with 2..16 bits and per-tensor activation configs and
  ordered non-float16 caller statistics, the parameters of every quantized tensor are
  `MatParams.WellFormed` (finite positive scales, zero points in range, equal lengths, zero point 0 when
  symmetric; for `fixedParams` with the flag of the fixed range), or -- a bias -- symmetric with zero points 0
  and scale = input scale × weight scale of well-formed operand parameters;
* `per_channel_only_weights_in_output`: a quantized dimension occurs only on an original CONSTANT: a constant
  operand of an operator with weights under a CHANNELWISE weight config, on the kernel's dimension, or a
  bias (dimension 0);
* `same_scale_ops_in_output` (+ `same_scale_const_operand_in_output`), `concat_inputs_in_output`,
  `fixed_range_in_output`, `bias_in_output` (+ `bias_values`): the op-level rules, read on the tensors of `m'`:
  equal `quant` ids (= `==`-equal parameter objects) for the same-scale operators and CONCATENATION, the
  `fixedParams` entry for SOFTMAX / LOGISTIC / TANH results, `quantizeBias` of the parameters of the tensors
  the output operator reads in the data and weight slots for the bias.

## 3. Closed instances (namespace `E2E`; every run is evaluated by the kernel)

FC+TANH under the shipped int8 recipe (`Tanh.*`), FC+RESHAPE (`Reshape.reshape_same_scale`), CONCATENATION
(`Concat.concat_instance`), FC with bias (`Bias.bias_instance`); `const_operand_ids_differ`: for a CONSTANT data
operand of a same-scale operator the ids of operand and result DIFFER (same values; the operand's parameter
object carries its quantized data and Python `==` compares it) -- which is why the equal-id statement is about
runtime operands and the constant case is stated on values.

Not claimed: positivity of a BIAS scale (the float product of two positive scales may underflow to 0; nothing
is proved here about that case -- a bias is described by `IsBias` instead of `WellFormed`); the shape
of an activation's scale array is the shape of the statistics entry the caller handed in (C05c).
-/
open Graph Mat Arith Cfg Num Nd MatParams Pipeline Pipe
open ParamsSrc ParamsStats ParamsE2E ParamsFwd ParamsWF

set_option autoImplicit false

namespace C04

/-! ## 1. where the parameters of a quantized tensor come from -/

/-- Python `==` on the parameters of two uniform parameter objects (array dtypes are not compared) -/
def SameValues (qp0 qp : QParams) : Prop :=
  qp0.bits = qp.bits ∧ qp0.qdim = qp.qdim ∧ qp0.scale.arr = qp.scale.arr ∧ qp0.zp.arr = qp.zp.arr ∧
    qp0.symmetric = qp.symmetric

/-- **C04.quantized_tensor_params.**  For every model in normal form, recipe state, regex semantics and
    statistics: if `quantize()` succeeds, every tensor of the output with quantization parameters `p`
    stands for an original tensor `tn` (index `i` of the same subgraph of the input); the table entry
    `tbl[p]` is uniform and has the values of the parameter object `.uniform qp d` attached to the request
    for `tn` by the materialisation of the entry with operator id `o` of the operator list (`ParamAt`), which
    is the PRODUCER of `tn` (original runtime tensor), a READER of `tn` (original constant), or a READER of
    `tn` (new tensor, the result of the inserted operator `QUANTIZE(tn)`) -/
theorem quantized_tensor_params (rx : String → String → Bool) (env : Env) (st : Recipe.State)
    (qsvs : Option Qsvs) (m' : Model) (tbl : List Param) (hnf : PipelineWF.NF env st)
    (h : quantizePure rx env st qsvs = .ok (m', tbl))
    (s : Nat) (sg' : Subgraph) (hsg' : m'.subgraphs[s]? = some sg') (n : Nat) (tn' : Tensor)
    (htn' : sg'.tensors[n]? = some tn') (p : PId) (hq : tn'.quant = some p) :
    ∃ (sg : Subgraph) (i : Nat) (tn : Tensor) (o : Int) (qp0 qp : QParams) (d0 d : Option IArr),
      env.model.subgraphs[s]? = some sg ∧ sg.tensors[i]? = some tn ∧ Skeleton.root sg' (n : Int) = (i : Int) ∧
      tbl[p]? = some (.uniform qp0 d0) ∧ SameValues qp0 qp ∧
      ParamAt rx env st qsvs s sg tn o (.uniform qp d) ∧
      ((n = i ∧ isConst env.model sg (i : Int) = false ∧ ProducedAt sg i o) ∨
       (n = i ∧ isConst env.model sg (i : Int) = true ∧ ConsumedAt sg i o) ∨
       (sg.tensors.length ≤ n ∧ isConst env.model sg (i : Int) = false ∧ ConsumedAt sg i o ∧
         ∃ ci, ({ code := ci, inputs := [(i : Int)], outputs := [(n : Int)], orig := none } : Op) ∈ sg'.ops ∧
           m'.opcodes[ci]? = some Tables.opQuantize)) := by
  obtain ⟨sg, i, tn, o, P, P0, h1, h2, h3, h4, h5, h6, h7, h8⟩ :=
    quant_source rx env st qsvs m' tbl hnf h s sg' hsg' n tn' htn' p hq
  obtain ⟨qp, d, rfl⟩ := eqv_uniform_of_pinfo P0 P h5 h6
  obtain ⟨qp0, d0, rfl, e1, e2, e3, e4, e5⟩ := eqv_vals P0 qp d h5
  exact ⟨sg, i, tn, o, qp0, qp, d0, d, h1, h2, h3, h4, ⟨e1, e2, e3, e4, e5⟩, h7, h8⟩

/-- **the kinds of parameter objects** (the constructors of `ParamsSrc.PSrc`, for a uniform object):
    (a) reference parameters of the tensor's own statistics, (a') of another operand / result of the same
    (constrained, hence weight-less) operator, (a'') a fixed range, (b) a bias -/
theorem param_kinds (env : Env) (sg : Subgraph) (qs : Qsvs) (oi : OpInfo) (t : Tensor) (qp : QParams)
    (d : Option IArr) (h : PSrc env sg qs oi t (.uniform qp d)) :
    RefOf env qs oi t qp d ∨
    (∃ b t0 d0, SlotOf sg oi.op b t0 ∧ SlotOf sg oi.op (!b) t ∧ RefOf env qs oi t0 qp d0 ∧ LentData env t qp d ∧
      NotWeightOp oi) ∨
    (∃ sl a, oi.cfg.act = some a ∧ fixedParams sl a.bits.toNat = some qp ∧ SlotOf sg oi.op false t ∧ d = none) ∨
    (∃ aIn aW tin tw qi di qw dw bd q, oi.op.inputs[PipeNF.dataSlot oi.opName]? = some aIn ∧
      tensorAt sg aIn = .ok tin ∧ oi.op.inputs[1]? = some aW ∧ tensorAt sg aW = .ok tw ∧
      RefOf env qs oi tin qi di ∧ RefOf env qs oi tw qw dw ∧ constData env t = some bd ∧
      quantizeBias ⟨bd, .f32⟩ qi qw = .ok (qp, q) ∧ d = some q) := by
  cases h with
  | ref _ _ hr => exact .inl hr
  | lent b t0 _ d0 _ h1 h2 h3 h4 h5 => exact .inr (.inl ⟨b, t0, d0, h1, h2, h3, h4, h5⟩)
  | fixed sl a _ h1 h2 h3 => exact .inr (.inr (.inl ⟨sl, a, h1, h2, h3, rfl⟩))
  | bias aIn aW tin tw qi di qw dw bd _ q h1 h2 h3 h4 h5 h6 h7 h8 =>
    exact .inr (.inr (.inr ⟨aIn, aW, tin, tw, qi, di, qw, dw, bd, q, h1, h2, h3, h4, h5, h6, h7, h8, rfl⟩))

/-- the reference parameters, unfolded: tensor config, statistics, quantized dimension, formula -/
theorem refOf_unfold (env : Env) (qs : Qsvs) (oi : OpInfo) (t : Tensor) (qp : QParams) (d : Option IArr) :
    RefOf env qs oi t qp d ↔
      ∃ tc mn mx qdim, tcfgOf env oi t = some tc ∧ statsOf env qs oi t = .ok (some (mn, mx)) ∧
        refQDim env oi tc (constData env t) = .ok qdim ∧
        refParams tc.bits.toNat tc.symmetric qdim mn mx = .ok qp ∧ refData tc (constData env t) qp = .ok d :=
  Iff.rfl

/-- the statistics of a RUNTIME tensor are its entry in the dictionary in force -/
theorem statsOf_runtime (env : Env) (qs : Qsvs) (oi : OpInfo) (t : Tensor) (e : Qsv)
    (hnc : constData env t = none) : statsOf env qs oi t = .ok e ↔ Py.dictGet? qs t.name = some e := by
  unfold statsOf
  rw [hnc]
  simp only []
  cases Py.dictGet? qs t.name with
  | none => constructor <;> (intro h; cases h)
  | some v => simp

/-- **the statistics in force**: every entry of the dictionary under which an entry of the operator list is
    materialised is the caller's, a same-as-input copy, or the min/max of a fixed range (`StatSrc`) -/
theorem stats_in_force (rx : String → String → Bool) (env : Env) (st : Recipe.State) (qsvs : Option Qsvs)
    (hnf : PipelineWF.NF env st) (s : Nat) (sg : Subgraph) (hsg : env.model.subgraphs[s]? = some sg) (j : Nat)
    (qs : Qsvs) (h : StatsAt rx env st qsvs s sg j qs) (n : String) (e : Qsv)
    (hn : Py.dictGet? qs n = some e) : StatSrc rx env st qsvs n e :=
  statsAt_src rx env st qsvs hnf.genHyp s sg hsg j qs h n e hn

/-- the dictionary in force is unique -/
theorem stats_in_force_unique (rx : String → String → Bool) (env : Env) (st : Recipe.State) (qsvs : Option Qsvs)
    (s : Nat) (sg : Subgraph) (j : Nat) (qs qs' : Qsvs) (h : StatsAt rx env st qsvs s sg j qs)
    (h' : StatsAt rx env st qsvs s sg j qs') : qs = qs' :=
  statsAt_unique h h'

/-- the entries of the operator list: the `j`-th operator with id `j`, then INPUT and OUTPUT with id `-1` -/
theorem allOps_get (sg : Subgraph) (j : Nat) (q : Op × Option String × Int) (h : (allOps sg)[j]? = some q) :
    (∃ op, sg.ops[j]? = some op ∧ q = (op, none, (j : Int))) ∨
    (j = sg.ops.length ∧ q = (({ code := 0, inputs := [], outputs := sg.inputs } : Op), some "INPUT", (-1 : Int))) ∨
    (j = sg.ops.length + 1 ∧
      q = (({ code := 0, inputs := sg.outputs, outputs := [] } : Op), some "OUTPUT", (-1 : Int))) := by
  unfold allOps at h
  by_cases hj : j < sg.ops.length
  · rw [List.getElem?_append_left (by simpa using hj), List.getElem?_map, List.getElem?_zipIdx] at h
    left
    refine ⟨sg.ops[j], List.getElem?_eq_getElem hj, ?_⟩
    simp only [List.getElem?_eq_getElem hj, Option.map_some, Nat.zero_add, Option.some.injEq] at h
    exact h.symm
  · right
    rw [List.getElem?_append_right (by simpa using hj)] at h
    simp only [List.length_map, List.length_zipIdx] at h
    rcases hk : j - sg.ops.length with _ | _ | k
    · rw [hk] at h
      simp only [List.getElem?_cons_zero, Option.some.injEq] at h
      exact .inl ⟨by omega, h.symm⟩
    · rw [hk] at h
      simp only [List.getElem?_cons_succ, List.getElem?_cons_zero, Option.some.injEq] at h
      exact .inr ⟨by omega, h.symm⟩
    · rw [hk] at h
      simp at h

/-- an entry of the statistics in force under a name that no same-as-input / fixed-range operator has as a
    result is the CALLER's (calibrated) entry -/
theorem stats_given (rx : String → String → Bool) (env : Env) (st : Recipe.State) (qsvs : Option Qsvs)
    (n : String) (e : Qsv) (h : StatSrc rx env st qsvs n e)
    (hnot : ∀ (s : Nat) (sg : Subgraph) (j : Nat) (q : Op × Option String × Int) (k scope fn : String) (t : Tensor),
      env.model.subgraphs[s]? = some sg → (allOps sg)[j]? = some q → Resolves rx env st sg q k scope →
      Py.dictGet? minmaxOps k = some fn → fn ∈ sameAsInputFns ∨ fn ∈ fixedRangeFns → SlotOf sg q.1 false t →
      t.name ≠ n) :
    Py.dictGet? (qsvs.getD []) n = some e := by
  cases h with
  | given _ _ hg => exact hg
  | copied s sg j q k scope fn t0 t _ h1 h2 h3 _ h5 h6 _ h8 _ =>
    exact absurd rfl (hnot s sg j q k scope fn t h1 h2 h3 h5 (.inl h6) h8)
  | fixed s sg j q k scope fn t a fp mm h1 h2 h3 _ h5 h6 h7 _ _ _ =>
    exact absurd rfl (hnot s sg j q k scope fn t h1 h2 h3 h5 (.inr h6) h7)

/-- the statistics of a CONSTANT are the true per-tensor / per-channel min/max of its data under the config of
    the operator at hand (`C04.weight_stats_true_minmax` says what `initMinMax` computes) -/
theorem statsOf_constant (env : Env) (qs : Qsvs) (oi : OpInfo) (t : Tensor) (dd : Arr Rat) (mn mx : FArr)
    (hd : constData env t = some dd) :
    statsOf env qs oi t = .ok (some (mn, mx)) ↔ initMinMax env oi t dd = .ok (mn, mx) :=
  statsOf_const env qs oi t dd mn mx hd

/-! ## 2. well-formedness -/

/-- side condition on one op config: every tensor config has 2..16 bits (the range of the C17 laws), and
    the activation config is per-tensor -/
def CfgOK (c : OpCfg) : Prop :=
  (∀ tc, c.act = some tc → 2 ≤ tc.bits.toNat ∧ tc.bits.toNat ≤ 16 ∧ tc.gran ≠ Gran.channelwise) ∧
  (∀ tc, c.weight = some tc → 2 ≤ tc.bits.toNat ∧ tc.bits.toNat ≤ 16)

/-- side condition on the recipe: every rule's config is `CfgOK` -/
def RecipeOK (st : Recipe.State) : Prop := ∀ e ∈ st, ∀ r ∈ e.2, CfgOK r.cfg

theorem cfgOK_resolve (rx : String → String → Bool) (st : Recipe.State) (hst : RecipeOK st) (k scope : String) :
    CfgOK (Recipe.resolve rx st k scope).2 :=
  resolve_inv CfgOK rx st k scope ⟨fun tc h => (by cases h), fun tc h => (by cases h)⟩ hst

/-- the entries of a statistics dictionary are ordered and not float16 -/
def DictOK (qs : Qsvs) : Prop :=
  ∀ n mn mx, Py.dictGet? qs n = some (some (mn, mx)) → StatsOrdered mn mx ∧ mn.pr.join mx.pr ≠ .f16

/-- **reference parameters are well formed** -/
theorem refOf_wellformed (env : Env) (qs : Qsvs) (oi : OpInfo) (t : Tensor) (qp : QParams) (d : Option IArr)
    (h : RefOf env qs oi t qp d) (hcfg : CfgOK oi.cfg) (hqs : DictOK qs) :
    ∃ tc, tcfgOf env oi t = some tc ∧ WellFormed tc.bits.toNat tc.symmetric qp := by
  obtain ⟨tc, mn, mx, qdim, htc, hst, hq, hp, -⟩ := h
  have hbits : 2 ≤ tc.bits.toNat ∧ tc.bits.toNat ≤ 16 := by
    unfold tcfgOf at htc
    split at htc
    · exact hcfg.2 tc htc
    · exact ⟨(hcfg.1 tc htc).1, (hcfg.1 tc htc).2.1⟩
  have hact : ActPerTensor oi.cfg := fun a ha => (hcfg.1 a ha).2.2
  refine ⟨tc, htc, ?_⟩
  cases hc : constData env t with
  | some dd =>
    rw [hc] at hq
    have hi := (statsOf_const env qs oi t dd mn mx hc).1 hst
    exact (weight_params_shape env oi t tc dd mn mx qdim qp hc htc hact hbits.1 hbits.2 hi hq hp).1
  | none =>
    have hd := (statsOf_runtime env qs oi t _ hc).1 hst
    obtain ⟨hord, hpr⟩ := hqs _ _ _ hd
    exact (ref_params_wellformed _ _ _ mn mx qp hbits.1 hbits.2 hpr hord hp).1

/-- **how many scales**: the reference parameters of a CONSTANT have one scale / zero point per channel --
    one, or `shape[qdim]` along the kernel's quantized dimension (`MatParams.channels`); those of a RUNTIME
    tensor have no quantized dimension and the shape of its statistics entry (one scale for the per-tensor
    statistics that calibration records) -/
theorem refOf_channels (env : Env) (qs : Qsvs) (oi : OpInfo) (t : Tensor) (qp : QParams) (d : Option IArr)
    (h : RefOf env qs oi t qp d) (hcfg : CfgOK oi.cfg) (hqs : DictOK qs) :
    (∀ dd, constData env t = some dd →
      qp.scale.arr.data.length = channels dd.shape qp.qdim ∧ qp.zp.arr.data.length = channels dd.shape qp.qdim) ∧
    (constData env t = none → qp.qdim = none ∧
      ∃ mn mx, Py.dictGet? qs t.name = some (some (mn, mx)) ∧ qp.scale.arr.shape = mn.arr.shape ∧
        qp.scale.arr.data.length = numel mn.arr.shape ∧ qp.zp.arr.data.length = numel mn.arr.shape) := by
  obtain ⟨tc, mn, mx, qdim, htc, hst, hq, hp, -⟩ := h
  have hbits : 2 ≤ tc.bits.toNat ∧ tc.bits.toNat ≤ 16 := by
    unfold tcfgOf at htc
    split at htc
    · exact hcfg.2 tc htc
    · exact ⟨(hcfg.1 tc htc).1, (hcfg.1 tc htc).2.1⟩
  have hact : ActPerTensor oi.cfg := fun a ha => (hcfg.1 a ha).2.2
  refine ⟨?_, ?_⟩
  · intro dd hc
    rw [hc] at hq
    have hi := (statsOf_const env qs oi t dd mn mx hc).1 hst
    obtain ⟨-, e2, -, -, -, e6, e7⟩ := weight_params_shape env oi t tc dd mn mx qdim qp hc htc hact hbits.1 hbits.2 hi hq hp
    rw [e2]
    exact ⟨e6, e7⟩
  · intro hc
    have hd := (statsOf_runtime env qs oi t _ hc).1 hst
    obtain ⟨hord, hpr⟩ := hqs _ _ _ hd
    obtain ⟨hwf, e2, e3, -, -⟩ := ref_params_wellformed _ _ _ mn mx qp hbits.1 hbits.2 hpr hord hp
    have hqn : qdim = none := by
      rw [hc] at hq
      rw [tcfgOf_nonconst env oi t hc] at htc
      have hg := (hcfg.1 tc htc).2.2
      unfold refQDim at hq
      rw [if_neg (by simpa using hg)] at hq
      cases hq
      rfl
    refine ⟨by rw [e2, hqn], mn, mx, hd, e3, by rw [hwf.wf, e3], by rw [← hwf.len, hwf.wf, e3]⟩

theorem wellformed_own {bits : Nat} {sym : Bool} {qp : QParams} (h : WellFormed bits sym qp) :
    WellFormed qp.bits qp.symmetric qp := by
  have h1 := h.bits_eq
  have h2 := h.sym_eq
  subst h1 h2
  exact h

/-- a bias parameter object: symmetric, zero points 0, 32 bits (64 for 16-bit activations), scale = input
    scale × weight scale (element-wise float product, squeezed) of WELL-FORMED operand parameters -/
def IsBias (qp : QParams) : Prop :=
  ∃ (qi qw : QParams) (prod : Arr Rat), WellFormed qi.bits qi.symmetric qi ∧ WellFormed qw.bits qw.symmetric qw ∧
    qp.symmetric = true ∧ qp.bits = (if qi.bits = 16 then 64 else 32) ∧ (∀ z ∈ qp.zp.arr.data, z = 0) ∧
    zipB (fun a b => (qi.scale.pr.join qw.scale.pr).chk (a * b)) qi.scale.arr qw.scale.arr = .ok prod ∧
    qp.scale = ⟨squeeze1 prod, qi.scale.pr.join qw.scale.pr⟩

/-- **every parameter object with a source is well formed, or a bias of well-formed parameters** -/
theorem psrc_wellformed (env : Env) (sg : Subgraph) (qs : Qsvs) (oi : OpInfo) (t : Tensor) (qp : QParams)
    (d : Option IArr) (h : PSrc env sg qs oi t (.uniform qp d)) (hcfg : CfgOK oi.cfg) (hqs : DictOK qs) :
    WellFormed qp.bits qp.symmetric qp ∨ IsBias qp := by
  rcases param_kinds env sg qs oi t qp d h with hr | ⟨b, t0, d0, -, -, hr, -, -⟩ | ⟨sl, a, -, hf, -, -⟩ |
    ⟨aIn, aW, tin, tw, qi, di, qw, dw, bd, q, -, -, -, -, hi, hw, -, hb, -⟩
  · obtain ⟨tc, -, hwf⟩ := refOf_wellformed env qs oi t qp d hr hcfg hqs
    exact .inl (wellformed_own hwf)
  · obtain ⟨tc, -, hwf⟩ := refOf_wellformed env qs oi t0 qp d0 hr hcfg hqs
    exact .inl (wellformed_own hwf)
  · exact .inl (wellformed_own (fixedParams_wf sl _ qp hf).1)
  · obtain ⟨tci, -, hwi⟩ := refOf_wellformed env qs oi tin qi di hi hcfg hqs
    obtain ⟨tcw, -, hww⟩ := refOf_wellformed env qs oi tw qw dw hw hcfg hqs
    obtain ⟨b1, b2, -, b4, prod, b5, b6⟩ := bias_params _ _ _ _ _ hb
    exact .inr ⟨qi, qw, prod, wellformed_own hwi, wellformed_own hww, b1, b2, b4, b5, b6⟩

/-- **C04.output_params_wellformed.**  If every rule config of the recipe has 2..16 bits and per-tensor
    activations, and the caller's statistics are ordered (`min ≤ max`, one shape) and not float16, then for
    every tensor of the output with quantization parameters `p`: the table entry `tbl[p]` has the values of
    a parameter object `qp` (the one of `quantized_tensor_params`) that is `MatParams.WellFormed` for its own
    bit width and symmetry flag -- finite positive scales, zero points in `[-2^(bits-1), 2^(bits-1)-1]`, scale
    and zero-point arrays of equal shape and length, zero point 0 when symmetric -- or is a bias. -/
theorem output_params_wellformed (rx : String → String → Bool) (env : Env) (st : Recipe.State)
    (qsvs : Option Qsvs) (m' : Model) (tbl : List Param) (hnf : PipelineWF.NF env st)
    (h : quantizePure rx env st qsvs = .ok (m', tbl)) (hst : RecipeOK st) (hstats : StatsOK qsvs)
    (s : Nat) (sg' : Subgraph) (hsg' : m'.subgraphs[s]? = some sg') (n : Nat) (tn' : Tensor)
    (htn' : sg'.tensors[n]? = some tn') (p : PId) (hq : tn'.quant = some p) :
    ∃ (qp0 qp : QParams) (d0 : Option IArr), tbl[p]? = some (.uniform qp0 d0) ∧ SameValues qp0 qp ∧
      (WellFormed qp.bits qp.symmetric qp ∨ IsBias qp) := by
  obtain ⟨sg, i, tn, o, qp0, qp, d0, d, h1, h2, h3, h4, h5, h6, -⟩ :=
    quantized_tensor_params rx env st qsvs m' tbl hnf h s sg' hsg' n tn' htn' p hq
  obtain ⟨j, q, k, scope, qs, -, -, -, hstat, hsrc⟩ := h6
  refine ⟨qp0, qp, d0, h4, h5, psrc_wellformed env sg qs _ tn qp d hsrc (cfgOK_resolve rx st hst k scope) ?_⟩
  intro nm mn mx hget
  exact statSrc_ok hstats nm _ (stats_in_force rx env st qsvs hnf s sg h1 j qs hstat nm _ hget) mn mx rfl

/-- the values in the table inherit everything `WellFormed` says except the float format of the scales -/
theorem wellformed_values (qp0 qp : QParams) (hs : SameValues qp0 qp) (h : WellFormed qp.bits qp.symmetric qp) :
    qp0.scale.arr.shape = qp0.zp.arr.shape ∧ qp0.scale.arr.data.length = qp0.zp.arr.data.length ∧
      qp0.scale.arr.data.length = numel qp0.scale.arr.shape ∧ (∀ x ∈ qp0.scale.arr.data, 0 < x) ∧
      (∀ x ∈ qp0.scale.arr.data, qp.scale.pr.isFin x = true) ∧
      (∀ z ∈ qp0.zp.arr.data, qmin qp0.bits ≤ z ∧ z ≤ qmax qp0.bits) ∧
      (qp0.symmetric = true → ∀ z ∈ qp0.zp.arr.data, z = 0) := by
  obtain ⟨e1, -, e3, e4, e5⟩ := hs
  rw [e1, e3, e4, e5]
  exact ⟨h.shape, h.len, h.wf, h.pos, h.fin, h.zp, h.zp0⟩

/-! ## 3. per-channel parameters -/

theorem quantizeBias_qdim (bias : FArr) (qi qw qp : QParams) (q : IArr)
    (h : quantizeBias bias qi qw = .ok (qp, q)) : qp.qdim = none ∨ qp.qdim = some 0 := by
  unfold quantizeBias at h
  simp only [bind, Except.bind, pure, Except.pure] at h
  cases hp : zipB (fun a b => (qi.scale.pr.join qw.scale.pr).chk (a * b)) qi.scale.arr qw.scale.arr with
  | error e => simp [hp] at h
  | ok prod =>
    simp only [hp] at h
    split at h
    · cases h
    · simp only [Except.ok.injEq, Prod.mk.injEq] at h
      obtain ⟨h1, _⟩ := h
      subst h1
      simp only
      split
      · exact .inl rfl
      · exact .inr rfl

theorem refParams_qdim (bits : Nat) (sym : Bool) (qdim : Option Nat) (mn mx : FArr) (qp : QParams)
    (h : refParams bits sym qdim mn mx = .ok qp) : qp.qdim = qdim := by
  unfold refParams at h
  split at h
  · cases h; rfl
  · cases h

/-- **C04.per_channel_only_weights_in_output.**  Under a recipe whose activation configs are per-tensor: a
    tensor of the output whose parameters have a quantized dimension `kq` is an ORIGINAL CONSTANT `tn`, and
    its parameters were requested by an operator `o` that reads it, as
    * a constant operand of an operator with weights (BATCH_MATMUL, CONV_2D, CONV_2D_TRANSPOSE,
      DEPTHWISE_CONV_2D, EMBEDDING_LOOKUP, FULLY_CONNECTED) whose resolved WEIGHT config is CHANNELWISE, and
      `kq` is the dimension the runtime kernel expects (table `weightQDim`; for BATCH_MATMUL the last
      dimension, the last but one under `adj_y`), or
    * a bias (`kq = 0`). -/
theorem per_channel_only_weights_in_output (rx : String → String → Bool) (env : Env) (st : Recipe.State)
    (qsvs : Option Qsvs) (m' : Model) (tbl : List Param) (hnf : PipelineWF.NF env st)
    (h : quantizePure rx env st qsvs = .ok (m', tbl)) (hst : RecipeOK st)
    (s : Nat) (sg' : Subgraph) (hsg' : m'.subgraphs[s]? = some sg') (n : Nat) (tn' : Tensor)
    (htn' : sg'.tensors[n]? = some tn') (p : PId) (hq : tn'.quant = some p)
    (qp0 : QParams) (d0 : Option IArr) (htbl : tbl[p]? = some (.uniform qp0 d0)) (kq : Nat)
    (hqd : qp0.qdim = some kq) :
    ∃ (sg : Subgraph) (tn : Tensor) (o : Int) (j : Nat) (q : Op × Option String × Int) (k scope : String),
      env.model.subgraphs[s]? = some sg ∧ sg.tensors[n]? = some tn ∧ isConst env.model sg (n : Int) = true ∧
      ConsumedAt sg n o ∧ (allOps sg)[j]? = some q ∧ q.2.2 = o ∧ Resolves rx env st sg q k scope ∧
      ((Tables.woOps.contains k = true ∧ ∃ tc, (Recipe.resolve rx st k scope).2.weight = some tc ∧
          tc.gran = Gran.channelwise ∧
          ((k = "BATCH_MATMUL" ∧ ∃ dd, constData env tn = some dd ∧
              kq = bmmQDim dd.shape.length (opAdjY env (oiOf rx st s q k scope))) ∨
           (k ≠ "BATCH_MATMUL" ∧ Py.dictGet? Tables.weightQDim k = some kq))) ∨
       (kq = 0 ∧ ∃ qi qw bd qp q', constData env tn = some bd ∧ quantizeBias ⟨bd, .f32⟩ qi qw = .ok (qp, q') ∧
          SameValues qp0 qp)) := by
  obtain ⟨sg, i, tn, o, qp0', qp, d0', d, h1, h2, h3, h4, h5, h6, h7⟩ :=
    quantized_tensor_params rx env st qsvs m' tbl hnf h s sg' hsg' n tn' htn' p hq
  rw [htbl] at h4
  cases h4
  have hqd' : qp.qdim = some kq := by rw [← h5.2.1]; exact hqd
  obtain ⟨j, q, k, scope, qs, g1, g2, g3, -, hsrc⟩ := h6
  have hact : ActPerTensor (oiOf rx st s q k scope).cfg := fun a ha => ((cfgOK_resolve rx st hst k scope).1 a ha).2.2
  have hci := constData_isSome env sg i tn h2
  -- the tensor is a constant: only the second class is possible
  have fin : (constData env tn).isSome = true →
      n = i ∧ isConst env.model sg (i : Int) = true ∧ ConsumedAt sg i o := by
    intro hc
    rw [hci] at hc
    rcases h7 with ⟨-, hx, -⟩ | ⟨a, b, c⟩ | ⟨-, hx, -⟩
    · rw [hx] at hc; cases hc
    · exact ⟨a, b, c⟩
    · rw [hx] at hc; cases hc
  have weight : ∀ (t0 : Tensor) (dat : Option IArr), RefOf env qs (oiOf rx st s q k scope) t0 qp dat →
      (constData env t0).isSome = true ∧ Tables.woOps.contains k = true ∧
        ∃ tc, (Recipe.resolve rx st k scope).2.weight = some tc ∧ tc.gran = Gran.channelwise ∧
          ((k = "BATCH_MATMUL" ∧ ∃ dd, constData env t0 = some dd ∧
              kq = bmmQDim dd.shape.length (opAdjY env (oiOf rx st s q k scope))) ∨
           (k ≠ "BATCH_MATMUL" ∧ Py.dictGet? Tables.weightQDim k = some kq)) := by
    intro t0 dat hr
    obtain ⟨tc, mn, mx, qdim, htc, -, hqdim, hp, -⟩ := hr
    have : qdim = some kq := by rw [← refParams_qdim _ _ _ _ _ _ hp]; exact hqd'
    subst this
    obtain ⟨a, b, c, e, f⟩ := per_channel_only_weight_config env _ t0 tc kq htc hact hqdim
    exact ⟨a, b, tc, c, e, f⟩
  rcases param_kinds env sg qs _ tn qp d hsrc with hr | ⟨b, t0, dd0, -, -, hr, -, hnw⟩ | ⟨sl, a, -, hf, -, -⟩ |
    ⟨aIn, aW, tin, tw, qi, di, qw, dw, bd, q', -, -, -, -, -, -, hbd, hb, -⟩
  · obtain ⟨hc, hwo, rest⟩ := weight tn d hr
    obtain ⟨rfl, f2, f3⟩ := fin hc
    exact ⟨sg, tn, o, j, q, k, scope, h1, h2, f2, f3, g1, g2, g3, .inl ⟨hwo, rest⟩⟩
  · obtain ⟨-, hwo, -⟩ := weight t0 dd0 hr
    have := hnw.1
    simp only [oiOf] at this
    rw [this] at hwo
    cases hwo
  · rw [(fixedParams_wf sl _ qp hf).2.1] at hqd'
    cases hqd'
  · obtain ⟨rfl, f2, f3⟩ := fin (by rw [hbd]; rfl)
    have hk0 : kq = 0 := by
      rcases quantizeBias_qdim _ _ _ _ _ hb with h0 | h0
      · rw [h0] at hqd'; cases hqd'
      · rw [h0] at hqd'; cases hqd'; rfl
    exact ⟨sg, tn, o, j, q, k, scope, h1, h2, f2, f3, g1, g2, g3, .inr ⟨hk0, qi, qw, bd, qp, q', hbd, hb, h5⟩⟩

/-! ## 4. the op-level rules in the output model -/

/-- a tensor that holds a uniform parameter object carries the id of its `==`-class, and the table entry
    at that id has its values -/
theorem holds_values (tbl : List Param) (qp : QParams) (d : Option IArr) (tn : Tensor)
    (h : TypingE2E.HoldsParam tbl (.uniform qp d) tn) :
    ∃ pid qp0 d0, tn.quant = some pid ∧ tbl.findIdx? (fun x => x.eqv (.uniform qp d)) = some pid ∧
      tbl[pid]? = some (.uniform qp0 d0) ∧ SameValues qp0 qp := by
  obtain ⟨pid, ty, h1, -, -, h4⟩ := h
  obtain ⟨hlt, heqv, -⟩ := List.findIdx?_eq_some_iff_getElem.1 h1
  obtain ⟨qp0, d0, he, e1, e2, e3, e4, e5⟩ := eqv_vals _ qp d heqv
  exact ⟨pid, qp0, d0, h4 rfl, h1, by rw [List.getElem?_eq_getElem hlt, he], e1, e2, e3, e4, e5⟩

/-- the materialisation call behind the requests of an operator resolved to the min/max algorithm -/
theorem opReqs_minmax_fn (rx : String → String → Bool) (env : Env) (st : Recipe.State) (s : Nat) (sg : Subgraph)
    (op : Op) (k : Int) (nm : String) (cfg : OpCfg) (hr : TypingE2E.ResolvesMinMax rx env st sg op nm cfg)
    (qs0 qs1 : Qsvs) (rs : List CReq) (h : opReqs rx env st s sg qs0 (op, none, k) = .ok (rs, qs1)) :
    ∃ fn, Py.dictGet? minmaxOps nm = some fn ∧
      materializeOp env sg qs0 { sgIdx := s, op := op, opName := nm, opId := k, cfg := cfg } Tables.algMinMax fn
        = .ok (rs, qs1) := by
  obtain ⟨code, scope, hcode, hnm, hsc, hres⟩ := hr
  unfold opReqs keyOf at h
  simp only [hcode, pure, Except.pure, hnm, hsc, hres] at h
  have hne : (Tables.algMinMax == Tables.algNoQuantize) = false := by decide
  rw [hne] at h
  simp only [Bool.false_eq_true, if_false, registry_minmax] at h
  cases hf : Py.dictGet? minmaxOps nm with
  | none => rw [hf] at h; cases h
  | some fn =>
    rw [hf] at h
    exact ⟨fn, rfl, h⟩

/-- the five same-as-input functions are `standardOp` with the same-as-input constraint -/
theorem sameAsInput_dispatch (env : Env) (sg : Subgraph) (qs : Qsvs) (oi : OpInfo) (fn : String)
    (hfn : fn ∈ sameAsInputFns) :
    ∃ gIn, materializeOp env sg qs oi Tables.algMinMax fn = standardOp env sg qs oi .sameAsInput gIn [] := by
  simp only [sameAsInputFns, List.mem_cons, List.mem_nil_iff, or_false] at hfn
  rcases hfn with rfl | rfl | rfl | rfl | rfl
  · exact ⟨_, materializeOp_reshape ..⟩
  · exact ⟨_, materializeOp_transpose ..⟩
  · exact ⟨_, materializeOp_average_pool ..⟩
  · exact ⟨_, materializeOp_strided_slice ..⟩
  · exact ⟨_, materializeOp_split ..⟩

/-- slots of a well-formed operator hold valid tensor indices -/
theorem slot_nonneg (env : Env) (sg : Subgraph) (hsgOK : GraphStep.SgOK env.model sg) (k : Nat) (op : Op)
    (hop : sg.ops[k]? = some op) :
    (∀ a ∈ op.inputs, a ≠ -1 → 0 ≤ a) ∧
    (∀ b ∈ op.outputs, b ≠ -1 → 0 ≤ b ∧ isConst env.model sg b = false) := by
  have hO := hsgOK.ops k op hop
  refine ⟨?_, ?_⟩
  · intro a ha hne
    rcases hO.ins a ha with h | h
    · exact absurd h hne
    · exact h.1.1
  · intro b hb hne
    rcases hO.outs b hb with h | h
    · exact absurd h hne
    · exact ⟨h.1.1, h.2.2.1⟩

theorem constData_none_of (env : Env) (sg : Subgraph) (i : Nat) (tn : Tensor) (htn : sg.tensors[i]? = some tn)
    (h : isConst env.model sg (i : Int) = false) : constData env tn = none := by
  have := constData_isSome env sg i tn htn
  rw [h] at this
  cases hc : constData env tn with
  | none => rfl
  | some v => rw [hc] at this; cases this

/-- the static-range form of the request of a RUNTIME result that is handed a parameter object -/
theorem srq_result_req (oi : OpInfo) (name : String) (p : Param) (xfs : List Xf) (hsrq : isSRQ oi.cfg = true)
    (hx : tensorXfs oi.cfg false false = .ok xfs) :
    (⟨name, some ⟨oi.opId, xfs, some p⟩, none⟩ : CReq) = srqReq name oi.opId false false (some p) := by
  have hx' := mkReq_srq name oi false (some p) false hsrq
  unfold mkReq at hx'
  rw [hx] at hx'
  simp only [bind, Except.bind, pure, Except.pure, Bool.false_eq_true, if_false, Except.ok.injEq] at hx'
  exact hx'

/-- the static-range form of the request of a RUNTIME operand that is handed a parameter object -/
theorem srq_operand_req (oi : OpInfo) (name : String) (p : Param) (xfs : List Xf) (hsrq : isSRQ oi.cfg = true)
    (hx : tensorXfs oi.cfg true false = .ok xfs) :
    (⟨name, none, some [⟨oi.opId, xfs, some p⟩]⟩ : CReq) = srqReq name oi.opId true false (some p) := by
  have hx' := mkReq_srq name oi true (some p) false hsrq
  unfold mkReq at hx'
  rw [hx] at hx'
  simp only [bind, Except.bind, pure, Except.pure, if_true, Except.ok.injEq] at hx'
  exact hx'

/-- **C04.same_scale_ops_in_output** (RESHAPE, TRANSPOSE, AVERAGE_POOL_2D, STRIDED_SLICE, SPLIT).  For an
    original operator `op` (position `k`) that the recipe resolves to the min/max algorithm with a
    static-range config (per-tensor activations `a`) and whose registered function is a same-as-input one:
    for every float32 result `b` there is THE data operand `t` (float32, in a regular slot `ji`), and -- when
    `t` is a runtime tensor -- the tensor `z` that the output operator reads in slot `ji` (it stands for `t`)
    and the result tensor `b` carry THE SAME parameter id `pid` in the output, and `tbl[pid]` has the values
    of the reference parameters of the statistics IN FORCE of the OPERAND under the activation config. -/
theorem same_scale_ops_in_output (rx : String → String → Bool) (env : Env) (st : Recipe.State)
    (qsvs : Option Qsvs) (m' : Model) (tbl : List Param) (hnf : PipelineWF.NF env st)
    (h : quantizePure rx env st qsvs = .ok (m', tbl))
    (s : Nat) (sg sg' : Subgraph) (hsg : env.model.subgraphs[s]? = some sg) (hsg' : m'.subgraphs[s]? = some sg')
    (k : Nat) (op : Op) (hop : sg.ops[k]? = some op) (nm : String) (cfg : OpCfg)
    (hres : TypingE2E.ResolvesMinMax rx env st sg op nm cfg) (hsrq : isSRQ cfg = true) (a : TCfg)
    (ha : cfg.act = some a) (hg : a.gran ≠ Gran.channelwise) (fn : String)
    (hfn : Py.dictGet? minmaxOps nm = some fn) (hsai : fn ∈ sameAsInputFns) :
    ∃ o' qs0, o' ∈ sg'.ops ∧ o'.orig = some k ∧ StatsAt rx env st qsvs s sg k qs0 ∧
      ∀ (jo : Nat) (b : Int) (tno : Tensor), op.outputs[jo]? = some b → b ≠ -1 →
        sg.tensors[b.toNat]? = some tno → tno.dtype = Tables.ttFloat32 →
        ∃ (ji : Nat) (t : Int) (tni : Tensor), op.inputs[ji]? = some t ∧ t ≠ -1 ∧
          sg.tensors[t.toNat]? = some tni ∧ tni.dtype = Tables.ttFloat32 ∧
          (isConst env.model sg t = false →
            ∃ (z : Int) (tz tr : Tensor) (pid : PId) (qp0 : QParams) (d0 : Option IArr) (qp : QParams) (mn mx : FArr),
              o'.inputs[ji]? = some z ∧ Skeleton.root sg' z = t ∧ sg'.tensors[z.toNat]? = some tz ∧
              sg'.tensors[b.toNat]? = some tr ∧ tz.quant = some pid ∧ tr.quant = some pid ∧
              tbl[pid]? = some (.uniform qp0 d0) ∧ SameValues qp0 qp ∧
              Py.dictGet? qs0 tni.name = some (some (mn, mx)) ∧
              refParams a.bits.toNat a.symmetric none mn mx = .ok qp) := by
  obtain ⟨qs0, rs, qs1, o', hstat, hreq, m1, m2, -, -, -, -, -, F1, F2, -⟩ :=
    op_requests_in_output rx env st qsvs m' tbl hnf h s sg sg' hsg hsg' k op hop
  obtain ⟨fn', hfn', hmat⟩ := opReqs_minmax_fn rx env st s sg op k nm cfg hres qs0 qs1 rs hreq
  rw [hfn] at hfn'
  cases hfn'
  generalize hoi : ({ sgIdx := s, op := op, opName := nm, opId := (k : Int), cfg := cfg } : OpInfo) = oi at hmat
  have hoiop : oi.op = op := by rw [← hoi]
  have hoiid : oi.opId = (k : Int) := by rw [← hoi]
  have hoicfg : oi.cfg = cfg := by rw [← hoi]
  obtain ⟨gIn, hd⟩ := sameAsInput_dispatch env sg qs0 oi fn hsai
  rw [hd] at hmat
  obtain ⟨rin, rout, hrs, hlin, hlout, hall⟩ := same_as_input env sg qs0 oi gIn [] rs qs1 hmat
  have hsgOK : GraphStep.SgOK env.model sg :=
    ((GraphStep.modelOK_iff env.model).1 hnf.wf).2.1 sg (List.mem_of_getElem? hsg)
  obtain ⟨hinN, houtN⟩ := slot_nonneg env sg hsgOK k op hop
  refine ⟨o', qs0, m1, m2, hstat, ?_⟩
  intro jo b tno hjo hbne htno hf32
  obtain ⟨hb0, hbnc⟩ := houtN b (List.mem_of_getElem? hjo) hbne
  have hbcast : ((b.toNat : Nat) : Int) = b := Int.toNat_of_nonneg hb0
  have htb : tensorAt sg b = .ok tno := TypingE2E.tensorAt_of_get sg b tno hb0 htno
  have hmemo : ((b, jo) : Int × Nat) ∈ cslots oi.op.outputs := by
    rw [hoiop]; exact (mem_cslots _ _).2 ⟨hjo, hbne⟩
  obtain ⟨i, hi⟩ := List.mem_iff_getElem?.1 hmemo
  have hil : i < rout.length := by rw [hlout]; exact (List.getElem?_eq_some_iff.1 hi).1
  obtain ⟨j, t, pos, tni, ir, p0, hj, hrj, hta, hdtt, -, -, hw, hp0, -, hout⟩ :=
    hall i b jo tno rout[i] hi (List.getElem?_eq_getElem hil) htb hf32 (by simp)
  have hmemi := (mem_cslots _ _).1 (List.mem_of_getElem? hj)
  simp only at hmemi
  rw [hoiop] at hmemi
  obtain ⟨hslot, htne⟩ := hmemi
  have ht0 := hinN t (List.mem_of_getElem? hslot) htne
  have htcast : ((t.toNat : Nat) : Int) = t := Int.toNat_of_nonneg ht0
  have htni : sg.tensors[t.toNat]? = some tni := tensorAt_get sg t tni ht0 hta
  refine ⟨pos, t, tni, hslot, htne, htni, hdtt, ?_⟩
  intro hnc
  have hnct : constData env tni = none := constData_none_of env sg t.toNat tni htni (by rw [htcast]; exact hnc)
  have hnco : constData env tno = none := constData_none_of env sg b.toNat tno htno (by rw [hbcast]; exact hbnc)
  have hsrq' : isSRQ oi.cfg = true := by rw [hoicfg]; exact hsrq
  obtain ⟨mn, mx, qp, hs, hp, hir⟩ :=
    (act_params_reference env qs0 oi tni true a ir hnct hsrq' (by rw [hoicfg]; exact ha) hg).1 hw
  subst hir
  have hp0' : p0 = some (.uniform qp none) := by
    simp only [srqReq, if_true, reqParam0, Except.ok.injEq] at hp0
    exact hp0.symm
  subst hp0'
  have hrout : rout[i] = srqReq tno.name oi.opId false false (some (.uniform qp none)) := by
    rcases hout hnco with ⟨p, xfs, hsd, hx, hr'⟩ | ⟨hnone, -⟩
    · simp only [Pipe.stripData, Option.some.injEq] at hsd
      subst hsd
      rw [hr']
      exact srq_result_req oi tno.name _ xfs hsrq' hx
    · cases hnone
  -- the result tensor holds the parameter object
  have hrmem : rout[i] ∈ rs := by rw [hrs]; exact List.mem_append_right _ (List.getElem_mem hil)
  obtain ⟨tr, hr1, hr2⟩ := F1 b.toNat tno rout[i] ⟨oi.opId, [.addDequant], some (.uniform qp none)⟩
    (.uniform qp none) htno hrmem (by rw [hrout]; rfl) (by rw [hrout]; rfl) rfl rfl
  -- the operand slot holds the parameter object
  have hirmem : srqReq tni.name oi.opId true false (some (.uniform qp none)) ∈ rs := by
    rw [hrs]; exact List.mem_append_left _ (List.mem_of_getElem? hrj)
  obtain ⟨z, tz, z1, z2, z3, z4, -⟩ := F2 pos t.toNat tni _ ⟨oi.opId, [.addQuant], some (.uniform qp none)⟩
    (.uniform qp none) (by rw [htcast]; exact hslot) htni hirmem rfl rfl hoiid rfl rfl
  obtain ⟨pid, qp0, d0, v1, v2, v3, v4⟩ := holds_values tbl qp none tr hr2
  obtain ⟨pid', qp0', d0', w1, w2, -, -⟩ := holds_values tbl qp none tz z4
  rw [v2] at w2
  cases w2
  exact ⟨z, tz, tr, pid, qp0, d0, qp, mn, mx, z1, by rw [z2, htcast], z3, hr1, w1, v1, v3, v4, hs, hp⟩

/-- **same-scale operators with a CONSTANT data operand**: the constant (read directly) and the result carry
    parameter ids whose table entries have THE SAME VALUES -- the reference parameters of the constant's true
    min/max under the activation config -- but not the same id: the constant's parameter object carries its
    quantized values, the result's does not, and Python `==` (`Param.eqv`) compares them
    (`E2E.const_operand_ids_differ`). -/
theorem same_scale_const_operand_in_output (rx : String → String → Bool) (env : Env) (st : Recipe.State)
    (qsvs : Option Qsvs) (m' : Model) (tbl : List Param) (hnf : PipelineWF.NF env st)
    (h : quantizePure rx env st qsvs = .ok (m', tbl))
    (s : Nat) (sg sg' : Subgraph) (hsg : env.model.subgraphs[s]? = some sg) (hsg' : m'.subgraphs[s]? = some sg')
    (k : Nat) (op : Op) (hop : sg.ops[k]? = some op) (nm : String) (cfg : OpCfg)
    (hres : TypingE2E.ResolvesMinMax rx env st sg op nm cfg) (hsrq : isSRQ cfg = true) (a : TCfg)
    (ha : cfg.act = some a) (fn : String)
    (hfn : Py.dictGet? minmaxOps nm = some fn) (hsai : fn ∈ sameAsInputFns) :
    ∃ o', o' ∈ sg'.ops ∧ o'.orig = some k ∧
      ∀ (jo : Nat) (b : Int) (tno : Tensor), op.outputs[jo]? = some b → b ≠ -1 →
        sg.tensors[b.toNat]? = some tno → tno.dtype = Tables.ttFloat32 →
        ∃ (ji : Nat) (t : Int) (tni : Tensor), op.inputs[ji]? = some t ∧ t ≠ -1 ∧
          sg.tensors[t.toNat]? = some tni ∧ tni.dtype = Tables.ttFloat32 ∧
          (isConst env.model sg t = true →
            ∃ (tz tr : Tensor) (p1 p2 : PId) (qp1 qp2 : QParams) (d1 d2 : Option IArr) (qp : QParams)
                (dd : Arr Rat) (mn mx : FArr) (qdim : Option Nat),
              o'.inputs[ji]? = some t ∧ sg'.tensors[t.toNat]? = some tz ∧ sg'.tensors[b.toNat]? = some tr ∧
              tz.quant = some p1 ∧ tr.quant = some p2 ∧ tbl[p1]? = some (.uniform qp1 d1) ∧
              tbl[p2]? = some (.uniform qp2 d2) ∧ SameValues qp1 qp ∧ SameValues qp2 qp ∧
              constData env tni = some dd ∧
              initMinMax env { sgIdx := s, op := op, opName := nm, opId := (k : Int), cfg := cfg } tni dd = .ok (mn, mx) ∧
              refParams a.bits.toNat a.symmetric qdim mn mx = .ok qp) := by
  obtain ⟨qs0, rs, qs1, o', hstat, hreq, m1, m2, -, -, -, -, -, F1, -, F3⟩ :=
    op_requests_in_output rx env st qsvs m' tbl hnf h s sg sg' hsg hsg' k op hop
  obtain ⟨fn', hfn', hmat⟩ := opReqs_minmax_fn rx env st s sg op k nm cfg hres qs0 qs1 rs hreq
  rw [hfn] at hfn'
  cases hfn'
  have hnw : Tables.woOps.contains nm = false ∧ Tables.drqOps.contains nm = false := by
    have := TypingSrq.minmax_table4 _ (dictGet?_mem_key _ _ _ hfn)
    simp only at this
    apply this
    simp only [sameAsInputFns, List.mem_cons, List.mem_nil_iff, or_false] at hsai
    rcases hsai with h1 | h1 | h1 | h1 | h1 <;> simp [h1]
  generalize hoi : ({ sgIdx := s, op := op, opName := nm, opId := (k : Int), cfg := cfg } : OpInfo) = oi at hmat
  have hoiop : oi.op = op := by rw [← hoi]
  have hoiid : oi.opId = (k : Int) := by rw [← hoi]
  have hoicfg : oi.cfg = cfg := by rw [← hoi]
  have hoinm : oi.opName = nm := by rw [← hoi]
  obtain ⟨gIn, hd⟩ := sameAsInput_dispatch env sg qs0 oi fn hsai
  rw [hd] at hmat
  obtain ⟨rin, rout, hrs, hlin, hlout, hall⟩ := same_as_input env sg qs0 oi gIn [] rs qs1 hmat
  have hsgOK : GraphStep.SgOK env.model sg :=
    ((GraphStep.modelOK_iff env.model).1 hnf.wf).2.1 sg (List.mem_of_getElem? hsg)
  obtain ⟨hinN, houtN⟩ := slot_nonneg env sg hsgOK k op hop
  refine ⟨o', m1, m2, ?_⟩
  intro jo b tno hjo hbne htno hf32
  obtain ⟨hb0, hbnc⟩ := houtN b (List.mem_of_getElem? hjo) hbne
  have hbcast : ((b.toNat : Nat) : Int) = b := Int.toNat_of_nonneg hb0
  have htb : tensorAt sg b = .ok tno := TypingE2E.tensorAt_of_get sg b tno hb0 htno
  have hmemo : ((b, jo) : Int × Nat) ∈ cslots oi.op.outputs := by
    rw [hoiop]; exact (mem_cslots _ _).2 ⟨hjo, hbne⟩
  obtain ⟨i, hi⟩ := List.mem_iff_getElem?.1 hmemo
  have hil : i < rout.length := by rw [hlout]; exact (List.getElem?_eq_some_iff.1 hi).1
  obtain ⟨j, t, pos, tni, ir, p0, hj, hrj, hta, hdtt, -, -, hw, hp0, -, hout⟩ :=
    hall i b jo tno rout[i] hi (List.getElem?_eq_getElem hil) htb hf32 (by simp)
  have hmemi := (mem_cslots _ _).1 (List.mem_of_getElem? hj)
  simp only at hmemi
  rw [hoiop] at hmemi
  obtain ⟨hslot, htne⟩ := hmemi
  have ht0 := hinN t (List.mem_of_getElem? hslot) htne
  have htcast : ((t.toNat : Nat) : Int) = t := Int.toNat_of_nonneg ht0
  have htni : sg.tensors[t.toNat]? = some tni := tensorAt_get sg t tni ht0 hta
  refine ⟨pos, t, tni, hslot, htne, htni, hdtt, ?_⟩
  intro hc
  have hci := constData_isSome env sg t.toNat tni htni
  rw [htcast, hc] at hci
  obtain ⟨dd, hdd⟩ : ∃ dd, constData env tni = some dd := by
    cases hx : constData env tni with
    | none => rw [hx] at hci; cases hci
    | some v => exact ⟨v, rfl⟩
  have hnco : constData env tno = none := constData_none_of env sg b.toNat tno htno (by rw [hbcast]; exact hbnc)
  have hsrq' : isSRQ oi.cfg = true := by rw [hoicfg]; exact hsrq
  have htc : tcfgOf env oi tni = some a := by
    rw [TypingSrq.tcfgOf_noWo env oi tni (by rw [hoinm]; exact hnw), hoicfg]; exact ha
  obtain ⟨mn, mx, qdim, qp, q, e1, -, e3, -, -, e6⟩ :=
    (weight_params_reference env qs0 oi tni true a dd ir hdd htc).1 hw
  rw [mkReq_srq _ _ _ _ _ hsrq'] at e6
  cases e6
  have hp0' : p0 = some (.uniform qp (some q)) := by
    simp only [srqReq, if_true, reqParam0, Except.ok.injEq] at hp0
    exact hp0.symm
  subst hp0'
  have hrout : rout[i] = srqReq tno.name oi.opId false false (some (.uniform qp none)) := by
    rcases hout hnco with ⟨p, xfs, hsd, hx, hr'⟩ | ⟨hnone, -⟩
    · simp only [Pipe.stripData, Option.some.injEq] at hsd
      subst hsd
      rw [hr']
      exact srq_result_req oi tno.name _ xfs hsrq' hx
    · cases hnone
  have hrmem : rout[i] ∈ rs := by rw [hrs]; exact List.mem_append_right _ (List.getElem_mem hil)
  obtain ⟨tr, hr1, hr2⟩ := F1 b.toNat tno rout[i] ⟨oi.opId, [.addDequant], some (.uniform qp none)⟩
    (.uniform qp none) htno hrmem (by rw [hrout]; rfl) (by rw [hrout]; rfl) rfl rfl
  have hirmem : srqReq tni.name oi.opId true true (some (.uniform qp (some q))) ∈ rs := by
    rw [hrs]; exact List.mem_append_left _ (List.mem_of_getElem? hrj)
  obtain ⟨tz, pidz, z1, z2, z3, -, -⟩ := F3 pos t.toNat tni _ ⟨oi.opId, [.quantTensor], some (.uniform qp (some q))⟩
    (.uniform qp (some q)) (by rw [htcast]; exact hslot) htni hirmem rfl rfl hoiid rfl rfl
  rw [htcast] at z1
  obtain ⟨p2, qp2, d2, v1, -, v3, v4⟩ := holds_values tbl qp none tr hr2
  obtain ⟨p1, qp1, d1, w1, -, w3, w4⟩ := holds_values tbl qp (some q) tz z3
  exact ⟨tz, tr, p1, p2, qp1, qp2, d1, d2, qp, dd, mn, mx, qdim, z1, z2, hr1, w1, v1, w3, v3, w4, v4, hdd, e1, e3⟩

/-- **C04.concat_inputs_in_output** (CONCATENATION).  For an original operator resolved to the min/max
    algorithm with a static-range config (per-tensor activations `a`) whose registered function is
    `materialize_concatenation`: for every float32 RUNTIME operand `t` (slot `ji`) there is THE float32
    result `b`, and the tensor `z` that the output operator reads in slot `ji` and the result tensor `b` carry
    THE SAME parameter id, whose table entry has the values of the reference parameters of the statistics in
    force of the RESULT. -/
theorem concat_inputs_in_output (rx : String → String → Bool) (env : Env) (st : Recipe.State)
    (qsvs : Option Qsvs) (m' : Model) (tbl : List Param) (hnf : PipelineWF.NF env st)
    (h : quantizePure rx env st qsvs = .ok (m', tbl))
    (s : Nat) (sg sg' : Subgraph) (hsg : env.model.subgraphs[s]? = some sg) (hsg' : m'.subgraphs[s]? = some sg')
    (k : Nat) (op : Op) (hop : sg.ops[k]? = some op) (nm : String) (cfg : OpCfg)
    (hres : TypingE2E.ResolvesMinMax rx env st sg op nm cfg) (hsrq : isSRQ cfg = true) (a : TCfg)
    (ha : cfg.act = some a) (hg : a.gran ≠ Gran.channelwise)
    (hfn : Py.dictGet? minmaxOps nm = some "materialize_concatenation") :
    ∃ o' qs0, o' ∈ sg'.ops ∧ o'.orig = some k ∧ StatsAt rx env st qsvs s sg k qs0 ∧
      ∀ (ji : Nat) (t : Int) (tni : Tensor), op.inputs[ji]? = some t → t ≠ -1 →
        sg.tensors[t.toNat]? = some tni → tni.dtype = Tables.ttFloat32 → isConst env.model sg t = false →
        ∃ (jo : Nat) (b : Int) (tno : Tensor) (z : Int) (tz tr : Tensor) (pid : PId) (qp0 : QParams)
            (d0 : Option IArr) (qp : QParams) (mn mx : FArr),
          op.outputs[jo]? = some b ∧ b ≠ -1 ∧ sg.tensors[b.toNat]? = some tno ∧ tno.dtype = Tables.ttFloat32 ∧
          o'.inputs[ji]? = some z ∧ Skeleton.root sg' z = t ∧ sg'.tensors[z.toNat]? = some tz ∧
          sg'.tensors[b.toNat]? = some tr ∧ tz.quant = some pid ∧ tr.quant = some pid ∧
          tbl[pid]? = some (.uniform qp0 d0) ∧ SameValues qp0 qp ∧
          Py.dictGet? qs0 tno.name = some (some (mn, mx)) ∧
          refParams a.bits.toNat a.symmetric none mn mx = .ok qp := by
  obtain ⟨qs0, rs, qs1, o', hstat, hreq, m1, m2, -, -, -, -, -, F1, F2, -⟩ :=
    op_requests_in_output rx env st qsvs m' tbl hnf h s sg sg' hsg hsg' k op hop
  obtain ⟨fn', hfn', hmat⟩ := opReqs_minmax_fn rx env st s sg op k nm cfg hres qs0 qs1 rs hreq
  rw [hfn] at hfn'
  cases hfn'
  generalize hoi : ({ sgIdx := s, op := op, opName := nm, opId := (k : Int), cfg := cfg } : OpInfo) = oi at hmat
  have hoiop : oi.op = op := by rw [← hoi]
  have hoiid : oi.opId = (k : Int) := by rw [← hoi]
  have hoicfg : oi.cfg = cfg := by rw [← hoi]
  rw [materializeOp_concatenation] at hmat
  obtain ⟨rin, rout, hrs, hlin, hlout, hall⟩ := concat_same_as_output env sg qs0 oi [] [] rs qs1 hmat
  have hsgOK : GraphStep.SgOK env.model sg :=
    ((GraphStep.modelOK_iff env.model).1 hnf.wf).2.1 sg (List.mem_of_getElem? hsg)
  obtain ⟨hinN, houtN⟩ := slot_nonneg env sg hsgOK k op hop
  refine ⟨o', qs0, m1, m2, hstat, ?_⟩
  intro ji t tni hji htne htni hf32 hnc
  have ht0 := hinN t (List.mem_of_getElem? hji) htne
  have htcast : ((t.toNat : Nat) : Int) = t := Int.toNat_of_nonneg ht0
  have hta : tensorAt sg t = .ok tni := TypingE2E.tensorAt_of_get sg t tni ht0 htni
  have hmemi : ((t, ji) : Int × Nat) ∈ cslots oi.op.inputs := by
    rw [hoiop]; exact (mem_cslots _ _).2 ⟨hji, htne⟩
  obtain ⟨i, hi⟩ := List.mem_iff_getElem?.1 hmemi
  have hil : i < rin.length := by rw [hlin]; exact (List.getElem?_eq_some_iff.1 hi).1
  obtain ⟨j, b, posO, tno, orq, xfs, g, hj, hrj, htb, hdto, -, -, hw, horq, -, hout⟩ :=
    hall i t ji tni rin[i] hi (List.getElem?_eq_getElem hil) hta hf32 (by simp)
  have hmemo := (mem_cslots _ _).1 (List.mem_of_getElem? hj)
  simp only at hmemo
  rw [hoiop] at hmemo
  obtain ⟨hslot, hbne⟩ := hmemo
  obtain ⟨hb0, hbnc⟩ := houtN b (List.mem_of_getElem? hslot) hbne
  have hbcast : ((b.toNat : Nat) : Int) = b := Int.toNat_of_nonneg hb0
  have htno : sg.tensors[b.toNat]? = some tno := tensorAt_get sg b tno hb0 htb
  have hnct : constData env tni = none := constData_none_of env sg t.toNat tni htni (by rw [htcast]; exact hnc)
  have hnco : constData env tno = none := constData_none_of env sg b.toNat tno htno (by rw [hbcast]; exact hbnc)
  have hsrq' : isSRQ oi.cfg = true := by rw [hoicfg]; exact hsrq
  obtain ⟨mn, mx, qp, hs, hp, horq'⟩ :=
    (act_params_reference env qs0 oi tno false a orq hnco hsrq' (by rw [hoicfg]; exact ha) hg).1 hw
  have hgp : g = some (.uniform qp none) := by
    rw [horq'] at horq
    simp only [srqReq, Bool.false_eq_true, if_false, CReq.mk.injEq, Option.some.injEq, CO2T.mk.injEq] at horq
    exact horq.2.1.2.2.symm
  subst hgp
  have hrin : rin[i] = srqReq tni.name oi.opId true false (some (.uniform qp none)) := by
    rcases hout hnct with ⟨p, xfs', hsd, hx, hr'⟩ | ⟨hnone, -⟩
    · cases hsd
      rw [hr']
      exact srq_operand_req oi tni.name _ xfs' hsrq' hx
    · cases hnone
  have hrmem : orq ∈ rs := by rw [hrs]; exact List.mem_append_right _ (List.mem_of_getElem? hrj)
  obtain ⟨tr, hr1, hr2⟩ := F1 b.toNat tno orq ⟨oi.opId, [.addDequant], some (.uniform qp none)⟩
    (.uniform qp none) htno hrmem (by rw [horq']; rfl) (by rw [horq']; rfl) rfl rfl
  have hirmem : rin[i] ∈ rs := by rw [hrs]; exact List.mem_append_left _ (List.getElem_mem hil)
  obtain ⟨z, tz, z1, z2, z3, z4, -⟩ := F2 ji t.toNat tni rin[i] ⟨oi.opId, [.addQuant], some (.uniform qp none)⟩
    (.uniform qp none) (by rw [htcast]; exact hji) htni hirmem (by rw [hrin]; rfl) (by rw [hrin]; rfl) hoiid rfl rfl
  obtain ⟨pid, qp0, d0, v1, v2, v3, v4⟩ := holds_values tbl qp none tr hr2
  obtain ⟨pid', qp0', d0', w1, w2, -, -⟩ := holds_values tbl qp none tz z4
  rw [v2] at w2
  cases w2
  exact ⟨posO, b, tno, z, tz, tr, pid, qp0, d0, qp, mn, mx, hslot, hbne, htno, hdto, z1, by rw [z2, htcast], z3,
    hr1, w1, v1, v3, v4, hs, hp⟩

/-- the two fixed-range functions are `fixedRangeOp` -/
theorem fixedRange_dispatch (env : Env) (sg : Subgraph) (qs : Qsvs) (oi : OpInfo) (fn : String)
    (hfn : fn ∈ fixedRangeFns) :
    materializeOp env sg qs oi Tables.algMinMax fn =
      fixedRangeOp env sg qs oi (fn == "materialize_softmax_and_logistic") := by
  simp only [fixedRangeFns, List.mem_cons, List.mem_nil_iff, or_false] at hfn
  rcases hfn with rfl | rfl
  · exact materializeOp_softmax_logistic ..
  · exact materializeOp_tanh ..

/-- **C04.fixed_range_in_output** (SOFTMAX, LOGISTIC, TANH).  For an original operator resolved to the
    min/max algorithm with a static-range config (activations `a`) whose registered function is a fixed-range
    one: its float32 result carries, in the output, a parameter id whose table entry has the values of the
    range fixed by the runtime kernel (`fixedParams`: scale 1/256, zero point -128 resp. 1/128, 0 for 8
    bits; 1/32768, 0 for 16 bits) -- not calibrated parameters. -/
theorem fixed_range_in_output (rx : String → String → Bool) (env : Env) (st : Recipe.State)
    (qsvs : Option Qsvs) (m' : Model) (tbl : List Param) (hnf : PipelineWF.NF env st)
    (h : quantizePure rx env st qsvs = .ok (m', tbl))
    (s : Nat) (sg sg' : Subgraph) (hsg : env.model.subgraphs[s]? = some sg) (hsg' : m'.subgraphs[s]? = some sg')
    (k : Nat) (op : Op) (hop : sg.ops[k]? = some op) (nm : String) (cfg : OpCfg)
    (hres : TypingE2E.ResolvesMinMax rx env st sg op nm cfg) (hsrq : isSRQ cfg = true) (a : TCfg)
    (ha : cfg.act = some a) (fn : String)
    (hfn : Py.dictGet? minmaxOps nm = some fn) (hfix : fn ∈ fixedRangeFns)
    (jo : Nat) (b : Int) (tno : Tensor) (hjo : op.outputs[jo]? = some b) (hbne : b ≠ -1)
    (htno : sg.tensors[b.toNat]? = some tno) (hf32 : tno.dtype = Tables.ttFloat32) :
    ∃ (tr : Tensor) (pid : PId) (qp0 fp : QParams) (d0 : Option IArr), sg'.tensors[b.toNat]? = some tr ∧
      tr.quant = some pid ∧ tbl[pid]? = some (.uniform qp0 d0) ∧ SameValues qp0 fp ∧
      fixedParams (fn == "materialize_softmax_and_logistic") a.bits.toNat = some fp := by
  obtain ⟨qs0, rs, qs1, o', hstat, hreq, m1, m2, -, -, -, -, -, F1, -, -⟩ :=
    op_requests_in_output rx env st qsvs m' tbl hnf h s sg sg' hsg hsg' k op hop
  obtain ⟨fn', hfn', hmat⟩ := opReqs_minmax_fn rx env st s sg op k nm cfg hres qs0 qs1 rs hreq
  rw [hfn] at hfn'
  cases hfn'
  generalize hoi : ({ sgIdx := s, op := op, opName := nm, opId := (k : Int), cfg := cfg } : OpInfo) = oi at hmat
  have hoiop : oi.op = op := by rw [← hoi]
  have hoicfg : oi.cfg = cfg := by rw [← hoi]
  have hsrq' : isSRQ oi.cfg = true := by rw [hoicfg]; exact hsrq
  rw [fixedRange_dispatch env sg qs0 oi fn hfix] at hmat
  obtain ⟨hlen, reqs, qsx, hstd, hcase⟩ := fixedRangeOp_spec env sg qs0 oi _ rs qs1 hmat
  obtain ⟨rin, rout, hreqs, -, hout⟩ :=
    TypingSrq.standardOp_srq env sg qs0 oi .none [] [] reqs qsx hsrq' (fun hc => absurd rfl hc) hstd
  have hsgOK : GraphStep.SgOK env.model sg :=
    ((GraphStep.modelOK_iff env.model).1 hnf.wf).2.1 sg (List.mem_of_getElem? hsg)
  obtain ⟨-, houtN⟩ := slot_nonneg env sg hsgOK k op hop
  obtain ⟨hb0, -⟩ := houtN b (List.mem_of_getElem? hjo) hbne
  have htb : tensorAt sg b = .ok tno := TypingE2E.tensorAt_of_get sg b tno hb0 htno
  -- the operator has exactly the result `b`
  rw [hoiop] at hlen
  have hops : op.outputs = [b] := by
    rcases hoo : op.outputs with _ | ⟨x, _ | ⟨y, l⟩⟩
    · rw [hoo] at hlen; cases hlen
    · rw [hoo] at hjo
      rcases jo with _ | jo
      · simp only [List.getElem?_cons_zero, Option.some.injEq] at hjo
        rw [hjo]
      · simp at hjo
    · rw [hoo] at hlen; simp at hlen
  have hcs : cslots oi.op.outputs = [(b, 0)] := by
    rw [hoiop, hops]
    unfold cslots
    simp [hbne]
  rw [hcs] at hout
  obtain ⟨r, hrout⟩ : ∃ r, rout = [r] := by
    have := hout.1
    rcases rout with _ | ⟨r, _ | ⟨r2, l⟩⟩
    · simp at this
    · exact ⟨r, rfl⟩
    · simp at this
  subst hrout
  obtain ⟨tn, htn, hslot⟩ := hout.2 0 (b, 0) r rfl rfl
  simp only at htn hslot
  rw [htb] at htn
  cases htn
  have hr : ∃ prm, r = srqReq tno.name oi.opId false (constData env tno).isSome prm := by
    rcases hslot with ⟨hbad, -⟩ | ⟨-, -, hprm, -⟩
    · rcases hbad with hbad | hbad
      · exact absurd hf32 hbad
      · cases hbad
    · exact hprm
  obtain ⟨prm, rfl⟩ := hr
  have hlast : reqs.getLast? = some (srqReq tno.name oi.opId false (constData env tno).isSome prm) := by
    rw [hreqs, List.getLast?_append, List.getLast?_singleton]
    rfl
  rcases hcase with ⟨-, -, hno⟩ | ⟨last, a', pr, fp, mm, hl, ha', hpr, hfp, -, hrs, -⟩
  · exfalso
    rcases hno with h1 | h1 | ⟨l, h1, h2⟩
    · rw [hlast] at h1; cases h1
    · rw [hoicfg, ha] at h1; cases h1
    · rw [hlast] at h1
      cases h1
      cases h2
  · rw [hlast] at hl
    cases hl
    rw [hoicfg, ha] at ha'
    cases ha'
    have hmem : ({ srqReq tno.name oi.opId false (constData env tno).isSome prm with
        producer := some { pr with param := some (.uniform fp none) } } : CReq) ∈ rs := by
      rw [hrs]; exact List.mem_append_right _ List.mem_cons_self
    have hprx : pr.xfs = [.addDequant] := by
      have : (srqReq tno.name oi.opId false (constData env tno).isSome prm).producer =
          some ⟨oi.opId, [.addDequant], prm⟩ := rfl
      rw [this] at hpr
      cases hpr
      rfl
    obtain ⟨tr, hr1, hr2⟩ := F1 b.toNat tno _ { pr with param := some (.uniform fp none) } (.uniform fp none)
      htno hmem rfl rfl hprx rfl
    obtain ⟨pid, qp0, d0, v1, -, v3, v4⟩ := holds_values tbl fp none tr hr2
    exact ⟨tr, pid, qp0, fp, d0, hr1, v1, v3, v4, hfp⟩

/-- **the three requests behind a bias under a static-range config**: the requests of the data operand and of
    the weight (with uniform parameters `qi`, `qw`) and the bias request, whose parameters and values are
    `symmetric_quantize_bias_tensor(bias data, qi, qw)` -/
theorem srq_bias_requests (env : Env) (sg : Subgraph) (qs : Qsvs) (oi : OpInfo) (fn : String)
    (rs : List CReq) (qs' : Qsvs) (hfn : (oi.opName, fn) ∈ minmaxOps) (hs : isSRQ oi.cfg = true)
    (hmand : ∀ b, PipeNF.biasSlot oi.opName = some b → ∀ i < b, oi.op.inputs[i]? ≠ some (-1))
    (h : materializeOp env sg qs oi Tables.algMinMax fn = .ok (rs, qs'))
    (iB : Nat) (hbs : PipeNF.biasSlot oi.opName = some iB) (hnemb : oi.opName ≠ "EMBEDDING_LOOKUP")
    (bslot : Int) (hb : oi.op.inputs[iB]? = some bslot) (hne : bslot ≠ -1) :
    ∃ bt bd aIn tin aW tw qi di qw dw qp q, tensorAt sg bslot = .ok bt ∧ constData env bt = some bd ∧
      oi.op.inputs[PipeNF.dataSlot oi.opName]? = some aIn ∧ aIn ≠ -1 ∧ tensorAt sg aIn = .ok tin ∧
      oi.op.inputs[1]? = some aW ∧ aW ≠ -1 ∧ tensorAt sg aW = .ok tw ∧
      srqReq tin.name oi.opId true (constData env tin).isSome (some (.uniform qi di)) ∈ rs ∧
      srqReq tw.name oi.opId true (constData env tw).isSome (some (.uniform qw dw)) ∈ rs ∧
      srqReq bt.name oi.opId true true (some (.uniform qp (some q))) ∈ rs ∧
      quantizeBias ⟨bd, .f32⟩ qi qw = .ok (qp, q) := by
  obtain ⟨con, gIn, rs0, q0, hstd, -, hcon, hpost⟩ :=
    TypingSrq.materializeOp_minmax_cases env sg qs oi fn rs qs' hfn h
  obtain ⟨rin, rout, hrs0, hin, -⟩ := TypingSrq.standardOp_srq env sg qs oi con gIn [] rs0 q0 hs hcon hstd
  have hconv := TypingSrq.minmax_table7 _ hfn iB hbs hnemb
  simp only at hconv
  rcases hpost with ⟨-, hnc⟩ | ⟨iIn, iB', hbs', -, hds, -, hlt, hbf, -⟩ | ⟨b, -, -, hnc⟩
  · exfalso
    rcases hconv with c | c
    · exact hnc.1 c
    · exact hnc.2 c
  · rw [hbs] at hbs'
    cases hbs'
    obtain ⟨bt, bd, rq, rw', qi, di, qw, dw, qp, q, e1, e2, e3, e4, e5, e6, e7, e8, e9⟩ :=
      biasFor_srq env sg oi rs0 rs iIn 1 iB bslot hs hb hne hbf
    have hpre := hmand iB hbs
    have h1lt : 1 < iB := ParamsSrc.biasSlot_gt_one _ _ hbs
    have hBlen : iB < oi.op.inputs.length := (List.getElem?_eq_some_iff.1 hb).1
    have hslot : ∀ n, n < iB → ∀ r qp' dat, rs0[n]? = some r → reqParam0 r = .ok (some (.uniform qp' dat)) →
        ∃ a t, oi.op.inputs[n]? = some a ∧ a ≠ -1 ∧ tensorAt sg a = .ok t ∧
          r = srqReq t.name oi.opId true (constData env t).isSome (some (.uniform qp' dat)) ∧ r ∈ rs := by
      intro n hn r qp' dat hr hq
      have hlen : n < oi.op.inputs.length := by omega
      have hne' : oi.op.inputs[n] ≠ -1 := by
        intro e
        exact hpre n hn (by rw [List.getElem?_eq_getElem hlen, e])
      have hci := cslots_get oi.op.inputs n oi.op.inputs[n] (fun i hi => hpre i (by omega))
        (List.getElem?_eq_getElem hlen) hne'
      have hlin : n < rin.length := by rw [← hin.1]; exact (List.getElem?_eq_some_iff.1 hci).1
      have hr' := hr
      rw [hrs0, List.getElem?_append_left hlin] at hr'
      obtain ⟨t, ht, hcase⟩ := hin.2 n _ _ hci hr'
      simp only at ht hcase
      refine ⟨_, t, List.getElem?_eq_getElem hlen, hne', ht, ?_, ?_⟩
      · rcases hcase with ⟨-, hbad⟩ | ⟨-, -, ⟨prm, hprm⟩, -⟩
        · rw [hbad] at hq
          cases hq
        · rw [hprm] at hq ⊢
          have : reqParam0 (srqReq t.name oi.opId true (constData env t).isSome prm) = .ok prm := rfl
          rw [this] at hq
          cases hq
          rfl
      · rw [e9]
        have hne2 : iB ≠ n := by omega
        exact List.mem_of_getElem? (by rw [List.getElem?_set_ne hne2]; exact hr)
    obtain ⟨aIn, tin, i1, i2, i3, i4, i5⟩ := hslot iIn hlt rq qi di e3 e5
    obtain ⟨aW, tw, w1, w2, w3, w4, w5⟩ := hslot 1 h1lt rw' qw dw e4 e6
    refine ⟨bt, bd, aIn, tin, aW, tw, qi, di, qw, dw, qp, q, e1, e2, by rw [← hds]; exact i1, i2, i3, w1, w2, w3,
      by rw [← i4]; exact i5, by rw [← w4]; exact w5, ?_, e7⟩
    rw [e9]
    exact List.mem_of_getElem? (List.getElem?_set_self e8)
  · exfalso
    rcases hconv with c | c
    · exact hnc.1 c
    · exact hnc.2 c

/-- **C04.bias_in_output.**  For an original convolution-like operator (FULLY_CONNECTED, CONV_2D,
    DEPTHWISE_CONV_2D, CONV_2D_TRANSPOSE) resolved to the min/max algorithm with a static-range config, with
    a bias in slot `iB`: in the output, the operator reads the bias constant directly; the tensor `zi` it
    reads in the data slot, the tensor `zw` it reads in the weight slot and the bias carry parameter ids
    whose table entries have the values of parameter objects `qi`, `qw`, `qb` with
    `symmetric_quantize_bias_tensor(bias data, qi, qw) = (qb, _)`: the bias parameters are those of the data
    operand and the weight AS THEY APPEAR IN THE OUTPUT. -/
theorem bias_in_output (rx : String → String → Bool) (env : Env) (st : Recipe.State)
    (qsvs : Option Qsvs) (m' : Model) (tbl : List Param) (hnf : PipelineWF.NF env st)
    (h : quantizePure rx env st qsvs = .ok (m', tbl))
    (s : Nat) (sg sg' : Subgraph) (hsg : env.model.subgraphs[s]? = some sg) (hsg' : m'.subgraphs[s]? = some sg')
    (k : Nat) (op : Op) (hop : sg.ops[k]? = some op) (nm : String) (cfg : OpCfg)
    (hres : TypingE2E.ResolvesMinMax rx env st sg op nm cfg) (hsrq : isSRQ cfg = true)
    (iB : Nat) (hbs : PipeNF.biasSlot nm = some iB) (hnemb : nm ≠ "EMBEDDING_LOOKUP")
    (bslot : Int) (hb : op.inputs[iB]? = some bslot) (hne : bslot ≠ -1) :
    ∃ (o' : Op) (aIn aW zi zw : Int) (tzi tzw tzb bt : Tensor) (pi pw pb : PId)
        (qi0 qw0 qb0 qi qw qb : QParams) (di0 dw0 db0 : Option IArr) (bd : Arr Rat) (q : IArr),
      o' ∈ sg'.ops ∧ o'.orig = some k ∧
      op.inputs[PipeNF.dataSlot nm]? = some aIn ∧ op.inputs[1]? = some aW ∧
      o'.inputs[PipeNF.dataSlot nm]? = some zi ∧ Skeleton.root sg' zi = aIn ∧ sg'.tensors[zi.toNat]? = some tzi ∧
      tzi.quant = some pi ∧ tbl[pi]? = some (.uniform qi0 di0) ∧ SameValues qi0 qi ∧
      o'.inputs[1]? = some zw ∧ Skeleton.root sg' zw = aW ∧ sg'.tensors[zw.toNat]? = some tzw ∧
      tzw.quant = some pw ∧ tbl[pw]? = some (.uniform qw0 dw0) ∧ SameValues qw0 qw ∧
      o'.inputs[iB]? = some bslot ∧ sg'.tensors[bslot.toNat]? = some tzb ∧
      tzb.quant = some pb ∧ tbl[pb]? = some (.uniform qb0 db0) ∧ SameValues qb0 qb ∧
      sg.tensors[bslot.toNat]? = some bt ∧ constData env bt = some bd ∧
      quantizeBias ⟨bd, .f32⟩ qi qw = .ok (qb, q) := by
  obtain ⟨qs0, rs, qs1, o', hstat, hreq, m1, m2, -, -, -, -, m7, -, F2, F3⟩ :=
    op_requests_in_output rx env st qsvs m' tbl hnf h s sg sg' hsg hsg' k op hop
  obtain ⟨fn, hfn, hmat⟩ := opReqs_minmax_fn rx env st s sg op k nm cfg hres qs0 qs1 rs hreq
  have hnamed : PipeNF.OpNamed env.model op nm := by
    obtain ⟨code, scope, h1, h2, -⟩ := hres
    exact ⟨code, h1, h2⟩
  have hmand := hnf.mandatory sg (List.mem_of_getElem? hsg) op (List.mem_of_getElem? hop) nm hnamed
  obtain ⟨bt, bd, aIn, tin, aW, tw, qi, di, qw, dw, qb, q, b1, b2, b3, b4, b5, b6, b7, b8, b9, b10, b11, b12⟩ :=
    srq_bias_requests env sg qs0 { sgIdx := s, op := op, opName := nm, opId := (k : Int), cfg := cfg } fn rs qs1
      (dictGet?_mem_key _ _ _ hfn) hsrq (fun b hb' => (hmand b hb').1) hmat iB hbs hnemb bslot hb hne
  simp only at b3 b6 b9 b10 b11
  have hsgOK : GraphStep.SgOK env.model sg :=
    ((GraphStep.modelOK_iff env.model).1 hnf.wf).2.1 sg (List.mem_of_getElem? hsg)
  obtain ⟨hinN, -⟩ := slot_nonneg env sg hsgOK k op hop
  -- an operand request, as it appears in the output
  have operand : ∀ (j : Nat) (t : Int) (tn : Tensor) (qp : QParams) (d : Option IArr), op.inputs[j]? = some t →
      t ≠ -1 → tensorAt sg t = .ok tn →
      srqReq tn.name (k : Int) true (constData env tn).isSome (some (.uniform qp d)) ∈ rs →
      ∃ z tz, o'.inputs[j]? = some z ∧ Skeleton.root sg' z = t ∧ sg'.tensors[z.toNat]? = some tz ∧
        TypingE2E.HoldsParam tbl (.uniform qp d) tz := by
    intro j t tn qp d hj htne hta hmem
    have ht0 := hinN t (List.mem_of_getElem? hj) htne
    have htcast : ((t.toNat : Nat) : Int) = t := Int.toNat_of_nonneg ht0
    have htn : sg.tensors[t.toNat]? = some tn := tensorAt_get sg t tn ht0 hta
    cases hc : (constData env tn).isSome with
    | false =>
      rw [hc] at hmem
      obtain ⟨z, tz, z1, z2, z3, z4, -⟩ := F2 j t.toNat tn _ ⟨(k : Int), [.addQuant], some (.uniform qp d)⟩
        (.uniform qp d) (by rw [htcast]; exact hj) htn hmem rfl rfl rfl rfl rfl
      exact ⟨z, tz, z1, by rw [z2, htcast], z3, z4⟩
    | true =>
      rw [hc] at hmem
      obtain ⟨tz, pid, z1, z2, z3, -, -⟩ := F3 j t.toNat tn _ ⟨(k : Int), [.quantTensor], some (.uniform qp d)⟩
        (.uniform qp d) (by rw [htcast]; exact hj) htn hmem rfl rfl rfl rfl rfl
      rw [htcast] at z1
      have hroot : Skeleton.root sg' t = t := by
        have := congrArg (·[j]?) m7
        simp only [List.getElem?_map, z1, hj, Option.map_some, Option.some.injEq] at this
        exact this
      exact ⟨t, tz, z1, hroot, z2, z3⟩
  obtain ⟨zi, tzi, i1, i2, i3, i4⟩ := operand _ aIn tin qi di b3 b4 b5 b9
  obtain ⟨zw, tzw, w1, w2, w3, w4⟩ := operand 1 aW tw qw dw b6 b7 b8 b10
  -- the bias
  have hb0 := hinN bslot (List.mem_of_getElem? hb) hne
  have hbcast : ((bslot.toNat : Nat) : Int) = bslot := Int.toNat_of_nonneg hb0
  have hbt : sg.tensors[bslot.toNat]? = some bt := tensorAt_get sg bslot bt hb0 b1
  obtain ⟨tzb, pidb, c1, c2, c3, -, -⟩ := F3 iB bslot.toNat bt _
    ⟨(k : Int), [.quantTensor], some (.uniform qb (some q))⟩ (.uniform qb (some q))
    (by rw [hbcast]; exact hb) hbt b11 rfl rfl rfl rfl rfl
  rw [hbcast] at c1
  obtain ⟨pi, qi0, di0, u1, -, u3, u4⟩ := holds_values tbl qi di tzi i4
  obtain ⟨pw, qw0, dw0, v1, -, v3, v4⟩ := holds_values tbl qw dw tzw w4
  obtain ⟨pb, qb0, db0, x1, -, x3, x4⟩ := holds_values tbl qb (some q) tzb c3
  exact ⟨o', aIn, aW, zi, zw, tzi, tzw, tzb, bt, pi, pw, pb, qi0, qw0, qb0, qi, qw, qb, di0, dw0, db0, bd, q,
    m1, m2, b3, b6, i1, i2, i3, u1, u3, u4, w1, w2, w3, v1, v3, v4, c1, c2, x1, x3, x4, hbt, b2, b12⟩

/-- the bias rule on the VALUES in the table: symmetric, zero points 0, 32 bits (64 for 16-bit activations),
    scale array = squeezed element-wise float product of the data operand's and the weight's scale arrays -/
theorem bias_values (qi0 qw0 qb0 qi qw qb : QParams) (bias : FArr) (q : IArr)
    (hi : SameValues qi0 qi) (hw : SameValues qw0 qw) (hb : SameValues qb0 qb)
    (h : quantizeBias bias qi qw = .ok (qb, q)) :
    qb0.symmetric = true ∧ qb0.bits = (if qi0.bits = 16 then 64 else 32) ∧ (∀ z ∈ qb0.zp.arr.data, z = 0) ∧
      ∃ prod, zipB (fun a b => (qi.scale.pr.join qw.scale.pr).chk (a * b)) qi0.scale.arr qw0.scale.arr = .ok prod ∧
        qb0.scale.arr = squeeze1 prod := by
  obtain ⟨b1, b2, -, b4, prod, b5, b6⟩ := bias_params _ _ _ _ _ h
  obtain ⟨i1, -, i3, -, -⟩ := hi
  obtain ⟨-, -, w3, -, -⟩ := hw
  obtain ⟨x1, -, x3, x4, x5⟩ := hb
  refine ⟨by rw [x5]; exact b1, by rw [x1, i1]; exact b2, by rw [x4]; exact b4, prod, by rw [i3, w3]; exact b5, ?_⟩
  rw [x3, b6]

/-! ## NON-VACUITY: closed instances, the whole `quantizePure` evaluated by the kernel -/
namespace E2E

/-- a successful run with the given output, from a kernel evaluation -/
theorem run_of_check (rx : String → String → Bool) (env : Env) (st : Recipe.State) (qsvs : Option Qsvs)
    (m' : Model) (tbl : List Param)
    (h : (match quantizePure rx env st qsvs with
          | .ok r => decide (r.1 = m') && decide (r.2 = tbl)
          | .error _ => false) = true) : quantizePure rx env st qsvs = .ok (m', tbl) := by
  cases hq : quantizePure rx env st qsvs with
  | error e => rw [hq] at h; cases h
  | ok r =>
    rw [hq] at h
    simp only [Bool.and_eq_true, decide_eq_true_eq] at h
    obtain ⟨r1, r2⟩ := r
    simp only at h
    rw [h.1, h.2]

def u8 (sh : List Nat) (sc : List Rat) (zp : List Int) (sym : Bool) (qd : Option Nat) : QParams :=
  { bits := 8, qdim := qd, scale := ⟨⟨sh, sc⟩, .f32⟩, zp := ⟨⟨sh, zp⟩, 8⟩, symmetric := sym }

theorem statsOK_of (qs : Qsvs) (h : qs.all (fun e => match e.2 with
    | some (mn, mx) => ordB mn mx && decide (mn.pr.join mx.pr ≠ .f16)
    | none => true) = true) : StatsOK (some qs) := by
  intro n mn mx hget
  have hm := dictGet?_mem_key _ _ _ hget
  rw [List.all_eq_true] at h
  have := h _ hm
  simp only [Bool.and_eq_true, decide_eq_true_eq] at this
  exact ⟨ordB_sound _ _ this.1, this.2⟩

namespace Tanh
open C08.Inst

/-! ### `y := FULLY_CONNECTED(x, w)`, `z := TANH(y)` under the shipped int8 recipe (`C08.Inst`) -/

def qpX : QParams := u8 [1, 1] [8421505 / 1073741824] [-1] false none
def qpW : QParams := u8 [2, 1] [2113665 / 134217728, 2113665 / 67108864] [0, 0] true (some 0)
def qpY : QParams := u8 [1, 1] [8421505 / 536870912] [-1] false none
def qpZ : QParams :=
  { bits := 8, qdim := none, scale := ⟨⟨[], [1 / 128]⟩, .f64⟩, zp := ⟨⟨[], [0]⟩, 64⟩, symmetric := false }

def tblT : List Param :=
  [.uniform qpX none, .uniform qpW (some ⟨⟨[2, 2], [64, 127, 95, 127]⟩, 8⟩), .uniform qpY none, .uniform qpZ none]

def sgT' : Subgraph :=
  { tensors := [{ T "x" [1, 2] 0 with dtype := 9, quant := some 0 }, { T "w" [2, 2] 1 with dtype := 9, quant := some 1 },
                { T "y" [1, 2] 0 with dtype := 9, quant := some 2 }, { T "z" [1, 2] 0 with dtype := 9, quant := some 3 }],
    ops := [opFC, opTanh], inputs := [0], outputs := [3] }
def mT' : Model := { subgraphs := [sgT'], buffers := [none, some (.inr 1)], opcodes := [9, 28], sigs := [] }

theorem runT : quantizePure rxAll env st (some qs) = .ok (mT', tblT) :=
  run_of_check _ _ _ _ _ _ (by decide +kernel)

theorem recipeOK : RecipeOK st := by
  intro e he r hr
  have : e = (".*", [⟨".*", "*", Tables.algMinMax, cfgA8W8⟩]) := by simpa [st] using he
  subst this
  have : r = ⟨".*", "*", Tables.algMinMax, cfgA8W8⟩ := by simpa using hr
  subst this
  refine ⟨?_, ?_⟩
  · intro tc htc
    have : tc = { bits := 8, symmetric := false } := by simp [cfgA8W8] at htc; exact htc.symm
    subst this
    decide
  · intro tc htc
    have : tc = { bits := 8, symmetric := true, gran := .channelwise } := by simp [cfgA8W8] at htc; exact htc.symm
    subst this
    decide

theorem statsOK : StatsOK (some qs) := statsOK_of qs (by decide +kernel)

/-- `quantized_tensor_params` applies to the result `z` of TANH … -/
theorem z_params :
    ∃ (sg0 : Subgraph) (i : Nat) (tn : Tensor) (o : Int) (qp0 qp : QParams) (d0 d : Option IArr),
      env.model.subgraphs[0]? = some sg0 ∧ sg0.tensors[i]? = some tn ∧ Skeleton.root sgT' ((3 : Nat) : Int) = (i : Int) ∧
      tblT[3]? = some (.uniform qp0 d0) ∧ SameValues qp0 qp ∧
      ParamAt rxAll env st (some qs) 0 sg0 tn o (.uniform qp d) ∧
      ((3 = i ∧ isConst env.model sg0 (i : Int) = false ∧ ProducedAt sg0 i o) ∨
       (3 = i ∧ isConst env.model sg0 (i : Int) = true ∧ ConsumedAt sg0 i o) ∨
       (sg0.tensors.length ≤ 3 ∧ isConst env.model sg0 (i : Int) = false ∧ ConsumedAt sg0 i o ∧
         ∃ ci, ({ code := ci, inputs := [(i : Int)], outputs := [((3 : Nat) : Int)], orig := none } : Op) ∈ sgT'.ops ∧
           mT'.opcodes[ci]? = some Tables.opQuantize)) :=
  quantized_tensor_params rxAll env st (some qs) mT' tblT nf runT 0 sgT' rfl 3 _ rfl 3 rfl

/-- … and the table entry it speaks about is the fixed range of TANH, not the calibrated `[-1, 1]` -/
example : tblT[3]? = some (.uniform qpZ none) ∧ fixedParams false 8 = some qpZ := ⟨rfl, rfl⟩

/-- `output_params_wellformed` applies to every tensor of the output (here: the weight `w`) -/
theorem w_wellformed :
    ∃ (qp0 qp : QParams) (d0 : Option IArr), tblT[1]? = some (.uniform qp0 d0) ∧ SameValues qp0 qp ∧
      (WellFormed qp.bits qp.symmetric qp ∨ IsBias qp) :=
  output_params_wellformed rxAll env st (some qs) mT' tblT nf runT recipeOK statsOK 0 sgT' rfl 1 _ rfl 1 rfl

/-- `per_channel_only_weights_in_output` applies to `w` (quantized dimension 0): it is the constant operand
    of FULLY_CONNECTED under the CHANNELWISE weight config, on the kernel's dimension 0 -/
theorem w_per_channel :
    ∃ (sg0 : Subgraph) (tn : Tensor) (o : Int) (j : Nat) (q : Op × Option String × Int) (k scope : String),
      env.model.subgraphs[0]? = some sg0 ∧ sg0.tensors[1]? = some tn ∧ isConst env.model sg0 ((1 : Nat) : Int) = true ∧
      ConsumedAt sg0 1 o ∧ (allOps sg0)[j]? = some q ∧ q.2.2 = o ∧ Resolves rxAll env st sg0 q k scope ∧
      ((Tables.woOps.contains k = true ∧ ∃ tc, (Recipe.resolve rxAll st k scope).2.weight = some tc ∧
          tc.gran = Gran.channelwise ∧
          ((k = "BATCH_MATMUL" ∧ ∃ dd, constData env tn = some dd ∧
              0 = bmmQDim dd.shape.length (opAdjY env (oiOf rxAll st 0 q k scope))) ∨
           (k ≠ "BATCH_MATMUL" ∧ Py.dictGet? Tables.weightQDim k = some 0))) ∨
       (0 = 0 ∧ ∃ qi qw bd qp q', constData env tn = some bd ∧ quantizeBias ⟨bd, .f32⟩ qi qw = .ok (qp, q') ∧
          SameValues qpW qp)) :=
  per_channel_only_weights_in_output rxAll env st (some qs) mT' tblT nf runT recipeOK 0 sgT' rfl 1 _ rfl 1 rfl
    qpW _ rfl 0 rfl

theorem resTanh : TypingE2E.ResolvesMinMax rxAll env st sg opTanh "TANH" cfgA8W8 :=
  ⟨28, "z;", rfl, by decide, by decide, res_eq _ _ acc_TANH⟩

/-- `fixed_range_in_output` applies to TANH: `z` carries the id 3, whose entry is `fixedParams false 8` -/
theorem tanh_fixed :
    ∃ (tr : Tensor) (pid : PId) (qp0 fp : QParams) (d0 : Option IArr), sgT'.tensors[(3 : Int).toNat]? = some tr ∧
      tr.quant = some pid ∧ tblT[pid]? = some (.uniform qp0 d0) ∧ SameValues qp0 fp ∧
      fixedParams ("materialize_tanh" == "materialize_softmax_and_logistic") (8 : Int).toNat = some fp :=
  fixed_range_in_output rxAll env st (some qs) mT' tblT nf runT 0 sg sgT' rfl rfl 1 opTanh rfl "TANH" cfgA8W8
    resTanh (by decide) { bits := 8, symmetric := false } rfl "materialize_tanh" (by decide +kernel) (by decide)
    0 3 (T "z" [1, 2] 0) rfl (by decide) rfl rfl

end Tanh

/-! ### `y := FULLY_CONNECTED(x, w)`, `z := RESHAPE(y, s)` under the same recipe -/
namespace Reshape
open C08.Inst

def opRS : Op := { code := 1, inputs := [2, 3], outputs := [4], orig := some 1 }
def sgR : Subgraph :=
  { tensors := [T "x" [1, 2] 0, T "w" [2, 2] 1, T "y" [1, 2] 0, { name := "s", dtype := 2, shape := [1], buffer := 2 },
                T "z" [2] 0],
    ops := [opFC, opRS], inputs := [0], outputs := [4] }
def mR : Model := { subgraphs := [sgR], buffers := [none, some (.inl 0), some (.inl 1)], opcodes := [9, 22], sigs := [] }
def envR : Env := { model := mR, consts := [(1, [1, 2, 3, 4])], adjY := [] }
def qsR : Qsvs := [("x", some (f32 [-1], f32 [1])), ("y", some (f32 [-2], f32 [2])), ("z", some (f32 [-3], f32 [3]))]

def sgR' : Subgraph :=
  { tensors := [{ T "x" [1, 2] 0 with dtype := 9, quant := some 0 }, { T "w" [2, 2] 1 with dtype := 9, quant := some 1 },
                { T "y" [1, 2] 0 with dtype := 9, quant := some 2 }, { name := "s", dtype := 2, shape := [1], buffer := 2 },
                { T "z" [2] 0 with dtype := 9, quant := some 2 }],
    ops := [opFC, opRS], inputs := [0], outputs := [4] }
def mR' : Model :=
  { subgraphs := [sgR'], buffers := [none, some (.inr 1), some (.inl 1)], opcodes := [9, 22], sigs := [] }
def tblR : List Param :=
  [.uniform Tanh.qpX none, .uniform Tanh.qpW (some ⟨⟨[2, 2], [64, 127, 95, 127]⟩, 8⟩), .uniform Tanh.qpY none]

theorem nfR : PipelineWF.NF envR st := NFCheckProofs.nfOK_sound envR st (by decide +kernel)

theorem runR : quantizePure rxAll envR st (some qsR) = .ok (mR', tblR) :=
  run_of_check _ _ _ _ _ _ (by decide +kernel)

theorem acc_RESHAPE : Policy.accepts Tables.algMinMax "RESHAPE" cfgA8W8 = true := by decide +kernel

theorem resRS : TypingE2E.ResolvesMinMax rxAll envR st sgR opRS "RESHAPE" cfgA8W8 :=
  ⟨22, "z;", rfl, by decide, by decide, res_eq _ _ acc_RESHAPE⟩

/-- all hypotheses of `same_scale_ops_in_output` hold for the RESHAPE operator; on the instance: the tensor
    the output RESHAPE reads in slot 0 and its result `z` carry the same parameter id, whose table entry has
    the values of the reference parameters of the statistics of the OPERAND `y` (`[-2, 2]`), although the
    caller's statistics of `z` are `[-3, 3]` -/
theorem reshape_same_scale :
    ∃ o' ∈ sgR'.ops, o'.orig = some 1 ∧
      ∃ (z : Int) (tz tr : Tensor) (pid : PId) (qp0 : QParams) (d0 : Option IArr) (qp : QParams) (mn mx : FArr)
          (qs0 : Qsvs),
        o'.inputs[0]? = some z ∧ Skeleton.root sgR' z = 2 ∧ sgR'.tensors[z.toNat]? = some tz ∧
        sgR'.tensors[4]? = some tr ∧ tz.quant = some pid ∧ tr.quant = some pid ∧
        tblR[pid]? = some (.uniform qp0 d0) ∧ SameValues qp0 qp ∧
        StatsAt rxAll envR st (some qsR) 0 sgR 1 qs0 ∧ Py.dictGet? qs0 "y" = some (some (mn, mx)) ∧
        refParams 8 false none mn mx = .ok qp := by
  obtain ⟨o', qs0, h1, h2, h3, hall⟩ :=
    same_scale_ops_in_output rxAll envR st (some qsR) mR' tblR nfR runR 0 sgR sgR' rfl rfl 1 opRS rfl "RESHAPE"
      cfgA8W8 resRS (by decide) { bits := 8, symmetric := false } rfl (by decide) "materialize_reshape"
      (by decide +kernel) (by decide)
  obtain ⟨ji, t, tni, a1, a2, a3, a4, a5⟩ := hall 0 4 (T "z" [2] 0) rfl (by decide) rfl rfl
  have hcase : ji = 0 ∧ t = 2 := by
    rcases ji with _ | _ | ji
    · simp only [opRS, List.getElem?_cons_zero, Option.some.injEq] at a1
      exact ⟨rfl, a1.symm⟩
    · simp only [opRS, List.getElem?_cons_succ, List.getElem?_cons_zero, Option.some.injEq] at a1
      subst a1
      have : sgR.tensors[(3 : Int).toNat]? = some { name := "s", dtype := 2, shape := [1], buffer := 2 } := rfl
      rw [this] at a3
      cases a3
      cases a4
    · simp [opRS] at a1
  obtain ⟨rfl, rfl⟩ := hcase
  have htni : tni = T "y" [1, 2] 0 := by
    have : sgR.tensors[(2 : Int).toNat]? = some (T "y" [1, 2] 0) := rfl
    rw [this] at a3
    exact (Option.some.inj a3).symm
  subst htni
  obtain ⟨z, tz, tr, pid, qp0, d0, qp, mn, mx, b1, b2, b3, b4, b5, b6, b7, b8, b9, b10⟩ := a5 (by decide)
  exact ⟨o', h1, h2, z, tz, tr, pid, qp0, d0, qp, mn, mx, qs0, b1, b2, b3, b4, b5, b6, b7, b8, h3, b9, b10⟩

/-- read on the closed output: `y` and `z` both carry id 2 -/
example : (sgR'.tensors[2]?).map (·.quant) = some (some 2) ∧ (sgR'.tensors[4]?).map (·.quant) = some (some 2) :=
  ⟨rfl, rfl⟩

end Reshape

/-! ### `c := CONCATENATION(a, b)`, only CONCATENATION selected: QUANTIZE on both operands, DEQUANTIZE on the result -/
namespace Concat
open C08.Inst

def opC : Op := { code := 0, inputs := [0, 1], outputs := [2], orig := some 0 }
def sgC : Subgraph :=
  { tensors := [T "a" [1, 2] 0, T "b" [1, 2] 0, T "c" [1, 4] 0], ops := [opC], inputs := [0, 1], outputs := [2] }
def mC : Model := { subgraphs := [sgC], buffers := [none], opcodes := [2], sigs := [] }
def envC : Env := { model := mC, consts := [], adjY := [] }
def qsC : Qsvs := [("a", some (f32 [-1], f32 [1])), ("b", some (f32 [-2], f32 [2])), ("c", some (f32 [-3], f32 [3]))]
def stC : Recipe.State := [(".*", [⟨".*", "CONCATENATION", Tables.algMinMax, cfgA8W8⟩])]

def qpC : QParams := u8 [1, 1] [12632257 / 536870912] [0] false none
def sgC' : Subgraph :=
  { tensors := [T "a" [1, 2] 0, T "b" [1, 2] 0, { T "c" [1, 4] 0 with dtype := 9, quant := some 0 },
                { T "a_quantized" [1, 2] 0 with dtype := 9, quant := some 0 },
                { T "b_quantized" [1, 2] 0 with dtype := 9, quant := some 0 }, T "c_dequant" [1, 4] 0],
    ops := [{ code := 1, inputs := [0], outputs := [3] }, { code := 1, inputs := [1], outputs := [4] },
            { code := 0, inputs := [3, 4], outputs := [2], orig := some 0 },
            { code := 2, inputs := [2], outputs := [5] }],
    inputs := [0, 1], outputs := [5] }
def mC' : Model := { subgraphs := [sgC'], buffers := [none], opcodes := [2, 114, 6], sigs := [] }

theorem nfC : PipelineWF.NF envC stC := NFCheckProofs.nfOK_sound envC stC (by decide +kernel)

theorem runC : quantizePure rxAll envC stC (some qsC) = .ok (mC', [.uniform qpC none]) :=
  run_of_check _ _ _ _ _ _ (by decide +kernel)

theorem resC : TypingE2E.ResolvesMinMax rxAll envC stC sgC opC "CONCATENATION" cfgA8W8 :=
  ⟨2, "c;", rfl, by decide, by decide, by decide +kernel⟩

/-- all hypotheses of `concat_inputs_in_output` hold; on the instance: the tensor read in slot 0 (the result of
    the inserted `QUANTIZE(a)`) and the result `c` carry the same id, whose entry has the values of the
    reference parameters of the statistics of the RESULT `c` -/
theorem concat_instance :
    ∃ o' ∈ sgC'.ops, o'.orig = some 0 ∧
      ∃ (z : Int) (tz tr : Tensor) (pid : PId) (qp0 : QParams) (d0 : Option IArr) (qp : QParams) (mn mx : FArr)
          (qs0 : Qsvs),
        o'.inputs[0]? = some z ∧ Skeleton.root sgC' z = 0 ∧ sgC'.tensors[z.toNat]? = some tz ∧
        sgC'.tensors[2]? = some tr ∧ tz.quant = some pid ∧ tr.quant = some pid ∧
        [Param.uniform qpC none][pid]? = some (.uniform qp0 d0) ∧ SameValues qp0 qp ∧
        StatsAt rxAll envC stC (some qsC) 0 sgC 0 qs0 ∧ Py.dictGet? qs0 "c" = some (some (mn, mx)) ∧
        refParams 8 false none mn mx = .ok qp := by
  obtain ⟨o', qs0, h1, h2, h3, hall⟩ :=
    concat_inputs_in_output rxAll envC stC (some qsC) mC' _ nfC runC 0 sgC sgC' rfl rfl 0 opC rfl "CONCATENATION"
      cfgA8W8 resC (by decide) { bits := 8, symmetric := false } rfl (by decide) (by decide +kernel)
  obtain ⟨jo, b, tno, z, tz, tr, pid, qp0, d0, qp, mn, mx, b1, b2, b3, -, b5, b6, b7, b8, b9, b10, b11, b12, b13, b14⟩ :=
    hall 0 0 (T "a" [1, 2] 0) rfl (by decide) rfl rfl (by decide)
  have hb : jo = 0 ∧ b = 2 := by
    rcases jo with _ | jo
    · simp only [opC, List.getElem?_cons_zero, Option.some.injEq] at b1
      exact ⟨rfl, b1.symm⟩
    · simp [opC] at b1
  obtain ⟨rfl, rfl⟩ := hb
  have htno : tno = T "c" [1, 4] 0 := by
    have : sgC.tensors[(2 : Int).toNat]? = some (T "c" [1, 4] 0) := rfl
    rw [this] at b3
    exact (Option.some.inj b3).symm
  subst htno
  exact ⟨o', h1, h2, z, tz, tr, pid, qp0, d0, qp, mn, mx, qs0, b5, b6, b7, b8, b9, b10, b11, b12, h3, b13, b14⟩

end Concat

/-! ### `y := FULLY_CONNECTED(x, w, b)` under static-range int8 (`C03.E2E.envB`): the bias -/
namespace Bias
open C03.E2E C15.E2E C15.Defect

/-- all hypotheses of `bias_in_output` hold; on the instance (with `bias_values`): the bias is read directly
    in slot 2, it is symmetric with zero points 0 and 32 bits, and its scale array in the table is the squeezed
    product of the scale arrays, in the table, of the tensors read in the data slot and in the weight slot -/
theorem bias_instance :
    ∃ (tbl : List Param) (o' : Op) (zi zw : Int) (tzi tzw tzb : Tensor) (pi pw pb : PId)
        (qi0 qw0 qb0 : QParams) (di0 dw0 db0 : Option IArr) (pr : Prec) (prod : Arr Rat),
      quantizePure rxAll envB stA (some qsB) = .ok (mB', tbl) ∧
      o' ∈ (mB'.subgraphs[0]'(by decide)).ops ∧ o'.orig = some 0 ∧
      o'.inputs[0]? = some zi ∧ (mB'.subgraphs[0]'(by decide)).tensors[zi.toNat]? = some tzi ∧ tzi.quant = some pi ∧
      tbl[pi]? = some (.uniform qi0 di0) ∧
      o'.inputs[1]? = some zw ∧ (mB'.subgraphs[0]'(by decide)).tensors[zw.toNat]? = some tzw ∧ tzw.quant = some pw ∧
      tbl[pw]? = some (.uniform qw0 dw0) ∧
      o'.inputs[2]? = some 2 ∧ (mB'.subgraphs[0]'(by decide)).tensors[2]? = some tzb ∧ tzb.quant = some pb ∧
      tbl[pb]? = some (.uniform qb0 db0) ∧
      qb0.symmetric = true ∧ qb0.bits = (if qi0.bits = 16 then 64 else 32) ∧ (∀ z ∈ qb0.zp.arr.data, z = 0) ∧
      zipB (fun a b => pr.chk (a * b)) qi0.scale.arr qw0.scale.arr = .ok prod ∧ qb0.scale.arr = squeeze1 prod := by
  obtain ⟨tbl, hrun⟩ := runB
  obtain ⟨o', aIn, aW, zi, zw, tzi, tzw, tzb, bt, pi, pw, pb, qi0, qw0, qb0, qi, qw, qb, di0, dw0, db0, bd, q,
      h1, h2, h3, h4, h5, -, h7, h8, h9, h10, h11, -, h13, h14, h15, h16, h17, h18, h19, h20, h21, -, -, h24⟩ :=
    bias_in_output rxAll envB stA (some qsB) mB' tbl nfB hrun 0 _ _ rfl rfl 0 _ rfl "FULLY_CONNECTED" cfgSRQ
      fcResolvesB (by decide) 2 (by decide) (by decide) 2 rfl (by decide)
  obtain ⟨v1, v2, v3, prod, v4, v5⟩ := bias_values qi0 qw0 qb0 qi qw qb _ q h10 h16 h21 h24
  exact ⟨tbl, o', zi, zw, tzi, tzw, tzb, pi, pw, pb, qi0, qw0, qb0, di0, dw0, db0, _, prod, hrun, h1, h2, h5, h7, h8, h9,
    h11, h13, h14, h15, h17, h18, h19, h20, v1, v2, v3, v4, v5⟩

end Bias

/-- **the ids of a CONSTANT operand and of the result of a same-scale operator differ** (RESHAPE of the
    constant `c`, `PipelineWFExample.envB`): `c` carries id 0, the result `y` id 1; the two table entries have
    the same parameters, but entry 0 carries the quantized values of `c` and entry 1 none, and `==` on
    parameter objects compares the values too -/
theorem const_operand_ids_differ :
    (match quantizePure PipelineWFExample.rxAll PipelineWFExample.envB
        (PipelineWFExample.stOf Tables.algMinMax PipelineWFExample.cfgSRQ) (some PipelineWFExample.qsB) with
     | .ok r => r.1.subgraphs.map (fun sg => sg.tensors.map (·.quant)) == [[some 0, none, some 1]] &&
         (match r.2 with
          | [.uniform q1 (some _), .uniform q2 none] => decide (q1 = q2)
          | _ => false)
     | .error _ => false) = true := by
  decide +kernel

end E2E

end C04
