import QProofs.NumericTotal
import QProofs.NumericCalib
import QProps.C08c
/-!
# C08d — the numeric raise sites of `Mat.generate` are excluded on bounded inputs; `quantize()` is total

`C08c` classified the raise sites of the materialisation stage and showed that under the normal-form hypotheses `Hyp`,
`Unshared` the stage returns OR stops at a NUMERIC site (`NumericOK` was kept as a hypothesis).  Here it is discharged.

1. **scalar / array totality** (`NumT`, `QProofs/NumericScalar.lean`, `QProofs/NumericArray.lean`), with the explicit
   bound `B = 2^63 ≈ 9.2e18`: `zpScale1_total`, `zpScale_total`, `uniformQuantize_total`, `quantize_own_total`,
   `quantizeBias_total`, `f16_total`.  Method: powers of two in the normal exponent range are fixed points of the
   model's rounding (`NumT.rn_two_zpow`), rounding is monotone (`C17.rn_mono`), so every intermediate is bounded by a power
   of two without loss: scales lie in `[2^-30, 2^63]` (`min_bound = 1e-4 ≥ 2^-14`, ranges `≤ 2^16`), bias scales
   `s_in · s_w` in `[2^-60, 2^126]`, quotients below `2^123`.
   * NO ORDER `min ≤ max` IS NEEDED (`zpScale1_inverted`): the formula widens the range to contain 0.
   * The statistics need NOT bound the data: `uniform_quantize` clips after rounding; only `data / scale` must be finite.
   * `B` is within 8 binary orders of the best bound: data and weights of magnitude `2^71` give scales whose float32
     product overflows, a bias of `2^80` overflows `bias / (s_in·s_w)` (`NumT.bias_overflow`); beyond `2^127` the min/max
     formula itself overflows (`zpScale1_overflow`, finding D14).
   * Scales below `2^-30` (whose product may underflow to 0: findings D25/D33, `NumT.bias_underflow`) never come out of
     `tensor_zp_scale_from_min_max`: `min_bound` keeps every range at least `1e-4` wide.  No lower bound on the
     statistics is needed.
   * float16: total on `±65504`; from `65520` on the model reports `nonfinite` (numpy stores `inf`): outside the model.
2. **`numericOK_of_bounded`**: under `Hyp` and `Bounded` no numeric site fires; hence `generate_total`,
   **`quantize_total`** (no remaining disjunct).  Two closed instances satisfy ALL hypotheses (`Inst`: FULLY_CONNECTED +
   TANH; `InstB`: the same with a bias, which exercises the `bias` clause).
3. the clauses of `Bounded` are needed: closed witnesses (kernel evaluation of `Mat.generate`) in `Inst`, `InstB`, `InstC`.
4. **calibration**: `ema_ordered` (`moving_average_update` keeps `min ≤ max`, finiteness and the per-tensor shape: the
   rounded moving average is monotone, and `B` is a fixed point of it), `stats_bounded_of_calibration` (after a fresh
   `calibrate()` on samples with float32 contents within `B`, the clause `Bounded.stats` holds and the ranges are ordered).
-/
open Graph Mat Cfg Recipe MatTotal Arith Num Nd

namespace C08

/-! ## 1. scalar and array totality -/

/-- the magnitude bound `2^63` -/
abbrev B : Rat := NumT.B

theorem B_eq : B = 9223372036854775808 := by unfold B NumT.B; norm_num

/-- float32, float64 or `exact` (statistics of integer tensors; python numbers -- see `C08e`) -/
abbrev F3264 := @NumT.F3264
/-- finite statistics: float32 / float64 / `exact` arrays of one shape, magnitudes at most `B` -/
abbrev StatFin := @NumT.StatFin
/-- operand shape `s` broadcasts to `r` without enlarging it -/
abbrev Compat := @NumT.Compat

/-- **one channel of `tensor_zp_scale_from_min_max`**: total for 2..16 bits on `|min|, |max| ≤ B`, whatever their order;
    the scale lies in `[2^-30, B]` -/
theorem zpScale1_total (pr : Prec) (hpr : F3264 pr) (bits : Nat) (hb2 : 2 ≤ bits) (hb16 : bits ≤ 16) (sym : Bool)
    (mn mx : Rat) (hmn : |mn| ≤ B) (hmx : |mx| ≤ B) :
    ∃ z s, zpScale1 pr bits sym mn mx = .ok (z, s) ∧ (2:Rat)^(-30:Int) ≤ s ∧ s ≤ B :=
  NumT.zpScale1_total pr hpr bits hb2 hb16 sym mn mx hmn hmx

/-- **`tensor_zp_scale_from_min_max`** is total on finite statistics -/
theorem zpScale_total (bits : Nat) (hb : bits = 4 ∨ bits = 8 ∨ bits = 16) (sym : Bool) (mn mx : FArr) (S : StatFin mn mx) :
    ∃ zs, zpScale bits sym mn mx = .ok zs :=
  NumT.zpScale_total bits (by omega) (by omega) sym mn mx S

/-- **`uniform_quantize`** is total: finite float data, parameters whose shape broadcasts to the data's, scales of at
    least `2^-60`, zero points within the 64-bit range -/
theorem uniformQuantize_total (x : FArr) (qp : QParams) (hx : F3264 x.pr) (hxb : ∀ v ∈ x.arr.data, |v| ≤ B)
    (G : NumT.QPGood ((2:Rat)^(-60:Int)) qp) (hc : Compat qp.scale.arr.shape x.arr.shape) :
    ∃ q, uniformQuantize x qp = .ok q :=
  NumT.uniformQuantize_total x qp hx hxb G hc

/-- **`uniform_quantize` with parameters that came from `tensor_zp_scale_from_min_max`**: finite float32 data, finite
    statistics whose shape broadcasts to the data's (per-tensor: all ones; per-channel: the channel dimension kept).  The
    statistics need NOT bound the data: `uniform_quantize` clips. -/
theorem quantize_own_total (d : Arr Rat) (bits : Nat) (hb : bits = 4 ∨ bits = 8 ∨ bits = 16) (sym : Bool) (qdim : Option Nat)
    (mn mx : FArr) (S : StatFin mn mx) (hd : ∀ v ∈ d.data, |v| ≤ B) (hc : Compat mn.arr.shape d.shape)
    (zp : IArr) (scale : FArr) (h : zpScale bits sym mn mx = .ok (zp, scale)) :
    ∃ q, uniformQuantize ⟨d, .f32⟩ { bits := bits, qdim := qdim, scale := scale, zp := zp, symmetric := sym } = .ok q := by
  obtain ⟨G, hsh, _⟩ := NumT.zpScale_good bits (by omega) (by omega) sym mn mx S qdim zp scale h
  exact NumT.uniformQuantize_total ⟨d, .f32⟩ _ (.inl rfl) hd (G.mono NumT.sLo_ge60) (by rw [hsh]; exact hc)

/-- **`symmetric_quantize_bias_tensor`** is total: a finite bias vector with one element per channel, a per-tensor data
    scale and a per-tensor / per-channel weight scale, both in `[2^-30, B]` -- the exact condition on the scales: their
    float32 product neither overflows nor underflows to 0 (`NumT.scaleProd_total`: it lies in `[2^-60, 2^126]`) -/
theorem quantizeBias_total (bd : Arr Rat) (n : Nat) (qi qw : QParams) (hbs : bd.shape = [n]) (hbb : ∀ v ∈ bd.data, |v| ≤ B)
    (Gi : NumT.QPGood ((2:Rat)^(-30:Int)) qi) (Gw : NumT.QPGood ((2:Rat)^(-30:Int)) qw)
    (hiB : ∀ s ∈ qi.scale.arr.data, s ≤ B) (hwB : ∀ s ∈ qw.scale.arr.data, s ≤ B)
    (hones : ∀ d ∈ qi.scale.arr.shape, d = 1) (hone : NumT.OneDim qw.scale.arr.shape)
    (hch : numel qw.scale.arr.shape = 1 ∨ numel qw.scale.arr.shape = n) :
    ∃ r, quantizeBias ⟨bd, .f32⟩ qi qw = .ok r :=
  NumT.quantizeBias_total bd n qi qw hbs hbb Gi Gw hiB hwB hones hone hch

/-- **the float16 cast** is total on the finite float16 range (beyond it IEEE arithmetic yields `inf`; the model
    reports `nonfinite`: outside the model) -/
theorem f16_total (x : Rat) (h : |x| ≤ 65504) : ∃ y, Prec.f16.chk x = .ok y := NumT.f16_total x h

/-- beyond the float32 range the min/max formula really fails (finding D14) -/
theorem zpScale1_overflow :
    NumT.isNonfinite (zpScale1 .f32 8 false (-(2:Rat)^127) ((2:Rat)^127)) = true ∧
    NumT.isNonfinite (zpScale1 .f32 8 true (-(2:Rat)^135) ((2:Rat)^135)) = true := NumT.zpScale1_overflow

/-- `min ≤ max` is NOT needed -/
theorem zpScale1_inverted :
    (match zpScale1 .f32 8 false 5 (-3) with | .ok _ => true | .error _ => false) = true := NumT.zpScale1_inverted

/-- the float16 cast fails from `65520` on -/
theorem f16_overflow : NumT.isNonfinite (Prec.f16.chk 65520) = true ∧
    (match Prec.f16.chk 65519 with | .ok v => v == 65504 | .error _ => false) = true := by
  constructor <;> decide +kernel

/-- non-vacuity of the array lemmas: the statistics `[-1, 1]` (shape `[1,1]`), the weight `[[1,2],[3,4]]` -/
example : ∃ zs, zpScale 8 false (Inst.f32 [-1]) (Inst.f32 [1]) = .ok zs :=
  zpScale_total 8 (.inr (.inl rfl)) false _ _
    (statGoodB_sound (Inst.f32 [-1], Inst.f32 [1]) (by decide)).fin

/-- non-vacuity of `quantize_own_total`: the weight `[[1,2],[3,4]]` with its per-channel statistics (shape `[2,1]`) -/
example : ∃ zp scale q, zpScale 8 true ⟨⟨[2, 1], [1, 3]⟩, .f32⟩ ⟨⟨[2, 1], [2, 4]⟩, .f32⟩ = .ok (zp, scale) ∧
    uniformQuantize ⟨⟨[2, 2], [1, 2, 3, 4]⟩, .f32⟩ { bits := 8, qdim := some 0, scale := scale, zp := zp, symmetric := true } = .ok q := by
  have S : StatFin ⟨⟨[2, 1], [1, 3]⟩, .f32⟩ ⟨⟨[2, 1], [2, 4]⟩, .f32⟩ :=
    ⟨.inl rfl, .inl rfl, rfl, fun v hv => finB_sound v (by revert v; decide), fun v hv => finB_sound v (by revert v; decide)⟩
  obtain ⟨⟨zp, scale⟩, h⟩ := zpScale_total 8 (.inr (.inl rfl)) true _ _ S
  obtain ⟨q, hq⟩ := quantize_own_total ⟨[2, 2], [1, 2, 3, 4]⟩ 8 (.inr (.inl rfl)) true (some 0) _ _ S
    (fun v hv => finB_sound v (by revert v; decide))
    (List.Forall₂.cons (.inr rfl) (List.Forall₂.cons (.inl rfl) List.Forall₂.nil)) zp scale h
  exact ⟨zp, scale, q, h, hq⟩

/-- non-vacuity of `quantizeBias_total`: a per-tensor data scale `0.01`, per-channel weight scales `[0.02, 0.04]`, the
    bias `[1/2, -1/4]` -/
example : ∃ r, quantizeBias ⟨⟨[2], [1/2, -1/4]⟩, .f32⟩
    { bits := 8, qdim := none, scale := ⟨⟨[1, 1], [1/100]⟩, .f32⟩, zp := ⟨⟨[1, 1], [3]⟩, 8⟩, symmetric := false }
    { bits := 8, qdim := some 0, scale := ⟨⟨[2, 1], [1/50, 1/25]⟩, .f32⟩, zp := ⟨⟨[2, 1], [0, 0]⟩, 8⟩, symmetric := true } = .ok r := by
  have h30 : (2:Rat)^(-30:Int) ≤ 1/100 := by norm_num
  have hB : (1:Rat) ≤ B := NumT.one_le_B
  refine quantizeBias_total _ 2 _ _ rfl (fun v hv => finB_sound v (by revert v; decide +kernel))
    ⟨.inl rfl, rfl, rfl, rfl, ?_, ?_⟩ ⟨.inl rfl, rfl, rfl, rfl, ?_, ?_⟩ ?_ ?_ (by decide) (by unfold NumT.OneDim; decide) (.inr rfl)
  · intro s hs
    simp only [List.mem_singleton] at hs
    subst hs; exact h30
  · intro z hz
    simp only [List.mem_singleton] at hz
    subst hz; norm_num
  · intro s hs
    simp only [List.mem_cons, List.mem_nil_iff, or_false] at hs
    rcases hs with rfl | rfl <;> norm_num
  · intro z hz
    simp only [List.mem_cons, List.mem_nil_iff, or_false] at hz
    rcases hz with rfl | rfl <;> norm_num
  · intro s hs
    simp only [List.mem_singleton] at hs
    subst hs; linarith
  · intro s hs
    simp only [List.mem_cons, List.mem_nil_iff, or_false] at hs
    rcases hs with rfl | rfl <;> linarith

/-! ## 2. no numeric site; `generate` and `quantize()` are total -/

/-- good statistics entry: finite (`StatFin`) and per-tensor (all dimensions 1) -/
abbrev StatGood := @MatTotal.StatGood
/-- the names whose entry matters: the FLOAT32 runtime tensors that an operator selected for min/max quantization reads
    or writes, and the float32 operand of a selected same-as-input operator (its entry is copied to the results); entries
    of integer tensors are never read -/
abbrev StatName := @MatTotal.StatName
/-- **bounded inputs** (fields documented in `QProofs/NumericTotal.lean`):
    * `consts`: every constant has magnitudes at most `B`;
    * `stats`: every relevant statistics entry (`StatName`) is good (`StatGood`);
    * `concat`: a CONSTANT float operand of a same-as-output operator (CONCATENATION) has the rank of the statistics of the
      result -- it is quantized with the result's parameters;
    * `bias`: a bias under static-range quantization is a vector with one element per output channel of the weight
      (dimension `Tables.weightQDim`), and the data operand of the operator is a runtime tensor;
    * `cast`: the weights of a float-cast operator are within the float16 range `±65504`. -/
abbrev Bounded := @MatTotal.Bounded

/-- **C08, numeric half**: on bounded inputs no numeric raise site fires -/
theorem numericOK_of_bounded (rx : String → String → Bool) (env : Env) (st : Recipe.State) (qsvs : Option Qsvs)
    (H : Hyp rx env st qsvs) (Bd : Bounded rx env st qsvs) : NumericOK rx env st qsvs :=
  fun e => genSite_num_absurd rx env st qsvs H Bd e

/-- **C08, materialisation stage**: `generate_quantization_parameters` returns -/
theorem generate_total (rx : String → String → Bool) (env : Env) (st : Recipe.State) (qsvs : Option Qsvs)
    (H : Hyp rx env st qsvs) (U : Unshared env.model) (Bd : Bounded rx env st qsvs) :
    ∃ reqs, Mat.generate rx env st qsvs = .ok reqs :=
  generate_total_of_numericOK rx env st qsvs H U (numericOK_of_bounded rx env st qsvs H Bd)

/-- **C08, `quantize()`**: on a normal-form model without shared constants, with complete and bounded statistics and
    bounded constants, under a non-empty recipe without `skip_checks`, `quantize()` returns a well-formed model -/
theorem quantize_total (rx : String → String → Bool) (env : Env) (st : Recipe.State) (qsvs : Option Qsvs)
    (H : Hyp rx env st qsvs) (U : Unshared env.model) (Bd : Bounded rx env st qsvs)
    (hrec : (Recipe.getRecipe st).isEmpty = false) :
    ∃ m' tbl, Pipeline.quantizePure rx env st qsvs = .ok (m', tbl) ∧ WF.modelOK m' = true :=
  quantize_total_of_numericOK rx env st qsvs H U hrec (numericOK_of_bounded rx env st qsvs H Bd)

/-! ## NON-VACUITY: the instance of `C08c` (FULLY_CONNECTED + TANH under `default_a8w8`) is bounded -/

namespace Inst
open PipeNF Pipe GraphStep

theorem qs_good : qs.all (fun e => match e.2 with | some mm => statGoodB mm | none => true) = true := by decide

/-- what resolution selects for each of the four entries -/
theorem kinds (q : Op × Option String × Int) (hq : q ∈ allOps sg) (k scope fn : String) (ops : List (String × String))
    (S : Selected rxAll env st sg q k scope ops fn) :
    (q = qFC ∧ kindOf (Recipe.resolve rxAll st k scope).1 fn = .conv) ∨
    kindOf (Recipe.resolve rxAll st k scope).1 fn = .fixed false ∨
    kindOf (Recipe.resolve rxAll st k scope).1 fn = .std .none [] := by
  rcases entries q hq with rfl | rfl | rfl | rfl
  · obtain ⟨rfl, rfl, rfl, rfl⟩ := selFC S
    rw [res_eq _ _ acc_FC, kind_FC]; exact .inl ⟨rfl, rfl⟩
  · obtain ⟨rfl, rfl, rfl, rfl⟩ := selTanh S
    rw [res_eq _ _ acc_TANH, kind_Tanh]; exact .inr (.inl rfl)
  · obtain ⟨rfl, rfl, rfl, rfl⟩ := selIn S
    rw [res_eq _ _ acc_IN, kind_In]; exact .inr (.inr rfl)
  · obtain ⟨rfl, rfl, rfl, rfl⟩ := selOut S
    rw [res_eq _ _ acc_OUT, kind_Out]; exact .inr (.inr rfl)

theorem bounded : Bounded rxAll env st (some qs) := by
  refine { consts := ?_, stats := ?_, concat := ?_, bias := ?_, cast := ?_ }
  · intro sg' hsg t ht d hd x hx
    rw [sgs sg' hsg] at ht
    rcases tensors_cases t ht with rfl | rfl | rfl | rfl
    · have : constData env (T "x" [1, 2] 0) = none := by decide
      rw [this] at hd; cases hd
    · have : constData env (T "w" [2, 2] 1) = some ⟨[2, 2], [1, 2, 3, 4]⟩ := by decide +kernel
      rw [this] at hd; cases hd
      have hall : ([1, 2, 3, 4] : List Rat).all finB = true := by decide
      exact finB_sound x (List.all_eq_true.1 hall x hx)
    · have : constData env (T "y" [1, 2] 0) = none := by decide
      rw [this] at hd; cases hd
    · have : constData env (T "z" [1, 2] 0) = none := by decide
      rw [this] at hd; cases hd
  · intro n _ mn mx hget
    have hm := C13.mem_of_dictGet _ _ _ hget
    have := List.all_eq_true.1 qs_good _ hm
    exact statGoodB_sound (mn, mx) this
  · intro sg' hsg q hq k scope ops fn S gi hk
    rw [sgs sg' hsg] at hq S
    rcases kinds q hq k scope fn ops S with ⟨_, h⟩ | h | h <;> rw [h] at hk <;> cases hk
  · intro sg' hsg q hq k scope ops fn S _ iIn iW iB hcs a bt ha
    rw [sgs sg' hsg] at hq S
    rcases kinds q hq k scope fn ops S with ⟨rfl, h⟩ | h | h <;> rw [h] at hcs <;> cases hcs
    cases ha
  · intro sg' hsg q hq k scope ops fn S a b c hk
    rw [sgs sg' hsg] at hq S
    rcases kinds q hq k scope fn ops S with ⟨_, h⟩ | h | h <;> rw [h] at hk <;> cases hk

/-- ALL hypotheses of `quantize_total` hold on the instance -/
example : ∃ m' tbl, Pipeline.quantizePure rxAll env st (some qs) = .ok (m', tbl) ∧ WF.modelOK m' = true :=
  quantize_total rxAll env st (some qs) hyp unshared bounded (by decide)

example : NumericOK rxAll env st (some qs) := numericOK_of_bounded rxAll env st (some qs) hyp bounded

/-! ### each clause of `Bounded` is needed (closed witnesses; `big_numeric_site` of `C08c` is the one for `B`) -/

/-- `stats`, magnitude: `C08.Inst.big_error` (statistics `±2^127` overflow float32 in `max − min`) -/
example : errIs (Mat.generate rxAll env st (some qsBig)) .nonfinite = true := big_error

/-- `consts`, magnitude: a weight of `2^128` is not a float32; its scale `2^128/127` is finite, the site is reached in
    the statistics of the weight -- with `2^135` the symmetric scale itself overflows -/
example : errIs (Mat.generate rxAll { env with consts := [(1, [1, 2, 3, (2:Rat)^135])] } st (some qs)) .nonfinite = true := by
  decide +kernel

/-- `stats`, one shape for `min` and `max`: shapes `[1,2]` and `[1,3]` do not broadcast -- ValueError at the numeric
    site `TensorSite.zpScale` -/
def qsShape : Qsvs :=
  [("x", some (⟨⟨[1, 2], [-1, -1]⟩, .f32⟩, ⟨⟨[1, 3], [1, 1, 1]⟩, .f32⟩)), ("y", some (f32 [-2], f32 [2])), ("z", some (f32 [-1], f32 [1]))]
example : errIs (Mat.generate rxAll env st (some qsShape)) .valueError = true := by decide +kernel

/-- `stats`, float32 / float64: float16 statistics `±60000` are finite, but `max − min` overflows float16 -/
def qsHalf : Qsvs :=
  [("x", some (⟨⟨[1, 1], [-60000]⟩, .f16⟩, ⟨⟨[1, 1], [60000]⟩, .f16⟩)), ("y", some (f32 [-2], f32 [2])), ("z", some (f32 [-1], f32 [1]))]
example : errIs (Mat.generate rxAll env st (some qsHalf)) .nonfinite = true := by decide +kernel

end Inst

/-! ## NON-VACUITY of the bias clause: FULLY_CONNECTED WITH A BIAS + TANH under `default_a8w8` -/

namespace InstB
open PipeNF Pipe GraphStep
open Inst (T f32 rxAll cfgA8W8 st opTanh qTanh qs res_eq acc_FC acc_TANH acc_IN acc_OUT ops_mm mmOps pin kind_FC kind_Tanh
  kind_In kind_Out slotsTanh errIs)

def opFC : Op := { code := 0, inputs := [0, 1, 4], outputs := [2], orig := some 0 }
/-- `y := FULLY_CONNECTED(x, w, b)`, `z := TANH(y)`; `w`, `b` constants, bias `b` of length 2 = rows of `w` -/
def sg : Subgraph :=
  { tensors := [T "x" [1, 2] 0, T "w" [2, 2] 1, T "y" [1, 2] 0, T "z" [1, 2] 0, T "b" [2] 2], ops := [opFC, opTanh],
    inputs := [0], outputs := [3] }
def m : Model := { subgraphs := [sg], buffers := [none, some (.inl 0), some (.inl 1)], opcodes := [9, 28], sigs := [] }
def env : Env := { model := m, consts := [(1, [1, 2, 3, 4]), (2, [1/2, -1/4])], adjY := [] }
def qFC : Op × Option String × Int := (opFC, none, ((0 : Nat) : Int))

theorem sgs (sg' : Subgraph) (h : sg' ∈ env.model.subgraphs) : sg' = sg := by
  simpa [env, m] using h

theorem entries (q : Op × Option String × Int) (h : q ∈ allOps sg) :
    q = qFC ∨ q = qTanh ∨ q = inEntry sg ∨ q = outEntry sg := by
  rcases mem_allOps sg q h with ⟨j, op, hop, rfl⟩ | h | h
  · rcases j with _ | _ | j
    · left; simp only [sg, List.getElem?_cons_zero, Option.some.injEq] at hop; subst hop; rfl
    · right; left; simp only [sg, List.getElem?_cons_succ, List.getElem?_cons_zero, Option.some.injEq] at hop; subst hop; rfl
    · simp [sg] at hop
  · exact .inr (.inr (.inl h))
  · exact .inr (.inr (.inr h))

theorem selFC {k scope fn : String} {ops : List (String × String)} (S : Selected rxAll env st sg qFC k scope ops fn) :
    k = "FULLY_CONNECTED" ∧ scope = "y;" ∧ ops = mmOps ∧ fn = "materialize_fc_conv" :=
  pin S _ _ _ _ (by decide) (by decide) (by rw [res_eq _ _ acc_FC]; exact ops_mm) (by decide +kernel)

theorem selTanh {k scope fn : String} {ops : List (String × String)} (S : Selected rxAll env st sg qTanh k scope ops fn) :
    k = "TANH" ∧ scope = "z;" ∧ ops = mmOps ∧ fn = "materialize_tanh" :=
  pin S _ _ _ _ (by decide) (by decide) (by rw [res_eq _ _ acc_TANH]; exact ops_mm) (by decide +kernel)

theorem selIn {k scope fn : String} {ops : List (String × String)} (S : Selected rxAll env st sg (inEntry sg) k scope ops fn) :
    k = "INPUT" ∧ scope = "x;" ∧ ops = mmOps ∧ fn = "materialize_input" :=
  pin S _ _ _ _ (by decide) (by decide) (by rw [res_eq _ _ acc_IN]; exact ops_mm) (by decide +kernel)

theorem selOut {k scope fn : String} {ops : List (String × String)} (S : Selected rxAll env st sg (outEntry sg) k scope ops fn) :
    k = "OUTPUT" ∧ scope = "" ∧ ops = mmOps ∧ fn = "materialize_output" :=
  pin S _ _ _ _ (by decide) (by decide) (by rw [res_eq _ _ acc_OUT]; exact ops_mm) (by decide +kernel)

theorem named (op : Op) (hop : op ∈ sg.ops) (k : String) (h : OpNamed env.model op k) :
    (op = opFC ∧ k = "FULLY_CONNECTED") ∨ (op = opTanh ∧ k = "TANH") := by
  have : op = opFC ∨ op = opTanh := by simpa [sg] using hop
  obtain ⟨code, hc, hn⟩ := h
  rcases this with rfl | rfl
  · left
    have : env.model.opcodes[opFC.code]? = some 9 := by decide
    rw [this] at hc; cases hc
    have : opNameOfCode 9 = some "FULLY_CONNECTED" := by decide
    rw [this] at hn; cases hn
    exact ⟨rfl, rfl⟩
  · right
    have : env.model.opcodes[opTanh.code]? = some 28 := by decide
    rw [this] at hc; cases hc
    have : opNameOfCode 28 = some "TANH" := by decide
    rw [this] at hn; cases hn
    exact ⟨rfl, rfl⟩

theorem slotsFC (i : Nat) (a : Int) (h : opFC.inputs[i]? = some a) : (i = 0 ∧ a = 0) ∨ (i = 1 ∧ a = 1) ∨ (i = 2 ∧ a = 4) := by
  rcases i with _ | _ | _ | i <;> simp [opFC] at h <;> simp [h]

theorem nf : PipelineWF.NF env st := by
  refine ⟨by decide, by decide, Inst.nf.noBlockwise, ?_, ?_, ?_, ?_⟩
  · intro sg' hsg t ht
    rw [sgs sg' hsg] at ht ⊢
    have : t = 0 := by simpa [sg] using ht
    subst this
    decide
  · intro sg' hsg op hop k hk i j a hi hj hne
    rw [sgs sg' hsg] at hop
    rcases named op hop k hk with ⟨rfl, rfl⟩ | ⟨rfl, rfl⟩
    · rcases slotsFC i a hi with ⟨rfl, rfl⟩ | ⟨rfl, rfl⟩ | ⟨rfl, rfl⟩ <;>
        rcases slotsFC j _ hj with ⟨rfl, h⟩ | ⟨rfl, h⟩ | ⟨rfl, h⟩ <;> first | rfl | cases h
    · obtain ⟨rfl, rfl⟩ := slotsTanh i a hi
      obtain ⟨rfl, _⟩ := slotsTanh j _ hj
      rfl
  · intro sg' hsg op hop k hk b a hb h1 h0 hne
    rw [sgs sg' hsg] at hop
    rcases named op hop k hk with ⟨rfl, rfl⟩ | ⟨rfl, rfl⟩
    · have hd : dataSlot "FULLY_CONNECTED" = 0 := by decide
      rw [hd] at h0
      rcases slotsFC 1 a h1 with ⟨h, _⟩ | ⟨_, rfl⟩ | ⟨h, _⟩
      · cases h
      · rcases slotsFC 0 _ h0 with ⟨_, h⟩ | ⟨h, _⟩ | ⟨h, _⟩ <;> cases h
      · cases h
    · have : biasSlot "TANH" = none := by decide
      rw [this] at hb; cases hb
  · intro sg' hsg op hop k hk b hb
    rw [sgs sg' hsg] at hop
    rcases named op hop k hk with ⟨rfl, rfl⟩ | ⟨rfl, rfl⟩
    · have : biasSlot "FULLY_CONNECTED" = some 2 := by decide
      rw [this] at hb; cases hb
      refine ⟨?_, by decide⟩
      intro i hi
      rcases i with _ | _ | i
      · decide
      · decide
      · omega
    · have : biasSlot "TANH" = none := by decide
      rw [this] at hb; cases hb

theorem tensors_cases (t : Tensor) (h : t ∈ sg.tensors) :
    t = T "x" [1, 2] 0 ∨ t = T "w" [2, 2] 1 ∨ t = T "y" [1, 2] 0 ∨ t = T "z" [1, 2] 0 ∨ t = T "b" [2] 2 := by
  simpa [sg] using h

theorem at0 : tensorAt sg 0 = .ok (T "x" [1, 2] 0) := by decide
theorem at1 : tensorAt sg 1 = .ok (T "w" [2, 2] 1) := by decide
theorem at2 : tensorAt sg 2 = .ok (T "y" [1, 2] 0) := by decide
theorem at3 : tensorAt sg 3 = .ok (T "z" [1, 2] 0) := by decide
theorem at4 : tensorAt sg 4 = .ok (T "b" [2] 2) := by decide

theorem cx : constData env (T "x" [1, 2] 0) = none := by decide
theorem cy : constData env (T "y" [1, 2] 0) = none := by decide
theorem cz : constData env (T "z" [1, 2] 0) = none := by decide
theorem cw : constData env (T "w" [2, 2] 1) = some ⟨[2, 2], [1, 2, 3, 4]⟩ := by decide +kernel
theorem cb : constData env (T "b" [2] 2) = some ⟨[2], [1/2, -1/4]⟩ := by decide +kernel

theorem stats : StatsComplete rxAll env st qs := by
  intro sg' hsg q hq k scope ops fn S hact a ha hne t hat hf hc
  rw [sgs sg' hsg] at hq S hat
  rcases entries q hq with rfl | rfl | rfl | rfl
  · obtain ⟨rfl, rfl, rfl, rfl⟩ := selFC S
    have : a = 0 ∨ a = 1 ∨ a = 4 ∨ a = 2 := by simpa [qFC, opFC] using ha
    rw [res_eq _ _ acc_FC, kind_FC] at hc
    rcases this with rfl | rfl | rfl | rfl
    · rw [at0] at hat; cases hat; exact ⟨_, rfl⟩
    · rw [at1] at hat; cases hat
      rcases hc with hc | hc
      · rw [cw] at hc; cases hc
      · cases hc
    · rw [at4] at hat; cases hat
      rcases hc with hc | hc
      · rw [cb] at hc; cases hc
      · cases hc
    · rw [at2] at hat; cases hat; exact ⟨_, rfl⟩
  · obtain ⟨rfl, rfl, rfl, rfl⟩ := selTanh S
    have : a = 2 ∨ a = 3 := by simpa [qTanh, opTanh] using ha
    rcases this with rfl | rfl
    · rw [at2] at hat; cases hat; exact ⟨_, rfl⟩
    · rw [at3] at hat; cases hat; exact ⟨_, rfl⟩
  · have : a = 0 := by simpa [inEntry, sg] using ha
    subst this
    rw [at0] at hat; cases hat; exact ⟨_, rfl⟩
  · have : a = 3 := by simpa [outEntry, sg] using ha
    subst this
    rw [at3] at hat; cases hat; exact ⟨_, rfl⟩

theorem hyp : Hyp rxAll env st (some qs) := by
  refine { nf := nf, float := by decide, names := by unfold GenInstsOK.namesUnique; decide, statsGiven := fun _ => rfl,
           noSkip := noSkip_of_b st (by decide), inputsNodup := ?_, tensorsNE := ?_, constNE := ?_,
           stats := stats, shape := ?_ }
  · intro sg' hsg; rw [sgs sg' hsg]; decide
  · intro sg' hsg; rw [sgs sg' hsg]; decide
  · intro sg' hsg t ht d hd
    rw [sgs sg' hsg] at ht
    rcases tensors_cases t ht with rfl | rfl | rfl | rfl | rfl
    · rw [cx] at hd; cases hd
    · rw [cw] at hd; cases hd; exact fun h => by cases h
    · rw [cy] at hd; cases hd
    · rw [cz] at hd; cases hd
    · rw [cb] at hd; cases hd; exact fun h => by cases h
  · intro sg' hsg j op hop k scope ops fn S
    rw [sgs sg' hsg] at hop S ⊢
    have hq := entries (op, none, (j : Int)) (by
      rw [allOps_eq]; exact List.mem_append_left _ (List.mem_map.2 ⟨(op, j), List.mem_zipIdx_iff_getElem?.2 (by simpa using hop), rfl⟩))
    rcases hq with h | h | h | h
    · have hop' : op = opFC := congrArg (·.1) h
      have hj : (j : Int) = ((0 : Nat) : Int) := congrArg (·.2.2) h
      subst hop'
      rw [hj] at S
      obtain ⟨rfl, rfl, rfl, rfl⟩ := selFC S
      rw [res_eq _ _ acc_FC, kind_FC]
      refine ⟨?_, ?_, ?_⟩
      · intro i hi
        rcases i with _ | _ | i
        · exact ⟨0, rfl, by decide⟩
        · exact ⟨1, rfl, by decide⟩
        · omega
      · intro i a t hi hia hat
        rcases slotsFC i a hia with ⟨_, rfl⟩ | ⟨_, rfl⟩ | ⟨rfl, rfl⟩
        · rw [at0] at hat; cases hat; rfl
        · rw [at1] at hat; cases hat; rfl
        · rcases hi with h | h <;> cases h
      · intro _ a bt hia _ hat
        rcases slotsFC 2 a hia with ⟨h, _⟩ | ⟨h, _⟩ | ⟨_, rfl⟩
        · cases h
        · cases h
        · rw [at4] at hat; cases hat
          rw [cb]; exact fun h => by cases h
    · have hop' : op = opTanh := congrArg (·.1) h
      have hj : (j : Int) = ((1 : Nat) : Int) := congrArg (·.2.2) h
      subst hop'
      rw [hj] at S
      obtain ⟨rfl, rfl, rfl, rfl⟩ := selTanh S
      rw [res_eq _ _ acc_TANH, kind_Tanh]
      refine ⟨rfl, ?_⟩
      intro a t ha _ hat
      have : a = 3 := by simpa [opTanh] using ha
      subst this
      rw [at3] at hat; cases hat; rfl
    · cases congrArg (·.2.1) h
    · cases congrArg (·.2.1) h

theorem unshared : Unshared env.model := by
  have hb2t : bufferToTensors env.model = [(0, ["y", "x", "z", "y"]), (1, ["w"]), (2, ["b"])] := by decide
  refine ⟨?_, ?_, ?_⟩
  · intro e he hd
    rw [hb2t] at he
    simp only [List.mem_cons, List.mem_nil_iff, or_false] at he
    rcases he with rfl | rfl | rfl
    · obtain ⟨c, hc⟩ := hd
      cases hc
    · decide
    · decide
  · intro b c hb
    have : b = 1 ∨ b = 2 := by
      rcases b with _ | _ | _ | b
      · cases hb
      · exact .inl rfl
      · exact .inr rfl
      · simp [env, m] at hb
    rcases this with rfl | rfl <;> decide
  · intro sg' hsg i hc o o' h1 h2
    rw [sgs sg' hsg] at hc h1 h2
    have hi : i = 1 ∨ i = 4 := by
      rcases i with _ | _ | _ | _ | _ | i
      · revert hc; decide
      · exact .inl rfl
      · revert hc; decide
      · revert hc; decide
      · exact .inr rfl
      · exfalso
        have hnone : sg.tensors[(((i + 1 + 1 + 1 + 1 + 1 : Nat) : Int)).toNat]? = none := by
          rw [Int.toNat_natCast, List.getElem?_eq_none]
          simp [sg]
        unfold isConst at hc
        rw [if_neg (by omega), hnone] at hc
        cases hc
    have key : ∀ i, (i = 1 ∨ i = 4) → ∀ o, ConsumedAt sg i o → o = 0 := by
      intro i hi o h
      rcases h with ⟨h0, op, hop, hm⟩ | ⟨_, hm⟩
      · have : o.toNat = 0 ∨ o.toNat = 1 := by
          have := (List.getElem?_eq_some_iff.1 hop).1
          simp only [sg, List.length_cons, List.length_nil] at this
          omega
        rcases this with h | h
        · omega
        · rw [h] at hop
          simp only [sg, List.getElem?_cons_succ, List.getElem?_cons_zero, Option.some.injEq] at hop
          subst hop
          rcases hi with rfl | rfl <;> exact absurd hm (by decide)
      · rcases hi with rfl | rfl <;> exact absurd hm (by decide)
    rw [key i hi o h1, key i hi o' h2]

theorem kinds (q : Op × Option String × Int) (hq : q ∈ allOps sg) (k scope fn : String) (ops : List (String × String))
    (S : Selected rxAll env st sg q k scope ops fn) :
    (q = qFC ∧ k = "FULLY_CONNECTED" ∧ kindOf (Recipe.resolve rxAll st k scope).1 fn = .conv) ∨
    kindOf (Recipe.resolve rxAll st k scope).1 fn = .fixed false ∨
    kindOf (Recipe.resolve rxAll st k scope).1 fn = .std .none [] := by
  rcases entries q hq with rfl | rfl | rfl | rfl
  · obtain ⟨rfl, rfl, rfl, rfl⟩ := selFC S
    rw [res_eq _ _ acc_FC, kind_FC]; exact .inl ⟨rfl, rfl, rfl⟩
  · obtain ⟨rfl, rfl, rfl, rfl⟩ := selTanh S
    rw [res_eq _ _ acc_TANH, kind_Tanh]; exact .inr (.inl rfl)
  · obtain ⟨rfl, rfl, rfl, rfl⟩ := selIn S
    rw [res_eq _ _ acc_IN, kind_In]; exact .inr (.inr rfl)
  · obtain ⟨rfl, rfl, rfl, rfl⟩ := selOut S
    rw [res_eq _ _ acc_OUT, kind_Out]; exact .inr (.inr rfl)

/-- the instance is bounded; the bias clause is used in earnest: the bias `b` has 2 = `w.shape[0]` elements
    (`weightQDim FULLY_CONNECTED = 0`), the data operand `x` is a runtime tensor -/
theorem bounded : Bounded rxAll env st (some qs) := by
  refine { consts := ?_, stats := ?_, concat := ?_, bias := ?_, cast := ?_ }
  · intro sg' hsg t ht d hd x hx
    rw [sgs sg' hsg] at ht
    rcases tensors_cases t ht with rfl | rfl | rfl | rfl | rfl
    · rw [cx] at hd; cases hd
    · rw [cw] at hd; cases hd
      have hall : ([1, 2, 3, 4] : List Rat).all finB = true := by decide
      exact finB_sound x (List.all_eq_true.1 hall x hx)
    · rw [cy] at hd; cases hd
    · rw [cz] at hd; cases hd
    · rw [cb] at hd; cases hd
      have hall : ([1/2, -1/4] : List Rat).all finB = true := by decide +kernel
      exact finB_sound x (List.all_eq_true.1 hall x hx)
  · intro n _ mn mx hget
    have hm := C13.mem_of_dictGet _ _ _ hget
    have := List.all_eq_true.1 Inst.qs_good _ hm
    exact statGoodB_sound (mn, mx) this
  · intro sg' hsg q hq k scope ops fn S gi hk
    rw [sgs sg' hsg] at hq S
    rcases kinds q hq k scope fn ops S with ⟨_, _, h⟩ | h | h <;> rw [h] at hk <;> cases hk
  · intro sg' hsg q hq k scope ops fn S _ iIn iW iB hcs a bt ha hne hat
    rw [sgs sg' hsg] at hq S hat ⊢
    rcases kinds q hq k scope fn ops S with ⟨rfl, rfl, h⟩ | h | h <;> rw [h] at hcs <;> cases hcs
    rcases slotsFC 2 a ha with ⟨h, _⟩ | ⟨h, _⟩ | ⟨_, rfl⟩
    · cases h
    · cases h
    rw [at4] at hat; cases hat
    refine ⟨⟨2, rfl, ?_⟩, ?_⟩
    · intro aw tW haw hatW qd hqd
      rcases slotsFC 1 aw haw with ⟨h, _⟩ | ⟨_, rfl⟩ | ⟨h, _⟩
      · cases h
      · rw [at1] at hatW; cases hatW
        have : Py.dictGet? Tables.weightQDim "FULLY_CONNECTED" = some 0 := by decide
        rw [this] at hqd; cases hqd
        rfl
      · cases h
    · intro ai tI hai hatI
      rcases slotsFC 0 ai hai with ⟨_, rfl⟩ | ⟨h, _⟩ | ⟨h, _⟩
      · rw [at0] at hatI; cases hatI; exact cx
      · cases h
      · cases h
  · intro sg' hsg q hq k scope ops fn S a b c hk
    rw [sgs sg' hsg] at hq S
    rcases kinds q hq k scope fn ops S with ⟨_, _, h⟩ | h | h <;> rw [h] at hk <;> cases hk

/-- ALL hypotheses of `quantize_total` hold on the instance with a bias -/
theorem quantize_ok : ∃ m' tbl, Pipeline.quantizePure rxAll env st (some qs) = .ok (m', tbl) ∧ WF.modelOK m' = true :=
  quantize_total rxAll env st (some qs) hyp unshared bounded (by decide)

/-- (cross-check by kernel evaluation: five requests) -/
example : (match Mat.generate rxAll env st (some qs) with | .ok r => r.length | .error _ => 0) = 5 := by decide +kernel

/-! ### the clauses of `Bounded` about shapes are needed -/

/-- `bias` (one element per output channel): a bias of length 3 for a weight with 2 rows -- ValueError (broadcast) at the
    numeric site `BiasSite.quantize` -/
def envLen : Env := { env with
  model := { m with subgraphs := [{ sg with tensors := [T "x" [1, 2] 0, T "w" [2, 2] 1, T "y" [1, 2] 0, T "z" [1, 2] 0, T "b" [3] 2] }] },
  consts := [(1, [1, 2, 3, 4]), (2, [1/2, -1/4, 1])] }
example : errIs (Mat.generate rxAll envLen st (some qs)) .valueError = true := by decide +kernel

/-- `stats` (per-tensor entries): statistics of the data operand `x` of shape `[3]` -- the scale product has shape `[2,3]`,
    which no bias vector matches: `unsupported` (the `fix_quantization_params_rank` fall-through; Python raises ValueError) -/
def qsWide : Qsvs :=
  [("x", some (⟨⟨[3], [-1, -1, -1]⟩, .f32⟩, ⟨⟨[3], [1, 1, 1]⟩, .f32⟩)), ("y", some (f32 [-2], f32 [2])), ("z", some (f32 [-1], f32 [1]))]
example : (match Mat.generate rxAll env st (some qsWide) with | .ok _ => false | .error _ => true) = true := by decide +kernel

/-- `bias` (the data operand is a runtime tensor): a CONSTANT data operand `x` of shape `[3,2]` gets per-channel parameters
    of shape `[3,1]` (weight config, dimension 0), which do not broadcast against the weight's `[2,1]` -- ValueError -/
def envConstIn : Env := { env with
  model := { m with
    subgraphs := [{ sg with tensors := [T "x" [3, 2] 3, T "w" [2, 2] 1, T "y" [3, 2] 0, T "z" [3, 2] 0, T "b" [2] 2], inputs := [] }],
    buffers := [none, some (.inl 0), some (.inl 1), some (.inl 2)] },
  consts := [(1, [1, 2, 3, 4]), (2, [1/2, -1/4]), (3, [1, 2, 3, 4, 5, 6])] }
example : errIs (Mat.generate rxAll envConstIn st (some qs)) .valueError = true := by decide +kernel

/-- … and in all three cases the same run WITHOUT the bias operand succeeds: the failures are failures of the bias -/
def noBias (e : Env) : Env :=
  { e with model := { e.model with subgraphs := e.model.subgraphs.map fun s =>
      { s with ops := s.ops.map fun o => { o with inputs := o.inputs.take 2 } } } }
example : (match Mat.generate rxAll (noBias envLen) st (some qs) with | .ok r => r.length | .error _ => 0) = 4 ∧
    (match Mat.generate rxAll (noBias env) st (some qsWide) with | .ok r => r.length | .error _ => 0) = 4 ∧
    (match Mat.generate rxAll (noBias envConstIn) st (some qs) with | .ok r => r.length | .error _ => 0) = 4 := by
  refine ⟨?_, ?_, ?_⟩ <;> decide +kernel

end InstB

/-! ## the clauses `concat` and `cast` are needed -/

namespace InstC
open Inst (T f32 rxAll st qs errIs)

def opCat : Op := { code := 0, inputs := [0, 1], outputs := [2], orig := some 0 }
/-- `y := CONCATENATION(x, c)` with a constant `c` of shape `cshape` -/
def sgCat (cshape : List Int) : Subgraph :=
  { tensors := [T "x" [1, 2] 0, T "c" cshape 1, T "y" [1, 4] 0], ops := [opCat], inputs := [0], outputs := [2] }
def envCat (cshape : List Int) : Env :=
  { model := { subgraphs := [sgCat cshape], buffers := [none, some (.inl 0)], opcodes := [2], sigs := [] },
    consts := [(1, [1, 2])], adjY := [] }
def qsCat : Qsvs := [("x", some (f32 [-1], f32 [1])), ("y", some (f32 [-2], f32 [2]))]

/-- `concat`: a constant operand of rank 1 cannot be quantized with the rank-2 parameters of the result (`unsupported`: the
    `fix_quantization_params_rank` fall-through; the Python code raises ValueError); with a rank-2 constant the run succeeds -/
example : errIs (Mat.generate rxAll (envCat [2]) st (some qsCat)) .unsupported = true ∧
    (match Mat.generate rxAll (envCat [1, 2]) st (some qsCat) with | .ok r => r.length | .error _ => 0) = 3 := by
  constructor <;> decide +kernel

/-- float16 weight-only quantization of FULLY_CONNECTED (accepted by the policy) -/
def st16 : Recipe.State :=
  [(".*", [⟨".*", "FULLY_CONNECTED", Tables.algFloatCasting, { act := none, weight := some { bits := 16, dtype := .float }, cp := .float }⟩])]

/-- `cast`: a weight of `65520` overflows float16 (`nonfinite`: IEEE arithmetic stores `inf`); `65504` is fine -/
example : errIs (Mat.generate rxAll { Inst.env with consts := [(1, [1, 2, 3, 65520])] } st16 none) .nonfinite = true ∧
    (match Mat.generate rxAll { Inst.env with consts := [(1, [1, 2, 3, 65504])] } st16 none with
      | .ok r => r.length | .error _ => 0) = 4 := by
  constructor <;> decide +kernel

end InstC

/-! ## 4. statistics recorded by `calibrate()` are good and ordered -/

/-- one element of `_update_moving_average` on float32 statistics: `rn32 (rn32 (c1·w) + rn32 (c2·u))` -/
abbrev emaE := @MatTotal.emaE
/-- good AND ordered float32 statistics: `StatGood` with float32 arrays and `min ≤ max` -/
abbrev StatOrd := @MatTotal.StatOrd

/-- the moving average is monotone in the old and in the new value (`C17.rn_mono`; the weights are non-negative) … -/
theorem emaE_mono {w w' u u' : Rat} (hw : w ≤ w') (hu : u ≤ u') : emaE w u ≤ emaE w' u' := MatTotal.emaE_mono hw hu

/-- … and `B = 2^63` is a fixed point of it: it keeps magnitudes within `B` -/
theorem emaE_bounded {w u : Rat} (hw : |w| ≤ B) (hu : |u| ≤ B) : |emaE w u| ≤ B := MatTotal.emaE_bounded hw hu

/-- **`moving_average_update` keeps `min ≤ max`** (and finiteness, and the per-tensor shape): the rounded moving average
    of ordered pairs is ordered -/
theorem ema_ordered (mn mx nmn nmx : FArr) (O : StatOrd mn mx) (N : StatOrd nmn nmx) (v : Mat.Qsv)
    (h : Calib.ema (some (mn, mx)) (some (nmn, nmx)) = .ok v) : ∃ a b, v = some (a, b) ∧ StatOrd a b :=
  MatTotal.ema_ord mn mx nmn nmx O N v h

theorem StatOrd.good {mn mx : FArr} (h : StatOrd mn mx) : StatGood mn mx := MatTotal.StatOrd.good h

/-- **after a fresh `calibrate()` the clause `Bounded.stats` holds, and the recorded ranges are ordered** -- for a model
    with one subgraph and unique tensor names, at least one sample, same-as-input operators on runtime tensors (the
    hypotheses of `C08.stats_of_calibration`), whenever all tensor contents of all samples are float32 with magnitudes at
    most `B` -/
theorem stats_bounded_of_calibration (rx : String → String → Bool) (env : Env) (st : Recipe.State) (sg : Subgraph)
    (hone : env.model.subgraphs = [sg]) (hnd : (sg.tensors.map (·.name)).Nodup)
    (hpass : ∀ q ∈ Pipe.allOps sg, ∀ k scope ops fn, Selected rx env st sg q k scope ops fn →
      (kindOf (Recipe.resolve rx st k scope).1 fn).isPass = true →
      ∀ a ∈ q.1.inputs ++ q.1.outputs, a ≠ -1 → ∀ t, tensorAt sg a = .ok t → constData env t = none)
    (samples : List Calib.Contents) (hne : samples ≠ []) (qs : Qsvs)
    (hneed : Recipe.needCalibration st = true)
    (h : Calib.calibrate rx env st 0 none samples = .ok qs)
    (hcont : ∀ c ∈ samples, ∀ n d, Py.dictGet? c n = some d → d.pr = .f32 ∧ ∀ v ∈ d.arr.data, |v| ≤ B) :
    ∀ n, StatName rx env st n → ∀ mn mx, Py.dictGet? qs n = some (some (mn, mx)) → StatOrd mn mx :=
  MatTotal.stats_bounded_of_calibration rx env st sg hone hnd hpass samples hne qs hneed h hcont

/-- non-vacuity of `ema_ordered`: the statistics `[-1, 1]` and `[-2, 3]` -/
example : ∃ a b, Calib.ema (some (Inst.f32 [-1], Inst.f32 [1])) (some (Inst.f32 [-2], Inst.f32 [3])) = .ok (some (a, b)) ∧
    StatOrd a b := by
  have O : StatOrd (Inst.f32 [-1]) (Inst.f32 [1]) :=
    ⟨rfl, rfl, rfl, by decide, fun v hv => finB_sound v (by revert v; decide),
      fun v hv => finB_sound v (by revert v; decide), by
        intro k; rcases k with _ | k
        · decide
        · simp [Inst.f32]⟩
  have N : StatOrd (Inst.f32 [-2]) (Inst.f32 [3]) :=
    ⟨rfl, rfl, rfl, by decide, fun v hv => finB_sound v (by revert v; decide),
      fun v hv => finB_sound v (by revert v; decide), by
        intro k; rcases k with _ | k
        · decide
        · simp [Inst.f32]⟩
  cases h : Calib.ema (some (Inst.f32 [-1], Inst.f32 [1])) (some (Inst.f32 [-2], Inst.f32 [3])) with
  | error e =>
    have : (match Calib.ema (some (Inst.f32 [-1], Inst.f32 [1])) (some (Inst.f32 [-2], Inst.f32 [3])) with
      | .ok _ => true | .error _ => false) = true := by decide +kernel
    rw [h] at this
    cases this
  | ok v =>
    obtain ⟨a, b, rfl, hab⟩ := ema_ordered _ _ _ _ O N v h
    exact ⟨a, b, rfl, hab⟩

end C08
