import QProofs.BlockwiseHalf
import QProofs.BlockwiseTotal
import QProofs.BlockwiseRef
import QProofs.BlockwiseMat
import QProps.C17
import QProps.C17b
/-!
# C17d — the BLOCKWISE ("emulated sub-channel") weight quantization, as the library computes it

Model: `QModel/Blockwise.lean` (`Blockwise.minMax`, `params`, `quantize`, `run`), tied to the Python functions
`init_tensor_min_max` (BLOCKWISE branch), `_get_tensor_quant_params` (BLOCKWISE branch),
`uniform_quantize_for_emulated_subchannel` and `check_subchannel_config` by the bit-exact differential check
`fam_blockwise.py` (driver command `"blockwise"`).

A weight is `fcWeight o f d pr`: `o` output channels, `f` input features, row-major data `d`, float format `pr`
(`Prec.f32` in the library, `Prec.exact` for the textbook laws).  `el d f c j` is `w[c][j]`; `rowMin d f c` / `rowMax d f c`
are the extrema of the WHOLE row `c`; `blockMin d f bs c b` / `blockMax d f bs c b` those of block `b` of row `c`.

* (a) `blockwise_ok_iff`, `blockwise_error_class`, `blockwise_shapes`, `blockwise_layout`;
* (b) `blockwise_scale_is_row_scale`, `blockwise_is_channelwise` (+ `channelwise_is_materialize`): **finding D41** — granularity BLOCKWISE is CHANNELWISE up to the
  data layout: one scale per output channel, from the range of the whole row; the block size only decides the reshape;
* (c) `blockwise_half_step_ideal`, `blockwise_half_step_f32`: consequently the half-step law holds with the CHANNEL's step;
* (d) `blockwise_granularity_not_honoured`: closed witness;
* (e) `ref_half_step_ideal`: the per-block reference (`Blockwise.refQuantize`) satisfies the per-BLOCK half-step law.
-/
open Num Nd Arith Blockwise BlockwiseL

set_option autoImplicit false

namespace C17

/-- a row-major FULLY_CONNECTED weight of shape `[o, f]` -/
abbrev fcWeight (o f : Nat) (d : List Rat) (pr : Prec) : FArr := ⟨⟨[o, f], d⟩, pr⟩

/-! ## scalar laws: symmetric quantization of one channel -/

/-- ideal arithmetic, symmetric: EVERY value of the calibrated range `[mn, mx]` is in the integer range, hence comes back
    within half a step (the symmetric counterpart of `cover_ideal`) -/
theorem sym_half_step_ideal (bits : Nat) (hb2 : 2 ≤ bits) (hb : bits ≤ 32) (zw : Nat) (mn mx x : Rat)
    (h1 : mn ≤ x) (h2 : x ≤ mx) (z : Int) (s : Rat) (h : zpScale1 .exact bits true mn mx = .ok (z, s))
    (c : Int) (hq : quantize1 .exact .exact zw bits true x s z = .ok c) :
    z = 0 ∧ s = maxR (maxR (absR mn) (absR mx)) (1/10000) / ((qmax bits : Int) : Rat) ∧ 0 < s ∧
    qmin bits + 1 ≤ c ∧ c ≤ qmax bits ∧ |(c : Rat) * s - x| ≤ s / 2 := by
  obtain ⟨hz, hs, hs0, hr⟩ := sym_exact bits hb2 (by omega) mn mx z s h
  obtain ⟨r1, r2⟩ := hr x h1 h2
  subst hz
  have hc : c = roundClip bits true (qSum .exact .exact zw x s 0) := by
    unfold quantize1 at hq
    rw [if_neg (ne_of_gt hs0)] at hq
    have hfin : (fin .exact (qInv .exact s) && fin (Prec.exact.join .exact) (qProd .exact .exact x s)
        && fin (promoteInt (Prec.exact.join .exact) zw) (qSum .exact .exact zw x s 0)) = true := rfl
    rw [if_pos hfin] at hq
    exact (Except.ok.inj hq).symm
  obtain ⟨q1, q2⟩ := q_in_range bits hb2 hb true (qSum .exact .exact zw x s 0)
  have hneg : ((qmin bits + (if true = true then 1 else 0) - 0 : Int) : Rat) = -((qmax bits : Int) : Rat) := by
    rw [if_pos rfl]; unfold qmin qmax; push_cast; ring
  have hd := dq_q_ideal bits hb2 hb true zw s hs0 0 x
    (by rw [hneg]; linarith) (by rw [Int.sub_zero]; exact r2)
  rw [← hc] at q1 q2 hd
  simp only [if_true, Int.sub_zero] at q1 hd
  exact ⟨rfl, hs, hs0, q1, q2, hd⟩

/-- float32 arithmetic as numpy performs it, symmetric: EVERY value of the calibrated range `[mn, mx]` comes back within
    half a step plus the float32 slack of `dq_q_rounded` — including the extreme value, which a scale rounded downwards
    leaves marginally outside `qmax · s` -/
theorem sym_half_step_f32 (bits : Nat) (hb2 : 2 ≤ bits) (hb16 : bits ≤ 16) (mn mx x : Rat)
    (hmn : |mn| ≤ NumT.B) (hmx : |mx| ≤ NumT.B) (h1 : mn ≤ x) (h2 : x ≤ mx) (z : Int) (s : Rat)
    (h : zpScale1 .f32 bits true mn mx = .ok (z, s))
    (c : Int) (hq : quantize1 .f32 .f32 (storageBits bits) bits true x s z = .ok c) :
    z = 0 ∧ 0 < s ∧ qmin bits + 1 ≤ c ∧ c ≤ qmax bits ∧
    |dqVal true (storageBits bits) (storageBits bits) .f32 c 0 s - x|
      ≤ s * (1/2 + (2:Rat)^(bits + 3) * ArithRounded.u32) := by
  obtain ⟨hz, hs0, hd⟩ := dq_q_sym_f32 bits hb2 hb16 mn mx x hmn hmx h1 h2 z s h
  subst hz
  have hc : c = roundClip bits true (qSum .f32 .f32 (storageBits bits) x s 0) := by
    unfold quantize1 at hq
    rw [if_neg (ne_of_gt hs0)] at hq
    split at hq
    · exact (Except.ok.inj hq).symm
    · cases hq
  obtain ⟨q1, q2⟩ := q_in_range bits hb2 (by omega) true (qSum .f32 .f32 (storageBits bits) x s 0)
  rw [← hc] at q1 q2 hd
  simp only [if_true] at q1
  exact ⟨rfl, hs0, q1, q2, hd⟩

/-! ## (a) success, error class, shapes, layout -/

/-- **success**: on finite data (float32 / float64 / ideal arithmetic, magnitudes ≤ 2^63, 2..16 bits) every entry point
    succeeds exactly when the block size is a positive divisor of the row length `f` -/
theorem blockwise_ok_iff (o f bs bits : Nat) (sym : Bool) (d : List Rat) (hd : d.length = o * f) (pr : Prec)
    (ho : 0 < o) (hf : 0 < f) (hpr : NumT.F3264 pr) (hbd : ∀ v ∈ d, |v| ≤ NumT.B) (hb2 : 2 ≤ bits) (hb16 : bits ≤ 16) :
    ((∃ r, minMax (fcWeight o f d pr) bs = .ok r) ↔ (0 < bs ∧ bs ∣ f)) ∧
    ((∃ r, params (fcWeight o f d pr) bs bits sym = .ok r) ↔ (0 < bs ∧ bs ∣ f)) ∧
    ((∃ r, quantize (fcWeight o f d pr) bs bits sym = .ok r) ↔ (0 < bs ∧ bs ∣ f)) ∧
    ((∃ r, run (fcWeight o f d pr) bs bits sym = .ok r) ↔ (0 < bs ∧ bs ∣ f)) := by
  have tot : (0 < bs ∧ bs ∣ f) → ∃ mn mx qp q, run (fcWeight o f d pr) bs bits sym = .ok (mn, mx, qp, q) := by
    rintro ⟨hb, hdvd⟩
    obtain ⟨q, hq⟩ := quantize_total o f bs bits sym d hd pr ho hf hpr hbd hb2 hb16 hb hdvd
    obtain ⟨mn, mx, qp, hr⟩ := run_of_quantize _ bs bits sym q hq
    exact ⟨mn, mx, qp, q, hr⟩
  refine ⟨⟨?_, ?_⟩, ⟨?_, ?_⟩, ⟨?_, ?_⟩, ⟨?_, ?_⟩⟩
  · rintro ⟨⟨mn, mx⟩, h⟩
    obtain ⟨h1, h2, _⟩ := minMax_spec o f bs d pr mn mx h
    exact ⟨h1, h2⟩
  · intro h
    obtain ⟨mn, mx, qp, q, hr⟩ := tot h
    exact ⟨_, (run_ok _ bs bits sym mn mx qp q hr).1⟩
  · rintro ⟨qp, h⟩
    obtain ⟨h1, h2, _⟩ := params_spec o f bs bits sym d pr qp h
    exact ⟨h1, h2⟩
  · intro h
    obtain ⟨mn, mx, qp, q, hr⟩ := tot h
    exact ⟨_, (run_ok _ bs bits sym mn mx qp q hr).2.1⟩
  · rintro ⟨q, h⟩
    obtain ⟨qp, hp, _⟩ := quantize_spec o f bs bits sym d pr q h
    obtain ⟨h1, h2, _⟩ := params_spec o f bs bits sym d pr qp hp
    exact ⟨h1, h2⟩
  · intro h
    obtain ⟨mn, mx, qp, q, hr⟩ := tot h
    exact ⟨_, (run_ok _ bs bits sym mn mx qp q hr).2.2⟩
  · rintro ⟨⟨mn, mx, qp, q⟩, h⟩
    obtain ⟨h1, h2, _⟩ := minMax_spec o f bs d pr mn mx (run_ok _ bs bits sym mn mx qp q h).1
    exact ⟨h1, h2⟩
  · intro h
    obtain ⟨mn, mx, qp, q, hr⟩ := tot h
    exact ⟨_, hr⟩

/-- **error class**: a block size that is 0 (`check_subchannel_config`) or does not divide `f` (`init_tensor_min_max`) is
    `ValueError` from every entry point, whatever the data; so is a tensor that is not 2-D (`np.transpose(w, (1, 0))`) -/
theorem blockwise_error_class (o f bs bits : Nat) (sym : Bool) (d : List Rat) (pr : Prec) (hb : ¬ (0 < bs ∧ bs ∣ f)) :
    minMax (fcWeight o f d pr) bs = .error .valueError ∧ params (fcWeight o f d pr) bs bits sym = .error .valueError ∧
    quantize (fcWeight o f d pr) bs bits sym = .error .valueError ∧ run (fcWeight o f d pr) bs bits sym = .error .valueError :=
  run_err o f bs bits sym d pr hb

theorem blockwise_error_rank (w : FArr) (bs bits : Nat) (sym : Bool) (h : w.arr.shape.length ≠ 2) :
    run w bs bits sym = .error .valueError := run_err_rank w bs bits sym h

/-- **shapes**: statistics, scales and zero points have shape `[1,1,1,o]` (one cell per OUTPUT CHANNEL, none per block);
    the quantized data has shape `[1, f/bs, bs, o]` with `o * f` elements; no quantized dimension is recorded -/
theorem blockwise_shapes (o f bs bits : Nat) (sym : Bool) (d : List Rat) (pr : Prec) (mn mx : FArr) (qp : QParams) (q : IArr)
    (h : run (fcWeight o f d pr) bs bits sym = .ok (mn, mx, qp, q)) :
    mn.arr.shape = [1, 1, 1, o] ∧ mx.arr.shape = [1, 1, 1, o] ∧ mn.arr.data.length = o ∧ mx.arr.data.length = o ∧
    qp.scale.arr.shape = [1, 1, 1, o] ∧ qp.zp.arr.shape = [1, 1, 1, o] ∧
    qp.scale.arr.data.length = o ∧ qp.zp.arr.data.length = o ∧ qp.qdim = none ∧ qp.bits = bits ∧ qp.symmetric = sym ∧
    q.arr.shape = [1, f / bs, bs, o] ∧ f / bs * bs = f ∧ q.arr.data.length = o * f ∧ q.w = storageBits bits := by
  obtain ⟨hmm, hp, hq⟩ := run_ok _ bs bits sym mn mx qp q h
  obtain ⟨_, hdvd, _, _, _, _, s1, s2, l1, l2, _⟩ := minMax_spec o f bs d pr mn mx hmm
  obtain ⟨_, _, _, _, q1, q2, q3, _, _, q6, q7, q8, q9, _⟩ := params_spec o f bs bits sym d pr qp hp
  obtain ⟨_, _, w1, w2, w3, _⟩ := quantize_spec o f bs bits sym d pr q hq
  exact ⟨s1, s2, l1, l2, q6, q7, q8, q9, q3, q1, q2, w2, Nat.div_mul_cancel hdvd, by rw [w3, Nat.mul_comm], w1⟩

theorem ravel4 (B bs o b k c : Nat) : ravel [1, B, bs, o] [0, b, k, c] = (b * bs + k) * o + c := by
  simp only [ravel, numel, List.foldl, Nat.one_mul, Nat.zero_mul, Nat.zero_add, Nat.mul_one, Nat.add_zero]
  rw [Nat.add_mul, Nat.mul_assoc, Nat.add_assoc]

/-- **layout**: `data[0][b][k][c] = q(w[c][b*bs + k])`, every element of row `c` being quantized with the ONE
    (zero point, scale) of output channel `c` -/
theorem blockwise_layout (o f bs bits : Nat) (sym : Bool) (d : List Rat) (pr : Prec) (qp : QParams) (q : IArr)
    (hp : params (fcWeight o f d pr) bs bits sym = .ok qp) (hq : quantize (fcWeight o f d pr) bs bits sym = .ok q) :
    ∀ c < o, ∀ b < f / bs, ∀ k < bs,
      quantize1 pr pr (storageBits bits) bits sym (el d f c (b * bs + k))
        (qp.scale.arr.data.getD c 0) (qp.zp.arr.data.getD c 0)
        = .ok (q.arr.data.getD (ravel [1, f / bs, bs, o] [0, b, k, c]) 0) := by
  obtain ⟨qp', hp', _, _, _, hel⟩ := quantize_spec o f bs bits sym d pr q hq
  rw [hp] at hp'
  cases hp'
  obtain ⟨_, hdvd, _⟩ := params_spec o f bs bits sym d pr qp hp
  intro c hc b hb k hk
  rw [ravel4]
  exact hel c hc (b * bs + k) (blk_lt f bs b k hdvd hb hk)

/-! ## (b) what the library really computes: CHANNELWISE up to the data layout -/

/-- the row extrema are what their names say (`f > 0`) -/
theorem rowMin_spec (d : List Rat) (f c : Nat) (hf : 0 < f) :
    (∃ j < f, rowMin d f c = el d f c j) ∧ ∀ j < f, rowMin d f c ≤ el d f c j :=
  ⟨(segMin_isSel _ f hf).mem, (segMin_isSel _ f hf).all⟩

theorem rowMax_spec (d : List Rat) (f c : Nat) (hf : 0 < f) :
    (∃ j < f, rowMax d f c = el d f c j) ∧ ∀ j < f, el d f c j ≤ rowMax d f c :=
  ⟨(segMax_isSel _ f hf).mem, (segMax_isSel _ f hf).all⟩

/-- **the scale of channel `c` is the reference symmetric formula on the range of the WHOLE row `c`** (all blocks):
    the block size does not enter the parameters at all -/
theorem blockwise_scale_is_row_scale (o f bs bits : Nat) (d : List Rat) (pr : Prec) (qp : QParams)
    (hp : params (fcWeight o f d pr) bs bits true = .ok qp) :
    ∀ c < o, qp.zp.arr.data.getD c 0 = 0 ∧
      qp.scale.arr.data.getD c 0 = symScale pr bits (rowMin d f c) (rowMax d f c) := by
  obtain ⟨_, _, _, _, _, _, _, _, _, _, _, _, _, hzs⟩ := params_spec o f bs bits true d pr qp hp
  intro c hc
  exact zpScale1_sym pr bits _ _ _ _ (hzs c hc)

/-- … in ideal arithmetic: `max(|row min|, |row max|, 1e-4) / (2^(bits-1) - 1)` -/
theorem blockwise_scale_ideal (o f bs bits : Nat) (hb2 : 2 ≤ bits) (hb : bits ≤ 32) (d : List Rat) (qp : QParams)
    (hp : params (fcWeight o f d .exact) bs bits true = .ok qp) :
    ∀ c < o, qp.scale.arr.data.getD c 0
      = maxR (maxR (absR (rowMin d f c)) (absR (rowMax d f c))) (1/10000) / ((qmax bits : Int) : Rat) := by
  obtain ⟨_, _, _, _, _, _, _, _, _, _, _, _, _, hzs⟩ := params_spec o f bs bits true d .exact qp hp
  intro c hc
  exact (sym_exact bits hb2 (by omega) _ _ _ _ (hzs c hc)).2.1

/-- **BLOCKWISE as implemented is CHANNELWISE up to the data layout** (finding D41): whenever the BLOCKWISE quantization of
    a well-formed weight succeeds, so does its ordinary per-channel quantization along dimension 0
    (`Blockwise.channelwise`: `init_tensor_min_max` with `reduce_dims = (1,)`, `tensor_zp_scale_from_min_max`,
    `uniform_quantize`), with the SAME scales and zero points, and the BLOCKWISE codes are the per-channel codes,
    transposed: `data[0][b][k][c] = q_channelwise[c][b*bs + k]` -/
theorem blockwise_is_channelwise (o f bs bits : Nat) (sym : Bool) (d : List Rat) (hd : d.length = o * f) (pr : Prec)
    (q : IArr) (h : quantize (fcWeight o f d pr) bs bits sym = .ok q) :
    ∃ qp qp' q', params (fcWeight o f d pr) bs bits sym = .ok qp ∧
      channelwise (fcWeight o f d pr) bits sym = .ok (qp', q') ∧
      qp.scale.arr.data = qp'.scale.arr.data ∧ qp.zp.arr.data = qp'.zp.arr.data ∧
      qp'.scale.arr.shape = [o, 1] ∧ qp.scale.arr.shape = [1, 1, 1, o] ∧
      q'.arr.shape = [o, f] ∧ q.arr.shape = [1, f / bs, bs, o] ∧
      (∀ c < o, ∀ j < f, q.arr.data.getD (j * o + c) 0 = q'.arr.data.getD (c * f + j) 0) ∧
      ∀ c < o, ∀ b < f / bs, ∀ k < bs,
        q.arr.data.getD (ravel [1, f / bs, bs, o] [0, b, k, c]) 0 = q'.arr.data.getD (ravel [o, f] [c, b * bs + k]) 0 := by
  obtain ⟨⟨qp', q'⟩, h'⟩ := channelwise_of_blockwise o f bs bits sym d hd pr q h
  obtain ⟨qp, hp, e1, e2, hcodes⟩ := codes_eq o f bs bits sym d hd pr q qp' q' h h'
  obtain ⟨_, hdvd, _, _, _, _, _, _, _, s6, _⟩ := params_spec o f bs bits sym d pr qp hp
  obtain ⟨_, _, _, _, _, _, _, s6', _, _, _, _, _, w2', _⟩ := channelwise_spec o f bits sym d hd pr qp' q' h'
  obtain ⟨_, _, _, w2, _⟩ := quantize_spec o f bs bits sym d pr q h
  refine ⟨qp, qp', q', hp, h', e1, e2, s6', s6, w2', w2, hcodes, ?_⟩
  intro c hc b hb k hk
  have e : ravel [o, f] [c, b * bs + k] = c * f + (b * bs + k) := by
    simp only [ravel, numel, List.foldl, Nat.one_mul, Nat.mul_one, Nat.add_zero]
  rw [ravel4, e]
  exact hcodes c hc (b * bs + k) (blk_lt f bs b k hdvd hb hk)

/-- `Blockwise.channelwise` is not a new reference: it IS the model's ordinary materialisation of a FULLY_CONNECTED weight
    under a CHANNELWISE weight configuration (`Mat.initMinMax` followed by `Mat.tensorQuantParams`, the path `Mat.wrapper`
    takes for a constant operand, itself tied to the library by the pipeline correspondence checks) -/
theorem channelwise_is_materialize (env : Mat.Env) (oi : Mat.OpInfo) (t : Graph.Tensor) (tc : Cfg.TCfg) (o f : Nat)
    (d : List Rat) (hname : oi.opName = "FULLY_CONNECTED") (hw : oi.cfg.weight = some tc) (hg : tc.gran = .channelwise)
    (hrank : t.shape.length = 2) :
    (Mat.initMinMax env oi t ⟨[o, f], d⟩ >>= fun mm => Mat.tensorQuantParams env oi (some mm) tc (some ⟨[o, f], d⟩))
      = (channelwise (fcWeight o f d .f32) tc.bits.toNat tc.symmetric).map (fun r => Mat.Param.uniform r.1 (some r.2)) :=
  channelwise_is_mat env oi t tc o f d hname hw hg hrank

/-- its hypotheses describe an ordinary FULLY_CONNECTED operator with an 8-bit per-channel weight configuration -/
example : ∃ (oi : Mat.OpInfo) (t : Graph.Tensor) (tc : Cfg.TCfg),
    oi.opName = "FULLY_CONNECTED" ∧ oi.cfg.weight = some tc ∧ tc.gran = .channelwise ∧ t.shape.length = 2 :=
  ⟨{ sgIdx := 0, op := { code := 0, inputs := [0, 1, -1], outputs := [2] }, opName := "FULLY_CONNECTED", opId := 0,
     cfg := { weight := some { bits := 8, gran := .channelwise }, cp := .integer } },
   { name := "w", dtype := 0, shape := [1, 4], buffer := 1 }, { bits := 8, gran := .channelwise }, rfl, rfl, rfl, rfl⟩

/-- conversely, BLOCKWISE succeeds whenever the per-channel quantization does and the block size is a positive divisor of `f` -/
theorem blockwise_ok_iff_channelwise (o f bs bits : Nat) (sym : Bool) (d : List Rat) (hd : d.length = o * f) (pr : Prec) :
    (∃ q, quantize (fcWeight o f d pr) bs bits sym = .ok q) ↔
      (0 < bs ∧ bs ∣ f ∧ ∃ r, channelwise (fcWeight o f d pr) bits sym = .ok r) :=
  quantize_ok_iff o f bs bits sym d hd pr

/-! ## (c) the half-step law, with the CHANNEL's step -/

/-- **ideal arithmetic**: zero points are 0, scales positive, all codes in the narrow range, and every element is within
    half a step of its original — where the step is that of its output CHANNEL (the range of the whole row), not of its block -/
theorem blockwise_half_step_ideal (o f bs bits : Nat) (hb2 : 2 ≤ bits) (hb : bits ≤ 32) (d : List Rat)
    (qp : QParams) (q : IArr) (hp : params (fcWeight o f d .exact) bs bits true = .ok qp)
    (hq : quantize (fcWeight o f d .exact) bs bits true = .ok q) :
    ∀ c < o, ∀ j < f,
      qp.zp.arr.data.getD c 0 = 0 ∧ 0 < qp.scale.arr.data.getD c 0 ∧
      qmin bits + 1 ≤ q.arr.data.getD (j * o + c) 0 ∧ q.arr.data.getD (j * o + c) 0 ≤ qmax bits ∧
      |((q.arr.data.getD (j * o + c) 0 : Int) : Rat) * qp.scale.arr.data.getD c 0 - el d f c j|
        ≤ qp.scale.arr.data.getD c 0 / 2 := by
  obtain ⟨qp', hp', _, _, _, hel⟩ := quantize_spec o f bs bits true d .exact q hq
  rw [hp] at hp'
  cases hp'
  obtain ⟨_, _, _, hf, _, _, _, _, _, _, _, _, _, hzs⟩ := params_spec o f bs bits true d .exact qp hp
  intro c hc j hj
  obtain ⟨r1, _, r3, r4, r5, r6⟩ := sym_half_step_ideal bits hb2 hb (storageBits bits) _ _ (el d f c j)
    ((rowMin_spec d f c hf).2 j hj) ((rowMax_spec d f c hf).2 j hj) _ _ (hzs c hc) _ (hel c hc j hj)
  exact ⟨r1, r3, r4, r5, r6⟩

/-- **float32 arithmetic as numpy performs it** (weights of magnitude ≤ 2^63, 2..16 bits): the same, the dequantization
    being the (repaired) `uniform_dequantize`, with the float32 slack of `dq_q_rounded` -/
theorem blockwise_half_step_f32 (o f bs bits : Nat) (hb2 : 2 ≤ bits) (hb16 : bits ≤ 16) (d : List Rat)
    (hbd : ∀ v ∈ d, |v| ≤ NumT.B) (qp : QParams) (q : IArr)
    (hp : params (fcWeight o f d .f32) bs bits true = .ok qp)
    (hq : quantize (fcWeight o f d .f32) bs bits true = .ok q) :
    ∀ c < o, ∀ j < f,
      qp.zp.arr.data.getD c 0 = 0 ∧ 0 < qp.scale.arr.data.getD c 0 ∧
      qmin bits + 1 ≤ q.arr.data.getD (j * o + c) 0 ∧ q.arr.data.getD (j * o + c) 0 ≤ qmax bits ∧
      |dqVal true (storageBits bits) (storageBits bits) .f32 (q.arr.data.getD (j * o + c) 0) 0
          (qp.scale.arr.data.getD c 0) - el d f c j|
        ≤ qp.scale.arr.data.getD c 0 * (1/2 + (2:Rat)^(bits + 3) * ArithRounded.u32) := by
  obtain ⟨qp', hp', _, _, _, hel⟩ := quantize_spec o f bs bits true d .f32 q hq
  rw [hp] at hp'
  cases hp'
  obtain ⟨_, _, _, hf, _, _, _, _, _, _, _, _, _, hzs⟩ := params_spec o f bs bits true d .f32 qp hp
  intro c hc j hj
  have hbmin : |rowMin d f c| ≤ NumT.B := by
    obtain ⟨k, _, e⟩ := (rowMin_spec d f c hf).1
    rw [e]; exact NumT.getD_bounded d _ hbd
  have hbmax : |rowMax d f c| ≤ NumT.B := by
    obtain ⟨k, _, e⟩ := (rowMax_spec d f c hf).1
    rw [e]; exact NumT.getD_bounded d _ hbd
  exact sym_half_step_f32 bits hb2 hb16 _ _ (el d f c j) hbmin hbmax
    ((rowMin_spec d f c hf).2 j hj) ((rowMax_spec d f c hf).2 j hj) _ _ (hzs c hc) _ (hel c hc j hj)

/-! ## (e) what a repaired library would satisfy: the per-BLOCK half-step law of the reference -/

/-- the per-block reference `Blockwise.refQuantize` (statistics over the block axis only): one scale per (block, channel),
    `max(|block min|, |block max|, 1e-4) / qmax`, and every element is within half of ITS BLOCK's step -/
theorem ref_half_step_ideal (o f bs bits : Nat) (hb2 : 2 ≤ bits) (hb : bits ≤ 32) (d : List Rat)
    (qp : QParams) (q : IArr) (hp : Blockwise.refParams (fcWeight o f d .exact) bs bits true = .ok qp)
    (hq : refQuantize (fcWeight o f d .exact) bs bits true = .ok q) :
    qp.scale.arr.shape = [1, f / bs, 1, o] ∧
    ∀ c < o, ∀ b < f / bs, ∀ k < bs,
      qp.zp.arr.data.getD (b * o + c) 0 = 0 ∧
      qp.scale.arr.data.getD (b * o + c) 0
        = maxR (maxR (absR (blockMin d f bs c b)) (absR (blockMax d f bs c b))) (1/10000) / ((qmax bits : Int) : Rat) ∧
      qmin bits + 1 ≤ q.arr.data.getD ((b * bs + k) * o + c) 0 ∧ q.arr.data.getD ((b * bs + k) * o + c) 0 ≤ qmax bits ∧
      |((q.arr.data.getD ((b * bs + k) * o + c) 0 : Int) : Rat) * qp.scale.arr.data.getD (b * o + c) 0
          - el d f c (b * bs + k)| ≤ qp.scale.arr.data.getD (b * o + c) 0 / 2 := by
  obtain ⟨qp', hp', _, _, _, hel⟩ := refQuantize_spec o f bs bits true d .exact q hq
  rw [hp] at hp'
  cases hp'
  obtain ⟨hbs, _, _, _, _, _, _, _, s1, _, hzs⟩ := refParams_spec o f bs bits true d .exact qp hp
  refine ⟨s1, ?_⟩
  intro c hc b hb' k hk
  obtain ⟨r1, r2, _, r4, r5, r6⟩ := sym_half_step_ideal bits hb2 hb (storageBits bits) _ _ (el d f c (b * bs + k))
    ((segMin_isSel (fun k => el d f c (b * bs + k)) bs hbs).all k hk)
    ((segMax_isSel (fun k => el d f c (b * bs + k)) bs hbs).all k hk) _ _ (hzs c hc b hb') _ (hel c hc b hb' k hk)
  exact ⟨r1, r2, r4, r5, r6⟩

/-- … and in float32 arithmetic as numpy would perform it (weights of magnitude ≤ 2^63, 2..16 bits) -/
theorem ref_half_step_f32 (o f bs bits : Nat) (hb2 : 2 ≤ bits) (hb16 : bits ≤ 16) (d : List Rat)
    (hbd : ∀ v ∈ d, |v| ≤ NumT.B) (qp : QParams) (q : IArr)
    (hp : Blockwise.refParams (fcWeight o f d .f32) bs bits true = .ok qp)
    (hq : refQuantize (fcWeight o f d .f32) bs bits true = .ok q) :
    ∀ c < o, ∀ b < f / bs, ∀ k < bs,
      qp.zp.arr.data.getD (b * o + c) 0 = 0 ∧ 0 < qp.scale.arr.data.getD (b * o + c) 0 ∧
      qmin bits + 1 ≤ q.arr.data.getD ((b * bs + k) * o + c) 0 ∧ q.arr.data.getD ((b * bs + k) * o + c) 0 ≤ qmax bits ∧
      |dqVal true (storageBits bits) (storageBits bits) .f32 (q.arr.data.getD ((b * bs + k) * o + c) 0) 0
          (qp.scale.arr.data.getD (b * o + c) 0) - el d f c (b * bs + k)|
        ≤ qp.scale.arr.data.getD (b * o + c) 0 * (1/2 + (2:Rat)^(bits + 3) * ArithRounded.u32) := by
  obtain ⟨qp', hp', _, _, _, hel⟩ := refQuantize_spec o f bs bits true d .f32 q hq
  rw [hp] at hp'
  cases hp'
  obtain ⟨hbs, _, _, _, _, _, _, _, _, _, hzs⟩ := refParams_spec o f bs bits true d .f32 qp hp
  intro c hc b hb' k hk
  have hsmin := segMin_isSel (fun k => el d f c (b * bs + k)) bs hbs
  have hsmax := segMax_isSel (fun k => el d f c (b * bs + k)) bs hbs
  have hbmin : |blockMin d f bs c b| ≤ NumT.B := by
    obtain ⟨k', _, e⟩ := hsmin.mem
    show |segMin (fun k => el d f c (b * bs + k)) bs| ≤ NumT.B
    rw [e]; exact NumT.getD_bounded d _ hbd
  have hbmax : |blockMax d f bs c b| ≤ NumT.B := by
    obtain ⟨k', _, e⟩ := hsmax.mem
    show |segMax (fun k => el d f c (b * bs + k)) bs| ≤ NumT.B
    rw [e]; exact NumT.getD_bounded d _ hbd
  exact sym_half_step_f32 bits hb2 hb16 _ _ (el d f c (b * bs + k)) hbmin hbmax
    (hsmin.all k hk) (hsmax.all k hk) _ _ (hzs c hc b hb') _ (hel c hc b hb' k hk)

/-! ## (d) closed witness: the granularity is not honoured (finding D41) -/

/-- a `[1, 4]` weight, block size 2: the first block `(1/128, -3/512)` is 128 times smaller than the second `(1, -3/4)`;
    all four values are float32 numbers -/
def witnessD : List Rat := [1/128, -3/512, 1, -3/4]

/-- the float32 number nearest to `1/127` -/
def s127 : Rat := 2113665 / 268435456

/-- **finding D41 as a kernel-checked fact.**  float32 arithmetic exactly as the library performs it (the model is tied to
    the Python code bit for bit), 8 bits, block size 2:
    * the library stores ONE scale `float32(1/127)` for the row and the codes `[1, -1 | 127, -95]`: the small block is
      resolved to `±1`;
    * the per-block reference has the scales `float32(1/127)/128` and `float32(1/127)`, and the codes `[127, -95 | 127, -95]`;
    * the library's stored value of `w[0][1] = -3/512` is off by more than a third of the value, i.e. more than 65 half-steps
      of its block; the reference is within half a step of the block.
    The same holds in ideal arithmetic (`1/127` for `float32(1/127)`). -/
theorem blockwise_granularity_not_honoured :
    -- the library (float32)
    (params (fcWeight 1 4 witnessD .f32) 2 8 true).map (·.scale.arr) = .ok ⟨[1, 1, 1, 1], [s127]⟩ ∧
    quantize (fcWeight 1 4 witnessD .f32) 2 8 true = .ok ⟨⟨[1, 2, 2, 1], [1, -1, 127, -95]⟩, 8⟩ ∧
    -- the per-block reference (float32)
    (Blockwise.refParams (fcWeight 1 4 witnessD .f32) 2 8 true).map (·.scale.arr) = .ok ⟨[1, 2, 1, 1], [s127 / 128, s127]⟩ ∧
    refQuantize (fcWeight 1 4 witnessD .f32) 2 8 true = .ok ⟨⟨[1, 2, 2, 1], [127, -95, 127, -95]⟩, 8⟩ ∧
    -- the element `w[0][1] = -3/512`: library code `-1` at the row's scale, reference code `-95` at its block's scale
    (1/3 : Rat) * |(-3/512 : Rat)| < |(-1 : Rat) * s127 - (-3/512)| ∧
    65 * (s127 / 128 / 2) < |(-1 : Rat) * s127 - (-3/512)| ∧
    |(-95 : Rat) * (s127 / 128) - (-3/512)| ≤ s127 / 128 / 2 ∧
    -- ideal arithmetic
    quantize (fcWeight 1 4 witnessD .exact) 2 8 true = .ok ⟨⟨[1, 2, 2, 1], [1, -1, 127, -95]⟩, 8⟩ ∧
    refQuantize (fcWeight 1 4 witnessD .exact) 2 8 true = .ok ⟨⟨[1, 2, 2, 1], [127, -95, 127, -95]⟩, 8⟩ ∧
    (params (fcWeight 1 4 witnessD .exact) 2 8 true).map (·.scale.arr) = .ok ⟨[1, 1, 1, 1], [1/127]⟩ ∧
    (Blockwise.refParams (fcWeight 1 4 witnessD .exact) 2 8 true).map (·.scale.arr) = .ok ⟨[1, 2, 1, 1], [1/16256, 1/127]⟩ := by
  refine ⟨by decide +kernel, by decide +kernel, by decide +kernel, by decide +kernel, ?_, ?_, ?_,
    by decide +kernel, by decide +kernel, by decide +kernel, by decide +kernel⟩
  · norm_num [s127]
  · norm_num [s127]
  · norm_num [s127]

/-- in the witness the BLOCKWISE codes are exactly the per-channel codes (instance of `blockwise_is_channelwise`) -/
example : (channelwise (fcWeight 1 4 witnessD .f32) 8 true).map (·.2) = .ok ⟨⟨[1, 4], [1, -1, 127, -95]⟩, 8⟩ := by
  decide +kernel

/-! ## the hypotheses of the theorems above are satisfiable (non-trivial closed instances) -/

theorem witnessD_bounded : ∀ v ∈ witnessD, |v| ≤ NumT.B := by
  intro v hv
  have hB : (1:Rat) ≤ NumT.B := NumT.one_le_B
  simp only [witnessD, List.mem_cons, List.not_mem_nil, or_false] at hv
  rcases hv with rfl | rfl | rfl | rfl <;> (rw [abs_le]; constructor <;> linarith)

/-- `blockwise_ok_iff` on the witness, float32 and ideal arithmetic, block sizes 1, 2, 4 succeed, 3 and 0 do not -/
example : (∃ r, run (fcWeight 1 4 witnessD .f32) 2 8 true = .ok r) :=
  (blockwise_ok_iff 1 4 2 8 true witnessD rfl .f32 (by decide) (by decide) (.inl rfl) witnessD_bounded (by decide)
    (by decide)).2.2.2.2 ⟨by decide, by decide⟩

example : ¬ (∃ r, run (fcWeight 1 4 witnessD .f32) 3 8 true = .ok r) := fun h =>
  absurd ((blockwise_ok_iff 1 4 3 8 true witnessD rfl .f32 (by decide) (by decide) (.inl rfl) witnessD_bounded (by decide)
    (by decide)).2.2.2.1 h).2 (by decide)

example : run (fcWeight 1 4 witnessD .f32) 0 8 true = .error .valueError :=
  (blockwise_error_class 1 4 0 8 true witnessD .f32 (by decide)).2.2.2

/-- the hypotheses `params … = .ok qp`, `quantize … = .ok q` of (a)-(c) hold for the witness -/
example : ∃ qp q, params (fcWeight 1 4 witnessD .f32) 2 8 true = .ok qp ∧ quantize (fcWeight 1 4 witnessD .f32) 2 8 true = .ok q := by
  obtain ⟨⟨mn, mx, qp, q⟩, h⟩ := (blockwise_ok_iff 1 4 2 8 true witnessD rfl .f32 (by decide) (by decide) (.inl rfl)
    witnessD_bounded (by decide) (by decide)).2.2.2.2 ⟨by decide, by decide⟩
  exact ⟨qp, q, (run_ok _ _ _ _ _ _ _ _ h).2.1, (run_ok _ _ _ _ _ _ _ _ h).2.2⟩

example : ∃ qp q, params (fcWeight 1 4 witnessD .exact) 2 8 true = .ok qp ∧ quantize (fcWeight 1 4 witnessD .exact) 2 8 true = .ok q := by
  obtain ⟨⟨mn, mx, qp, q⟩, h⟩ := (blockwise_ok_iff 1 4 2 8 true witnessD rfl .exact (by decide) (by decide) (.inr (.inr rfl))
    witnessD_bounded (by decide) (by decide)).2.2.2.2 ⟨by decide, by decide⟩
  exact ⟨qp, q, (run_ok _ _ _ _ _ _ _ _ h).2.1, (run_ok _ _ _ _ _ _ _ _ h).2.2⟩

/-- … and those of (e) -/
example : (Blockwise.refParams (fcWeight 1 4 witnessD .exact) 2 8 true).isOk = true ∧
    (refQuantize (fcWeight 1 4 witnessD .exact) 2 8 true).isOk = true ∧
    (Blockwise.refParams (fcWeight 1 4 witnessD .f32) 2 8 true).isOk = true ∧
    (refQuantize (fcWeight 1 4 witnessD .f32) 2 8 true).isOk = true := by
  refine ⟨?_, ?_, ?_, ?_⟩ <;> decide +kernel

/-- the scalar laws: a channel with range `[-3/4, 1]`, the element `-3/512`, 8 bits -/
example : zpScale1 .exact 8 true (-3/4) 1 = .ok (0, 1/127) ∧ quantize1 .exact .exact 8 8 true (-3/512) (1/127) 0 = .ok (-1) := by
  constructor <;> decide +kernel

example : zpScale1 .f32 8 true (-3/4) 1 = .ok (0, s127) ∧ quantize1 .f32 .f32 8 8 true (-3/512) s127 0 = .ok (-1) := by
  constructor <;> decide +kernel

end C17
