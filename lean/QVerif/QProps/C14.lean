import QModel.Pipeline
import QModel.Calib
import QProps.C11b
import QProps.C09c
/-!
# C14 — quantize/calibrate are pure: no input mutation, no history dependence (model side)

In the model `quantizePure` and `Calib.calibrate` are mathematical functions of
(model, recipe state, statistics / samples): nothing else can influence them.  What remains to be
said is (a) what the caller's statistics object looks like afterwards, and (b) that the recipe
state — the only state a `Quantizer` carries between calls — is itself determined by its own
export, so that any history leading to the same exported recipe gives the same model.
Process-level determinism (hash seeds, fresh interpreters) is runtime behaviour, executed by the check.
-/
open Graph Mat Cfg Recipe RecipeHistory Pipeline

namespace C14

/-- the calibration result handed to `quantize()` is unchanged afterwards (repaired code: the
    materialisation updates a private copy) -/
theorem caller_qsv_unchanged (rx : String → String → Bool) (env : Env) (st : Recipe.State) (qsvs : Qsvs) :
    callerQsvAfter true rx env st qsvs = .ok qsvs := rfl

/-- **history independence**: whatever sequence of recipe updates led to the current recipe, the
    result of `quantize()` equals that of a fresh `Quantizer` that merely loads the exported recipe -/
theorem quantize_depends_on_exported_recipe_only (rx : String → String → Bool) (env : Env) (qsvs : Option Qsvs)
    (cmds : List Cmd) (hctor : ∀ c ∈ cmds, ctorOk (c.cfg.getD {}) = true) :
    ∃ st', (load false (getRecipe (run cmds))).1 = .ok st' ∧
      quantizePure rx env st' qsvs = quantizePure rx env (run cmds) qsvs := by
  refine ⟨run cmds, ?_, rfl⟩
  rw [RecipeHistory.reload_reachable cmds hctor]

/-- … and so does calibration -/
theorem calibrate_depends_on_exported_recipe_only (rx : String → String → Bool) (env : Env) (sgi : Nat)
    (prev : Option Qsvs) (samples : List Calib.Contents)
    (cmds : List Cmd) (hctor : ∀ c ∈ cmds, ctorOk (c.cfg.getD {}) = true) :
    ∃ st', (load false (getRecipe (run cmds))).1 = .ok st' ∧
      Calib.calibrate rx env st' sgi prev samples = Calib.calibrate rx env (run cmds) sgi prev samples := by
  refine ⟨run cmds, ?_, rfl⟩
  rw [RecipeHistory.reload_reachable cmds hctor]

/-- **earlier `calibrate()` calls leave no trace beyond the samples they saw**: two histories of
    resumed calibration sessions over the same samples in the same order hand the same result to
    `quantize()` — and therefore produce the same model -/
theorem quantize_after_sessions_depends_on_samples_only (rx : String → String → Bool) (env : Env)
    (st : Recipe.State) (sgi : Nat)
    (D0 E0 : List Calib.Contents) (Ds Es : List (List Calib.Contents)) (q0 p0 r r' : Qsvs)
    (hsame : D0 ++ Ds.flatten = E0 ++ Es.flatten)
    (hD : Calib.calibrate rx env st sgi none D0 = .ok q0) (hE : Calib.calibrate rx env st sgi none E0 = .ok p0)
    (cD : C09c.Chain rx env st sgi q0 Ds r) (cE : C09c.Chain rx env st sgi p0 Es r') :
    quantizePure rx env st (some r) = quantizePure rx env st (some r') := by
  rw [C09c.split_irrelevant rx env st sgi D0 E0 Ds Es q0 p0 r r' hsame hD hE cD cE]

end C14
