import QModel.Pipeline
import QModel.Calib
import QProps.C11b
/-!
# C14 — quantize/calibrate are pure: no input mutation, no history dependence (model side)

In the model `quantizePure` and `Calib.calibrate` are mathematical functions of
(model, recipe state, statistics / samples): nothing else can influence them.  What remains to be
said is (a) what the caller's statistics object looks like afterwards, and (b) that the recipe
state — the only state a `Quantizer` carries between calls — is itself determined by its own
export, so that any history leading to the same exported recipe gives the same model.
Process-level determinism (hash seeds, fresh interpreters) is runtime behaviour, executed by the check.
-/
open Graph Mat Cfg Recipe RecipeHistory Pipeline

namespace C14

/-- the calibration result handed to `quantize()` is unchanged afterwards (repaired code: the
    materialisation updates a private copy) -/
theorem caller_qsv_unchanged (rx : String → String → Bool) (env : Env) (st : Recipe.State) (qsvs : Qsvs) :
    callerQsvAfter true rx env st qsvs = .ok qsvs := rfl

/-- **history independence**: whatever sequence of recipe updates led to the current recipe, the
    result of `quantize()` equals that of a fresh `Quantizer` that merely loads the exported recipe -/
theorem quantize_depends_on_exported_recipe_only (rx : String → String → Bool) (env : Env) (qsvs : Option Qsvs)
    (cmds : List Cmd) (hctor : ∀ c ∈ cmds, ctorOk (c.cfg.getD {}) = true) :
    ∃ st', (load false (getRecipe (run cmds))).1 = .ok st' ∧
      quantizePure rx env st' qsvs = quantizePure rx env (run cmds) qsvs := by
  refine ⟨run cmds, ?_, rfl⟩
  rw [RecipeHistory.reload_reachable cmds hctor]

/-- … and so does calibration -/
theorem calibrate_depends_on_exported_recipe_only (rx : String → String → Bool) (env : Env) (sgi : Nat)
    (prev : Option Qsvs) (samples : List Calib.Contents)
    (cmds : List Cmd) (hctor : ∀ c ∈ cmds, ctorOk (c.cfg.getD {}) = true) :
    ∃ st', (load false (getRecipe (run cmds))).1 = .ok st' ∧
      Calib.calibrate rx env st' sgi prev samples = Calib.calibrate rx env (run cmds) sgi prev samples := by
  refine ⟨run cmds, ?_, rfl⟩
  rw [RecipeHistory.reload_reachable cmds hctor]

end C14
