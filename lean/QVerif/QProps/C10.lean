import QProofs.CalibProofs
/-!
# C10 — calibration and quantization select the same ops; statistics are never missing

In the repaired code both stages build an operator's scope in the same way; the model has ONE
function `Mat.opScope` and both real functions (`Calibrator._get_op_scope`,
`ParamsGenerator._get_op_scope`) are tied to it by the correspondence runs, so a regex is
interpreted identically by construction.
-/
open Graph Arith Num Nd Mat Calib

namespace C10

/-- **statistics are never missing**: after `calibrate()` on at least one sample, every
    non-constant operand/result of every operator selected for min/max quantization has recorded
    min/max statistics -/
theorem stats_complete (rx : String → String → Bool) (env : Env) (st : Recipe.State) (sgi : Nat)
    (sg : Subgraph) (hsg : env.model.subgraphs[sgi]? = some sg)
    (previous : Option Qsvs) (samples : List Contents) (hne : samples ≠ []) (qs : Qsvs)
    (hneed : Recipe.needCalibration st = true)
    (h : calibrate rx env st sgi previous samples = .ok qs)
    (op : Op) (k scope : String) (hop : CalibProofs.IsOp env sg op k) (hscope : opScope sg op = .ok scope)
    (hsel : (Recipe.resolve rx st k scope).1 = Tables.algMinMax)
    (i : Int) (hi : i ∈ op.inputs ++ op.outputs) (hi1 : i ≠ -1) (t : Tensor) (ht : tensorAt sg i = .ok t)
    (hnc : constAny env t = none) :
    ∃ mn mx, Py.dictGet? qs t.name = some (some (mn, mx)) :=
  CalibProofs.stats_complete rx env st sgi sg hsg previous samples hne qs hneed h op k scope hop hscope hsel i hi hi1 t ht hnc

end C10
