import QProofs.KernelSigMain
import QProofs.NFCheckProofs
/-!
# C01, runtime clause (and the "accepted ⇒ sound" link of C13): kernel signatures

"`quantize()` returns a model that … the LiteRT interpreter can allocate and invoke without an error."
The interpreter is outside the Lean model.  What its kernels check first (`Prepare`) are the OPERAND TYPE
SIGNATURES of the operators.  `KernelSig.accepts` (`QProofs/KernelSig.lean`) is an explicit table of the
signatures the kernels accept, for the 21 operators of the quantizer, QUANTIZE and DEQUANTIZE.  **The table
is an ASSUMPTION about the runtime** (written from the TFLite quantization specification / kernel sources,
validated by execution in the C13 check, never proved).  This file proves, about `Pipeline.quantizePure`:

* `C01.kernel_signatures_ok` -- every operator of the output model has a signature of the table
  (`KernelSig.modelOK m' = true`); `C01.unsupported_ops_keep_signature` -- an operator that is not in the
  table (ABS, …) has exactly the signature it had in the input; `C01.inserted_ops_widths` -- the inserted
  QUANTIZE / DEQUANTIZE operators never touch int32 / int64 tensors (a bias is never read through one), an
  inserted QUANTIZE never an int4 tensor; `C01.nonfloat_operand_untouched` -- an operand that is not float32
  (index / shape / axis tensors) is read directly, with its original record, whatever the mode of the operator;
* `C01.const_data_drq_violates`, `C01.const_data_srq16_violates`, `C01.bmm_const_lhs_drq_violates`,
  `C01.runtime_weight_srq16_violates` -- closed runs (API-accepted recipe, no `skip_checks`, input in normal
  form, float input) whose OUTPUT violates the table: the hypotheses `DataRuntime` / `WeightConst16` cannot
  be dropped.  Each was replayed on the interpreter (LiteRT): "failed to prepare" (three of them) or a wrong
  numeric result (`const_data_srq16`): "accepted, then rejected by the runtime" (C13);
* `C01.mixed_modes_table` (here), `C01.mixed_ops_table` (`QProps/C01bOps.lean`) -- kernel-checked runs for
  every pair of adjacent modes {none, weight-only, dynamic range, static int8, static int16, float16}: no
  pair violates the table.

## Hypotheses of the main theorem

`PipelineWF.NF env st` (normal form of C01/C02), `MatTotal.NoSkip st` (no `skip_checks` rule, so that every
resolved (algorithm, operator, config) is policy-accepted: `C13.accepted_minmax_legal`,
`accepted_float_casting`, `C08.resolved_registered`; here `KernelSig.accepted_minmax_sig`, which keeps the
operator lists of the policy), a successful run, and three hypotheses on the INPUT:

* `FloatModel env.model` -- the operators of the input have the float signature of the table (Bool; `decide`);
* `DataRuntime rx env st` -- the data operand of FULLY_CONNECTED / CONV_2D / DEPTHWISE_CONV_2D /
  CONV_2D_TRANSPOSE / BATCH_MATMUL selected for dynamic- or static-range quantization is a runtime tensor.
  NECESSARY: the materialisation quantizes a CONSTANT data operand with the WEIGHT config
  (`const_data_drq_violates`: FULLY_CONNECTED(int8, int8) → float32; `bmm_const_lhs_drq_violates`);
* `WeightConst16 rx env st` -- operand 1 of a CONV_2D / DEPTHWISE_CONV_2D / CONV_2D_TRANSPOSE selected for static
  range with 16-bit activations is a constant.  NECESSARY (`runtime_weight_srq16_violates`: a runtime filter
  becomes int16, the int16 kernels read int8 filters).

Nothing is assumed about the OUTPUT.  What the theorems of C03d do not pin is proved here:
the bit widths at the inserted operators (`QProofs/KernelSigBits.lean`, `KernelSigIns.lean`: every request
side with a uniform parameter object has an activation width, or sits on a constant and has 4 bits or is the
`[QUANTIZE_TENSOR]` side of a bias; the parameter of a performed instruction is that of a side with ITS
transformation), and that tensors that are not float32 are never touched (`QProofs/KernelSigF32.lean`), which
covers the `output_shape` operand of a CONV_2D_TRANSPOSE under float casting (`C03.f16_op_typed` is silent
about that slot).
-/
open Graph Mat Cfg Pipeline KernelSig

set_option autoImplicit false

namespace C01

abbrev FloatModel := @KernelSig.FloatModel
abbrev DataRuntime := @KernelSig.DataRuntime
abbrev WeightConst16 := @KernelSig.WeightConst16

/-- **C01.kernel_signatures_ok.**  For every model in normal form whose operators have the float signatures of
    the table, every recipe state without `skip_checks`, every regex semantics and statistics: if `quantize()`
    succeeds, EVERY operator of the output model -- original ones in whatever mode the recipe selected,
    inserted QUANTIZE / DEQUANTIZE operators -- has an operand / result type signature that the (assumed)
    kernel table accepts. -/
theorem kernel_signatures_ok (rx : String → String → Bool) (env : Env) (st : Recipe.State)
    (qsvs : Option Qsvs) (m' : Model) (tbl : List Param) (hnf : PipelineWF.NF env st)
    (hns : MatTotal.NoSkip st) (h : quantizePure rx env st qsvs = .ok (m', tbl))
    (hfl : FloatModel env.model) (hdr : DataRuntime rx env st) (hwc : WeightConst16 rx env st) :
    KernelSig.modelOK m' = true :=
  KernelSig.all_ok rx env st qsvs m' tbl hnf hns h hfl hdr hwc

/-- the same, operator by operator -/
theorem kernel_signature_of_op (rx : String → String → Bool) (env : Env) (st : Recipe.State)
    (qsvs : Option Qsvs) (m' : Model) (tbl : List Param) (hnf : PipelineWF.NF env st)
    (hns : MatTotal.NoSkip st) (h : quantizePure rx env st qsvs = .ok (m', tbl))
    (hfl : FloatModel env.model) (hdr : DataRuntime rx env st) (hwc : WeightConst16 rx env st)
    (s : Nat) (sg' : Subgraph) (hsg' : m'.subgraphs[s]? = some sg') (o : Op) (ho : o ∈ sg'.ops) :
    KernelSig.opOK m' sg' o = true := by
  have := kernel_signatures_ok rx env st qsvs m' tbl hnf hns h hfl hdr hwc
  unfold KernelSig.modelOK at this
  rw [List.all_eq_true] at this
  have h1 := this sg' (List.mem_of_getElem? hsg')
  rw [List.all_eq_true] at h1
  exact h1 o ho

/-- **operators outside the table keep their signature**: an original operator whose builtin code is none of
    the 21 + 2 of the table (ABS, …) has in the output exactly the builtin code, operand types and result
    types it had in the input -/
theorem unsupported_ops_keep_signature (rx : String → String → Bool) (env : Env) (st : Recipe.State)
    (qsvs : Option Qsvs) (m' : Model) (tbl : List Param) (hnf : PipelineWF.NF env st)
    (hns : MatTotal.NoSkip st) (h : quantizePure rx env st qsvs = .ok (m', tbl))
    (hfl : FloatModel env.model) (hdr : DataRuntime rx env st) (hwc : WeightConst16 rx env st)
    (s : Nat) (sg' : Subgraph) (hsg' : m'.subgraphs[s]? = some sg') (o : Op) (ho : o ∈ sg'.ops)
    (k : Nat) (hk : o.orig = some k) :
    ∃ sg op code, env.model.subgraphs[s]? = some sg ∧ sg.ops[k]? = some op ∧
      env.model.opcodes[op.code]? = some code ∧
      (KernelSig.nameOfCode code = none → KernelSig.opSig m' sg' o = KernelSig.opSig env.model sg op) :=
  (KernelSig.orig_ok rx env st qsvs m' tbl hnf hns h hfl hdr hwc s sg' hsg' o ho k hk).2

/-- **C01.inserted_ops_widths** (what `C03.inserted_ops_typed` leaves open): under a recipe without
    `skip_checks`, no inserted operator reads or writes an int32 / int64 tensor -- a bias is never read through
    an inserted operator --, and no inserted QUANTIZE reads or writes an int4 tensor.  (No hypothesis on the
    input beyond the normal form.) -/
theorem inserted_ops_widths (rx : String → String → Bool) (env : Env) (st : Recipe.State)
    (qsvs : Option Qsvs) (m' : Model) (tbl : List Param) (hnf : PipelineWF.NF env st) (hns : MatTotal.NoSkip st)
    (h : quantizePure rx env st qsvs = .ok (m', tbl)) :
    ∀ sg' ∈ m'.subgraphs, ∀ o ∈ sg'.ops, o.orig = none → ∀ t ∈ o.inputs ++ o.outputs,
      KernelSig.dtypeAt sg' t ≠ some Tables.ttInt32 ∧ KernelSig.dtypeAt sg' t ≠ some Tables.ttInt64 ∧
      (m'.opcodes[o.code]? = some Tables.opQuantize → KernelSig.dtypeAt sg' t ≠ some Tables.ttInt4) :=
  KernelSig.inserted_widths rx env st qsvs m' tbl hnf hns h

/-- **C01.nonfloat_operand_untouched**: in the output of a run on a float input model, an operand slot that
    held a tensor that is NOT float32 (index / shape / axis / output-shape tensors) holds the same tensor, with
    its original record -- whatever mode the recipe selected for the operator (this is the statement that
    `C03.f16_op_typed` lacks for the `output_shape` operand of CONV_2D_TRANSPOSE) -/
theorem nonfloat_operand_untouched (rx : String → String → Bool) (env : Env) (st : Recipe.State)
    (qsvs : Option Qsvs) (m' : Model) (tbl : List Param) (hnf : PipelineWF.NF env st)
    (h : quantizePure rx env st qsvs = .ok (m', tbl)) (hfl : FloatModel env.model)
    (s : Nat) (sg sg' : Subgraph) (hsg : env.model.subgraphs[s]? = some sg) (hsg' : m'.subgraphs[s]? = some sg')
    (k : Nat) (op : Op) (hop : sg.ops[k]? = some op) (j : Nat) (t : Int) (hj : op.inputs[j]? = some t)
    (h0 : 0 ≤ t) (tn : Tensor) (htn : sg.tensors[t.toNat]? = some tn) (hd : tn.dtype ≠ Tables.ttFloat32)
    (o' : Op) (ho' : o' ∈ sg'.ops) (hk : o'.orig = some k) :
    o'.inputs[j]? = some t ∧ sg'.tensors[t.toNat]? = some tn :=
  KernelSig.F32.nonf32_slot rx env st qsvs m' tbl hnf h hfl s sg sg' hsg hsg' k op hop j t hj h0 tn htn hd o' ho' hk

/-! ## closed instances -/

namespace E2E

def T (n : String) (sh : List Int) (b : Nat) (dt : Nat := 0) : Tensor :=
  { name := n, dtype := dt, shape := sh, buffer := b }
def f32 (sh : List Nat) (l : List Rat) : Arith.FArr := ⟨⟨sh, l⟩, .f32⟩
/-- regex = scope (the scope of an operator is the `;`-terminated list of its result names) -/
def rxEq : String → String → Bool := fun r s => r == s

def wT : TCfg := { bits := 8, symmetric := true, gran := .tensorwise }
/-- the six modes, as API-accepted configs (`skip_checks = false`) -/
def cfgWO : OpCfg := { weight := some wT, cp := .float, explicitDeq := true }
def cfgDRQ : OpCfg := { weight := some wT, cp := .integer }
def cfgS8 : OpCfg := { act := some { bits := 8, symmetric := false }, weight := some wT, cp := .integer }
def cfgS16 : OpCfg := { act := some { bits := 16, symmetric := true }, weight := some wT, cp := .integer }
def cfgF16 : OpCfg := { weight := some { bits := 16, dtype := .float }, cp := .float, explicitDeq := true }

inductive Mode where
  | none | wo | drq | srq8 | srq16 | fp16
  deriving DecidableEq, Repr

def Mode.all : List Mode := [.none, .wo, .drq, .srq8, .srq16, .fp16]

def Mode.rules (regex op : String) : Mode → List Recipe.Rule
  | .none => []
  | .wo => [⟨regex, op, Tables.algMinMax, cfgWO⟩]
  | .drq => [⟨regex, op, Tables.algMinMax, cfgDRQ⟩]
  | .srq8 => [⟨regex, op, Tables.algMinMax, cfgS8⟩]
  | .srq16 => [⟨regex, op, Tables.algMinMax, cfgS16⟩]
  | .fp16 => [⟨regex, op, Tables.algFloatCasting, cfgF16⟩]

/-- the API accepts each of the five quantizing modes for FULLY_CONNECTED -/
example : Policy.accepts Tables.algMinMax "FULLY_CONNECTED" cfgWO = true ∧
    Policy.accepts Tables.algMinMax "FULLY_CONNECTED" cfgDRQ = true ∧
    Policy.accepts Tables.algMinMax "FULLY_CONNECTED" cfgS8 = true ∧
    Policy.accepts Tables.algMinMax "FULLY_CONNECTED" cfgS16 = true ∧
    Policy.accepts Tables.algFloatCasting "FULLY_CONNECTED" cfgF16 = true := by decide +kernel

/-- the recipe: the operator with scope `s1` in mode `a`, the one with scope `s2` in mode `b` -/
def stOf (s1 op1 : String) (a : Mode) (s2 op2 : String) (b : Mode) : Recipe.State :=
  (match a.rules s1 op1 with | [] => [] | r => [(s1, r)]) ++ (match b.rules s2 op2 with | [] => [] | r => [(s2, r)])

def qs : Qsvs :=
  [("x", some (f32 [1,1] [-1], f32 [1,1] [2])), ("h", some (f32 [1,1] [-3], f32 [1,1] [4])),
   ("y", some (f32 [1,1] [-5], f32 [1,1] [6])), ("r", some (f32 [1,1] [-2], f32 [1,1] [6]))]

/-- `some true`: the run succeeds and every operator of the output has a signature of the table;
    `some false`: it succeeds and some operator has not; `none`: `quantize()` raises -/
def verdict (env : Env) (st : Recipe.State) : Option Bool :=
  match quantizePure rxEq env st (some qs) with
  | .ok r => some (KernelSig.modelOK r.1)
  | .error _ => none

/-! ### `h := FC(x, w1)`, `y := FC(h, w2)`: every pair of adjacent modes -/

def mFF : Model :=
  { subgraphs := [{ tensors := [T "x" [1,2] 0, T "w1" [2,2] 1, T "h" [1,2] 0, T "w2" [2,2] 2, T "y" [1,2] 0],
                    ops := [{ code := 0, inputs := [0,1,-1], outputs := [2], orig := some 0 },
                            { code := 0, inputs := [2,3,-1], outputs := [4], orig := some 1 }],
                    inputs := [0], outputs := [4] }],
    buffers := [none, some (.inl 0), some (.inl 1)], opcodes := [9], sigs := [] }
def envFF : Env := { model := mFF, consts := [(1, [1,2,3,4]), (2, [1,-2,3,5])], adjY := [] }

def stFF (a b : Mode) : Recipe.State := stOf "h;" "FULLY_CONNECTED" a "y;" "FULLY_CONNECTED" b

/-- **C01.mixed_modes_table** (kernel-checked): for every pair (a, b) of modes of two ADJACENT operators --
    FULLY_CONNECTED in mode `a` feeding FULLY_CONNECTED in mode `b`, modes {none, weight-only, dynamic range,
    static int8, static int16, float16} -- the run succeeds and every operator of the output (the two
    FULLY_CONNECTED, the inserted QUANTIZE / DEQUANTIZE / requantizing QUANTIZE between them) has a signature of
    the table; (none, none) is the empty recipe, which `quantize()` refuses.  NO pair violates the table. -/
theorem mixed_modes_table :
    (Mode.all.map fun a => Mode.all.map fun b => verdict envFF (stFF a b)) =
      [[none,      some true, some true, some true, some true, some true],
       [some true, some true, some true, some true, some true, some true],
       [some true, some true, some true, some true, some true, some true],
       [some true, some true, some true, some true, some true, some true],
       [some true, some true, some true, some true, some true, some true],
       [some true, some true, some true, some true, some true, some true]] := by
  decide +kernel

/-! ### NON-VACUITY of `kernel_signatures_ok`: static int8 feeding dynamic range -/

theorem run_of_decide (env : Env) (st : Recipe.State) (m' : Model)
    (h : (match quantizePure rxEq env st (some qs) with
      | .ok r => decide (r.1 = m')
      | .error _ => false) = true) : ∃ tbl, quantizePure rxEq env st (some qs) = .ok (m', tbl) := by
  cases hq : quantizePure rxEq env st (some qs) with
  | error e => rw [hq] at h; cases h
  | ok r =>
    rw [hq] at h
    simp only [decide_eq_true_eq] at h
    exact ⟨r.2, by rw [← h]⟩

/-- the output for (static int8, dynamic range): QUANTIZE(x), FC int8, DEQUANTIZE(h), hybrid FC -/
def mFF' : Model :=
  { subgraphs := [{ tensors := [T "x" [1,2] 0, { T "w1" [2,2] 1 with dtype := 9, quant := some 1 },
                                { T "h" [1,2] 0 with dtype := 9, quant := some 2 },
                                { T "w2" [2,2] 2 with dtype := 9, quant := some 3 }, T "y" [1,2] 0,
                                { T "x_quantized" [1,2] 0 with dtype := 9, quant := some 0 }, T "h_dequant" [1,2] 0],
                    ops := [{ code := 1, inputs := [0], outputs := [5] },
                            { code := 0, inputs := [5, 1, -1], outputs := [2], orig := some 0 },
                            { code := 2, inputs := [2], outputs := [6] },
                            { code := 0, inputs := [6, 3, -1], outputs := [4], orig := some 1 }],
                    inputs := [0], outputs := [4] }],
    buffers := [none, some (.inr 1), some (.inr 3)], opcodes := [9, 114, 6], sigs := [] }

theorem runFF : ∃ tbl, quantizePure rxEq envFF (stFF .srq8 .drq) (some qs) = .ok (mFF', tbl) :=
  run_of_decide _ _ _ (by decide +kernel)

theorem nfFF (st : Recipe.State) (h : SharingData.noBlockwiseB st = true) : PipelineWF.NF envFF st :=
  TypingE2E.nf_of_fcOrUnnamed envFF st (by decide) (by decide) h (by decide) (by decide)

/-- ALL hypotheses of `kernel_signatures_ok` hold on this instance, the theorem applies … -/
theorem instance_ok : KernelSig.modelOK mFF' = true := by
  obtain ⟨tbl, hrun⟩ := runFF
  exact kernel_signatures_ok rxEq envFF (stFF .srq8 .drq) (some qs) mFF' tbl (nfFF _ (by decide))
    (by decide) hrun (by decide) (KernelSig.dataRuntime_of_B _ _ _ (by decide))
    (KernelSig.weightConst16_of_B _ _ _ (by decide))

/-- … and what it says here, operator by operator: QUANTIZE float32 → int8; FULLY_CONNECTED int8 × int8 →
    int8; DEQUANTIZE int8 → float32; FULLY_CONNECTED float32 × int8 → float32 (hybrid) -/
example : KernelSig.modelSigs mFF' =
    [some (114, [some 0], [some 9]), some (9, [some 9, some 9, none], [some 9]),
     some (6, [some 9], [some 0]), some (9, [some 0, some 9, none], [some 0])] := by decide

/-- on the same run: the inserted QUANTIZE / DEQUANTIZE touch no int32 / int64 / int4 tensor -/
example : KernelSig.InsertedWidths mFF' := by
  obtain ⟨tbl, hrun⟩ := runFF
  exact inserted_ops_widths rxEq envFF (stFF .srq8 .drq) (some qs) mFF' tbl (nfFF _ (by decide)) (by decide) hrun

/-! ### CONV_2D_TRANSPOSE under float casting: the int32 `output_shape` operand is untouched -/

/-- `y := CONV_2D_TRANSPOSE(sh, w, x)`, `sh` an int32 constant, `w` a float32 constant -/
def mTF : Model :=
  { subgraphs := [{ tensors := [T "sh" [4] 1 2, T "w" [1,1,1,2] 2, T "x" [1,1,1,2] 0, T "y" [1,1,1,1] 0],
                    ops := [{ code := 0, inputs := [0,1,2], outputs := [3], orig := some 0 }],
                    inputs := [2], outputs := [3] }],
    buffers := [none, some (.inl 0), some (.inl 1)], opcodes := [67], sigs := [] }
def envTF : Env := { model := mTF, consts := [(2, [1,2])], adjY := [] }
def stTF : Recipe.State := stOf "y;" "CONV_2D_TRANSPOSE" .fp16 "" "" .none

def mTF' : Model :=
  { subgraphs := [{ tensors := [T "sh" [4] 1 2, { T "w" [1,1,1,2] 2 with dtype := 1 }, T "x" [1,1,1,2] 0,
                                T "y" [1,1,1,1] 0, T "w_dequant" [1,1,1,2] 0],
                    ops := [{ code := 1, inputs := [1], outputs := [4] },
                            { code := 0, inputs := [0, 4, 2], outputs := [3], orig := some 0 }],
                    inputs := [2], outputs := [3] }],
    buffers := [none, some (.inl 0), some (.inr 0)], opcodes := [67, 6], sigs := [] }

theorem runTF : ∃ tbl, quantizePure rxEq envTF stTF (some qs) = .ok (mTF', tbl) :=
  run_of_decide _ _ _ (by decide +kernel)

theorem nfTF : PipelineWF.NF envTF stTF := NFCheckProofs.nfOK_sound envTF stTF (by decide +kernel)

/-- `kernel_signatures_ok` applies (DEQUANTIZE float16 → float32; CONV_2D_TRANSPOSE int32, float32, float32 →
    float32) … -/
theorem instance_cast_ok : KernelSig.modelOK mTF' = true := by
  obtain ⟨tbl, hrun⟩ := runTF
  exact kernel_signatures_ok rxEq envTF stTF (some qs) mTF' tbl nfTF (by decide) hrun (by decide)
    (KernelSig.dataRuntime_of_B _ _ _ (by decide)) (KernelSig.weightConst16_of_B _ _ _ (by decide))

/-- … and `nonfloat_operand_untouched`: the operator of the output reads `sh` itself, with its record -/
example (o' : Op) (ho' : o' ∈ (mTF'.subgraphs[0]'(by decide)).ops) (hk : o'.orig = some 0) :
    o'.inputs[0]? = some 0 ∧ (mTF'.subgraphs[0]'(by decide)).tensors[0]? = some (T "sh" [4] 1 2) := by
  obtain ⟨tbl, hrun⟩ := runTF
  exact nonfloat_operand_untouched rxEq envTF stTF (some qs) mTF' tbl nfTF hrun (by decide) 0 _ _ rfl rfl 0 _ rfl 0 0 rfl
    (by decide) (T "sh" [4] 1 2) rfl (by decide) o' ho' hk

/-! ### the hypotheses `DataRuntime` and `WeightConst16` are NECESSARY: accepted, then outside the table

In each witness every OTHER hypothesis of `kernel_signatures_ok` holds (normal form, no `skip_checks` -- the
config is accepted by `Policy.accepts` --, float input), the run succeeds, and an operator of the output has
a signature no kernel of the table accepts.  "Accepted, then rejected by the runtime" (C13): every witness
was replayed on the Python library and the interpreter. -/

/-- `y := FULLY_CONNECTED(c, w)` with a CONSTANT data operand `c` -/
def mCD : Model :=
  { subgraphs := [{ tensors := [T "c" [1,2] 1, T "w" [2,2] 2, T "y" [1,2] 0],
                    ops := [{ code := 0, inputs := [0,1,-1], outputs := [2], orig := some 0 }],
                    inputs := [], outputs := [2] }],
    buffers := [none, some (.inl 0), some (.inl 1)], opcodes := [9], sigs := [] }
def envCD : Env := { model := mCD, consts := [(1, [1,2]), (2, [1,-2,3,5])], adjY := [] }
def stCD (a : Mode) : Recipe.State := stOf "y;" "FULLY_CONNECTED" a "" "" .none

/-- dynamic range: BOTH constants are quantized like weights, the result stays float32 -/
def mCD' : Model :=
  { subgraphs := [{ tensors := [{ T "c" [1,2] 1 with dtype := 9, quant := some 0 },
                                { T "w" [2,2] 2 with dtype := 9, quant := some 1 }, T "y" [1,2] 0],
                    ops := [{ code := 0, inputs := [0,1,-1], outputs := [2], orig := some 0 }],
                    inputs := [], outputs := [2] }],
    buffers := [none, some (.inr 0), some (.inr 1)], opcodes := [9], sigs := [] }

theorem nfCD (st : Recipe.State) (h : SharingData.noBlockwiseB st = true) : PipelineWF.NF envCD st :=
  TypingE2E.nf_of_fcOrUnnamed envCD st (by decide) (by decide) h (by decide) (by decide)

/-- the data operand of the FULLY_CONNECTED is a constant and the recipe selects dynamic range for it -/
theorem cd_not_dataRuntime (a : Mode) (cfg : OpCfg) (hcp : cfg.cp = .integer)
    (hres : Recipe.resolve rxEq (stCD a) "FULLY_CONNECTED" "y;" = (Tables.algMinMax, cfg)) :
    ¬ DataRuntime rxEq envCD (stCD a) := by
  intro h
  have := h (mCD.subgraphs[0]'(by decide)) (by decide) { code := 0, inputs := [0,1,-1], outputs := [2], orig := some 0 }
    (by decide) "FULLY_CONNECTED" cfg ⟨9, "y;", rfl, by decide, by decide, hres⟩ hcp (by decide) (by decide) 0 (by decide)
  revert this
  decide

/-- **C01.const_data_drq_violates.**  FULLY_CONNECTED with a constant data operand under the API-accepted
    dynamic-range config: `quantize()` succeeds and returns FULLY_CONNECTED(int8, int8) → float32, which is
    neither the float, nor the hybrid, nor an integer signature.  (Replayed on the interpreter:
    `fully_connected.cc … output->type == kTfLiteUInt8 || … kTfLiteInt8 || … kTfLiteInt16 was not true`,
    "Node number 0 (FULLY_CONNECTED) failed to prepare".) -/
theorem const_data_drq_violates :
    ∃ tbl, quantizePure rxEq envCD (stCD .drq) (some qs) = .ok (mCD', tbl) ∧
      PipelineWF.NF envCD (stCD .drq) ∧ MatTotal.NoSkip (stCD .drq) ∧ FloatModel mCD ∧
      WeightConst16 rxEq envCD (stCD .drq) ∧ ¬ DataRuntime rxEq envCD (stCD .drq) ∧
      KernelSig.modelOK mCD' = false ∧
      KernelSig.modelSigs mCD' = [some (9, [some Tables.ttInt8, some Tables.ttInt8, none], [some Tables.ttFloat32])] := by
  obtain ⟨tbl, hrun⟩ := run_of_decide envCD (stCD .drq) mCD' (by decide +kernel)
  exact ⟨tbl, hrun, nfCD _ (by decide), by decide, by decide, KernelSig.weightConst16_of_B _ _ _ (by decide),
    cd_not_dataRuntime .drq cfgDRQ rfl (by decide +kernel), by decide, by decide⟩

/-- static int16: the constant data operand is int8 (weight config), the result int16 -/
def mCD16' : Model :=
  { subgraphs := [{ tensors := [{ T "c" [1,2] 1 with dtype := 9, quant := some 0 },
                                { T "w" [2,2] 2 with dtype := 9, quant := some 1 },
                                { T "y" [1,2] 0 with dtype := 7, quant := some 2 }, T "y_dequant" [1,2] 0],
                    ops := [{ code := 0, inputs := [0,1,-1], outputs := [2], orig := some 0 },
                            { code := 1, inputs := [2], outputs := [3] }],
                    inputs := [], outputs := [3] }],
    buffers := [none, some (.inr 0), some (.inr 1)], opcodes := [9, 6], sigs := [] }

/-- **C01.const_data_srq16_violates.**  The same model under the API-accepted static-range config with 16-bit
    activations: FULLY_CONNECTED(int8, int8) → int16.  (Replayed on the interpreter: the model is prepared and
    invoked, and computes garbage -- the int16 kernel reads the int8 data operand as int16: `x + FC(c, w)` gave
    13.5 where the float model gives -2.5.) -/
theorem const_data_srq16_violates :
    ∃ tbl, quantizePure rxEq envCD (stCD .srq16) (some qs) = .ok (mCD16', tbl) ∧
      PipelineWF.NF envCD (stCD .srq16) ∧ MatTotal.NoSkip (stCD .srq16) ∧ FloatModel mCD ∧
      WeightConst16 rxEq envCD (stCD .srq16) ∧ ¬ DataRuntime rxEq envCD (stCD .srq16) ∧
      KernelSig.modelOK mCD16' = false ∧
      KernelSig.modelSigs mCD16' =
        [some (9, [some Tables.ttInt8, some Tables.ttInt8, none], [some Tables.ttInt16]),
         some (6, [some Tables.ttInt16], [some Tables.ttFloat32])] := by
  obtain ⟨tbl, hrun⟩ := run_of_decide envCD (stCD .srq16) mCD16' (by decide +kernel)
  exact ⟨tbl, hrun, nfCD _ (by decide), by decide, by decide, KernelSig.weightConst16_of_B _ _ _ (by decide),
    cd_not_dataRuntime .srq16 cfgS16 rfl (by decide +kernel), by decide, by decide⟩

/-- `y := BATCH_MATMUL(c, x)` with a CONSTANT left operand -/
def mBL : Model :=
  { subgraphs := [{ tensors := [T "c" [1,2,2] 1, T "x" [1,2,2] 0, T "y" [1,2,2] 0],
                    ops := [{ code := 0, inputs := [0,1], outputs := [2], orig := some 0 }],
                    inputs := [1], outputs := [2] }],
    buffers := [none, some (.inl 0)], opcodes := [126], sigs := [] }
def envBL : Env := { model := mBL, consts := [(1, [1,-2,3,5])], adjY := [] }
def stBL : Recipe.State := stOf "y;" "BATCH_MATMUL" .drq "" "" .none

def mBL' : Model :=
  { subgraphs := [{ tensors := [{ T "c" [1,2,2] 1 with dtype := 9, quant := some 0 }, T "x" [1,2,2] 0, T "y" [1,2,2] 0],
                    ops := [{ code := 0, inputs := [0,1], outputs := [2], orig := some 0 }],
                    inputs := [1], outputs := [2] }],
    buffers := [none, some (.inr 0)], opcodes := [126], sigs := [] }

/-- **C01.bmm_const_lhs_drq_violates.**  BATCH_MATMUL with a constant LEFT operand under the API-accepted
    dynamic-range config: the left operand is quantized like a weight, BATCH_MATMUL(int8, float32) → float32.
    (Replayed on the interpreter: `batch_matmul.cc … (lhs float32 && rhs int8) || lhs.type == rhs.type || (lhs
    int16 && rhs int8)` was not true, "failed to prepare"; same for static int16.) -/
theorem bmm_const_lhs_drq_violates :
    ∃ tbl, quantizePure rxEq envBL stBL (some qs) = .ok (mBL', tbl) ∧
      PipelineWF.NF envBL stBL ∧ MatTotal.NoSkip stBL ∧ FloatModel mBL ∧
      WeightConst16 rxEq envBL stBL ∧ ¬ DataRuntime rxEq envBL stBL ∧
      KernelSig.modelOK mBL' = false ∧
      KernelSig.modelSigs mBL' = [some (126, [some Tables.ttInt8, some Tables.ttFloat32], [some Tables.ttFloat32])] := by
  obtain ⟨tbl, hrun⟩ := run_of_decide envBL stBL mBL' (by decide +kernel)
  refine ⟨tbl, hrun, NFCheckProofs.nfOK_sound envBL stBL (by decide +kernel), by decide, by decide,
    KernelSig.weightConst16_of_B _ _ _ (by decide), ?_, by decide, by decide⟩
  intro h
  have := h (mBL.subgraphs[0]'(by decide)) (by decide) { code := 0, inputs := [0,1], outputs := [2], orig := some 0 }
    (by decide) "BATCH_MATMUL" cfgDRQ ⟨126, "y;", rfl, by decide, by decide, by decide +kernel⟩ rfl (by decide)
    (by decide) 0 (by decide)
  revert this
  decide

/-- `y := CONV_2D_TRANSPOSE(sh, r, x)` with a RUNTIME filter `r` (a graph input) -/
def mTC : Model :=
  { subgraphs := [{ tensors := [T "sh" [4] 1 2, T "r" [1,1,1,2] 0, T "x" [1,1,1,2] 0, T "y" [1,1,1,1] 0],
                    ops := [{ code := 0, inputs := [0,1,2], outputs := [3], orig := some 0 }],
                    inputs := [2,1], outputs := [3] }],
    buffers := [none, some (.inl 0)], opcodes := [67], sigs := [] }
def envTC : Env := { model := mTC, consts := [], adjY := [] }
def stTC : Recipe.State := stOf "y;" "CONV_2D_TRANSPOSE" .srq16 "" "" .none

def mTC' : Model :=
  { subgraphs := [{ tensors := [T "sh" [4] 1 2, T "r" [1,1,1,2] 0, T "x" [1,1,1,2] 0,
                                { T "y" [1,1,1,1] 0 with dtype := 7, quant := some 0 },
                                { T "r_quantized" [1,1,1,2] 0 with dtype := 7, quant := some 0 },
                                { T "x_quantized" [1,1,1,2] 0 with dtype := 7, quant := some 1 },
                                T "y_dequant" [1,1,1,1] 0],
                    ops := [{ code := 1, inputs := [1], outputs := [4] },
                            { code := 1, inputs := [2], outputs := [5] },
                            { code := 0, inputs := [0, 4, 5], outputs := [3], orig := some 0 },
                            { code := 2, inputs := [3], outputs := [6] }],
                    inputs := [2, 1], outputs := [6] }],
    buffers := [none, some (.inl 0)], opcodes := [67, 114, 6], sigs := [] }

/-- **C01.runtime_weight_srq16_violates.**  CONV_2D_TRANSPOSE with a runtime filter under the API-accepted
    static-range config with 16-bit activations: the filter is quantized as an ACTIVATION,
    CONV_2D_TRANSPOSE(int32, int16, int16) → int16, and the int16 kernel reads int8 filters.  (Replayed on the
    interpreter: `transpose_conv.cc … weights->type != kTfLiteInt8 (7 != 9)`, "failed to prepare".  For
    FULLY_CONNECTED and BATCH_MATMUL the int16 × int16 signature is in the table.) -/
theorem runtime_weight_srq16_violates :
    ∃ tbl, quantizePure rxEq envTC stTC (some qs) = .ok (mTC', tbl) ∧
      PipelineWF.NF envTC stTC ∧ MatTotal.NoSkip stTC ∧ FloatModel mTC ∧
      DataRuntime rxEq envTC stTC ∧ ¬ WeightConst16 rxEq envTC stTC ∧
      KernelSig.modelOK mTC' = false ∧
      KernelSig.modelSigs mTC' =
        [some (114, [some Tables.ttFloat32], [some Tables.ttInt16]),
         some (114, [some Tables.ttFloat32], [some Tables.ttInt16]),
         some (67, [some Tables.ttInt32, some Tables.ttInt16, some Tables.ttInt16], [some Tables.ttInt16]),
         some (6, [some Tables.ttInt16], [some Tables.ttFloat32])] := by
  obtain ⟨tbl, hrun⟩ := run_of_decide envTC stTC mTC' (by decide +kernel)
  refine ⟨tbl, hrun, NFCheckProofs.nfOK_sound envTC stTC (by decide +kernel), by decide, by decide,
    KernelSig.dataRuntime_of_B _ _ _ (by decide), ?_, by decide, by decide⟩
  intro h
  have := h (mTC.subgraphs[0]'(by decide)) (by decide) { code := 0, inputs := [0,1,2], outputs := [3], orig := some 0 }
    (by decide) "CONV_2D_TRANSPOSE" cfgS16 { bits := 16, symmetric := true }
    ⟨67, "y;", rfl, by decide, by decide, by decide +kernel⟩ rfl rfl rfl (by decide) (by decide) 1 (by decide)
  revert this
  decide

end E2E

end C01
