import QModel.Py
import QModel.Num
import QModel.NdArray
import QModel.Arith
import QModel.Bytes
