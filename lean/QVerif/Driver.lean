import Lean.Data.Json
import QModel.Arith
import QModel.Bytes
import QModel.Recipe
import QModel.Perform
import QModel.WF
import QModel.Pipeline
import QModel.Skeleton
import QModel.Calib
import QProofs.KernelSig
import QModel.Validate
import QModel.Serialize
import QModel.Eval
import QModel.NFCheck
import QModel.Emulated
import QModel.Blockwise
open Lean Num Nd Arith Cfg Graph Mat

/-! JSON-lines driver: one request per line on stdin, one response per line on stdout. -/

namespace Drv

def ratToJson (r : Rat) : Json := Json.str s!"{r.num}/{r.den}"

def parseRat (s : String) : Except String Rat :=
  match s.splitOn "/" with
  | [n] => match n.toInt? with
    | some z => .ok (z : Rat)
    | none => .error s!"bad rational {s}"
  | [n, d] => match n.toInt?, d.toNat? with
    | some z, some k => if k = 0 then .error "zero den" else .ok ((z : Rat) / (k : Rat))
    | _, _ => .error s!"bad rational {s}"
  | _ => .error s!"bad rational {s}"

def getRat (j : Json) : Except String Rat := do
  match j with
  | .str s => parseRat s
  | .num n => pure ((n.mantissa : Rat) / ((10:Rat)^(n.exponent : Nat)))
  | _ => throw "expected rational"

def getPrec (j : Json) (k : String) : Except String Num.Prec := do
  let s ← j.getObjValAs? String k
  match s with
  | "f16" => pure .f16 | "f32" => pure .f32 | "f64" => pure .f64 | "exact" => pure .exact
  | _ => throw s!"bad prec {s}"

def getNatList (j : Json) (k : String) : Except String (List Nat) := do
  let a ← j.getObjValAs? (Array Nat) k
  pure a.toList

def getIntList (j : Json) (k : String) : Except String (List Int) := do
  let a ← j.getObjValAs? (Array Int) k
  pure a.toList

def getRatList (j : Json) (k : String) : Except String (List Rat) := do
  let a ← j.getObjValAs? (Array Json) k
  a.toList.mapM getRat

def getFArr (j : Json) : Except String FArr := do
  let shape ← getNatList j "shape"
  let data ← getRatList j "data"
  let pr ← getPrec j "pr"
  pure ⟨⟨shape, data⟩, pr⟩

def getIArr (j : Json) : Except String IArr := do
  let shape ← getNatList j "shape"
  let data ← getIntList j "data"
  let w ← j.getObjValAs? Nat "w"
  pure ⟨⟨shape, data⟩, w⟩

def fArrToJson (a : FArr) : Json :=
  Json.mkObj [("shape", toJson a.arr.shape), ("data", Json.arr (a.arr.data.map ratToJson).toArray),
              ("pr", Json.str (toString a.pr))]

def iArrToJson (a : IArr) : Json :=
  Json.mkObj [("shape", toJson a.arr.shape), ("data", toJson a.arr.data), ("w", toJson a.w)]

def getQParams (j : Json) : Except String QParams := do
  let bits ← j.getObjValAs? Nat "bits"
  let qdim : Option Nat := (j.getObjValAs? Nat "qdim").toOption
  let scale ← getFArr (← j.getObjVal? "scale")
  let zp ← getIArr (← j.getObjVal? "zp")
  let sym ← j.getObjValAs? Bool "sym"
  pure { bits := bits, qdim := qdim, scale := scale, zp := zp, symmetric := sym }

def qParamsToJson (q : QParams) : Json :=
  Json.mkObj [("bits", toJson q.bits), ("qdim", match q.qdim with | some d => toJson d | none => Json.null),
              ("scale", fArrToJson q.scale), ("zp", iArrToJson q.zp), ("sym", toJson q.symmetric)]


partial def toJ : Json → J
  | .null => J.null
  | .bool b => J.bool b
  | .num n => J.num (if n.exponent = 0 then n.mantissa else n.mantissa / (10 ^ n.exponent : Nat))
  | .str s => J.str s
  | .arr a => J.arr (a.toList.map toJ)
  | .obj kv => J.obj (kv.toList.map fun (k, v) => (k, toJ v))

partial def ofJ : J → Json
  | .null => Json.null
  | .bool b => Json.bool b
  | .num n => toJson n
  | .str s => Json.str s
  | .arr l => Json.arr (l.map ofJ).toArray
  | .obj kv => Json.mkObj (kv.map fun (k, v) => (k, ofJ v))

/-- ordered key/value list of a JSON object as sent by Python (`[[k, v], ...]`), because
    `Lean.Json` objects do not preserve insertion order -/
partial def toJOrdered : Json → J
  | .arr a =>
    -- encoded object: {"__obj": [[k,v],...]} is handled in `.obj`; plain arrays stay arrays
    J.arr (a.toList.map toJOrdered)
  | .obj kv =>
    match kv.toList with
    | [("__obj", .arr pairs)] =>
      J.obj (pairs.toList.filterMap fun p => match p with
        | .arr #[.str k, v] => some (k, toJOrdered v)
        | _ => none)
    | l => J.obj (l.map fun (k, v) => (k, toJOrdered v))
  | j => toJ j

/-- inverse encoding: objects as {"__obj": [[k,v],...]} so that key order is visible to Python -/
partial def ofJOrdered : J → Json
  | .arr l => Json.arr (l.map ofJOrdered).toArray
  | .obj kv => Json.mkObj [("__obj", Json.arr (kv.map fun (k, v) => Json.arr #[Json.str k, ofJOrdered v]).toArray)]
  | j => ofJ j

def getTCfg (j : Json) : Except String (Option TCfg) := do
  if j.isNull then return none
  let bits ← j.getObjValAs? Int "bits"
  let sym ← j.getObjValAs? Bool "sym"
  let g ← j.getObjValAs? String "gran"
  let d ← j.getObjValAs? String "dtype"
  let bs ← j.getObjValAs? Int "block"
  match Gran.ofStr? g, DT.ofStr? d with
  | some gg, some dd => pure (some { bits := bits, symmetric := sym, gran := gg, dtype := dd, blockSize := bs })
  | _, _ => throw "bad tcfg"

def getOpCfg (j : Json) : Except String OpCfg := do
  let a ← getTCfg (← j.getObjVal? "act")
  let w ← getTCfg (← j.getObjVal? "weight")
  let cps ← j.getObjValAs? String "cp"
  let ed ← j.getObjValAs? Bool "ed"
  let sk ← j.getObjValAs? Bool "sk"
  match CP.ofStr? cps with
  | some cp => pure { act := a, weight := w, cp := cp, explicitDeq := ed, skipChecks := sk }
  | none => throw "bad cp"

def rxTable (j : Json) : Except String (String → String → Bool) := do
  let rows ← j.getObjValAs? (Array Json) "rx"
  let tbl ← rows.toList.mapM fun r => do
    match r with
    | .arr #[.str re, .str sc, .bool b] => pure ((re, sc), b)
    | _ => throw "bad rx row"
  pure fun re sc => (tbl.find? (fun e => e.1.1 == re && e.1.2 == sc)).map (·.2) |>.getD false

def recipeStep (rx : String → String → Bool) (reqW : Bool) (st : Recipe.State) (c : Json) :
    Except String (Recipe.State × Json) := do
  let k ← c.getObjValAs? String "k"
  match k with
  | "add" =>
    let regex ← c.getObjValAs? String "regex"
    let op ← c.getObjValAs? String "operation"
    let alg ← c.getObjValAs? String "alg"
    let cj ← c.getObjVal? "cfg"
    if cj.isNull then
      match Recipe.add st regex op none alg with
      | .ok st' => pure (st', Json.str "ok")
      | .error e => pure (st, Json.str (toString e))
    else
      let cfg ← getOpCfg cj
      match mkOpCfg cfg with
      | .error e => pure (st, Json.str ("ctor:" ++ toString e))
      | .ok cfg => match Recipe.add st regex op (some cfg) alg with
        | .ok st' => pure (st', Json.str "ok")
        | .error e => pure (st, Json.str (toString e))
  | "load" =>
    let rj ← c.getObjVal? "recipe"
    match toJOrdered rj with
    | .arr l =>
      match Recipe.load reqW l with
      | (.ok st', _) => pure (st', Json.str "ok")
      | (.error e, partialSt) => pure (partialSt, Json.str (toString e))
    | _ => throw "recipe must be a list"
  | "get" => pure (st, Json.arr ((Recipe.getRecipe st).map ofJOrdered).toArray)
  | "resolve" =>
    let op ← c.getObjValAs? String "opname"
    let sc ← c.getObjValAs? String "scope"
    let (alg, cfg) := Recipe.resolve rx st op sc
    pure (st, Json.mkObj [("alg", Json.str alg), ("cfg", ofJOrdered cfg.toDict)])
  | "need_cal" => pure (st, Json.bool (Recipe.needCalibration st))
  | _ => throw s!"bad recipe cmd {k}"



def getIntL (j : Json) (k : String) : Except String (List Int) := do
  let a ← j.getObjValAs? (Array Int) k
  pure a.toList

def getXf (s : String) : Except String Xf :=
  match s with
  | "NO_QUANTIZE" => pure .noQuant | "ADD_QUANTIZE" => pure .addQuant | "ADD_DEQUANTIZE" => pure .addDequant
  | "QUANTIZE_TENSOR" => pure .quantTensor | "EMULATED_SUBCHANNEL" => pure .emulated
  | _ => throw s!"bad xf {s}"

def xfStr : Xf → String
  | .noQuant => "NO_QUANTIZE" | .addQuant => "ADD_QUANTIZE" | .addDequant => "ADD_DEQUANTIZE"
  | .quantTensor => "QUANTIZE_TENSOR" | .emulated => "EMULATED_SUBCHANNEL"

def getOptNat (j : Json) (k : String) : Option Nat := (j.getObjValAs? Nat k).toOption

def getModel (j : Json) : Except String Model := do
  let sgs ← j.getObjValAs? (Array Json) "subgraphs"
  let subgraphs ← sgs.toList.mapM fun sg => do
    let ts ← sg.getObjValAs? (Array Json) "tensors"
    let tensors ← ts.toList.mapM fun t => do
      let name ← t.getObjValAs? String "name"
      let dtype ← t.getObjValAs? Nat "dtype"
      let shape ← getIntL t "shape"
      let buffer ← t.getObjValAs? Nat "buffer"
      pure ({ name := name, dtype := dtype, shape := shape, buffer := buffer, quant := getOptNat t "quant" } : Tensor)
    let os ← sg.getObjValAs? (Array Json) "ops"
    let ops ← os.toList.zipIdx.mapM fun (o, i) => do
      let code ← o.getObjValAs? Nat "code"
      let ins ← getIntL o "in"
      let outs ← getIntL o "out"
      pure ({ code := code, inputs := ins, outputs := outs, orig := some i } : Op)
    let inputs ← getIntL sg "inputs"
    let outputs ← getIntL sg "outputs"
    pure ({ tensors := tensors, ops := ops, inputs := inputs, outputs := outputs } : Subgraph)
  let bs ← j.getObjValAs? (Array Json) "buffers"
  let buffers : List BufContent := bs.toList.map fun b => match b.getNat? with
    | .ok k => some (.inl k)
    | .error _ => none
  let opcodes ← j.getObjValAs? (Array Nat) "opcodes"
  let ss ← j.getObjValAs? (Array Json) "sigs"
  let sigs ← ss.toList.mapM fun sd => do
    let key ← sd.getObjValAs? String "key"
    let sgi ← sd.getObjValAs? Nat "sg"
    let pairs := fun (k : String) => do
      let a ← sd.getObjValAs? (Array Json) k
      a.toList.mapM fun e => match e with
        | .arr #[.str n, v] => (match v.getInt? with | .ok z => pure (n, z) | .error e => throw e)
        | _ => throw "bad sig entry"
    let ins ← pairs "inputs"
    let outs ← pairs "outputs"
    pure ({ key := key, sg := sgi, inputs := ins, outputs := outs } : Sig)
  pure { subgraphs := subgraphs, buffers := buffers, opcodes := opcodes.toList, sigs := sigs }

def modelToJson (m : Model) : Json :=
  Json.mkObj [
    ("subgraphs", Json.arr (m.subgraphs.map fun sg => Json.mkObj [
      ("tensors", Json.arr (sg.tensors.map fun t => Json.mkObj [
        ("name", Json.str t.name), ("dtype", toJson t.dtype), ("shape", toJson t.shape), ("buffer", toJson t.buffer),
        ("quant", match t.quant with | some p => toJson p | none => Json.null)]).toArray),
      ("ops", Json.arr (sg.ops.map fun o => Json.mkObj [
        ("code", toJson o.code), ("in", toJson o.inputs), ("out", toJson o.outputs),
        ("orig", match o.orig with | some i => toJson i | none => Json.null)]).toArray),
      ("inputs", toJson sg.inputs), ("outputs", toJson sg.outputs)]).toArray),
    ("buffers", Json.arr (m.buffers.map fun b => match b with
      | none => Json.null
      | some (.inl k) => Json.mkObj [("k", toJson k)]
      | some (.inr p) => Json.mkObj [("p", toJson p)]).toArray),
    ("opcodes", toJson m.opcodes),
    ("sigs", Json.arr (m.sigs.map fun s => Json.mkObj [
      ("key", Json.str s.key), ("sg", toJson s.sg),
      ("inputs", Json.arr (s.inputs.map fun e => Json.arr #[Json.str e.1, toJson e.2]).toArray),
      ("outputs", Json.arr (s.outputs.map fun e => Json.arr #[Json.str e.1, toJson e.2]).toArray)]).toArray)]

def getO2T (j : Json) : Except String O2T := do
  let opId ← j.getObjValAs? Int "op"
  let xs ← j.getObjValAs? (Array String) "xfs"
  let xfs ← xs.toList.mapM getXf
  pure { opId := opId, xfs := xfs, param := getOptNat j "param" }

def getReqs (j : Json) : Except String (List TReq) := do
  let rs ← j.getObjValAs? (Array Json) "reqs"
  rs.toList.mapM fun r => do
    let name ← r.getObjValAs? String "name"
    let pj ← r.getObjVal? "producer"
    let producer ← if pj.isNull then pure none else (getO2T pj).map some
    let cj ← r.getObjVal? "consumers"
    let consumers ← if cj.isNull then pure none else do
      let a ← r.getObjValAs? (Array Json) "consumers"
      let l ← a.toList.mapM getO2T
      pure (some l)
    pure { name := name, producer := producer, consumers := consumers }

def getPTable (j : Json) : Except String PTable := do
  let ps ← j.getObjValAs? (Array Json) "ptable"
  ps.toList.mapM fun p => do
    let id ← p.getObjValAs? Nat "id"
    let u ← p.getObjValAs? Bool "uniform"
    let b ← p.getObjValAs? Nat "bits"
    let d ← p.getObjValAs? Bool "hasData"
    pure (id, { uniform := u, bits := b, hasData := d })

def instToJson (i : Inst) : Json :=
  Json.mkObj [("xf", Json.str (xfStr i.xf)), ("tensor", toJson i.tensor), ("producer", toJson i.producer),
              ("consumers", toJson i.consumers), ("param", match i.param with | some p => toJson p | none => Json.null)]



def arrRatToJson (a : Arr Rat) : Json :=
  Json.mkObj [("shape", toJson a.shape), ("data", Json.arr (a.data.map ratToJson).toArray)]

def paramToJson : Param → Json
  | .uniform qp d => Json.mkObj [("kind", Json.str "uniform"), ("bits", toJson qp.bits),
      ("qdim", match qp.qdim with | some q => toJson q | none => Json.null), ("sym", toJson qp.symmetric),
      ("scale", fArrToJson qp.scale), ("zp", iArrToJson qp.zp),
      ("data", match d with | some x => iArrToJson x | none => Json.null)]
  | .nonlinear b d => Json.mkObj [("kind", Json.str "nonlinear"), ("bits", toJson b),
      ("data", match d with | some x => arrRatToJson x | none => Json.null)]

def co2tToJson (o : CO2T) : Json :=
  Json.mkObj [("op", toJson o.opId), ("xfs", toJson (o.xfs.map xfStr)),
              ("param", match o.param with | some p => paramToJson p | none => Json.null)]

def creqToJson (r : CReq) : Json :=
  Json.mkObj [("name", Json.str r.name),
    ("producer", match r.producer with | some o => co2tToJson o | none => Json.null),
    ("consumers", match r.consumers with | some l => Json.arr (l.map co2tToJson).toArray | none => Json.null)]

def getEnv (j : Json) : Except String Env := do
  let m ← getModel (← j.getObjVal? "model")
  let cs ← j.getObjValAs? (Array Json) "consts"
  let consts ← cs.toList.mapM fun c => do
    let b ← c.getObjValAs? Nat "buffer"
    let d ← getRatList c "data"
    pure (b, d)
  let ay ← j.getObjValAs? (Array (Array Nat)) "adjY"
  let adjY := ay.toList.filterMap fun a => match a.toList with | [s, o] => some (s, o) | _ => none
  pure { model := m, consts := consts, adjY := adjY }

def getQsvs (j : Json) : Except String (Option Qsvs) := do
  let q ← j.getObjVal? "qsvs"
  if q.isNull then return none
  let rows ← j.getObjValAs? (Array Json) "qsvs"
  let l ← rows.toList.mapM fun r => do
    let name ← r.getObjValAs? String "name"
    let mnj ← r.getObjVal? "min"
    if mnj.isNull then pure (name, (none : Qsv)) else do
      let mn ← getFArr mnj
      let mx ← getFArr (← r.getObjVal? "max")
      pure (name, some (mn, mx))
  pure (some l)

def getState (j : Json) : Except String Recipe.State := do
  let rj ← j.getObjVal? "recipe"
  match toJOrdered rj with
  | .arr l => match Recipe.load false l with
    | (.ok st, _) => pure st
    | (.error e, _) => throw s!"recipe does not load in the model: {e}"
  | _ => throw "recipe must be a list"



def qsvsToJson (qs : Qsvs) : Json :=
  Json.arr (qs.map fun e => match e.2 with
    | none => Json.mkObj [("name", Json.str e.1), ("min", Json.null), ("max", Json.null)]
    | some (mn, mx) => Json.mkObj [("name", Json.str e.1), ("min", fArrToJson mn), ("max", fArrToJson mx)]).toArray

def getSamples (j : Json) : Except String (List Calib.Contents) := do
  let ss ← j.getObjValAs? (Array Json) "samples"
  ss.toList.mapM fun smp => do
    let rows ← match smp with | .arr a => pure a.toList | _ => throw "sample must be a list"
    rows.mapM fun r => do
      let name ← r.getObjValAs? String "name"
      let d ← getFArr (← r.getObjVal? "data")
      pure (name, d)



def getTData (j : Json) : Except String (String × Validate.TData) := do
  let name ← j.getObjValAs? String "name"
  let kind ← j.getObjValAs? String "kind"
  if kind == "float" then
    let d ← getRatList j "data"
    pure (name, .float d)
  else
    let q ← getIArr (← j.getObjVal? "q")
    let qp ← getQParams (← j.getObjVal? "qp")
    pure (name, .quant q qp)

def groupToJson (g : List (String × Rat)) : Json :=
  Json.arr (g.map fun e => Json.arr #[Json.str e.1, ratToJson e.2]).toArray


def okJson (j : Json) : Json := Json.mkObj [("ok", j)]
def errJson (e : PyErr) : Json := Json.mkObj [("err", Json.str (toString e))]
def pyToJson {α} (f : α → Json) : PyM α → Json
  | .ok a => okJson (f a)
  | .error e => errJson e

def handle (j : Json) : Except String Json := do
  let op ← j.getObjValAs? String "op"
  match op with
  | "ping" => pure (okJson (Json.str "pong"))
  | "rn" =>
      let pr ← getPrec j "pr"
      let x ← getRat (← j.getObjVal? "x")
      pure (pyToJson ratToJson (pr.chk x))
  | "zp_scale" =>
      let bits ← j.getObjValAs? Nat "bits"
      let sym ← j.getObjValAs? Bool "sym"
      let mn ← getFArr (← j.getObjVal? "min")
      let mx ← getFArr (← j.getObjVal? "max")
      pure (pyToJson (fun (r : IArr × FArr) => Json.mkObj [("zp", iArrToJson r.1), ("scale", fArrToJson r.2)])
        (zpScale bits sym mn mx))
  | "quantize" =>
      let x ← getFArr (← j.getObjVal? "x")
      let qp ← getQParams (← j.getObjVal? "qp")
      pure (pyToJson iArrToJson (uniformQuantize x qp))
  | "dequantize" =>
      let q ← getIArr (← j.getObjVal? "q")
      let qp ← getQParams (← j.getObjVal? "qp")
      let widen ← j.getObjValAs? Bool "widen"
      pure (pyToJson fArrToJson (uniformDequantize widen q qp))
  | "dequantize_f" =>
      let x ← getFArr (← j.getObjVal? "x")
      let qp ← getQParams (← j.getObjVal? "qp")
      pure (pyToJson fArrToJson (uniformDequantizeF x qp))
  | "bias" =>
      let b ← getFArr (← j.getObjVal? "bias")
      let inp ← getQParams (← j.getObjVal? "inp")
      let w ← getQParams (← j.getObjVal? "w")
      pure (pyToJson (fun (r : QParams × IArr) => Json.mkObj [("qp", qParamsToJson r.1), ("q", iArrToJson r.2)])
        (quantizeBias b inp w))
  | "store" =>
      let bits ← j.getObjValAs? Nat "bits"
      let w ← j.getObjValAs? Nat "w"
      let zs ← getIntList j "data"
      pure (okJson (toJson (Bytes.storeInts bits w zs)))
  | "unpack4" =>
      let n ← j.getObjValAs? Nat "n"
      let bs ← getNatList j "bytes"
      pure (okJson (toJson (Bytes.unpack4 n bs)))
  | "f16" =>
      let xs ← getRatList j "data"
      pure (pyToJson (fun (l : List (List Nat)) => toJson l.flatten) (xs.mapM Bytes.castF16))
  | "accepts" =>
      let alg ← j.getObjValAs? String "alg"
      let opn ← j.getObjValAs? String "opname"
      let cfg ← getOpCfg (← j.getObjVal? "cfg")
      match mkOpCfg cfg with
      | .error e => pure (errJson e)
      | .ok c => pure (okJson (Json.bool (Policy.accepts alg opn c)))
  | "unroll_policy" =>
      let same := (Policy.unrollPolicy Tables.policyRawJson) == Tables.defaultPolicyUnrolled
      pure (okJson (Json.bool same))
  | "cfg_roundtrip" =>
      let cfg ← getOpCfg (← j.getObjVal? "cfg")
      let reqW ← j.getObjValAs? Bool "requireWeight"
      match mkOpCfg cfg with
      | .error e => pure (errJson e)
      | .ok c =>
        let d := c.toDict
        pure (Json.mkObj [("ok", Json.mkObj [("dict", ofJOrdered d),
          ("back", match OpCfg.fromDict reqW d with
            | .ok c' => Json.bool (c' == c)
            | .error e => Json.str (toString e))])])
  | "from_dict" =>
      let reqW ← j.getObjValAs? Bool "requireWeight"
      match OpCfg.fromDict reqW (toJOrdered (← j.getObjVal? "dict")) with
      | .ok c => pure (okJson (ofJOrdered c.toDict))
      | .error e => pure (errJson e)
  | "recipe_run" =>
      let rx ← rxTable j
      let reqW ← j.getObjValAs? Bool "requireWeight"
      let cmds ← j.getObjValAs? (Array Json) "cmds"
      let mut st : Recipe.State := []
      let mut outs : Array Json := #[]
      for c in cmds do
        let (st', o) ← recipeStep rx reqW st c
        st := st'
        outs := outs.push o
      pure (okJson (Json.arr outs))
  | "graph_insts" =>
      let m ← getModel (← j.getObjVal? "model")
      let reqs ← getReqs j
      pure (pyToJson (fun (l : List TInsts) => Json.arr (l.map fun ti => Json.mkObj [("name", Json.str ti.name), ("sg", toJson ti.sg),
          ("insts", Json.arr (ti.insts.map instToJson).toArray)]).toArray) (InstGen.genInsts m reqs))
  | "graph_modify" =>
      let m ← getModel (← j.getObjVal? "model")
      let reqs ← getReqs j
      let pt ← getPTable j
      pure (match Perform.modify pt m reqs with
        | .ok m' => Json.mkObj [("ok", modelToJson m'), ("wf", Json.bool (WF.modelOK m')), ("wf_in", Json.bool (WF.modelOK m)),
                                 ("skeleton", Json.bool (Skeleton.sameModelSkeleton m m'))]
        | .error e => errJson e)
  | "materialize" =>
      let env ← getEnv j
      let st ← getState j
      let rx ← rxTable j
      let qs ← getQsvs j
      pure (pyToJson (fun (l : List CReq) => Json.arr (l.map creqToJson).toArray) (Mat.generate rx env st qs))
  | "pipeline" =>
      let env ← getEnv j
      let st ← getState j
      let rx ← rxTable j
      let qs ← getQsvs j
      pure (match Pipeline.quantizePure rx env st qs with
        | .ok (m', tbl) => Json.mkObj [("ok", modelToJson m'), ("params", Json.arr (tbl.map paramToJson).toArray),
                                        ("wf", Json.bool (WF.modelOK m')),
                                        ("skeleton", Json.bool (Skeleton.sameModelSkeleton env.model m')),
                                        -- the ASSUMED kernel-signature table (QProofs/KernelSig.lean) on the input and on the output: the
                                        -- harness runs the same output on the real interpreter, which is what validates the table
                                        ("ksig_in", Json.bool (KernelSig.modelOK env.model)),
                                        ("ksig", Json.bool (KernelSig.modelOK m')),
                                        ("ksig_sigs", Json.arr ((KernelSig.modelSigs m').eraseDups.map fun s => match s with
                                            | some (c, ins, outs) => Json.arr #[toJson c, toJson (ins.map fun d => d.getD 255), toJson (outs.map fun d => d.getD 255),
                                                                              Json.bool (KernelSig.sigOK s)]
                                            | none => Json.null).toArray),
                                        -- the hypothesis NF of the end-to-end theorems (C01.quantize_wf, C02.quantize_skeleton), field by field
                                        ("nf", Json.mkObj ((NFCheck.report env st).map fun p => (p.1, Json.bool p.2))),
                                        -- hypotheses of the C06 evaluation theorems, per subgraph of the model's output
                                        ("c06_shape", Json.arr (m'.subgraphs.map fun sg => Json.mkObj [
                                            ("ins", toJson (Eval.insOps sg).length),
                                            ("deq_on_const", Json.bool (Eval.deqOnConst sg)),
                                            ("ins_before_use", Json.bool (Eval.insBeforeUse sg)),
                                            ("outputs_clean", Json.bool (Eval.outputsClean sg))]).toArray)]
        | .error e => errJson e)
  | "calibrate" =>
      let env ← getEnv j
      let st ← getState j
      let rx ← rxTable j
      let prev ← getQsvs j
      let sgi ← j.getObjValAs? Nat "sg"
      let samples ← getSamples j
      pure (pyToJson qsvsToJson (Calib.calibrate rx env st sgi prev samples))
  | "validate" =>
      let ms ← j.getObjValAs? String "metric"
      let metric : Validate.Metric := if ms == "mse" then .mse else .mdr
      let ss ← j.getObjValAs? (Array Json) "samples"
      let samples ← ss.toList.mapM fun smp => do
        let r ← smp.getObjValAs? (Array Json) "ref"
        let t ← smp.getObjValAs? (Array Json) "target"
        let rl ← r.toList.mapM getTData
        let tl ← t.toList.mapM getTData
        pure ({ ref := rl, target := tl } : Validate.Sample)
      let ins ← j.getObjValAs? (Array String) "inputs"
      let outs ← j.getObjValAs? (Array String) "outputs"
      let cs ← j.getObjValAs? (Array String) "constants"
      pure (pyToJson (fun (g : Validate.Groups) => Json.mkObj [("inputs", groupToJson g.inputs), ("outputs", groupToJson g.outputs),
          ("constants", groupToJson g.constants), ("intermediates", groupToJson g.intermediates)])
        (Validate.compare metric samples ins.toList outs.toList cs.toList))
  | "emulated" =>
      -- the EMULATED_SUBCHANNEL transformation function on its own (QModel/Emulated.lean)
      let m ← getModel (← j.getObjVal? "model")
      let pt ← getPTable j
      let ej ← j.getObjVal? "env"
      let env : Emulated.EmuEnv := {
        fused := getOptNat ej "fused",
        weightHasQuant := ← ej.getObjValAs? Bool "weightHasQuant",
        qshape := ← getIntL ej "qshape",
        scaleShape := ← getIntL ej "scaleShape",
        zpAllZero := ← ej.getObjValAs? Bool "zpAllZero",
        unitQ := ← ej.getObjValAs? Nat "unitQ",
        axesTok := ← ej.getObjValAs? Nat "axesTok",
        shape1Tok := ← ej.getObjValAs? Nat "shape1Tok",
        shape2Tok := ← ej.getObjValAs? Nat "shape2Tok" }
      let sgi ← j.getObjValAs? Nat "sg"
      let ij ← j.getObjVal? "inp"
      let inp : Perform.TIn := {
        tensor := ← ij.getObjValAs? Int "tensor",
        producer := ← ij.getObjValAs? Int "producer",
        consumers := ← getIntL ij "consumers",
        param := getOptNat ij "param" }
      pure (match Emulated.apply pt env m sgi inp with
        | .ok (m', info) => Json.mkObj [("ok", Json.mkObj [("model", modelToJson m'),
            ("info", Json.mkObj [("opId", toJson info.opId), ("added", toJson info.added), ("outTensor", toJson info.outTensor)]),
            ("wf", Json.bool (WF.modelOK m')), ("wf_in", Json.bool (WF.modelOK m))])]
        | .error e => errJson e)
  | "blockwise" =>
      -- BLOCKWISE weight quantization (QModel/Blockwise.lean). Without "qp": `init_tensor_min_max` + `_get_tensor_quant_params`
      -- (statistics, parameters, quantized data); with "qp": `uniform_quantize_for_emulated_subchannel` alone on given parameters
      let w ← getFArr (← j.getObjVal? "w")
      -- a negative block size is refused by `check_subchannel_config` exactly like 0 (`block_size <= 0`): it is sent to the model as 0
      let bs := (← j.getObjValAs? Int "block").toNat
      match (j.getObjVal? "qp").toOption with
      | some qj =>
        let qp ← getQParams qj
        pure (pyToJson iArrToJson (Blockwise.quantizeWith w qp bs))
      | none =>
        let bits ← j.getObjValAs? Nat "bits"
        let sym ← j.getObjValAs? Bool "sym"
        pure (pyToJson (fun (r : FArr × FArr × QParams × IArr) => Json.mkObj [("min", fArrToJson r.1), ("max", fArrToJson r.2.1),
            ("qp", qParamsToJson r.2.2.1), ("q", iArrToJson r.2.2.2)]) (Blockwise.run w bs bits sym))
  | "ser_offsets" =>
      let d ← j.getObjValAs? Nat "dummyLen"
      let sizes ← getNatList j "sizes"
      pure (okJson (Json.arr ((Ser.offsets d sizes).map fun p => Json.arr #[toJson p.1, toJson p.2]).toArray))
  | _ => throw s!"unknown op {op}"

end Drv

partial def loop (hin : IO.FS.Stream) (hout : IO.FS.Stream) : IO Unit := do
  let line ← hin.getLine
  if line.isEmpty then return ()
  let resp : Json :=
    match Json.parse line with
    | .error e => Json.mkObj [("fail", Json.str s!"parse: {e}")]
    | .ok j => match Drv.handle j with
      | .ok r => r
      | .error e => Json.mkObj [("fail", Json.str e)]
  hout.putStrLn resp.compress
  hout.flush
  loop hin hout

def main : IO Unit := do
  let hin ← IO.getStdin
  let hout ← IO.getStdout
  loop hin hout
  hout.flush
