import Lean.Data.Json
import QModel.Arith
import QModel.Bytes
open Lean Num Nd Arith

/-! JSON-lines driver: one request per line on stdin, one response per line on stdout. -/

namespace Drv

def ratToJson (r : Rat) : Json := Json.str s!"{r.num}/{r.den}"

def parseRat (s : String) : Except String Rat :=
  match s.splitOn "/" with
  | [n] => match n.toInt? with
    | some z => .ok (z : Rat)
    | none => .error s!"bad rational {s}"
  | [n, d] => match n.toInt?, d.toNat? with
    | some z, some k => if k = 0 then .error "zero den" else .ok ((z : Rat) / (k : Rat))
    | _, _ => .error s!"bad rational {s}"
  | _ => .error s!"bad rational {s}"

def getRat (j : Json) : Except String Rat := do
  match j with
  | .str s => parseRat s
  | .num n => pure ((n.mantissa : Rat) / ((10:Rat)^(n.exponent : Nat)))
  | _ => throw "expected rational"

def getPrec (j : Json) (k : String) : Except String Num.Prec := do
  let s ← j.getObjValAs? String k
  match s with
  | "f16" => pure .f16 | "f32" => pure .f32 | "f64" => pure .f64 | "exact" => pure .exact
  | _ => throw s!"bad prec {s}"

def getNatList (j : Json) (k : String) : Except String (List Nat) := do
  let a ← j.getObjValAs? (Array Nat) k
  pure a.toList

def getIntList (j : Json) (k : String) : Except String (List Int) := do
  let a ← j.getObjValAs? (Array Int) k
  pure a.toList

def getRatList (j : Json) (k : String) : Except String (List Rat) := do
  let a ← j.getObjValAs? (Array Json) k
  a.toList.mapM getRat

def getFArr (j : Json) : Except String FArr := do
  let shape ← getNatList j "shape"
  let data ← getRatList j "data"
  let pr ← getPrec j "pr"
  pure ⟨⟨shape, data⟩, pr⟩

def getIArr (j : Json) : Except String IArr := do
  let shape ← getNatList j "shape"
  let data ← getIntList j "data"
  let w ← j.getObjValAs? Nat "w"
  pure ⟨⟨shape, data⟩, w⟩

def fArrToJson (a : FArr) : Json :=
  Json.mkObj [("shape", toJson a.arr.shape), ("data", Json.arr (a.arr.data.map ratToJson).toArray),
              ("pr", Json.str (toString a.pr))]

def iArrToJson (a : IArr) : Json :=
  Json.mkObj [("shape", toJson a.arr.shape), ("data", toJson a.arr.data), ("w", toJson a.w)]

def getQParams (j : Json) : Except String QParams := do
  let bits ← j.getObjValAs? Nat "bits"
  let qdim : Option Nat := (j.getObjValAs? Nat "qdim").toOption
  let scale ← getFArr (← j.getObjVal? "scale")
  let zp ← getIArr (← j.getObjVal? "zp")
  let sym ← j.getObjValAs? Bool "sym"
  pure { bits := bits, qdim := qdim, scale := scale, zp := zp, symmetric := sym }

def qParamsToJson (q : QParams) : Json :=
  Json.mkObj [("bits", toJson q.bits), ("qdim", match q.qdim with | some d => toJson d | none => Json.null),
              ("scale", fArrToJson q.scale), ("zp", iArrToJson q.zp), ("sym", toJson q.symmetric)]

def okJson (j : Json) : Json := Json.mkObj [("ok", j)]
def errJson (e : PyErr) : Json := Json.mkObj [("err", Json.str (toString e))]
def pyToJson {α} (f : α → Json) : PyM α → Json
  | .ok a => okJson (f a)
  | .error e => errJson e

def handle (j : Json) : Except String Json := do
  let op ← j.getObjValAs? String "op"
  match op with
  | "ping" => pure (okJson (Json.str "pong"))
  | "rn" =>
      let pr ← getPrec j "pr"
      let x ← getRat (← j.getObjVal? "x")
      pure (pyToJson ratToJson (pr.chk x))
  | "zp_scale" =>
      let bits ← j.getObjValAs? Nat "bits"
      let sym ← j.getObjValAs? Bool "sym"
      let mn ← getFArr (← j.getObjVal? "min")
      let mx ← getFArr (← j.getObjVal? "max")
      pure (pyToJson (fun (r : IArr × FArr) => Json.mkObj [("zp", iArrToJson r.1), ("scale", fArrToJson r.2)])
        (zpScale bits sym mn mx))
  | "quantize" =>
      let x ← getFArr (← j.getObjVal? "x")
      let qp ← getQParams (← j.getObjVal? "qp")
      pure (pyToJson iArrToJson (uniformQuantize x qp))
  | "dequantize" =>
      let q ← getIArr (← j.getObjVal? "q")
      let qp ← getQParams (← j.getObjVal? "qp")
      let widen ← j.getObjValAs? Bool "widen"
      pure (pyToJson fArrToJson (uniformDequantize widen q qp))
  | "dequantize_f" =>
      let x ← getFArr (← j.getObjVal? "x")
      let qp ← getQParams (← j.getObjVal? "qp")
      pure (pyToJson fArrToJson (uniformDequantizeF x qp))
  | "bias" =>
      let b ← getFArr (← j.getObjVal? "bias")
      let inp ← getQParams (← j.getObjVal? "inp")
      let w ← getQParams (← j.getObjVal? "w")
      pure (pyToJson (fun (r : QParams × IArr) => Json.mkObj [("qp", qParamsToJson r.1), ("q", iArrToJson r.2)])
        (quantizeBias b inp w))
  | "store" =>
      let bits ← j.getObjValAs? Nat "bits"
      let w ← j.getObjValAs? Nat "w"
      let zs ← getIntList j "data"
      pure (okJson (toJson (Bytes.storeInts bits w zs)))
  | "unpack4" =>
      let n ← j.getObjValAs? Nat "n"
      let bs ← getNatList j "bytes"
      pure (okJson (toJson (Bytes.unpack4 n bs)))
  | "f16" =>
      let xs ← getRatList j "data"
      pure (pyToJson (fun (l : List (List Nat)) => toJson l.flatten) (xs.mapM Bytes.castF16))
  | _ => throw s!"unknown op {op}"

end Drv

partial def loop (hin : IO.FS.Stream) (hout : IO.FS.Stream) : IO Unit := do
  let line ← hin.getLine
  if line.isEmpty then return ()
  let resp : Json :=
    match Json.parse line with
    | .error e => Json.mkObj [("fail", Json.str s!"parse: {e}")]
    | .ok j => match Drv.handle j with
      | .ok r => r
      | .error e => Json.mkObj [("fail", Json.str e)]
  hout.putStrLn resp.compress
  hout.flush
  loop hin hout

def main : IO Unit := do
  let hin ← IO.getStdin
  let hout ← IO.getStdout
  loop hin hout
  hout.flush
