import QModel.InstGen
/-!
# Model of `transformation_performer.py` and `transformations/{quant_insert,dequant_insert,
quantize_tensor,transformation_utils}.py` (with the repairs D1–D4, D16/D17)
-/
open Graph

namespace Perform

/-- `quant_params_to_tflite_type` / `nonlinear_quant_params_to_tflite_type` -/
def dtypeOf (pi : PInfo) : PyM Nat :=
  if pi.uniform then
    if pi.bits ≤ 4 then .ok Tables.ttInt4 else if pi.bits ≤ 8 then .ok Tables.ttInt8
    else if pi.bits ≤ 16 then .ok Tables.ttInt16 else if pi.bits ≤ 32 then .ok Tables.ttInt32
    else if pi.bits ≤ 64 then .ok Tables.ttInt64 else .error .valueError
  else
    if pi.bits = 16 then .ok Tables.ttFloat16 else if pi.bits = 32 then .ok Tables.ttFloat32
    else .error .valueError

/-- `add_op_code` -/
def addOpCode (codes : List Nat) (code : Nat) : List Nat × Nat :=
  match codes.findIdx? (· == code) with
  | some i => (codes, i)
  | none => (codes ++ [code], codes.length)

/-- `_get_unique_tensor_name` (repair D16/D17): smallest suffix `_k`, k ≥ 1, that is free.
    `fuel` bounds the search; by the pigeonhole principle `|names|+1` candidates always contain a
    free one, so the fall-back (a name longer than every existing name, hence fresh) is never
    taken; it only makes freshness provable without a pigeonhole argument. -/
def longName (names : List String) (base : String) : String :=
  base ++ "_" ++ String.ofList (List.replicate (names.foldl (fun a n => a + n.length) 0 + 1) '_')

def uniqueNameAux (names : List String) (base : String) : Nat → Nat → String
  | 0, _ => longName names base
  | fuel + 1, k =>
    let cand := base ++ "_" ++ toString k
    if names.contains cand then uniqueNameAux names base fuel (k + 1) else cand

def uniqueName (names : List String) (base : String) : String :=
  if names.contains base then uniqueNameAux names base (names.length + 1) 1 else base

/-- the standard input of a graph transformation (`TransformationInput`) -/
structure TIn where
  tensor : Int
  producer : Int
  consumers : List Int
  param : Option PId
  deriving Repr, Inhabited

/-- `TransformationInfo` -/
structure TInfoOut where
  opId : Int
  added : Nat
  outTensor : Int
  deriving Repr, Inhabited

def getTensor (sg : Subgraph) (t : Int) : PyM Tensor := Py.index sg.tensors t

def setTensor (sg : Subgraph) (t : Int) (tn : Tensor) : Subgraph :=
  let i := if t < 0 then t + sg.tensors.length else t
  { sg with tensors := sg.tensors.set i.toNat tn }

/-- `quantize_tensor` on tensor `t` of subgraph `sg`; returns the updated buffers and subgraph -/
def quantizeTensor (pt : PTable) (bufs : List BufContent) (sg : Subgraph) (t : Int) (param : Option PId) :
    PyM (List BufContent × Subgraph) := do
  let tn ← getTensor sg t
  match param with
  | none => throw .attributeError      -- `None.quantized_data`
  | some p =>
    match pinfo pt p with
    | none => throw .unsupported
    | some pi =>
      let bufs ←
        if tn.buffer ≠ 0 && pi.hasData then
          (if tn.buffer < bufs.length then pure (bufs.set tn.buffer (some (.inr p))) else throw .indexError)
        else pure bufs
      let ty ← dtypeOf pi
      let tn' := if pi.uniform then { tn with quant := some p, dtype := ty } else { tn with dtype := ty }
      pure (bufs, setTensor sg t tn')

/-- rewire the operand slots equal to `t` of the listed (real) consumers to `n` -/
def rewire (ops : List Op) (consumers : List Int) (t n : Int) : PyM (List Op) :=
  consumers.foldlM (fun ops c =>
    if c < 0 then pure ops
    else if c.toNat < ops.length then
      pure (ops.modify c.toNat fun op => { op with inputs := op.inputs.map fun i => if i == t then n else i })
    else throw .indexError) ops

/-- `min(consumers)` of a non-empty list -/
def minCons (l : List Int) : PyM Int := Py.minInt l

/-- Python `list.insert(i, x)` for `i ≥ 0` (clamped at the end) -/
def pyInsert {α} (l : List α) (i : Int) (x : α) : List α :=
  let k := if i < 0 then (if i + l.length < 0 then 0 else (i + l.length).toNat) else i.toNat
  l.insertIdx (min k l.length) x

/-- common tail of `insert_quant` / `insert_dequant` -/
def wireNewOp (sg : Subgraph) (inp : TIn) (newT : Int) (op : Op) : PyM (Subgraph × TInfoOut) := do
  let first ← minCons inp.consumers
  let ops ← rewire sg.ops inp.consumers inp.tensor newT
  let outs := if memI (-1) inp.consumers then sg.outputs.map (fun o => if o == inp.tensor then newT else o) else sg.outputs
  let opId := max (inp.producer + 1) first
  pure ({ sg with ops := pyInsert ops opId op, outputs := outs }, ⟨opId, 1, newT⟩)

/-- `insert_quant` -/
def insertQuant (pt : PTable) (m : Model) (sgi : Nat) (inp : TIn) : PyM (Model × TInfoOut) := do
  let sg ← match m.subgraphs[sgi]? with | some s => pure s | none => throw .indexError
  let (codes, ci) := addOpCode m.opcodes Tables.opQuantize
  let tn ← getTensor sg inp.tensor
  let newId : Int := sg.tensors.length
  let name := uniqueName (sg.tensors.map (·.name)) (tn.name ++ "_quantized")
  let sg1 := { sg with tensors := sg.tensors ++ [{ name := name, dtype := Tables.ttFloat32, shape := tn.shape, buffer := 0 }] }
  let (bufs, sg2) ← quantizeTensor pt m.buffers sg1 newId inp.param
  let op : Op := { code := ci, inputs := [inp.tensor], outputs := [newId] }
  let (sg3, info) ← wireNewOp sg2 inp newId op
  pure ({ m with subgraphs := m.subgraphs.set sgi sg3, buffers := bufs, opcodes := codes }, info)

/-- `insert_dequant` -/
def insertDequant (pt : PTable) (m : Model) (sgi : Nat) (inp : TIn) : PyM (Model × TInfoOut) := do
  let sg ← match m.subgraphs[sgi]? with | some s => pure s | none => throw .indexError
  let (codes, ci) := addOpCode m.opcodes Tables.opDequantize
  let tn ← getTensor sg inp.tensor
  let newId : Int := sg.tensors.length
  let name := uniqueName (sg.tensors.map (·.name)) (tn.name ++ "_dequant")
  let sg1 := { sg with tensors := sg.tensors ++ [{ name := name, dtype := Tables.ttFloat32, shape := tn.shape, buffer := 0 }] }
  let op : Op := { code := ci, inputs := [inp.tensor], outputs := [newId] }
  let (bufs, sg2) ← quantizeTensor pt m.buffers sg1 inp.tensor inp.param
  let (sg3, info) ← wireNewOp sg2 inp newId op
  pure ({ m with subgraphs := m.subgraphs.set sgi sg3, buffers := bufs, opcodes := codes }, info)

/-- `quantize_tensor` as a registered transformation -/
def quantizeOnly (pt : PTable) (m : Model) (sgi : Nat) (inp : TIn) : PyM (Model × TInfoOut) := do
  let sg ← match m.subgraphs[sgi]? with | some s => pure s | none => throw .indexError
  let (bufs, sg') ← quantizeTensor pt m.buffers sg inp.tensor inp.param
  pure ({ m with subgraphs := m.subgraphs.set sgi sg', buffers := bufs }, ⟨0, 0, inp.tensor⟩)

/-- performer state -/
structure PState where
  model : Model
  origMap : List (List Int)     -- per subgraph: original op id ↦ current op id
  addedMap : List (List Int)    -- per subgraph: k-th added op ↦ its op id when added
  deriving Repr, Inhabited

/-- `_update_signature_outputs` (repair D4) -/
def updateSigs (sigs : List Sig) (sgi : Nat) (before after : List Int) : List Sig :=
  let ret := (before.zip after).filter fun p => p.1 != p.2
  if ret.isEmpty then sigs else
  sigs.map fun s =>
    if s.sg != sgi then s else
    { s with outputs := s.outputs.map fun e =>
        -- Python dict built from the pairs: the last pair with a given key wins
        match (ret.reverse.find? (·.1 == e.2)) with
        | some p => (e.1, p.2)
        | none => e }

/-- `_update_instructions` on the not yet applied instructions -/
def updateInsts (later : List Inst) (prevConsumers : List Int) (newProducer : Int) (newTensor : Int) : List Inst :=
  later.map fun t =>
    if t.consumers.any (fun c => memI c prevConsumers) then { t with producer := newProducer, tensor := newTensor } else t

/-- `_apply_single_transformation` for instruction `idx` of `ti` -/
def applySingle (pt : PTable) (st : PState) (ti : TInsts) (idx : Nat) : PyM (PState × TInsts) := do
  let ins ← match ti.insts[idx]? with | some i => pure i | none => throw .indexError
  let omap ← match st.origMap[ti.sg]? with | some l => pure l | none => throw .indexError
  let amap ← match st.addedMap[ti.sg]? with | some l => pure l | none => throw .indexError
  let producer : Int ←
    if ins.producer < 0 then pure (-1 : Int)
    else if ins.producer < omap.length then Py.index omap ins.producer
    else Py.index amap (ins.producer - omap.length)
  let consumers ← ins.consumers.mapM fun c => if c < 0 then pure (-1 : Int) else Py.index omap c
  let inp : TIn := ⟨ins.tensor, producer, consumers, ins.param⟩
  let sgBefore ← match st.model.subgraphs[ti.sg]? with | some s => pure s | none => throw .indexError
  let (m', info) ← match ins.xf with
    | .addDequant => insertDequant pt st.model ti.sg inp
    | .quantTensor => quantizeOnly pt st.model ti.sg inp
    | .addQuant => insertQuant pt st.model ti.sg inp
    | .emulated => throw .unsupported
    | .noQuant => throw .keyError
  let sgAfter ← match m'.subgraphs[ti.sg]? with | some s => pure s | none => throw .indexError
  let m' := { m' with sigs := updateSigs m'.sigs ti.sg sgBefore.outputs sgAfter.outputs }
  -- _update_instructions
  let (amap', insts') :=
    if info.added = 0 then (amap, ti.insts)
    else
      let amap' := amap ++ [info.opId + info.added - 1]
      let newProd : Int := (omap.length : Int) + amap'.length - 1
      (amap', ti.insts.take (idx + 1) ++ updateInsts (ti.insts.drop (idx + 1)) ins.consumers newProd info.outTensor)
  -- op id map: every original op at or after the insertion point moves
  let first := (omap.findIdx? (fun cur => decide (cur ≥ info.opId))).getD omap.length
  let omap' : List Int := omap.zipIdx.map fun (p : Int × Nat) => if p.2 ≥ first then p.1 + (info.added : Int) else p.1
  pure ({ model := m', origMap := st.origMap.set ti.sg omap', addedMap := st.addedMap.set ti.sg amap' },
        { ti with insts := insts' })

def isInsertion (x : Xf) : Bool := x == .addDequant || x == .quantTensor || x == .addQuant

/-- `_apply_transformations` (pass 1: insertion-type, pass 2: replacement-type = unsupported here) -/
def applyAll (pt : PTable) (st : PState) (ti : TInsts) : PyM PState := do
  let mut cur := (st, ti)
  for idx in List.range ti.insts.length do
    match cur.2.insts[idx]? with
    | some i => if isInsertion i.xf then cur ← applySingle pt cur.1 cur.2 idx
    | none => pure ()
  if cur.2.insts.any (·.xf == .emulated) then throw .unsupported
  pure cur.1

/-- `transform_graph` -/
def transformGraph (pt : PTable) (m : Model) (tis : List TInsts) : PyM Model := do
  let st0 : PState := { model := m, origMap := m.subgraphs.map (fun sg => (List.range sg.ops.length).map (fun (i : Nat) => (i : Int))),
                        addedMap := m.subgraphs.map (fun _ => []) }
  let st ← tis.foldlM (applyAll pt) st0
  pure st.model

/-- graph part of `ModelModifier.modify_model` -/
def modify (pt : PTable) (m : Model) (reqs : List TReq) : PyM Model := do
  let tis ← InstGen.genInsts m reqs
  transformGraph pt m tis

end Perform
