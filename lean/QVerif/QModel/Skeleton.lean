import QModel.WF
/-!
# Erasing the inserted QUANTIZE/DEQUANTIZE operators (the statement side of C02)
-/
open Graph

namespace Skeleton

/-- the inserted operator (`orig = none`) that produces tensor `t`, if any -/
def insertedProducer (sg : Subgraph) (t : Int) : Option Op :=
  sg.ops.find? fun o => o.orig.isNone && o.outputs == [t]

/-- follow inserted operators backwards to the original tensor a derived tensor stands for -/
def rootOf (sg : Subgraph) : Nat → Int → Int
  | 0, t => t
  | fuel + 1, t =>
    match insertedProducer sg t with
    | some o => (match o.inputs with | [i] => rootOf sg fuel i | _ => t)
    | none => t

def root (sg : Subgraph) (t : Int) : Int := rootOf sg sg.ops.length t

/-- delete the inserted operators and wire every operand / result / graph output back to the
    original tensor it was derived from -/
def eraseOps (sg : Subgraph) : List Op :=
  (sg.ops.filter (·.orig.isSome)).map fun o =>
    { o with inputs := o.inputs.map (root sg), outputs := o.outputs.map (root sg) }

def eraseOutputs (sg : Subgraph) : List Int := sg.outputs.map (root sg)

/-- name and shape of the first `n` tensors -/
def tensorFrame (sg : Subgraph) (n : Nat) : List (String × List Int) :=
  (sg.tensors.take n).map fun t => (t.name, t.shape)

/-- every operator of an input model carries its own index as `orig` tag -/
def origTagged (m : Model) : Bool :=
  m.subgraphs.all fun sg => sg.ops.zipIdx.all fun p => p.1.orig == some p.2

/-- **C02's structural conclusion** for one subgraph: `sg'` is `sg` plus inserted operators -/
def sameSkeleton (sg sg' : Subgraph) : Bool :=
  eraseOps sg' == sg.ops && eraseOutputs sg' == sg.outputs && sg'.inputs == sg.inputs &&
  tensorFrame sg' sg.tensors.length == tensorFrame sg sg.tensors.length &&
  decide (sg.tensors.length ≤ sg'.tensors.length)

/-- signatures keep key, subgraph, argument names, inputs; each output still denotes the subgraph
    output at the same position(s) as before -/
def sameSig (sg sg' : Subgraph) (s s' : Sig) : Bool :=
  s'.key == s.key && s'.sg == s.sg && s'.inputs == s.inputs &&
  s'.outputs.map (·.1) == s.outputs.map (·.1) &&
  (s.outputs.zip s'.outputs).all fun p =>
    (sg.outputs.zip sg'.outputs).all fun q => q.1 != p.1.2 || q.2 == p.2.2 || sg.outputs.count p.1.2 > 1

def sameModelSkeleton (m m' : Model) : Bool :=
  m.subgraphs.length == m'.subgraphs.length &&
  (m.subgraphs.zip m'.subgraphs).all (fun p => sameSkeleton p.1 p.2) &&
  m.sigs.length == m'.sigs.length &&
  (m.sigs.zip m'.sigs).all fun p =>
    match m.subgraphs[p.1.sg]?, m'.subgraphs[p.1.sg]? with
    | some sg, some sg' => sameSig sg sg' p.1 p.2
    | _, _ => false

end Skeleton
