import QModel.Py
/-!
# Exact arithmetic with explicit IEEE-754 rounding

All values are exact rationals.  Every place where numpy rounds is an explicit
call of `Prec.rn`.  `rn p emin` is round-to-nearest, ties-to-even, for a binary
format with `p` significand bits and minimal normal exponent `emin`
(sub-normals included).  Overflow to infinity is *not* represented: the model
functions call `Prec.chk`, which raises `PyErr.nonfinite` when the rounded
value exceeds the largest finite number of the format.
-/

namespace Num

/-- round half to even on rationals (`np.rint`) -/
def rhe (x : Rat) : Int :=
  let f := x.floor
  let r := x - f
  if r < 1/2 then f else if r > 1/2 then f + 1 else if f % 2 = 0 then f else f + 1

/-- `⌊log₂ x⌋` for `x > 0` -/
def flog2 (x : Rat) : Int :=
  let e0 : Int := (Nat.log2 x.num.toNat : Int) - (Nat.log2 x.den : Int)
  if (2:Rat)^e0 ≤ x then e0 else e0 - 1

/-- round a positive rational to `p` significand bits, exponent at least `emin` -/
def rnPos (p : Nat) (emin : Int) (x : Rat) : Rat :=
  let e := max (flog2 x) emin
  let q : Rat := (2:Rat)^(e - (p - 1 : Int))
  (rhe (x / q) : Rat) * q

def rn (p : Nat) (emin : Int) (x : Rat) : Rat :=
  if x = 0 then 0 else if x > 0 then rnPos p emin x else - rnPos p emin (-x)

/-- floating-point formats used by numpy in this code base, plus `exact`: ideal real
    arithmetic (no rounding, never overflows), used to state the textbook laws. -/
inductive Prec where
  | f16 | f32 | f64 | exact
  deriving Repr, DecidableEq, Inhabited

namespace Prec
def p : Prec → Nat | f16 => 11 | f32 => 24 | f64 => 53 | exact => 1
def emin : Prec → Int | f16 => -14 | f32 => -126 | f64 => -1022 | exact => 0
def emax : Prec → Int | f16 => 15 | f32 => 127 | f64 => 1023 | exact => 0
/-- largest finite value `(2 - 2^(1-p))·2^emax` -/
def maxFinite (pr : Prec) : Rat := ((2:Rat)^(pr.p : Int) - 1) * (2:Rat)^(pr.emax - (pr.p : Int) + 1)
/-- round to nearest even, no overflow handling -/
def rn : Prec → Rat → Rat
  | exact, x => x
  | pr, x => Num.rn pr.p pr.emin x
/-- a (rounded) value is finite in the format -/
def isFin : Prec → Rat → Bool
  | exact, _ => true
  | pr, x => decide (x ≤ pr.maxFinite) && decide (-pr.maxFinite ≤ x)
/-- rounded value, or `nonfinite` if IEEE arithmetic would produce ±inf -/
def chk (pr : Prec) (x : Rat) : PyM Rat :=
  if pr.isFin (pr.rn x) then .ok (pr.rn x) else .error .nonfinite
/-- numpy `result_type` of two float formats -/
def join : Prec → Prec → Prec
  | exact, _ => exact | _, exact => exact
  | f64, _ => f64 | _, f64 => f64
  | f32, _ => f32 | _, f32 => f32
  | f16, f16 => f16
def toString : Prec → String | f16 => "f16" | f32 => "f32" | f64 => "f64" | exact => "exact"
instance : ToString Prec := ⟨toString⟩
end Prec

/-- two's-complement wrap-around of `z` into a signed `w`-bit integer (C cast / `astype`). -/
def wrapInt (w : Nat) (z : Int) : Int :=
  let m : Int := (2:Int)^w
  let h : Int := (2:Int)^(w-1)
  (z + h) % m - h

/-- `np.clip` on rationals -/
def clipR (x lo hi : Rat) : Rat := if x < lo then lo else if x > hi then hi else x
def clipI (x lo hi : Int) : Int := if x < lo then lo else if x > hi then hi else x

/-- A Python float literal as it is seen by an array of format `pr` (NEP 50 weak scalar):
    first the literal is a double, then it is cast to the array's format. -/
def weakScalar (pr : Prec) (lit : Rat) : Rat :=
  match pr with
  | .exact => lit
  | _ => pr.rn (Prec.f64.rn lit)

end Num
