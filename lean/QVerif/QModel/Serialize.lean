import QModel.Py
/-!
# Model of `ModelModifier._serialize_large_model` (with the repair D13)

The flatbuffer writer is external: it is a parameter `fb : List (Option (Nat × Nat)) → List Nat`
from the per-buffer `(offset, size)` fields (the only fields that differ between the two
serialisation passes; `none` = buffer without external data) to the bytes it writes.
-/

namespace Ser

/-- `while len(b) % 16: b += b'\0'` -/
def pad16 (b : List Nat) : List Nat := b ++ List.replicate ((16 - b.length % 16) % 16) 0

/-- append the external constants, padding after each one (second loop of the function) -/
def appendConsts (b : List Nat) (consts : List (List Nat)) : List Nat :=
  consts.foldl (fun acc c => pad16 (acc ++ c)) b

/-- first pass: offsets computed on the dummy serialisation of length `dummyLen` -/
def offsets (dummyLen : Nat) (sizes : List Nat) : List (Nat × Nat) :=
  let pad (n : Nat) : Nat := n + (16 - n % 16) % 16
  (sizes.foldl (fun (st : Nat × List (Nat × Nat)) s => (pad (st.1 + s), st.2 ++ [(st.1, s)])) (pad dummyLen, [])).2

/-- which buffers are stored outside the flatbuffer: those with non-empty data (repair D13) -/
def external (bufs : List (Option (List Nat))) : List (List Nat) :=
  bufs.filterMap fun b => match b with
    | some d => if d.isEmpty then none else some d
    | none => none

/-- per-buffer (offset, size) fields of the final flatbuffer -/
def fields (bufs : List (Option (List Nat))) (offs : List (Nat × Nat)) : List (Option (Nat × Nat)) :=
  (bufs.foldl (fun (st : List (Nat × Nat) × List (Option (Nat × Nat))) b =>
    match b with
    | some d => if d.isEmpty then (st.1, st.2 ++ [none])
                else (st.1.tail, st.2 ++ [st.1.head?])
    | none => (st.1, st.2 ++ [none])) (offs, [])).2

/-- `_serialize_large_model`: dummy pass with (1,1) fields, offsets, final pass, constants appended -/
def serializeLarge (fb : List (Option (Nat × Nat)) → List Nat) (bufs : List (Option (List Nat))) : List Nat :=
  let ext := external bufs
  let dummyFields := fields bufs (ext.map fun _ => (1, 1))
  let dummy := fb dummyFields
  let offs := offsets dummy.length (ext.map (·.length))
  appendConsts (pad16 (fb (fields bufs offs))) ext

/-- the slice `[off, off+size)` of the output -/
def slice (out : List Nat) (off size : Nat) : List Nat := (out.drop off).take size

end Ser
