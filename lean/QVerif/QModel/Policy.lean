import QModel.Generated.Tables
/-!
# Model of the config-support checks

`default_policy._unroll_json_config / update_default_config_policy`,
`min_max_quantize_utils.check_if_valid_op_config / check_subchannel_config`,
`naive_min_max_quantize.check_op_quantization_config`,
`float_casting.check_op_quantization_config`,
`AlgorithmManagerApi.check_op_quantization_config`.
-/
open Cfg

namespace Policy

/-- one tensor section of the raw JSON policy: lists for `symmetric` / `granularity` -/
def unrollTensor (j : J) : List TCfg :=
  match j.get? "num_bits", j.get? "symmetric", j.get? "granularity", j.get? "dtype" with
  | some (.num b), some (.arr syms), some (.arr grans), some (.str dt) =>
    syms.flatMap fun s => grans.filterMap fun g =>
      match s, g, DT.ofStr? dt with
      | .bool sb, .str gs, some d => (Gran.ofStr? gs).map fun gg =>
          { bits := b, symmetric := sb, gran := gg, dtype := d, blockSize := 0 }
      | _, _, _ => none
  | _, _, _, _ => []

/-- `_unroll_json_config` -/
def unrollConfig (j : J) : List OpCfg :=
  let acts : List TCfg := match j.get? "activation_tensor_config" with
    | some a => unrollTensor a | none => []
  let ws : List TCfg := match j.get? "weight_tensor_config" with
    | some w => unrollTensor w | none => []
  let cp : CP := match j.get? "compute_precision" with
    | some (.str s) => (CP.ofStr? s).getD .float | _ => .float
  let ed : Bool := match j.get? "explicit_dequantize" with | some (.bool b) => b | _ => false
  ws.flatMap fun w =>
    if acts.isEmpty then [{ act := none, weight := some w, cp := cp, explicitDeq := ed }]
    else acts.map fun a => { act := some a, weight := some w, cp := cp, explicitDeq := ed }

/-- `update_default_config_policy`: for each config (in `ops_per_config` order) and each of its
    ops, the unrolled configs are put *in front of* what the op already has. -/
def unrollPolicy (raw : J) : List (String × List OpCfg) :=
  match raw.get? "configs", raw.get? "ops_per_config" with
  | some cfgs, some (.obj perCfg) =>
    perCfg.foldl (fun pol (entry : String × J) =>
      let unrolled := match cfgs.get? entry.1 with | some c => unrollConfig c | none => []
      match entry.2 with
      | .arr ops => ops.foldl (fun pol opj =>
          match opj with
          | .str op => Py.dictSet pol op (unrolled ++ (Py.dictGet? pol op).getD [])
          | _ => pol) pol
      | _ => pol) []
  | _, _ => []

def registered (alg op : String) : Bool :=
  match Py.dictGet? Tables.registry alg with
  | some ops => ops.any (·.1 == op)
  | none => false

/-- `check_if_valid_op_config` -/
def policyCheck (policy : Option (List (String × List OpCfg))) (op : String) (c : OpCfg) : Bool :=
  match policy with
  | none => false
  | some p => match Py.dictGet? p op with
    | none => false
    | some cfgs => cfgs.contains c

/-- `check_subchannel_config` (true = passes) -/
def subchannelCheck (op : String) (c : OpCfg) : Bool :=
  match c.weight with
  | some w =>
    if w.gran == .blockwise then
      Tables.subchannelOps.contains op && c.act.isNone && w.symmetric && decide (0 < w.blockSize)
    else true
  | none => true

/-- `naive_min_max_quantize.check_op_quantization_config` (true = passes, false = `ValueError`) -/
def minMaxCheck (policy : Option (List (String × List OpCfg))) (op : String) (c : OpCfg) : Bool :=
  match c.weight with
  | none => false
  | some w => w.dtype == .int && policyCheck policy op c && subchannelCheck op c

/-- `float_casting.check_op_quantization_config` -/
def floatCastingCheck (policy : Option (List (String × List OpCfg))) (op : String) (c : OpCfg) : Bool :=
  (match policy with | some (_ :: _) => false | _ => true) &&
  c.cp == .float && c.act.isNone && Tables.fcSupportedOps.contains op &&
  (match c.weight with | some w => w.bits == 16 && w.dtype == .float | none => false)

/-- which Python check function is registered for the algorithm -/
def algCheck (fn : String) (policy : Option (List (String × List OpCfg))) (op : String) (c : OpCfg) : Bool :=
  if fn == "naive_min_max_quantize.check_op_quantization_config" then minMaxCheck policy op c
  else if fn == "float_casting.check_op_quantization_config" then floatCastingCheck policy op c
  else false

/-- `AlgorithmManagerApi.check_op_quantization_config` : true = returns, false = `ValueError`.
    (A registered check function without a registered policy would be a `KeyError`; the
    regenerated tables always register both, see `QProps.C13.registries_consistent`.) -/
def accepts (alg op : String) (c : OpCfg) : Bool :=
  c.skipChecks ||
  (registered alg op &&
    match Py.dictGet? Tables.checkRegistry alg with
    | none => false
    | some fn => algCheck fn ((Py.dictGet? Tables.policyRegistry alg).getD none) op c)

end Policy
