import QModel.Materialize
import QModel.Perform
/-!
# The whole `Quantizer.quantize` as a pure function of (model, recipe state, statistics)
-/
open Graph Mat

namespace Pipeline

/-- assign `PId`s = `==`-classes of parameter objects, in order of first appearance -/
def pidOf (tbl : List Param) (p : Param) : List Param × PId :=
  match tbl.findIdx? (fun q => q.eqv p) with
  | some i => (tbl, i)
  | none => (tbl ++ [p], tbl.length)

def absO2T (tbl : List Param) (o : CO2T) : List Param × O2T :=
  match o.param with
  | none => (tbl, ⟨o.opId, o.xfs, none⟩)
  | some p => let (tbl', i) := pidOf tbl p; (tbl', ⟨o.opId, o.xfs, some i⟩)

def absReq (tbl : List Param) (r : CReq) : List Param × TReq :=
  let (tbl1, prod) := match r.producer with
    | none => (tbl, none)
    | some o => let (t, a) := absO2T tbl o; (t, some a)
  let (tbl2, cons) := match r.consumers with
    | none => (tbl1, none)
    | some cs =>
      let (t, acc) := cs.foldl (fun (st : List Param × List O2T) c => let (t, a) := absO2T st.1 c; (t, st.2 ++ [a])) (tbl1, [])
      (t, some acc)
  (tbl2, ⟨r.name, prod, cons⟩)

def absReqs (rs : List CReq) : List Param × List TReq :=
  rs.foldl (fun (st : List Param × List TReq) r => let (t, a) := absReq st.1 r; (t, st.2 ++ [a])) ([], [])

def pinfoOf : Param → PInfo
  | .uniform qp d => ⟨true, qp.bits, d.isSome⟩
  | .nonlinear b d => ⟨false, b, d.isSome⟩

def ptableOf (tbl : List Param) : PTable := tbl.zipIdx.map fun p => (p.2, pinfoOf p.1)

/-- `Quantizer.quantize` minus serialisation; returns the rewritten graph and the parameter table -/
def quantizePure (rx : String → String → Bool) (env : Env) (st : Recipe.State) (qsvs : Option Qsvs) :
    PyM (Model × List Param) := do
  if (Recipe.getRecipe st).isEmpty then throw .runtimeError
  let reqs ← generate rx env st qsvs
  let (tbl, areqs) := absReqs reqs
  let m' ← Perform.modify (ptableOf tbl) env.model areqs
  pure (m', tbl)

/-- what the caller's calibration-result object looks like after `quantize(cr)`:
    `deepcopy = true` is the repaired code (materialisation works on a copy), `false` the pinned
    code, where same-as-input / fixed-range materialisation wrote into the caller's dict.  The
    internal statistics after materialisation are recomputed by `generateStats`. -/
def generateStats (rx : String → String → Bool) (env : Env) (st : Recipe.State) (qsvs : Qsvs) : PyM Qsvs := do
  let mut qs : Qsvs := qsvs
  for (p : Subgraph × Nat) in env.model.subgraphs.zipIdx do
    let sg := p.1
    let ioOps : List (Op × String) :=
      [({ code := 0, inputs := [], outputs := sg.inputs }, "INPUT"), ({ code := 0, inputs := sg.outputs, outputs := [] }, "OUTPUT")]
    let allOps : List (Op × Option String × Int) :=
      (sg.ops.zipIdx.map fun (q : Op × Nat) => (q.1, none, (q.2 : Int))) ++ ioOps.map fun q => (q.1, some q.2, (-1 : Int))
    for (q : Op × Option String × Int) in allOps do
      let (op, io, opId) := q
      let key : Option String ← match io with
        | some k => pure (some k)
        | none => match env.model.opcodes[op.code]? with
          | none => throw .indexError
          | some code => pure (opNameOfCode code)
      match key with
      | none => pure ()
      | some k =>
        let scope ← opScope sg op
        let (alg, cfg) := Recipe.resolve rx st k scope
        if alg == Tables.algNoQuantize then pure ()
        else
          let fn ← match Py.dictGet? Tables.registry alg with
            | none => throw .valueError
            | some ops => match Py.dictGet? ops k with
              | none => throw .valueError
              | some f => pure f
          let oi : OpInfo := { sgIdx := p.2, op := op, opName := k, opId := opId, cfg := cfg }
          let (_, qs') ← materializeOp env sg qs oi alg fn
          qs := qs'
  pure qs

def callerQsvAfter (deepcopy : Bool) (rx : String → String → Bool) (env : Env) (st : Recipe.State) (qsvs : Qsvs) : PyM Qsvs :=
  if deepcopy then pure qsvs else generateStats rx env st qsvs

end Pipeline
