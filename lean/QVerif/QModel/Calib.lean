import QModel.Materialize
/-!
# Model of `calibrator.py`, `utils/calibration_utils.py` and the calibration half of
`naive_min_max_quantize.py` (with the repairs D6, D7)

The interpreter is external: the per-sample tensor contents of the invoked subgraph are an input.
Statistics of integer tensors are represented with `Prec.exact` (numpy int32/int64 dtype).
-/
open Graph Arith Cfg Num Nd Mat

namespace Calib

/-- tensor contents of one sample: name ↦ (data, dtype) -/
abbrev Contents := List (String × FArr)

/-- dtype of statistics taken from a tensor of the given TFLite type -/
def statPrec (t : Tensor) : Prec := if t.dtype == Tables.ttFloat32 then .f32 else .exact

/-- `_update_moving_average` on one array pair (smoothing factor 0.95 as a Python float) -/
def emaArr (w u : FArr) : PyM FArr := do
  -- result dtype: float32 stays float32 (weak Python scalars); integer / float64 arrays give float64
  let pr : Prec := match w.pr.join u.pr with
    | .f32 => if w.pr == .f32 && u.pr == .f32 then .f32 else .f64
    | .f16 => .f16
    | _ => .f64
  let c1d := Prec.f64.rn (19/20)
  let c2d := Prec.f64.rn (1 - c1d)
  let c1 := pr.rn c1d
  let c2 := pr.rn c2d
  let a ← w.arr.mapM fun x => pr.chk (c1 * x)
  let b ← u.arr.mapM fun x => pr.chk (c2 * x)
  let s ← zipB (fun x y => pr.chk (x + y)) a b
  pure ⟨s, pr⟩

/-- `moving_average_update` -/
def ema (old new : Qsv) : PyM Qsv :=
  match old, new with
  | none, n => pure n
  | some _, none => throw .keyError       -- `new_qsv["min"]` on an empty dict
  | some (mn, mx), some (nmn, nmx) => do
    let a ← emaArr mn nmn
    let b ← emaArr mx nmx
    pure (some (a, b))

/-- whole-tensor min/max with `keepdims=True` -/
def minMaxAll (d : FArr) : PyM Qsv := do
  let mn ← reduceKeep minR d.arr none
  let mx ← reduceKeep maxR d.arr none
  pure (some (⟨mn, d.pr⟩, ⟨mx, d.pr⟩))

/-- constant data of any dtype (float32 or integer) -/
def constAny (env : Env) (t : Tensor) : Option (Arr Rat) := constData env t

/-- `init_tensor_min_max` -/
def initTensor (env : Env) (oi : OpInfo) (t : Tensor) : PyM Qsv :=
  match constAny env t with
  | none => pure none
  | some d =>
    -- repair D28: an empty constant (the shape operand of a reshape to a scalar) has no min/max
    if d.data.isEmpty then pure none else do
    let (mn, mx) ← initMinMax env oi t d
    pure (some (⟨mn.arr, statPrec t⟩, ⟨mx.arr, statPrec t⟩))

/-- `naive_min_max_quantize.init_qsvs` (no ignore lists are passed by the calibrator) -/
def initQsvsOp (env : Env) (sg : Subgraph) (oi : OpInfo) : PyM (List (String × Qsv)) := do
  let slots := (oi.op.inputs ++ oi.op.outputs).filter (· != -1)
  slots.foldlM (fun acc i => do
    let t ← tensorAt sg i
    let q ← initTensor env oi t
    pure (Py.dictSet acc t.name q)) []

/-- which calibration / init functions an algorithm registers: min/max collects, float casting is a no-op -/
def collects (alg : String) : Bool := alg == Tables.algMinMax

/-- the op key of a real operator (`none` = not a supported op, skipped) -/
def opKey (env : Env) (op : Op) : PyM (Option String) :=
  match env.model.opcodes[op.code]? with
  | none => throw .indexError
  | some code => pure (opNameOfCode code)

def registeredFor (alg key : String) : Bool :=
  match Py.dictGet? Tables.registry alg with
  | some ops => ops.any (·.1 == key)
  | none => false

/-- `_initialize_model_qsvs` -/
def initModel (rx : String → String → Bool) (env : Env) (st : Recipe.State) : PyM Qsvs := do
  let mut qs : Qsvs := []
  for (p : Subgraph × Nat) in env.model.subgraphs.zipIdx do
    for (q : Op × Nat) in p.1.ops.zipIdx do
      match ← opKey env q.1 with
      | none => pure ()
      | some k =>
        let scope ← opScope p.1 q.1
        let (alg, cfg) := Recipe.resolve rx st k scope
        if alg == Tables.algNoQuantize then pure ()
        else
          if !registeredFor alg k then throw .valueError
          if collects alg then
            let oi : OpInfo := { sgIdx := p.2, op := q.1, opName := k, opId := q.2, cfg := cfg }
            let opq ← initQsvsOp env p.1 oi
            for e in opq do
              if (Py.dictGet? qs e.1).isNone then qs := qs ++ [e]
  pure qs

/-- `min_max_calibrate` for one operator -/
def calibrateOp (env : Env) (sg : Subgraph) (op : Op) (contents : Contents) : PyM (List (String × Qsv)) := do
  let slots := (op.inputs ++ op.outputs).filter (· != -1)
  slots.foldlM (fun acc i => do
    let t ← tensorAt sg i
    if (constAny env t).isSome then pure acc
    else match Py.dictGet? contents t.name with
      | none => throw .keyError
      | some d => do
        let q ← minMaxAll d
        pure (Py.dictSet acc t.name q)) []

/-- one sample of `Calibrator.calibrate` on subgraph `sgIdx` -/
def calibrateSample (rx : String → String → Bool) (env : Env) (st : Recipe.State) (sgIdx : Nat)
    (qs : Qsvs) (contents : Contents) : PyM Qsvs := do
  let sg ← match env.model.subgraphs[sgIdx]? with | some s => pure s | none => throw .indexError
  let ioOps : List (Op × Option String) :=
    [({ code := 0, inputs := [], outputs := sg.inputs }, some "INPUT"), ({ code := 0, inputs := sg.outputs, outputs := [] }, some "OUTPUT")]
  let allOps : List (Op × Option String) := sg.ops.map (fun o => (o, none)) ++ ioOps
  let mut qs := qs
  let mut updated : List String := []
  for (q : Op × Option String) in allOps do
    let key ← match q.2 with
      | some k => pure (some k)
      | none => opKey env q.1
    match key with
    | none => pure ()
    | some k =>
      let scope ← opScope sg q.1
      let (alg, _) := Recipe.resolve rx st k scope
      if alg == Tables.algNoQuantize then pure ()
      else
        if !registeredFor alg k then throw .valueError
        if collects alg then
          let opq ← calibrateOp env sg q.1 contents
          for e in opq do
            if updated.contains e.1 then pure ()
            else
              match Py.dictGet? qs e.1 with
              | none => qs := qs ++ [e]
              | some old =>
                let nv ← ema old e.2
                qs := Py.dictSet qs e.1 nv
              updated := updated ++ [e.1]
  pure qs

/-- `Quantizer.calibrate(data, signature, previous)`: `previous = none` models `None` -/
def calibrate (rx : String → String → Bool) (env : Env) (st : Recipe.State) (sgIdx : Nat)
    (previous : Option Qsvs) (samples : List Contents) : PyM Qsvs := do
  if !Recipe.needCalibration st then return []
  let start : Qsvs := previous.getD []
  let q0 ← if start.isEmpty then initModel rx env st else pure start
  samples.foldlM (calibrateSample rx env st sgIdx) q0

end Calib
