import QModel.Graph
/-!
# Model of `transformation_instruction_generator.py` (with the repairs D12, D18)
-/
open Graph

namespace InstGen

/-- `TensorGraphInfo` -/
structure TInfo where
  tensorId : Nat
  sg : Nat
  producer : Int
  consumers : List Int
  deriving Repr, DecidableEq, Inhabited

/-- `_tensor_info_generator` for one tensor -/
def tensorInfo (sgIdx : Nat) (sg : Subgraph) (tid : Nat) : TInfo :=
  let cons : List Int := (sg.ops.zipIdx.filter (fun p => memI tid p.1.inputs)).map (fun p => (p.2 : Int))
  let prod : Int := match sg.ops.zipIdx.find? (fun p => memI tid p.1.outputs) with
    | some p => (p.2 : Int)
    | none => -1
  let cons := if memI tid sg.outputs then (-1 : Int) :: cons else cons
  ⟨tid, sgIdx, prod, cons⟩

/-- `_create_tensor_name_to_graph_info_map` (later tensors with the same name overwrite) -/
def nameMap (m : Model) : List (String × TInfo) :=
  m.subgraphs.zipIdx.foldl (fun acc (p : Subgraph × Nat) =>
    p.1.tensors.zipIdx.foldl (fun acc (q : Tensor × Nat) =>
      Py.dictSet acc q.1.name (tensorInfo p.2 p.1 q.2)) acc) []

/-- `check_horizontal_optimization` -/
def horiz (p1 p2 : O2T) (idx : Nat) : Bool :=
  p1.param == p2.param && decide (idx < p1.xfs.length) && decide (idx < p2.xfs.length) &&
    p1.xfs[idx]? == p2.xfs[idx]?

/-- place consumer `ci` into the groups of the next depth (one step of the inner loops of
    `_group_consumer_transformations`); `cur` is the group of the current depth containing `ci`. -/
def placeInto (cons : List O2T) (d : Nat) (cur : List Nat) (ci : Nat) : List (List Nat) → List (List Nat)
  | [] => [[ci]]
  | ng :: rest =>
    match ng.head? with
    | some idx =>
      if cur.contains idx && horiz (cons.getD idx default) (cons.getD ci default) d then (ng ++ [ci]) :: rest
      else ng :: placeInto cons d cur ci rest
    | none => ng :: placeInto cons d cur ci rest

/-- the groups of depth `d+1` from those of depth `d` -/
def nextDepth (cons : List O2T) (d : Nat) (cur : List (List Nat)) : List (List Nat) :=
  (List.range cons.length).foldl (fun next ci =>
    if d < (cons.getD ci default).xfs.length then
      cur.foldl (fun next g => if g.contains ci then placeInto cons d g ci next else next) next
    else next) []

/-- `_group_consumer_transformations` -/
def groupConsumers (cons : Option (List O2T)) : List (List (List Nat)) :=
  match cons with
  | none => []
  | some [] => []
  | some cs =>
    let longest := cs.foldl (fun a c => max a c.xfs.length) 0
    (List.range longest).foldl (fun groups d =>
      groups ++ [nextDepth cs d (groups.getLastD [])]) [[List.range cs.length]]

def instOfGroup (cs : List O2T) (info : TInfo) (depth : Nat) (g : List Nat) : Inst :=
  let first := cs.getD (g.headD 0) default
  { xf := first.xfs.getD depth .noQuant, tensor := info.tensorId, producer := info.producer,
    consumers := g.map (fun i => (cs.getD i default).opId), param := first.param }

/-- `_produce_transformation_for_vertical_opt` -/
def vertAvail (groups : List (List (List Nat))) (cs : List O2T) (info : TInfo) : List Inst :=
  match groups with
  | _ :: g1 :: _ => g1.map (instOfGroup cs info 0)
  | _ => []

/-- `_produce_consumer_transformations_unavailable_for_vertical_opt` -/
def vertUnavail (groups : List (List (List Nat))) (cs : List O2T) (info : TInfo) : List Inst :=
  (groups.zipIdx.drop 2).flatMap fun p =>
    p.1.filterMap fun g =>
      if (cs.getD (g.headD 0) default).xfs.length ≤ p.2 - 1 then none
      else some (instOfGroup cs info (p.2 - 1) g)

/-- `for c in cs: if c in l: l.remove(c)` -/
def removeEach (l : List Int) (cs : List Int) : List Int :=
  cs.foldl (fun l c => if l.contains c then l.erase c else l) l

/-- `_apply_vertical_optimization`; returns the instructions and the producer's remaining
    consumer list (which is *the same Python list* as `TensorGraphInfo.consumers`). -/
def applyVertical (P : Inst) (rules : List Inst) : List Inst × List Int :=
  let (out, rem) := rules.foldl (fun (st : List Inst × List Int) r =>
    let (out, rem) := st
    let dqP := P.xf == .addDequant
    if dqP && r.xf == .addQuant && P.param == r.param then
      (out ++ [{ xf := .quantTensor, tensor := r.tensor, producer := r.producer, consumers := r.consumers, param := r.param }],
       removeEach rem r.consumers)
    else if dqP && r.xf == .addQuant then
      (out ++ [{ xf := .quantTensor, tensor := r.tensor, producer := r.producer, consumers := r.consumers, param := P.param },
               { xf := .addQuant, tensor := r.tensor, producer := r.producer, consumers := r.consumers, param := r.param }],
       removeEach rem r.consumers)
    else if dqP && r.xf == .noQuant then
      (out ++ [{ xf := .addDequant, tensor := r.tensor, producer := r.producer, consumers := r.consumers, param := P.param }],
       removeEach rem r.consumers)
    else (out ++ [r], rem)) ([], P.consumers)
  if !rem.isEmpty then ({ P with consumers := rem } :: out, rem)
  else if out.isEmpty && P.xf == .addDequant then
    ([{ xf := .quantTensor, tensor := P.tensor, producer := P.producer, consumers := [], param := P.param }], rem)
  else (out, rem)

/-- `_check_tensor_transformation_instructions_valid` -/
def instsValid (insts : List Inst) : Bool :=
  let unq := insts.any (·.xf == .noQuant)
  let q := insts.any (fun i => i.xf == .quantTensor || i.xf == .addDequant)
  let em := insts.any (·.xf == .emulated)
  !(unq && q) && !(em && insts.length > 1)

/-- `_quant_params_to_transformation_insts` -/
def tensorInsts (nm : List (String × TInfo)) (req : TReq) : PyM TInsts :=
  match Py.dictGet? nm req.name with
  | none => .error .keyError
  | some info =>
    let groups := groupConsumers req.consumers
    let cs := req.consumers.getD []
    let avail := vertAvail groups cs info
    let other := vertUnavail groups cs info
    let prodRules : List Inst := match req.producer with
      | some p => p.xfs.map fun x =>
          { xf := x, tensor := info.tensorId, producer := info.producer, consumers := info.consumers, param := p.param }
      | none => []
    let insts : List Inst :=
      match prodRules.getLast? with
      | some P =>
        let (vo, rem) := applyVertical P avail
        -- earlier producer rules share the (mutated) consumer list object
        (prodRules.dropLast.map fun r => { r with consumers := rem }) ++ vo
      | none => avail
    let insts := insts ++ other
    if instsValid insts then .ok ⟨req.name, info.sg, insts⟩ else .error .valueError

/-- `quant_params_to_transformation_insts` -/
def genInsts (m : Model) (reqs : List TReq) : PyM (List TInsts) :=
  let nm := nameMap m
  reqs.mapM (tensorInsts nm)

end InstGen
