import QModel.Arith
/-!
# Model of `model_validator.compare_model` / `ComparisonResult.add_new_signature_results`
and `utils/validation_utils.py`

The interpreters are external: per sample, the (raw) contents and quantization details of the
tensors of the signature's main subgraph of both models are inputs.  Dequantization is the
bit-exact `Arith.uniformDequantize`; the metrics are modelled in *ideal* arithmetic on the float32
operands (numpy evaluates them in float32 with pairwise summation; the harness compares values
within the corresponding rounding bound, and group membership exactly).
-/
open Num Nd Arith

namespace Validate

/-- a tensor as seen through the interpreter: float data, or integer data with parameters -/
inductive TData where
  | float (vals : List Rat)                                  -- finite float32 values (after nan_to_num)
  | quant (q : IArr) (qp : QParams)
  deriving Repr, Inhabited

/-- `get_tensor_data(..., dequantize=True)` followed by `np.array(..., dtype=float32).flatten()` -/
def values (t : TData) : PyM (List Rat) :=
  match t with
  | .float v => pure v
  | .quant q qp => do
    let d ← uniformDequantize true q qp
    d.arr.data.mapM fun x => Prec.f32.chk x

/-- `mean_squared_difference` (ideal arithmetic) -/
def mse (a b : List Rat) : PyM Rat :=
  if a.length ≠ b.length then .error .valueError
  else if a.isEmpty then .ok 0
  else .ok (((a.zip b).map fun p => (p.1 - p.2) * (p.1 - p.2)).foldl (· + ·) 0 / a.length)

def absQ (x : Rat) : Rat := if x < 0 then -x else x

/-- insertion sort (for the median) -/
def insertSorted (x : Rat) : List Rat → List Rat
  | [] => [x]
  | y :: ys => if x ≤ y then x :: y :: ys else y :: insertSorted x ys
def sortR (l : List Rat) : List Rat := l.foldr insertSorted []

def median (l : List Rat) : Rat :=
  let s := sortR l
  let n := s.length
  if n = 0 then 0
  else if n % 2 = 1 then s.getD (n / 2) 0
  else (s.getD (n / 2 - 1) 0 + s.getD (n / 2) 0) / 2

/-- `median_diff_ratio` (ideal arithmetic; tolerance threshold 1e-6) -/
def mdr (a b : List Rat) : PyM Rat :=
  if a.length ≠ b.length then .error .valueError
  else if a.isEmpty then .ok 0
  else .ok (median ((a.zip b).map fun p => absQ (p.1 - p.2) / (absQ p.2 + 1/1000000)))

inductive Metric where | mse | mdr
  deriving Repr, DecidableEq

def metric (m : Metric) (target reference : List Rat) : PyM Rat :=
  match m with
  | .mse => mse target reference
  | .mdr => mdr target reference

/-- one sample: the tensors of the reference subgraph (in interpreter order) and of the target -/
structure Sample where
  ref : List (String × TData)
  target : List (String × TData)
  deriving Repr, Inhabited

/-- per-name list of per-sample values, names in order of first appearance (`comparison_results`) -/
def collect (m : Metric) (samples : List Sample) : PyM (List (String × List Rat)) :=
  samples.foldlM (fun acc s =>
    s.ref.foldlM (fun acc (e : String × TData) =>
      match Py.dictGet? s.target e.1 with
      | none => pure acc
      | some td => do
        let r ← values e.2
        let t ← values td
        let v ← metric m t r
        pure (Py.dictSet acc e.1 ((Py.dictGet? acc e.1).getD [] ++ [v]))) acc) []

def meanR (l : List Rat) : Rat := if l.isEmpty then 0 else l.foldl (· + ·) 0 / l.length

structure Groups where
  inputs : List (String × Rat)
  outputs : List (String × Rat)
  constants : List (String × Rat)
  intermediates : List (String × Rat)
  deriving Repr, Inhabited

/-- `result.pop(name)` for the names of one group; `guarded` = skip names no longer present
    (repair D11: outputs and constants), unguarded pop raises `KeyError` (inputs) -/
def popGroup (guarded : Bool) (result : List (String × Rat)) (names : List String) :
    PyM (List (String × Rat) × List (String × Rat)) :=
  names.foldlM (fun (st : List (String × Rat) × List (String × Rat)) n =>
    match Py.dictGet? st.1 n with
    | some v => pure (st.1.filter (·.1 != n), Py.dictSet st.2 n v)
    | none => if guarded then pure st else throw .keyError) (result, [])

/-- `add_new_signature_results` -/
def fileGroups (result : List (String × Rat)) (inNames outNames constNames : List String) : PyM Groups := do
  let (r1, ins) ← popGroup false result inNames
  let (r2, outs) ← popGroup true r1 outNames
  let (r3, cs) ← popGroup true r2 constNames
  pure ⟨ins, outs, cs, r3⟩

/-- `compare_model` for one signature -/
def compare (m : Metric) (samples : List Sample) (inNames outNames constNames : List String) : PyM Groups := do
  let per ← collect m samples
  fileGroups (per.map fun e => (e.1, meanR e.2)) inNames outNames constNames

end Validate
