import QModel.Perform
/-!
# Well-formedness of a flatbuffer graph (the conclusion of C01), as decidable predicates
-/
open Graph

namespace WF

/-- tensor `t` is available to the operator at position `k`: it is a graph input, a constant,
    or an output of an operator at a position `< k` -/
def avail (m : Model) (sg : Subgraph) (k : Nat) (t : Int) : Bool :=
  memI t sg.inputs || isConst m sg t || (sg.ops.take k).any (fun o => memI t o.outputs)

/-- index `t` names an existing tensor -/
def validT (sg : Subgraph) (t : Int) : Bool := decide (0 ≤ t) && decide (t < sg.tensors.length)

/-- operator `o` at position `k` is well-formed -/
def opOK (m : Model) (sg : Subgraph) (k : Nat) (o : Op) : Bool :=
  decide (o.code < m.opcodes.length) &&
  o.inputs.all (fun t => t == -1 || (validT sg t && avail m sg k t)) &&
  o.outputs.all (fun t => t == -1 || (validT sg t && !memI t sg.inputs && !isConst m sg t &&
      -- not produced by an earlier operator
      !(sg.ops.take k).any (fun o' => memI t o'.outputs)))

/-- well-formed subgraph -/
def sgOK (m : Model) (sg : Subgraph) : Bool :=
  (sg.tensors.all fun t => decide (t.buffer < m.buffers.length)) &&
  (sg.tensors.map (·.name)).Nodup &&
  (sg.ops.zipIdx.all fun p => opOK m sg p.2 p.1) &&
  (sg.ops.all fun o => (o.outputs.filter (· != -1)).Nodup) &&
  (sg.inputs.all (validT sg)) && (sg.outputs.all (validT sg)) &&
  (sg.outputs.all fun t => avail m sg sg.ops.length t)

/-- signatures refer to existing tensors of an existing subgraph -/
def sigOK (m : Model) (s : Sig) : Bool :=
  match m.subgraphs[s.sg]? with
  | some sg => s.inputs.all (fun e => validT sg e.2) && s.outputs.all (fun e => validT sg e.2)
  | none => false

/-- **C01's structural conclusion** -/
def modelOK (m : Model) : Bool :=
  m.buffers.head? == some none && m.subgraphs.all (sgOK m) && m.sigs.all (sigOK m)

end WF
