import QModel.Skeleton
/-!
# Abstract evaluation of a subgraph (statement side of C06, weight-only / float16 modes)

The runtime's kernels are *parameters*: `Sem.op tag args` is whatever the interpreter computes for the
original operator with tag `tag` (its builtin options and code are determined by the tag) on the given
operand values (`none` = omitted operand `-1`), and `Sem.ins n v` is what the inserted operator whose
result tensor is `n` (a DEQUANTIZE with the parameters recorded on its operand) computes from `v`.
Evaluation threads an environment `tensor id ↦ value` through the operators in execution order and
fails (`none`) when an operand has no value or a kernel fails.
-/
open Graph

namespace Eval

structure Sem (V : Type) where
  op : Nat → List (Option V) → Option (List V)
  ins : Int → V → V

abbrev Env (V : Type) := Int → Option V

def Env.set {V : Type} (e : Env V) (t : Int) (v : V) : Env V := fun x => if x = t then some v else e x

def readArgs {V : Type} (e : Env V) : List Int → Option (List (Option V))
  | [] => some []
  | i :: is =>
    if i = -1 then (readArgs e is).map (none :: ·)
    else match e i, readArgs e is with
      | some v, some r => some (some v :: r)
      | _, _ => none

def bindOuts {V : Type} (e : Env V) : List Int → List V → Option (Env V)
  | [], [] => some e
  | o :: os, v :: vs => bindOuts (e.set o v) os vs
  | _, _ => none

def stepOp {V : Type} (S : Sem V) (e : Env V) (o : Op) : Option (Env V) :=
  match o.orig with
  | some tag =>
    match readArgs e o.inputs with
    | some args =>
      match S.op tag args with
      | some outs => bindOuts e o.outputs outs
      | none => none
    | none => none
  | none =>
    match o.inputs, o.outputs with
    | [i], [n] => (e i).map fun v => e.set n (S.ins n v)
    | _, _ => none

def run {V : Type} (S : Sem V) : List Op → Env V → Option (Env V)
  | [], e => some e
  | o :: os, e =>
    match stepOp S e o with
    | some e' => run S os e'
    | none => none

/-- the inserted operators of a rewritten subgraph -/
def insOps (sg : Subgraph) : List Op := sg.ops.filter (·.orig.isNone)

/-- tensors read / written by inserted operators -/
def insInputs (sg : Subgraph) : List Int := (insOps sg).flatMap (·.inputs)
def insOutputs (sg : Subgraph) : List Int := (insOps sg).flatMap (·.outputs)

/-- **shape of a weight-only / float16 rewrite**: every inserted operator is `c ↦ n` where `c` is never
    produced by an operator (a constant), no original operator reads `c` directly any more, `n` is
    produced by this operator only and `-1` is not involved -/
def deqOnConst (sg : Subgraph) : Bool :=
  (insOps sg).all fun o =>
    match o.inputs, o.outputs with
    | [c], [n] =>
      sg.ops.all (fun p => !p.outputs.contains c) &&
      sg.ops.all (fun p => p.orig.isNone || !p.inputs.contains c) &&
      (sg.ops.filter (fun p => p.outputs.contains n)).length == 1 &&
      c != n && c != -1 && n != -1
    | _, _ => false

/-- the initial environment of the *reference* model: every constant that the rewrite reads through an
    inserted operator holds that operator's result on the stored (quantized) data; everything else is
    as in the rewritten model; results of inserted operators have no value before the run -/
def RefEnv {V : Type} (S : Sem V) (sg' : Subgraph) (e0' e0 : Env V) : Prop :=
  (∀ t, t ∉ insInputs sg' → e0 t = e0' t) ∧
  (∀ o ∈ insOps sg', ∀ c n, o.inputs = [c] → o.outputs = [n] → e0 c = (e0' c).map (S.ins n)) ∧
  (∀ n ∈ insOutputs sg', e0' n = none)

/-- agreement on every tensor that is neither read nor written by an inserted operator -/
def AgreeOff {V : Type} (sg' : Subgraph) (e e' : Env V) : Prop :=
  ∀ t, t ∉ insInputs sg' → t ∉ insOutputs sg' → e t = e' t

/-- `useOK insOuts avail ops`: every operator of `ops` reads a result of an inserted operator only
    if that result is available, i.e. in `avail` or produced by an inserted operator earlier in `ops` -/
def useOK (insOuts : List Int) : List Int → List Op → Bool
  | _, [] => true
  | avail, p :: ps =>
    p.inputs.all (fun x => !insOuts.contains x || avail.contains x) &&
    useOK insOuts (if p.orig.isNone then p.outputs ++ avail else avail) ps

/-- **ordering**: every operator reading a tensor `n ∈ insOutputs sg'` occurs after an inserted
    operator producing `n` -/
def insBeforeUse (sg' : Subgraph) : Bool := useOK (insOutputs sg') [] sg'.ops

/-- graph outputs are neither operands nor results of inserted operators -/
def outputsClean (sg' : Subgraph) : Bool :=
  sg'.outputs.all (fun t => !(insInputs sg').contains t && !(insOutputs sg').contains t)

end Eval
