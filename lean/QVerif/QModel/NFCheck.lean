import QModel.Pipeline
import QModel.Skeleton
/-!
# Executable check of the "converter normal form" hypothesis `PipelineWF.NF`

`nfOK env st` is a conjunction of seven executable checks, one per field of the hypothesis `NF` of
the end-to-end theorems (C01/C02).  `QProofs/NFCheckProofs.lean` proves
`nfOK env st = true → PipelineWF.NF env st`, so the compiled driver can establish the hypothesis on
every concrete case.

The slot tables (`indexSlots`, `biasSlot`, `dataSlot`, `slotRole`) are copies of those in
`QProofs/PipeNF.lean` (the model library must not import the proof library); the proof file shows
that they agree.  Every check decides its `NF` field exactly (none is stronger than the field).
-/
open Graph Cfg

namespace NFCheck

/-- operand positions that are ignored by position (copy of `PipeNF.indexSlots`) -/
def indexSlots (k : String) : List Nat :=
  if k = "STRIDED_SLICE" then [1, 2, 3]
  else if k = "MEAN" ∨ k = "RESHAPE" ∨ k = "TRANSPOSE" then [1]
  else if k = "CONV_2D_TRANSPOSE" ∨ k = "EMBEDDING_LOOKUP" ∨ k = "SPLIT" then [0]
  else []

/-- the bias position of the convolution-like operators (copy of `PipeNF.biasSlot`) -/
def biasSlot (k : String) : Option Nat :=
  if k = "CONV_2D_TRANSPOSE" then some 3
  else if k = "FULLY_CONNECTED" ∨ k = "CONV_2D" ∨ k = "DEPTHWISE_CONV_2D" ∨ k = "EMBEDDING_LOOKUP" then some 2
  else none

/-- the data-operand position of the convolution-like operators (copy of `PipeNF.dataSlot`) -/
def dataSlot (k : String) : Nat := if k = "CONV_2D_TRANSPOSE" then 2 else 0

/-- 0 = regular, 1 = index, 2 = bias (copy of `PipeNF.slotRole`) -/
def slotRole (k : String) (i : Nat) : Nat :=
  if i ∈ indexSlots k then 1 else if biasSlot k = some i then 2 else 0

/-- the quantizer's name of operator `op` (the functional form of `PipeNF.OpNamed`) -/
def opName (m : Model) (op : Op) : Option String :=
  match m.opcodes[op.code]? with
  | some code => Mat.opNameOfCode code
  | none => none

/-- `f sg op k` for every operator `op` (of subgraph `sg`) that has a name `k` -/
def allNamedOps (m : Model) (f : Subgraph → Op → String → Bool) : Bool :=
  m.subgraphs.all fun sg => sg.ops.all fun op =>
    match opName m op with
    | some k => f sg op k
    | none => true

/-! ## per-operator checks -/

/-- two operand positions holding the same (present) tensor have the same role -/
def slotRolesOp (op : Op) (k : String) : Bool :=
  (List.range op.inputs.length).all fun i => (List.range op.inputs.length).all fun j =>
    match op.inputs[i]?, op.inputs[j]? with
    | some a, some b => decide (a = b → a ≠ -1 → slotRole k i = slotRole k j)
    | _, _ => true

/-- a constant weight (position 1) is not also the data operand -/
def constWeightOp (m : Model) (sg : Subgraph) (op : Op) (k : String) : Bool :=
  match biasSlot k with
  | none => true
  | some _ =>
    match op.inputs[1]? with
    | none => true
    | some a => decide (op.inputs[dataSlot k]? = some a → a ≠ -1 → isConst m sg a = false)

/-- no `-1` before the bias position, first result is not `-1` -/
def mandatoryOp (op : Op) (k : String) : Bool :=
  match biasSlot k with
  | none => true
  | some b =>
    ((List.range b).all fun i => decide (op.inputs[i]? ≠ some (-1))) &&
      decide (op.outputs[0]? ≠ some (-1))

/-! ## the seven checks -/

def wfB (env : Mat.Env) (_st : Recipe.State) : Bool := WF.modelOK env.model

def taggedB (env : Mat.Env) (_st : Recipe.State) : Bool := Skeleton.origTagged env.model

def noBlockwiseB (_env : Mat.Env) (st : Recipe.State) : Bool :=
  st.all fun e => e.2.all fun r =>
    match r.cfg.weight with
    | some w => decide (w.gran ≠ Gran.blockwise)
    | none => true

def inputsNotConstB (env : Mat.Env) (_st : Recipe.State) : Bool :=
  env.model.subgraphs.all fun sg => sg.inputs.all fun t => !isConst env.model sg t

def slotRolesB (env : Mat.Env) (_st : Recipe.State) : Bool :=
  allNamedOps env.model fun _ op k => slotRolesOp op k

def constWeightB (env : Mat.Env) (_st : Recipe.State) : Bool :=
  allNamedOps env.model fun sg op k => constWeightOp env.model sg op k

def mandatoryB (env : Mat.Env) (_st : Recipe.State) : Bool :=
  allNamedOps env.model fun _ op k => mandatoryOp op k

/-- the seven named results, in the order of the fields of `PipelineWF.NF` -/
def report (env : Mat.Env) (st : Recipe.State) : List (String × Bool) :=
  [("wf", wfB env st), ("tagged", taggedB env st), ("noBlockwise", noBlockwiseB env st),
   ("inputsNotConst", inputsNotConstB env st), ("slotRoles", slotRolesB env st),
   ("constWeight", constWeightB env st), ("mandatory", mandatoryB env st)]

/-- executable form of `PipelineWF.NF env st` -/
def nfOK (env : Mat.Env) (st : Recipe.State) : Bool :=
  wfB env st && taggedB env st && noBlockwiseB env st && inputsNotConstB env st &&
    slotRolesB env st && constWeightB env st && mandatoryB env st

end NFCheck
