import QModel.Py
/-!
# Model of `qtyping.TensorQuantizationConfig` / `OpQuantizationConfig` and their dict forms
-/

/-- JSON / Python plain-data values as used in recipes -/
inductive J where
  | null
  | bool (b : Bool)
  | num (n : Int)
  | str (s : String)
  | arr (l : List J)
  | obj (kv : List (String × J))
  deriving Repr, Inhabited

namespace J
mutual
def beq : J → J → Bool
  | null, null => true
  | bool a, bool b => a == b
  | num a, num b => a == b
  | str a, str b => a == b
  | arr a, arr b => beqList a b
  | obj a, obj b => beqKv a b
  | _, _ => false
def beqList : List J → List J → Bool
  | [], [] => true
  | x :: xs, y :: ys => beq x y && beqList xs ys
  | _, _ => false
def beqKv : List (String × J) → List (String × J) → Bool
  | [], [] => true
  | (k, x) :: xs, (k', y) :: ys => k == k' && beq x y && beqKv xs ys
  | _, _ => false
end
instance : BEq J := ⟨beq⟩

def get? (j : J) (k : String) : Option J :=
  match j with
  | obj kv => (kv.find? (·.1 == k)).map (·.2)
  | _ => none
def keys : J → List String
  | obj kv => kv.map (·.1)
  | _ => []
end J

namespace Cfg

inductive Gran where | tensorwise | channelwise | blockwise
  deriving Repr, DecidableEq, Inhabited
inductive DT where | int | float
  deriving Repr, DecidableEq, Inhabited
inductive CP where | integer | float
  deriving Repr, DecidableEq, Inhabited

def Gran.toStr : Gran → String
  | .tensorwise => "TENSORWISE" | .channelwise => "CHANNELWISE" | .blockwise => "BLOCKWISE"
def Gran.ofStr? : String → Option Gran
  | "TENSORWISE" => some .tensorwise | "CHANNELWISE" => some .channelwise | "BLOCKWISE" => some .blockwise
  | _ => none
def DT.toStr : DT → String | .int => "INT" | .float => "FLOAT"
def DT.ofStr? : String → Option DT | "INT" => some .int | "FLOAT" => some .float | _ => none
def CP.toStr : CP → String | .integer => "INTEGER" | .float => "FLOAT"
def CP.ofStr? : String → Option CP | "INTEGER" => some .integer | "FLOAT" => some .float | _ => none

/-- `TensorQuantizationConfig` -/
structure TCfg where
  bits : Int
  symmetric : Bool := true
  gran : Gran := .tensorwise
  dtype : DT := .int
  blockSize : Int := 0
  deriving Repr, DecidableEq, Inhabited

/-- `OpQuantizationConfig` -/
structure OpCfg where
  act : Option TCfg := none
  weight : Option TCfg := none
  cp : CP := .float
  explicitDeq : Bool := false
  skipChecks : Bool := false
  deriving Repr, DecidableEq, Inhabited

/-- `OpQuantizationConfig.__post_init__` : `ValueError` for contradictory settings -/
def ctorOk (c : OpCfg) : Bool :=
  match c.act, c.weight with
  | some a, some w =>
      !(a.dtype == .int && w.dtype == .float) &&
      !(a.dtype == .int && w.dtype == .int && c.cp != .integer)
  | _, _ => true

def mkOpCfg (c : OpCfg) : PyM OpCfg := if ctorOk c then .ok c else .error .valueError

/-- `TensorQuantizationConfig.to_dict` (no field is ever `None` or an empty dict) -/
def TCfg.toDict (t : TCfg) : J :=
  .obj [("num_bits", .num t.bits), ("symmetric", .bool t.symmetric), ("granularity", .str t.gran.toStr),
        ("dtype", .str t.dtype.toStr), ("block_size", .num t.blockSize)]

/-- `OpQuantizationConfig.to_dict`: `None` sub-configs are skipped -/
def OpCfg.toDict (c : OpCfg) : J :=
  .obj ((match c.act with | some a => [("activation_tensor_config", a.toDict)] | none => []) ++
        (match c.weight with | some w => [("weight_tensor_config", w.toDict)] | none => []) ++
        [("compute_precision", .str c.cp.toStr), ("explicit_dequantize", .bool c.explicitDeq),
         ("skip_checks", .bool c.skipChecks)])

def tcfgKeys : List String := ["num_bits", "symmetric", "granularity", "dtype", "block_size"]
def opcfgKeys : List String :=
  ["activation_tensor_config", "weight_tensor_config", "compute_precision", "explicit_dequantize", "skip_checks"]

/-- `TensorQuantizationConfig.from_dict` = `cls(**params)`: unknown key or missing `num_bits`
    is a `TypeError`.  Values of the wrong JSON type are outside the model (`unsupported`). -/
def TCfg.fromDict (j : J) : PyM TCfg :=
  match j with
  | .obj kv =>
    if kv.any (fun p => !tcfgKeys.contains p.1) then .error .typeError else
    match j.get? "num_bits" with
    | none => .error .typeError
    | some (.num b) =>
      let sym : PyM Bool := match j.get? "symmetric" with
        | none => .ok true | some (.bool v) => .ok v | _ => .error .unsupported
      let gr : PyM Gran := match j.get? "granularity" with
        | none => .ok .tensorwise
        | some (.str s) => (match Gran.ofStr? s with | some g => .ok g | none => .error .unsupported)
        | _ => .error .unsupported
      let dt : PyM DT := match j.get? "dtype" with
        | none => .ok .int
        | some (.str s) => (match DT.ofStr? s with | some g => .ok g | none => .error .unsupported)
        | _ => .error .unsupported
      let bs : PyM Int := match j.get? "block_size" with
        | none => .ok 0 | some (.num v) => .ok v | _ => .error .unsupported
      do
        let s ← sym; let g ← gr; let d ← dt; let b' ← bs
        pure { bits := b, symmetric := s, gran := g, dtype := d, blockSize := b' }
    | some _ => .error .unsupported
  | _ => .error .typeError

/-- `OpQuantizationConfig.from_dict`.  `requireWeight = true` is the pinned code
    (`params['weight_tensor_config']` → `KeyError` when absent); `false` is the repaired code. -/
def OpCfg.fromDict (requireWeight : Bool) (j : J) : PyM OpCfg :=
  match j with
  | .obj kv =>
    let w : PyM (Option TCfg) := match j.get? "weight_tensor_config" with
      | none => if requireWeight then .error .keyError else .ok none
      | some wj => (TCfg.fromDict wj).map some
    let a : PyM (Option TCfg) := match j.get? "activation_tensor_config" with
      | none => .ok none
      | some aj => (TCfg.fromDict aj).map some
    do
      let w' ← w
      let a' ← a
      if kv.any (fun p => !opcfgKeys.contains p.1) then throw .typeError
      let cp : CP ← match j.get? "compute_precision" with
        | none => pure CP.float
        | some (.str s) => (match CP.ofStr? s with | some g => pure g | none => throw .unsupported)
        | _ => throw .unsupported
      let ed : Bool ← match j.get? "explicit_dequantize" with
        | none => pure false | some (.bool v) => pure v | _ => throw .unsupported
      let sk : Bool ← match j.get? "skip_checks" with
        | none => pure false | some (.bool v) => pure v | _ => throw .unsupported
      mkOpCfg { act := a', weight := w', cp := cp, explicitDeq := ed, skipChecks := sk }
  | _ => .error .typeError

end Cfg
