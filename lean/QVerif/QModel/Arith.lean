import QModel.NdArray
/-!
# Model of `algorithms/uniform_quantize/uniform_quantize_tensor.py`

Every numpy operation is mirrored together with its dtype promotion; see
DESIGN.md §2.3.  A float array is an `Arr Rat` plus the `Prec` of its dtype; an
integer array is an `Arr Int` plus the bit width of its dtype.
-/

open Num Nd

namespace Arith

structure FArr where
  arr : Arr Rat
  pr : Prec
  deriving Repr, BEq, Inhabited

structure IArr where
  arr : Arr Int
  w : Nat            -- dtype width: 8, 16, 32, 64
  deriving Repr, BEq, Inhabited

/-- `get_quantized_range(IntType(bits, signed=True))` -/
def qmin (bits : Nat) : Int := -((2:Int)^(bits-1))
def qmax (bits : Nat) : Int := (2:Int)^(bits-1) - 1

/-- dtype width chosen by `assign_quantized_type` -/
def storageBits (bits : Nat) : Nat :=
  if bits ≤ 8 then 8 else if bits ≤ 16 then 16 else if bits ≤ 32 then 32 else 64

/-- the Python float `qmax`/`qmin` as seen in double precision (exact below 2^53,
    `float(2**63-1) = 2**63`) -/
def pyFloat (z : Int) : Rat := Prec.f64.rn (z : Rat)

/-- precision of `float_array (op) int_array` in numpy -/
def promoteInt (pr : Prec) (w : Nat) : Prec :=
  match pr with
  | .exact => .exact
  | .f64 => .f64
  | .f32 => if w ≤ 16 then .f32 else .f64
  | .f16 => if w ≤ 8 then .f16 else if w ≤ 16 then .f32 else .f64

/-- `np.maximum(np.abs(a), np.abs(b))` is exact -/
def absR (x : Rat) : Rat := if x < 0 then -x else x
def maxR (a b : Rat) : Rat := if a < b then b else a
def minR (a b : Rat) : Rat := if b < a then b else a

/-- the Python floats `qmin`, `qmax` (exact for the bit widths ≤ 32; `float(2**63-1) = 2**63`) -/
def qminF (bits : Nat) : Rat := if bits ≤ 53 then (qmin bits : Rat) else pyFloat (qmin bits)
def qmaxF (bits : Nat) : Rat := if bits ≤ 53 then (qmax bits : Rat) else pyFloat (qmax bits)

/-- `min_bound = 1e-4` as seen by an array of format `pr` -/
def minBound (pr : Prec) : Rat := weakScalar pr (1/10000)

/-- a rounded value is finite in format `pr` -/
abbrev fin (pr : Prec) (x : Rat) : Bool := pr.isFin x

-- symmetric branch
def symBound (pr : Prec) (mn mx : Rat) : Rat := maxR (maxR (absR mn) (absR mx)) (minBound pr)
def symScale (pr : Prec) (bits : Nat) (mn mx : Rat) : Rat := pr.rn (symBound pr mn mx / qmaxF bits)
-- asymmetric branch
def asymDiff (pr : Prec) (mn mx : Rat) : Rat := pr.rn (maxR mx 0 - minR mn 0)
def asymBound (pr : Prec) (mn mx : Rat) : Rat := maxR (asymDiff pr mn mx) (minBound pr)
def asymScale (pr : Prec) (bits : Nat) (mn mx : Rat) : Rat :=
  pr.rn (asymBound pr mn mx / (qmaxF bits - qminF bits))
def asymQuo (pr : Prec) (bits : Nat) (mn mx : Rat) : Rat := pr.rn (minR mn 0 / asymScale pr bits mn mx)
def asymZpF (pr : Prec) (bits : Nat) (mn mx : Rat) : Rat := pr.rn (qminF bits - asymQuo pr bits mn mx)
def asymZp (pr : Prec) (bits : Nat) (mn mx : Rat) : Int :=
  wrapInt (storageBits bits) (rhe (asymZpF pr bits mn mx))

/-- scalar core of `tensor_zp_scale_from_min_max` (one channel). Returns `(zp, scale)`;
    `zp` is already cast (with wrap-around, no clipping) to the storage type.
    `nonfinite` when an intermediate would be ±inf in IEEE arithmetic. -/
def zpScale1 (pr : Prec) (bits : Nat) (sym : Bool) (mn mx : Rat) : PyM (Int × Rat) :=
  if sym then
    if fin pr (symScale pr bits mn mx) then .ok (0, symScale pr bits mn mx) else .error .nonfinite
  else
    if fin pr (asymDiff pr mn mx) && fin pr (asymScale pr bits mn mx) && fin pr (asymQuo pr bits mn mx)
        && fin pr (asymZpF pr bits mn mx) then
      .ok (asymZp pr bits mn mx, asymScale pr bits mn mx)
    else .error .nonfinite

/-- `tensor_zp_scale_from_min_max` on arrays (`min`/`max` broadcast against each other) -/
def zpScale (bits : Nat) (sym : Bool) (mn mx : FArr) : PyM (IArr × FArr) := do
  let pr := mn.pr.join mx.pr
  let both ← zipB (fun a b => zpScale1 pr bits sym a b) mn.arr mx.arr
  -- symmetric zero points are created as int32 zeros and then cast like the others
  pure (⟨both.map (·.1), storageBits bits⟩, ⟨both.map (·.2), pr⟩)

/-- `UniformQuantParams` (without `quantized_data`, which the callers carry separately) -/
structure QParams where
  bits : Nat
  qdim : Option Nat
  scale : FArr
  zp : IArr
  symmetric : Bool
  deriving Repr, BEq, Inhabited

/-- `np.expand_dims(a, axis=dims)` for a 1-D array placed on axis `qdim` of a rank-`r` result.
    With `qdim = none` every axis is listed and numpy produces rank `r+1`. -/
def expandShape (r : Nat) (qdim : Option Nat) (n : Nat) : List Nat :=
  match qdim with
  | some q => if q < r then (List.range r).map (fun d => if d = q then n else 1)
              else List.replicate r 1 ++ [n]
  | none => List.replicate r 1 ++ [n]

/-- `fix_quantization_params_rank` -/
def fixRank (tensorShape : List Nat) (qp : QParams) : PyM QParams :=
  let r := tensorShape.length
  if r = qp.scale.arr.rank then .ok qp
  else if r = 0 then
    if qp.scale.arr.size ≠ 1 ∨ qp.zp.arr.size ≠ 1 then .error .valueError
    else .ok { qp with scale := { qp.scale with arr := ⟨[], qp.scale.arr.data⟩ },
                        zp := { qp.zp with arr := ⟨[], qp.zp.arr.data⟩ } }
  else if qp.scale.arr.rank = 1 ∧ qp.zp.arr.rank = 1 then
    .ok { qp with scale := { qp.scale with arr := ⟨expandShape r qp.qdim qp.scale.arr.size, qp.scale.arr.data⟩ },
                  zp := { qp.zp with arr := ⟨expandShape r qp.qdim qp.zp.arr.size, qp.zp.arr.data⟩ } }
  else .error .unsupported

/-- `_is_valid_quantization_params` -/
def validParams (tensorShape : List Nat) (qp : QParams) : PyM Unit :=
  if qp.scale.arr.shape ≠ qp.zp.arr.shape then .error .valueError
  else if tensorShape.length ≠ qp.scale.arr.rank then .error .valueError
  else .ok ()

-- scalar core of `uniform_quantize`: `x` of precision `xpr`, scale of precision `spr`,
-- zero point of integer width `zw`
def qInv (spr : Prec) (scale : Rat) : Rat := spr.rn (1 / scale)
def qProd (xpr spr : Prec) (x scale : Rat) : Rat := (xpr.join spr).rn (x * qInv spr scale)
def qSum (xpr spr : Prec) (zw : Nat) (x scale : Rat) (zp : Int) : Rat :=
  (promoteInt (xpr.join spr) zw).rn (qProd xpr spr x scale + zp)
/-- clip bounds of `_round_and_clip` as integers. `np.rint` yields integral floats and the
    Python-float bounds are integral too, so clipping can be done on integers.  For 64-bit types the
    exact bounds are not floats (`float(2**63-1) = 2**63` would wrap in the cast — defect D34,
    repaired): the code saturates at the nearest floats inside the range,
    `nextafter(float(qmax), 0) = 2^63 − 1024` and, when narrow, `nextafter(float(qmin), 0) = −2^63 + 1024`. -/
def qLoI (bits : Nat) (narrow : Bool) : Int :=
  if bits ≤ 53 then qmin bits + (if narrow then 1 else 0)
  else if narrow then qmin bits + 2 ^ (bits - 54) else qmin bits
def qHiI (bits : Nat) : Int := if bits ≤ 53 then qmax bits else qmax bits + 1 - 2 ^ (bits - 54)
/-- `_round_and_clip` followed by `assign_quantized_type` -/
def roundClip (bits : Nat) (narrow : Bool) (v : Rat) : Int :=
  wrapInt (storageBits bits) (clipI (rhe v) (qLoI bits narrow) (qHiI bits))

def quantize1 (xpr spr : Prec) (zw : Nat) (bits : Nat) (narrow : Bool)
    (x scale : Rat) (zp : Int) : PyM Int :=
  if scale = 0 then .error .nonfinite
  else if fin spr (qInv spr scale) && fin (xpr.join spr) (qProd xpr spr x scale)
      && fin (promoteInt (xpr.join spr) zw) (qSum xpr spr zw x scale zp) then
    .ok (roundClip bits narrow (qSum xpr spr zw x scale zp))
  else .error .nonfinite

/-- `uniform_quantize` -/
def uniformQuantize (x : FArr) (qp : QParams) : PyM IArr := do
  let qp ← fixRank x.arr.shape qp
  validParams x.arr.shape qp
  let sz ← zipB (fun s z => pure (s, z)) qp.scale.arr qp.zp.arr
  let out ← zipB (fun v (sz : Rat × Int) =>
      quantize1 x.pr qp.scale.pr qp.zp.w qp.bits qp.symmetric v sz.1 sz.2) x.arr sz
  pure ⟨out, storageBits qp.bits⟩

/-- width in which `q - zp` is evaluated. `widen = false` is the pinned code (`int8 - int8`
    wraps); `widen = true` is the repaired code (at least 32 bits). -/
def subWidth (widen : Bool) (qw zw : Nat) : Nat := if widen then max (max qw zw) 32 else max qw zw
def dqVal (widen : Bool) (qw zw : Nat) (spr : Prec) (q zp : Int) (scale : Rat) : Rat :=
  (promoteInt spr (subWidth widen qw zw)).rn (wrapInt (subWidth widen qw zw) (q - zp) * scale)
/-- scalar core of `uniform_dequantize` for integer data of width `qw` -/
def dequantize1 (widen : Bool) (qw zw : Nat) (spr : Prec) (q zp : Int) (scale : Rat) : PyM Rat :=
  if fin (promoteInt spr (subWidth widen qw zw)) (dqVal widen qw zw spr q zp scale) then
    .ok (dqVal widen qw zw spr q zp scale)
  else .error .nonfinite

/-- `uniform_dequantize` on integer data -/
def uniformDequantize (widen : Bool) (q : IArr) (qp : QParams) : PyM FArr := do
  let qp ← fixRank q.arr.shape qp
  validParams q.arr.shape qp
  let sz ← zipB (fun s z => pure (s, z)) qp.scale.arr qp.zp.arr
  let w := subWidth widen q.w qp.zp.w
  let out ← zipB (fun v (sz : Rat × Int) =>
      dequantize1 widen q.w qp.zp.w qp.scale.pr v sz.2 sz.1) q.arr sz
  pure ⟨out, promoteInt qp.scale.pr w⟩

/-- `uniform_dequantize` on *float* data (used by `_get_min_max_from_quant_params`
    with `np.array(float(qmin))`): `(x - zp) * scale` in floating point. -/
def uniformDequantizeF (x : FArr) (qp : QParams) : PyM FArr := do
  let qp ← fixRank x.arr.shape qp
  validParams x.arr.shape qp
  let sz ← zipB (fun s z => pure (s, z)) qp.scale.arr qp.zp.arr
  let dpr := promoteInt x.pr qp.zp.w
  let opr := dpr.join qp.scale.pr
  let out ← zipB (fun v (sz : Rat × Int) => do
      let d ← dpr.chk (v - sz.2)
      opr.chk (d * sz.1)) x.arr sz
  pure ⟨out, opr⟩

/-- `np.squeeze` then "at least 1-D" -/
def squeeze1 (a : Arr Rat) : Arr Rat :=
  let s := a.shape.filter (· ≠ 1)
  if s.isEmpty then ⟨[1], a.data⟩ else ⟨s, a.data⟩

/-- `symmetric_quantize_bias_tensor`; returns the parameters and the quantized data -/
def quantizeBias (bias : FArr) (inp w : QParams) : PyM (QParams × IArr) := do
  let pr := inp.scale.pr.join w.scale.pr
  let prod ← zipB (fun a b => pr.chk (a * b)) inp.scale.arr w.scale.arr
  let eff := squeeze1 prod
  let bits := if inp.bits = 16 then 64 else 32
  let qdim := if eff.shape.head? = some 1 then none else some 0
  let qp : QParams := { bits := bits, qdim := qdim, scale := ⟨eff, pr⟩,
                        zp := ⟨eff.map (fun _ => 0), 32⟩, symmetric := true }
  let q ← uniformQuantize bias qp
  pure (qp, q)

end Arith
