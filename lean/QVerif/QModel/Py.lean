/-!
# Python-isms shared by every model file

`PyErr` is the class of the Python exception the real code raises at the
corresponding point (messages are not modelled).  `nonfinite` and `unsupported`
are *not* Python exceptions: they mark inputs on which the model declines to
answer (IEEE inf/nan would be needed, or a feature that is documented as out
of the model); the correspondence harness treats them as "out of model".
-/

inductive PyErr where
  | valueError | runtimeError | keyError | indexError | typeError | attributeError
  | nonfinite | unsupported
  deriving Repr, DecidableEq, Inhabited

namespace PyErr
def toString : PyErr → String
  | valueError => "ValueError" | runtimeError => "RuntimeError" | keyError => "KeyError"
  | indexError => "IndexError" | typeError => "TypeError" | attributeError => "AttributeError"
  | nonfinite => "nonfinite" | unsupported => "unsupported"
instance : ToString PyErr := ⟨toString⟩
end PyErr

abbrev PyM := Except PyErr

namespace Py

/-- Python list indexing with negative indices (`l[i]`), `IndexError` when out of range. -/
def index {α} (l : List α) (i : Int) : PyM α :=
  let n : Int := l.length
  let j := if i < 0 then i + n else i
  if j < 0 ∨ j ≥ n then .error .indexError
  else match l[j.toNat]? with
    | some a => .ok a
    | none => .error .indexError

/-- `list.remove(x)`: removes the first occurrence, `ValueError` if absent. -/
def listRemove {α} [BEq α] (l : List α) (x : α) : PyM (List α) :=
  if l.contains x then .ok (l.erase x) else .error .valueError

/-- `min(l)` of a non-empty list of ints (`ValueError` on empty). -/
def minInt : List Int → PyM Int
  | [] => .error .valueError
  | x :: xs => .ok (xs.foldl min x)

/-- association-list dictionary preserving insertion order (Python `dict`). -/
def dictGet? {κ ν} [BEq κ] (d : List (κ × ν)) (k : κ) : Option ν :=
  (d.find? (·.1 == k)).map (·.2)

/-- `d[k] = v` : overwrite in place if present, append otherwise. -/
def dictSet {κ ν} [BEq κ] : List (κ × ν) → κ → ν → List (κ × ν)
  | [], k, v => [(k, v)]
  | (k', v') :: rest, k, v => if k' == k then (k', v) :: rest else (k', v') :: dictSet rest k v

end Py
