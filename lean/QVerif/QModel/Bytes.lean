import QModel.Num
/-!
# Storage formats: little-endian integers, int4 nibble packing (`_pack_data`), float16 cast
-/
namespace Bytes
open Num

/-- two's complement little-endian bytes of a signed integer of `w` bits (`ndarray.tobytes()`) -/
def encodeLE (w : Nat) (z : Int) : List Nat :=
  let u : Nat := (z % (2:Int)^w).toNat
  (List.range (w / 8)).map fun i => (u / 2^(8*i)) % 256

def decodeLE (w : Nat) (bs : List Nat) : Int :=
  let u : Nat := (bs.zipIdx.map fun (b, i) => b * 2^(8*i)).foldl (· + ·) 0
  wrapInt w u

def encodeAllLE (w : Nat) (zs : List Int) : List Nat := zs.flatMap (encodeLE w)

/-- `_pack_data` for bit widths ≤ 4 on the byte view of int8 data:
    `even & 0x0F | (odd << 4) as uint8`, odd tail padded with 0. -/
def pack4 : List Nat → List Nat
  | [] => []
  | [a] => [a % 16]
  | a :: b :: rest => ((a % 16) + (b * 16) % 256) :: pack4 rest

/-- independent decoder: low nibble first, sign-extended 4-bit values -/
def sext4 (n : Nat) : Int := if n < 8 then n else (n : Int) - 16
def unpack4 (n : Nat) (bs : List Nat) : List Int :=
  ((bs.flatMap fun b => [sext4 (b % 16), sext4 (b / 16)]).take n)

/-- bytes stored by `quantize_tensor` for integer data of `bits` logical bits -/
def storeInts (bits : Nat) (storageW : Nat) (zs : List Int) : List Nat :=
  if bits ≤ 4 then pack4 (encodeAllLE storageW zs) else encodeAllLE storageW zs

/-- IEEE binary16 bit pattern of an exactly representable finite rational -/
def f16Bits (x : Rat) : Nat :=
  if x = 0 then 0 else
  let s : Nat := if x < 0 then 1 else 0
  let a : Rat := if x < 0 then -x else x
  let e := flog2 a
  if e < -14 then
    -- sub-normal: a = m * 2^-24
    let m := (a * (2:Rat)^(24:Int)).floor.toNat
    s * 32768 + m
  else
    let m := (a * (2:Rat)^(10 - e)).floor.toNat - 1024
    s * 32768 + ((e + 15).toNat) * 1024 + m

/-- `astype(np.float16)` then `tobytes()` for one value; `nonfinite` on overflow -/
def castF16 (x : Rat) : PyM (List Nat) := do
  let r ← Prec.f16.chk x
  let b := f16Bits r
  pure [b % 256, b / 256]

end Bytes
