import QModel.Policy
/-!
# Model of `recipe_manager.RecipeManager`

`re.search` is a parameter `rx : String → String → Bool` (regex, scope).
-/
open Cfg

namespace Recipe

structure Rule where
  regex : String
  operation : String
  alg : String
  cfg : OpCfg
  deriving Repr, DecidableEq, Inhabited

/-- `_scope_configs`: insertion-ordered dict regex ↦ rules -/
abbrev State := List (String × List Rule)

/-- within one scope: replace the rule of the same operation in place, else append -/
def upsert (rules : List Rule) (r : Rule) : List Rule :=
  if rules.any (·.operation == r.operation) then
    rules.map fun e => if e.operation == r.operation then r else e
  else rules ++ [r]

/-- `add_quantization_config` -/
def add (st : State) (regex op : String) (cfg : Option OpCfg) (alg : String) : PyM State :=
  let c := cfg.getD {}
  let r : Rule := ⟨regex, op, alg, c⟩
  if op == Tables.allOpsKey then .ok (Py.dictSet st regex [r])
  else if alg != Tables.algNoQuantize && !Policy.accepts alg op c then .error .valueError
  else match Py.dictGet? st regex with
    | none => .ok (st ++ [(regex, [r])])
    | some rules => .ok (Py.dictSet st regex (upsert rules r))

/-- `get_quantization_configs`; result `(algorithm_key, op_config)` -/
def resolve (rx : String → String → Bool) (st : State) (op scope : String) : String × OpCfg :=
  st.foldl (fun acc (entry : String × List Rule) =>
    if rx entry.1 scope then
      entry.2.foldl (fun acc r =>
        if r.operation != Tables.allOpsKey && r.operation != op then acc
        else if r.alg != Tables.algNoQuantize && !Policy.accepts r.alg op r.cfg then acc
        else (r.alg, r.cfg)) acc
    else acc) (Tables.algNoQuantize, {})

def ruleToJ (r : Rule) : J :=
  .obj [("regex", .str r.regex), ("operation", .str r.operation), ("algorithm_key", .str r.alg),
        ("op_config", r.cfg.toDict)]

/-- `get_quantization_recipe` -/
def getRecipe (st : State) : List J := st.flatMap fun e => e.2.map ruleToJ

/-- `load_quantization_recipe` (state is reset first; a failing entry leaves the partially loaded
    state behind, which is what the second component of the error case records) -/
def loadFrom (requireWeight : Bool) : State → List J → PyM State × State
  | st, [] => (.ok st, st)
  | st, j :: rest =>
    match j.get? "regex", j.get? "operation", j.get? "algorithm_key" with
    | some (.str regex), some (.str op), some (.str alg) =>
      let cfg : PyM (Option OpCfg) :=
        if alg != Tables.algNoQuantize || (j.get? "op_config").isSome then
          match j.get? "op_config" with
          | none => .error .keyError
          | some cj => (OpCfg.fromDict requireWeight cj).map some
        else .ok none
      match cfg with
      | .error e => (.error e, st)
      | .ok c => match add st regex op c alg with
        | .error e => (.error e, st)
        | .ok st' => loadFrom requireWeight st' rest
    | _, _, _ => (.error .keyError, st)

def load (requireWeight : Bool) (recipe : List J) : PyM State × State := loadFrom requireWeight [] recipe

/-- `need_calibration` -/
def needCalibration (st : State) : Bool :=
  st.any fun e => e.2.any fun r => r.cfg.cp == .integer && r.cfg.act.isSome

end Recipe
