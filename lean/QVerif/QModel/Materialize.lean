import QModel.Recipe
import QModel.Arith
import QModel.Bytes
import QModel.Graph
/-!
# Model of `params_generator.py`, `algorithms/utils/min_max_quantize_utils.py`,
`algorithms/uniform_quantize/naive_min_max_quantize.py` (materialisation part) and
`algorithms/nonlinear_quantize/float_casting.py` (with the repairs D5, D9, D15, D21)
-/
open Graph Arith Cfg Num Nd

namespace Mat

/-- concrete parameter objects -/
inductive Param where
  | uniform (qp : QParams) (data : Option IArr)
  | nonlinear (bits : Nat) (data : Option (Arr Rat))     -- float16 values (exact)
  deriving Repr, Inhabited

/-- `np.array_equal` (value comparison, dtype-insensitive) -/
def arrEq {α} [BEq α] (a b : Arr α) : Bool := a.shape == b.shape && a.data == b.data

def optEq {α} (f : α → α → Bool) : Option α → Option α → Bool
  | none, none => true
  | some a, some b => f a b
  | _, _ => false

/-- `UniformQuantParams.__eq__` / `NonLinearQuantParams.__eq__` -/
def Param.eqv : Param → Param → Bool
  | .uniform p d, .uniform p' d' =>
    p.bits == p'.bits && p.qdim == p'.qdim && arrEq p.scale.arr p'.scale.arr && arrEq p.zp.arr p'.zp.arr &&
      p.symmetric == p'.symmetric && optEq (fun a b => arrEq a.arr b.arr) d d'
  | .nonlinear b d, .nonlinear b' d' => b == b' && optEq arrEq d d'
  | _, _ => false

def optParamEq : Option Param → Option Param → Bool := optEq Param.eqv

/-- `OpToTensorParams` with concrete parameters -/
structure CO2T where
  opId : Int
  xfs : List Xf
  param : Option Param
  deriving Repr, Inhabited

/-- `TensorTransformationParams` with concrete parameters -/
structure CReq where
  name : String
  producer : Option CO2T
  consumers : Option (List CO2T)
  deriving Repr, Inhabited

/-- a QSV entry: `{}` (initialised, never updated) or `{"min":…, "max":…}` -/
abbrev Qsv := Option (FArr × FArr)
abbrev Qsvs := List (String × Qsv)

/-- everything the materialisation reads that is not in `Graph.Model` -/
structure Env where
  model : Model
  consts : List (Nat × List Rat)          -- buffer index ↦ float32 data (flat), for float constants
  adjY : List (Nat × Nat)                  -- (subgraph, op) of BATCH_MATMULs with adj_y = True
  deriving Repr, Inhabited

def opNameOfCode (code : Nat) : Option String :=
  (Tables.opCodeOfName.find? (·.2 == code)).map (·.1)

def tensorAt (sg : Subgraph) (t : Int) : PyM Tensor := Py.index sg.tensors t

def shapeNat (t : Tensor) : List Nat := t.shape.map Int.toNat

/-- `tfl_flatbuffer_utils.get_tensor_data` for float32 tensors -/
def constData (env : Env) (t : Tensor) : Option (Arr Rat) :=
  match env.model.buffers[t.buffer]? with
  | some (some _) =>
    match env.consts.find? (·.1 == t.buffer) with
    | some e => some ⟨shapeNat t, e.2⟩
    | none => some ⟨shapeNat t, []⟩
  | _ => none

def isSRQ (c : OpCfg) : Bool := c.cp == .integer && c.act.isSome

/-- `get_tensor_transformations` -/
def tensorXfs (c : OpCfg) (inbound isConst : Bool) : PyM (List Xf) :=
  if c.cp == .integer && c.act.isSome then
    if inbound then (if isConst then .ok [.quantTensor] else .ok [.addQuant]) else .ok [.addDequant]
  else if c.cp == .integer && c.act.isNone then
    if inbound && isConst then .ok [.quantTensor] else .ok [.noQuant]
  else if (match c.weight with | some w => w.gran == .blockwise | none => false) && isConst then
    .ok [.emulated]
  else if c.cp == .float && c.explicitDeq then
    if inbound && isConst then .ok [.addDequant] else .ok [.noQuant]
  else .error .valueError

structure OpInfo where
  sgIdx : Nat
  op : Op
  opName : String
  opId : Int
  cfg : OpCfg
  deriving Repr, Inhabited

/-- `_get_bmm_weight_quantized_dim` -/
def bmmQDim (rank : Nat) (adjY : Bool) : Nat := if adjY then rank - 2 else rank - 1

def opAdjY (env : Env) (oi : OpInfo) : Bool :=
  env.adjY.any fun p => p.1 == oi.sgIdx && (p.2 : Int) == oi.opId

/-- `_get_reduce_dims` -/
def reduceDims (qdim : Option Nat) (rank : Nat) : Option (List Nat) :=
  qdim.map fun q => (List.range rank).filter (· != q)

/-- `init_tensor_min_max` for a constant tensor -/
def initMinMax (env : Env) (oi : OpInfo) (t : Tensor) (data : Arr Rat) : PyM (FArr × FArr) := do
  let wcfg := oi.cfg.weight
  if (match wcfg with | some w => w.gran == Gran.blockwise | none => false) then throw PyErr.unsupported
  let qdim : Option Nat :=
    match wcfg with
    | some w => if w.gran == .channelwise then
        (if oi.opName == "BATCH_MATMUL" then some (bmmQDim data.shape.length (opAdjY env oi))
         else (Tables.weightQDim.find? (·.1 == oi.opName)).map (·.2))
      else none
    | none => none
  let dims := reduceDims qdim t.shape.length
  let mn ← reduceKeep minR data dims
  let mx ← reduceKeep maxR data dims
  pure (⟨mn, .f32⟩, ⟨mx, .f32⟩)

/-- `_get_tensor_quant_params` -/
def tensorQuantParams (env : Env) (oi : OpInfo) (mm : Qsv) (tc : TCfg) (content : Option (Arr Rat)) : PyM Param := do
  let (mn, mx) ← match mm with | some p => pure p | none => throw .valueError
  let (zp, scale) ← zpScale tc.bits.toNat tc.symmetric mn mx
  let qdim : Option Nat ←
    if tc.gran == .channelwise then
      if oi.opName == "BATCH_MATMUL" then
        match content with
        | some c => pure (some (bmmQDim c.shape.length (opAdjY env oi)))
        | none => throw .attributeError
      else match Tables.weightQDim.find? (·.1 == oi.opName) with
        | some e => pure (some e.2)
        | none => throw .keyError
    else pure none
  let qp : QParams := { bits := tc.bits.toNat, qdim := qdim, scale := scale, zp := zp, symmetric := tc.symmetric }
  match content with
  | none => pure (.uniform qp none)
  | some c =>
    if tc.gran == .blockwise then throw .unsupported
    let q ← uniformQuantize ⟨c, .f32⟩ qp
    pure (.uniform qp (some q))

/-- `get_tensor_transformation_params` -/
def mkReq (name : String) (oi : OpInfo) (inbound : Bool) (p : Option Param) (isConst : Bool) : PyM CReq := do
  let xfs ← tensorXfs oi.cfg inbound isConst
  let o : CO2T := ⟨oi.opId, xfs, p⟩
  pure (if inbound then ⟨name, none, some [o]⟩ else ⟨name, some o, none⟩)

/-- `_get_tensor_transformation_params_wrapper` -/
def wrapper (env : Env) (qsvs : Qsvs) (oi : OpInfo) (t : Tensor) (inbound : Bool) (given : Option Param) : PyM CReq := do
  let data := constData env t
  let isConst := data.isSome
  let tcfg : Option TCfg :=
    if isConst && (Tables.woOps.contains oi.opName || Tables.drqOps.contains oi.opName) then oi.cfg.weight else oi.cfg.act
  let p : Option Param ←
    match given, tcfg with
    | none, some tc =>
      -- repair D36: the min/max of a constant are always taken from its data under the granularity configured for THIS
      -- operator (`init_tensor_min_max`; an empty constant has none), never from a calibration result that may have been
      -- recorded under another recipe; only runtime tensors are looked up
      let mm : Qsv ←
        match data with
        | some d => if d.data.isEmpty then pure none else (do let r ← initMinMax env oi t d; pure (some r))
        | none =>
          match Py.dictGet? qsvs t.name with
          | none => throw .valueError
          | some e => pure e
      (do let r ← tensorQuantParams env oi mm tc data; pure (some r))
    | some (.uniform qp none), _ =>
      -- repair D21: a constant that borrows parameters still gets its quantized values
      match data with
      | some d => (do let q ← uniformQuantize ⟨d, .f32⟩ qp; pure (some (.uniform qp (some q))))
      | none => pure given
    | g, _ => pure g
  mkReq t.name oi inbound p isConst

def noQuantReq (name : String) (opId : Int) (inbound : Bool) : CReq :=
  let o : CO2T := ⟨opId, [.noQuant], none⟩
  if inbound then ⟨name, none, some [o]⟩ else ⟨name, some o, none⟩

inductive Constraint where | none | sameAsInput | sameAsOutput
  deriving Repr, DecidableEq

/-- positions (in `op.inputs` / `op.outputs`) that are ignored: the given ones plus every
    slot whose tensor is not float32 (`-1` reads the *last* tensor, Python indexing) -/
def ignoredSlots (sg : Subgraph) (slots : List Int) (given : List Nat) : PyM (List Nat) := do
  let keep ← slots.zipIdx.filterMapM fun (p : Int × Nat) => do
    let t ← tensorAt sg p.1
    pure (if t.dtype == Tables.ttFloat32 && !given.contains p.2 then some p.2 else none)
  pure ((List.range slots.length).filter fun i => !keep.contains i)

/-- `_split_tensors_by_indices`: (ignored tensors, others, updated indices) -/
def splitTensors (sg : Subgraph) (slots : List Int) (ignored : List Nat) : PyM (List Tensor × List Tensor × List Nat) := do
  let mut sel : List Tensor := []
  let mut oth : List Tensor := []
  let mut upd : List Nat := []
  let mut k : Nat := 0
  for (p : Int × Nat) in slots.zipIdx do
    if p.1 == -1 then continue
    let t ← tensorAt sg p.1
    if ignored.contains p.2 then
      upd := upd ++ [k]
      sel := sel ++ [t]
    else oth := oth ++ [t]
    k := k + 1
  pure (sel, oth, upd)

/-- `_merge_materialized_tensors` -/
def mergeReqs (reqs ignIn ignOut : List CReq) (nIn nOut : Nat) (inIgn outIgn : List Nat) : List CReq :=
  if inIgn.isEmpty && outIgn.isEmpty then reqs else
  let insPart : List CReq :=
    if !inIgn.isEmpty then
      ((List.range nIn).foldl (fun (st : List CReq × Nat × Nat) i =>
        let (acc, ii, gi) := st
        if inIgn.contains i then (acc ++ [ignIn.getD gi default], ii, gi + 1)
        else (acc ++ [reqs.getD ii default], ii + 1, gi)) ([], 0, 0)).1
    else reqs.take nIn
  let start := nIn - inIgn.length
  let outsPart : List CReq :=
    if !outIgn.isEmpty then
      ((List.range nOut).foldl (fun (st : List CReq × Nat × Nat) i =>
        let (acc, oi, gi) := st
        if outIgn.contains i then (acc ++ [ignOut.getD gi default], oi, gi + 1)
        else (acc ++ [reqs.getD oi default], oi + 1, gi)) ([], start, 0)).1
    else reqs.drop start
  insPart ++ outsPart

def reqParam0 (r : CReq) : PyM (Option Param) :=
  match r.consumers with
  | some (c :: _) => .ok c.param
  | _ => .error .typeError

/-- `materialize_standard_op`; returns the requests and the (possibly updated) statistics -/
def standardOp (env : Env) (sg : Subgraph) (qsvs : Qsvs) (oi : OpInfo) (con : Constraint)
    (inIgnGiven outIgnGiven : List Nat) : PyM (List CReq × Qsvs) := do
  let inIgn ← ignoredSlots sg oi.op.inputs inIgnGiven
  let outIgn ← ignoredSlots sg oi.op.outputs outIgnGiven
  let (ignInT, inT, inIgnU) ← splitTensors sg oi.op.inputs inIgn
  let (ignOutT, outT, outIgnU) ← splitTensors sg oi.op.outputs outIgn
  let mut qs := qsvs
  let mut reqs : List CReq := []
  if inT.isEmpty && outT.isEmpty then
    reqs := []
  else
    match con with
    | .sameAsInput =>
      let t ← (match inT with | [t] => pure t | _ => throw PyErr.valueError)
      let ir ← wrapper env qs oi t true none
      let p0 ← reqParam0 ir
      -- repair D22: results share the parameters but not the quantized values of a constant operand
      let p : Option Param := match p0 with
        | some (.uniform qp (some _)) => some (.uniform qp none)
        | x => x
      let outs ← outT.mapM fun o => wrapper env qs oi o false p
      let iq ← (match Py.dictGet? qs ir.name with | some e => pure e | none => throw PyErr.keyError)
      for o in outT do
        qs := Py.dictSet qs o.name iq
      reqs := ir :: outs
    | .sameAsOutput =>
      let t ← (match outT with | [t] => pure t | _ => throw PyErr.valueError)
      let orq ← wrapper env qs oi t false none
      let p := match orq.producer with | some pr => pr.param | none => none
      let ins ← inT.mapM fun i => wrapper env qs oi i true p
      reqs := ins ++ [orq]
    | .none =>
      let ins ← inT.mapM fun i => wrapper env qs oi i true none
      let outs ← outT.mapM fun o => wrapper env qs oi o false none
      reqs := ins ++ outs
  let ignIn := ignInT.map fun t => noQuantReq t.name oi.opId true
  let ignOut := ignOutT.map fun t => noQuantReq t.name oi.opId false
  let nIn := (oi.op.inputs.filter (· != -1)).length
  let nOut := (oi.op.outputs.filter (· != -1)).length
  pure (mergeReqs reqs ignIn ignOut nIn nOut inIgnU outIgnU, qs)

/-- `_materialize_bias_for_conv_ops` -/
def biasFor (env : Env) (sg : Subgraph) (oi : OpInfo) (reqs : List CReq) (iIn iW iB : Nat) : PyM (List CReq) := do
  match oi.op.inputs[iB]? with
  | none => pure reqs
  | some bslot =>
    if bslot == -1 then pure reqs else
    let bt ← tensorAt sg bslot
    let srq := isSRQ oi.cfg
    let bp : Option Param ←
      if srq then
        match constData env bt with
        | none => throw .unsupported
        | some bd =>
          let pin ← (match reqs[iIn]? with | some r => reqParam0 r | none => throw PyErr.indexError)
          let pw ← (match reqs[iW]? with | some r => reqParam0 r | none => throw PyErr.indexError)
          match pin, pw with
          | some (.uniform qi _), some (.uniform qw _) =>
            (do let (qp, q) ← quantizeBias ⟨bd, .f32⟩ qi qw; pure (some (.uniform qp (some q))))
          | _, _ => throw .attributeError
      else pure none
    let r ← mkReq bt.name oi true bp srq
    if iB < reqs.length then pure (reqs.set iB r) else throw .indexError

/-- fixed output ranges hard-coded in the runtime kernels (scale numerator/denominator as Python
    computes them: `np.array(1.0/256)` float64 0-d, `np.array(-128)` int64 0-d) -/
def fixedParams (softmaxLike : Bool) (bits : Nat) : Option QParams :=
  let mk (s : Rat) (z : Int) (sym : Bool) : QParams :=
    { bits := bits, qdim := none, scale := ⟨⟨[], [s]⟩, .f64⟩, zp := ⟨⟨[], [z]⟩, 64⟩, symmetric := sym }
  if softmaxLike then
    if bits = 8 then some (mk (1/256) (-128) false) else if bits = 16 then some (mk (1/32768) 0 true) else none
  else
    if bits = 8 then some (mk (1/128) 0 false) else if bits = 16 then some (mk (1/32768) 0 true) else none

/-- `_get_min_max_from_quant_params` -/
def minMaxFromParams (bits : Nat) (sym : Bool) (qp : QParams) : PyM (FArr × FArr) := do
  let lo ← uniformDequantizeF ⟨⟨[], [pyFloat (qmin bits)]⟩, .f64⟩ qp
  let hi ← uniformDequantizeF ⟨⟨[], [pyFloat (qmax bits)]⟩, .f64⟩ qp
  pure (if sym then (⟨hi.arr.map (fun x => -x), hi.pr⟩, hi) else (lo, hi))

/-- `materialize_op_with_output_activation_constraint` -/
def fixedRangeOp (env : Env) (sg : Subgraph) (qsvs : Qsvs) (oi : OpInfo) (softmaxLike : Bool) : PyM (List CReq × Qsvs) := do
  if oi.op.outputs.length ≠ 1 then throw .valueError
  let (reqs, qs) ← standardOp env sg qsvs oi .none [] []
  match reqs.getLast?, oi.cfg.act with
  | some last, some a =>
    match last.producer with
    | none => pure (reqs, qs)
    | some pr =>
      match fixedParams softmaxLike a.bits.toNat with
      | none => throw .valueError
      | some fp =>
        let last' : CReq := { last with producer := some { pr with param := some (.uniform fp none) } }
        let mm ← minMaxFromParams a.bits.toNat a.symmetric fp
        match Py.dictGet? qs last.name with
        | none => throw .keyError
        | some _ => pure (reqs.dropLast ++ [last'], Py.dictSet qs last.name (some mm))
  | _, _ => pure (reqs, qs)

/-- float-casting: `materialize_fc_conv` / `materialize_conv2d_transpose` / `materialize_embedding_lookup` -/
def floatCastOp (env : Env) (sg : Subgraph) (oi : OpInfo) (iIn iW iB : Nat) : PyM (List CReq) := do
  let slot (i : Nat) : PyM Int := match oi.op.inputs[i]? with | some s => pure s | none => throw .indexError
  let tin ← tensorAt sg (← slot iIn)
  let tw ← tensorAt sg (← slot iW)
  let tout ← tensorAt sg (← (match oi.op.outputs[0]? with | some s => pure s | none => throw PyErr.indexError))
  let wd ← (match constData env tw with | some d => pure d | none => throw PyErr.attributeError)
  let h ← wd.data.mapM fun x => Prec.f16.chk x
  let wreq : CReq := ⟨tw.name, none, some [⟨oi.opId, [.addDequant], some (.nonlinear 16 (some ⟨wd.shape, h⟩))⟩]⟩
  let base := [noQuantReq tin.name oi.opId true, wreq, noQuantReq tout.name oi.opId false]
  match oi.op.inputs[iB]? with
  | some b => if b != -1 then (do let tb ← tensorAt sg b; pure (base ++ [noQuantReq tb.name oi.opId true])) else pure base
  | none => pure base

/-- dispatch on the registered materialize function (names from the regenerated registry) -/
def materializeOp (env : Env) (sg : Subgraph) (qsvs : Qsvs) (oi : OpInfo) (alg fn : String) : PyM (List CReq × Qsvs) := do
  if alg == Tables.algFloatCasting then
    if fn == "materialize_fc_conv" || fn == "materialize_embedding_lookup" then
      (do let r ← floatCastOp env sg oi 0 1 2; pure (r, qsvs))
    else if fn == "materialize_conv2d_transpose" then
      (do let r ← floatCastOp env sg oi 2 1 3; pure (r, qsvs))
    else throw .unsupported
  else if alg == Tables.algMinMax then
    if fn == "materialize_input" || fn == "materialize_output" || fn == "materialize_add" || fn == "materialize_sub"
        || fn == "materialize_mul" || fn == "materialize_batch_matmul" || fn == "materialize_gelu" || fn == "materialize_rsqrt" then
      standardOp env sg qsvs oi .none [] []
    else if fn == "materialize_embedding_lookup" then standardOp env sg qsvs oi .none [0] []
    else if fn == "materialize_mean" then standardOp env sg qsvs oi .none [1] []
    else if fn == "materialize_reshape" || fn == "materialize_transpose" then standardOp env sg qsvs oi .sameAsInput [1] []
    else if fn == "materialize_average_pool_2d" then standardOp env sg qsvs oi .sameAsInput [] []
    else if fn == "materialize_strided_slice" then standardOp env sg qsvs oi .sameAsInput [1, 2, 3] []
    else if fn == "materialize_split" then standardOp env sg qsvs oi .sameAsInput [0] []
    else if fn == "materialize_concatenation" then standardOp env sg qsvs oi .sameAsOutput [] []
    else if fn == "materialize_fc_conv" then
      (do let (r, q) ← standardOp env sg qsvs oi .none [2] []
          let r' ← biasFor env sg oi r 0 1 2
          pure (r', q))
    else if fn == "materialize_conv2d_transpose" then
      (do let (r, q) ← standardOp env sg qsvs oi .none [0, 3] []
          if r.length < 2 then throw .valueError
          let r' ← biasFor env sg oi r 2 1 3
          pure (r', q))
    else if fn == "materialize_softmax_and_logistic" then fixedRangeOp env sg qsvs oi true
    else if fn == "materialize_tanh" then fixedRangeOp env sg qsvs oi false
    else throw .unsupported
  else throw .unsupported

/-- `_get_params_for_no_quant_op` -/
def noQuantOp (sg : Subgraph) (op : Op) (opId : Int) : PyM (List CReq) := do
  let ins ← (op.inputs.filter (· != -1)).mapM fun i => do let t ← tensorAt sg i; pure (noQuantReq t.name opId true)
  let outs ← (op.outputs.filter (· != -1)).mapM fun i => do let t ← tensorAt sg i; pure (noQuantReq t.name opId false)
  pure (ins ++ outs)

/-- `_update_model_quant_results` -/
def updateResults (res : List (String × CReq)) (opReqs : List CReq) : PyM (List (String × CReq)) :=
  opReqs.foldlM (fun res r =>
    match Py.dictGet? res r.name with
    | none => pure (res ++ [(r.name, r)])
    | some cur =>
      match r.producer, cur.producer with
      | some _, some _ => throw .runtimeError
      | _, _ =>
        let prod := match r.producer with | some p => some p | none => cur.producer
        let cons := match r.consumers, cur.consumers with
          | some c, none => some c
          | some c, some c0 => some (c0 ++ c)
          | none, c0 => c0
        pure (Py.dictSet res r.name { cur with producer := prod, consumers := cons })) res

/-- `_get_op_scope` -/
def opScope (sg : Subgraph) (op : Op) : PyM String :=
  (op.outputs.filter (· != -1)).foldlM (fun s i => do let t ← tensorAt sg i; pure (s ++ t.name ++ ";")) ""

/-- `_same_tensor_params_except_id` / `_compatible_tensor_params` -/
def compatO2T (a b : CO2T) : PyM Bool := do
  if a.xfs == b.xfs && optParamEq a.param b.param then return true
  let fa ← (match a.xfs.head? with | some x => pure x | none => throw PyErr.indexError)
  let fb ← (match b.xfs.head? with | some x => pure x | none => throw PyErr.indexError)
  if fa != .noQuant && fb != .noQuant && !optParamEq a.param b.param then return false
  let floatSrc := fun (x : Xf) => x == .addQuant || x == .noQuant
  let quantSrc := fun (x : Xf) => x == .quantTensor || x == .addDequant
  return (floatSrc fa && floatSrc fb) || (quantSrc fa && quantSrc fb)

/-- `_compatible_tensor_transformation_params` -/
def compatReq (a b : CReq) : PyM Bool := do
  match a.producer, b.producer with
  | some pa, some pb => if !(← compatO2T pa pb) then return false
  | none, none => pure ()
  | _, _ => return false
  match a.consumers, b.consumers with
  | some ca, some cb =>
    let a0 ← (match ca.head? with | some x => pure x | none => throw PyErr.indexError)
    let b0 ← (match cb.head? with | some x => pure x | none => throw PyErr.indexError)
    for c in ca do
      if !(← compatO2T c a0) then return false
    for c in cb do
      if !(← compatO2T c b0) then return false
    if !(← compatO2T a0 b0) then return false
    return true
  | none, none => return true
  | _, _ => return false

/-- `buffer_to_tensors` restricted to what `_check_buffer_sharing` (repair D9) looks at:
    buffers with data, tensors listed once per (op, slot) in `outputs + inputs` order -/
def bufferToTensors (m : Model) : List (Nat × List String) :=
  m.subgraphs.foldl (fun acc sg =>
    sg.ops.foldl (fun acc op =>
      ((op.outputs ++ op.inputs).filter (· != -1)).foldl (fun acc i =>
        match sg.tensors[i.toNat]? with
        | some t => Py.dictSet acc t.buffer ((Py.dictGet? acc t.buffer).getD [] ++ [t.name])
        | none => acc) acc) acc) []

def checkBufferSharing (m : Model) (res : List (String × CReq)) : PyM Unit := do
  for e in bufferToTensors m do
    match e.2 with
    | [] => pure ()
    | [only] =>
      -- repair D31: a constant read by one op may have a second reader, the graph output: one copy of the data, one storage format
      match m.buffers[e.1]? with
      | some (some _) =>
        -- an operand the algorithm ignores (e.g. a shape operand under float casting) has no request
        match Py.dictGet? res only with
        | some p => if !(← compatReq p p) then throw .runtimeError
        | none => pure ()
      | _ => pure ()
    | first :: rest =>
      match m.buffers[e.1]? with
      | some (some _) =>
        let fp ← (match Py.dictGet? res first with | some r => pure r | none => throw PyErr.keyError)
        for n in rest do
          let tp ← (match Py.dictGet? res n with | some r => pure r | none => throw PyErr.keyError)
          if !(← compatReq fp tp) then throw .runtimeError
      | _ => pure ()
  -- repair D30: a constant that no operator reads (e.g. one that is only a graph output) must not share a buffer
  -- that is rewritten for an operand tensor (tensor names are unique here, so names identify tensors)
  let b2t := bufferToTensors m
  let operands := b2t.flatMap (·.2)
  for sg in m.subgraphs do
    for t in sg.tensors do
      if operands.contains t.name then pure ()
      else
        match m.buffers[t.buffer]? with
        | some (some _) =>
          for n in (Py.dictGet? b2t t.buffer).getD [] do
            match Py.dictGet? res n with
            | none => pure ()     -- an operand the algorithm ignores has no request
            | some sp =>
              if (sp.consumers.getD []).any (fun c => match c.xfs.head? with
                  | some x => x == .quantTensor || x == .addDequant
                  | none => false) then throw .runtimeError
        | _ => pure ()

/-- repair D35 (second half of the unread-constant pass of `_check_buffer_sharing`): a constant that no operator reads may itself
    be requested to be rewritten (a graph output under a rule covering OUTPUT); nobody compared that request with the other tensors
    over the same buffer, so it is refused whenever the buffer has another referent -/
def checkUnreadOwn (m : Model) (res : List (String × CReq)) : PyM Unit := do
  let b2t := bufferToTensors m
  let operands := b2t.flatMap (·.2)
  let allTensors := m.subgraphs.flatMap (·.tensors)
  for sg in m.subgraphs do
    for t in sg.tensors do
      if operands.contains t.name then pure ()
      else
        match m.buffers[t.buffer]? with
        | some (some _) =>
          match Py.dictGet? res t.name with
          | none => pure ()
          | some own =>
            if decide (1 < allTensors.countP (fun u => u.buffer == t.buffer)) &&
                (own.consumers.getD []).any (fun c => match c.xfs.head? with
                  | some x => x == .quantTensor || x == .addDequant
                  | none => false) then throw .runtimeError
        | _ => pure ()

/-- `ParamsGenerator.generate_quantization_parameters`; `qsvs = none` models `None`.
    Returns the requests in dict order. (The caller's statistics are never touched: repair D5.) -/
def generate (rx : String → String → Bool) (env : Env) (st : Recipe.State) (qsvs : Option Qsvs) : PyM (List CReq) := do
  -- ParamsGenerator.__init__: the model must be float and tensor names unique (ValueError)
  if env.model.subgraphs.any (fun sg => sg.tensors.any (·.quant.isSome)) then throw .valueError
  if !(env.model.subgraphs.flatMap fun sg => sg.tensors.map (·.name)).Nodup then throw .valueError
  if Recipe.needCalibration st && qsvs.isNone then throw .runtimeError
  let mut qs : Qsvs := qsvs.getD []
  let mut res : List (String × CReq) := []
  for (p : Subgraph × Nat) in env.model.subgraphs.zipIdx do
    let sg := p.1
    let ioOps : List (Op × String) :=
      [({ code := 0, inputs := [], outputs := sg.inputs }, "INPUT"), ({ code := 0, inputs := sg.outputs, outputs := [] }, "OUTPUT")]
    let allOps : List (Op × Option String × Int) :=
      (sg.ops.zipIdx.map fun (q : Op × Nat) => (q.1, none, (q.2 : Int))) ++ ioOps.map fun q => (q.1, some q.2, (-1 : Int))
    for (q : Op × Option String × Int) in allOps do
      let (op, io, opId) := q
      let key : Option String ← match io with
        | some k => pure (some k)
        | none =>
          match env.model.opcodes[op.code]? with
          | none => throw .indexError
          | some code => pure (opNameOfCode code)
      match key with
      | none =>
        let r ← noQuantOp sg op opId
        res ← updateResults res r
      | some k =>
        let scope ← opScope sg op
        let (alg, cfg) := Recipe.resolve rx st k scope
        if alg == Tables.algNoQuantize then
          let r ← noQuantOp sg op opId
          res ← updateResults res r
        else
          let fn ← match Py.dictGet? Tables.registry alg with
            | none => throw .valueError
            | some ops => match Py.dictGet? ops k with
              | none => throw .valueError
              | some f => pure f
          let oi : OpInfo := { sgIdx := p.2, op := op, opName := k, opId := opId, cfg := cfg }
          let (r, qs') ← materializeOp env sg qs oi alg fn
          qs := qs'
          res ← updateResults res r
  checkBufferSharing env.model res
  checkUnreadOwn env.model res
  pure (res.map (·.2))

end Mat
