import QModel.NdArray
/-!
# Denotational semantics of the operators of the EMULATED_SUBCHANNEL pattern (statement side of C06c)

`transformations/emulated_subchannel.py` (graph-level model: `QModel/Emulated.lean`) replaces a
FULLY_CONNECTED operator whose weight is quantized BLOCKWISE by

    RESHAPE(x : [d0, d1, F] → [d0*d1, B, 1, S]) → BATCH_MATMUL(·, Q : [1, B, S, C]) → MUL(·, scale)
      → SUM(axis 1, keep_dims) → RESHAPE(→ shape of the result tensor) [→ ADD(bias)] [→ RELU]

This file says what these operators COMPUTE, over exact rationals, on tensors given as
`Nd.Arr Rat` = (shape, row-major data list).  It is executable (closed instances are evaluated in
`QProps/C06c.lean`).

## What is assumed about the runtime (nothing here is an axiom; these are DEFINITIONS to be compared with LiteRT)

* the LiteRT kernels RESHAPE, BATCH_MATMUL (adj_x = adj_y = false), MUL (fused activation NONE), SUM
  (keep_dims = true), ADD (fused activation NONE), RELU and FULLY_CONNECTED (weights `[C, F]`, optional bias
  `[C]`, fused activation NONE / RELU) implement the mathematical operators below on float32, each arithmetic
  operation being rounded; the statements of C06c are about the EXACT operators (no rounding, no overflow,
  no NaN), exactly like `C06.weight_only_equiv` is about abstract kernels;
* tensors are dense and row-major (`Nd.ravel`): element `[i0][i1][i2][i3]` of a tensor of shape
  `[d0, d1, d2, d3]` sits at `flat4 d1 d2 d3 i0 i1 i2 i3 = ((i0*d1 + i1)*d2 + i2)*d3 + i3`;
* the integer codes `Q` are read as the numbers they denote (the BATCH_MATMUL kernel is given an int8/int4
  right operand with the unit quantization record `scale = [1.0]`, `zero_point = [0]`, token `unitQ` of
  `Emulated.EmuEnv`; that the runtime accepts this hybrid signature is finding D37's neighbourhood and NOT
  part of this file).

An operator returns `none` when the shapes do not fit (the kernel's `Prepare` fails).  Reads go through
`get`, which answers `0` outside the data list, so no operator needs the data length to match the shape;
every result has `data.length = numel shape` (the `_spec` lemmas of `QProofs/EmuSemProofs.lean`).
-/

namespace EmuSem

abbrev T := Nd.Arr Rat

/-- element at a flat row-major index (`0` outside the data) -/
def get (a : T) (i : Nat) : Rat := a.data.getD i 0

/-- `Σ_{i < n} f i` -/
def sumN : Nat → (Nat → Rat) → Rat
  | 0, _ => 0
  | n + 1, f => sumN n f + f n

/-- the list `[f 0, …, f (n-1)]` -/
def tab (n : Nat) (f : Nat → Rat) : List Rat := (List.range n).map f

/-- flat row-major index of `[i0][i1][i2][i3]` in a tensor whose last three dimensions are `d1 d2 d3` -/
def flat4 (d1 d2 d3 i0 i1 i2 i3 : Nat) : Nat := ((i0 * d1 + i1) * d2 + i2) * d3 + i3

/-- row-major data of the rank-4 tensor `[i0][i1][i2][i3] ↦ f i0 i1 i2 i3` of shape `[d0, d1, d2, d3]` -/
def tab4 (d0 d1 d2 d3 : Nat) (f : Nat → Nat → Nat → Nat → Rat) : List Rat :=
  tab (d0 * d1 * d2 * d3) fun i => f (i / (d1 * d2 * d3)) (i / (d2 * d3) % d1) (i / d3 % d2) (i % d3)

/-- row-major data of the matrix `[i0][i1] ↦ f i0 i1` of shape `[d0, d1]` -/
def tab2 (d0 d1 : Nat) (f : Nat → Nat → Rat) : List Rat :=
  tab (d0 * d1) fun i => f (i / d1) (i % d1)

/-- broadcasting: index into an operand dimension of extent `e` for the result index `i` -/
def bi (e i : Nat) : Nat := if e = 1 then 0 else i

/-- RESHAPE: same data, new shape of the same number of elements -/
def reshape (a : T) (s : List Nat) : Option T :=
  if Nd.numel a.shape = Nd.numel s then some ⟨s, a.data⟩ else none

/-- BATCH_MATMUL (no adjoints) of `a : [n, p, m, k]` and `b : [r, p, k, c]`, `r = n` or `r = 1` (the
    leading dimension 1 of the right operand is broadcast): `out[i0][i1][i2][i3] = Σ_j a[i0][i1][i2][j] * b[i0 or 0][i1][j][i3]` -/
def batchMatMul (a b : T) : Option T :=
  match a.shape, b.shape with
  | [n, p, m, k], [r, p', k', c] =>
    if p = p' ∧ k = k' ∧ (r = 1 ∨ r = n) then
      some ⟨[n, p, m, c], tab4 n p m c fun i0 i1 i2 i3 =>
        sumN k fun j => get a (flat4 p m k i0 i1 i2 j) * get b (flat4 p k c (bi r i0) i1 j i3)⟩
    else none
  | _, _ => none

/-- MUL of a rank-4 tensor with a rank-4 tensor each of whose dimensions is 1 (broadcast) or the left one's -/
def mulBroadcast (a b : T) : Option T :=
  match a.shape, b.shape with
  | [d0, d1, d2, d3], [e0, e1, e2, e3] =>
    if (e0 = 1 ∨ e0 = d0) ∧ (e1 = 1 ∨ e1 = d1) ∧ (e2 = 1 ∨ e2 = d2) ∧ (e3 = 1 ∨ e3 = d3) then
      some ⟨[d0, d1, d2, d3], tab4 d0 d1 d2 d3 fun i0 i1 i2 i3 =>
        get a (flat4 d1 d2 d3 i0 i1 i2 i3) * get b (flat4 e1 e2 e3 (bi e0 i0) (bi e1 i1) (bi e2 i2) (bi e3 i3))⟩
    else none
  | _, _ => none

/-- extent of dimension `t` after reducing axis `ax` with keep_dims -/
def keep1 (ax t d : Nat) : Nat := if t = ax then 1 else d
/-- index component `t` of the operand: the summation variable on the reduced axis -/
def pick (ax t j i : Nat) : Nat := if t = ax then j else i

/-- SUM over one axis of a rank-4 tensor, keep_dims = true -/
def sumAxisKeepDims (ax : Nat) (a : T) : Option T :=
  match a.shape with
  | [d0, d1, d2, d3] =>
    if ax < 4 then
      some ⟨[keep1 ax 0 d0, keep1 ax 1 d1, keep1 ax 2 d2, keep1 ax 3 d3],
        tab4 (keep1 ax 0 d0) (keep1 ax 1 d1) (keep1 ax 2 d2) (keep1 ax 3 d3) fun i0 i1 i2 i3 =>
          sumN ([d0, d1, d2, d3].getD ax 1) fun j =>
            get a (flat4 d1 d2 d3 (pick ax 0 j i0) (pick ax 1 j i1) (pick ax 2 j i2) (pick ax 3 j i3))⟩
    else none
  | _ => none

/-- the SUM of the pattern: `reduce_axes = [1]`, `keepDims = True` -/
def sumAxis1KeepDims (a : T) : Option T := sumAxisKeepDims 1 a

/-- ADD of a bias vector `[c]` to a tensor whose last dimension is `c` (numpy broadcasting) -/
def addBias (y b : T) : Option T :=
  match b.shape with
  | [c] =>
    if y.shape.getLast? = some c then
      some ⟨y.shape, tab (Nd.numel y.shape) fun i => get y i + get b (i % c)⟩
    else none
  | _ => none

/-- the optional ADD of the pattern: present iff the FULLY_CONNECTED operator had a bias operand -/
def addBiasOpt (y : T) : Option T → Option T
  | none => some y
  | some b => addBias y b

/-- RELU -/
def relu (a : T) : T := a.map fun v => if v < 0 then 0 else v

def biasOK (bias : Option T) (c : Nat) : Bool :=
  match bias with
  | none => true
  | some b => b.shape == [c]

def biasAt (bias : Option T) (j : Nat) : Rat :=
  match bias with
  | none => 0
  | some b => get b j

/-- shape of the result of FULLY_CONNECTED on `[d0, d1, F]` -/
def fcOutShape (keepNumDims : Bool) (d0 d1 c : Nat) : List Nat :=
  if keepNumDims then [d0, d1, c] else [d0 * d1, c]

/-- the reference: FULLY_CONNECTED (no fused activation) of `x : [d0, d1, F]` with `w : [C, F]` and the
    optional bias `[C]`: `y[n][j] = Σ_t x[n][t] * w[j][t] + bias[j]`, `n` running over the `d0*d1` rows -/
def fullyConnected (keepNumDims : Bool) (x w : T) (bias : Option T) : Option T :=
  match x.shape, w.shape with
  | [d0, d1, f], [c, f'] =>
    if f = f' ∧ biasOK bias c = true then
      some ⟨fcOutShape keepNumDims d0 d1 c, tab2 (d0 * d1) c fun n j =>
        sumN f (fun t => get x (n * f + t) * get w (j * f + t)) + biasAt bias j⟩
    else none
  | _, _ => none

/-- the dequantized weight `ŵ : [C, B*S]` of the stored codes `Q : [1, B, S, C]` and the scales
    `[1, 1, 1, C]` (one per output channel, what the statistics give today) or `[1, B, 1, C]` (one per
    block and channel): `ŵ[j][b*S + k] = Q[0][b][k][j] * scale[0][b or 0][0][j]` -/
def dequantBlock (q scale : T) : Option T :=
  match q.shape, scale.shape with
  | [r, b, s, c], [e0, e, e2, c'] =>
    if r = 1 ∧ e0 = 1 ∧ e2 = 1 ∧ c = c' ∧ (e = 1 ∨ e = b) then
      some ⟨[c, b * s], tab2 c (b * s) fun j f =>
        get q (flat4 b s c 0 (f / s) (f % s) j) * get scale (flat4 e 1 c 0 (bi e (f / s)) 0 j)⟩
    else none
  | _, _ => none

/-- the operator pattern `emulated_subchannel` leaves in place of the FULLY_CONNECTED operator; `outShape` is
    the recorded shape of the operator's result tensor (`activation_output.shape`), `bias` the third operand
    if present, `fusedRelu` whether the fused activation function was RELU (NONE otherwise) -/
def pattern (outShape : List Nat) (x q scale : T) (bias : Option T) (fusedRelu : Bool) : Option T :=
  match x.shape, q.shape with
  | [d0, d1, _], [_, b, s, _] =>
    (reshape x [d0 * d1, b, 1, s]).bind fun t1 =>
    (batchMatMul t1 q).bind fun t2 =>
    (mulBroadcast t2 scale).bind fun t3 =>
    (sumAxis1KeepDims t3).bind fun t4 =>
    (reshape t4 outShape).bind fun t5 =>
    (addBiasOpt t5 bias).bind fun t6 =>
    some (if fusedRelu then relu t6 else t6)
  | _, _ => none

/-- the reference operator with its fused activation function -/
def fullyConnectedAct (keepNumDims : Bool) (x w : T) (bias : Option T) (fusedRelu : Bool) : Option T :=
  (fullyConnected keepNumDims x w bias).map fun y => if fusedRelu then relu y else y

end EmuSem
