import QModel.Perform
/-!
# Model of `transformations/emulated_subchannel.py` (the EMULATED_SUBCHANNEL transformation)

The transformation replaces a FULLY_CONNECTED operator whose weight is quantized BLOCKWISE by

    RESHAPE → BATCH_MATMUL → MUL → SUM → RESHAPE [→ ADD (bias)] [→ RELU (fused RELU)]

`Perform.applySingle` keeps answering `.unsupported` for `.emulated`; this file models the
transformation FUNCTION on its own (like `Perform.insertQuant`), together with
`add_new_constant_tensor`, `add_new_activation_tensor`, `_get_unique_tensor_name` (= `Perform.uniqueName`)
and `add_op_code` (= `Perform.addOpCode`) of `transformation_utils.py`.

Everything the Python function reads that the abstract graph does not carry is in `EmuEnv`.

Conventions / limits of the abstraction (all checked by the correspondence script `fam_emulated.py`):
* buffer contents: `some (.inr p)` = bytes derived from the parameter object `p` (the weight's buffer receives
  `p.quantized_data.tobytes()` — NOT packed, finding D37 —, the buffer of the new `<w>_scale` constant receives
  `p.scale.tobytes()`); `some (.inl k)` with the caller's tokens for the axes / shape constants;
* the weight tensor's quantization record becomes `scale = [1.0]`, `zero_point = [0]`: the token `env.unitQ`;
* a negative `consumers[0]` (Python would index the operator list from the end) is declined (`.unsupported`):
  the instruction generator never produces it for this transformation;
* `shape is None` on the activation tensors (Python: `TypeError`) is not representable (`shape : List Int`);
  the `int32` product `shape[0] * shape[1]` is modelled without wrap-around;
* an `.error` result carries no partial state (the caller discards the model on an exception), but the ORDER
  of the checks is the order in which Python reaches its `raise`s / failing subscripts.

The function is cut into stages (`head`, `weight`, `io` can raise; `core`, `biasStep`, `reluStep`, the final
deletion cannot); the stages run in the order of the Python statements.
-/
open Graph Perform

namespace Emulated

/-! `schema_py_generated.BuiltinOperator` / `ActivationFunctionType` (RESHAPE, BATCH_MATMUL, MUL, ADD,
FULLY_CONNECTED agree with `Tables.opCodeOfName`, see the `example`s below; SUM and RELU are not in that table) -/
def opFullyConnected : Nat := 9
def opReshape : Nat := 22
def opBatchMatmul : Nat := 126
def opMul : Nat := 18
def opSum : Nat := 74
def opAdd : Nat := 0
def opRelu : Nat := 19
def actNone : Nat := 0
def actRelu : Nat := 1

example : Tables.opCodeOfName.lookup "FULLY_CONNECTED" = some opFullyConnected := rfl
example : Tables.opCodeOfName.lookup "RESHAPE" = some opReshape := rfl
example : Tables.opCodeOfName.lookup "BATCH_MATMUL" = some opBatchMatmul := rfl
example : Tables.opCodeOfName.lookup "MUL" = some opMul := rfl
example : Tables.opCodeOfName.lookup "ADD" = some opAdd := rfl

/-- what `emulated_subchannel` reads beyond the abstract graph -/
structure EmuEnv where
  /-- `operators[consumers[0]].builtinOptions.fusedActivationFunction` (`none`: no options object) -/
  fused : Option Nat
  /-- `weight_tensor.quantization is not None` -/
  weightHasQuant : Bool
  /-- `quant_params.quantized_data.shape` -/
  qshape : List Int
  /-- `quant_params.scale.shape` -/
  scaleShape : List Int
  /-- every entry of `quant_params.zero_point` is 0 -/
  zpAllZero : Bool
  /-- token of the quantization record `scale = [1.0], zero_point = [0]` -/
  unitQ : PId
  /-- fresh tokens for the contents of the `_reduce_axes`, `_reshape_op1_shape`, `_reshape_op2_shape` constants -/
  axesTok : Nat
  shape1Tok : Nat
  shape2Tok : Nat
  deriving Repr, Inhabited

/-- position of the element Python's `l[i]` denotes in a list of length `n` -/
def pos (n : Nat) (i : Int) : Nat := (if i < 0 then i + n else i).toNat

/-- `add_new_constant_tensor`: new buffer at the end, new tensor at the end; returns the tensor id -/
def addConst (bufs : List BufContent) (sg : Subgraph) (base : String) (shape : List Int) (dtype : Nat)
    (content : Nat ⊕ PId) : List BufContent × Subgraph × Int :=
  (bufs ++ [some content],
   { sg with tensors := sg.tensors ++
      [{ name := uniqueName (sg.tensors.map (·.name)) base, dtype := dtype, shape := shape, buffer := bufs.length }] },
   (sg.tensors.length : Int))

/-- `add_new_activation_tensor` (always FLOAT32 here): buffer 0; returns the tensor id -/
def addAct (sg : Subgraph) (base : String) (shape : List Int) : Subgraph × Int :=
  ({ sg with tensors := sg.tensors ++
      [{ name := uniqueName (sg.tensors.map (·.name)) base, dtype := Tables.ttFloat32, shape := shape, buffer := 0 }] },
   (sg.tensors.length : Int))

def resolveParam (pt : PTable) : Option PId → PyM (Option (PId × PInfo))
  | none => .ok none
  | some p => match pinfo pt p with
    | none => .error .unsupported
    | some pi => .ok (some (p, pi))

/-- `isinstance(quant_params, NonLinearQuantParams)` -/
def nonUniform : Option (PId × PInfo) → Bool
  | some x => !x.2.uniform
  | none => false

/-! ## the four guards at the head of the function -/

structure Head where
  par : Option (PId × PInfo)
  k : Nat                    -- `consumers[0]` = `original_fc_op_idx`
  fc : Op
  deriving Inhabited

def head (pt : PTable) (m : Model) (sg : Subgraph) (inp : TIn) : PyM Head :=
  -- `len(consumers) > 1`
  if inp.consumers.length > 1 then .error .valueError else
  -- `isinstance(quant_params, NonLinearQuantParams)`
  match resolveParam pt inp.param with
  | .error e => .error e
  | .ok par =>
  if nonUniform par then .error .valueError else
  -- `op_codes[operators[consumers[0]].opcodeIndex].builtinCode != FULLY_CONNECTED`
  match Py.index inp.consumers 0 with
  | .error e => .error e
  | .ok c0 =>
  if c0 < 0 then .error .unsupported else
  match Py.index sg.ops c0 with
  | .error e => .error e
  | .ok fc =>
  match Py.index m.opcodes (fc.code : Int) with
  | .error e => .error e
  | .ok code =>
  if code != opFullyConnected then .error .valueError else
  -- `producer != -1`
  if inp.producer != -1 then .error .valueError else
  .ok ⟨par, c0.toNat, fc⟩

/-! ## the weight tensor: type, buffer, shape, quantization record; the zero-point check -/

structure WRes where
  w : Tensor                 -- the weight tensor before the rewrite
  p : PId
  sg : Subgraph
  bufs : List BufContent
  deriving Inhabited

def weight (env : EmuEnv) (m : Model) (sg : Subgraph) (inp : TIn) (par : Option (PId × PInfo)) : PyM WRes :=
  match getTensor sg inp.tensor with
  | .error e => .error e
  | .ok w =>
  match par with
  | none => .error .attributeError                                   -- `None.num_bits`
  | some pp =>
  match dtypeOf pp.2 with
  | .error e => .error e
  | .ok ty =>
  if !pp.2.hasData then .error .attributeError else                   -- `None.tobytes()`
  if m.buffers.length ≤ w.buffer then .error .indexError else
  if !env.weightHasQuant then .error .attributeError else             -- `None.scale = ...`
  if !env.zpAllZero then .error .valueError else
  .ok ⟨w, pp.1, setTensor sg inp.tensor { w with dtype := ty, shape := env.qshape, quant := some env.unitQ },
       m.buffers.set w.buffer (some (.inr pp.1))⟩

/-! ## input and result tensor of the operator, the three shapes -/

structure IORes where
  inId : Int                 -- `activation_input_id`
  outId : Int                -- `activation_output_id`
  outPos : Nat               -- position of the `activation_output` object
  outT : Tensor              -- the `activation_output` object (name, shape)
  bmmShape : List Int
  midShape : List Int
  sumShape : List Int
  deriving Inhabited

def io (env : EmuEnv) (fc : Op) (sg : Subgraph) : PyM IORes :=
  match Py.index fc.inputs 0 with
  | .error e => .error e
  | .ok inId =>
  match Py.index fc.outputs 0 with
  | .error e => .error e
  | .ok outId =>
  match getTensor sg inId with
  | .error e => .error e
  | .ok inT =>
  match getTensor sg outId with
  | .error e => .error e
  | .ok outT =>
  if inT.shape.length != 3 then .error .valueError else
  match Py.index inT.shape 0 with
  | .error e => .error e
  | .ok s0 =>
  match Py.index inT.shape 1 with
  | .error e => .error e
  | .ok s1 =>
  match Py.index env.qshape 1 with
  | .error e => .error e
  | .ok q1 =>
  match Py.index env.qshape 2 with
  | .error e => .error e
  | .ok q2 =>
  match Py.index env.qshape 3 with
  | .error e => .error e
  | .ok q3 =>
  .ok ⟨inId, outId, pos sg.tensors.length outId, outT,
       [s0 * s1, q1, 1, q2], [s0 * s1, q1, 1, q3], [s0 * s1, 1, 1, q3]⟩

/-! ## everything up to (and including) the last statement that can raise -/

/-- state after the last statement that can raise -/
structure Plan where
  sg : Subgraph              -- weight rewritten, `_scale` and `_reduce_axes` constants added
  bufs : List BufContent
  codes : List Nat           -- RESHAPE, BATCH_MATMUL, MUL, SUM added
  ciReshape : Nat
  ciBmm : Nat
  ciMul : Nat
  ciSum : Nat
  k : Nat                    -- `original_fc_op_idx`
  fused : Nat
  scaleId : Int
  axesId : Int
  io : IORes
  deriving Inhabited

def plan (pt : PTable) (env : EmuEnv) (m : Model) (sg : Subgraph) (inp : TIn) : PyM Plan :=
  match head pt m sg inp with
  | .error e => .error e
  | .ok h =>
  -- the four operator codes
  let r1 := addOpCode m.opcodes opReshape
  let r2 := addOpCode r1.1 opBatchMatmul
  let r3 := addOpCode r2.1 opMul
  let r4 := addOpCode r3.1 opSum
  -- fused activation function of the FULLY_CONNECTED
  match env.fused with
  | none => .error .attributeError
  | some fused =>
  if fused != actNone && fused != actRelu then .error .valueError else
  match weight env m sg inp h.par with
  | .error e => .error e
  | .ok wr =>
  -- `_scale` and `_reduce_axes` constants
  let a1 := addConst wr.bufs wr.sg (wr.w.name ++ "_scale") env.scaleShape Tables.ttFloat32 (.inr wr.p)
  let a2 := addConst a1.1 a1.2.1 (wr.w.name ++ "_reduce_axes") [1] Tables.ttInt32 (.inl env.axesTok)
  match io env h.fc a2.2.1 with
  | .error e => .error e
  | .ok r =>
  .ok { sg := a2.2.1, bufs := a2.1, codes := r4.1, ciReshape := r1.2, ciBmm := r2.2, ciMul := r3.2, ciSum := r4.2,
        k := h.k, fused := fused, scaleId := a1.2.2, axesId := a2.2.2, io := r }

/-! ## the part that cannot raise -/

/-- running state of the tail of the function: `added` = `ops_added`; `last_op` sits at position `k + added - 1` -/
structure St where
  sg : Subgraph
  codes : List Nat
  added : Nat
  deriving Repr, Inhabited

/-- `last_op.outputs = [t]` -/
def setLastOut (ops : List Op) (i : Nat) (t : Int) : List Op :=
  ops.modify i (fun o => { o with outputs := [t] })

/-- shape constants, intermediate tensors, the five operators inserted at `k .. k+4`;
    returns the running state and the final buffer list -/
def core (env : EmuEnv) (inp : TIn) (pl : Plan) : St × List BufContent :=
  let kI : Int := pl.k
  let nm := pl.io.outT.name
  let c1 := addConst pl.bufs pl.sg (nm ++ "_reshape_op1_shape") [4] Tables.ttInt32 (.inl env.shape1Tok)
  let c2 := addConst c1.1 c1.2.1 (nm ++ "_reshape_op2_shape") [(pl.io.outT.shape.length : Int)] Tables.ttInt32
    (.inl env.shape2Tok)
  let t1 := addAct c2.2.1 (nm ++ "_bmm_input") pl.io.bmmShape
  let t2 := addAct t1.1 (nm ++ "_mul_input") pl.io.midShape
  let t3 := addAct t2.1 (nm ++ "_reduce_sum_input") pl.io.midShape
  let t4 := addAct t3.1 (nm ++ "_reshape_op2_input") pl.io.sumShape
  let reshape1 : Op := { code := pl.ciReshape, inputs := [pl.io.inId, c1.2.2], outputs := [t1.2] }
  let bmm : Op := { code := pl.ciBmm, inputs := [t1.2, inp.tensor], outputs := [t2.2] }
  let mul : Op := { code := pl.ciMul, inputs := [t2.2, pl.scaleId], outputs := [t3.2] }
  let sum : Op := { code := pl.ciSum, inputs := [t3.2, pl.axesId], outputs := [t4.2] }
  let reshape2 : Op := { code := pl.ciReshape, inputs := [t4.2, c2.2.2], outputs := [pl.io.outId] }
  let ops := pyInsert (pyInsert (pyInsert (pyInsert (pyInsert t4.1.ops kI reshape1) (kI + 1) bmm) (kI + 2) mul)
    (kI + 3) sum) (kI + 4) reshape2
  ({ sg := { t4.1 with ops := ops }, codes := pl.codes, added := 5 }, c2.1)

/-- the bias branch: `len(fc.inputs) > 2 and fc.inputs[2] != -1` -/
def biasStep (pl : Plan) (st : St) : St :=
  let cur := (st.sg.ops[pl.k + st.added]?).getD default        -- the original operator, pushed back by the inserts
  if cur.inputs.length > 2 && cur.inputs.getD 2 0 != -1 then
    let c := addOpCode st.codes opAdd
    let a := addAct st.sg (pl.io.outT.name ++ "_reshape_op2_output") pl.io.outT.shape
    let ops1 := setLastOut a.1.ops (pl.k + st.added - 1) a.2
    let add : Op := { code := c.2, inputs := [a.2, cur.inputs.getD 2 0], outputs := [pl.io.outId] }
    { sg := { a.1 with ops := pyInsert ops1 ((pl.k : Int) + st.added) add }, codes := c.1, added := st.added + 1 }
  else st

/-- the fused-RELU branch: the result tensor is RENAMED `<name>_relu` (made unique), a new tensor
    `<new name>_relu_input` takes its place as the result of `last_op` -/
def reluStep (pl : Plan) (st : St) : St :=
  if pl.fused == actRelu then
    let newName := uniqueName (st.sg.tensors.map (·.name)) (pl.io.outT.name ++ "_relu")
    let sg1 := { st.sg with tensors := st.sg.tensors.modify pl.io.outPos (fun t => { t with name := newName }) }
    let a := addAct sg1 (newName ++ "_relu_input") pl.io.outT.shape
    let ops1 := setLastOut a.1.ops (pl.k + st.added - 1) a.2
    let c := addOpCode st.codes opRelu
    let relu : Op := { code := c.2, inputs := [a.2], outputs := [pl.io.outId] }
    { sg := { a.1 with ops := pyInsert ops1 ((pl.k : Int) + st.added) relu }, codes := c.1, added := st.added + 1 }
  else st

/-- the part of the function that cannot raise, ending with `del operators[original_fc_op_idx + ops_added]` -/
def finish (env : EmuEnv) (inp : TIn) (pl : Plan) : Subgraph × List BufContent × List Nat × TInfoOut :=
  let c := core env inp pl
  let st2 := reluStep pl (biasStep pl c.1)
  ({ st2.sg with ops := st2.sg.ops.eraseIdx (pl.k + st2.added) }, c.2, st2.codes,
   ⟨(pl.k : Int), st2.added - 1, pl.io.outId⟩)

/-- `emulated_subchannel(TransformationInput(tensor_id, op_codes, buffers, subgraphs[sgi], producer, consumers,
    quant_params))` -/
def apply (pt : PTable) (env : EmuEnv) (m : Model) (sgi : Nat) (inp : TIn) : PyM (Model × TInfoOut) :=
  match m.subgraphs[sgi]? with
  | none => .error .indexError
  | some sg =>
  match plan pt env m sg inp with
  | .error e => .error e
  | .ok pl =>
  let r := finish env inp pl
  .ok ({ m with subgraphs := m.subgraphs.set sgi r.1, buffers := r.2.1, opcodes := r.2.2.1 }, r.2.2.2)

end Emulated
