import QModel.Arith
/-!
# Model of the BLOCKWISE ("emulated sub-channel") weight quantization of FULLY_CONNECTED weights

Python sources (all under `ai_edge_quantizer/`):

* `algorithms/utils/min_max_quantize_utils.py`
  - `check_subchannel_config` (only the `block_size <= 0` guard concerns the arithmetic: `ValueError`),
  - `init_tensor_min_max`, BLOCKWISE branch: `np.transpose(w, (1, 0))`, the divisibility check
    (`ValueError`), `np.reshape(.., (1, f / block_size, block_size, o))`,
    `np.min / np.max(.., axis=(0, 1, 2), keepdims=True)`,
  - `_get_tensor_quant_params`, BLOCKWISE branch: `tensor_zp_scale_from_min_max`, `quantized_dimension = None`,
    `uniform_quantize_for_emulated_subchannel`;
* `algorithms/uniform_quantize/uniform_quantize_tensor.py`
  - `uniform_quantize_for_emulated_subchannel` (transpose, reshape, `x * (1/scale) + zp`, `_round_and_clip`,
    `assign_quantized_type`).

The float arithmetic is that of `QModel/Arith.lean` (`Arith.zpScale`, `Arith.quantize1`): every numpy rounding
is an explicit `Prec.rn`, dtype promotion included.  A weight is an `FArr` of shape `[o, f]`
(`o` output channels, `f` input features; float32 in the library).

`refMinMax` / `refParams` / `refQuantize` are NOT what the library computes: they are the per-block reference
(statistics reduced over the block axis only), against which finding D41 is stated.
-/

open Num Nd Arith

namespace Blockwise

/-- row-major data of `np.transpose(w, (1, 0))` for `w` of shape `[o, f]`: element `[j][c]`
    (flat index `j * o + c`) is `w[c][j]` (flat index `c * f + j`) -/
def tdata (o f : Nat) (d : List Rat) : List Rat :=
  (List.range (f * o)).map fun i => d.getD ((i % o) * f + i / o) 0

/-- `np.reshape(np.transpose(w, (1, 0)), (1, f / block_size, block_size, o))`.
    * not 2-D: `np.transpose(.., (1, 0))` raises `ValueError` ("axes don't match array");
    * `block_size <= 0`: `check_subchannel_config` raises `ValueError` when the config is checked, before any
      tensor is looked at (the block size is a `Nat` here: the driver sends a negative one as 0).  OUT OF MODEL: under
      `skip_checks=True` that check is skipped and the library answers block size 0 (the default of
      `TensorQuantizationConfig`) with `ZeroDivisionError` from the `%` of `init_tensor_min_max` (observed on the real
      code), a class `PyErr` does not have;
    * `f % block_size != 0`: `init_tensor_min_max` raises `ValueError` (and the `np.reshape` of
      `uniform_quantize_for_emulated_subchannel` would raise `ValueError` as well).
    A row-major reshape keeps the flat data. -/
def reshaped (w : Arr Rat) (blockSize : Nat) : PyM (Arr Rat) :=
  match w.shape with
  | [o, f] =>
    if blockSize = 0 then .error .valueError
    else if f % blockSize ≠ 0 then .error .valueError
    else .ok ⟨[1, f / blockSize, blockSize, o], tdata o f w.data⟩
  | _ => .error .valueError

/-- `init_tensor_min_max`, BLOCKWISE branch: statistics of shape `[1, 1, 1, o]`.
    An empty constant gives `{}` in Python, which `_get_tensor_quant_params` turns into `ValueError`
    (`reduceKeep` answers `ValueError` on empty data). -/
def minMax (w : FArr) (blockSize : Nat) : PyM (FArr × FArr) := do
  let r ← reshaped w.arr blockSize
  let mn ← reduceKeep minR r (some [0, 1, 2])
  let mx ← reduceKeep maxR r (some [0, 1, 2])
  pure (⟨mn, w.pr⟩, ⟨mx, w.pr⟩)

/-- `_get_tensor_quant_params` up to the parameters: `tensor_zp_scale_from_min_max`; the quantized
    dimension is `None` for BLOCKWISE -/
def paramsOf (bits : Nat) (sym : Bool) (mn mx : FArr) : PyM QParams := do
  let zs ← zpScale bits sym mn mx
  pure { bits := bits, qdim := none, scale := zs.2, zp := zs.1, symmetric := sym }

/-- scale / zero point of a weight under BLOCKWISE granularity -/
def params (w : FArr) (blockSize bits : Nat) (sym : Bool) : PyM QParams := do
  let mm ← minMax w blockSize
  paramsOf bits sym mm.1 mm.2

/-- `uniform_quantize_for_emulated_subchannel(w, qp, block_size)`: the reshaped weight is broadcast against the
    parameters directly (no `fix_quantization_params_rank`, no `_is_valid_quantization_params`);
    result of shape `[1, f / block_size, block_size, o]` (when the parameters broadcast into it) -/
def quantizeWith (w : FArr) (qp : QParams) (blockSize : Nat) : PyM IArr := do
  let r ← reshaped w.arr blockSize
  let sz ← zipB (fun s z => pure (s, z)) qp.scale.arr qp.zp.arr
  let out ← zipB (fun v (sz : Rat × Int) =>
      quantize1 w.pr qp.scale.pr qp.zp.w qp.bits qp.symmetric v sz.1 sz.2) r sz
  pure ⟨out, storageBits qp.bits⟩

/-- the quantized data of a weight under BLOCKWISE granularity -/
def quantize (w : FArr) (blockSize bits : Nat) (sym : Bool) : PyM IArr := do
  let qp ← params w blockSize bits sym
  quantizeWith w qp blockSize

/-- everything `init_tensor_min_max` + `_get_tensor_quant_params` produce for a BLOCKWISE weight:
    `(min, max, parameters, quantized data)` -/
def run (w : FArr) (blockSize bits : Nat) (sym : Bool) : PyM (FArr × FArr × QParams × IArr) := do
  let mm ← minMax w blockSize
  let qp ← paramsOf bits sym mm.1 mm.2
  let q ← quantizeWith w qp blockSize
  pure (mm.1, mm.2, qp, q)

/-! ## references (not library code) -/

/-- per-BLOCK statistics: the reduction runs over the block axis only (`axis=(0, 2)`), shape `[1, f / block_size, 1, o]` -/
def refMinMax (w : FArr) (blockSize : Nat) : PyM (FArr × FArr) := do
  let r ← reshaped w.arr blockSize
  let mn ← reduceKeep minR r (some [0, 2])
  let mx ← reduceKeep maxR r (some [0, 2])
  pure (⟨mn, w.pr⟩, ⟨mx, w.pr⟩)

def refParams (w : FArr) (blockSize bits : Nat) (sym : Bool) : PyM QParams := do
  let mm ← refMinMax w blockSize
  paramsOf bits sym mm.1 mm.2

/-- what a library honouring the granularity would store: one scale per (block, channel) -/
def refQuantize (w : FArr) (blockSize bits : Nat) (sym : Bool) : PyM IArr := do
  let qp ← refParams w blockSize bits sym
  quantizeWith w qp blockSize

/-- the ordinary CHANNELWISE quantization of a FULLY_CONNECTED weight (quantized dimension 0):
    `init_tensor_min_max` with `reduce_dims = (1,)`, `tensor_zp_scale_from_min_max`, `uniform_quantize`
    (`Mat.initMinMax` / `Mat.tensorQuantParams` on a 2-D constant) -/
def channelwise (w : FArr) (bits : Nat) (sym : Bool) : PyM (QParams × IArr) :=
  match w.arr.shape with
  | [_, _] => do
    let mn ← reduceKeep minR w.arr (some [1])
    let mx ← reduceKeep maxR w.arr (some [1])
    let zs ← zpScale bits sym ⟨mn, w.pr⟩ ⟨mx, w.pr⟩
    let qp : QParams := { bits := bits, qdim := some 0, scale := zs.2, zp := zs.1, symmetric := sym }
    let q ← uniformQuantize w qp
    pure (qp, q)
  | _ => .error .valueError

end Blockwise
