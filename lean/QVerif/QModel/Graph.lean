import QModel.Generated.Tables
/-!
# Flatbuffer graph model and the data exchanged between the pipeline stages

Quantization parameters are *abstract* here: the graph-rewriting code only ever
compares parameter objects for equality, reads their bit width / kind, and
copies their packed data into a buffer.  A parameter object is therefore a
`PId` (its `==`-equivalence class, assigned by the harness or by the
materialisation model) together with a `PInfo` record in a table.
-/

namespace Graph

abbrev PId := Nat

/-- what the graph code reads from a `UniformQuantParams` / `NonLinearQuantParams` object -/
structure PInfo where
  uniform : Bool      -- `UniformQuantParams` (true) or `NonLinearQuantParams` (false)
  bits : Nat
  hasData : Bool      -- `quantized_data is not None`
  deriving Repr, DecidableEq, Inhabited

structure Tensor where
  name : String
  dtype : Nat
  shape : List Int
  buffer : Nat
  quant : Option PId := none
  deriving Repr, DecidableEq, Inhabited

/-- `orig = some i` for the `i`-th operator of the input subgraph (it stands for the builtin
    options and every other field the quantizer never touches), `none` for inserted operators. -/
structure Op where
  code : Nat
  inputs : List Int
  outputs : List Int
  orig : Option Nat := none
  deriving Repr, DecidableEq, Inhabited

structure Subgraph where
  tensors : List Tensor
  ops : List Op
  inputs : List Int
  outputs : List Int
  deriving Repr, DecidableEq, Inhabited

structure Sig where
  key : String
  sg : Nat
  inputs : List (String × Int)
  outputs : List (String × Int)
  deriving Repr, DecidableEq, Inhabited

/-- buffer contents are abstract: `none` = no data, `some (.inl k)` = the `k`-th original
    constant, `some (.inr p)` = the packed quantized data of parameter object `p`. -/
abbrev BufContent := Option (Nat ⊕ PId)

structure Model where
  subgraphs : List Subgraph
  buffers : List BufContent
  opcodes : List Nat
  sigs : List Sig
  deriving Repr, DecidableEq, Inhabited

inductive Xf where
  | noQuant | addQuant | addDequant | quantTensor | emulated
  deriving Repr, DecidableEq, Inhabited

/-- `OpToTensorParams` -/
structure O2T where
  opId : Int
  xfs : List Xf
  param : Option PId
  deriving Repr, DecidableEq, Inhabited

/-- `TensorTransformationParams` -/
structure TReq where
  name : String
  producer : Option O2T
  consumers : Option (List O2T)
  deriving Repr, DecidableEq, Inhabited

/-- `TransformationInst` -/
structure Inst where
  xf : Xf
  tensor : Int
  producer : Int
  consumers : List Int
  param : Option PId
  deriving Repr, DecidableEq, Inhabited

/-- `TensorTransformationInsts` -/
structure TInsts where
  name : String
  sg : Nat
  insts : List Inst
  deriving Repr, DecidableEq, Inhabited

abbrev PTable := List (PId × PInfo)

def pinfo (pt : PTable) (p : PId) : Option PInfo := (pt.find? (·.1 == p)).map (·.2)

/-- Python `x in list_of_ints` -/
def memI (x : Int) (l : List Int) : Bool := l.contains x

/-- does subgraph tensor `t` hold constant data -/
def isConst (m : Model) (sg : Subgraph) (t : Int) : Bool :=
  if t < 0 then false else
  match sg.tensors[t.toNat]? with
  | some tn => match m.buffers[tn.buffer]? with
    | some (some _) => true
    | _ => false
  | none => false

end Graph
