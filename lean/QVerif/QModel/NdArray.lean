import QModel.Num
/-!
# Minimal n-d array model (row-major), numpy broadcasting, axis reductions
-/

namespace Nd

def numel (shape : List Nat) : Nat := shape.foldl (· * ·) 1

/-- multi-index of a flat row-major index -/
def unravel : List Nat → Nat → List Nat
  | [], _ => []
  | _ :: rest, flat =>
      let inner := numel rest
      (flat / inner) :: unravel rest (flat % inner)

/-- flat row-major index of a multi-index -/
def ravel : List Nat → List Nat → Nat
  | _ :: rest, i :: is => i * numel rest + ravel rest is
  | _, _ => 0

/-- numpy broadcasting of two shapes of the *same rank*; `none` if incompatible -/
def bshape : List Nat → List Nat → Option (List Nat)
  | [], [] => some []
  | a :: as, b :: bs =>
      match bshape as bs with
      | none => none
      | some r => if a = b then some (a :: r) else if a = 1 then some (b :: r)
                  else if b = 1 then some (a :: r) else none
  | _, _ => none

/-- general numpy broadcasting (left-pads the shorter shape with ones) -/
def padLeft (n : Nat) (s : List Nat) : List Nat := List.replicate (n - s.length) 1 ++ s
def bshapeAny (a b : List Nat) : Option (List Nat) :=
  let n := max a.length b.length
  bshape (padLeft n a) (padLeft n b)

/-- index into an operand of shape `s` (same rank as the result) for result multi-index `idx` -/
def bproj : List Nat → List Nat → List Nat
  | d :: ds, i :: is => (if d = 1 then 0 else i) :: bproj ds is
  | _, _ => []

/-- flat index into operand of shape `s` for the result flat index `flat` (result shape `rs`) -/
def bindex (rs s : List Nat) (flat : Nat) : Nat :=
  let s' := padLeft rs.length s
  ravel s' (bproj s' (unravel rs flat))

structure Arr (α : Type) where
  shape : List Nat
  data : List α
  deriving Repr, BEq, Inhabited

namespace Arr
def rank {α} (a : Arr α) : Nat := a.shape.length
def size {α} (a : Arr α) : Nat := a.data.length
def wf {α} (a : Arr α) : Bool := a.data.length == numel a.shape
def scalar {α} (x : α) : Arr α := ⟨[], [x]⟩
def map {α β} (f : α → β) (a : Arr α) : Arr β := ⟨a.shape, a.data.map f⟩
def mapM {α β} (f : α → PyM β) (a : Arr α) : PyM (Arr β) := do
  let d ← a.data.mapM f
  pure ⟨a.shape, d⟩
end Arr

/-- elementwise binary op with broadcasting; `ValueError` when shapes do not broadcast -/
def zipB {α β γ} [Inhabited α] [Inhabited β] (f : α → β → PyM γ) (a : Arr α) (b : Arr β) : PyM (Arr γ) :=
  match bshapeAny a.shape b.shape with
  | none => .error .valueError
  | some rs => do
      let d ← (List.range (numel rs)).mapM fun i =>
        f (a.data.getD (bindex rs a.shape i) default) (b.data.getD (bindex rs b.shape i) default)
      pure ⟨rs, d⟩

/-- shape with the reduced dims kept as 1 (`keepdims=True`); `dims = none` reduces everything -/
def keepShape (shape : List Nat) (dims : Option (List Nat)) : List Nat :=
  match dims with
  | none => shape.map (fun _ => 1)
  | some ds => (List.range shape.length).map fun i => if ds.contains i then 1 else shape.getD i 1

/-- `np.min/np.max(..., axis=dims, keepdims=True)` via a fold `f`; arrays are non-empty -/
def reduceKeep (f : Rat → Rat → Rat) (a : Arr Rat) (dims : Option (List Nat)) : PyM (Arr Rat) :=
  let ks := keepShape a.shape dims
  let n := numel ks
  if a.data.isEmpty then .error .valueError else
  let cells : List (Option Rat) := (List.range a.size).foldl (fun acc i =>
      let j := bindex a.shape ks i
      let x := a.data.getD i 0
      acc.set j (match acc.getD j none with | none => some x | some y => some (f y x)))
    (List.replicate n none)
  .ok ⟨ks, cells.map (·.getD 0)⟩

end Nd
