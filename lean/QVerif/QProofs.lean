import QModel
