import QProofs.MatTotalGen
import QProofs.LocalityShare
/-!
# The two buffer-sharing checks pass on models without shared constants (C08, site (g))
-/
open Graph Mat Arith Cfg Num Nd Pipe PipeNF GraphStep GenInstsOK SharingGen

set_option autoImplicit false

namespace MatTotal

/-- **no constant is shared** -/
structure Unshared (m : Model) : Prop where
  /-- a constant buffer is read through at most one operand slot -/
  short : ∀ e ∈ bufferToTensors m, (∃ c, m.buffers[e.1]? = some (some c)) → e.2.length ≤ 1
  /-- a constant buffer is referenced by at most one tensor -/
  sole : ∀ b c, m.buffers[b]? = some (some c) → (m.subgraphs.flatMap (·.tensors)).countP (fun u => u.buffer == b) ≤ 1
  /-- a constant tensor has at most one reader (an operator, or the graph-output list) -/
  oneReader : ∀ sg ∈ m.subgraphs, ∀ i : Nat, isConst m sg (i : Int) = true →
    ∀ o o', ConsumedAt sg i o → ConsumedAt sg i o' → o = o'

theorem compatO2T_of_eq (a b : CO2T) (hx : a.xfs = b.xfs) (hp : a.param = b.param) : compatO2T a b = .ok true := by
  unfold compatO2T
  have : optParamEq a.param b.param = true := by rw [hp]; exact (Locality.optParamEq_iff _ _).2 rfl
  simp [this, hx]
  rfl

/-- the entry of a constant tensor with one reader is compatible with itself -/
theorem compatReq_self_const {m : Model} {res : List (String × CReq)} (C : Ctx m res) (U : Unshared m)
    (e : String × CReq) (he : e ∈ res) (s : Nat) (sg : Subgraph) (i : Nat) (hloc : Loc m e.1 s sg i)
    (hc : isConst m sg (i : Int) = true) : compatReq e.2 e.2 = .ok true := by
  have hE := C.entries e he
  have hnp := const_noProd C e he s sg i hloc hc
  refine Locality.compatReq_intro e.2 e.2 (.inl ⟨hnp, hnp⟩) ?_
  cases hcs : e.2.consumers with
  | none => exact .inl ⟨rfl, rfl⟩
  | some cs =>
    have hne : ∃ c, c ∈ cs := by
      rcases hE.used with h | ⟨cs', c, h1, h2⟩
      · exact absurd hnp h
      · rw [hcs] at h1; cases h1; exact ⟨c, h2⟩
    obtain ⟨a0, ha0⟩ : ∃ a0, cs.head? = some a0 := by
      cases cs with
      | nil => obtain ⟨c, hc⟩ := hne; cases hc
      | cons a as => exact ⟨a, rfl⟩
    have ha0m : a0 ∈ cs := List.mem_of_head? ha0
    have hall : ∀ c ∈ cs, compatO2T c a0 = .ok true := by
      intro c hcm
      have h1 := (hE.cons cs c hcs hcm s sg i hloc).2
      have h2 := (hE.cons cs a0 hcs ha0m s sg i hloc).2
      have hid := U.oneReader sg (List.mem_of_getElem? hloc.1) i hc _ _ h1 h2
      obtain ⟨hx, hp⟩ := hE.coh cs c a0 hcs hcm ha0m hid
      exact compatO2T_of_eq c a0 hx hp
    exact .inr ⟨cs, cs, a0, a0, rfl, rfl, ha0, ha0, hall, hall, Locality.compatO2T_self a0⟩

theorem loc_of_mem (m : Model) (sg : Subgraph) (hsg : sg ∈ m.subgraphs) (t : Tensor) (ht : t ∈ sg.tensors) :
    ∃ s i, Loc m t.name s sg i := by
  obtain ⟨s, hs⟩ := List.mem_iff_getElem?.1 hsg
  obtain ⟨i, hi⟩ := List.mem_iff_getElem?.1 ht
  exact ⟨s, i, hs, t, hi, rfl⟩

/-- **`_check_buffer_sharing` passes** -/
theorem checkBufferSharing_total {m : Model} {res : List (String × CReq)} (C : Ctx m res) (U : Unshared m) :
    checkBufferSharing m res = .ok () := by
  refine Locality.check_complete m res ?_ ?_
  · intro e he hdata
    have hlen := U.short e he hdata
    refine ⟨?_, ?_⟩
    · intro only hon p hp
      have hmem : (only, p) ∈ res := SharingProofs.dictGet?_mem _ _ _ hp
      obtain ⟨sg, hsg, t, ht, htn, htb⟩ := b2t_sound m e he only (by rw [hon]; exact List.mem_cons_self)
      obtain ⟨s, i, hloc⟩ := loc_of_mem m sg hsg t ht
      rw [htn] at hloc
      obtain ⟨c, hc⟩ := hdata
      have hconst : isConst m sg (i : Int) = true := by
        obtain ⟨_, t', ht', hn'⟩ := hloc
        have : t' = t := by
          have hSg := ((modelOK_iff m).1 C.wf).2.1 sg hsg
          obtain ⟨j, hj⟩ := List.mem_iff_getElem?.1 ht
          have := name_inj sg hSg.names i j t' t ht' hj (hn'.trans htn.symm)
          subst this
          rw [ht'] at hj; cases hj; rfl
        subst this
        exact isConst_of m sg i t' c ht' (by rw [htb]; exact hc)
      exact compatReq_self_const C U (only, p) hmem s sg i hloc hconst
    · intro first rest hfr hne
      exfalso
      rw [hfr] at hlen
      cases rest with
      | nil => exact hne rfl
      | cons a as => simp at hlen
  · intro sg hsg t ht hnot hdata n hn
    exfalso
    obtain ⟨c, hc⟩ := hdata
    cases hg : Py.dictGet? (bufferToTensors m) t.buffer with
    | none => rw [hg] at hn; cases hn
    | some l =>
      rw [hg] at hn
      simp only [Option.getD_some] at hn
      have hmem := SharingProofs.dictGet?_mem _ _ _ hg
      obtain ⟨sg', hsg', t', ht', htn', htb'⟩ := b2t_sound m _ hmem n hn
      have := sole_referent m t.buffer (U.sole t.buffer c hc) sg sg' hsg hsg' t t' ht ht' rfl htb'
      subst this
      exact hnot (List.mem_flatMap.2 ⟨_, hmem, htn' ▸ hn⟩)

/-- **the unread-constant check passes** -/
theorem checkUnreadOwn_total {m : Model} (res : List (String × CReq)) (U : Unshared m) :
    checkUnreadOwn m res = .ok () := by
  refine Locality.own_complete m res ?_
  intro sg _ t _ _ hdata own _
  obtain ⟨c, hc⟩ := hdata
  have := U.sole t.buffer c hc
  have h : decide (1 < (m.subgraphs.flatMap (·.tensors)).countP (fun u => u.buffer == t.buffer)) = false := by
    simp only [decide_eq_false_iff_not]; omega
  rw [h, Bool.false_and]

end MatTotal
