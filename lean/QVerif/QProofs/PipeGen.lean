import QProofs.PipeMat
import QProofs.PipeGenEq
import QProofs.PipeNameMap
/-!
# The result dictionary of `Mat.generate` satisfies `EntryOK`

Assembly: per-operator shape (`PipeMat.materializeOp_reqs`, `PipeOps.noQuantOp_reqs`) + preservation by
`updateResults` (`PipeUpdate`) along the nested `foldlM` (`PipeGenEq.generate_ok`).
-/
open Graph Mat Cfg Pipeline InstGen GenInstsOK GraphStep GraphInv PipeNF

namespace Pipe

/-- hypotheses on the input used by the materialisation stage (= `PipelineWF.NF` without `tagged`) -/
structure GenHyp (env : Env) (st : Recipe.State) : Prop where
  wf : WF.modelOK env.model = true
  noBlockwise : ∀ e ∈ st, ∀ r ∈ e.2, ∀ w, r.cfg.weight = some w → w.gran ≠ Gran.blockwise
  inputsNotConst : ∀ sg ∈ env.model.subgraphs, ∀ t ∈ sg.inputs, isConst env.model sg t = false
  slotRoles : ∀ sg ∈ env.model.subgraphs, ∀ op ∈ sg.ops, ∀ k, OpNamed env.model op k →
    ∀ (i j : Nat) a, op.inputs[i]? = some a → op.inputs[j]? = some a → a ≠ -1 → slotRole k i = slotRole k j
  constWeight : ∀ sg ∈ env.model.subgraphs, ∀ op ∈ sg.ops, ∀ k, OpNamed env.model op k →
    ∀ b a, biasSlot k = some b → op.inputs[1]? = some a → op.inputs[dataSlot k]? = some a → a ≠ -1 →
      isConst env.model sg a = false
  mandatory : ∀ sg ∈ env.model.subgraphs, ∀ op ∈ sg.ops, ∀ k, OpNamed env.model op k →
    ∀ b, biasSlot k = some b → (∀ i < b, op.inputs[i]? ≠ some (-1)) ∧ op.outputs[0]? ≠ some (-1)

/-! ## generic -/

/-- invariant rule for `foldlM` with the position of the element -/
theorem foldlM_inv_idx {α β} (f : β → α → PyM β) : ∀ (l : List α) (P : Nat → β → Prop) (init r : β),
    P 0 init → (∀ (j : Nat) x s s', l[j]? = some x → P j s → f s x = .ok s' → P (j + 1) s') →
    l.foldlM f init = .ok r → P l.length r := by
  intro l
  induction l with
  | nil =>
    intro P init r h0 _ h
    simp only [List.foldlM_nil, pure, Except.pure, Except.ok.injEq] at h
    subst h; exact h0
  | cons a as ih =>
    intro P init r h0 hstep h
    simp only [List.foldlM_cons, bind, Except.bind] at h
    cases hf : f init a with
    | error e => simp [hf] at h
    | ok s' =>
      simp only [hf] at h
      have := ih (fun j s => P (j + 1) s) s' r (hstep 0 a init s' rfl h0 hf)
        (fun j x s s'' hj hP hf' => hstep (j + 1) x s s'' (by simpa using hj) hP hf') h
      simpa using this

theorem resolve_noBlockwise (rx : String → String → Bool) (st : Recipe.State) (k scope : String)
    (h : ∀ e ∈ st, ∀ r ∈ e.2, ∀ w, r.cfg.weight = some w → w.gran ≠ Gran.blockwise) :
    NoBlockwise (Recipe.resolve rx st k scope).2 := by
  unfold Recipe.resolve
  refine GenInstsInfo.foldl_inv _ (fun acc : String × OpCfg => NoBlockwise acc.2) _ _ ?_ ?_
  · intro e he acc hacc
    split
    · refine GenInstsInfo.foldl_inv _ (fun acc : String × OpCfg => NoBlockwise acc.2) _ _ ?_ hacc
      intro r hr acc' hacc'
      split
      · exact hacc'
      · split
        · exact hacc'
        · exact h e he r hr
    · exact hacc
  · intro w hw
    cases hw

/-! ## one operator -/

theorem opHyp_pseudo (m : Model) (sg : Subgraph) (op : Op) (k : String) (h1 : indexSlots k = [])
    (h2 : biasSlot k = none) : OpHyp m sg op k := by
  refine ⟨?_, ?_, ?_⟩
  · intro i j a _ _ _
    unfold slotRole
    rw [h1, h2]
    simp
  · intro b a hb; rw [h2] at hb; cases hb
  · intro b hb; rw [h2] at hb; cases hb

/-- the requests of one entry of the operator list have the closed shape -/
theorem opReqs_core (rx : String → String → Bool) (env : Env) (st : Recipe.State) (hg : GenHyp env st)
    (sIdx : Nat) (sg : Subgraph) (qs : Qsvs) (q : Op × Option String × Int) (rs : List CReq) (qs' : Qsvs)
    (hnames : (sg.tensors.map (·.name)).Nodup)
    (hin : SlotsValid sg q.1.inputs) (hout : SlotsValid sg q.1.outputs)
    (houtNC : ∀ a ∈ q.1.outputs, a ≠ -1 → isConst env.model sg a = false)
    (hop : ∀ k, keyOf env q = .ok (some k) → OpHyp env.model sg q.1 k)
    (h : opReqs rx env st sIdx sg qs q = .ok (rs, qs')) : OpReqs env.model sg q.1 q.2.2 rs := by
  unfold opReqs at h
  split at h
  · cases h
  · split at h
    · cases h
    · rename_i r hr
      cases h
      exact noQuantOp_reqs _ sg _ _ _ hin hout hr
  · rename_i k hk
    split at h
    · cases h
    · rename_i scope _
      split at h
      · split at h
        · cases h
        · rename_i r hr
          cases h
          exact noQuantOp_reqs _ sg _ _ _ hin hout hr
      · split at h
        · cases h
        · rename_i ops hops
          split at h
          · cases h
          · rename_i fn hfn
            exact materializeOp_reqs env sg qs _ _ fn rs qs' ops hops hfn hnames hin hout
              (resolve_noBlockwise rx st k scope hg.noBlockwise) houtNC (hop k hk) h

/-! ## the dictionary invariant along the loops -/

/-- bookkeeping predicate: consumer entry `c` of name `n` comes from a subgraph before `sIdx`, or
    from subgraph `sIdx` and an operator id in `D` -/
def WkAt (m : Model) (sIdx : Nat) (D : Int → Prop) (n : String) (c : CO2T) : Prop :=
  ∀ s sg i, Loc m n s sg i → s < sIdx ∨ (s = sIdx ∧ D c.opId)

/-- `updateResults_inv` with the sharper bookkeeping predicate -/
theorem updateResults_inv' (m : Model) (hnu : namesUnique m) (s : Nat) (sg : Subgraph)
    (hsg : m.subgraphs[s]? = some sg) (op : Op) (opId : Int) (rs : List CReq)
    (hrs : OpReqs m sg op opId rs)
    (hcons : ∀ i : Nat, (i : Int) ∈ op.inputs → ConsumedAt sg i opId)
    (hprod : ∀ i : Nat, (i : Int) ∈ op.outputs → ProducedAt sg i opId)
    (Wk : String → CO2T → Prop)
    (hfresh : ∀ r ∈ rs, ∀ c, Wk r.name c → c.opId ≠ opId)
    (res res' : List (String × CReq)) (hres : ∀ e ∈ res, EntryOK m Wk e.1 e.2)
    (h : updateResults res rs = .ok res') :
    ∀ e ∈ res', EntryOK m (WkIn Wk rs) e.1 e.2 := by
  rw [updateResults_eq] at h
  refine GraphFrame.foldlM_inv stepF (fun d => ∀ e ∈ d, EntryOK m (WkIn Wk rs) e.1 e.2)
    rs res res' ?_ ?_ h
  · intro e he
    exact (hres e he).mono (fun c hc => Or.inl hc)
  · intro r hr d d' hd hstep
    exact stepF_inv m hnu s sg hsg op opId rs hrs hcons hprod Wk hfresh r hr d d' hd hstep

theorem opStep_ok (rx : String → String → Bool) (env : Env) (st : Recipe.State) (sIdx : Nat) (sg : Subgraph)
    (s s' : GState) (q : Op × Option String × Int) (h : opStep rx env st sIdx sg s q = .ok s') :
    ∃ rs, opReqs rx env st sIdx sg s.1 q = .ok (rs, s'.1) ∧ updateResults s.2 rs = .ok s'.2 := by
  unfold opStep at h
  split at h
  · cases h
  · rename_i rs qs' hr
    split at h
    · cases h
    · rename_i res' hu
      cases h
      exact ⟨rs, hr, hu⟩

/-- one step of the operator loop -/
theorem step_gen (rx : String → String → Bool) (env : Env) (st : Recipe.State)
    (hnu : namesUnique env.model) (sIdx : Nat) (sg : Subgraph) (hsg : env.model.subgraphs[sIdx]? = some sg)
    (q : Op × Option String × Int) (D D' : Int → Prop)
    (hreqs : ∀ qs rs qs', opReqs rx env st sIdx sg qs q = .ok (rs, qs') → OpReqs env.model sg q.1 q.2.2 rs)
    (hcons : ∀ i : Nat, (i : Int) ∈ q.1.inputs → ConsumedAt sg i q.2.2)
    (hprod : ∀ i : Nat, (i : Int) ∈ q.1.outputs → ProducedAt sg i q.2.2)
    (hfr : ¬ D q.2.2) (hDD' : ∀ o, D o → D' o) (hnew : ∀ i : Nat, (i : Int) ∈ q.1.inputs → D' q.2.2)
    (s s' : GState) (hInv : ∀ e ∈ s.2, EntryOK env.model (WkAt env.model sIdx D) e.1 e.2)
    (h : opStep rx env st sIdx sg s q = .ok s') :
    ∀ e ∈ s'.2, EntryOK env.model (WkAt env.model sIdx D') e.1 e.2 := by
  obtain ⟨rs, hr, hu⟩ := opStep_ok rx env st sIdx sg s s' q h
  have hR := hreqs _ _ _ hr
  have hlocOf : ∀ r ∈ rs, ∃ i, Loc env.model r.name sIdx sg i := by
    intro r hr
    obtain ⟨i, t, ht, hn, _⟩ := hR.each r hr
    exact ⟨i, hsg, t, ht, hn.symm⟩
  have hfresh : ∀ r ∈ rs, ∀ c, WkAt env.model sIdx D r.name c → c.opId ≠ q.2.2 := by
    intro r hr c hW heq
    obtain ⟨i, hloc⟩ := hlocOf r hr
    rcases hW sIdx sg i hloc with h | ⟨_, h⟩
    · omega
    · exact hfr (heq ▸ h)
  have := updateResults_inv' env.model hnu sIdx sg hsg q.1 q.2.2 rs hR hcons hprod _ hfresh s.2 s'.2 hInv hu
  intro e he
  refine (this e he).mono ?_
  rintro c (hW | ⟨r0, hr0, hn0, hc0⟩)
  · intro s1 sg1 i1 hloc
    rcases hW s1 sg1 i1 hloc with h | ⟨h1, h2⟩
    · exact .inl h
    · exact .inr ⟨h1, hDD' _ h2⟩
  · intro s1 sg1 i1 hloc
    obtain ⟨i, t, ht, hname, hform⟩ := hR.each r0 hr0
    have hloc0 : Loc env.model e.1 sIdx sg i := ⟨hsg, t, ht, hname.symm.trans hn0⟩
    obtain ⟨hs, _, _⟩ := loc_unique env.model hnu e.1 s1 sIdx sg1 sg i1 i hloc hloc0
    rcases hform with ⟨_, c', hc', hcid, him, _⟩ | ⟨hcn, _⟩
    · rw [hc0] at hc'
      simp only [Option.some.injEq, List.cons.injEq, and_true] at hc'
      subst hc'
      exact .inr ⟨hs, hcid ▸ hnew i him⟩
    · rw [hc0] at hcn; cases hcn

theorem keyOf_real (env : Env) (op : Op) (j : Int) (k : String)
    (h : keyOf env (op, none, j) = .ok (some k)) : OpNamed env.model op k := by
  unfold keyOf at h
  simp only [] at h
  split at h
  · cases h
  · rename_i code hc
    simp only [pure, Except.pure, Except.ok.injEq] at h
    exact ⟨code, hc, h⟩

/-- one subgraph -/
theorem sgStep_inv (rx : String → String → Bool) (env : Env) (st : Recipe.State) (hg : GenHyp env st)
    (hnu : namesUnique env.model) (sIdx : Nat) (sg : Subgraph) (hsg : env.model.subgraphs[sIdx]? = some sg)
    (s s' : GState) (hInv : ∀ e ∈ s.2, EntryOK env.model (WkAt env.model sIdx (fun _ => False)) e.1 e.2)
    (h : sgStep rx env st s (sg, sIdx) = .ok s') :
    ∀ e ∈ s'.2, EntryOK env.model (WkAt env.model (sIdx + 1) (fun _ => False)) e.1 e.2 := by
  have hmem : sg ∈ env.model.subgraphs := List.mem_of_getElem? hsg
  have hSg : SgOK env.model sg := ((modelOK_iff _).1 hg.wf).2.1 sg hmem
  unfold sgStep allOps at h
  rw [List.foldlM_append] at h
  obtain ⟨s1, h1, h⟩ := bind_ok _ _ _ h
  simp only [List.foldlM_cons, List.foldlM_nil] at h
  obtain ⟨s2, h2, h⟩ := bind_ok _ _ _ h
  obtain ⟨s3, h3, h⟩ := bind_ok _ _ _ h
  simp only [pure, Except.pure, Except.ok.injEq] at h
  subst h
  -- the real operators
  have P1 : ∀ e ∈ s1.2, EntryOK env.model
      (WkAt env.model sIdx (fun o => 0 ≤ o ∧ o < (sg.ops.length : Int))) e.1 e.2 := by
    have := foldlM_inv_idx (opStep rx env st sIdx sg) _
      (fun (j : Nat) (x : GState) => ∀ e ∈ x.2, EntryOK env.model
        (WkAt env.model sIdx (fun o => 0 ≤ o ∧ o < (j : Int))) e.1 e.2) s s1 ?_ ?_ h1
    · simpa using this
    · intro e he
      refine (hInv e he).mono ?_
      intro c hW s0 sg0 i0 hloc
      rcases hW s0 sg0 i0 hloc with h | ⟨_, h⟩
      · exact .inl h
      · exact absurd h id
    · intro j x t t' hx hP hstep
      rw [List.getElem?_map, List.getElem?_zipIdx] at hx
      cases hop : sg.ops[j]? with
      | none => rw [hop] at hx; cases hx
      | some op =>
        rw [hop] at hx
        simp only [Option.map_some, Nat.zero_add, Option.some.injEq] at hx
        subst hx
        have hO := hSg.ops j op hop
        have hopm : op ∈ sg.ops := List.mem_of_getElem? hop
        refine step_gen rx env st hnu sIdx sg hsg (op, none, (j : Int)) _ _ ?_ ?_ ?_ ?_ ?_ ?_ t t' hP hstep
        · intro qs rs qs' hr
          refine opReqs_core rx env st hg sIdx sg qs _ rs qs' hSg.names ?_ ?_ ?_ ?_ hr
          · intro a ha
            rcases hO.ins a ha with h | h
            · exact .inl h
            · exact .inr h.1
          · intro a ha
            rcases hO.outs a ha with h | h
            · exact .inl h
            · exact .inr h.1
          · intro a ha hne
            rcases hO.outs a ha with h | h
            · exact absurd h hne
            · exact h.2.2.1
          · intro k hk
            have hn := keyOf_real env op _ k hk
            exact ⟨hg.slotRoles sg hmem op hopm k hn, hg.constWeight sg hmem op hopm k hn,
              hg.mandatory sg hmem op hopm k hn⟩
        · intro i hi
          exact .inl ⟨by simp, op, by simpa using hop, hi⟩
        · intro i hi
          exact .inl ⟨by simp, op, by simpa using hop, hi⟩
        · simp
        · intro o ho
          obtain ⟨ho1, ho2⟩ := ho
          constructor <;> omega
        · intro _ _
          show (0 : Int) ≤ (j : Int) ∧ (j : Int) < ((j + 1 : Nat) : Int)
          constructor <;> omega
  -- INPUT
  have P2 : ∀ e ∈ s2.2, EntryOK env.model
      (WkAt env.model sIdx (fun o => 0 ≤ o ∧ o < (sg.ops.length : Int))) e.1 e.2 := by
    refine step_gen rx env st hnu sIdx sg hsg _ _ _ ?_ ?_ ?_ ?_ (fun _ h => h) ?_ s1 s2 P1 h2
    · intro qs rs qs' hr
      refine opReqs_core rx env st hg sIdx sg qs _ rs qs' hSg.names ?_ ?_ ?_ ?_ hr
      · intro a ha; cases ha
      · intro a ha; exact .inr (hSg.ins a ha)
      · intro a ha _; exact hg.inputsNotConst sg hmem a ha
      · intro k hk
        simp only [keyOf, pure, Except.pure, Except.ok.injEq, Option.some.injEq] at hk
        subst hk
        exact opHyp_pseudo _ _ _ _ (by decide) (by decide)
    · intro i hi; cases hi
    · intro i hi; exact .inr ⟨rfl, hi⟩
    · simp
    · intro i hi; cases hi
  -- OUTPUT
  have P3 : ∀ e ∈ s3.2, EntryOK env.model (WkAt env.model sIdx (fun _ => True)) e.1 e.2 := by
    refine step_gen rx env st hnu sIdx sg hsg _ _ _ ?_ ?_ ?_ ?_ (fun _ _ => trivial) (fun _ _ => trivial)
      s2 s3 P2 h3
    · intro qs rs qs' hr
      refine opReqs_core rx env st hg sIdx sg qs _ rs qs' hSg.names ?_ ?_ ?_ ?_ hr
      · intro a ha; exact .inr (hSg.outs a ha)
      · intro a ha; cases ha
      · intro a ha; cases ha
      · intro k hk
        simp only [keyOf, pure, Except.pure, Except.ok.injEq, Option.some.injEq] at hk
        subst hk
        exact opHyp_pseudo _ _ _ _ (by decide) (by decide)
    · intro i hi; exact .inr ⟨rfl, hi⟩
    · intro i hi; cases hi
    · simp
  intro e he
  refine (P3 e he).mono ?_
  intro c hW s0 sg0 i0 hloc
  rcases hW s0 sg0 i0 hloc with h | ⟨h, _⟩
  · exact .inl (by omega)
  · exact .inl (by omega)

/-- **every request returned by a successful `generate` satisfies the dictionary-entry invariant** -/
theorem generate_entryOK (rx : String → String → Bool) (env : Env) (st : Recipe.State) (qsvs : Option Qsvs)
    (reqs : List CReq) (hg : GenHyp env st) (h : Mat.generate rx env st qsvs = .ok reqs) :
    namesUnique env.model ∧ ∀ r ∈ reqs, EntryOK env.model (fun _ _ => True) r.name r := by
  obtain ⟨hnu, qs, res, hfold, rfl⟩ := generate_ok rx env st qsvs reqs h
  refine ⟨hnu, ?_⟩
  have := foldlM_inv_idx (sgStep rx env st) _
    (fun (j : Nat) (x : GState) => ∀ e ∈ x.2, EntryOK env.model (WkAt env.model j (fun _ => False)) e.1 e.2)
    (qsvs.getD [], []) (qs, res) (by intro e he; cases he) ?_ hfold
  · intro r hr
    obtain ⟨e, he, rfl⟩ := List.mem_map.1 hr
    have hE := this e he
    rw [hE.name]
    exact hE.mono (fun _ _ => trivial)
  · intro j p s s' hp hP hstep
    rw [List.getElem?_zipIdx] at hp
    cases hsg : env.model.subgraphs[j]? with
    | none => rw [hsg] at hp; cases hp
    | some sg =>
      rw [hsg] at hp
      simp only [Option.map_some, Nat.zero_add, Option.some.injEq] at hp
      subst hp
      exact sgStep_inv rx env st hg hnu j sg hsg s s' hP hstep

end Pipe
