import QProofs.TypingGraph
import QProofs.TypingReq
import QProofs.TypingShape
import QProofs.TypingSrq
/-!
# C03 end to end: composition of the request stage, instruction generation and the graph stage
-/
open Graph Mat Cfg Pipeline InstGen GenInstsOK GenInstsInfo Pipe SharingGen SharingData Perform

namespace TypingE2E

/-! ## what a successful run consists of -/

/-- `SharingData.generate_res` with the materialisation fold exposed -/
theorem generate_res_fold (rx : String → String → Bool) (env : Env) (st : Recipe.State) (qsvs : Option Qsvs)
    (reqs : List CReq) (hg : GenHyp env st) (h : Mat.generate rx env st qsvs = .ok reqs) :
    ∃ qs res, env.model.subgraphs.zipIdx.foldlM (sgStep rx env st) (qsvs.getD [], []) = .ok (qs, res) ∧
      reqs = res.map (·.2) ∧ checkBufferSharing env.model res = .ok () ∧
      checkUnreadOwn env.model res = .ok () ∧ Ctx env.model res ∧ ResCD res := by
  obtain ⟨qs, res, hfold, hchk, hown, hreqs⟩ := generate_ok_check rx env st qsvs reqs h
  obtain ⟨hnu, hE⟩ := generate_entryOK rx env st qsvs reqs hg h
  have hinv : ResCD res ∧ KeysND res :=
    GraphFrame.foldlM_inv (sgStep rx env st) (fun x : GState => ResCD x.2 ∧ KeysND x.2) _
      (qsvs.getD [], []) (qs, res) ⟨(by intro e he; cases he), List.nodup_nil⟩
      (fun p _ x x' hx hstep => SharingData.sgStep_inv rx env st x x' p hx hstep) hfold
  refine ⟨qs, res, hfold, hreqs, hchk, hown, ⟨hg.wf, hnu, hg.inputsNotConst, ?_, hinv.2⟩, hinv.1⟩
  have hfoldE := foldlM_inv_idx (sgStep rx env st) _
    (fun (j : Nat) (x : GState) => ∀ e ∈ x.2, EntryOK env.model (WkAt env.model j (fun _ => False)) e.1 e.2)
    (qsvs.getD [], []) (qs, res) (by intro e he; cases he) ?_ hfold
  · intro e he
    exact (hfoldE e he).mono (fun _ _ => trivial)
  · intro j p s s' hp hP hstep
    rw [List.getElem?_zipIdx] at hp
    cases hsg : env.model.subgraphs[j]? with
    | none => rw [hsg] at hp; cases hp
    | some sg =>
      rw [hsg] at hp
      simp only [Option.map_some, Nat.zero_add, Option.some.injEq] at hp
      subst hp
      exact Pipe.sgStep_inv rx env st hg hnu j sg hsg s s' hP hstep

/-- everything a successful `quantizePure` run consists of -/
structure Stages (rx : String → String → Bool) (env : Env) (st : Recipe.State) (qsvs : Option Qsvs)
    (m' : Model) (tbl : List Param) (res : List (String × CReq)) (tis : List TInsts) : Prop where
  fold : ∃ qs, env.model.subgraphs.zipIdx.foldlM (sgStep rx env st) (qsvs.getD [], []) = .ok (qs, res)
  ctx : Ctx env.model res
  tbl_eq : tbl = tblOf res
  gen : genInsts env.model (areqsOf res) = .ok tis
  run : transformGraph (ptableOf tbl) env.model tis = .ok m'
  ok : ∀ ti ∈ tis, GraphInv.TInstsOK (ptableOf tbl) env.model ti
  cd : SharingE2E.ConstData (ptableOf tbl) env.model tis
  sa : SharingE2E.SharersAgree env.model tis
  typ : TypingShape.DSides (TypingShape.PTyp env) (TypingShape.CTyp env) res
  noq : ∀ sg ∈ env.model.subgraphs, ∀ t ∈ sg.tensors, t.quant = none

theorem stages (rx : String → String → Bool) (env : Env) (st : Recipe.State) (qsvs : Option Qsvs)
    (m' : Model) (tbl : List Param) (hnf : PipelineWF.NF env st)
    (h : quantizePure rx env st qsvs = .ok (m', tbl)) :
    ∃ res tis, Stages rx env st qsvs m' tbl res tis := by
  obtain ⟨reqs, hgen, htbl, hmod⟩ := PipelineWF.quantizePure_ok rx env st qsvs m' tbl h
  obtain ⟨qs, res, hfold, hreqs, hchk, hown, C, hcd⟩ := generate_res_fold rx env st qsvs reqs hnf.genHyp hgen
  subst hreqs
  unfold Perform.modify at hmod
  obtain ⟨tis, htis, htg⟩ := GraphInv.bind_ok _ _ _ hmod
  subst htbl
  exact ⟨res, tis, ⟨qs, hfold⟩, C, rfl, htis, htg, tinstsOK_of_ctx C tis htis,
    constData_of_cd C hcd tis htis, sharersAgree_of_check C hchk hown tis htis,
    TypingShape.generate_typ rx env st _ qs res hfold, Locality.generate_noQuant rx env st qsvs _ hgen⟩

/-! ## the abstraction of a request is unique -/

theorem AbsO_unique {tbl : List Param} {c : CO2T} {a a' : O2T} (h : AbsO tbl c a) (h' : AbsO tbl c a') :
    a = a' := by
  obtain ⟨h1, h2, h3⟩ := h
  obtain ⟨h1', h2', h3'⟩ := h'
  obtain ⟨i, x, p⟩ := a
  obtain ⟨i', x', p'⟩ := a'
  simp only at h1 h2 h3 h1' h2' h3'
  subst h1 h2 h1' h2'
  congr 1
  cases hc : c.param <;> cases p <;> cases p' <;> simp only [hc] at h3 h3' <;> try rfl
  rw [h3] at h3'
  exact h3'

theorem AbsR_unique {tbl : List Param} {r : CReq} {a a' : TReq} (h : AbsR tbl r a) (h' : AbsR tbl r a') :
    a = a' := by
  obtain ⟨h1, h2, h3⟩ := h
  obtain ⟨h1', h2', h3'⟩ := h'
  obtain ⟨n, p, c⟩ := a
  obtain ⟨n', p', c'⟩ := a'
  simp only at h1 h2 h3 h1' h2' h3'
  subst h1 h1'
  have hp : p = p' := by
    cases hr : r.producer <;> cases p <;> cases p' <;> simp only [hr] at h2 h2' <;> try rfl
    rw [AbsO_unique h2 h2']
  have hc : c = c' := by
    cases hr : r.consumers <;> cases c <;> cases c' <;> simp only [hr] at h3 h3' <;> try rfl
    rename_i cs os os'
    congr 1
    apply List.ext_getElem?
    intro j
    cases ho : os[j]? with
    | none =>
      have : os.length ≤ j := List.getElem?_eq_none_iff.1 ho
      rw [eq_comm, List.getElem?_eq_none_iff, ← h3'.1, h3.1]; exact this
    | some o =>
      have hj : j < os.length := (List.getElem?_eq_some_iff.1 ho).1
      have hjc : j < cs.length := by rw [h3.1]; exact hj
      have hj' : j < os'.length := by rw [← h3'.1]; exact hjc
      have e1 := h3.2 j _ _ (List.getElem?_eq_getElem hjc) ho
      have e2 := h3'.2 j _ _ (List.getElem?_eq_getElem hjc) (List.getElem?_eq_getElem hj')
      rw [List.getElem?_eq_getElem hj', AbsO_unique e1 e2]
  rw [hp, hc]

/-! ## the instruction list of one tensor -/

/-- the instructions generated for the tensor named by entry `e` -/
theorem tensor_entry {m : Model} {res : List (String × CReq)} (C : Ctx m res) (tis : List TInsts)
    (hgen : genInsts m (areqsOf res) = .ok tis) (e : String × CReq) (he : e ∈ res)
    (s : Nat) (sg : Subgraph) (i : Nat) (hloc : Loc m e.1 s sg i) :
    ∃ a, AbsR (tblOf res) e.2 a ∧ ReqOK (ptableOf (tblOf res)) m a ∧
      instsValid (instsOf (tensorInfo s sg i) a) = true ∧
      (⟨a.name, s, instsOf (tensorInfo s sg i) a⟩ : TInsts) ∈ tis ∧
      ∀ ti ∈ tis, ti.sg = s → ∀ ins ∈ ti.insts, ins.tensor = (i : Int) →
        ins ∈ instsOf (tensorInfo s sg i) a := by
  have hr : e.2 ∈ res.map (·.2) := List.mem_map.2 ⟨e, he, rfl⟩
  obtain ⟨a, ha, hA⟩ := Pointwise.mem_left (absReqs_spec (res.map (·.2))) hr
  obtain ⟨ti, hti, hta⟩ := Wiring.mapM_ok' _ _ _ hgen a ha
  have hE := C.entries e he
  have hget : Py.dictGet? (nameMap m) a.name = some (tensorInfo s sg i) := by
    rw [hA.1, hE.name]; exact nameMap_loc m C.nu _ _ _ _ hloc
  have hE' : EntryOK m (fun _ _ => True) e.2.name e.2 := by rw [hE.name]; exact hE
  have hreq := reqOK_of_abs m C.wf C.nu C.inp _ e.2 a hE' hA
  rw [tensorInsts_eq] at hta
  simp only [hget] at hta
  split at hta
  swap
  · cases hta
  rename_i hvalid
  cases hta
  refine ⟨a, hA, hreq, hvalid, hti, ?_⟩
  intro ti' hti' hs' ins hins hten
  obtain ⟨e', he', a', ha', hA', hreq', s', sg', i', hloc', hget', rfl⟩ := entry_of_ti C tis hgen ti' hti'
  simp only at hs' hins
  subst hs'
  have hsg' : m.subgraphs[s']? = some sg' := hloc'.1
  rw [hloc.1] at hsg'; cases hsg'
  obtain ⟨hcore, -⟩ := instsOf_ok _ m s' sg i' a' hloc.1 hget' hreq'
  have h1 := (hcore ins hins).tensor
  have hi : i' = i := by
    have : (tensorInfo s' sg i').tensorId = i' := rfl
    rw [this, hten] at h1; omega
  subst hi
  -- same tensor, hence same key, hence same entry
  obtain ⟨-, t, ht, hn⟩ := hloc
  obtain ⟨-, t', ht', hn'⟩ := hloc'
  rw [ht] at ht'; cases ht'
  have hkey : e'.1 = e.1 := hn'.symm.trans hn
  have hee : e' = e := by
    have h1 := SharingProofs.mem_dictGet? res e'.1 e'.2 C.keys he'
    have h2 := SharingProofs.mem_dictGet? res e.1 e.2 C.keys he
    rw [hkey, h2] at h1
    exact Prod.ext hkey (Option.some.inj h1).symm
  subst hee
  rw [AbsR_unique hA' hA] at hins
  exact hins

/-- a tensor without entry in the dictionary has no instruction -/
theorem tensor_noEntry {m : Model} {res : List (String × CReq)} (C : Ctx m res) (tis : List TInsts)
    (hgen : genInsts m (areqsOf res) = .ok tis) (s : Nat) (sg : Subgraph) (i : Nat) (tn : Tensor)
    (hsg : m.subgraphs[s]? = some sg) (htn : sg.tensors[i]? = some tn)
    (hno : Py.dictGet? res tn.name = none) :
    ∀ ti ∈ tis, ti.sg = s → ∀ ins ∈ ti.insts, ins.tensor ≠ (i : Int) := by
  intro ti' hti' hs' ins hins hten
  obtain ⟨e', he', a', ha', hA', hreq', s', sg', i', hloc', hget', rfl⟩ := entry_of_ti C tis hgen ti' hti'
  simp only at hs' hins
  subst hs'
  have hsg' : m.subgraphs[s']? = some sg' := hloc'.1
  rw [hsg] at hsg'; cases hsg'
  obtain ⟨hcore, -⟩ := instsOf_ok _ m s' sg i' a' hsg hget' hreq'
  have h1 := (hcore ins hins).tensor
  have hi : i' = i := by
    have : (tensorInfo s' sg i').tensorId = i' := rfl
    rw [this, hten] at h1; omega
  subst hi
  obtain ⟨-, t', ht', hn'⟩ := hloc'
  rw [htn] at ht'; cases ht'
  have := SharingProofs.mem_dictGet? res e'.1 e'.2 C.keys he'
  rw [← hn', hno] at this
  cases this

/-! ## operators the recipe leaves unquantized -/

/-- the recipe leaves operator `op` of subgraph `sg` unquantized: its builtin code is not one of the
    quantizer's operators, or the recipe resolves its name and scope to `no_quantize` (unmatched scope,
    explicit rule, or only rules whose config the operator does not support) -/
def ResolvesNoQuant (rx : String → String → Bool) (env : Env) (st : Recipe.State) (sg : Subgraph) (op : Op) : Prop :=
  ∃ code, env.model.opcodes[op.code]? = some code ∧
    (opNameOfCode code = none ∨
     ∃ k scope, opNameOfCode code = some k ∧ opScope sg op = .ok scope ∧
       (Recipe.resolve rx st k scope).1 = Tables.algNoQuantize)

theorem opReqs_noquant (rx : String → String → Bool) (env : Env) (st : Recipe.State) (s : Nat) (sg : Subgraph)
    (op : Op) (k : Int) (hnq : ResolvesNoQuant rx env st sg op) (qs0 qs1 : Qsvs) (rs : List CReq)
    (h : opReqs rx env st s sg qs0 (op, none, k) = .ok (rs, qs1)) : noQuantOp sg op k = .ok rs := by
  obtain ⟨code, hcode, hcase⟩ := hnq
  unfold opReqs keyOf at h
  simp only [hcode, pure, Except.pure] at h
  rcases hcase with hn | ⟨nm, scope, hn, hsc, hres⟩
  · simp only [hn] at h
    cases hq : noQuantOp sg op k with
    | error e => rw [hq] at h; cases h
    | ok r => rw [hq] at h; cases h; rfl
  · simp only [hn, hsc, hres, beq_self_eq_true, if_true] at h
    cases hq : noQuantOp sg op k with
    | error e => rw [hq] at h; cases h
    | ok r => rw [hq] at h; cases h; rfl

theorem mem_allOps_real (sg : Subgraph) (k : Nat) (op : Op) (h : sg.ops[k]? = some op) :
    (op, (none : Option String), (k : Int)) ∈ allOps sg := by
  unfold allOps
  exact List.mem_append_left _ (List.mem_map.2 ⟨(op, k), List.mem_zipIdx_iff_getElem?.2 h, rfl⟩)

/-- the requests of an unquantized operator in the final dictionary: a `[NO_QUANTIZE]` consumer side
    with its id for every operand, the `[NO_QUANTIZE]` producer side for every result -/
theorem noquant_requests {rx : String → String → Bool} {env : Env} {st : Recipe.State} {qsvs : Option Qsvs}
    {m' : Model} {tbl : List Param} {res : List (String × CReq)} {tis : List TInsts}
    (S : Stages rx env st qsvs m' tbl res tis) (s : Nat) (sg : Subgraph)
    (hsg : env.model.subgraphs[s]? = some sg) (k : Nat) (op : Op) (hop : sg.ops[k]? = some op)
    (hnq : ResolvesNoQuant rx env st sg op) :
    (∀ t ∈ op.inputs, t ≠ -1 → ∃ tn e cs, 0 ≤ t ∧ sg.tensors[t.toNat]? = some tn ∧ (tn.name, e) ∈ res ∧
      e.consumers = some cs ∧ (⟨(k : Int), [.noQuant], none⟩ : CO2T) ∈ cs) ∧
    (∀ t ∈ op.outputs, t ≠ -1 → ∃ tn e, 0 ≤ t ∧ sg.tensors[t.toNat]? = some tn ∧ (tn.name, e) ∈ res ∧
      e.producer = some ⟨(k : Int), [.noQuant], none⟩) := by
  obtain ⟨qs, hfold⟩ := S.fold
  obtain ⟨qs0, rs, qs1, hreq, hhas⟩ := TypingReq.generate_has rx env st _ qs res hfold s sg hsg _
    (mem_allOps_real sg k op hop)
  have hnqo := opReqs_noquant rx env st s sg op k hnq qs0 qs1 rs hreq
  obtain ⟨hin, hout⟩ := TypingReq.noQuantOp_mem sg op k rs hnqo
  have hsgOK : GraphStep.SgOK env.model sg :=
    ((GraphStep.modelOK_iff env.model).1 S.ctx.wf).2.1 sg (List.mem_of_getElem? hsg)
  have hopOK := hsgOK.ops k op hop
  refine ⟨?_, ?_⟩
  · intro t ht hne
    obtain ⟨tn, htn, hr⟩ := hin t ht hne
    have h0 : 0 ≤ t := by
      rcases hopOK.ins t ht with h | h
      · exact absurd h hne
      · exact h.1.1
    obtain ⟨e, he, -, hc⟩ := hhas _ hr
    have hname : (noQuantReq tn.name (k : Int) true).name = tn.name := rfl
    rw [hname] at he
    obtain ⟨ecs, hecs, hsub⟩ := hc _ rfl
    exact ⟨tn, e, ecs, h0, tensorAt_get sg t tn h0 htn, dictGet?_mem_key _ _ _ he, hecs,
      hsub _ List.mem_cons_self⟩
  · intro t ht hne
    obtain ⟨tn, htn, hr⟩ := hout t ht hne
    have h0 : 0 ≤ t := by
      rcases hopOK.outs t ht with h | h
      · exact absurd h hne
      · exact h.1.1
    obtain ⟨e, he, hp, -⟩ := hhas _ hr
    have hname : (noQuantReq tn.name (k : Int) false).name = tn.name := rfl
    rw [hname] at he
    exact ⟨tn, e, h0, tensorAt_get sg t tn h0 htn, dictGet?_mem_key _ _ _ he, hp _ rfl⟩

/-! ## reading the abstraction of an entry -/

theorem abs_consumer {tbl : List Param} {r : CReq} {a : TReq} (hA : AbsR tbl r a) {cs : List CO2T}
    (hcs : r.consumers = some cs) {c : CO2T} (hc : c ∈ cs) :
    ∃ os o, a.consumers = some os ∧ o ∈ os ∧ AbsO tbl c o := by
  obtain ⟨_, _, h3⟩ := hA
  rw [hcs] at h3
  cases hao : a.consumers with
  | none => rw [hao] at h3; exact h3.elim
  | some os =>
    rw [hao] at h3
    obtain ⟨o, ho, hR⟩ := Pointwise.mem_left h3 hc
    exact ⟨os, o, rfl, ho, hR⟩

theorem abs_producer_some {tbl : List Param} {r : CReq} {a : TReq} (hA : AbsR tbl r a) {p : CO2T}
    (hp : r.producer = some p) : ∃ o, a.producer = some o ∧ AbsO tbl p o := by
  obtain ⟨_, h2, _⟩ := hA
  rw [hp] at h2
  cases hao : a.producer with
  | none => rw [hao] at h2; exact h2.elim
  | some o => rw [hao] at h2; exact ⟨o, rfl, h2⟩

theorem abs_producer_none {tbl : List Param} {r : CReq} {a : TReq} (hA : AbsR tbl r a)
    (hp : r.producer = none) : a.producer = none := by
  obtain ⟨_, h2, _⟩ := hA
  rw [hp] at h2
  cases hao : a.producer with
  | none => rfl
  | some o => rw [hao] at h2; exact h2.elim

/-! ## a `[NO_QUANTIZE]` consumer side -/

/-- the instructions that concern a `[NO_QUANTIZE]` consumer `k` of tensor `i`: if the tensor is not
    produced quantized, no op-adding instruction lists `k` and the tensor has no retyping instruction;
    if it is, an ADD_DEQUANTIZE instruction lists `k` and every op-adding instruction listing `k` is one -/
theorem noQuant_consumer_insts {m : Model} {res : List (String × CReq)} (C : Ctx m res) (tis : List TInsts)
    (hgen : genInsts m (areqsOf res) = .ok tis)
    (s : Nat) (sg : Subgraph) (hsg : m.subgraphs[s]? = some sg)
    (i : Nat) (tn : Tensor) (htn : sg.tensors[i]? = some tn) (e : CReq) (he : (tn.name, e) ∈ res)
    (cs : List CO2T) (hcs : e.consumers = some cs) (k : Nat)
    (c : CO2T) (hc : c ∈ cs) (hck : c.opId = (k : Int)) (hcx : c.xfs = [.noQuant]) :
    ((e.producer = none ∨ ∃ p, e.producer = some p ∧ p.xfs = [.noQuant]) ∧
      ¬ TypingGraph.Wires tis s (i : Int) k ∧ ∀ p, ¬ SharingE2E.Retyped tis s i p) ∨
    ((∃ p, e.producer = some p ∧ p.xfs = [.addDequant]) ∧ TypingGraph.Wires tis s (i : Int) k ∧
      ∀ ti ∈ tis, ti.sg = s → ∀ ins ∈ ti.insts, ins.tensor = (i : Int) → Wiring.addsOp ins.xf = true →
        (k : Int) ∈ ins.consumers → ins.xf = .addDequant) := by
  have hloc : Loc m tn.name s sg i := ⟨hsg, tn, htn, rfl⟩
  obtain ⟨a, hA, hreq, hvalid, hti, hall⟩ := tensor_entry C tis hgen (tn.name, e) he s sg i hloc
  obtain ⟨os, o, hos, ho, hAO⟩ := abs_consumer hA hcs hc
  have hoid : o.opId = (k : Int) := hAO.1.trans hck
  have hox : o.xfs = [.noQuant] := by rw [hAO.2.1]; exact hcx
  have hshape := hreq.consShape
  have hsame := hreq.consSameOp
  have hprodCases : (e.producer = none ∨ ∃ p, e.producer = some p ∧ p.xfs = [.noQuant]) ∨
      ∃ p, e.producer = some p ∧ p.xfs = [.addDequant] := by
    cases hp : e.producer with
    | none => exact .inl (.inl rfl)
    | some p =>
      obtain ⟨po, hpo, hAP⟩ := abs_producer_some hA hp
      rcases hreq.prodShape po hpo with h | h
      · exact .inl (.inr ⟨p, rfl, by rw [← hAP.2.1]; exact h⟩)
      · exact .inr ⟨p, rfl, by rw [← hAP.2.1]; exact h⟩
  rcases hprodCases with hfl | ⟨p, hp, hpx⟩
  · left
    have hfl' : a.producer = none ∨ ∃ p, a.producer = some p ∧ p.xfs = [.noQuant] := by
      rcases hfl with h | ⟨p, hp, hpx⟩
      · exact .inl (abs_producer_none hA h)
      · obtain ⟨po, hpo, hAP⟩ := abs_producer_some hA hp
        exact .inr ⟨po, hpo, by rw [hAP.2.1]; exact hpx⟩
    obtain ⟨hnq, hnw⟩ := TypingReq.noQuant_float (tensorInfo s sg i) a hshape hsame os hos o ho hox hfl'
    refine ⟨hfl, ?_, ?_⟩
    · rintro ⟨ti, hti', ins, hins, hs, ht, hadd, hk⟩
      exact hnw ins (hall ti hti' hs ins hins ht) hadd (hoid ▸ hk)
    · rintro p ⟨ti, hti', ins, hins, hs, ht, hr, -⟩
      have := TypingReq.instsValid_noRetype _ hvalid hnq ins (hall ti hti' hs ins hins ht)
      rw [hr] at this; cases this
  · right
    obtain ⟨po, hpo, hAP⟩ := abs_producer_some hA hp
    obtain ⟨⟨ins, hins, h1, h2, h3⟩, hu⟩ := TypingReq.noQuant_dequant (tensorInfo s sg i) a hshape hsame
      os hos o ho hox po hpo (by rw [hAP.2.1]; exact hpx)
    refine ⟨⟨p, hp, hpx⟩, ⟨_, hti, ins, hins, rfl, h3, by rw [h1]; rfl, hoid ▸ h2⟩, ?_⟩
    intro ti hti' hs ins' hins' ht hadd hk
    exact hu ins' (hall ti hti' hs ins' hins' ht) hadd (hoid ▸ hk)

/-! ## a `[NO_QUANTIZE]` producer side -/

/-- a tensor whose producer request is `[NO_QUANTIZE]` has no retyping instruction -/
theorem noQuant_producer_insts {m : Model} {res : List (String × CReq)} (C : Ctx m res) (tis : List TInsts)
    (hgen : genInsts m (areqsOf res) = .ok tis)
    (s : Nat) (sg : Subgraph) (hsg : m.subgraphs[s]? = some sg)
    (i : Nat) (tn : Tensor) (htn : sg.tensors[i]? = some tn) (e : CReq) (he : (tn.name, e) ∈ res)
    (p : CO2T) (hp : e.producer = some p) (hpx : p.xfs = [.noQuant]) :
    ∀ q, ¬ SharingE2E.Retyped tis s i q := by
  have hloc : Loc m tn.name s sg i := ⟨hsg, tn, htn, rfl⟩
  obtain ⟨a, hA, hreq, hvalid, hti, hall⟩ := tensor_entry C tis hgen (tn.name, e) he s sg i hloc
  obtain ⟨po, hpo, hAP⟩ := abs_producer_some hA hp
  have hnc : isConst m sg i = false := by
    cases hc : isConst m sg i with
    | false => rfl
    | true =>
      have := const_noProd C (tn.name, e) he s sg i hloc hc
      rw [hp] at this; cases this
  have hcons : ∀ os o, a.consumers = some os → o ∈ os → o.xfs = [.noQuant] ∨ o.xfs = [.addQuant] := by
    intro os o hos ho
    obtain ⟨cs, c, hcs, hc, hAO⟩ := hA.cons_mem hos ho
    obtain ⟨⟨x, hx, hne, hq⟩, -⟩ := ((C.entries _ he).cons cs c hcs hc s sg i hloc).1
    rw [hAO.2.1, hx]
    cases x
    · exact .inl rfl
    · exact .inr rfl
    · have := hq (.inr rfl); rw [hnc] at this; cases this
    · have := hq (.inl rfl); rw [hnc] at this; cases this
    · exact absurd rfl hne
  have hno := TypingReq.prod_noQuant_noRetype (tensorInfo s sg i) a hreq.consShape po hpo
    (by rw [hAP.2.1]; exact hpx) hcons
  rintro q ⟨ti, hti', ins, hins, hs, ht, hr, -⟩
  have := hno ins (hall ti hti' hs ins hins ht)
  rw [hr] at this; cases this

/-! ## float32 tensors -/

/-- `F32` of some subgraph of the model, read at the tensor's own location (names are unique) -/
theorem f32_loc {m : Model} (hnu : namesUnique m) (s : Nat) (sg : Subgraph) (i : Nat) (tn : Tensor)
    (hsg : m.subgraphs[s]? = some sg) (htn : sg.tensors[i]? = some tn)
    (h : ∃ sg' ∈ m.subgraphs, TypingShape.F32 sg' tn.name) : tn.dtype = Tables.ttFloat32 := by
  obtain ⟨sg', hsg', t', ht', hn, hf⟩ := h
  obtain ⟨s', hs'⟩ := List.mem_iff_getElem?.1 hsg'
  obtain ⟨i', hi'⟩ := List.mem_iff_getElem?.1 ht'
  obtain ⟨rfl, rfl, rfl⟩ := loc_unique m hnu tn.name s s' sg sg' i i' ⟨hsg, tn, htn, rfl⟩ ⟨hs', t', hi', hn⟩
  rw [htn] at hi'
  cases hi'
  exact hf

/-! ## C03.noquant_op_untouched -/

/-- what the output model holds in operand slot `j` (original tensor `t`) of an unquantized operator:
    * an absent optional operand stays absent;
    * otherwise the slot holds `t` itself with its ORIGINAL record -- and if `t` is a constant, the
      buffer it references has its original content --, or
    * (`t` a float32 runtime tensor that is produced quantized) a NEW float32 tensor without
      quantization parameters over buffer 0, the result of an inserted DEQUANTIZE of `t` -/
def UntouchedOperand (env : Env) (m' : Model) (sg sg' : Subgraph) (o' : Op) (j : Nat) (t : Int) : Prop :=
  (t = -1 ∧ o'.inputs[j]? = some (-1)) ∨
  ∃ tn, 0 ≤ t ∧ sg.tensors[t.toNat]? = some tn ∧
    ((o'.inputs[j]? = some t ∧ sg'.tensors[t.toNat]? = some tn ∧
        (isConst env.model sg t = true → m'.buffers[tn.buffer]? = env.model.buffers[tn.buffer]?)) ∨
     (isConst env.model sg t = false ∧ tn.dtype = Tables.ttFloat32 ∧
       ∃ x tx ci, o'.inputs[j]? = some x ∧ (sg.tensors.length : Int) ≤ x ∧
         sg'.tensors[x.toNat]? = some tx ∧ tx.dtype = Tables.ttFloat32 ∧ tx.quant = none ∧ tx.buffer = 0 ∧
         ({ code := ci, inputs := [t], outputs := [x], orig := none } : Op) ∈ sg'.ops ∧ m'.opcodes[ci]? = some Tables.opDequantize ∧
         (∀ d ∈ sg'.ops, d.orig = none → d.outputs = [x] → d = { code := ci, inputs := [t], outputs := [x], orig := none }) ∧
         Skeleton.root sg' x = t))

theorem isConst_nat (m : Model) (sg : Subgraph) (i : Nat) (tn : Tensor) (htn : sg.tensors[i]? = some tn) :
    isConst m sg (i : Int) = true ↔ ∃ c, m.buffers[tn.buffer]? = some (some c) := by
  unfold isConst
  simp only [show ¬ ((i : Int) < 0) by omega, if_false, Int.toNat_natCast, htn]
  constructor
  · intro h
    split at h
    · rename_i c hc; exact ⟨c, hc⟩
    · cases h
  · rintro ⟨c, hc⟩
    rw [hc]

theorem noquant_op_untouched (rx : String → String → Bool) (env : Env) (st : Recipe.State)
    (qsvs : Option Qsvs) (m' : Model) (tbl : List Param) (hnf : PipelineWF.NF env st)
    (h : quantizePure rx env st qsvs = .ok (m', tbl))
    (s : Nat) (sg sg' : Subgraph) (hsg : env.model.subgraphs[s]? = some sg) (hsg' : m'.subgraphs[s]? = some sg')
    (k : Nat) (op : Op) (hop : sg.ops[k]? = some op) (hnq : ResolvesNoQuant rx env st sg op) :
    ∃ o', o' ∈ sg'.ops ∧ o'.orig = some k ∧ (∀ o'' ∈ sg'.ops, o''.orig = some k → o'' = o') ∧
      o'.code = op.code ∧ o'.outputs = op.outputs ∧ o'.inputs.length = op.inputs.length ∧
      o'.inputs.map (Skeleton.root sg') = op.inputs ∧
      (∀ t ∈ op.outputs, t ≠ -1 →
        ∃ tn, sg.tensors[t.toNat]? = some tn ∧ sg'.tensors[t.toNat]? = some tn) ∧
      ∀ (j : Nat) (t : Int), op.inputs[j]? = some t → UntouchedOperand env m' sg sg' o' j t := by
  obtain ⟨res, tis, S⟩ := stages rx env st qsvs m' tbl hnf h
  obtain ⟨stF, rfl, F⟩ := TypingGraph.run_fin _ env.model m' tis hnf.wf hnf.tagged S.ok S.cd S.run
  have C := S.ctx
  have hgen := S.gen
  have htbl := S.tbl_eq
  subst htbl
  obtain ⟨hreqI, hreqO⟩ := noquant_requests S s sg hsg k op hop hnq
  obtain ⟨o', m1, m2, m3, m4, m5, m6, m7, m8⟩ :=
    TypingGraph.orig_op_final _ env.model tis stF F hnf.tagged s sg sg' hsg hsg' k op hop
  refine ⟨o', m1, m2, m3, m4, m5, m6, m7, ?_, ?_⟩
  · -- results
    intro t ht hne
    obtain ⟨tn, e, h0, htn, he, hp⟩ := hreqO t ht hne
    have hnr := noQuant_producer_insts C tis hgen s sg hsg t.toNat tn htn e he _ hp rfl
    obtain ⟨tn', q1, -, -, -, q5, -⟩ := TypingGraph.tensor_final _ env.model tis stF F s sg sg' hsg hsg' _ tn htn
    refine ⟨tn, htn, ?_⟩
    rcases q5 with rfl | ⟨p, hr, -⟩
    · exact q1
    · exact absurd hr (hnr p)
  · -- operands
    intro j t hj
    by_cases hneg : t = -1
    · subst hneg
      left
      refine ⟨rfl, (m8 j _ hj).1 ?_⟩
      rintro ⟨ti, hti, ins, hins, hs, ht, -, -⟩
      obtain ⟨sgx, hsgx, hall⟩ := (S.ok ti hti).insts
      have hv := (GraphStep.validT_iff _ _).1 (hall ins hins).tvalid
      have := hv.1
      omega
    · right
      obtain ⟨tn, e, cs, h0, htn, he, hcs, hc⟩ := hreqI t (List.mem_of_getElem? hj) hneg
      have hcast : ((t.toNat : Nat) : Int) = t := by omega
      refine ⟨tn, h0, htn, ?_⟩
      obtain ⟨tn', q1, -, -, q4, q5, -⟩ :=
        TypingGraph.tensor_final _ env.model tis stF F s sg sg' hsg hsg' _ tn htn
      rcases noQuant_consumer_insts C tis hgen s sg hsg t.toNat tn htn e he cs hcs k _ hc rfl rfl with
        ⟨-, hnw, hnr⟩ | ⟨⟨p, hp, hpx⟩, hw, hu⟩
      · -- untouched
        left
        rw [hcast] at hnw
        have hrec : sg'.tensors[t.toNat]? = some tn := by
          rcases q5 with rfl | ⟨p, hr, -⟩
          · exact q1
          · exact absurd hr (hnr p)
        refine ⟨(m8 j t hj).1 hnw, hrec, ?_⟩
        intro hconst
        rw [← hcast] at hconst
        obtain ⟨c, hc⟩ := (isConst_nat env.model sg t.toNat tn htn).1 hconst
        rcases F.binv.bufs tn.buffer c hc with hb | ⟨s1, i1, p, pi, r1, r2, -⟩
        · rw [hb, hc]
        · exfalso
          obtain ⟨p', hp'⟩ := S.sa.all tn.buffer c hc s1 i1 p s t.toNat r1 ⟨sg, tn, hsg, htn, rfl⟩ r2
          exact hnr p' hp'
      · -- read through an inserted DEQUANTIZE
        right
        rw [hcast] at hw
        obtain ⟨x, hx, hxl, n, ti, ins, tx, ci, w0, w1, w2, w3, w4, w5, w6, w7, w8, w9, w10, w11, w12⟩ :=
          (m8 j t hj).2 hw
        have hxf : ins.xf = .addDequant := hu ti w1 w3 ins w2 (by rw [w4, hcast]) w5 w6
        have hnc : isConst env.model sg t = false := by
          cases hcc : isConst env.model sg t with
          | false => rfl
          | true =>
            rw [← hcast] at hcc
            have := const_noProd C (tn.name, e) he s sg t.toNat ⟨hsg, tn, htn, rfl⟩ hcc
            rw [hp] at this; cases this
        have hf32 : tn.dtype = Tables.ttFloat32 :=
          f32_loc C.nu s sg t.toNat tn hsg htn (((S.typ _ he).1 p hp).elim fun sgq hq => ⟨sgq, hq.1, hq.2.1 hpx⟩)
        obtain ⟨pp, pi, ty, nm, tn0, -, -, -, hrec⟩ := w8
        rw [if_neg (by rw [hxf]; decide)] at hrec
        subst hrec
        have hxn : x.toNat = n := by omega
        refine ⟨hnc, hf32, x, _, ci, hx, hxl, by rw [hxn]; exact w7, rfl, rfl, rfl, w9, ?_, w11, w12⟩
        rw [w10, hxf]; rfl

/-! ## the parameters of the performed instructions -/

def IsIntType (ty : Nat) : Prop :=
  ty = Tables.ttInt4 ∨ ty = Tables.ttInt8 ∨ ty = Tables.ttInt16 ∨ ty = Tables.ttInt32 ∨ ty = Tables.ttInt64

theorem dtypeOf_uniform (pi : PInfo) (ty : Nat) (hu : pi.uniform = true) (h : dtypeOf pi = .ok ty) :
    IsIntType ty := by
  unfold dtypeOf at h
  rw [if_pos hu] at h
  unfold IsIntType
  repeat' split at h
  all_goals cases h
  all_goals decide

theorem dtypeOf_f16 (pi : PInfo) (ty : Nat) (hu : pi.uniform = false) (hb : pi.bits = 16)
    (h : dtypeOf pi = .ok ty) : ty = Tables.ttFloat16 := by
  unfold dtypeOf at h
  simp only [hu, Bool.false_eq_true, if_false, hb, if_true, Except.ok.injEq] at h
  exact h.symm

/-- the table entry of the id of a concrete parameter object -/
theorem pinfo_of_findIdx (tbl : List Param) (P : Param) (p : PId)
    (h : tbl.findIdx? (fun q => q.eqv P) = some p) : pinfo (ptableOf tbl) p = some (pinfoOf P) := by
  obtain ⟨hp, hq, -⟩ := List.findIdx?_eq_some_iff_getElem.1 h
  rw [pinfo_ptableOf, List.getElem?_eq_getElem hp]
  simp only [Option.map_some, Option.some.injEq]
  exact Locality.eqv_pinfoOf _ _ hq

/-- **every performed instruction**: its tensor is an original tensor; its parameter is a uniform one,
    or the float16 parameter of a constant; an ADD_QUANTIZE instruction carries a uniform parameter and
    acts on a float32 runtime tensor -/
theorem inst_facts {rx : String → String → Bool} {env : Env} {st : Recipe.State} {qsvs : Option Qsvs}
    {m' : Model} {res : List (String × CReq)} {tis : List TInsts}
    (S : Stages rx env st qsvs m' (tblOf res) res tis) (ti : TInsts) (hti : ti ∈ tis) (ins : Inst)
    (hins : ins ∈ ti.insts) (hx : isInsertion ins.xf = true) (p : PId) (pi : PInfo)
    (hp : ins.param = some p) (hpi : pinfo (ptableOf (tblOf res)) p = some pi)
    (sg : Subgraph) (hsg : env.model.subgraphs[ti.sg]? = some sg) :
    ∃ (i : Nat) (tn : Tensor), ins.tensor = (i : Int) ∧ sg.tensors[i]? = some tn ∧
      (pi.uniform = true ∨ (pi.uniform = false ∧ pi.bits = 16 ∧ isConst env.model sg (i : Int) = true)) ∧
      (ins.xf = .addQuant → pi.uniform = true ∧ tn.dtype = Tables.ttFloat32 ∧
        isConst env.model sg (i : Int) = false) := by
  have C := S.ctx
  obtain ⟨e, he, a, ha, hA, hreq, s', sg', i, hloc, hget, rfl⟩ := entry_of_ti C tis S.gen ti hti
  simp only at hins hsg
  have hsg' : env.model.subgraphs[s']? = some sg' := hloc.1
  rw [hsg] at hsg'; cases hsg'
  obtain ⟨hcore, -⟩ := instsOf_ok _ env.model s' sg i a hsg hget hreq
  have hten := (hcore ins hins).tensor
  obtain ⟨-, tn, htn, hname⟩ := hloc
  have hloc : Loc env.model e.1 s' sg i := ⟨hsg, tn, htn, hname⟩
  have hkey : (tn.name, e.2) ∈ res := by rw [hname]; exact he
  obtain ⟨hPT, hCT⟩ := S.typ e he
  refine ⟨i, tn, hten, htn, ?_⟩
  rcases TypingReq.inst_source (tensorInfo s' sg i) a hreq.consShape hreq.prodShape ins hins hx with
    ⟨po, hpo, hpx, hpp, hnq⟩ | ⟨os, o, x, hos, ho, hop, hox, hxn, hxq⟩
  · -- the producer side
    obtain ⟨c, hc, hAO⟩ := hA.prod hpo
    rw [hp] at hpp
    obtain ⟨P, hP, hidx⟩ := hAO.param_some hpp.symm
    obtain ⟨sgq, -, -, hu⟩ := hPT c hc
    obtain ⟨qp, d, rfl⟩ := hu P hP
    rw [pinfo_of_findIdx _ _ _ hidx] at hpi
    cases hpi
    exact ⟨.inl rfl, fun hq => absurd hq hnq⟩
  · -- a consumer side
    obtain ⟨cs, c, hcs, hc, hAO⟩ := hA.cons_mem hos ho
    rw [hp] at hop
    obtain ⟨P, hP, hidx⟩ := hAO.param_some hop.symm
    rw [pinfo_of_findIdx _ _ _ hidx] at hpi
    cases hpi
    have hcx : c.xfs = [x] := by rw [← hAO.2.1]; exact hox
    obtain ⟨sgq, hsgq, hf, hu⟩ := hCT cs c hcs hc
    refine ⟨?_, ?_⟩
    · rcases hu P hP with ⟨qp, d, rfl⟩ | ⟨hxd, d, rfl⟩
      · exact .inl rfl
      · right
        refine ⟨rfl, rfl, ?_⟩
        obtain ⟨⟨x', hx', -, hq⟩, -⟩ := ((C.entries e he).cons cs c hcs hc s' sg i hloc).1
        rw [hxd] at hx'
        cases hx'
        exact hq (.inr rfl)
    · intro hq
      have hxa : x = .addQuant := hxq hq
      subst hxa
      obtain ⟨t', ht', hn', hf', hnc'⟩ := hf hcx
      obtain ⟨sq, hsq⟩ := List.mem_iff_getElem?.1 hsgq
      obtain ⟨i', hi'⟩ := List.mem_iff_getElem?.1 ht'
      obtain ⟨rfl, rfl, rfl⟩ := loc_unique env.model C.nu e.1 s' sq sg sgq i i' hloc ⟨hsq, t', hi', hn'⟩
      rw [htn] at hi'
      cases hi'
      refine ⟨?_, hf', ?_⟩
      · rcases hu P hP with ⟨qp, d, rfl⟩ | ⟨hxd, -⟩
        · rfl
        · rw [hcx] at hxd; cases hxd
      · rw [← constData_isSome env sg i tn htn]; exact hnc'

/-- the record of an original tensor that a retyping instruction has written -/
theorem typedBy_facts {rx : String → String → Bool} {env : Env} {st : Recipe.State} {qsvs : Option Qsvs}
    {m' : Model} {res : List (String × CReq)} {tis : List TInsts}
    (S : Stages rx env st qsvs m' (tblOf res) res tis) (s : Nat) (sg : Subgraph)
    (hsg : env.model.subgraphs[s]? = some sg) (i : Nat) (p : PId) (tn' : Tensor)
    (hr : SharingE2E.Retyped tis s i p) (ht : SharingE2E.TypedBy (ptableOf (tblOf res)) p tn') :
    (IsIntType tn'.dtype ∧ tn'.quant = some p) ∨
    (tn'.dtype = Tables.ttFloat16 ∧ isConst env.model sg (i : Int) = true) := by
  obtain ⟨ti, hti, ins, hins, rfl, e2, hrt, e4⟩ := hr
  obtain ⟨pi, ty, t1, t2, t3, t4⟩ := ht
  obtain ⟨i', tn, f1, f2, f3, -⟩ := inst_facts S ti hti ins hins (Wiring.retypes_insertion _ hrt) p pi e4 t1 sg hsg
  have hii : i' = i := by omega
  subst hii
  rcases f3 with hu | ⟨hu, hb, hc⟩
  · exact .inl ⟨t3 ▸ dtypeOf_uniform pi ty hu t2, t4 hu⟩
  · exact .inr ⟨t3 ▸ dtypeOf_f16 pi ty hu hb t2, hc⟩

/-! ## C03.inserted_ops_typed -/

/-- **every operator of the output without `orig` tag** is a QUANTIZE (float32 without parameters, or
    integer with parameters, in; integer with parameters out) or a DEQUANTIZE (integer with parameters, or
    float16, in; float32 without parameters out); its operand is an ORIGINAL tensor, its result a NEW one -/
theorem inserted_ops_typed (rx : String → String → Bool) (env : Env) (st : Recipe.State)
    (qsvs : Option Qsvs) (m' : Model) (tbl : List Param) (hnf : PipelineWF.NF env st)
    (h : quantizePure rx env st qsvs = .ok (m', tbl))
    (s : Nat) (sg' : Subgraph) (hsg' : m'.subgraphs[s]? = some sg') (o : Op) (ho : o ∈ sg'.ops)
    (hn : o.orig = none) :
    ∃ (sg : Subgraph) (ci t n : Nat) (tin tout : Tensor), env.model.subgraphs[s]? = some sg ∧
      o = { code := ci, inputs := [(t : Int)], outputs := [(n : Int)], orig := none } ∧
      t < sg.tensors.length ∧ sg.tensors.length ≤ n ∧
      sg'.tensors[t]? = some tin ∧ sg'.tensors[n]? = some tout ∧
      ((m'.opcodes[ci]? = some Tables.opQuantize ∧
          ((tin.dtype = Tables.ttFloat32 ∧ tin.quant = none) ∨ (IsIntType tin.dtype ∧ tin.quant.isSome = true)) ∧
          IsIntType tout.dtype ∧ tout.quant.isSome = true) ∨
       (m'.opcodes[ci]? = some Tables.opDequantize ∧
          ((IsIntType tin.dtype ∧ tin.quant.isSome = true) ∨ tin.dtype = Tables.ttFloat16) ∧
          tout.dtype = Tables.ttFloat32 ∧ tout.quant = none)) := by
  obtain ⟨res, tis, S⟩ := stages rx env st qsvs m' tbl hnf h
  obtain ⟨stF, rfl, F⟩ := TypingGraph.run_fin _ env.model m' tis hnf.wf hnf.tagged S.ok S.cd S.run
  have htbl := S.tbl_eq
  subst htbl
  have hs : s < env.model.subgraphs.length := by
    rw [← F.base.inv.nsg]; exact (List.getElem?_eq_some_iff.1 hsg').1
  have hsg : env.model.subgraphs[s]? = some env.model.subgraphs[s] := List.getElem?_eq_getElem hs
  obtain ⟨ci, n, ti, ins, tout, e1, e2, hti, hins, e3, hadd, e5, e6, e7⟩ :=
    TypingGraph.inserted_final _ env.model tis stF F s _ sg' hsg hsg' o ho hn
  subst e3
  obtain ⟨p, pi, ty, nm, tn0, hp, hpi, hty, hrec⟩ := e7
  obtain ⟨i, tn, f1, f2, f3, f4⟩ := inst_facts S ti hti ins hins (Wiring.addsOp_insertion _ hadd) p pi hp hpi _ hsg
  obtain ⟨tin, q1, -, -, -, q5, q6⟩ := TypingGraph.tensor_final _ env.model tis stF F ti.sg _ sg' hsg hsg' i tn f2
  refine ⟨_, ci, i, n, tin, tout, hsg, by rw [e1, f1]; rfl, (List.getElem?_eq_some_iff.1 f2).1, e2, q1, e6, ?_⟩
  rcases Wiring.addsOp_cases _ hadd with hq | hd
  · -- QUANTIZE
    left
    obtain ⟨hu, hf32, hnc⟩ := f4 hq
    rw [if_pos hq] at hrec
    refine ⟨by rw [e5, TypingGraph.insCode, if_pos hq], ?_, ?_, ?_⟩
    · rcases q5 with rfl | ⟨p', hr', ht'⟩
      · exact .inl ⟨hf32, S.noq _ (List.mem_of_getElem? hsg) _ (List.mem_of_getElem? f2)⟩
      · rcases typedBy_facts S ti.sg _ hsg i p' tin hr' ht' with ⟨a, b⟩ | ⟨-, b⟩
        · exact .inr ⟨a, by rw [b]; rfl⟩
        · rw [hnc] at b; cases b
    · rw [hrec, StepTypes.retype_dtype]; exact dtypeOf_uniform pi ty hu hty
    · rw [hrec, StepTypes.retype_quant, if_pos hu]; rfl
  · -- DEQUANTIZE
    right
    rw [if_neg (by rw [hd]; decide)] at hrec
    refine ⟨by rw [e5, TypingGraph.insCode, if_neg (by rw [hd]; decide)], ?_, by rw [hrec]; rfl, by rw [hrec]; rfl⟩
    obtain ⟨p', hr', ht'⟩ := q6 ⟨p, ti, hti, ins, hins, rfl, f1, by rw [hd]; rfl, hp⟩
    rcases typedBy_facts S ti.sg _ hsg i p' tin hr' ht' with ⟨a, b⟩ | ⟨a, -⟩
    · exact .inl ⟨a, by rw [b]; rfl⟩
    · exact .inr a

/-! ## `PipelineWF.NF` for closed models made of FULLY_CONNECTED operators and operators the quantizer
does not know -/

/-- every operator is `FULLY_CONNECTED(a0, a1, b) → o` with different operands (`b = -1`: no bias), or has
    a builtin code that is not in the quantizer's operator table -/
def fcOrUnnamedB (m : Model) : Bool :=
  m.subgraphs.all fun sg => sg.ops.all fun op =>
    (match m.opcodes[op.code]? with
     | some code => (opNameOfCode code).isNone
     | none => false) ||
    (m.opcodes[op.code]? == some 9 &&
    (match op.inputs, op.outputs with
     | [a0, a1, b], [o] => a0 != a1 && a0 != -1 && a1 != -1 && (b == -1 || (b != a0 && b != a1)) && o != -1
     | _, _ => false))

open PipeNF in
theorem nf_of_fcOrUnnamed (env : Env) (st : Recipe.State) (hwf : WF.modelOK env.model = true)
    (htag : Skeleton.origTagged env.model = true) (hnb : noBlockwiseB st = true)
    (hin : inputsNotConstB env.model = true) (hfc : fcOrUnnamedB env.model = true) : PipelineWF.NF env st := by
  have hop : ∀ sg ∈ env.model.subgraphs, ∀ op ∈ sg.ops, ∀ k, OpNamed env.model op k →
      k = "FULLY_CONNECTED" ∧ ∃ a0 a1 b o, op.inputs = [a0, a1, b] ∧ op.outputs = [o] ∧ a0 ≠ a1 ∧
        a0 ≠ -1 ∧ a1 ≠ -1 ∧ (b = -1 ∨ (b ≠ a0 ∧ b ≠ a1)) ∧ o ≠ -1 := by
    intro sg hsg op hop k ⟨code, hc, hn⟩
    unfold fcOrUnnamedB at hfc
    rw [List.all_eq_true] at hfc
    have h1 := hfc sg hsg
    rw [List.all_eq_true] at h1
    have h2 := h1 op hop
    rw [Bool.or_eq_true] at h2
    rcases h2 with h2 | h2
    · rw [hc] at h2
      simp only [hn, Option.isNone_some] at h2
      cases h2
    simp only [Bool.and_eq_true, beq_iff_eq] at h2
    obtain ⟨h3, h4⟩ := h2
    rw [h3] at hc; cases hc
    have : opNameOfCode 9 = some "FULLY_CONNECTED" := by decide
    rw [this] at hn; cases hn
    refine ⟨rfl, ?_⟩
    split at h4
    · rename_i a0 a1 b o hi ho
      simp only [Bool.and_eq_true, Bool.or_eq_true, bne_iff_ne, ne_eq, beq_iff_eq] at h4
      obtain ⟨⟨⟨⟨g1, g2⟩, g3⟩, g4⟩, g5⟩ := h4
      exact ⟨a0, a1, b, o, hi, ho, g1, g2, g3, g4, g5⟩
    · cases h4
  refine ⟨hwf, htag, ?_, ?_, ?_, ?_, ?_⟩
  · intro e he r hr w hw
    unfold noBlockwiseB at hnb
    rw [List.all_eq_true] at hnb
    have h1 := hnb e he
    rw [List.all_eq_true] at h1
    have h2 := h1 r hr
    rw [hw] at h2
    simpa using h2
  · intro sg hsg t ht
    unfold inputsNotConstB at hin
    rw [List.all_eq_true] at hin
    have h1 := hin sg hsg
    rw [List.all_eq_true] at h1
    simpa using h1 t ht
  · intro sg hsg op hopm k hk i j a hi hj hne
    obtain ⟨rfl, a0, a1, b, o, e1, -, g1, g2, g3, g4, -⟩ := hop sg hsg op hopm k hk
    rw [e1] at hi hj
    have key : ∀ (n : Nat), ([a0, a1, b] : List Int)[n]? = some a →
        (n = 0 ∧ a = a0) ∨ (n = 1 ∧ a = a1) ∨ (n = 2 ∧ a = b) := by
      intro n hn
      rcases n with _ | _ | _ | n
      · simp at hn; exact .inl ⟨rfl, hn.symm⟩
      · simp at hn; exact .inr (.inl ⟨rfl, hn.symm⟩)
      · simp at hn; exact .inr (.inr ⟨rfl, hn.symm⟩)
      · simp at hn
    have hb : a = b → b ≠ a0 ∧ b ≠ a1 := by
      intro e
      rcases g4 with g | g
      · exact absurd (e.trans g) hne
      · exact g
    rcases key i hi with ⟨rfl, ha⟩ | ⟨rfl, ha⟩ | ⟨rfl, ha⟩ <;>
      rcases key j hj with ⟨rfl, hb'⟩ | ⟨rfl, hb'⟩ | ⟨rfl, hb'⟩
    · rfl
    · exact absurd (ha.symm.trans hb') g1
    · exact absurd (hb'.symm.trans ha) (hb hb').1
    · exact absurd (hb'.symm.trans ha) g1
    · rfl
    · exact absurd (hb'.symm.trans ha) (hb hb').2
    · exact absurd (ha.symm.trans hb') (hb ha).1
    · exact absurd (ha.symm.trans hb') (hb ha).2
    · rfl
  · intro sg hsg op hopm k hk b' a hb h1 h0 hne
    obtain ⟨rfl, a0, a1, b, o, e1, -, g1, g2, g3, -, -⟩ := hop sg hsg op hopm k hk
    have hd : dataSlot "FULLY_CONNECTED" = 0 := by decide
    rw [hd, e1] at h0
    rw [e1] at h1
    simp at h0 h1
    exact absurd (h0.trans h1.symm) g1
  · intro sg hsg op hopm k hk b' hb
    obtain ⟨rfl, a0, a1, b, o, e1, e2, g1, g2, g3, -, g5⟩ := hop sg hsg op hopm k hk
    have : biasSlot "FULLY_CONNECTED" = some 2 := by decide
    rw [this] at hb; cases hb
    rw [e1, e2]
    refine ⟨?_, by simpa using g5⟩
    intro i hi
    rcases i with _ | _ | i
    · simpa using g2
    · simpa using g3
    · omega

/-! ## operand slots and result tensors, by the request the operator made -/

/-- the record `tn` has the type of the parameter object `P` and (uniform `P`) carries its id -/
def HoldsParam (tbl : List Param) (P : Param) (tn : Tensor) : Prop :=
  ∃ pid ty, tbl.findIdx? (fun q => q.eqv P) = some pid ∧ dtypeOf (pinfoOf P) = .ok ty ∧ tn.dtype = ty ∧
    ((pinfoOf P).uniform = true → tn.quant = some pid)

theorem holds_of_typedBy (tbl : List Param) (P : Param) (pid : PId) (tn : Tensor)
    (hidx : tbl.findIdx? (fun q => q.eqv P) = some pid)
    (h : SharingE2E.TypedBy (ptableOf tbl) pid tn) : HoldsParam tbl P tn := by
  obtain ⟨pi, ty, t1, t2, t3, t4⟩ := h
  rw [pinfo_of_findIdx _ _ _ hidx] at t1
  cases t1
  exact ⟨pid, ty, hidx, t2, t3, t4⟩

/-- the abstract id of a concrete parameter object on an abstracted side -/
theorem absO_param {tbl : List Param} {c : CO2T} {o : O2T} (h : AbsO tbl c o) {P : Param}
    (hP : c.param = some P) : ∃ pid, o.param = some pid ∧ tbl.findIdx? (fun q => q.eqv P) = some pid := by
  obtain ⟨_, _, h3⟩ := h
  rw [hP] at h3
  cases ho : o.param with
  | none => rw [ho] at h3; exact h3.elim
  | some pid => rw [ho] at h3; exact ⟨pid, rfl, h3⟩

section BySide
variable {rx : String → String → Bool} {env : Env} {st : Recipe.State} {qsvs : Option Qsvs}
  {res : List (String × CReq)} {tis : List TInsts} {stF : PState}
  (S : Stages rx env st qsvs stF.model (tblOf res) res tis)
  (F : TypingGraph.Final (ptableOf (tblOf res)) env.model tis stF)
  (s : Nat) (sg sg' : Subgraph) (hsg : env.model.subgraphs[s]? = some sg)
  (hsg' : stF.model.subgraphs[s]? = some sg')
  (i : Nat) (tn : Tensor) (htn : sg.tensors[i]? = some tn) (e : CReq) (he : (tn.name, e) ∈ res)
include S F hsg hsg' htn he

/-- **a result requested `[ADD_DEQUANTIZE]` with parameter object `P`** holds `P` in the output -/
theorem producer_dequant_tensor (c : CO2T) (hc : e.producer = some c) (hcx : c.xfs = [.addDequant])
    (P : Param) (hP : c.param = some P) :
    ∃ tn', sg'.tensors[i]? = some tn' ∧ HoldsParam (tblOf res) P tn' := by
  have C := S.ctx
  have hloc : Loc env.model tn.name s sg i := ⟨hsg, tn, htn, rfl⟩
  obtain ⟨a, hA, hreq, hvalid, hti, hall⟩ := tensor_entry C tis S.gen (tn.name, e) he s sg i hloc
  obtain ⟨po, hpo, hAP⟩ := abs_producer_some hA hc
  obtain ⟨pid, hpid, hidx⟩ := absO_param hAP hP
  have hpox : po.xfs = [.addDequant] := by rw [hAP.2.1]; exact hcx
  obtain ⟨⟨ins, hins, hr, hten⟩, hu⟩ := TypingReq.prod_dequant_retype (tensorInfo s sg i) a hreq.consShape po hpo hpox
    (fun cs c' h1 h2 => hreq.prodCons po cs c' hpo hpox h1 h2)
  obtain ⟨pp, -, -, hpp, -, -⟩ := F.params _ hti ins hins (Wiring.retypes_insertion _ hr)
  obtain ⟨tn', q1, -, -, -, -, q6⟩ := TypingGraph.tensor_final _ env.model tis stF F s sg sg' hsg hsg' i tn htn
  obtain ⟨p', ⟨ti', hti', ins', hins', hs', ht', hr', hp'⟩, hty⟩ := q6 ⟨pp, _, hti, ins, hins, rfl, hten, hr, hpp⟩
  have := hu ins' (hall ti' hti' hs' ins' hins' ht') hr'
  rw [hp', hpid] at this
  cases this
  exact ⟨tn', q1, holds_of_typedBy _ P pid tn' hidx hty⟩

/-- **an operand requested `[ADD_QUANTIZE]` with parameter object `P`** by operator `k`: in every slot
    where the operator read the tensor, the output operator reads a tensor that stands for it and holds
    `P` -- the tensor itself (produced quantized with the same parameters) or the result of an inserted
    QUANTIZE -/
theorem consumer_addQuant_slot (cs : List CO2T) (hcs : e.consumers = some cs) (c : CO2T) (hc : c ∈ cs)
    (k : Nat) (hck : c.opId = (k : Int)) (hcx : c.xfs = [.addQuant]) (P : Param) (hP : c.param = some P)
    (o' : Op) (j : Nat)
    (hslot : (¬ TypingGraph.Wires tis s (i : Int) k → o'.inputs[j]? = some (i : Int)) ∧
      (TypingGraph.Wires tis s (i : Int) k → ∃ x, o'.inputs[j]? = some x ∧ (sg.tensors.length : Int) ≤ x ∧
        TypingGraph.WiredTo (ptableOf (tblOf res)) tis stF.model s sg' (i : Int) k x)) :
    ∃ z tz, o'.inputs[j]? = some z ∧ sg'.tensors[z.toNat]? = some tz ∧ HoldsParam (tblOf res) P tz ∧
      (z = (i : Int) ∨ ((sg.tensors.length : Int) ≤ z ∧ Skeleton.root sg' z = (i : Int) ∧
        ∃ ci, ({ code := ci, inputs := [(i : Int)], outputs := [z], orig := none } : Op) ∈ sg'.ops ∧
          stF.model.opcodes[ci]? = some Tables.opQuantize)) := by
  have C := S.ctx
  have hloc : Loc env.model tn.name s sg i := ⟨hsg, tn, htn, rfl⟩
  obtain ⟨a, hA, hreq, hvalid, hti, hall⟩ := tensor_entry C tis S.gen (tn.name, e) he s sg i hloc
  obtain ⟨os, o, hos, ho, hAO⟩ := abs_consumer hA hcs hc
  obtain ⟨pid, hpid, hidx⟩ := absO_param hAO hP
  have hoid : o.opId = (k : Int) := hAO.1.trans hck
  have hox : o.xfs = [.addQuant] := by rw [hAO.2.1]; exact hcx
  obtain ⟨hu, hsame, hdiff⟩ := TypingReq.addQuant_consumer (tensorInfo s sg i) a hreq.consShape hreq.consSameOp
    (tensorInfo_consumers s sg i).2 os hos o ho hox hreq.prodShape
    (fun p hp hy c' hc' => hreq.prodCons p os c' hp hy hos hc')
  by_cases hcase : ∃ p, a.producer = some p ∧ p.xfs = [.addDequant] ∧ p.param = o.param
  · -- produced quantized with the same parameters: read directly
    obtain ⟨po, hpo, hpox, hpar⟩ := hcase
    have hnw : ¬ TypingGraph.Wires tis s (i : Int) k := by
      rintro ⟨ti', hti', ins', hins', hs', ht', hadd, hk⟩
      exact hsame ⟨po, hpo, hpox, hpar⟩ ins' (hall ti' hti' hs' ins' hins' ht') hadd (hoid ▸ hk)
    obtain ⟨⟨ins, hins, hr, hten⟩, hup⟩ := TypingReq.prod_dequant_retype (tensorInfo s sg i) a hreq.consShape po hpo hpox
      (fun cs' c' h1 h2 => hreq.prodCons po cs' c' hpo hpox h1 h2)
    obtain ⟨pp, -, -, hpp, -, -⟩ := F.params _ hti ins hins (Wiring.retypes_insertion _ hr)
    obtain ⟨tn', q1, -, -, -, -, q6⟩ := TypingGraph.tensor_final _ env.model tis stF F s sg sg' hsg hsg' i tn htn
    obtain ⟨p', ⟨ti', hti', ins', hins', hs', ht', hr', hp'⟩, hty⟩ := q6 ⟨pp, _, hti, ins, hins, rfl, hten, hr, hpp⟩
    have := hup ins' (hall ti' hti' hs' ins' hins' ht') hr'
    rw [hp', hpar, hpid] at this
    cases this
    exact ⟨(i : Int), tn', hslot.1 hnw, by rw [Int.toNat_natCast]; exact q1,
      holds_of_typedBy _ P pid tn' hidx hty, .inl rfl⟩
  · -- read through an inserted QUANTIZE
    obtain ⟨ins, hins, h1, h2, h3, h4⟩ := hdiff hcase
    have hw : TypingGraph.Wires tis s (i : Int) k :=
      ⟨_, hti, ins, hins, rfl, h4, by rw [h1]; rfl, hoid ▸ h2⟩
    obtain ⟨x, hx, hxl, n, ti', ins', tx, ci, w0, w1, w2, w3, w4, w5, w6, w7, w8, w9, w10, w11, w12⟩ := hslot.2 hw
    obtain ⟨g1, g2⟩ := hu ins' (hall ti' w1 w3 ins' w2 w4) w5 (hoid ▸ w6)
    obtain ⟨pp, pi, ty, nm, tn0, e1, e2, e3, hrec⟩ := w8
    rw [g2, hpid] at e1
    cases e1
    rw [if_pos g1] at hrec
    have hxn : x.toNat = n := by omega
    refine ⟨x, tx, hx, by rw [hxn]; exact w7, ?_, .inr ⟨hxl, w12, ci, w9, by rw [w10, g1]; rfl⟩⟩
    refine holds_of_typedBy _ P pid tx hidx ⟨pi, ty, e2, e3, ?_, ?_⟩
    · rw [hrec, StepTypes.retype_dtype]
    · intro hun
      rw [hrec, StepTypes.retype_quant, if_pos hun]

/-- **a constant operand requested `[QUANTIZE_TENSOR]` / `[ADD_DEQUANTIZE]` with parameter object `P`** by
    operator `k`: the tensor holds `P`, its buffer holds the packed data of `P`, and the operator reads
    it directly (QUANTIZE_TENSOR) resp. through an inserted DEQUANTIZE whose result is a new float32
    tensor without parameters (ADD_DEQUANTIZE) -/
theorem consumer_const_slot (hprod : e.producer = none) (cs : List CO2T) (hcs : e.consumers = some cs)
    (c : CO2T) (hc : c ∈ cs) (k : Nat) (hck : c.opId = (k : Int)) (x : Xf) (hcx : c.xfs = [x])
    (hxr : x = .quantTensor ∨ x = .addDequant) (P : Param) (hP : c.param = some P) (o' : Op) (j : Nat)
    (hslot : (¬ TypingGraph.Wires tis s (i : Int) k → o'.inputs[j]? = some (i : Int)) ∧
      (TypingGraph.Wires tis s (i : Int) k → ∃ x, o'.inputs[j]? = some x ∧ (sg.tensors.length : Int) ≤ x ∧
        TypingGraph.WiredTo (ptableOf (tblOf res)) tis stF.model s sg' (i : Int) k x)) :
    ∃ tn' pid, sg'.tensors[i]? = some tn' ∧ HoldsParam (tblOf res) P tn' ∧
      (tblOf res).findIdx? (fun q => q.eqv P) = some pid ∧
      stF.model.buffers[tn.buffer]? = some (some (.inr pid)) ∧
      (x = .quantTensor → o'.inputs[j]? = some (i : Int)) ∧
      (x = .addDequant → ∃ z tz ci, o'.inputs[j]? = some z ∧ (sg.tensors.length : Int) ≤ z ∧
        sg'.tensors[z.toNat]? = some tz ∧ tz.dtype = Tables.ttFloat32 ∧ tz.quant = none ∧ tz.buffer = 0 ∧
        ({ code := ci, inputs := [(i : Int)], outputs := [z], orig := none } : Op) ∈ sg'.ops ∧
        stF.model.opcodes[ci]? = some Tables.opDequantize ∧ Skeleton.root sg' z = (i : Int)) := by
  have C := S.ctx
  have hloc : Loc env.model tn.name s sg i := ⟨hsg, tn, htn, rfl⟩
  obtain ⟨a, hA, hreq, hvalid, hti, hall⟩ := tensor_entry C tis S.gen (tn.name, e) he s sg i hloc
  obtain ⟨os, o, hos, ho, hAO⟩ := abs_consumer hA hcs hc
  obtain ⟨pid, hpid, hidx⟩ := absO_param hAO hP
  have hoid : o.opId = (k : Int) := hAO.1.trans hck
  have hox : o.xfs = [x] := by rw [hAO.2.1]; exact hcx
  obtain ⟨⟨ins, hins, h1, h2, h3, h4⟩, hu⟩ := TypingReq.consumer_noProd (tensorInfo s sg i) a hreq.consShape
    hreq.consSameOp (abs_producer_none hA hprod) os hos o ho x hox
  have hr : Wiring.retypes ins.xf = true := by rcases hxr with rfl | rfl <;> rw [h1] <;> rfl
  have hcast : ins.tensor.toNat = i := by
    have : ins.tensor = (i : Int) := h4
    omega
  -- the tensor is a constant
  obtain ⟨⟨x', hx', -, hq⟩, -⟩ := ((C.entries _ he).cons cs c hcs hc s sg i hloc).1
  rw [hcx] at hx'
  cases hx'
  have hconst : isConst env.model sg (i : Int) = true := by
    rcases hxr with rfl | rfl
    · exact hq (.inl rfl)
    · exact hq (.inr rfl)
  obtain ⟨c0, hc0⟩ := (isConst_nat env.model sg i tn htn).1 hconst
  have hRet : SharingE2E.Retyped tis s i pid := ⟨_, hti, ins, hins, rfl, h4, hr, by rw [h3, hpid]⟩
  obtain ⟨sgw, tnw, p', w1, w2, w3, w4, w5⟩ := F.done _ hti ins hins hr sg tn hsg (by rw [hcast]; exact htn)
  simp only at w1
  rw [hsg'] at w1; cases w1
  rw [hcast] at w2 w3
  have hSame := S.sa.same tn.buffer c0 hc0
  have hRef : SharingE2E.Referent env.model tn.buffer s i := ⟨sg, tn, hsg, htn, rfl⟩
  have hpp : p' = pid := hSame s i p' s i pid hRef hRef w3 hRet
  subst hpp
  obtain ⟨q, hq1, hq2⟩ := w5 c0 hc0
  have hqp := hq2 hSame
  subst hqp
  refine ⟨tnw, q, w2, holds_of_typedBy _ P q tnw hidx w4, hidx, hq1, ?_, ?_⟩
  · intro hxq
    apply hslot.1
    rintro ⟨ti', hti', ins', hins', hs', ht', hadd, hk⟩
    have := (hu ins' (hall ti' hti' hs' ins' hins' ht') (hoid ▸ hk)).1
    rw [this, hxq] at hadd
    cases hadd
  · intro hxd
    have hw : TypingGraph.Wires tis s (i : Int) k :=
      ⟨_, hti, ins, hins, rfl, h4, by rw [h1, hxd]; rfl, hoid ▸ h2⟩
    obtain ⟨z, hz, hzl, n, ti', ins', tz, ci, v0, v1, v2, v3, v4, v5, v6, v7, v8, v9, v10, v11, v12⟩ := hslot.2 hw
    have hxf' := (hu ins' (hall ti' v1 v3 ins' v2 v4) (hoid ▸ v6)).1
    obtain ⟨pp, pi, ty, nm, tn0, -, -, -, hrec⟩ := v8
    rw [if_neg (by rw [hxf', hxd]; decide)] at hrec
    subst hrec
    have hzn : z.toNat = n := by omega
    exact ⟨z, _, ci, hz, hzl, by rw [hzn]; exact v7, rfl, rfl, rfl, v9, by rw [v10, hxf', hxd]; rfl, v12⟩

/-- **an operand requested `[NO_QUANTIZE]`** by operator `k` is `UntouchedOperand` -/
theorem consumer_noQuant_slot (cs : List CO2T) (hcs : e.consumers = some cs) (c : CO2T) (hc : c ∈ cs)
    (k : Nat) (hck : c.opId = (k : Int)) (hcx : c.xfs = [.noQuant]) (o' : Op) (j : Nat)
    (hslot : (¬ TypingGraph.Wires tis s (i : Int) k → o'.inputs[j]? = some (i : Int)) ∧
      (TypingGraph.Wires tis s (i : Int) k → ∃ x, o'.inputs[j]? = some x ∧ (sg.tensors.length : Int) ≤ x ∧
        TypingGraph.WiredTo (ptableOf (tblOf res)) tis stF.model s sg' (i : Int) k x)) :
    UntouchedOperand env stF.model sg sg' o' j (i : Int) := by
  have C := S.ctx
  right
  refine ⟨tn, by omega, by rw [Int.toNat_natCast]; exact htn, ?_⟩
  obtain ⟨tn', q1, -, -, q4, q5, -⟩ :=
    TypingGraph.tensor_final _ env.model tis stF F s sg sg' hsg hsg' _ tn htn
  rcases noQuant_consumer_insts C tis S.gen s sg hsg i tn htn e he cs hcs k c hc hck hcx with
    ⟨-, hnw, hnr⟩ | ⟨⟨p, hp, hpx⟩, hw, hu⟩
  · left
    have hrec : sg'.tensors[i]? = some tn := by
      rcases q5 with rfl | ⟨p, hr, -⟩
      · exact q1
      · exact absurd hr (hnr p)
    refine ⟨hslot.1 hnw, by rw [Int.toNat_natCast]; exact hrec, ?_⟩
    intro hconst
    obtain ⟨c0, hc0⟩ := (isConst_nat env.model sg i tn htn).1 hconst
    rcases F.binv.bufs tn.buffer c0 hc0 with hb | ⟨s1, i1, p, pi, r1, r2, -⟩
    · rw [hb, hc0]
    · exfalso
      obtain ⟨p', hp'⟩ := S.sa.all tn.buffer c0 hc0 s1 i1 p s i r1 ⟨sg, tn, hsg, htn, rfl⟩ r2
      exact hnr p' hp'
  · right
    obtain ⟨x, hx, hxl, n, ti, ins, tx, ci, w0, w1, w2, w3, w4, w5, w6, w7, w8, w9, w10, w11, w12⟩ := hslot.2 hw
    have hxf : ins.xf = .addDequant := hu ti w1 w3 ins w2 w4 w5 w6
    have hnc : isConst env.model sg (i : Int) = false := by
      cases hcc : isConst env.model sg (i : Int) with
      | false => rfl
      | true =>
        have := const_noProd C (tn.name, e) he s sg i ⟨hsg, tn, htn, rfl⟩ hcc
        rw [hp] at this; cases this
    have hf32 : tn.dtype = Tables.ttFloat32 :=
      f32_loc C.nu s sg i tn hsg htn (((S.typ _ he).1 p hp).elim fun sgq hq => ⟨sgq, hq.1, hq.2.1 hpx⟩)
    obtain ⟨pp, pi, ty, nm, tn0, -, -, -, hrec⟩ := w8
    rw [if_neg (by rw [hxf]; decide)] at hrec
    subst hrec
    have hxn : x.toNat = n := by omega
    refine ⟨hnc, hf32, x, _, ci, hx, hxl, by rw [hxn]; exact w7, rfl, rfl, rfl, w9, ?_, w11, w12⟩
    rw [w10, hxf]; rfl

end BySide

/-! ## C03.srq_op_typed -/

/-- the integer tensor type of a bit width -/
def intOfBits (b : Nat) : Nat :=
  if b ≤ 4 then Tables.ttInt4 else if b ≤ 8 then Tables.ttInt8 else if b ≤ 16 then Tables.ttInt16
  else if b ≤ 32 then Tables.ttInt32 else Tables.ttInt64

theorem dtypeOf_intOfBits (b : Nat) (d : Bool) (ty : Nat) (h : dtypeOf ⟨true, b, d⟩ = .ok ty) : ty = intOfBits b := by
  unfold dtypeOf at h
  unfold intOfBits
  simp only [if_true] at h
  repeat' split at h
  all_goals cases h
  all_goals simp [*]

/-- a record that holds a uniform parameter object of `b` bits: integer of that width, with parameters -/
theorem holds_uniform (tbl : List Param) (qp : Arith.QParams) (d : Option Arith.IArr) (tn : Tensor)
    (h : HoldsParam tbl (.uniform qp d) tn) : tn.dtype = intOfBits qp.bits ∧ tn.quant.isSome = true := by
  obtain ⟨pid, ty, -, h2, h3, h4⟩ := h
  exact ⟨h3.trans (dtypeOf_intOfBits _ _ _ h2), by rw [h4 rfl]; rfl⟩

theorem tensorAt_of_get (sg : Subgraph) (t : Int) (tn : Tensor) (h0 : 0 ≤ t)
    (h : sg.tensors[t.toNat]? = some tn) : tensorAt sg t = .ok tn := by
  have hlt : t.toNat < sg.tensors.length := (List.getElem?_eq_some_iff.1 h).1
  have hcond : ¬ (False ∨ t ≥ (sg.tensors.length : Int)) := by
    rintro (hc | hc)
    · exact hc
    · omega
  unfold tensorAt Py.index
  simp only [show ¬ t < 0 by omega, if_false]
  rw [if_neg hcond, h]

/-- the recipe resolves operator `op` to the min/max algorithm with config `cfg` -/
def ResolvesMinMax (rx : String → String → Bool) (env : Env) (st : Recipe.State) (sg : Subgraph) (op : Op)
    (nm : String) (cfg : OpCfg) : Prop :=
  ∃ code scope, env.model.opcodes[op.code]? = some code ∧ opNameOfCode code = some nm ∧
    opScope sg op = .ok scope ∧ Recipe.resolve rx st nm scope = (Tables.algMinMax, cfg)

theorem opReqs_minmax (rx : String → String → Bool) (env : Env) (st : Recipe.State) (s : Nat) (sg : Subgraph)
    (op : Op) (k : Int) (nm : String) (cfg : OpCfg) (hr : ResolvesMinMax rx env st sg op nm cfg)
    (qs0 qs1 : Qsvs) (rs : List CReq) (h : opReqs rx env st s sg qs0 (op, none, k) = .ok (rs, qs1)) :
    ∃ fn, (nm, fn) ∈ minmaxOps ∧
      materializeOp env sg qs0 { sgIdx := s, op := op, opName := nm, opId := k, cfg := cfg } Tables.algMinMax fn
        = .ok (rs, qs1) := by
  obtain ⟨code, scope, hcode, hnm, hsc, hres⟩ := hr
  unfold opReqs keyOf at h
  simp only [hcode, pure, Except.pure, hnm, hsc, hres] at h
  have hne : (Tables.algMinMax == Tables.algNoQuantize) = false := by decide
  rw [hne] at h
  simp only [Bool.false_eq_true, if_false, registry_minmax] at h
  cases hf : Py.dictGet? minmaxOps nm with
  | none => rw [hf] at h; cases h
  | some fn =>
    rw [hf] at h
    exact ⟨fn, dictGet?_mem_key _ _ _ hf, h⟩

/-- **C03.srq_op_typed** (graph part: operands in regular slots, operands that are not float32, results).
    For an operator that the recipe resolves to the min/max algorithm with a static-range config of
    activation width `a.bits`:
    * every float32 result tensor is, in the output, an integer tensor of that width with parameters;
    * in every regular operand slot (`slotRole = 0`) that held a float32 RUNTIME tensor `t`, the operator
      reads an integer tensor of that width with parameters that stands for `t`: `t` itself, or the result
      of an inserted QUANTIZE of `t`;
    * in every regular operand slot that held a float32 CONSTANT `t`, the operator reads `t` itself, which
      is an integer tensor of the width of the tensor config in force (weight config for the operators that
      support weight-only / dynamic-range quantization, activation config otherwise), and the buffer of `t`
      holds the packed integer data;
    * every operand that is not float32 (indices, shapes, axes), outside the bias slot, is
      `UntouchedOperand`. -/
theorem srq_op_typed (rx : String → String → Bool) (env : Env) (st : Recipe.State)
    (qsvs : Option Qsvs) (m' : Model) (tbl : List Param) (hnf : PipelineWF.NF env st)
    (h : quantizePure rx env st qsvs = .ok (m', tbl))
    (s : Nat) (sg sg' : Subgraph) (hsg : env.model.subgraphs[s]? = some sg) (hsg' : m'.subgraphs[s]? = some sg')
    (k : Nat) (op : Op) (hop : sg.ops[k]? = some op) (nm : String) (cfg : OpCfg)
    (hres : ResolvesMinMax rx env st sg op nm cfg) (hsrq : isSRQ cfg = true) (a : TCfg) (ha : cfg.act = some a) :
    ∃ o', o' ∈ sg'.ops ∧ o'.orig = some k ∧ (∀ o'' ∈ sg'.ops, o''.orig = some k → o'' = o') ∧
      o'.code = op.code ∧ o'.outputs = op.outputs ∧ o'.inputs.length = op.inputs.length ∧
      o'.inputs.map (Skeleton.root sg') = op.inputs ∧
      -- results
      (∀ (j : Nat) (t : Int) (tn : Tensor), op.outputs[j]? = some t → t ≠ -1 → sg.tensors[t.toNat]? = some tn →
        tn.dtype = Tables.ttFloat32 →
        ∃ tn', sg'.tensors[t.toNat]? = some tn' ∧ tn'.dtype = intOfBits a.bits.toNat ∧ tn'.quant.isSome = true) ∧
      -- float32 operands in regular slots
      (∀ (j : Nat) (t : Int) (tn : Tensor), op.inputs[j]? = some t → t ≠ -1 → sg.tensors[t.toNat]? = some tn →
        tn.dtype = Tables.ttFloat32 → PipeNF.slotRole nm j = 0 →
        (isConst env.model sg t = false →
          ∃ z tz, o'.inputs[j]? = some z ∧ Skeleton.root sg' z = t ∧ sg'.tensors[z.toNat]? = some tz ∧
            tz.dtype = intOfBits a.bits.toNat ∧ tz.quant.isSome = true ∧
            (z = t ∨ ((sg.tensors.length : Int) ≤ z ∧
              ∃ ci, ({ code := ci, inputs := [t], outputs := [z], orig := none } : Op) ∈ sg'.ops ∧
                m'.opcodes[ci]? = some Tables.opQuantize))) ∧
        (isConst env.model sg t = true → ∀ tc, MatParams.tcfgOf env
            { sgIdx := s, op := op, opName := nm, opId := (k : Int), cfg := cfg } tn = some tc →
          ∃ tz pid, o'.inputs[j]? = some t ∧ sg'.tensors[t.toNat]? = some tz ∧
            tz.dtype = intOfBits tc.bits.toNat ∧ tz.quant = some pid ∧
            m'.buffers[tn.buffer]? = some (some (.inr pid)))) ∧
      -- operands that are not float32
      (∀ (j : Nat) (t : Int) (tn : Tensor), op.inputs[j]? = some t → t ≠ -1 → sg.tensors[t.toNat]? = some tn →
        tn.dtype ≠ Tables.ttFloat32 → PipeNF.biasSlot nm ≠ some j → UntouchedOperand env m' sg sg' o' j t) := by
  obtain ⟨res, tis, S⟩ := stages rx env st qsvs m' tbl hnf h
  obtain ⟨stF, rfl, F⟩ := TypingGraph.run_fin _ env.model m' tis hnf.wf hnf.tagged S.ok S.cd S.run
  have C := S.ctx
  have htbl := S.tbl_eq
  subst htbl
  obtain ⟨qs, hfold⟩ := S.fold
  obtain ⟨qs0, rs, qs1, hreq, hhas⟩ := TypingReq.generate_has rx env st _ qs res hfold s sg hsg _
    (mem_allOps_real sg k op hop)
  obtain ⟨fn, hfn, hmat⟩ := opReqs_minmax rx env st s sg op k nm cfg hres qs0 qs1 rs hreq
  have hnamed : PipeNF.OpNamed env.model op nm := by
    obtain ⟨code, scope, h1, h2, -⟩ := hres
    exact ⟨code, h1, h2⟩
  have hmand := (hnf.mandatory sg (List.mem_of_getElem? hsg) op (List.mem_of_getElem? hop) nm hnamed)
  obtain ⟨R1, R2, R3⟩ := TypingSrq.materializeOp_srq env sg qs0
    { sgIdx := s, op := op, opName := nm, opId := (k : Int), cfg := cfg } fn rs qs1 hfn hsrq
    (fun b hb => (hmand b hb).1) hmat
  have hsgOK : GraphStep.SgOK env.model sg :=
    ((GraphStep.modelOK_iff env.model).1 C.wf).2.1 sg (List.mem_of_getElem? hsg)
  have hopOK := hsgOK.ops k op hop
  obtain ⟨o', m1, m2, m3, m4, m5, m6, m7, m8⟩ :=
    TypingGraph.orig_op_final _ env.model tis stF F hnf.tagged s sg sg' hsg hsg' k op hop
  refine ⟨o', m1, m2, m3, m4, m5, m6, m7, ?_, ?_, ?_⟩
  · -- results
    intro j t tn hj hne htn hf
    have h0 : 0 ≤ t := by
      rcases hopOK.outs t (List.mem_of_getElem? hj) with h | h
      · exact absurd h hne
      · exact h.1.1
    have hcast : ((t.toNat : Nat) : Int) = t := by omega
    have hnc : isConst env.model sg t = false := by
      rcases hopOK.outs t (List.mem_of_getElem? hj) with h | h
      · exact absurd h hne
      · exact h.2.2.1
    have hcd : constData env tn = none := by
      have := constData_isSome env sg t.toNat tn htn
      rw [hcast, hnc] at this
      cases hc : constData env tn with
      | none => rfl
      | some v => rw [hc] at this; cases this
    obtain ⟨qp, d, hmem, hb⟩ := R3 j t tn a hj hne (tensorAt_of_get sg t tn h0 htn) hf ha
      (by rw [MatParams.tcfgOf_nonconst _ _ _ hcd]; exact ha)
    obtain ⟨e, he, hp, -⟩ := hhas _ hmem
    have hname : (MatParams.srqReq tn.name (k : Int) false (constData env tn).isSome (some (.uniform qp d))).name
        = tn.name := rfl
    rw [hname] at he
    have hprod := hp _ rfl
    obtain ⟨tn', q1, q2⟩ := producer_dequant_tensor S F s sg sg' hsg hsg' t.toNat tn htn e
      (dictGet?_mem_key _ _ _ he) _ hprod rfl _ rfl
    obtain ⟨u1, u2⟩ := holds_uniform _ _ _ _ q2
    exact ⟨tn', q1, by rw [u1, hb], u2⟩
  · -- float32 operands in regular slots
    intro j t tn hj hne htn hf hrole
    have h0 : 0 ≤ t := by
      rcases hopOK.ins t (List.mem_of_getElem? hj) with h | h
      · exact absurd h hne
      · exact h.1.1
    have hcast : ((t.toNat : Nat) : Int) = t := by omega
    have hslot := m8 j t hj
    rw [← hcast] at hslot
    have hci := constData_isSome env sg t.toNat tn htn
    rw [hcast] at hci
    refine ⟨?_, ?_⟩
    · intro hnc
      have hcd : constData env tn = none := by
        rw [hnc] at hci
        cases hc : constData env tn with
        | none => rfl
        | some v => rw [hc] at hci; cases hci
      obtain ⟨qp, d, hmem, hb⟩ := R1 j t tn hj hne hrole (tensorAt_of_get sg t tn h0 htn) hf a
        (by rw [MatParams.tcfgOf_nonconst _ _ _ hcd]; exact ha)
      rw [hcd] at hmem
      obtain ⟨e, he, -, hc⟩ := hhas _ hmem
      have hname : (MatParams.srqReq tn.name (k : Int) true (none : Option (Nd.Arr Rat)).isSome
          (some (.uniform qp d))).name = tn.name := rfl
      rw [hname] at he
      obtain ⟨ecs, hecs, hsub⟩ := hc _ rfl
      obtain ⟨z, tz, z1, z2, z3, z4⟩ := consumer_addQuant_slot S F s sg sg' hsg hsg' t.toNat tn htn e
        (dictGet?_mem_key _ _ _ he) ecs hecs _ (hsub _ List.mem_cons_self) k rfl rfl _ rfl o' j hslot
      obtain ⟨u1, u2⟩ := holds_uniform _ _ _ _ z3
      have hroot : Skeleton.root sg' z = t := by
        have := congrArg (·[j]?) m7
        simp only [List.getElem?_map, z1, hj, Option.map_some, Option.some.injEq] at this
        exact this
      refine ⟨z, tz, z1, hroot, z2, by rw [u1, hb], u2, ?_⟩
      rcases z4 with rfl | ⟨w1, w2, ci, w3, w4⟩
      · exact .inl hcast
      · rw [hcast] at w3
        exact .inr ⟨w1, ci, w3, w4⟩
    · intro hcc tc htc
      have hcd : (constData env tn).isSome = true := by rw [hci]; exact hcc
      obtain ⟨qp, d, hmem, hb⟩ := R1 j t tn hj hne hrole (tensorAt_of_get sg t tn h0 htn) hf tc htc
      rw [hcd] at hmem
      obtain ⟨e, he, -, hc⟩ := hhas _ hmem
      have hname : (MatParams.srqReq tn.name (k : Int) true true (some (.uniform qp d))).name = tn.name := rfl
      rw [hname] at he
      obtain ⟨ecs, hecs, hsub⟩ := hc _ rfl
      have hmemE := dictGet?_mem_key _ _ _ he
      have hprod : e.producer = none :=
        const_noProd C (tn.name, e) hmemE s sg t.toNat ⟨hsg, tn, htn, rfl⟩ (by rw [hcast]; exact hcc)
      obtain ⟨tz, pid, c1, c2, c3, c4, c5, -⟩ := consumer_const_slot S F s sg sg' hsg hsg' t.toNat tn htn e hmemE
        hprod ecs hecs _ (hsub _ List.mem_cons_self) k rfl .quantTensor rfl (.inl rfl) _ rfl o' j hslot
      obtain ⟨pid', ty, d1, d2, d3, d4⟩ := c2
      rw [c3] at d1
      cases d1
      refine ⟨tz, pid, by rw [← hcast]; exact c5 rfl, c1, ?_, d4 rfl, c4⟩
      rw [d3, dtypeOf_intOfBits _ _ _ d2, hb]
  · -- operands that are not float32
    intro j t tn hj hne htn hnf32 hnb
    have h0 : 0 ≤ t := by
      rcases hopOK.ins t (List.mem_of_getElem? hj) with h | h
      · exact absurd h hne
      · exact h.1.1
    have hcast : ((t.toNat : Nat) : Int) = t := by omega
    have hslot := m8 j t hj
    rw [← hcast] at hslot
    have hmem := R2 j t tn hj hne (tensorAt_of_get sg t tn h0 htn) hnf32 hnb
    obtain ⟨e, he, -, hc⟩ := hhas _ hmem
    have hname : (noQuantReq tn.name (k : Int) true).name = tn.name := rfl
    rw [hname] at he
    obtain ⟨ecs, hecs, hsub⟩ := hc _ rfl
    have := consumer_noQuant_slot S F s sg sg' hsg hsg' t.toNat tn htn e (dictGet?_mem_key _ _ _ he) ecs hecs _
      (hsub _ List.mem_cons_self) k rfl rfl o' j hslot
    rw [hcast] at this
    exact this

theorem dataSlot_lt_bias (k : String) (b : Nat) (h : PipeNF.biasSlot k = some b) : PipeNF.dataSlot k < b := by
  unfold PipeNF.biasSlot at h
  unfold PipeNF.dataSlot
  by_cases hk : k = "CONV_2D_TRANSPOSE"
  · rw [if_pos hk] at h ⊢
    cases h
    decide
  · rw [if_neg hk] at h ⊢
    split at h
    · cases h; decide
    · cases h

/-- **C03.srq_bias_typed.**  The bias of a convolution-like operator (FULLY_CONNECTED, CONV_2D,
    DEPTHWISE_CONV_2D, CONV_2D_TRANSPOSE) under a static-range config: it is a constant, the operator reads
    it directly, it carries quantization parameters and its buffer holds the packed integer data; when the
    data operand is a runtime tensor its type is int32, or int64 for 16-bit activations. -/
theorem srq_bias_typed (rx : String → String → Bool) (env : Env) (st : Recipe.State)
    (qsvs : Option Qsvs) (m' : Model) (tbl : List Param) (hnf : PipelineWF.NF env st)
    (h : quantizePure rx env st qsvs = .ok (m', tbl))
    (s : Nat) (sg sg' : Subgraph) (hsg : env.model.subgraphs[s]? = some sg) (hsg' : m'.subgraphs[s]? = some sg')
    (k : Nat) (op : Op) (hop : sg.ops[k]? = some op) (nm : String) (cfg : OpCfg)
    (hres : ResolvesMinMax rx env st sg op nm cfg) (hsrq : isSRQ cfg = true) (a : TCfg) (ha : cfg.act = some a)
    (iB : Nat) (hbs : PipeNF.biasSlot nm = some iB) (hnemb : nm ≠ "EMBEDDING_LOOKUP")
    (t : Int) (hj : op.inputs[iB]? = some t) (hne : t ≠ -1) :
    ∃ o' tn tz pid a_in, o' ∈ sg'.ops ∧ o'.orig = some k ∧ sg.tensors[t.toNat]? = some tn ∧
      isConst env.model sg t = true ∧ o'.inputs[iB]? = some t ∧ sg'.tensors[t.toNat]? = some tz ∧
      tz.quant = some pid ∧ m'.buffers[tn.buffer]? = some (some (.inr pid)) ∧
      op.inputs[PipeNF.dataSlot nm]? = some a_in ∧
      (isConst env.model sg a_in = false →
        tz.dtype = intOfBits (if a.bits.toNat = 16 then 64 else 32)) := by
  obtain ⟨res, tis, S⟩ := stages rx env st qsvs m' tbl hnf h
  obtain ⟨stF, rfl, F⟩ := TypingGraph.run_fin _ env.model m' tis hnf.wf hnf.tagged S.ok S.cd S.run
  have C := S.ctx
  have htbl := S.tbl_eq
  subst htbl
  obtain ⟨qs, hfold⟩ := S.fold
  obtain ⟨qs0, rs, qs1, hreq, hhas⟩ := TypingReq.generate_has rx env st _ qs res hfold s sg hsg _
    (mem_allOps_real sg k op hop)
  obtain ⟨fn, hfn, hmat⟩ := opReqs_minmax rx env st s sg op k nm cfg hres qs0 qs1 rs hreq
  have hnamed : PipeNF.OpNamed env.model op nm := by
    obtain ⟨code, scope, h1, h2, -⟩ := hres
    exact ⟨code, h1, h2⟩
  have hmand := (hnf.mandatory sg (List.mem_of_getElem? hsg) op (List.mem_of_getElem? hop) nm hnamed)
  obtain ⟨bt, tin, a_in, qp, q, b1, b2, b3, b4, b5, b6⟩ := TypingSrq.materializeOp_srq_bias env sg qs0
    { sgIdx := s, op := op, opName := nm, opId := (k : Int), cfg := cfg } fn rs qs1 hfn hsrq
    (fun b hb => (hmand b hb).1) hmat iB hbs hnemb t hj hne
  have hsgOK : GraphStep.SgOK env.model sg :=
    ((GraphStep.modelOK_iff env.model).1 C.wf).2.1 sg (List.mem_of_getElem? hsg)
  have hopOK := hsgOK.ops k op hop
  obtain ⟨o', m1, m2, m3, m4, m5, m6, m7, m8⟩ :=
    TypingGraph.orig_op_final _ env.model tis stF F hnf.tagged s sg sg' hsg hsg' k op hop
  have h0 : 0 ≤ t := by
    rcases hopOK.ins t (List.mem_of_getElem? hj) with h | h
    · exact absurd h hne
    · exact h.1.1
  have hcast : ((t.toNat : Nat) : Int) = t := by omega
  have htn : sg.tensors[t.toNat]? = some bt := tensorAt_get sg t bt h0 b1
  have hcc : isConst env.model sg t = true := by
    have := constData_isSome env sg t.toNat bt htn
    rw [hcast] at this
    rw [← this]; exact b2
  have hslot := m8 iB t hj
  rw [← hcast] at hslot
  obtain ⟨e, he, -, hc⟩ := hhas _ b5
  have hname : (MatParams.srqReq bt.name (k : Int) true true (some (.uniform qp (some q)))).name = bt.name := rfl
  rw [hname] at he
  obtain ⟨ecs, hecs, hsub⟩ := hc _ rfl
  have hmemE := dictGet?_mem_key _ _ _ he
  have hprod : e.producer = none :=
    const_noProd C (bt.name, e) hmemE s sg t.toNat ⟨hsg, bt, htn, rfl⟩ (by rw [hcast]; exact hcc)
  obtain ⟨tz, pid, c1, c2, c3, c4, c5, -⟩ := consumer_const_slot S F s sg sg' hsg hsg' t.toNat bt htn e hmemE
    hprod ecs hecs _ (hsub _ List.mem_cons_self) k rfl .quantTensor rfl (.inl rfl) _ rfl o' iB hslot
  obtain ⟨pid', ty, d1, d2, d3, d4⟩ := c2
  rw [c3] at d1
  cases d1
  refine ⟨o', bt, tz, pid, a_in, m1, m2, htn, hcc, by rw [← hcast]; exact c5 rfl, c1, d4 rfl, c4, b3, ?_⟩
  intro hnc
  have ha0 : 0 ≤ a_in := by
    rcases hopOK.ins a_in (List.mem_of_getElem? b3) with h | h
    · rw [h] at hnc
      rcases hopOK.ins (-1) (by rw [← h]; exact List.mem_of_getElem? b3) with h' | h'
      · -- `tensorAt sg (-1)` reads the last tensor; the mandatory-operand hypothesis excludes `-1` here
        exfalso
        exact (hmand iB hbs).1 _ (dataSlot_lt_bias nm iB hbs) (by rw [b3, h])
      · exact absurd h'.1.1 (by decide)
    · exact h.1.1
  have hcastA : ((a_in.toNat : Nat) : Int) = a_in := by omega
  have htin : sg.tensors[a_in.toNat]? = some tin := tensorAt_get sg a_in tin ha0 b4
  have hcd : constData env tin = none := by
    have := constData_isSome env sg a_in.toNat tin htin
    rw [hcastA, hnc] at this
    cases hc' : constData env tin with
    | none => rfl
    | some v => rw [hc'] at this; cases this
  have hb := b6 a (by rw [MatParams.tcfgOf_nonconst _ _ _ hcd]; exact ha)
  rw [d3, dtypeOf_intOfBits _ _ _ d2, hb]

/-! ## C03.drq_op_typed / C03.wo_op_typed -/

/-- **operators under a min/max config that quantizes no activations** (dynamic range: constants are
    `[QUANTIZE_TENSOR]`; weight only: constants are `[ADD_DEQUANTIZE]`).
    * every result tensor has its ORIGINAL record;
    * every operand that is a runtime tensor, or not float32, or the bias of a convolution-like operator,
      is `UntouchedOperand` (in particular the bias stays float);
    * a float32 constant in a regular slot, for which a tensor config `tc` is in force, becomes an integer
      tensor of `tc.bits` bits with parameters over a buffer with the packed data; the operator reads it
      directly (QUANTIZE_TENSOR) or through an inserted DEQUANTIZE whose result is a new float32 tensor
      without parameters (ADD_DEQUANTIZE). -/
theorem noact_op_typed (rx : String → String → Bool) (env : Env) (st : Recipe.State)
    (qsvs : Option Qsvs) (m' : Model) (tbl : List Param) (hnf : PipelineWF.NF env st)
    (h : quantizePure rx env st qsvs = .ok (m', tbl))
    (s : Nat) (sg sg' : Subgraph) (hsg : env.model.subgraphs[s]? = some sg) (hsg' : m'.subgraphs[s]? = some sg')
    (k : Nat) (op : Op) (hop : sg.ops[k]? = some op) (nm : String) (cfg : OpCfg)
    (hres : ResolvesMinMax rx env st sg op nm cfg) (hmode : TypingSrq.NoActMode cfg) :
    ∃ o', o' ∈ sg'.ops ∧ o'.orig = some k ∧ (∀ o'' ∈ sg'.ops, o''.orig = some k → o'' = o') ∧
      o'.code = op.code ∧ o'.outputs = op.outputs ∧ o'.inputs.length = op.inputs.length ∧
      o'.inputs.map (Skeleton.root sg') = op.inputs ∧
      -- results
      (∀ (j : Nat) (t : Int), op.outputs[j]? = some t → t ≠ -1 →
        ∃ tn, sg.tensors[t.toNat]? = some tn ∧ sg'.tensors[t.toNat]? = some tn) ∧
      -- runtime operands, operands that are not float32, the bias
      (∀ (j : Nat) (t : Int) (tn : Tensor), op.inputs[j]? = some t → t ≠ -1 → sg.tensors[t.toNat]? = some tn →
        (isConst env.model sg t = false ∨ tn.dtype ≠ Tables.ttFloat32 ∨
          (PipeNF.biasSlot nm = some j ∧ nm ≠ "EMBEDDING_LOOKUP")) →
        UntouchedOperand env m' sg sg' o' j t) ∧
      -- float32 constants in regular slots
      (∀ (j : Nat) (t : Int) (tn : Tensor), op.inputs[j]? = some t → t ≠ -1 → sg.tensors[t.toNat]? = some tn →
        PipeNF.slotRole nm j = 0 → tn.dtype = Tables.ttFloat32 → isConst env.model sg t = true →
        ∀ tc, MatParams.tcfgOf env { sgIdx := s, op := op, opName := nm, opId := (k : Int), cfg := cfg } tn = some tc →
        ∃ x tz pid, tensorXfs cfg true true = .ok [x] ∧ sg'.tensors[t.toNat]? = some tz ∧
          ((x = .quantTensor ∨ x = .addDequant) →
            tz.dtype = intOfBits tc.bits.toNat ∧ tz.quant = some pid ∧
            m'.buffers[tn.buffer]? = some (some (.inr pid)) ∧
            (x = .quantTensor → o'.inputs[j]? = some t) ∧
            (x = .addDequant → ∃ z tzz ci, o'.inputs[j]? = some z ∧ (sg.tensors.length : Int) ≤ z ∧
              sg'.tensors[z.toNat]? = some tzz ∧ tzz.dtype = Tables.ttFloat32 ∧ tzz.quant = none ∧
              tzz.buffer = 0 ∧ ({ code := ci, inputs := [t], outputs := [z], orig := none } : Op) ∈ sg'.ops ∧
              m'.opcodes[ci]? = some Tables.opDequantize ∧ Skeleton.root sg' z = t))) := by
  obtain ⟨res, tis, S⟩ := stages rx env st qsvs m' tbl hnf h
  obtain ⟨stF, rfl, F⟩ := TypingGraph.run_fin _ env.model m' tis hnf.wf hnf.tagged S.ok S.cd S.run
  have C := S.ctx
  have htbl := S.tbl_eq
  subst htbl
  obtain ⟨qs, hfold⟩ := S.fold
  obtain ⟨qs0, rs, qs1, hreq, hhas⟩ := TypingReq.generate_has rx env st _ qs res hfold s sg hsg _
    (mem_allOps_real sg k op hop)
  obtain ⟨fn, hfn, hmat⟩ := opReqs_minmax rx env st s sg op k nm cfg hres qs0 qs1 rs hreq
  have hnamed : PipeNF.OpNamed env.model op nm := by
    obtain ⟨code, scope, h1, h2, -⟩ := hres
    exact ⟨code, h1, h2⟩
  have hmand := (hnf.mandatory sg (List.mem_of_getElem? hsg) op (List.mem_of_getElem? hop) nm hnamed)
  obtain ⟨R1, R2, R3⟩ := TypingSrq.materializeOp_noact env sg qs0
    { sgIdx := s, op := op, opName := nm, opId := (k : Int), cfg := cfg } fn rs qs1 hfn hmode
    (fun b hb => (hmand b hb).1) hmat
  have hsgOK : GraphStep.SgOK env.model sg :=
    ((GraphStep.modelOK_iff env.model).1 C.wf).2.1 sg (List.mem_of_getElem? hsg)
  have hopOK := hsgOK.ops k op hop
  obtain ⟨o', m1, m2, m3, m4, m5, m6, m7, m8⟩ :=
    TypingGraph.orig_op_final _ env.model tis stF F hnf.tagged s sg sg' hsg hsg' k op hop
  have hin0 : ∀ (j : Nat) (t : Int), op.inputs[j]? = some t → t ≠ -1 → 0 ≤ t := by
    intro j t hj hne
    rcases hopOK.ins t (List.mem_of_getElem? hj) with h | h
    · exact absurd h hne
    · exact h.1.1
  refine ⟨o', m1, m2, m3, m4, m5, m6, m7, ?_, ?_, ?_⟩
  · -- results
    intro j t hj hne
    have hv : GraphStep.ValidT sg t := by
      rcases hopOK.outs t (List.mem_of_getElem? hj) with h | h
      · exact absurd h hne
      · exact h.1
    have h0 := hv.1
    have hlt : t.toNat < sg.tensors.length := by have := hv.2; omega
    have htn : sg.tensors[t.toNat]? = some sg.tensors[t.toNat] := List.getElem?_eq_getElem hlt
    obtain ⟨prm, hmem⟩ := R1 j t _ hj hne (tensorAt_of_get sg t _ h0 htn)
    obtain ⟨e, he, hp, -⟩ := hhas _ hmem
    have hname : (TypingSrq.modeReq (sg.tensors[t.toNat]).name (k : Int) false [.noQuant] prm).name
        = (sg.tensors[t.toNat]).name := rfl
    rw [hname] at he
    have hnr := noQuant_producer_insts C tis S.gen s sg hsg t.toNat _ htn e (dictGet?_mem_key _ _ _ he) _
      (hp _ rfl) rfl
    obtain ⟨tn', q1, -, -, -, q5, -⟩ := TypingGraph.tensor_final _ env.model tis stF F s sg sg' hsg hsg' _ _ htn
    refine ⟨_, htn, ?_⟩
    rcases q5 with rfl | ⟨p, hr, -⟩
    · exact q1
    · exact absurd hr (hnr p)
  · -- `[NO_QUANTIZE]` operands
    intro j t tn hj hne htn hwhy
    have h0 := hin0 j t hj hne
    have hcast : ((t.toNat : Nat) : Int) = t := by omega
    have hslot := m8 j t hj
    rw [← hcast] at hslot
    have hci := constData_isSome env sg t.toNat tn htn
    rw [hcast] at hci
    have hwhy' : (constData env tn).isSome = false ∨ tn.dtype ≠ Tables.ttFloat32 ∨
        (PipeNF.biasSlot nm = some j ∧ nm ≠ "EMBEDDING_LOOKUP") := by
      rcases hwhy with h1 | h2 | h3
      · exact .inl (by rw [hci]; exact h1)
      · exact .inr (.inl h2)
      · exact .inr (.inr h3)
    obtain ⟨prm, hmem⟩ := R2 j t tn hj hne (tensorAt_of_get sg t tn h0 htn) hwhy'
    obtain ⟨e, he, -, hc⟩ := hhas _ hmem
    have hname : (TypingSrq.modeReq tn.name (k : Int) true [.noQuant] prm).name = tn.name := rfl
    rw [hname] at he
    obtain ⟨ecs, hecs, hsub⟩ := hc _ rfl
    have := consumer_noQuant_slot S F s sg sg' hsg hsg' t.toNat tn htn e (dictGet?_mem_key _ _ _ he) ecs hecs _
      (hsub _ List.mem_cons_self) k rfl rfl o' j hslot
    rw [hcast] at this
    exact this
  · -- float32 constants in regular slots
    intro j t tn hj hne htn hrj hf hcc tc htc
    have h0 := hin0 j t hj hne
    have hcast : ((t.toNat : Nat) : Int) = t := by omega
    have hslot := m8 j t hj
    rw [← hcast] at hslot
    have hci := constData_isSome env sg t.toNat tn htn
    rw [hcast] at hci
    obtain ⟨xfs, prm, hx, hmem, hbits⟩ := R3 j t tn hj hne (tensorAt_of_get sg t tn h0 htn) hrj hf
      (by rw [hci]; exact hcc)
    obtain ⟨qp, d, rfl, hb⟩ := hbits tc htc
    obtain ⟨e, he, -, hc⟩ := hhas _ hmem
    have hname : (TypingSrq.modeReq tn.name (k : Int) true xfs (some (.uniform qp d))).name = tn.name := rfl
    rw [hname] at he
    obtain ⟨ecs, hecs, hsub⟩ := hc _ rfl
    have hmemE := dictGet?_mem_key _ _ _ he
    obtain ⟨x, rfl, -⟩ := Locality.tensorXfs_shape _ _ _ _ hx
    have hprod : e.producer = none :=
      const_noProd C (tn.name, e) hmemE s sg t.toNat ⟨hsg, tn, htn, rfl⟩ (by rw [hcast]; exact hcc)
    obtain ⟨tz0, hz0, -⟩ := TypingGraph.tensor_final _ env.model tis stF F s sg sg' hsg hsg' _ tn htn
    by_cases hxr : x = .quantTensor ∨ x = .addDequant
    · obtain ⟨tz, pid, c1, c2, c3, c4, c5, c6⟩ := consumer_const_slot S F s sg sg' hsg hsg' t.toNat tn htn e hmemE
        hprod ecs hecs _ (hsub _ List.mem_cons_self) k rfl x rfl hxr _ rfl o' j hslot
      obtain ⟨pid', ty, d1, d2, d3, d4⟩ := c2
      rw [c3] at d1
      cases d1
      refine ⟨x, tz, pid, hx, c1, fun _ => ⟨?_, d4 rfl, c4, ?_, ?_⟩⟩
      · rw [d3, dtypeOf_intOfBits _ _ _ d2, hb]
      · intro hq; rw [← hcast]; exact c5 hq
      · intro hq
        obtain ⟨z, tzz, ci, z1, z2, z3, z4, z5, z6, z7, z8, z9⟩ := c6 hq
        rw [hcast] at z7 z9
        exact ⟨z, tzz, ci, z1, z2, z3, z4, z5, z6, z7, z8, z9⟩
    · exact ⟨x, tz0, 0, hx, hz0, fun hq => absurd hq hxr⟩

/-! ## C03.f16_op_typed (float casting) -/

/-- the recipe resolves operator `op` to the float-casting algorithm -/
def ResolvesFloatCast (rx : String → String → Bool) (env : Env) (st : Recipe.State) (sg : Subgraph) (op : Op)
    (nm : String) : Prop :=
  ∃ code scope cfg, env.model.opcodes[op.code]? = some code ∧ opNameOfCode code = some nm ∧
    opScope sg op = .ok scope ∧ Recipe.resolve rx st nm scope = (Tables.algFloatCasting, cfg)

theorem opReqs_floatcast (rx : String → String → Bool) (env : Env) (st : Recipe.State) (s : Nat) (sg : Subgraph)
    (op : Op) (k : Int) (nm : String) (hr : ResolvesFloatCast rx env st sg op nm)
    (qs0 qs1 : Qsvs) (rs : List CReq) (h : opReqs rx env st s sg qs0 (op, none, k) = .ok (rs, qs1)) :
    ∃ cfg iB, PipeNF.biasSlot nm = some iB ∧
      floatCastOp env sg { sgIdx := s, op := op, opName := nm, opId := k, cfg := cfg } (PipeNF.dataSlot nm) 1 iB
        = .ok rs := by
  obtain ⟨code, scope, cfg, hcode, hnm, hsc, hres⟩ := hr
  unfold opReqs keyOf at h
  simp only [hcode, pure, Except.pure, hnm, hsc, hres] at h
  have hne : (Tables.algFloatCasting == Tables.algNoQuantize) = false := by decide
  rw [hne] at h
  simp only [Bool.false_eq_true, if_false, registry_float] at h
  cases hf : Py.dictGet? floatOps nm with
  | none => rw [hf] at h; cases h
  | some fn =>
    rw [hf] at h
    simp only [] at h
    have hmem : (nm, fn) ∈ floatOps := dictGet?_mem_key _ _ _ hf
    have T := float_table _ hmem
    simp only at T
    rw [materializeOp] at h
    have hF : (Tables.algFloatCasting == Tables.algFloatCasting) = true := by decide
    rw [if_pos hF] at h
    by_cases h1 : (fn == "materialize_fc_conv" || fn == "materialize_embedding_lookup") = true
    · rw [if_pos h1] at h
      simp only [Bool.or_eq_true, beq_iff_eq] at h1
      obtain ⟨hb, -, hds⟩ := T.1 h1
      obtain ⟨r, hr', h⟩ := GraphInv.bind_ok _ _ _ h
      cases h
      exact ⟨cfg, 2, hb, by rw [hds]; exact hr'⟩
    · rw [if_neg h1] at h
      by_cases h2 : (fn == "materialize_conv2d_transpose") = true
      · rw [if_pos h2] at h
        obtain ⟨hb, -, hds⟩ := T.2 (eq_of_beq h2)
        obtain ⟨r, hr', h⟩ := GraphInv.bind_ok _ _ _ h
        cases h
        exact ⟨cfg, 3, hb, by rw [hds]; exact hr'⟩
      · rw [if_neg h2] at h
        cases h

/-- **C03.f16_op_typed.**  An operator under the float-casting algorithm: its weight (operand 1) is a
    constant that becomes a float16 tensor over a buffer with the packed float16 data, and the operator
    receives it through an inserted DEQUANTIZE whose result is a NEW float32 tensor without parameters; its
    data operand and its bias are `UntouchedOperand`; its first result keeps its record. -/
theorem f16_op_typed (rx : String → String → Bool) (env : Env) (st : Recipe.State)
    (qsvs : Option Qsvs) (m' : Model) (tbl : List Param) (hnf : PipelineWF.NF env st)
    (h : quantizePure rx env st qsvs = .ok (m', tbl))
    (s : Nat) (sg sg' : Subgraph) (hsg : env.model.subgraphs[s]? = some sg) (hsg' : m'.subgraphs[s]? = some sg')
    (k : Nat) (op : Op) (hop : sg.ops[k]? = some op) (nm : String)
    (hres : ResolvesFloatCast rx env st sg op nm) :
    ∃ o' iB, o' ∈ sg'.ops ∧ o'.orig = some k ∧ (∀ o'' ∈ sg'.ops, o''.orig = some k → o'' = o') ∧
      o'.code = op.code ∧ o'.outputs = op.outputs ∧ o'.inputs.length = op.inputs.length ∧
      o'.inputs.map (Skeleton.root sg') = op.inputs ∧ PipeNF.biasSlot nm = some iB ∧
      -- the weight
      (∃ sW tw tz pid z tzz ci, op.inputs[1]? = some sW ∧ 0 ≤ sW ∧ sg.tensors[sW.toNat]? = some tw ∧
        isConst env.model sg sW = true ∧ sg'.tensors[sW.toNat]? = some tz ∧ tz.dtype = Tables.ttFloat16 ∧
        m'.buffers[tw.buffer]? = some (some (.inr pid)) ∧
        o'.inputs[1]? = some z ∧ (sg.tensors.length : Int) ≤ z ∧
        sg'.tensors[z.toNat]? = some tzz ∧ tzz.dtype = Tables.ttFloat32 ∧ tzz.quant = none ∧ tzz.buffer = 0 ∧
        ({ code := ci, inputs := [sW], outputs := [z], orig := none } : Op) ∈ sg'.ops ∧
        m'.opcodes[ci]? = some Tables.opDequantize ∧ Skeleton.root sg' z = sW) ∧
      -- the data operand
      (∃ sIn, op.inputs[PipeNF.dataSlot nm]? = some sIn ∧
        UntouchedOperand env m' sg sg' o' (PipeNF.dataSlot nm) sIn) ∧
      -- the bias
      (∀ b, op.inputs[iB]? = some b → UntouchedOperand env m' sg sg' o' iB b) ∧
      -- the first result
      (∃ sOut tn, op.outputs[0]? = some sOut ∧ sg.tensors[sOut.toNat]? = some tn ∧
        sg'.tensors[sOut.toNat]? = some tn) := by
  obtain ⟨res, tis, S⟩ := stages rx env st qsvs m' tbl hnf h
  obtain ⟨stF, rfl, F⟩ := TypingGraph.run_fin _ env.model m' tis hnf.wf hnf.tagged S.ok S.cd S.run
  have C := S.ctx
  have htbl := S.tbl_eq
  subst htbl
  obtain ⟨qs, hfold⟩ := S.fold
  obtain ⟨qs0, rs, qs1, hreq, hhas⟩ := TypingReq.generate_has rx env st _ qs res hfold s sg hsg _
    (mem_allOps_real sg k op hop)
  obtain ⟨cfg, iB, hbs, hfc⟩ := opReqs_floatcast rx env st s sg op k nm hres qs0 qs1 rs hreq
  have hnamed : PipeNF.OpNamed env.model op nm := by
    obtain ⟨code, scope, _, h1, h2, -⟩ := hres
    exact ⟨code, h1, h2⟩
  obtain ⟨hm1, hm2⟩ := (hnf.mandatory sg (List.mem_of_getElem? hsg) op (List.mem_of_getElem? hop) nm hnamed) iB hbs
  obtain ⟨sIn, sW, sOut, tin, tw, tout, d, e1, e2, e3, e4, e5, e6, e7, r1, r2, r3, r4⟩ :=
    TypingSrq.floatCastOp_unfold16 env sg _ _ 1 iB rs hfc
  simp only at e1 e2 e3 r1 r2 r3 r4
  have hsgOK : GraphStep.SgOK env.model sg :=
    ((GraphStep.modelOK_iff env.model).1 C.wf).2.1 sg (List.mem_of_getElem? hsg)
  have hopOK := hsgOK.ops k op hop
  obtain ⟨o', m1, m2, m3, m4, m5, m6, m7, m8⟩ :=
    TypingGraph.orig_op_final _ env.model tis stF F hnf.tagged s sg sg' hsg hsg' k op hop
  have hlt1 : 1 < iB := by
    unfold PipeNF.biasSlot at hbs
    split at hbs
    · cases hbs; decide
    · split at hbs
      · cases hbs; decide
      · cases hbs
  have hin0 : ∀ (j : Nat) (t : Int), op.inputs[j]? = some t → t ≠ -1 → 0 ≤ t := by
    intro j t hj hne
    rcases hopOK.ins t (List.mem_of_getElem? hj) with h | h
    · exact absurd h hne
    · exact h.1.1
  -- an operand requested `noQuantReq`
  have hnoq : ∀ (j : Nat) (t : Int) (tn : Tensor), op.inputs[j]? = some t → t ≠ -1 → tensorAt sg t = .ok tn →
      noQuantReq tn.name (k : Int) true ∈ rs → UntouchedOperand env stF.model sg sg' o' j t := by
    intro j t tn hj hne htn hmem
    have h0 := hin0 j t hj hne
    have hcast : ((t.toNat : Nat) : Int) = t := by omega
    have htn' := tensorAt_get sg t tn h0 htn
    have hslot := m8 j t hj
    rw [← hcast] at hslot
    obtain ⟨e, he, -, hc⟩ := hhas _ hmem
    have hname : (noQuantReq tn.name (k : Int) true).name = tn.name := rfl
    rw [hname] at he
    obtain ⟨ecs, hecs, hsub⟩ := hc _ rfl
    have := consumer_noQuant_slot S F s sg sg' hsg hsg' t.toNat tn htn' e (dictGet?_mem_key _ _ _ he) ecs hecs _
      (hsub _ List.mem_cons_self) k rfl rfl o' j hslot
    rw [hcast] at this
    exact this
  refine ⟨o', iB, m1, m2, m3, m4, m5, m6, m7, hbs, ?_, ?_, ?_, ?_⟩
  · -- the weight
    have hne : sW ≠ -1 := fun e => hm1 1 hlt1 (by rw [e2, e])
    have h0 := hin0 1 sW e2 hne
    have hcast : ((sW.toNat : Nat) : Int) = sW := by omega
    have htn := tensorAt_get sg sW tw h0 e5
    have hslot := m8 1 sW e2
    rw [← hcast] at hslot
    have hcc : isConst env.model sg sW = true := by
      have := constData_isSome env sg sW.toNat tw htn
      rw [hcast] at this
      rw [← this]; exact e7
    obtain ⟨e, he, -, hc⟩ := hhas _ r2
    simp only at he
    obtain ⟨ecs, hecs, hsub⟩ := hc _ rfl
    have hmemE := dictGet?_mem_key _ _ _ he
    have hprod : e.producer = none :=
      const_noProd C (tw.name, e) hmemE s sg sW.toNat ⟨hsg, tw, htn, rfl⟩ (by rw [hcast]; exact hcc)
    obtain ⟨tz, pid, c1, c2, c3, c4, -, c6⟩ := consumer_const_slot S F s sg sg' hsg hsg' sW.toNat tw htn e hmemE
      hprod ecs hecs _ (hsub _ List.mem_cons_self) k rfl .addDequant rfl (.inr rfl) _ rfl o' 1 hslot
    obtain ⟨z, tzz, ci, z1, z2, z3, z4, z5, z6, z7, z8, z9⟩ := c6 rfl
    obtain ⟨pid', ty, d1, d2, d3, -⟩ := c2
    rw [hcast] at z7 z9
    refine ⟨sW, tw, tz, pid, z, tzz, ci, e2, h0, htn, hcc, c1, ?_, c4, z1, z2, z3, z4, z5, z6, z7, z8, z9⟩
    rw [d3]
    exact dtypeOf_f16 _ ty rfl rfl d2
  · -- the data operand
    have hne : sIn ≠ -1 := fun e => hm1 _ (dataSlot_lt_bias nm iB hbs) (by rw [e1, e])
    exact ⟨sIn, e1, hnoq _ sIn tin e1 hne e4 r1⟩
  · -- the bias
    intro b hb
    by_cases hne : b = -1
    · subst hne
      left
      refine ⟨rfl, (m8 iB _ hb).1 ?_⟩
      rintro ⟨ti, hti, ins, hins, hs, ht, -, -⟩
      obtain ⟨sgx, hsgx, hall⟩ := (S.ok ti hti).insts
      have hv := (GraphStep.validT_iff _ _).1 (hall ins hins).tvalid
      have := hv.1
      omega
    · have h0 := hin0 iB b hb hne
      have hlt : b.toNat < sg.tensors.length := by
        rcases hopOK.ins b (List.mem_of_getElem? hb) with h | h
        · exact absurd h hne
        · have := h.1.2; omega
      have htb : sg.tensors[b.toNat]? = some sg.tensors[b.toNat] := List.getElem?_eq_getElem hlt
      have hat := tensorAt_of_get sg b _ h0 htb
      exact hnoq iB b _ hb hne hat (r4 b _ hb hne hat)
  · -- the first result
    have hne : sOut ≠ -1 := fun e => hm2 (by rw [e3, e])
    have h0 : 0 ≤ sOut := by
      rcases hopOK.outs sOut (List.mem_of_getElem? e3) with h | h
      · exact absurd h hne
      · exact h.1.1
    have htn := tensorAt_get sg sOut tout h0 e6
    obtain ⟨e, he, hp, -⟩ := hhas _ r3
    have hname : (noQuantReq tout.name (k : Int) false).name = tout.name := rfl
    rw [hname] at he
    have hnr := noQuant_producer_insts C tis S.gen s sg hsg sOut.toNat tout htn e (dictGet?_mem_key _ _ _ he) _
      (hp _ rfl) rfl
    obtain ⟨tn', q1, -, -, -, q5, -⟩ := TypingGraph.tensor_final _ env.model tis stF F s sg sg' hsg hsg' _ tout htn
    refine ⟨sOut, tout, e3, htn, ?_⟩
    rcases q5 with rfl | ⟨p, hr, -⟩
    · exact q1
    · exact absurd hr (hnr p)

end TypingE2E
