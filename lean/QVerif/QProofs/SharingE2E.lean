import QProofs.Wiring
/-!
# Shared constant buffers through the whole performer (C15, graph stage)

`Wiring.Step` describes what one `applySingle` does to the tensors and operators.  Here the effect on
the BUFFER TABLE is added (`StepB`), and the following facts are carried through the whole run of
`transformGraph`:

* `BInv.orig`: every original tensor keeps its buffer index, and its record is either the original one
  or was written by a retyping instruction (QUANTIZE_TENSOR / ADD_DEQUANTIZE) of `tis` with some
  parameter `p`, in which case a data buffer behind it holds packed quantized data `.inr q`
  (with `q = p` when all retyping instructions on that buffer's tensors carry one parameter);
* `BInv.fresh`: inserted tensors reference buffer 0;
* `BInv.bufs`: a data buffer is untouched or holds `.inr p` for a retyping instruction on one of its
  tensors;
* `Done`: after the run every retyping instruction has been performed.
-/
open Graph Perform GraphStep GraphFrame GraphInv Skeleton SkeletonProof StepTypes Wiring

namespace SharingE2E

/-! ## the buffer table after one registered transformation -/

theorem runXf_bufs (pt : PTable) (m m' : Model) (sgi : Nat) (sg sgA : Subgraph) (x : Xf) (inp : TIn)
    (info : TInfoOut) (hsg : m.subgraphs[sgi]? = some sg) (hinp : InpOK pt m sg inp)
    (h : runXf pt m sgi x inp = .ok (m', info)) (hA : m'.subgraphs[sgi]? = some sgA) :
    ∃ p pi tn, inp.param = some p ∧ pinfo pt p = some pi ∧
      sg.tensors[inp.tensor.toNat]? = some tn ∧
      m'.buffers = if retypes x = true then newBufs m.buffers tn pi p else m.buffers := by
  obtain ⟨p, pi, ty, hp, hpi, hty⟩ := runXf_params pt m m' sgi sg x inp info hsg h
  have hv := (validT_iff _ _).1 hinp.tvalid
  unfold runXf at h
  cases x <;> simp only at h
  · cases h
  · obtain ⟨tn, ops2, hget, -, -, -, -, -, hb, -⟩ :=
      insertQuant_exact pt m m' sgi sg sgA inp info p pi ty hsg hA hinp hp hpi hty h
    exact ⟨p, pi, tn, hp, hpi, hget, by simpa [retypes] using hb⟩
  · obtain ⟨tn, ops2, hget, -, -, -, -, -, hb, -⟩ :=
      insertDequant_exact pt m m' sgi sg sgA inp info p pi ty hsg hA hinp hp hpi hty h
    exact ⟨p, pi, tn, hp, hpi, hget, by simpa [retypes] using hb⟩
  · obtain ⟨tn, hget, -, hb, -⟩ :=
      quantizeOnly_exact pt m m' sgi sg sgA inp info p pi ty hsg hA hp hpi hty hv.1 h
    exact ⟨p, pi, tn, hp, hpi, hget, by simpa [retypes] using hb⟩
  · cases h

/-- one performer step, with its effect on the buffer table -/
structure StepB (pt : PTable) (m0 : Model) (s : Nat) (ins : Inst) (st st' : PState) : Prop where
  step : Step pt m0 s ins st st'
  bufs : ∃ sg tn p pi, st.model.subgraphs[s]? = some sg ∧ sg.tensors[ins.tensor.toNat]? = some tn ∧
    ins.param = some p ∧ pinfo pt p = some pi ∧
    st'.model.buffers =
      if retypes ins.xf = true then newBufs st.model.buffers tn pi p else st.model.buffers

theorem applySingle_stepB (pt : PTable) (m0 : Model) (st st' : PState) (ti ti' : TInsts) (idx : Nat)
    (sg0 : Subgraph) (ins : Inst) (hwf0 : WF.modelOK m0 = true)
    (hb : Base m0 st) (hsg0 : m0.subgraphs[ti.sg]? = some sg0) (hins : ti.insts[idx]? = some ins)
    (hok : InstOK pt m0 sg0 ins) (hnc : NoChain ti.insts)
    (h : applySingle pt st ti idx = .ok (st', ti')) : StepB pt m0 ti.sg ins st st' ∧ ti' = ti := by
  obtain ⟨S, e⟩ := applySingle_step pt m0 st st' ti ti' idx sg0 ins hwf0 hb hsg0 hins hok hnc h
  refine ⟨⟨S, ?_⟩, e⟩
  have hlt : ti.sg < m0.subgraphs.length := (List.getElem?_eq_some_iff.1 hsg0).1
  obtain ⟨om, hom⟩ : ∃ om, st.origMap[ti.sg]? = some om :=
    ⟨_, List.getElem?_eq_getElem (by rw [hb.inv.nom]; exact hlt)⟩
  obtain ⟨am, ham⟩ : ∃ am, st.addedMap[ti.sg]? = some am :=
    ⟨_, List.getElem?_eq_getElem (by rw [hb.inv.nam]; exact hlt)⟩
  obtain ⟨sgc, hsgc⟩ : ∃ sgc, st.model.subgraphs[ti.sg]? = some sgc :=
    ⟨_, List.getElem?_eq_getElem (by rw [hb.inv.nsg]; exact hlt)⟩
  have I := hb.inv.sg _ _ _ _ hsg0 hsgc hom
  obtain ⟨producer, consumers, m', info, sgAfter, am', newProd, hprod, hcons, hrun, hsa, rfl, -⟩ :=
    applySingle_spec pt st st' ti ti' idx ins om am sgc hins hom ham hsgc h
  have hinp := inpOK_of_inv pt m0 sg0 st.model sgc om am ins producer consumers I hok hprod hcons
  obtain ⟨p, pi, tn, e1, e2, e3, e4⟩ :=
    runXf_bufs pt st.model m' ti.sg sgc sgAfter ins.xf _ info hsgc hinp hrun hsa
  exact ⟨sgc, tn, p, pi, hsgc, e3, e1, e2, e4⟩

/-! ## the loops, with `StepB` -/

theorem applyAll_idxB (pt : PTable) (m0 : Model) (st st' : PState) (ti : TInsts)
    (hwf0 : WF.modelOK m0 = true) (hok : TInstsOK pt m0 ti) (Q : Nat → PState → Prop)
    (hb : Base m0 st) (h0 : Q 0 st)
    (hstep : ∀ (idx : Nat) (ins : Inst) (s s' : PState), ti.insts[idx]? = some ins →
      isInsertion ins.xf = true → StepB pt m0 ti.sg ins s s' → Q idx s → Q (idx + 1) s')
    (hskip : ∀ (idx : Nat) (ins : Inst) (s : PState), ti.insts[idx]? = some ins →
      isInsertion ins.xf = false → Q idx s → Q (idx + 1) s)
    (h : applyAll pt st ti = .ok st') : Base m0 st' ∧ Q ti.insts.length st' := by
  obtain ⟨sg0, hsg0, hall⟩ := hok.insts
  unfold applyAll at h
  simp only at h
  obtain ⟨cur, hloop, h⟩ := bind_ok _ _ _ h
  have hP : (Base m0 cur.1 ∧ cur.2 = ti) ∧ Q (0 + (List.range ti.insts.length).length) cur.1 := by
    refine forIn_idx_inv _ (fun i c => (Base m0 c.1 ∧ c.2 = ti) ∧ Q i c.1) _ 0 (st, ti) cur
      ⟨⟨hb, rfl⟩, h0⟩ ?_ hloop
    rintro i idx ⟨s, t⟩ s' hi ⟨⟨hB, ht⟩, hQ⟩ hf
    simp only at hB ht hQ hf
    subst ht
    have hidx : idx = i := by
      have hil : i < t.insts.length := by
        have := (List.getElem?_eq_some_iff.1 hi).1
        simpa using this
      rw [List.getElem?_range hil] at hi
      cases hi; rfl
    subst hidx
    rw [Nat.zero_add] at hQ
    cases hins : t.insts[idx]? with
    | none =>
      exfalso
      have := (List.getElem?_eq_some_iff.1 hi).1
      simp only [List.length_range] at this
      rw [List.getElem?_eq_none_iff] at hins
      omega
    | some ins =>
      simp only [hins] at hf
      split at hf
      · rename_i hx
        obtain ⟨c, hc, hf⟩ := bind_ok _ _ _ hf
        cases hf
        obtain ⟨c1, c2⟩ := c
        have hiok := hall ins (List.mem_of_getElem? hins)
        obtain ⟨S, e⟩ := applySingle_stepB pt m0 s c1 t c2 idx sg0 ins hwf0 hB hsg0 hins hiok
          hok.noChain hc
        refine ⟨_, rfl, ⟨S.step.base', e⟩, ?_⟩
        rw [Nat.zero_add]
        exact hstep idx ins s c1 hins hx S hQ
      · rename_i hx
        cases hf
        refine ⟨_, rfl, ⟨hB, rfl⟩, ?_⟩
        rw [Nat.zero_add]
        exact hskip idx ins s hins (by simpa using hx) hQ
  split at h
  · obtain ⟨_, e, _⟩ := bind_ok _ _ _ h
    cases e
  · cases h
    refine ⟨hP.1.1, ?_⟩
    have := hP.2
    rwa [Nat.zero_add, List.length_range] at this

/-- invariant rule for the whole run: `J` is a state invariant, `D ti ins` a fact that the step of
    instruction `ins` of entry `ti` establishes and every step preserves.  After the run `J` holds and
    `D ti ins` holds for EVERY performed (insertion-type) instruction. -/
theorem run_rule (pt : PTable) (m0 : Model) (tis : List TInsts) (J : PState → Prop)
    (D : TInsts → Inst → PState → Prop)
    (hwf : WF.modelOK m0 = true) (hok : ∀ ti ∈ tis, TInstsOK pt m0 ti)
    (hJ : ∀ ti ∈ tis, ∀ ins ∈ ti.insts, ∀ st st', StepB pt m0 ti.sg ins st st' → J st → J st')
    (hD : ∀ ti ∈ tis, ∀ ins ∈ ti.insts, ∀ st st', StepB pt m0 ti.sg ins st st' → J st → D ti ins st')
    (hDp : ∀ ti ∈ tis, ∀ ins ∈ ti.insts, ∀ (ti' : TInsts) (ins' : Inst) st st',
      StepB pt m0 ti.sg ins st st' → J st → D ti' ins' st → D ti' ins' st')
    (s0 st : PState) (hb0 : Base m0 s0) (h0 : J s0)
    (hfold : tis.foldlM (applyAll pt) s0 = .ok st) :
    Base m0 st ∧ J st ∧ ∀ ti ∈ tis, ∀ ins ∈ ti.insts, isInsertion ins.xf = true → D ti ins st := by
  have key := foldlM_idx_inv (applyAll pt)
    (fun i s => Base m0 s ∧ J s ∧ ∀ (k : Nat) (ti : TInsts), k < i → tis[k]? = some ti →
      ∀ ins ∈ ti.insts, isInsertion ins.xf = true → D ti ins s) tis 0 s0 st
    ⟨hb0, h0, fun k _ hk => absurd hk (by omega)⟩ ?_ hfold
  · obtain ⟨B, j, d⟩ := key
    refine ⟨B, j, fun ti hti ins hins hx => ?_⟩
    obtain ⟨k, hk⟩ := List.mem_iff_getElem?.1 hti
    exact d k ti (by have := (List.getElem?_eq_some_iff.1 hk).1; omega) hk ins hins hx
  · intro i x s s' hi ⟨hB0, hJ0, hD0⟩ hf
    rw [Nat.zero_add] at hD0
    rw [Nat.zero_add]
    have hx := List.mem_of_getElem? hi
    obtain ⟨b, q⟩ := applyAll_idxB pt m0 s s' x hwf (hok x hx)
      (fun j c => J c ∧ (∀ (k : Nat) (ti : TInsts), k < i → tis[k]? = some ti →
          ∀ ins ∈ ti.insts, isInsertion ins.xf = true → D ti ins c) ∧
        ∀ (j' : Nat) (ins : Inst), j' < j → x.insts[j']? = some ins → isInsertion ins.xf = true →
          D x ins c) hB0
      ⟨hJ0, hD0, fun j' _ hj' => absurd hj' (by omega)⟩
      (fun idx ins c c' h1 hxf S ⟨q1, q2, q3⟩ => by
        have hm := List.mem_of_getElem? h1
        refine ⟨hJ x hx ins hm c c' S q1, ?_, ?_⟩
        · intro k ti hk hti ins' hins' hx'
          exact hDp x hx ins hm ti ins' c c' S q1 (q2 k ti hk hti ins' hins' hx')
        · intro j' ins' hj' hins' hx'
          by_cases hjj : j' = idx
          · subst hjj
            rw [h1] at hins'; cases hins'
            exact hD x hx ins hm c c' S q1
          · exact hDp x hx ins hm x ins' c c' S q1 (q3 j' ins' (by omega) hins' hx'))
      (fun idx ins c h1 hxf ⟨q1, q2, q3⟩ => by
        refine ⟨q1, q2, ?_⟩
        intro j' ins' hj' hins' hx'
        by_cases hjj : j' = idx
        · subst hjj
          rw [h1] at hins'; cases hins'
          rw [hxf] at hx'; cases hx'
        · exact q3 j' ins' (by omega) hins' hx') hf
    obtain ⟨q1, q2, q3⟩ := q
    refine ⟨b, q1, ?_⟩
    intro k ti hk hti ins hins hxf
    by_cases hki : k = i
    · subst hki
      rw [hi] at hti; cases hti
      obtain ⟨j', hj'⟩ := List.mem_iff_getElem?.1 hins
      exact q3 j' ins (List.getElem?_eq_some_iff.1 hj').1 hj' hxf
    · exact q2 k ti (by omega) hti ins hins hxf

/-! ## definitions -/

/-- tensor `i` of subgraph `s` of `m` references buffer `b` -/
def Referent (m : Model) (b s i : Nat) : Prop :=
  ∃ sg tn, m.subgraphs[s]? = some sg ∧ sg.tensors[i]? = some tn ∧ tn.buffer = b

/-- `tis` contains a retyping instruction (QUANTIZE_TENSOR / ADD_DEQUANTIZE) with parameter `p` on
    tensor `i` of subgraph `s` -/
def Retyped (tis : List TInsts) (s i : Nat) (p : PId) : Prop :=
  ∃ ti ∈ tis, ∃ ins ∈ ti.insts, ti.sg = s ∧ ins.tensor = (i : Int) ∧ retypes ins.xf = true ∧
    ins.param = some p

/-- the record `tn` has the type of parameter `p` and (for uniform parameters) carries `p` -/
def TypedBy (pt : PTable) (p : PId) (tn : Tensor) : Prop :=
  ∃ pi ty, pinfo pt p = some pi ∧ dtypeOf pi = .ok ty ∧ tn.dtype = ty ∧
    (pi.uniform = true → tn.quant = some p)

/-- all retyping instructions on tensors that reference buffer `b` carry the same parameter -/
def SameOn (m : Model) (tis : List TInsts) (b : Nat) : Prop :=
  ∀ s i p s' i' p', Referent m b s i → Referent m b s' i' → Retyped tis s i p →
    Retyped tis s' i' p' → p = p'

/-- a retyping instruction on a CONSTANT tensor carries a parameter with packed data -/
def ConstData (pt : PTable) (m : Model) (tis : List TInsts) : Prop :=
  ∀ ti ∈ tis, ∀ ins ∈ ti.insts, retypes ins.xf = true → ∀ sg tn c p pi,
    m.subgraphs[ti.sg]? = some sg → sg.tensors[ins.tensor.toNat]? = some tn →
    m.buffers[tn.buffer]? = some (some c) → ins.param = some p → pinfo pt p = some pi →
    pi.hasData = true

theorem newBufs_get (bufs : List BufContent) (tn : Tensor) (pi : PInfo) (p : PId) (b : Nat) :
    (newBufs bufs tn pi p)[b]? =
      if tn.buffer ≠ 0 ∧ pi.hasData = true ∧ tn.buffer = b ∧ b < bufs.length
      then some (some (.inr p)) else bufs[b]? := by
  unfold newBufs
  by_cases h : tn.buffer ≠ 0 ∧ pi.hasData = true
  · rw [if_pos h, List.getElem?_set]
    by_cases hb : tn.buffer = b
    · subst hb
      by_cases hl : tn.buffer < bufs.length
      · simp [h, hl]
      · simp [hl]
    · simp [hb]
  · rw [if_neg h, if_neg (fun h' => h ⟨h'.1, h'.2.1⟩)]

/-! ## what one step does, in the form used below -/

theorem StepB.digest {pt : PTable} {m0 : Model} {s : Nat} {ins : Inst} {st st' : PState}
    (S : StepB pt m0 s ins st st') (sg0 : Subgraph) (h0 : m0.subgraphs[s]? = some sg0) :
    ∃ (sg sg' : Subgraph) (tn0 tn : Tensor) (p : PId) (pi : PInfo) (ty : Nat),
      st.model.subgraphs[s]? = some sg ∧ st'.model.subgraphs[s]? = some sg' ∧
      0 ≤ ins.tensor ∧ sg0.tensors[ins.tensor.toNat]? = some tn0 ∧
      sg.tensors[ins.tensor.toNat]? = some tn ∧ tn.buffer = tn0.buffer ∧
      ins.param = some p ∧ pinfo pt p = some pi ∧ dtypeOf pi = .ok ty ∧
      sg0.tensors.length ≤ sg.tensors.length ∧
      (∀ i tnx, sg.tensors[i]? = some tnx → sg'.tensors[i]? =
        some (if retypes ins.xf = true ∧ i = ins.tensor.toNat then retype pi p ty tn else tnx)) ∧
      (∀ i tnx, sg'.tensors[i]? = some tnx → sg.tensors.length ≤ i → tnx.buffer = 0) ∧
      st'.model.buffers =
        (if retypes ins.xf = true then newBufs st.model.buffers tn pi p else st.model.buffers) := by
  obtain ⟨sg0', sg, sg', om, om', cons, p, pi, ty, tn, nm, g0, h1, h1', h2, h2', hlen, hiok,
    e1, e2, e3, e4, hT, -, -, -⟩ := S.step.eff
  rw [h0] at g0; cases g0
  obtain ⟨sgb, tnb, pb, pib, b1, b2, b3, b4, b5⟩ := S.bufs
  rw [h1] at b1; cases b1
  rw [e4] at b2; cases b2
  rw [e1] at b3; cases b3
  rw [e2] at b4; cases b4
  have hv := (validT_iff _ _).1 hiok.tvalid
  unfold ValidT at hv
  have hlt0 : ins.tensor.toNat < sg0.tensors.length := by omega
  have ht0 : sg0.tensors[ins.tensor.toNat]? = some sg0.tensors[ins.tensor.toNat] :=
    List.getElem?_eq_getElem hlt0
  obtain ⟨tnc, c1, c2⟩ := (S.step.base.w s sg0 sg om h0 h1 h2).buf _ _ ht0
  rw [e4] at c1; cases c1
  have htl := (S.step.base.inv.sg s sg0 sg om h0 h1 h2).tlen
  refine ⟨sg, sg', _, tn, p, pi, ty, h1, h1', hv.1, ht0, e4, c2, e1, e2, e3, htl, ?_, ?_, b5⟩
  · intro i tnx hi
    have hil : i < sg.tensors.length := (List.getElem?_eq_some_iff.1 hi).1
    rw [hT]
    cases hr : retypes ins.xf
    · simp only [Bool.false_eq_true, if_false, false_and]
      rw [List.getElem?_append_left hil]; exact hi
    · simp only [if_true, true_and]
      rw [List.getElem?_append_left (by simpa using hil), List.getElem?_set]
      by_cases hit : i = ins.tensor.toNat
      · subst hit
        rw [if_pos rfl, if_pos hil, if_pos rfl]
      · rw [if_neg (fun e => hit e.symm), if_neg hit]; exact hi
  · intro i tnx hi hge
    rw [hT] at hi
    have hl : (if retypes ins.xf = true then sg.tensors.set ins.tensor.toNat (retype pi p ty tn)
        else sg.tensors).length = sg.tensors.length := by
      split <;> simp
    rw [List.getElem?_append_right (by rw [hl]; exact hge), hl] at hi
    split at hi
    · have hz : i - sg.tensors.length = 0 := by
        have := (List.getElem?_eq_some_iff.1 hi).1
        simp at this; omega
      rw [hz] at hi
      simp only [List.getElem?_cons_zero, Option.some.injEq] at hi
      subst hi
      split
      · rw [retype_buffer]; rfl
      · rfl
    · simp at hi

/-! ## the facts carried through the run -/

/-- the buffer `b` holds packed quantized data, of parameter `p` if all retyping instructions on
    the tensors of `b` agree -/
def Packed (m : Model) (tis : List TInsts) (st : PState) (b : Nat) (p : PId) : Prop :=
  ∀ c, m.buffers[b]? = some (some c) →
    ∃ q, st.model.buffers[b]? = some (some (.inr q)) ∧ (SameOn m tis b → q = p)

/-- the record of tensor `i` of subgraph `s` (which references buffer `b` in the input model) was
    written by a retyping instruction of `tis`, and `b` holds the corresponding packed data -/
def Written (pt : PTable) (m : Model) (tis : List TInsts) (st : PState) (s i b : Nat) : Prop :=
  ∃ sg tn p, st.model.subgraphs[s]? = some sg ∧ sg.tensors[i]? = some tn ∧ Retyped tis s i p ∧
    TypedBy pt p tn ∧ Packed m tis st b p

structure BInv (pt : PTable) (m : Model) (tis : List TInsts) (st : PState) : Prop where
  orig : ∀ (s : Nat) (sg0 : Subgraph) (i : Nat) (tn0 : Tensor), m.subgraphs[s]? = some sg0 → sg0.tensors[i]? = some tn0 →
    ∃ sg tn, st.model.subgraphs[s]? = some sg ∧ sg.tensors[i]? = some tn ∧
      tn.buffer = tn0.buffer ∧ (tn = tn0 ∨ Written pt m tis st s i tn0.buffer)
  fresh : ∀ (s : Nat) (sg0 sg : Subgraph) (i : Nat) (tn : Tensor), m.subgraphs[s]? = some sg0 → st.model.subgraphs[s]? = some sg →
    sg.tensors[i]? = some tn → sg0.tensors.length ≤ i → tn.buffer = 0
  bufs : ∀ b c, m.buffers[b]? = some (some c) →
    st.model.buffers[b]? = some (some c) ∨
    ∃ s i p pi, Referent m b s i ∧ Retyped tis s i p ∧ pinfo pt p = some pi ∧ pi.hasData = true ∧
      st.model.buffers[b]? = some (some (.inr p))

theorem BInv.bufSome {pt : PTable} {m : Model} {tis : List TInsts} {st : PState} (j : BInv pt m tis st)
    (b : Nat) (c : Nat ⊕ PId) (hb : m.buffers[b]? = some (some c)) : b < st.model.buffers.length := by
  rcases j.bufs b c hb with h | ⟨_, _, _, _, _, _, _, _, h⟩ <;> exact (List.getElem?_eq_some_iff.1 h).1

theorem j_init (pt : PTable) (m : Model) (tis : List TInsts) : BInv pt m tis (st0 m) := by
  refine ⟨?_, ?_, fun b c h => .inl h⟩
  · intro s sg0 i tn0 h1 h2
    exact ⟨sg0, tn0, h1, h2, rfl, .inl rfl⟩
  · intro s sg0 sg i tn h1 h2 h3 h4
    have h2' : m.subgraphs[s]? = some sg := h2
    rw [h1] at h2'; cases h2'
    have := (List.getElem?_eq_some_iff.1 h3).1
    omega

/-- the packed-data fact survives every step -/
theorem packed_step {pt : PTable} {m : Model} {tis : List TInsts} {ti : TInsts} {ins : Inst}
    {st st' : PState} (hti : ti ∈ tis) (hins : ins ∈ ti.insts)
    (S : StepB pt m ti.sg ins st st') (s i b : Nat) (p : PId) (hR : Referent m b s i)
    (hp : Retyped tis s i p) (hP : Packed m tis st b p) : Packed m tis st' b p := by
  obtain ⟨sg0, hsg0, -⟩ : ∃ sg0, m.subgraphs[ti.sg]? = some sg0 ∧ True := by
    obtain ⟨sg0, _, _, _, _, _, _, _, _, _, _, g0, _⟩ := S.step.eff
    exact ⟨sg0, g0, trivial⟩
  obtain ⟨sg, sg', tn0, tn, p', pi', ty', d1, d2, d3, d4, d5, d6, d7, d8, d9, d10, d11, d12, d13⟩ :=
    S.digest sg0 hsg0
  intro c hc
  obtain ⟨q, hq, hsame⟩ := hP c hc
  rw [d13]
  cases hr : retypes ins.xf
  · simp only [Bool.false_eq_true, if_false]
    exact ⟨q, hq, hsame⟩
  · simp only [if_true]
    rw [newBufs_get]
    split
    · rename_i hcond
      refine ⟨p', rfl, fun hS => ?_⟩
      refine hS ti.sg ins.tensor.toNat p' s i p ⟨sg0, tn0, hsg0, d4, ?_⟩ hR
        ⟨ti, hti, ins, hins, rfl, by omega, hr, d7⟩ hp
      rw [← d6]; exact hcond.2.2.1
    · exact ⟨q, hq, hsame⟩

/-- a retyping step writes its tensor's record and (on a constant) the packed data -/
theorem written_self {pt : PTable} {m : Model} {tis : List TInsts} {ti : TInsts} {ins : Inst}
    {st st' : PState} (hwf : WF.modelOK m = true) (hcd : ConstData pt m tis)
    (hti : ti ∈ tis) (hins : ins ∈ ti.insts)
    (S : StepB pt m ti.sg ins st st') (j : BInv pt m tis st) (hr : retypes ins.xf = true)
    (sg0 : Subgraph) (tn0 : Tensor) (hsg0 : m.subgraphs[ti.sg]? = some sg0)
    (ht0 : sg0.tensors[ins.tensor.toNat]? = some tn0) :
    Written pt m tis st' ti.sg ins.tensor.toNat tn0.buffer := by
  obtain ⟨sg, sg', tn0', tn, p', pi', ty', d1, d2, d3, d4, d5, d6, d7, d8, d9, d10, d11, d12, d13⟩ :=
    S.digest sg0 hsg0
  rw [ht0] at d4; cases d4
  have hnew := d11 _ _ d5
  rw [if_pos ⟨hr, rfl⟩] at hnew
  refine ⟨sg', _, p', d2, hnew, ⟨ti, hti, ins, hins, rfl, by omega, hr, d7⟩,
    ⟨pi', ty', d8, d9, retype_dtype .., fun hu => by rw [retype_quant, if_pos hu]⟩, ?_⟩
  intro c hc
  have hd := hcd ti hti ins hins hr sg0 tn0 c p' pi' hsg0 ht0 hc d7 d8
  have h00 := ((modelOK_iff m).1 hwf).1
  have hne : tn0.buffer ≠ 0 := by
    intro e; rw [e, h00] at hc; cases hc
  rw [d13, if_pos hr, newBufs_get, if_pos ⟨by rw [d6]; exact hne, hd, d6, j.bufSome _ c hc⟩]
  exact ⟨p', rfl, fun _ => rfl⟩

/-- `Written` survives every step -/
theorem written_step {pt : PTable} {m : Model} {tis : List TInsts} {ti : TInsts} {ins : Inst}
    {st st' : PState} (hwf : WF.modelOK m = true) (hcd : ConstData pt m tis)
    (hti : ti ∈ tis) (hins : ins ∈ ti.insts)
    (S : StepB pt m ti.sg ins st st') (j : BInv pt m tis st) (s i b : Nat) (hR : Referent m b s i)
    (hW : Written pt m tis st s i b) : Written pt m tis st' s i b := by
  obtain ⟨sgs, tns, p, w1, w2, w3, w4, w5⟩ := hW
  obtain ⟨sg0, hsg0, -⟩ : ∃ sg0, m.subgraphs[ti.sg]? = some sg0 ∧ True := by
    obtain ⟨sg0, _, _, _, _, _, _, _, _, _, _, g0, _⟩ := S.step.eff
    exact ⟨sg0, g0, trivial⟩
  obtain ⟨sg, sg', tn0, tn, p', pi', ty', d1, d2, d3, d4, d5, d6, d7, d8, d9, d10, d11, d12, d13⟩ :=
    S.digest sg0 hsg0
  by_cases hs : s = ti.sg
  · subst hs
    rw [d1] at w1; cases w1
    have hnew := d11 _ _ w2
    by_cases hc : retypes ins.xf = true ∧ i = ins.tensor.toNat
    · obtain ⟨hr, rfl⟩ := hc
      obtain ⟨sgr, tnr, r1, r2, r3⟩ := hR
      rw [hsg0] at r1; cases r1
      rw [d4] at r2; cases r2
      subst r3
      exact written_self hwf hcd hti hins S j hr sg0 tn0 hsg0 d4
    · rw [if_neg hc] at hnew
      exact ⟨sg', tns, p, d2, hnew, w3, w4, packed_step hti hins S _ _ _ _ hR w3 w5⟩
  · obtain ⟨e1, -⟩ := S.step.others s hs
    exact ⟨sgs, tns, p, by rw [e1]; exact w1, w2, w3, w4, packed_step hti hins S _ _ _ _ hR w3 w5⟩

theorem j_step {pt : PTable} {m : Model} {tis : List TInsts} {ti : TInsts} {ins : Inst}
    {st st' : PState} (hwf : WF.modelOK m = true) (hcd : ConstData pt m tis)
    (hti : ti ∈ tis) (hins : ins ∈ ti.insts)
    (S : StepB pt m ti.sg ins st st') (j : BInv pt m tis st) : BInv pt m tis st' := by
  obtain ⟨sg0, hsg0, -⟩ : ∃ sg0, m.subgraphs[ti.sg]? = some sg0 ∧ True := by
    obtain ⟨sg0, _, _, _, _, _, _, _, _, _, _, g0, _⟩ := S.step.eff
    exact ⟨sg0, g0, trivial⟩
  obtain ⟨sg, sg', tn0, tn, p', pi', ty', d1, d2, d3, d4, d5, d6, d7, d8, d9, d10, d11, d12, d13⟩ :=
    S.digest sg0 hsg0
  refine ⟨?_, ?_, ?_⟩
  · intro s sg0s i tn0s h1 h2
    obtain ⟨sgs, tns, o1, o2, o3, o4⟩ := j.orig s sg0s i tn0s h1 h2
    have hR : Referent m tn0s.buffer s i := ⟨sg0s, tn0s, h1, h2, rfl⟩
    by_cases hs : s = ti.sg
    · subst hs
      rw [hsg0] at h1; cases h1
      rw [d1] at o1; cases o1
      have hnew := d11 _ _ o2
      by_cases hc : retypes ins.xf = true ∧ i = ins.tensor.toNat
      · obtain ⟨hr, rfl⟩ := hc
        rw [if_pos ⟨hr, rfl⟩] at hnew
        rw [d4] at h2; cases h2
        refine ⟨sg', _, d2, hnew, by rw [retype_buffer]; exact d6, .inr ?_⟩
        exact written_self hwf hcd hti hins S j hr sg0 tn0 hsg0 d4
      · rw [if_neg hc] at hnew
        refine ⟨sg', tns, d2, hnew, o3, ?_⟩
        rcases o4 with o4 | o4
        · exact .inl o4
        · exact .inr (written_step hwf hcd hti hins S j _ _ _ hR o4)
    · obtain ⟨e1, -⟩ := S.step.others s hs
      refine ⟨sgs, tns, by rw [e1]; exact o1, o2, o3, ?_⟩
      rcases o4 with o4 | o4
      · exact .inl o4
      · exact .inr (written_step hwf hcd hti hins S j _ _ _ hR o4)
  · intro s sg0s sgs i tnx h1 h2 h3 h4
    by_cases hs : s = ti.sg
    · subst hs
      rw [hsg0] at h1; cases h1
      rw [d2] at h2; cases h2
      by_cases hil : i < sg.tensors.length
      · have hold : sg.tensors[i]? = some sg.tensors[i] := List.getElem?_eq_getElem hil
        have hnew := d11 _ _ hold
        have hlt0 : ins.tensor.toNat < sg0.tensors.length := (List.getElem?_eq_some_iff.1 d4).1
        rw [if_neg (fun hc => by omega)] at hnew
        rw [h3] at hnew; cases hnew
        exact j.fresh _ _ _ _ _ hsg0 d1 hold h4
      · exact d12 i tnx h3 (by omega)
    · obtain ⟨e1, -⟩ := S.step.others s hs
      rw [e1] at h2
      exact j.fresh s sg0s sgs i tnx h1 h2 h3 h4
  · intro b c hb
    rw [d13]
    cases hr : retypes ins.xf
    · simp only [Bool.false_eq_true, if_false]
      exact j.bufs b c hb
    · simp only [if_true]
      rw [newBufs_get]
      split
      · rename_i hcond
        refine .inr ⟨ti.sg, ins.tensor.toNat, p', pi', ⟨sg0, tn0, hsg0, d4, ?_⟩,
          ⟨ti, hti, ins, hins, rfl, by omega, hr, d7⟩, d8, hcond.2.1, rfl⟩
        rw [← d6]; exact hcond.2.2.1
      · exact j.bufs b c hb

/-! ## the whole run -/

/-- the fact established by a retyping instruction -/
def Done (pt : PTable) (m : Model) (tis : List TInsts) (ti : TInsts) (ins : Inst) (st : PState) : Prop :=
  retypes ins.xf = true → ∀ sg0 tn0, m.subgraphs[ti.sg]? = some sg0 →
    sg0.tensors[ins.tensor.toNat]? = some tn0 →
    Written pt m tis st ti.sg ins.tensor.toNat tn0.buffer

theorem run_final (pt : PTable) (m m' : Model) (tis : List TInsts)
    (hwf : WF.modelOK m = true) (htag : origTagged m = true)
    (hok : ∀ ti ∈ tis, TInstsOK pt m ti) (hcd : ConstData pt m tis)
    (h : transformGraph pt m tis = .ok m') :
    ∃ st, st.model = m' ∧ Base m st ∧ BInv pt m tis st ∧
      ∀ ti ∈ tis, ∀ ins ∈ ti.insts, Done pt m tis ti ins st := by
  unfold transformGraph at h
  simp only at h
  obtain ⟨st, hfold, h⟩ := bind_ok _ _ _ h
  cases h
  obtain ⟨B, j, d⟩ := run_rule pt m tis (BInv pt m tis) (Done pt m tis) hwf hok
    (fun ti hti ins hins s s' S j => j_step hwf hcd hti hins S j)
    (fun ti hti ins hins s s' S j hr sg0 tn0 h1 h2 => written_self hwf hcd hti hins S j hr sg0 tn0 h1 h2)
    (fun ti hti ins hins ti' ins' s s' S j hd hr sg0 tn0 h1 h2 =>
      written_step hwf hcd hti hins S j _ _ _ ⟨sg0, tn0, h1, h2, rfl⟩ (hd hr sg0 tn0 h1 h2))
    (st0 m) st (base_init m hwf htag) (j_init pt m tis) hfold
  exact ⟨st, rfl, B, j, fun ti hti ins hins hr => d ti hti ins hins (retypes_insertion _ hr) hr⟩

/-- a tensor of the output model that references a data buffer is an ORIGINAL tensor that referenced
    the same buffer -/
theorem referent_back (pt : PTable) (m : Model) (tis : List TInsts) (st : PState)
    (hwf : WF.modelOK m = true) (B : Base m st) (j : BInv pt m tis st)
    (b : Nat) (c : Nat ⊕ PId) (hb : m.buffers[b]? = some (some c))
    (s : Nat) (sg' : Subgraph) (i : Nat) (tn' : Tensor) (h1 : st.model.subgraphs[s]? = some sg')
    (h2 : sg'.tensors[i]? = some tn') (h3 : tn'.buffer = b) :
    ∃ sg0 tn0, m.subgraphs[s]? = some sg0 ∧ sg0.tensors[i]? = some tn0 ∧ tn0.buffer = b ∧
      (tn' = tn0 ∨ Written pt m tis st s i b) := by
  have hs : s < m.subgraphs.length := by
    rw [← B.inv.nsg]; exact (List.getElem?_eq_some_iff.1 h1).1
  have hsg0 : m.subgraphs[s]? = some m.subgraphs[s] := List.getElem?_eq_getElem hs
  have h00 := ((modelOK_iff m).1 hwf).1
  have hne : b ≠ 0 := by
    intro e; rw [e, h00] at hb; cases hb
  by_cases hi : i < m.subgraphs[s].tensors.length
  · have ht0 : m.subgraphs[s].tensors[i]? = some m.subgraphs[s].tensors[i] := List.getElem?_eq_getElem hi
    obtain ⟨sg, tn, o1, o2, o3, o4⟩ := j.orig s _ i _ hsg0 ht0
    rw [h1] at o1; cases o1
    rw [h2] at o2; cases o2
    refine ⟨_, _, hsg0, ht0, by rw [← o3]; exact h3, ?_⟩
    rw [← o3, h3] at o4
    exact o4
  · have := j.fresh s _ sg' i tn' hsg0 h1 h2 (by omega)
    omega

/-- **weak form** (no hypothesis on the sharers): a data buffer is either untouched -- and then no
    retyping instruction exists on any tensor referencing it and all those tensors keep their
    records -- or it holds the packed data of a retyping instruction on one of its tensors -/
theorem buffer_weak (pt : PTable) (m m' : Model) (tis : List TInsts)
    (hwf : WF.modelOK m = true) (htag : origTagged m = true)
    (hok : ∀ ti ∈ tis, TInstsOK pt m ti) (hcd : ConstData pt m tis)
    (h : transformGraph pt m tis = .ok m')
    (b k : Nat) (hb : m.buffers[b]? = some (some (.inl k))) :
    (m'.buffers[b]? = some (some (.inl k)) ∧
      (∀ s i p, Referent m b s i → ¬ Retyped tis s i p) ∧
      ∀ (s : Nat) (sg' : Subgraph) (i : Nat) (tn' : Tensor), m'.subgraphs[s]? = some sg' →
        sg'.tensors[i]? = some tn' → tn'.buffer = b →
        ∃ sg, m.subgraphs[s]? = some sg ∧ sg.tensors[i]? = some tn') ∨
    (∃ s i p pi, Referent m b s i ∧ Retyped tis s i p ∧ pinfo pt p = some pi ∧ pi.hasData = true ∧
      m'.buffers[b]? = some (some (.inr p))) := by
  obtain ⟨st, rfl, B, j, d⟩ := run_final pt m _ tis hwf htag hok hcd h
  rcases j.bufs b _ hb with hun | hq
  · refine .inl ⟨hun, ?_, ?_⟩
    · rintro s i p ⟨sg0, tn0, r1, r2, r3⟩ ⟨ti, hti, ins, hins, rfl, e2, hr, e4⟩
      have e5 : ins.tensor.toNat = i := by omega
      obtain ⟨_, _, _, _, _, _, _, w⟩ := d ti hti ins hins hr sg0 tn0 r1 (by rw [e5]; exact r2)
      rw [r3] at w
      obtain ⟨q, hq, -⟩ := w _ hb
      rw [hun] at hq; cases hq
    · intro s sg' i tn' h1 h2 h3
      obtain ⟨sg0, tn0, g1, g2, g3, g4⟩ := referent_back pt m tis st hwf B j b _ hb s sg' i tn' h1 h2 h3
      rcases g4 with rfl | ⟨_, _, _, _, _, _, _, w⟩
      · exact ⟨sg0, g1, g2⟩
      · obtain ⟨q, hq, -⟩ := w _ hb
        rw [hun] at hq; cases hq
  · exact .inr hq

/-- what the sharing check must deliver: on every data buffer, all retyping instructions on its
    tensors carry ONE parameter, and either all of its tensors are retyped or none is -/
structure SharersAgree (m : Model) (tis : List TInsts) : Prop where
  same : ∀ b c, m.buffers[b]? = some (some c) → SameOn m tis b
  all : ∀ b c, m.buffers[b]? = some (some c) → ∀ s i p s' i', Referent m b s i → Referent m b s' i' →
    Retyped tis s i p → ∃ p', Retyped tis s' i' p'

/-- **strong form**: with `SharersAgree`, a rewritten data buffer holds the packed data of ONE
    parameter `p`, and EVERY tensor of the output model that references the buffer is typed by `p` -/
theorem buffer_agrees (pt : PTable) (m m' : Model) (tis : List TInsts)
    (hwf : WF.modelOK m = true) (htag : origTagged m = true)
    (hok : ∀ ti ∈ tis, TInstsOK pt m ti) (hcd : ConstData pt m tis) (hsa : SharersAgree m tis)
    (h : transformGraph pt m tis = .ok m')
    (b k : Nat) (hb : m.buffers[b]? = some (some (.inl k))) :
    (m'.buffers[b]? = some (some (.inl k)) ∧
      (∀ s i p, Referent m b s i → ¬ Retyped tis s i p) ∧
      ∀ (s : Nat) (sg' : Subgraph) (i : Nat) (tn' : Tensor), m'.subgraphs[s]? = some sg' →
        sg'.tensors[i]? = some tn' → tn'.buffer = b →
        ∃ sg, m.subgraphs[s]? = some sg ∧ sg.tensors[i]? = some tn') ∨
    (∃ p pi, pinfo pt p = some pi ∧ pi.hasData = true ∧ m'.buffers[b]? = some (some (.inr p)) ∧
      (∃ s i, Referent m b s i ∧ Retyped tis s i p) ∧
      ∀ (s : Nat) (sg' : Subgraph) (i : Nat) (tn' : Tensor), m'.subgraphs[s]? = some sg' →
        sg'.tensors[i]? = some tn' → tn'.buffer = b →
        Referent m b s i ∧ Retyped tis s i p ∧ TypedBy pt p tn') := by
  rcases buffer_weak pt m m' tis hwf htag hok hcd h b k hb with hw | ⟨s, i, p, pi, r1, r2, r3, r4, r5⟩
  · exact .inl hw
  · refine .inr ⟨p, pi, r3, r4, r5, ⟨s, i, r1, r2⟩, ?_⟩
    obtain ⟨st, rfl, B, j, d⟩ := run_final pt m _ tis hwf htag hok hcd h
    intro s' sg' i' tn' h1 h2 h3
    obtain ⟨sg0, tn0, g1, g2, g3, -⟩ := referent_back pt m tis st hwf B j b _ hb s' sg' i' tn' h1 h2 h3
    have hR : Referent m b s' i' := ⟨sg0, tn0, g1, g2, g3⟩
    obtain ⟨p', ti, hti, ins, hins, rfl, e2, hr, e4⟩ := hsa.all b _ hb s i p s' i' r1 hR r2
    have e5 : ins.tensor.toNat = i' := by omega
    obtain ⟨sgw, tnw, p'', w1, w2, w3, w4, w5⟩ := d ti hti ins hins hr sg0 tn0 g1 (by rw [e5]; exact g2)
    rw [e5] at w2 w3
    rw [h1] at w1; cases w1
    rw [h2] at w2; cases w2
    rw [g3] at w5
    obtain ⟨q, hq, hqp⟩ := w5 _ hb
    rw [r5] at hq; cases hq
    have := hqp (hsa.same b _ hb)
    subst this
    exact ⟨hR, w3, w4⟩

/-! ## executable checks of the hypotheses (for closed instances) -/

/-- buffer index of tensor `t` of subgraph `s` -/
def bufOf (m : Model) (s : Nat) (t : Int) : Option Nat :=
  match m.subgraphs[s]? with
  | some sg => if 0 ≤ t then (sg.tensors[t.toNat]?).map (·.buffer) else none
  | none => none

def isData (m : Model) (b : Nat) : Bool :=
  match m.buffers[b]? with
  | some (some _) => true
  | _ => false

theorem isData_iff (m : Model) (b : Nat) : isData m b = true ↔ ∃ c, m.buffers[b]? = some (some c) := by
  unfold isData
  split
  · rename_i c h; exact ⟨fun _ => ⟨c, h⟩, fun _ => rfl⟩
  · rename_i h
    constructor
    · intro h'; cases h'
    · rintro ⟨c, hc⟩; exact absurd hc (h c)

theorem bufOf_referent (m : Model) (b s i : Nat) (h : Referent m b s i) : bufOf m s (i : Int) = some b := by
  obtain ⟨sg, tn, h1, h2, h3⟩ := h
  simp [bufOf, h1, h2, h3]

def constDataB (pt : PTable) (m : Model) (tis : List TInsts) : Bool :=
  tis.all fun ti => ti.insts.all fun ins =>
    !retypes ins.xf ||
    match bufOf m ti.sg ins.tensor with
    | some b => !isData m b ||
      (match ins.param with
       | some p => (match pinfo pt p with | some pi => pi.hasData | none => true)
       | none => true)
    | none => true

theorem constData_of_b (pt : PTable) (m : Model) (tis : List TInsts)
    (hv : ∀ ti ∈ tis, ∀ ins ∈ ti.insts, 0 ≤ ins.tensor) (h : constDataB pt m tis = true) :
    ConstData pt m tis := by
  intro ti hti ins hins hr sg tn c p pi h1 h2 h3 h4 h5
  unfold constDataB at h
  rw [List.all_eq_true] at h
  have := h ti hti
  rw [List.all_eq_true] at this
  have := this ins hins
  have hb : bufOf m ti.sg ins.tensor = some tn.buffer := by
    simp [bufOf, h1, hv ti hti ins hins, h2]
  have hd : isData m tn.buffer = true := (isData_iff _ _).2 ⟨c, h3⟩
  simpa [hr, hb, hd, h4, h5] using this

def sameB (m : Model) (tis : List TInsts) : Bool :=
  tis.all fun ti => ti.insts.all fun ins => tis.all fun ti' => ti'.insts.all fun ins' =>
    !retypes ins.xf || !retypes ins'.xf ||
    match bufOf m ti.sg ins.tensor, bufOf m ti'.sg ins'.tensor with
    | some b, some b' => b != b' || !isData m b || ins.param == ins'.param
    | _, _ => true

def allB (m : Model) (tis : List TInsts) : Bool :=
  tis.all fun ti => ti.insts.all fun ins =>
    !retypes ins.xf ||
    match bufOf m ti.sg ins.tensor with
    | some b => !isData m b ||
      m.subgraphs.zipIdx.all fun ps => ps.1.tensors.zipIdx.all fun pt =>
        pt.1.buffer != b ||
          tis.any fun ti' => ti'.sg == ps.2 && ti'.insts.any fun ins' =>
            retypes ins'.xf && ins'.tensor == (pt.2 : Int) && ins'.param.isSome
    | none => true

theorem sharersAgree_of_b (m : Model) (tis : List TInsts) (h1 : sameB m tis = true)
    (h2 : allB m tis = true) : SharersAgree m tis := by
  constructor
  · intro b c hb s i p s' i' p' hR hR' ⟨ti, hti, ins, hins, e1, e2, e3, e4⟩
      ⟨ti', hti', ins', hins', e1', e2', e3', e4'⟩
    unfold sameB at h1
    rw [List.all_eq_true] at h1
    have := h1 ti hti
    rw [List.all_eq_true] at this
    have := this ins hins
    rw [List.all_eq_true] at this
    have := this ti' hti'
    rw [List.all_eq_true] at this
    have := this ins' hins'
    have g1 : bufOf m ti.sg ins.tensor = some b := by rw [e1, e2]; exact bufOf_referent m b s i hR
    have g2 : bufOf m ti'.sg ins'.tensor = some b := by rw [e1', e2']; exact bufOf_referent m b s' i' hR'
    have hd : isData m b = true := (isData_iff _ _).2 ⟨c, hb⟩
    simp [e3, e3', g1, g2, hd, e4, e4'] at this
    exact this
  · intro b c hb s i p s' i' hR ⟨sg', tn', r1, r2, r3⟩ ⟨ti, hti, ins, hins, e1, e2, e3, e4⟩
    unfold allB at h2
    rw [List.all_eq_true] at h2
    have := h2 ti hti
    rw [List.all_eq_true] at this
    have := this ins hins
    have g1 : bufOf m ti.sg ins.tensor = some b := by rw [e1, e2]; exact bufOf_referent m b s i hR
    have hd : isData m b = true := (isData_iff _ _).2 ⟨c, hb⟩
    simp only [e3, Bool.not_true, Bool.false_or, g1, hd, List.all_eq_true] at this
    have := this (sg', s') (List.mem_zipIdx_iff_getElem?.2 r1) (tn', i') (List.mem_zipIdx_iff_getElem?.2 r2)
    simp only [r3, bne_self_eq_false, Bool.false_or, List.any_eq_true, Bool.and_eq_true, beq_iff_eq,
      Option.isSome_iff_exists] at this
    obtain ⟨ti', hti', e1', ins', hins', ⟨e3', e2'⟩, p', e4'⟩ := this
    exact ⟨p', ti', hti', ins', hins', e1', e2', e3', e4'⟩

end SharingE2E
