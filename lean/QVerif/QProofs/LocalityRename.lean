import QProofs.LocalityGen
import QProofs.Locality
/-!
# C19 — parameter ids are only names

A `PId` stands for a parameter OBJECT; the graph stages compare ids for equality, look their
`PInfo` up in the table and copy them into tensors and buffers.  Hence instruction generation and
the performer commute with any injective renaming `ρ` of the ids (the table being renamed along).
-/
open Graph InstGen Perform GenInstsOK GraphInv Locality

namespace Rename

/-! ## renaming -/

def rnO (ρ : PId → PId) (o : O2T) : O2T := { o with param := o.param.map ρ }

def rnReq (ρ : PId → PId) (r : TReq) : TReq :=
  { r with producer := r.producer.map (rnO ρ), consumers := r.consumers.map fun cs => cs.map (rnO ρ) }

def rnInst (ρ : PId → PId) (i : Inst) : Inst := { i with param := i.param.map ρ }

def rnTI (ρ : PId → PId) (t : TInsts) : TInsts := { t with insts := t.insts.map (rnInst ρ) }

def rnTensor (ρ : PId → PId) (t : Tensor) : Tensor := { t with quant := t.quant.map ρ }

def rnSg (ρ : PId → PId) (sg : Subgraph) : Subgraph := { sg with tensors := sg.tensors.map (rnTensor ρ) }

def rnBuf (ρ : PId → PId) : BufContent → BufContent
  | some (.inr p) => some (.inr (ρ p))
  | b => b

def rnModel (ρ : PId → PId) (m : Model) : Model :=
  { m with subgraphs := m.subgraphs.map (rnSg ρ), buffers := m.buffers.map (rnBuf ρ) }

variable {ρ : PId → PId}

theorem beq_map (hρ : Function.Injective ρ) (a b : Option PId) : (a.map ρ == b.map ρ) = (a == b) := by
  cases a <;> cases b <;> simp [hρ.eq_iff]

/-! ## `groupConsumers` does not see the renaming -/

theorem getD_rn (cs : List O2T) (i : Nat) : (cs.map (rnO ρ)).getD i default = rnO ρ (cs.getD i default) := by
  simp only [List.getD_eq_getElem?_getD, List.getElem?_map]
  cases cs[i]? <;> rfl

theorem horiz_rn (hρ : Function.Injective ρ) (p1 p2 : O2T) (idx : Nat) :
    horiz (rnO ρ p1) (rnO ρ p2) idx = horiz p1 p2 idx := by
  unfold horiz rnO
  simp only [beq_map hρ]

theorem placeInto_rn (hρ : Function.Injective ρ) (cs : List O2T) (d : Nat) (cur : List Nat) (ci : Nat) :
    ∀ (ng : List (List Nat)), placeInto (cs.map (rnO ρ)) d cur ci ng = placeInto cs d cur ci ng := by
  intro ng
  induction ng with
  | nil => rfl
  | cons g rest ih =>
    unfold placeInto
    cases g.head? with
    | none => simp only [ih]
    | some idx => simp only [getD_rn, horiz_rn hρ, ih]

theorem foldl_congr {α β} (f g : β → α → β) (h : ∀ b a, f b a = g b a) (l : List α) (init : β) :
    l.foldl f init = l.foldl g init := by
  have : f = g := funext fun b => funext fun a => h b a
  rw [this]

theorem nextDepth_rn (hρ : Function.Injective ρ) (cs : List O2T) (d : Nat) (cur : List (List Nat)) :
    nextDepth (cs.map (rnO ρ)) d cur = nextDepth cs d cur := by
  unfold nextDepth
  rw [List.length_map]
  refine foldl_congr _ _ ?_ _ _
  intro next ci
  have h1 : ((cs.map (rnO ρ)).getD ci default).xfs = (cs.getD ci default).xfs := by rw [getD_rn]; rfl
  rw [h1]
  split
  · refine foldl_congr _ _ ?_ _ _
    intro next g
    rw [placeInto_rn hρ]
  · rfl

theorem groupConsumers_rn (hρ : Function.Injective ρ) (cons : Option (List O2T)) :
    groupConsumers (cons.map fun cs => cs.map (rnO ρ)) = groupConsumers cons := by
  cases cons with
  | none => rfl
  | some cs =>
    cases cs with
    | nil => rfl
    | cons c cs =>
      simp only [Option.map_some, List.map_cons, groupConsumers]
      have h1 : ∀ (l : List O2T) (a : Nat), (l.map (rnO ρ)).foldl (fun a c => max a c.xfs.length) a =
          l.foldl (fun a c => max a c.xfs.length) a := by
        intro l
        induction l with
        | nil => intro a; rfl
        | cons x xs ih => intro a; simp only [List.map_cons, List.foldl_cons]; exact ih _
      have h2 := h1 (c :: cs) 0
      rw [List.map_cons] at h2
      rw [h2]
      simp only [List.length_cons, List.length_map]
      refine foldl_congr _ _ ?_ _ _
      intro groups d
      have := nextDepth_rn hρ (c :: cs) d (groups.getLastD [])
      simp only [List.map_cons] at this
      rw [this]

/-! ## the instruction list -/

theorem instOfGroup_rn (cs : List O2T) (info : TInfo) (depth : Nat) (g : List Nat) :
    instOfGroup (cs.map (rnO ρ)) info depth g = rnInst ρ (instOfGroup cs info depth g) := by
  unfold instOfGroup rnInst
  simp only [getD_rn]
  rfl

theorem vertAvail_rn (groups : List (List (List Nat))) (cs : List O2T) (info : TInfo) :
    vertAvail groups (cs.map (rnO ρ)) info = (vertAvail groups cs info).map (rnInst ρ) := by
  unfold vertAvail
  split
  · simp only [List.map_map]
    refine List.map_congr_left ?_
    intro g _
    exact instOfGroup_rn cs info 0 g
  · rfl

theorem vertUnavail_rn (groups : List (List (List Nat))) (cs : List O2T) (info : TInfo) :
    vertUnavail groups (cs.map (rnO ρ)) info = (vertUnavail groups cs info).map (rnInst ρ) := by
  unfold vertUnavail
  rw [List.map_flatMap]
  refine List.flatMap_congr ?_
  intro p _
  rw [List.map_filterMap]
  refine List.filterMap_congr ?_
  intro g _
  have h1 : ((cs.map (rnO ρ)).getD (g.headD 0) default).xfs = (cs.getD (g.headD 0) default).xfs := by
    rw [getD_rn]; rfl
  rw [h1]
  split
  · rfl
  · simp only [instOfGroup_rn, Option.map_some]

theorem vstep_rn (hρ : Function.Injective ρ) (P r : Inst) :
    vstep (rnInst ρ P) (rnInst ρ r) = (vstep P r).map (rnInst ρ) := by
  unfold vstep
  have hx : ∀ i : Inst, (rnInst ρ i).xf = i.xf := fun _ => rfl
  have hp : ((rnInst ρ P).param == (rnInst ρ r).param) = (P.param == r.param) := beq_map hρ _ _
  rw [hx, hx, hp]
  split
  · rfl
  · split
    · rfl
    · split <;> rfl

theorem vrem_rn (P r : Inst) (rem : List Int) : vrem (rnInst ρ P) (rnInst ρ r) rem = vrem P r rem := rfl

theorem applyVertical_rn (hρ : Function.Injective ρ) (P : Inst) (rules : List Inst) :
    applyVertical (rnInst ρ P) (rules.map (rnInst ρ)) =
      ((applyVertical P rules).1.map (rnInst ρ), (applyVertical P rules).2) := by
  have hflat : (rules.map (rnInst ρ)).flatMap (vstep (rnInst ρ P)) =
      (rules.flatMap (vstep P)).map (rnInst ρ) := by
    rw [List.flatMap_map, List.map_flatMap]
    exact List.flatMap_congr fun r _ => vstep_rn hρ P r
  have hrem : vremAll (rnInst ρ P) (rules.map (rnInst ρ)) = vremAll P rules := by
    unfold vremAll
    rw [List.foldl_map]
    rfl
  rw [applyVertical_eq, applyVertical_eq, hflat, hrem]
  have hx : (rnInst ρ P).xf = P.xf := rfl
  rw [hx]
  split
  · rfl
  · simp only [List.isEmpty_map]
    split <;> rfl

theorem instsValid_rn (l : List Inst) : instsValid (l.map (rnInst ρ)) = instsValid l := by
  unfold instsValid
  simp only [List.any_map, List.length_map]
  rfl

theorem instsList_rn (hρ : Function.Injective ρ) (info : TInfo) (req : TReq) :
    Locality.instsList info (rnReq ρ req) = (Locality.instsList info req).map (rnInst ρ) := by
  unfold Locality.instsList
  have hg : groupConsumers (rnReq ρ req).consumers = groupConsumers req.consumers := groupConsumers_rn hρ _
  have hcs : (rnReq ρ req).consumers.getD [] = (req.consumers.getD []).map (rnO ρ) := by
    unfold rnReq
    cases req.consumers <;> rfl
  simp only [hg, hcs, vertAvail_rn, vertUnavail_rn, List.map_append]
  congr 1
  cases hp : req.producer with
  | none =>
    have : (rnReq ρ req).producer = none := by unfold rnReq; rw [hp]; rfl
    rw [this]
    rfl
  | some p =>
    have : (rnReq ρ req).producer = some (rnO ρ p) := by unfold rnReq; rw [hp]; rfl
    rw [this]
    simp only []
    have hrules : (rnO ρ p).xfs.map (fun x => (⟨x, info.tensorId, info.producer, info.consumers, (rnO ρ p).param⟩ : Inst)) =
        (p.xfs.map (fun x => (⟨x, info.tensorId, info.producer, info.consumers, p.param⟩ : Inst))).map (rnInst ρ) := by
      rw [List.map_map]; rfl
    rw [hrules]
    generalize p.xfs.map (fun x => (⟨x, info.tensorId, info.producer, info.consumers, p.param⟩ : Inst)) = R
    rw [List.getLast?_map]
    cases hl : R.getLast? with
    | none => rfl
    | some P =>
      simp only [Option.map_some, applyVertical_rn hρ, List.map_append, List.map_map, ← List.map_dropLast]
      rfl

theorem tensorInsts_rn (hρ : Function.Injective ρ) (nm : List (String × TInfo)) (req : TReq) :
    tensorInsts nm (rnReq ρ req) = (tensorInsts nm req).map (rnTI ρ) := by
  rw [Locality.tensorInsts_eq, Locality.tensorInsts_eq]
  have hn : (rnReq ρ req).name = req.name := rfl
  rw [hn]
  cases Py.dictGet? nm req.name with
  | none => rfl
  | some info =>
    simp only [instsList_rn hρ, instsValid_rn]
    split <;> rfl

/-- **instruction generation commutes with an injective renaming of the parameter ids** -/
theorem genInsts_rn (hρ : Function.Injective ρ) (m : Model) : ∀ (reqs : List TReq),
    genInsts m (reqs.map (rnReq ρ)) = (genInsts m reqs).map fun tis => tis.map (rnTI ρ) := by
  intro reqs
  unfold genInsts
  induction reqs with
  | nil => rfl
  | cons r rs ih =>
    simp only [List.map_cons, List.mapM_cons, tensorInsts_rn hρ, ih, bind, Except.bind, pure, Except.pure]
    cases tensorInsts (nameMap m) r with
    | error e => rfl
    | ok ti =>
      simp only [Except.map]
      cases List.mapM (tensorInsts (nameMap m)) rs <;> rfl

/-! ## the graph transformations -/

def rnIn (ρ : PId → PId) (inp : TIn) : TIn := { inp with param := inp.param.map ρ }

theorem index_map {α β} (f : α → β) (l : List α) (i : Int) : Py.index (l.map f) i = (Py.index l i).map f := by
  unfold Py.index
  simp only [List.length_map, List.getElem?_map]
  generalize (if i < 0 then i + (l.length : Int) else i) = j
  by_cases hc : j < 0 ∨ j ≥ (l.length : Int)
  · rw [if_pos hc, if_pos hc]; rfl
  · rw [if_neg hc, if_neg hc]
    cases l[j.toNat]? <;> rfl

theorem getTensor_rn (sg : Subgraph) (t : Int) :
    getTensor (rnSg ρ sg) t = (getTensor sg t).map (rnTensor ρ) := index_map _ _ _

theorem setTensor_rn (sg : Subgraph) (t : Int) (tn : Tensor) :
    setTensor (rnSg ρ sg) t (rnTensor ρ tn) = rnSg ρ (setTensor sg t tn) := by
  unfold setTensor rnSg
  simp only [List.length_map, List.map_set]

theorem quantizeTensor_rn (pt pt1 : PTable) (hpt : ∀ p, pinfo pt (ρ p) = pinfo pt1 p)
    (bufs : List BufContent) (sg : Subgraph) (t : Int) (p : Option PId) :
    quantizeTensor pt (bufs.map (rnBuf ρ)) (rnSg ρ sg) t (p.map ρ) =
      (quantizeTensor pt1 bufs sg t p).map (fun r => (r.1.map (rnBuf ρ), rnSg ρ r.2)) := by
  unfold quantizeTensor
  rw [getTensor_rn]
  cases getTensor sg t with
  | error e => rfl
  | ok tn =>
    simp only [Except.map, bind, Except.bind]
    cases p with
    | none => rfl
    | some p =>
      simp only [Option.map_some, hpt p]
      cases pinfo pt1 p with
      | none => rfl
      | some pi =>
        simp only []
        have hb : (rnTensor ρ tn).buffer = tn.buffer := rfl
        have e1 : ∀ ty, setTensor (rnSg ρ sg) t
            ⟨(rnTensor ρ tn).name, ty, (rnTensor ρ tn).shape, tn.buffer, some (ρ p)⟩ =
            rnSg ρ (setTensor sg t ⟨tn.name, ty, tn.shape, tn.buffer, some p⟩) :=
          fun ty => setTensor_rn (ρ := ρ) sg t ⟨tn.name, ty, tn.shape, tn.buffer, some p⟩
        have e2 : ∀ ty, setTensor (rnSg ρ sg) t
            ⟨(rnTensor ρ tn).name, ty, (rnTensor ρ tn).shape, tn.buffer, (rnTensor ρ tn).quant⟩ =
            rnSg ρ (setTensor sg t ⟨tn.name, ty, tn.shape, tn.buffer, tn.quant⟩) :=
          fun ty => setTensor_rn (ρ := ρ) sg t ⟨tn.name, ty, tn.shape, tn.buffer, tn.quant⟩
        have e3 : (bufs.map (rnBuf ρ)).set tn.buffer (some (.inr (ρ p))) =
            (bufs.set tn.buffer (some (.inr p))).map (rnBuf ρ) := by rw [List.map_set]; rfl
        rw [hb, List.length_map]
        cases dtypeOf pi <;> cases pi.uniform <;> by_cases h1 : (tn.buffer ≠ 0 && pi.hasData) = true <;>
          by_cases h2 : tn.buffer < bufs.length <;>
          simp only [h1, h2, if_true, if_false, Bool.false_eq_true, pure, Except.pure, e1, e2, e3, throw, throwThe,
            MonadExceptOf.throw]

theorem wireNewOp_rn (sg : Subgraph) (inp : TIn) (newT : Int) (op : Op) :
    wireNewOp (rnSg ρ sg) (rnIn ρ inp) newT op = (wireNewOp sg inp newT op).map (fun r => (rnSg ρ r.1, r.2)) := by
  unfold wireNewOp
  show (minCons inp.consumers >>= fun first => rewire sg.ops inp.consumers inp.tensor newT >>= fun ops => _) = _
  cases minCons inp.consumers with
  | error e => rfl
  | ok first =>
    cases h : rewire sg.ops inp.consumers inp.tensor newT with
    | error e => simp only [bind, Except.bind, Except.map]
    | ok ops => simp only [bind, Except.bind, Except.map]; rfl

theorem names_rn (sg : Subgraph) : (rnSg ρ sg).tensors.map (·.name) = sg.tensors.map (·.name) := by
  unfold rnSg
  rw [List.map_map]
  rfl

theorem insertQuant_rn (pt pt1 : PTable) (hpt : ∀ p, pinfo pt (ρ p) = pinfo pt1 p) (m : Model) (sgi : Nat)
    (inp : TIn) :
    insertQuant pt (rnModel ρ m) sgi (rnIn ρ inp) =
      (insertQuant pt1 m sgi inp).map (fun r => (rnModel ρ r.1, r.2)) := by
  unfold insertQuant
  have hop : (rnModel ρ m).opcodes = m.opcodes := rfl
  have hsig : (rnModel ρ m).sigs = m.sigs := rfl
  have hsubs : (rnModel ρ m).subgraphs = m.subgraphs.map (rnSg ρ) := rfl
  rw [hop, hsig, hsubs, List.getElem?_map]
  cases m.subgraphs[sgi]? with
  | none => rfl
  | some sg =>
    simp only [Option.map_some, bind, Except.bind, pure, Except.pure]
    have h1 : (rnIn ρ inp).tensor = inp.tensor := rfl
    have h2 : (rnIn ρ inp).param = inp.param.map ρ := rfl
    rw [h1, h2, getTensor_rn]
    cases getTensor sg inp.tensor with
    | error e => rfl
    | ok tn =>
      simp only [Except.map, names_rn]
      have hlen : ((rnSg ρ sg).tensors.length : Int) = sg.tensors.length := by simp [rnSg]
      have hname : (rnTensor ρ tn).name = tn.name := rfl
      have hshape : (rnTensor ρ tn).shape = tn.shape := rfl
      have hsg1 : ∀ nt : Tensor, nt.quant = none →
          ({ rnSg ρ sg with tensors := (rnSg ρ sg).tensors ++ [nt] } : Subgraph) =
            rnSg ρ { sg with tensors := sg.tensors ++ [nt] } := by
        intro nt hq
        obtain ⟨n, d, s, b, q⟩ := nt
        simp only at hq
        subst hq
        simp only [rnSg, List.map_append, List.map_cons, List.map_nil]
        rfl
      rw [hlen, hname, hshape, hsg1 _ rfl]
      have hb : (rnModel ρ m).buffers = m.buffers.map (rnBuf ρ) := rfl
      rw [hb, quantizeTensor_rn pt pt1 hpt]
      cases quantizeTensor pt1 m.buffers _ (sg.tensors.length : Int) inp.param with
      | error e => rfl
      | ok r =>
        simp only [Except.map, wireNewOp_rn]
        cases wireNewOp r.2 inp _ _ with
        | error e => rfl
        | ok r2 =>
          simp only [rnModel, List.map_set]

theorem insertDequant_rn (pt pt1 : PTable) (hpt : ∀ p, pinfo pt (ρ p) = pinfo pt1 p) (m : Model) (sgi : Nat)
    (inp : TIn) :
    insertDequant pt (rnModel ρ m) sgi (rnIn ρ inp) =
      (insertDequant pt1 m sgi inp).map (fun r => (rnModel ρ r.1, r.2)) := by
  unfold insertDequant
  have hop : (rnModel ρ m).opcodes = m.opcodes := rfl
  have hsig : (rnModel ρ m).sigs = m.sigs := rfl
  have hsubs : (rnModel ρ m).subgraphs = m.subgraphs.map (rnSg ρ) := rfl
  rw [hop, hsig, hsubs, List.getElem?_map]
  cases m.subgraphs[sgi]? with
  | none => rfl
  | some sg =>
    simp only [Option.map_some, bind, Except.bind, pure, Except.pure]
    have h1 : (rnIn ρ inp).tensor = inp.tensor := rfl
    have h2 : (rnIn ρ inp).param = inp.param.map ρ := rfl
    rw [h1, h2, getTensor_rn]
    cases getTensor sg inp.tensor with
    | error e => rfl
    | ok tn =>
      simp only [Except.map, names_rn]
      have hlen : ((rnSg ρ sg).tensors.length : Int) = sg.tensors.length := by simp [rnSg]
      have hname : (rnTensor ρ tn).name = tn.name := rfl
      have hshape : (rnTensor ρ tn).shape = tn.shape := rfl
      have hsg1 : ∀ nt : Tensor, nt.quant = none →
          ({ rnSg ρ sg with tensors := (rnSg ρ sg).tensors ++ [nt] } : Subgraph) =
            rnSg ρ { sg with tensors := sg.tensors ++ [nt] } := by
        intro nt hq
        obtain ⟨n, d, s, b, q⟩ := nt
        simp only at hq
        subst hq
        simp only [rnSg, List.map_append, List.map_cons, List.map_nil]
        rfl
      rw [hlen, hname, hshape, hsg1 _ rfl]
      have hb : (rnModel ρ m).buffers = m.buffers.map (rnBuf ρ) := rfl
      rw [hb, quantizeTensor_rn pt pt1 hpt]
      cases quantizeTensor pt1 m.buffers _ inp.tensor inp.param with
      | error e => rfl
      | ok r =>
        simp only [Except.map, wireNewOp_rn]
        cases wireNewOp r.2 inp _ _ with
        | error e => rfl
        | ok r2 =>
          simp only [rnModel, List.map_set]

theorem quantizeOnly_rn (pt pt1 : PTable) (hpt : ∀ p, pinfo pt (ρ p) = pinfo pt1 p) (m : Model) (sgi : Nat)
    (inp : TIn) :
    quantizeOnly pt (rnModel ρ m) sgi (rnIn ρ inp) =
      (quantizeOnly pt1 m sgi inp).map (fun r => (rnModel ρ r.1, r.2)) := by
  unfold quantizeOnly
  have hsubs : (rnModel ρ m).subgraphs = m.subgraphs.map (rnSg ρ) := rfl
  have hsig : (rnModel ρ m).sigs = m.sigs := rfl
  have hop : (rnModel ρ m).opcodes = m.opcodes := rfl
  rw [hsubs, hsig, hop, List.getElem?_map]
  cases m.subgraphs[sgi]? with
  | none => rfl
  | some sg =>
    simp only [Option.map_some, bind, Except.bind, pure, Except.pure]
    have h1 : (rnIn ρ inp).tensor = inp.tensor := rfl
    have h2 : (rnIn ρ inp).param = inp.param.map ρ := rfl
    have hb : (rnModel ρ m).buffers = m.buffers.map (rnBuf ρ) := rfl
    rw [h1, h2, hb, quantizeTensor_rn pt pt1 hpt]
    cases quantizeTensor pt1 m.buffers sg inp.tensor inp.param with
    | error e => rfl
    | ok r => simp only [Except.map, rnModel, List.map_set]

/-! ## one instruction -/

def rnState (ρ : PId → PId) (st : PState) : PState := { st with model := rnModel ρ st.model }

theorem runXf_rn (pt pt1 : PTable) (hpt : ∀ p, pinfo pt (ρ p) = pinfo pt1 p) (m : Model) (sgi : Nat) (x : Xf)
    (inp : TIn) :
    runXf pt (rnModel ρ m) sgi x (rnIn ρ inp) = (runXf pt1 m sgi x inp).map (fun r => (rnModel ρ r.1, r.2)) := by
  unfold runXf
  cases x with
  | addDequant => exact insertDequant_rn pt pt1 hpt m sgi inp
  | quantTensor => exact quantizeOnly_rn pt pt1 hpt m sgi inp
  | addQuant => exact insertQuant_rn pt pt1 hpt m sgi inp
  | emulated => rfl
  | noQuant => rfl

theorem updateInsts_rn (later : List Inst) (prev : List Int) (np nt : Int) :
    updateInsts (later.map (rnInst ρ)) prev np nt = (updateInsts later prev np nt).map (rnInst ρ) := by
  unfold updateInsts
  rw [List.map_map, List.map_map]
  refine List.map_congr_left ?_
  intro t _
  simp only [Function.comp]
  have : (rnInst ρ t).consumers = t.consumers := rfl
  rw [this]
  split <;> rfl

theorem postMaps_rn (insts : List Inst) (idx : Nat) (ins : Inst) (omap amap : List Int) (info : TInfoOut) :
    postMaps (insts.map (rnInst ρ)) idx (rnInst ρ ins) omap amap info =
      ((postMaps insts idx ins omap amap info).1, (postMaps insts idx ins omap amap info).2.1,
        (postMaps insts idx ins omap amap info).2.2.map (rnInst ρ)) := by
  unfold postMaps
  have : (rnInst ρ ins).consumers = ins.consumers := rfl
  rw [this]
  by_cases h : info.added = 0
  · simp only [h, if_true]
  · simp only [h, if_false, ← List.map_take, ← List.map_drop, updateInsts_rn, List.map_append]

theorem optGet_map {α β} (f : α → β) (o : Option α) : optGet (o.map f) = (optGet o).map f := by
  cases o <;> rfl

theorem applySingle2_rn (pt pt1 : PTable) (hpt : ∀ p, pinfo pt (ρ p) = pinfo pt1 p) (st : PState) (ti : TInsts)
    (idx : Nat) :
    applySingle2 pt (rnState ρ st) (rnTI ρ ti) idx =
      (applySingle2 pt1 st ti idx).map (fun r => (rnState ρ r.1, rnTI ρ r.2)) := by
  unfold applySingle2
  have h1 : (rnTI ρ ti).insts[idx]? = (ti.insts[idx]?).map (rnInst ρ) := by simp only [rnTI, List.getElem?_map]
  have h2 : (rnTI ρ ti).sg = ti.sg := rfl
  have h3 : (rnState ρ st).origMap = st.origMap := rfl
  have h4 : (rnState ρ st).addedMap = st.addedMap := rfl
  have h5 : (rnState ρ st).model = rnModel ρ st.model := rfl
  have h6 : (rnModel ρ st.model).subgraphs[ti.sg]? = (st.model.subgraphs[ti.sg]?).map (rnSg ρ) := by
    simp only [rnModel, List.getElem?_map]
  rw [h1, h2, h3, h4, h5, h6]
  cases ti.insts[idx]? with
  | none => rfl
  | some ins =>
    simp only [Option.map_some]
    cases st.origMap[ti.sg]? with
    | none => rfl
    | some omap =>
      cases st.addedMap[ti.sg]? with
      | none => rfl
      | some amap =>
        have hp : xlatProducer (rnInst ρ ins) omap amap = xlatProducer ins omap amap := rfl
        have hc : xlatConsumers (rnInst ρ ins) omap = xlatConsumers ins omap := rfl
        simp only [optGet, bind, Except.bind, pure, Except.pure, hp, hc]
        cases xlatProducer ins omap amap with
        | error e => rfl
        | ok producer =>
          simp only []
          cases xlatConsumers ins omap with
          | error e => rfl
          | ok consumers =>
            simp only []
            cases st.model.subgraphs[ti.sg]? with
            | none => rfl
            | some sgBefore =>
              simp only [Option.map_some]
              have hx : (rnInst ρ ins).xf = ins.xf := rfl
              have hin : (⟨(rnInst ρ ins).tensor, producer, consumers, (rnInst ρ ins).param⟩ : TIn) =
                  rnIn ρ ⟨ins.tensor, producer, consumers, ins.param⟩ := rfl
              rw [hx, hin, runXf_rn pt pt1 hpt]
              cases runXf pt1 st.model ti.sg ins.xf ⟨ins.tensor, producer, consumers, ins.param⟩ with
              | error e => rfl
              | ok r =>
                simp only [Except.map]
                have h7 : (rnModel ρ r.1).subgraphs[ti.sg]? = (r.1.subgraphs[ti.sg]?).map (rnSg ρ) := by
                  simp only [rnModel, List.getElem?_map]
                rw [h7]
                cases r.1.subgraphs[ti.sg]? with
                | none => rfl
                | some sgAfter =>
                  simp only [Option.map_some, post, postMaps_rn, rnTI, rnState, rnModel, rnSg]

/-! ## all instructions -/

def stepMap {β} (g : β → β) : ForInStep β → ForInStep β
  | .yield b => .yield (g b)
  | .done b => .done (g b)

theorem forIn_map {α β} (g : β → β) (f f' : α → β → PyM (ForInStep β))
    (h : ∀ x s, f' x (g s) = (f x s).map (stepMap g)) :
    ∀ (l : List α) (init : β), forIn l (g init) f' = (forIn l init f).map g := by
  intro l
  induction l with
  | nil => intro init; rfl
  | cons a as ih =>
    intro init
    simp only [List.forIn_cons, h, bind, Except.bind]
    cases f a init with
    | error e => rfl
    | ok r =>
      cases r with
      | done b => rfl
      | yield b => exact ih b

/-- the loop body of `applyAll` -/
def allBody (pt : PTable) (idx : Nat) (s : PState × TInsts) : PyM (ForInStep (PState × TInsts)) :=
  match s.2.insts[idx]? with
  | some i =>
    if isInsertion i.xf = true then do
      let cur ← applySingle pt s.1 s.2 idx
      pure (ForInStep.yield cur)
    else pure (ForInStep.yield s)
  | none => pure (ForInStep.yield s)

def applyAll2 (pt : PTable) (st : PState) (ti : TInsts) : PyM PState :=
  forIn (List.range ti.insts.length) (st, ti) (allBody pt) >>= fun s =>
    if (s.2.insts.any fun x => x.xf == Xf.emulated) = true then throw PyErr.unsupported else pure s.1

theorem applyAll_eq (pt : PTable) (st : PState) (ti : TInsts) : applyAll pt st ti = applyAll2 pt st ti := by
  unfold applyAll applyAll2
  simp only []
  show (forIn (List.range ti.insts.length) (st, ti) (allBody pt) >>= _) = _
  cases forIn (List.range ti.insts.length) (st, ti) (allBody pt) with
  | error e => rfl
  | ok s =>
    simp only [bind, Except.bind]
    split <;> rfl

theorem allBody_rn (pt pt1 : PTable) (hpt : ∀ p, pinfo pt (ρ p) = pinfo pt1 p) (idx : Nat) (s : PState × TInsts) :
    allBody pt idx (rnState ρ s.1, rnTI ρ s.2) =
      (allBody pt1 idx s).map (stepMap fun c => (rnState ρ c.1, rnTI ρ c.2)) := by
  unfold allBody
  have h1 : (rnTI ρ s.2).insts[idx]? = (s.2.insts[idx]?).map (rnInst ρ) := by simp only [rnTI, List.getElem?_map]
  simp only [h1]
  cases s.2.insts[idx]? with
  | none => rfl
  | some i =>
    simp only [Option.map_some]
    have hx : (rnInst ρ i).xf = i.xf := rfl
    rw [hx]
    by_cases hi : isInsertion i.xf = true
    · simp only [hi, if_true, applySingle_eq, applySingle2_rn pt pt1 hpt]
      cases applySingle2 pt1 s.1 s.2 idx <;> rfl
    · simp only [hi]
      rfl

theorem applyAll_rn (pt pt1 : PTable) (hpt : ∀ p, pinfo pt (ρ p) = pinfo pt1 p) (st : PState) (ti : TInsts) :
    applyAll pt (rnState ρ st) (rnTI ρ ti) = (applyAll pt1 st ti).map (rnState ρ) := by
  rw [applyAll_eq, applyAll_eq]
  unfold applyAll2
  have hlen : (rnTI ρ ti).insts.length = ti.insts.length := by simp only [rnTI, List.length_map]
  rw [hlen]
  have := forIn_map (fun c : PState × TInsts => (rnState ρ c.1, rnTI ρ c.2)) (allBody pt1) (allBody pt)
    (fun x s => allBody_rn pt pt1 hpt x s) (List.range ti.insts.length) (st, ti)
  simp only [] at this
  rw [this]
  cases forIn (List.range ti.insts.length) (st, ti) (allBody pt1) with
  | error e => rfl
  | ok s =>
    simp only [Except.map, bind, Except.bind]
    have : ((rnTI ρ s.2).insts.any fun x => x.xf == Xf.emulated) = (s.2.insts.any fun x => x.xf == Xf.emulated) := by
      simp only [rnTI, List.any_map]
      rfl
    rw [this]
    split <;> rfl

/-- the initial performer state -/
def initSt (m : Model) : PState :=
  { model := m, origMap := m.subgraphs.map (fun sg => (List.range sg.ops.length).map (fun (i : Nat) => (i : Int))),
    addedMap := m.subgraphs.map (fun _ => []) }

/-- **the performer commutes with a renaming of the parameter ids** (the table being renamed along) -/
theorem transformGraph_rn (pt pt1 : PTable) (hpt : ∀ p, pinfo pt (ρ p) = pinfo pt1 p) (m : Model)
    (tis : List TInsts) :
    transformGraph pt (rnModel ρ m) (tis.map (rnTI ρ)) = (transformGraph pt1 m tis).map (rnModel ρ) := by
  have hfold : ∀ (l : List TInsts) (st : PState),
      (l.map (rnTI ρ)).foldlM (applyAll pt) (rnState ρ st) = (l.foldlM (applyAll pt1) st).map (rnState ρ) := by
    intro l
    induction l with
    | nil => intro st; rfl
    | cons t ts ih =>
      intro st
      simp only [List.map_cons, List.foldlM_cons, applyAll_rn pt pt1 hpt, bind, Except.bind]
      cases applyAll pt1 st t with
      | error e => rfl
      | ok st2 => exact ih st2
  have hinit : initSt (rnModel ρ m) = rnState ρ (initSt m) := by
    simp only [initSt, rnState, rnModel, List.map_map]
    rfl
  have e1 : ∀ pt m tis, transformGraph pt m tis = (tis.foldlM (applyAll pt) (initSt m) >>= fun st => pure st.model) :=
    fun _ _ _ => rfl
  rw [e1, e1, hinit, hfold]
  cases List.foldlM (applyAll pt1) _ tis <;> rfl

end Rename
