import QModel.WF
/-!
# One graph transformation preserves well-formedness (step lemmas of C01)

Proved without `sorry`, extra axioms or `native_decide`; the hypotheses `InpOK` are the ones
originally stated (nothing had to be strengthened).  Structure of the file:
* freshness of `uniqueName`;
* `Prop` forms (`SgOK`, `OpOK`, `Avail`, `ProdBefore`, `ValidT`) of the Boolean predicates of `WF`;
* `SgOK_congr` / `modelOK_of_step`: what well-formedness does not look at (tensor dtype / quant,
  the contents of a buffer that already holds data, new opcodes, other subgraphs, signatures);
* specifications of `quantizeTensor`, `rewire`, `minCons`, `pyInsert`, `wireNewOp`;
* `wire_ok`: appending one fresh tensor and splicing one operator in keeps a subgraph well-formed;
* the three step theorems.
-/
open Graph Perform

namespace GraphStep

/-! ## Freshness of `uniqueName` -/

section Fresh
set_option linter.deprecated false

theorem String_mk_length (l : List Char) : (String.mk l).length = l.length := by
  unfold String.mk; exact String.length_ofList

theorem foldl_len_ge (names : List String) (a : Nat) :
    a ≤ names.foldl (fun a n => a + n.length) a ∧
    ∀ n ∈ names, a + n.length ≤ names.foldl (fun a n => a + n.length) a := by
  induction names generalizing a with
  | nil => simp
  | cons x xs ih =>
    simp only [List.foldl_cons, List.mem_cons, forall_eq_or_imp]
    have h1 := (ih (a + x.length)).1
    have h2 := (ih (a + x.length)).2
    refine ⟨by omega, h1, fun n hn => ?_⟩
    have := h2 n hn
    omega

theorem longName_fresh (names : List String) (base : String) : longName names base ∉ names := by
  intro hmem
  have h := (foldl_len_ge names 0).2 _ hmem
  simp only [longName, String.length_append, String.length_ofList, List.length_replicate] at h
  omega

theorem uniqueNameAux_fresh (names : List String) (base : String) (fuel k : Nat) :
    uniqueNameAux names base fuel k ∉ names := by
  induction fuel generalizing k with
  | zero => exact longName_fresh names base
  | succ f ih =>
    unfold uniqueNameAux
    simp only
    split
    · exact ih _
    · rename_i h; simpa using h

theorem uniqueName_fresh (names : List String) (base : String) : uniqueName names base ∉ names := by
  unfold uniqueName
  split
  · exact uniqueNameAux_fresh _ _ _ _
  · rename_i h; simpa using h
end Fresh

/-! ## Propositional forms of the well-formedness predicates -/

/-- buffer `i` holds data -/
def constAt (bufs : List BufContent) (i : Nat) : Bool :=
  match bufs[i]? with
  | some (some _) => true
  | _ => false

theorem isConst_eq (m : Model) (sg : Subgraph) (t : Int) :
    isConst m sg t = (if t < 0 then false else
      match sg.tensors[t.toNat]? with
      | some tn => constAt m.buffers tn.buffer
      | none => false) := by
  unfold isConst constAt
  split
  · rfl
  · cases sg.tensors[t.toNat]? <;> rfl

theorem memI_iff (t : Int) (l : List Int) : memI t l = true ↔ t ∈ l := by
  simp [memI]

def ValidT (sg : Subgraph) (t : Int) : Prop := 0 ≤ t ∧ t < sg.tensors.length

theorem validT_iff (sg : Subgraph) (t : Int) : WF.validT sg t = true ↔ ValidT sg t := by
  simp [WF.validT, ValidT]

/-- `t` is an output of an operator at a position `< k` -/
def ProdBefore (ops : List Op) (k : Nat) (t : Int) : Prop :=
  ∃ j o, j < k ∧ ops[j]? = some o ∧ t ∈ o.outputs

theorem any_take_iff (ops : List Op) (k : Nat) (t : Int) :
    ((ops.take k).any fun o => memI t o.outputs) = true ↔ ProdBefore ops k t := by
  simp only [List.any_eq_true, memI_iff, ProdBefore]
  constructor
  · rintro ⟨o, ho, ht⟩
    obtain ⟨j, hj, rfl⟩ := List.mem_take_iff_getElem.1 ho
    exact ⟨j, _, by omega, List.getElem?_eq_getElem (by omega), ht⟩
  · rintro ⟨j, o, hj, ho, ht⟩
    refine ⟨o, ?_, ht⟩
    obtain ⟨hlt, rfl⟩ := List.getElem?_eq_some_iff.1 ho
    exact List.mem_take_iff_getElem.2 ⟨j, by omega, rfl⟩

def Avail (m : Model) (sg : Subgraph) (k : Nat) (t : Int) : Prop :=
  t ∈ sg.inputs ∨ isConst m sg t = true ∨ ProdBefore sg.ops k t

theorem avail_iff (m : Model) (sg : Subgraph) (k : Nat) (t : Int) :
    WF.avail m sg k t = true ↔ Avail m sg k t := by
  simp only [WF.avail, Bool.or_eq_true, any_take_iff, Avail, memI_iff, or_assoc]

structure OpOK (m : Model) (sg : Subgraph) (k : Nat) (o : Op) : Prop where
  code : o.code < m.opcodes.length
  ins : ∀ t ∈ o.inputs, t = -1 ∨ (ValidT sg t ∧ Avail m sg k t)
  outs : ∀ t ∈ o.outputs, t = -1 ∨
    (ValidT sg t ∧ t ∉ sg.inputs ∧ isConst m sg t = false ∧ ¬ ProdBefore sg.ops k t)

theorem opOK_iff (m : Model) (sg : Subgraph) (k : Nat) (o : Op) :
    WF.opOK m sg k o = true ↔ OpOK m sg k o := by
  simp only [WF.opOK, Bool.and_eq_true, decide_eq_true_eq, List.all_eq_true, Bool.or_eq_true,
    beq_iff_eq, validT_iff, avail_iff, Bool.not_eq_true']
  constructor
  · rintro ⟨⟨h1, h2⟩, h3⟩
    refine ⟨h1, h2, fun t ht => ?_⟩
    rcases h3 t ht with h | ⟨⟨⟨h4, h5⟩, h6⟩, h7⟩
    · exact .inl h
    · refine .inr ⟨h4, ?_, h6, ?_⟩
      · simpa [memI] using h5
      · rw [← any_take_iff]; simpa [memI] using h7
  · rintro ⟨h1, h2, h3⟩
    refine ⟨⟨h1, h2⟩, fun t ht => ?_⟩
    rcases h3 t ht with h | ⟨h4, h5, h6, h7⟩
    · exact .inl h
    · refine .inr ⟨⟨⟨h4, ?_⟩, h6⟩, ?_⟩
      · simpa [memI] using h5
      · rw [← any_take_iff] at h7; simpa [memI] using h7

structure SgOK (m : Model) (sg : Subgraph) : Prop where
  bufr : ∀ tn ∈ sg.tensors, tn.buffer < m.buffers.length
  names : (sg.tensors.map (·.name)).Nodup
  ops : ∀ k o, sg.ops[k]? = some o → OpOK m sg k o
  nodupOut : ∀ o ∈ sg.ops, (o.outputs.filter (· != -1)).Nodup
  ins : ∀ t ∈ sg.inputs, ValidT sg t
  outs : ∀ t ∈ sg.outputs, ValidT sg t
  outsAvail : ∀ t ∈ sg.outputs, Avail m sg sg.ops.length t

theorem sgOK_iff (m : Model) (sg : Subgraph) : WF.sgOK m sg = true ↔ SgOK m sg := by
  simp only [WF.sgOK, Bool.and_eq_true, decide_eq_true_eq, List.all_eq_true, validT_iff, avail_iff,
    opOK_iff]
  constructor
  · rintro ⟨⟨⟨⟨⟨⟨h1, h2⟩, h3⟩, h4⟩, h5⟩, h6⟩, h7⟩
    exact ⟨h1, h2, fun k o hk => h3 (o, k) (List.mem_zipIdx_iff_getElem?.2 hk), h4, h5, h6, h7⟩
  · rintro ⟨h1, h2, h3, h4, h5, h6, h7⟩
    exact ⟨⟨⟨⟨⟨⟨h1, h2⟩, fun p hp => h3 p.2 p.1 (List.mem_zipIdx_iff_getElem?.1 hp)⟩, h4⟩, h5⟩, h6⟩, h7⟩


/-! ## Model-level form, buffers, `quantizeTensor` -/

theorem beq_some_none_iff (x : Option BufContent) : (x == some none) = true ↔ x = some none := by
  cases x with
  | none => simp
  | some v => cases v <;> simp

theorem modelOK_iff (m : Model) : WF.modelOK m = true ↔
    m.buffers[0]? = some none ∧ (∀ sg ∈ m.subgraphs, SgOK m sg) ∧ (∀ s ∈ m.sigs, WF.sigOK m s = true) := by
  simp only [WF.modelOK, Bool.and_eq_true, beq_some_none_iff, List.all_eq_true, sgOK_iff,
    List.head?_eq_getElem?, and_assoc]

theorem constAt_set (bufs : List BufContent) (i j : Nat) (v : Nat ⊕ PId) (h : constAt bufs i = true) :
    constAt (bufs.set i (some v)) j = constAt bufs j := by
  unfold constAt at *
  rw [List.getElem?_set]
  by_cases hij : i = j
  · subst hij
    rw [if_pos rfl]
    split at h
    · rename_i heq
      have : i < bufs.length := (List.getElem?_eq_some_iff.1 heq).1
      simp [this]
    · simp at h
  · rw [if_neg hij]

theorem isConst_congr (m m' : Model) (sg sg' : Subgraph) (t : Int)
    (hc : ∀ i, constAt m'.buffers i = constAt m.buffers i)
    (hb : (sg'.tensors[t.toNat]?).map (·.buffer) = (sg.tensors[t.toNat]?).map (·.buffer)) :
    isConst m' sg' t = isConst m sg t := by
  rw [isConst_eq, isConst_eq]
  split
  · rfl
  · cases h1 : sg'.tensors[t.toNat]? <;> cases h2 : sg.tensors[t.toNat]? <;> simp_all

theorem isConst_valid (m : Model) (sg : Subgraph) (t : Int) (h : isConst m sg t = true) : ValidT sg t := by
  rw [isConst_eq] at h
  unfold ValidT
  split at h
  · simp at h
  · split at h
    · rename_i heq
      have := (List.getElem?_eq_some_iff.1 heq).1
      omega
    · simp at h

theorem index_ok {α} (l : List α) (t : Int) (a : α) (h0 : 0 ≤ t) (h : Py.index l t = .ok a) :
    l[t.toNat]? = some a := by
  unfold Py.index at h
  simp only [show ¬ t < 0 by omega, if_false] at h
  split at h
  · simp at h
  · split at h
    · rename_i heq; simp at h; rw [heq, h]
    · simp at h

theorem quantizeTensor_spec (pt : PTable) (bufs bufs' : List BufContent) (sg sg' : Subgraph) (t : Int)
    (param : Option PId) (h0 : 0 ≤ t)
    (h : quantizeTensor pt bufs sg t param = .ok (bufs', sg')) :
    ∃ tn tn', sg.tensors[t.toNat]? = some tn ∧
      sg' = { sg with tensors := sg.tensors.set t.toNat tn' } ∧
      tn'.name = tn.name ∧ tn'.buffer = tn.buffer ∧
      (bufs' = bufs ∨ (tn.buffer ≠ 0 ∧ tn.buffer < bufs.length ∧ ∃ p pi, param = some p ∧
        pinfo pt p = some pi ∧ pi.hasData = true ∧ bufs' = bufs.set tn.buffer (some (.inr p)))) := by
  unfold quantizeTensor at h
  simp only [bind, Except.bind] at h
  cases hg : getTensor sg t with
  | error e => simp [hg] at h
  | ok tn =>
    have hidx := index_ok _ _ _ h0 hg
    simp only [hg] at h
    cases param with
    | none => simp [throw, throwThe, MonadExceptOf.throw] at h
    | some p =>
      simp only at h
      cases hp : pinfo pt p with
      | none => simp [hp, throw, throwThe, MonadExceptOf.throw] at h
      | some pi =>
        simp only [hp] at h
        have hset : ∀ tn', setTensor sg t tn' = { sg with tensors := sg.tensors.set t.toNat tn' } := by
          intro tn'; simp [setTensor, show ¬ t < 0 by omega]
        have hthrow : (throw PyErr.indexError : PyM (List BufContent)) = Except.error PyErr.indexError := rfl
        cases hd : dtypeOf pi with
        | error e =>
          simp only [hd, pure, Except.pure, hthrow] at h
          by_cases hc : (decide (tn.buffer ≠ 0) && pi.hasData) = true
          · by_cases hlt : tn.buffer < bufs.length <;> simp only [hc, hlt, if_true, if_false] at h <;> cases h
          · simp only [hc] at h; cases h
        | ok ty =>
          simp only [hd, hset, pure, Except.pure, hthrow] at h
          by_cases hc : (decide (tn.buffer ≠ 0) && pi.hasData) = true
          · by_cases hlt : tn.buffer < bufs.length
            · simp only [hc, hlt, if_true, Except.ok.injEq, Prod.mk.injEq] at h
              simp only [Bool.and_eq_true, decide_eq_true_eq] at hc
              refine ⟨tn, _, hidx, h.2.symm, ?_, ?_, .inr ⟨hc.1, hlt, p, pi, rfl, hp, hc.2, h.1.symm⟩⟩ <;>
                split <;> rfl
            · simp only [hc, hlt, if_true, if_false] at h; cases h
          · simp only [hc, Bool.false_eq_true, if_false, Except.ok.injEq, Prod.mk.injEq] at h
            refine ⟨tn, _, hidx, h.2.symm, ?_, ?_, .inl h.1.symm⟩ <;> split <;> rfl

/-! ## Congruence: changing buffers / tensor attributes that well-formedness does not look at -/

theorem SgOK_congr (m m' : Model) (sg sg' : Subgraph)
    (hlen : m'.buffers.length = m.buffers.length)
    (hc : ∀ i, constAt m'.buffers i = constAt m.buffers i)
    (hcodes : m.opcodes.length ≤ m'.opcodes.length)
    (hnames : sg'.tensors.map (·.name) = sg.tensors.map (·.name))
    (hbufs : sg'.tensors.map (·.buffer) = sg.tensors.map (·.buffer))
    (hops : sg'.ops = sg.ops) (hins : sg'.inputs = sg.inputs) (houts : sg'.outputs = sg.outputs)
    (h : SgOK m sg) : SgOK m' sg' := by
  have hcon : ∀ t, isConst m' sg' t = isConst m sg t := fun t => by
    apply isConst_congr _ _ _ _ _ hc
    rw [← List.getElem?_map, ← List.getElem?_map, hbufs]
  have hl : sg'.tensors.length = sg.tensors.length := by
    simpa using congrArg List.length hnames
  have hv : ∀ t, ValidT sg' t ↔ ValidT sg t := fun t => by simp [ValidT, hl]
  have ha : ∀ k t, Avail m' sg' k t ↔ Avail m sg k t := fun k t => by
    simp [Avail, hcon, hops, hins]
  refine ⟨?_, hnames ▸ h.names, ?_, hops ▸ h.nodupOut, ?_, ?_, ?_⟩
  · intro tn htn
    have : tn.buffer ∈ sg'.tensors.map (·.buffer) := List.mem_map.2 ⟨tn, htn, rfl⟩
    rw [hbufs] at this
    obtain ⟨tn0, h0, h1⟩ := List.mem_map.1 this
    have := h.bufr tn0 h0
    omega
  · intro k o hk
    rw [hops] at hk
    have ho := h.ops k o hk
    refine ⟨by have := ho.code; omega, ?_, ?_⟩
    · intro t ht
      rcases ho.ins t ht with h1 | ⟨h1, h2⟩
      · exact .inl h1
      · exact .inr ⟨(hv t).2 h1, (ha k t).2 h2⟩
    · intro t ht
      rcases ho.outs t ht with h1 | ⟨h1, h2, h3, h4⟩
      · exact .inl h1
      · exact .inr ⟨(hv t).2 h1, hins ▸ h2, by rw [hcon]; exact h3, hops ▸ h4⟩
  · intro t ht; rw [hins] at ht; exact (hv t).2 (h.ins t ht)
  · intro t ht; rw [houts] at ht; exact (hv t).2 (h.outs t ht)
  · intro t ht; rw [houts] at ht; rw [hops]; exact (ha _ t).2 (h.outsAvail t ht)

/-- signatures stay valid when the tensor list of one subgraph grows -/
theorem sigOK_set (m m' : Model) (sgi : Nat) (sg sg' : Subgraph) (s : Sig)
    (hsg : m.subgraphs[sgi]? = some sg)
    (hsub : m'.subgraphs = m.subgraphs.set sgi sg')
    (hl : sg.tensors.length ≤ sg'.tensors.length)
    (h : WF.sigOK m s = true) : WF.sigOK m' s = true := by
  unfold WF.sigOK at *
  rw [hsub, List.getElem?_set]
  have hlt : sgi < m.subgraphs.length := (List.getElem?_eq_some_iff.1 hsg).1
  by_cases hs : sgi = s.sg
  · subst hs
    rw [hsg] at h
    simp only [hlt, if_true]
    simp only [Bool.and_eq_true, List.all_eq_true, validT_iff, ValidT] at h ⊢
    exact ⟨fun e he => by have := h.1 e he; omega, fun e he => by have := h.2 e he; omega⟩
  · simp only [if_neg hs]
    exact h

/-- assembling the model-level statement from the subgraph-level one -/
theorem modelOK_of_step (m m' : Model) (sgi : Nat) (sg sg' : Subgraph)
    (hsg : m.subgraphs[sgi]? = some sg)
    (hwf : WF.modelOK m = true)
    (hsub : m'.subgraphs = m.subgraphs.set sgi sg')
    (hsigs : m'.sigs = m.sigs)
    (hb0 : m'.buffers[0]? = m.buffers[0]?)
    (hlen : m'.buffers.length = m.buffers.length)
    (hc : ∀ i, constAt m'.buffers i = constAt m.buffers i)
    (hcodes : m.opcodes.length ≤ m'.opcodes.length)
    (hl : sg.tensors.length ≤ sg'.tensors.length)
    (hnew : SgOK m' sg') : WF.modelOK m' = true := by
  rw [modelOK_iff] at *
  obtain ⟨h0, h1, h2⟩ := hwf
  refine ⟨hb0 ▸ h0, ?_, ?_⟩
  · intro x hx
    rw [hsub] at hx
    rcases List.mem_or_eq_of_mem_set hx with hx | rfl
    · exact SgOK_congr m m' x x hlen hc hcodes rfl rfl rfl rfl rfl (h1 x hx)
    · exact hnew
  · intro s hs
    rw [hsigs] at hs
    exact sigOK_set m m' sgi sg sg' s hsg hsub hl (h2 s hs)

/-! ## `quantizeTensor` as a whole -/

theorem map_set_same {α β} (f : α → β) (l : List α) (i : Nat) (a a' : α)
    (h : l[i]? = some a) (hf : f a' = f a) : (l.set i a').map f = l.map f := by
  apply List.ext_getElem?
  intro j
  simp only [List.getElem?_map, List.getElem?_set]
  have hlt : i < l.length := (List.getElem?_eq_some_iff.1 h).1
  by_cases hij : i = j
  · subst hij
    obtain ⟨_, rfl⟩ := List.getElem?_eq_some_iff.1 h
    simp [hlt, hf]
  · simp [hij]

theorem isConst_of_get (m : Model) (sg : Subgraph) (t : Int) (tn : Tensor) (h0 : 0 ≤ t)
    (hget : sg.tensors[t.toNat]? = some tn) : isConst m sg t = constAt m.buffers tn.buffer := by
  rw [isConst_eq, if_neg (by omega), hget]

theorem bufs_after (bufs bufs' : List BufContent) (b : Nat)
    (hb : bufs' = bufs ∨ (b ≠ 0 ∧ constAt bufs b = true ∧ ∃ v, bufs' = bufs.set b (some v))) :
    bufs'[0]? = bufs[0]? ∧ bufs'.length = bufs.length ∧ ∀ i, constAt bufs' i = constAt bufs i := by
  rcases hb with rfl | ⟨h0, hc, v, rfl⟩
  · exact ⟨rfl, rfl, fun _ => rfl⟩
  · exact ⟨by rw [List.getElem?_set, if_neg h0], by simp, fun i => constAt_set _ _ _ _ hc⟩

/-- everything the proofs need to know about a successful `quantizeTensor` on an existing tensor:
    names and buffer indices are unchanged; the buffer table keeps its length, its entry 0 and its
    data/no-data pattern, provided a data-carrying parameter is only applied to a constant -/
theorem quantizeTensor_ok (pt : PTable) (m : Model) (bufs' : List BufContent) (sg sg' : Subgraph) (t : Int)
    (param : Option PId) (h0 : 0 ≤ t)
    (hdata : ∀ p pi, param = some p → pinfo pt p = some pi → pi.hasData = true →
      ∀ tn, sg.tensors[t.toNat]? = some tn → tn.buffer ≠ 0 → constAt m.buffers tn.buffer = true)
    (h : quantizeTensor pt m.buffers sg t param = .ok (bufs', sg')) :
    sg'.tensors.map (·.name) = sg.tensors.map (·.name) ∧
    sg'.tensors.map (·.buffer) = sg.tensors.map (·.buffer) ∧
    sg'.ops = sg.ops ∧ sg'.inputs = sg.inputs ∧ sg'.outputs = sg.outputs ∧
    bufs'[0]? = m.buffers[0]? ∧ bufs'.length = m.buffers.length ∧
    ∀ i, constAt bufs' i = constAt m.buffers i := by
  obtain ⟨tn, tn', hget, rfl, hn, hb, hbufs⟩ := quantizeTensor_spec _ _ _ _ _ _ _ h0 h
  refine ⟨map_set_same _ _ _ _ _ hget hn, map_set_same _ _ _ _ _ hget hb, rfl, rfl, rfl, ?_⟩
  apply bufs_after _ _ tn.buffer
  rcases hbufs with h1 | ⟨h1, _, p, pi, h3, h4, h5, h6⟩
  · exact .inl h1
  · exact .inr ⟨h1, hdata p pi h3 h4 h5 tn hget h1, _, h6⟩

/-! ## The pieces of `wireNewOp` -/

theorem foldl_min_spec (xs : List Int) (x : Int) :
    (xs.foldl min x ≤ x ∧ ∀ y ∈ xs, xs.foldl min x ≤ y) ∧ (xs.foldl min x = x ∨ xs.foldl min x ∈ xs) := by
  induction xs generalizing x with
  | nil => simp
  | cons a as ih =>
    simp only [List.foldl_cons, List.mem_cons, forall_eq_or_imp]
    obtain ⟨⟨h1, h2⟩, h3⟩ := ih (min x a)
    refine ⟨⟨by omega, by omega, h2⟩, ?_⟩
    rcases h3 with h3 | h3
    · rw [h3]
      by_cases hxa : x ≤ a
      · left; omega
      · right; left; omega
    · exact .inr (.inr h3)

theorem minCons_spec (l : List Int) (first : Int) (h : minCons l = .ok first) :
    first ∈ l ∧ ∀ y ∈ l, first ≤ y := by
  unfold minCons Py.minInt at h
  cases l with
  | nil => simp at h
  | cons x xs =>
    simp only [Except.ok.injEq] at h
    subst h
    obtain ⟨⟨h1, h2⟩, h3⟩ := foldl_min_spec xs x
    refine ⟨?_, ?_⟩
    · rcases h3 with h3 | h3
      · rw [h3]; exact List.mem_cons_self
      · exact List.mem_cons_of_mem _ h3
    · intro y hy
      rcases List.mem_cons.1 hy with rfl | hy
      · exact h1
      · exact h2 y hy

/-- the operand rewrite that `rewire` applies to a consumer -/
def rew (t n : Int) (op : Op) : Op :=
  { op with inputs := op.inputs.map fun i => if i == t then n else i }

theorem rew_idem (t n : Int) (op : Op) : rew t n (rew t n op) = rew t n op := by
  simp only [rew, List.map_map]
  congr 1
  apply List.map_congr_left
  intro i _
  simp only [Function.comp]
  by_cases h : i = t
  · subst h; simp
  · simp [h]

theorem rewire_spec (cons : List Int) (t n : Int) : ∀ (ops ops2 : List Op),
    rewire ops cons t n = .ok ops2 →
    ops2.length = ops.length ∧
    ∀ j : Nat, ops2[j]? = ops[j]? ∨ ((j : Int) ∈ cons ∧ ops2[j]? = ops[j]?.map (rew t n)) := by
  induction cons with
  | nil =>
    intro ops ops2 h
    simp only [rewire, List.foldlM_nil, pure, Except.pure, Except.ok.injEq] at h
    subst h
    exact ⟨rfl, fun j => .inl rfl⟩
  | cons c cs ih =>
    intro ops ops2 h
    simp only [rewire, List.foldlM_cons, bind, Except.bind] at h
    by_cases hc : c < 0
    · simp only [hc, if_true, pure, Except.pure] at h
      obtain ⟨h1, h2⟩ := ih ops ops2 h
      refine ⟨h1, fun j => ?_⟩
      rcases h2 j with h2 | ⟨h2, h3⟩
      · exact .inl h2
      · exact .inr ⟨List.mem_cons_of_mem _ h2, h3⟩
    · by_cases hlt : c.toNat < ops.length
      · simp only [hc, if_false, hlt, if_true, pure, Except.pure] at h
        obtain ⟨h1, h2⟩ := ih _ ops2 h
        refine ⟨by simpa using h1, fun j => ?_⟩
        have hm := List.getElem?_modify (rew t n) c.toNat ops j
        by_cases hj : c.toNat = j
        · right
          refine ⟨by rw [← hj]; simp [show c.toNat = c from by omega], ?_⟩
          rcases h2 j with h2 | ⟨_, h2⟩
          · rw [h2]; unfold rew at hm ⊢; rw [hm]; simp [hj]
          · rw [h2]; unfold rew at hm ⊢; rw [hm]; simp only [hj, if_true, Option.map_eq_map, Option.map_map]
            congr 1
            funext o
            exact rew_idem t n o
        · have hm' : (ops.modify c.toNat (rew t n))[j]? = ops[j]? := by
            unfold rew at hm ⊢; rw [hm]; simp [hj]
          unfold rew at hm' h2
          rcases h2 j with h2 | ⟨h2, h3⟩
          · exact .inl (h2.trans hm')
          · exact .inr ⟨List.mem_cons_of_mem _ h2, by rw [h3, hm']; rfl⟩
      · simp [hc, hlt, throw, throwThe, MonadExceptOf.throw] at h

theorem rewire_get (ops ops2 : List Op) (cons : List Int) (t n : Int)
    (h : rewire ops cons t n = .ok ops2) (j : Nat) (o2 : Op) (hj : ops2[j]? = some o2) :
    ∃ o, ops[j]? = some o ∧ o2.code = o.code ∧ o2.outputs = o.outputs ∧
      (o2.inputs = o.inputs ∨
        ((j : Int) ∈ cons ∧ o2.inputs = o.inputs.map fun i => if i == t then n else i)) := by
  obtain ⟨_, h2⟩ := rewire_spec cons t n ops ops2 h
  rcases h2 j with h2 | ⟨h2, h3⟩
  · exact ⟨o2, by rw [← h2, hj], rfl, rfl, .inl rfl⟩
  · rw [hj] at h3
    cases ho : ops[j]? with
    | none => simp [ho] at h3
    | some o =>
      simp only [ho, Option.map_some, Option.some.injEq] at h3
      subst h3
      exact ⟨o, rfl, rfl, rfl, .inr ⟨h2, rfl⟩⟩

theorem rewire_get' (ops ops2 : List Op) (cons : List Int) (t n : Int)
    (h : rewire ops cons t n = .ok ops2) (j : Nat) (o : Op) (hj : ops[j]? = some o) :
    ∃ o2, ops2[j]? = some o2 ∧ o2.outputs = o.outputs := by
  obtain ⟨h1, h2⟩ := rewire_spec cons t n ops ops2 h
  rcases h2 j with h2 | ⟨_, h3⟩
  · exact ⟨o, by rw [h2, hj], rfl⟩
  · exact ⟨rew t n o, by rw [h3, hj]; rfl, rfl⟩

theorem prodBefore_mono (ops : List Op) (j k : Nat) (t : Int) (hjk : j ≤ k) (h : ProdBefore ops j t) :
    ProdBefore ops k t := by
  obtain ⟨i, o, hi, ho, ht⟩ := h
  exact ⟨i, o, by omega, ho, ht⟩

theorem prodBefore_rewire (ops ops2 : List Op) (cons : List Int) (t n : Int)
    (h : rewire ops cons t n = .ok ops2) (k : Nat) (x : Int) :
    ProdBefore ops2 k x ↔ ProdBefore ops k x := by
  constructor
  · rintro ⟨i, o2, hi, ho, hx⟩
    obtain ⟨o, h1, _, h3, _⟩ := rewire_get ops ops2 cons t n h i o2 ho
    exact ⟨i, o, hi, h1, h3 ▸ hx⟩
  · rintro ⟨i, o, hi, ho, hx⟩
    obtain ⟨o2, h1, h2⟩ := rewire_get' ops ops2 cons t n h i o ho
    exact ⟨i, o2, hi, h1, h2 ▸ hx⟩

theorem prodBefore_insert_le (ops : List Op) (k j : Nat) (op : Op) (x : Int) (hjk : j ≤ k) :
    ProdBefore (ops.insertIdx k op) j x ↔ ProdBefore ops j x := by
  constructor
  · rintro ⟨i, o, hi, ho, hx⟩
    rw [List.getElem?_insertIdx_of_lt (by omega)] at ho
    exact ⟨i, o, hi, ho, hx⟩
  · rintro ⟨i, o, hi, ho, hx⟩
    refine ⟨i, o, hi, ?_, hx⟩
    rw [List.getElem?_insertIdx_of_lt (by omega)]; exact ho

theorem prodBefore_insert_gt (ops : List Op) (k j : Nat) (op : Op) (x : Int) (hkj : k < j)
    (hk : k ≤ ops.length) :
    ProdBefore (ops.insertIdx k op) j x ↔ (ProdBefore ops (j - 1) x ∨ x ∈ op.outputs) := by
  constructor
  · rintro ⟨i, o, hi, ho, hx⟩
    rw [List.getElem?_insertIdx] at ho
    by_cases h1 : i < k
    · rw [if_pos h1] at ho
      exact .inl ⟨i, o, by omega, ho, hx⟩
    · rw [if_neg h1] at ho
      by_cases h2 : i = k
      · rw [if_pos h2] at ho
        subst h2
        rw [if_pos hk] at ho
        cases ho
        exact .inr hx
      · rw [if_neg h2] at ho
        exact .inl ⟨i - 1, o, by omega, ho, hx⟩
  · rintro (⟨i, o, hi, ho, hx⟩ | hx)
    · by_cases h1 : i < k
      · exact ⟨i, o, by omega, by rw [List.getElem?_insertIdx_of_lt h1]; exact ho, hx⟩
      · refine ⟨i + 1, o, by omega, ?_, hx⟩
        rw [List.getElem?_insertIdx_of_gt (by omega)]
        exact ho
    · exact ⟨k, op, hkj, by rw [List.getElem?_insertIdx_self, if_pos hk], hx⟩

theorem pyInsert_eq {α} (l : List α) (i : Int) (x : α) (h0 : 0 ≤ i) (h1 : i.toNat ≤ l.length) :
    pyInsert l i x = l.insertIdx i.toNat x := by
  unfold pyInsert
  simp only [show ¬ i < 0 by omega, if_false]
  rw [Nat.min_eq_left h1]

theorem wireNewOp_spec (sg2 sg3 : Subgraph) (inp : TIn) (newT : Int) (op : Op) (info : TInfoOut)
    (h : wireNewOp sg2 inp newT op = .ok (sg3, info)) :
    ∃ first ops2, minCons inp.consumers = .ok first ∧
      rewire sg2.ops inp.consumers inp.tensor newT = .ok ops2 ∧
      sg3.tensors = sg2.tensors ∧ sg3.inputs = sg2.inputs ∧
      sg3.ops = pyInsert ops2 (max (inp.producer + 1) first) op ∧
      sg3.outputs = (if memI (-1) inp.consumers
        then sg2.outputs.map (fun o => if o == inp.tensor then newT else o) else sg2.outputs) := by
  unfold wireNewOp at h
  simp only [bind, Except.bind, pure, Except.pure] at h
  cases hm : minCons inp.consumers with
  | error e => simp [hm] at h
  | ok first =>
    simp only [hm] at h
    cases hr : rewire sg2.ops inp.consumers inp.tensor newT with
    | error e => simp [hr] at h
    | ok ops2 =>
      simp only [hr, Except.ok.injEq, Prod.mk.injEq] at h
      obtain ⟨rfl, -⟩ := h
      exact ⟨first, ops2, rfl, rfl, rfl, rfl, rfl, rfl⟩

/-! ## The core step: appending one fresh tensor and splicing in one operator -/

theorem avail_mono (m : Model) (sg : Subgraph) (j k : Nat) (t : Int) (hjk : j ≤ k)
    (h : Avail m sg j t) : Avail m sg k t := by
  rcases h with h | h | h
  · exact .inl h
  · exact .inr (.inl h)
  · exact .inr (.inr (prodBefore_mono _ _ _ _ hjk h))

theorem wire_ok (m m' : Model) (sg sg2 sg3 : Subgraph) (inp : TIn) (op : Op) (info : TInfoOut)
    (hok : SgOK m sg)
    (hlen : sg2.tensors.length = sg.tensors.length + 1)
    (hops : sg2.ops = sg.ops) (hin : sg2.inputs = sg.inputs) (hout : sg2.outputs = sg.outputs)
    (hnames : (sg2.tensors.map (·.name)).Nodup)
    (hbufr : ∀ tn ∈ sg2.tensors, tn.buffer < m'.buffers.length)
    (hcold : ∀ t, ValidT sg t → isConst m' sg2 t = isConst m sg t)
    (hcnew : isConst m' sg2 (sg.tensors.length : Int) = false)
    (hcode : op.code < m'.opcodes.length) (hcodes : m.opcodes.length ≤ m'.opcodes.length)
    (hopin : op.inputs = [inp.tensor]) (hopout : op.outputs = [(sg.tensors.length : Int)])
    (htv : ValidT sg inp.tensor)
    (hpr : -1 ≤ inp.producer ∧ inp.producer < sg.ops.length)
    (hta : Avail m sg (inp.producer + 1).toNat inp.tensor)
    (hca : ∀ c ∈ inp.consumers, c < 0 ∨ (inp.producer < c ∧ c < sg.ops.length))
    (h : wireNewOp sg2 inp (sg.tensors.length : Int) op = .ok (sg3, info)) : SgOK m' sg3 := by
  obtain ⟨first, ops2, hmin, hrw, hT, hI, hO, hOut⟩ := wireNewOp_spec _ _ _ _ _ _ h
  rw [hops] at hrw
  rw [hin] at hI
  rw [hout] at hOut
  obtain ⟨hfm, hfle⟩ := minCons_spec _ _ hmin
  obtain ⟨hl2, -⟩ := rewire_spec _ _ _ _ _ hrw
  -- the insertion position
  have hkp : (inp.producer + 1).toNat ≤ (max (inp.producer + 1) first).toNat := by omega
  have hklen : (max (inp.producer + 1) first).toNat ≤ sg.ops.length := by
    have := hca first hfm; omega
  have hkc : ∀ c ∈ inp.consumers, 0 ≤ c → (max (inp.producer + 1) first).toNat ≤ c.toNat := by
    intro c hc h0
    have h1 := hca c hc
    have h2 := hfle c hc
    omega
  rw [pyInsert_eq _ _ _ (by omega) (by omega)] at hO
  generalize (max (inp.producer + 1) first).toNat = k at hkp hklen hkc hO
  have hlen3 : sg3.ops.length = sg.ops.length + 1 := by
    rw [hO, List.length_insertIdx_of_le_length (by omega)]; omega
  -- tensors
  have hv : ∀ t, ValidT sg t → ValidT sg3 t := by
    intro t ht; unfold ValidT at *; rw [hT, hlen]; omega
  have hvnew : ValidT sg3 (sg.tensors.length : Int) := by
    unfold ValidT; rw [hT, hlen]; omega
  have hcon3 : ∀ t, isConst m' sg3 t = isConst m' sg2 t := fun t =>
    isConst_congr _ _ _ _ _ (fun _ => rfl) (by rw [hT])
  have hcT : ∀ t, isConst m sg t = true → isConst m' sg3 t = true := by
    intro t ht
    rw [hcon3, hcold t (isConst_valid _ _ _ ht)]; exact ht
  have hcF : ∀ t, ValidT sg t → isConst m sg t = false → isConst m' sg3 t = false := by
    intro t hvt ht
    rw [hcon3, hcold t hvt]; exact ht
  -- produced-before
  have hpv : ∀ j x, ProdBefore sg.ops j x → x = -1 ∨ ValidT sg x := by
    rintro j x ⟨i, o, _, ho, hx⟩
    rcases (hok.ops i o ho).outs x hx with h1 | h1
    · exact .inl h1
    · exact .inr h1.1
  have hnewne : ∀ x, x = -1 ∨ ValidT sg x → x ≠ (sg.tensors.length : Int) := by
    intro x hx; unfold ValidT at hx; omega
  have hPle : ∀ j x, j ≤ k → (ProdBefore sg3.ops j x ↔ ProdBefore sg.ops j x) := by
    intro j x hj
    rw [hO, prodBefore_insert_le _ _ _ _ _ hj, prodBefore_rewire _ _ _ _ _ hrw]
  have hPgt : ∀ j x, k < j →
      (ProdBefore sg3.ops j x ↔ ProdBefore sg.ops (j - 1) x ∨ x = (sg.tensors.length : Int)) := by
    intro j x hj
    rw [hO, prodBefore_insert_gt _ _ _ _ _ hj (by omega), prodBefore_rewire _ _ _ _ _ hrw, hopout]
    simp
  -- transfer along the position map  j ↦ j (j ≤ k),  j ↦ j+1 (k ≤ j)
  have availT : ∀ j j' t, ((j' = j ∧ j ≤ k) ∨ (j' = j + 1 ∧ k ≤ j)) → Avail m sg j t →
      Avail m' sg3 j' t := by
    intro j j' t hpos ha
    rcases ha with ha | ha | ha
    · exact .inl (hI ▸ ha)
    · exact .inr (.inl (hcT t ha))
    · refine .inr (.inr ?_)
      rcases hpos with ⟨rfl, hj⟩ | ⟨rfl, hj⟩
      · exact (hPle _ _ hj).2 ha
      · exact (hPgt _ _ (by omega)).2 (.inl (by simpa using ha))
  have nprodT : ∀ j j' x, ((j' = j ∧ j ≤ k) ∨ (j' = j + 1 ∧ k ≤ j)) →
      x ≠ (sg.tensors.length : Int) → ¬ ProdBefore sg.ops j x → ¬ ProdBefore sg3.ops j' x := by
    intro j j' x hpos hne hnp hp
    rcases hpos with ⟨rfl, hj⟩ | ⟨rfl, hj⟩
    · exact hnp ((hPle _ _ hj).1 hp)
    · rcases (hPgt _ _ (by omega)).1 hp with h1 | h1
      · exact hnp (by simpa using h1)
      · exact hne h1
  have availNew : ∀ j', k < j' → Avail m' sg3 j' (sg.tensors.length : Int) := by
    intro j' hj
    exact .inr (.inr ((hPgt _ _ hj).2 (.inr rfl)))
  -- an old operator at its new position
  have transfer : ∀ j j' o o3, ((j' = j ∧ j ≤ k) ∨ (j' = j + 1 ∧ k ≤ j)) → sg.ops[j]? = some o →
      o3.code = o.code → o3.outputs = o.outputs →
      (∀ t ∈ o3.inputs, t ∈ o.inputs ∨ (t = (sg.tensors.length : Int) ∧ k < j')) →
      OpOK m' sg3 j' o3 := by
    intro j j' o o3 hpos hj hc ho hi
    have hold := hok.ops j o hj
    refine ⟨by have := hold.code; omega, ?_, ?_⟩
    · intro t ht
      rcases hi t ht with h1 | ⟨rfl, h2⟩
      · rcases hold.ins t h1 with h3 | ⟨h3, h4⟩
        · exact .inl h3
        · exact .inr ⟨hv t h3, availT j j' t hpos h4⟩
      · exact .inr ⟨hvnew, availNew j' h2⟩
    · intro t ht
      rw [ho] at ht
      rcases hold.outs t ht with h3 | ⟨h3, h4, h5, h6⟩
      · exact .inl h3
      · exact .inr ⟨hv t h3, hI ▸ h4, hcF t h3 h5, nprodT j j' t hpos (hnewne t (.inr h3)) h6⟩
  refine ⟨hT ▸ hbufr, hT ▸ hnames, ?_, ?_, ?_, ?_, ?_⟩
  · -- operators
    intro j o3 hj
    rw [hO, List.getElem?_insertIdx] at hj
    by_cases h1 : j < k
    · rw [if_pos h1] at hj
      obtain ⟨o, g1, g2, g3, g4⟩ := rewire_get _ _ _ _ _ hrw j o3 hj
      refine transfer j j o o3 (.inl ⟨rfl, by omega⟩) g1 g2 g3 ?_
      rcases g4 with g4 | ⟨g4, -⟩
      · intro t ht; exact .inl (g4 ▸ ht)
      · have := hkc _ g4 (by omega)
        omega
    · rw [if_neg h1] at hj
      by_cases h2 : j = k
      · subst h2
        rw [if_pos rfl, if_pos (by omega)] at hj
        cases hj
        refine ⟨hcode, ?_, ?_⟩
        · intro t ht
          rw [hopin, List.mem_singleton] at ht
          subst ht
          exact .inr ⟨hv _ htv, availT j j _ (.inl ⟨rfl, Nat.le_refl _⟩) (avail_mono _ _ _ _ _ hkp hta)⟩
        · intro t ht
          rw [hopout, List.mem_singleton] at ht
          subst ht
          refine .inr ⟨hvnew, ?_, by rw [hcon3]; exact hcnew, ?_⟩
          · rw [hI]; intro hmem
            have := hok.ins _ hmem
            unfold ValidT at this; omega
          · intro hp
            have := hpv _ _ ((hPle _ _ (Nat.le_refl _)).1 hp)
            unfold ValidT at this; omega
      · rw [if_neg h2] at hj
        obtain ⟨o, g1, g2, g3, g4⟩ := rewire_get _ _ _ _ _ hrw (j - 1) o3 hj
        refine transfer (j - 1) j o o3 (.inr ⟨by omega, by omega⟩) g1 g2 g3 ?_
        rcases g4 with g4 | ⟨-, g4⟩
        · intro t ht; exact .inl (g4 ▸ ht)
        · intro t ht
          rw [g4] at ht
          obtain ⟨i, hi, rfl⟩ := List.mem_map.1 ht
          by_cases hit : (i == inp.tensor) = true
          · rw [if_pos hit]; exact .inr ⟨rfl, by omega⟩
          · rw [if_neg hit]; exact .inl hi
  · -- distinct outputs
    intro o3 ho3
    rw [hO, List.mem_insertIdx (by omega)] at ho3
    rcases ho3 with rfl | ho3
    · rw [hopout]
      simp [show ¬ (sg.tensors.length : Int) = -1 by omega]
    · obtain ⟨j, hj⟩ := List.mem_iff_getElem?.1 ho3
      obtain ⟨o, g1, _, g3, _⟩ := rewire_get _ _ _ _ _ hrw j o3 hj
      rw [g3]
      exact hok.nodupOut o (List.mem_of_getElem? g1)
  · intro t ht; rw [hI] at ht; exact hv t (hok.ins t ht)
  · intro t ht
    rw [hOut] at ht
    split at ht
    · obtain ⟨i, hi, rfl⟩ := List.mem_map.1 ht
      split
      · exact hvnew
      · exact hv i (hok.outs i hi)
    · exact hv t (hok.outs t ht)
  · have hposL : (sg3.ops.length = sg.ops.length ∧ sg.ops.length ≤ k) ∨
        (sg3.ops.length = sg.ops.length + 1 ∧ k ≤ sg.ops.length) := .inr ⟨hlen3, hklen⟩
    intro t ht
    rw [hOut] at ht
    split at ht
    · obtain ⟨i, hi, rfl⟩ := List.mem_map.1 ht
      split
      · exact availNew _ (by omega)
      · exact availT _ _ i hposL (hok.outsAvail i hi)
    · exact availT _ _ t hposL (hok.outsAvail t ht)

/-- the transformation input is consistent with the graph: the tensor exists, is available right
    after `producer` (`producer = -1` for graph inputs / constants), every real consumer position
    is a valid operator position after the producer, and data-carrying parameters are only applied
    to tensors that already hold constant data. -/
structure InpOK (pt : PTable) (m : Model) (sg : Subgraph) (inp : TIn) : Prop where
  tvalid : WF.validT sg inp.tensor = true
  prodRange : -1 ≤ inp.producer ∧ inp.producer < sg.ops.length
  tavail : WF.avail m sg (inp.producer + 1).toNat inp.tensor = true
  consAfter : ∀ c ∈ inp.consumers, c < 0 ∨ (inp.producer < c ∧ c < sg.ops.length)
  dataConst : ∀ p pi, inp.param = some p → pinfo pt p = some pi → pi.hasData = true → isConst m sg inp.tensor = true

theorem InpOK.dataConst_get {pt : PTable} {m : Model} {sg : Subgraph} {inp : TIn} (hinp : InpOK pt m sg inp)
    (h0 : 0 ≤ inp.tensor) :
    ∀ p pi, inp.param = some p → pinfo pt p = some pi → pi.hasData = true →
      ∀ tn, sg.tensors[inp.tensor.toNat]? = some tn → tn.buffer ≠ 0 → constAt m.buffers tn.buffer = true := by
  intro p pi h1 h2 h3 tn hget _
  rw [← isConst_of_get m sg inp.tensor tn h0 hget]
  exact hinp.dataConst p pi h1 h2 h3

theorem addOpCode_spec (codes : List Nat) (c : Nat) :
    (addOpCode codes c).2 < (addOpCode codes c).1.length ∧ codes.length ≤ (addOpCode codes c).1.length := by
  unfold addOpCode
  split
  · rename_i i hi
    obtain ⟨hlt, _⟩ := List.findIdx?_eq_some_iff_getElem.1 hi
    exact ⟨hlt, Nat.le_refl _⟩
  · simp

/-- common part of `insertQuant_ok` and `insertDequant_ok`: `qt` is the tensor that gets quantized
    (the original one for a dequantize insertion, the new one for a quantize insertion) -/
theorem insert_ok (pt : PTable) (m : Model) (sgi : Nat) (sg : Subgraph) (inp : TIn)
    (hsg : m.subgraphs[sgi]? = some sg)
    (hwf : WF.modelOK m = true) (hinp : InpOK pt m sg inp)
    (base : String) (code : Nat) (tn : Tensor) (qt : Int)
    (bufs : List BufContent) (sg2 sg3 : Subgraph) (info : TInfoOut)
    (hqt : qt = inp.tensor ∨ qt = (sg.tensors.length : Int))
    (hq : quantizeTensor pt m.buffers
      { sg with tensors := sg.tensors ++
          [{ name := uniqueName (sg.tensors.map (·.name)) base, dtype := Tables.ttFloat32,
             shape := tn.shape, buffer := 0 }] } qt inp.param = .ok (bufs, sg2))
    (hw : wireNewOp sg2 inp (sg.tensors.length : Int)
      { code := (addOpCode m.opcodes code).2, inputs := [inp.tensor],
        outputs := [(sg.tensors.length : Int)] } = .ok (sg3, info)) :
    WF.modelOK { m with subgraphs := m.subgraphs.set sgi sg3, buffers := bufs,
                        opcodes := (addOpCode m.opcodes code).1 } = true := by
  have hv := (validT_iff _ _).1 hinp.tvalid
  have hv' := hv
  unfold ValidT at hv'
  obtain ⟨hb0, hsgs, -⟩ := (modelOK_iff m).1 hwf
  have hok : SgOK m sg := hsgs sg (List.mem_of_getElem? hsg)
  have hblen : 0 < m.buffers.length := (List.getElem?_eq_some_iff.1 hb0).1
  obtain ⟨h1, h2, h3, h4, h5, h6, h7, h8⟩ := quantizeTensor_ok pt m bufs _ sg2 qt inp.param
    (by omega) (by
      intro p pi e1 e2 e3 tq hget hne
      rcases hqt with rfl | rfl
      · rw [List.getElem?_append_left (by omega)] at hget
        exact hinp.dataConst_get hv.1 p pi e1 e2 e3 tq hget hne
      · simp at hget
        subst hget
        simp at hne) hq
  simp only [List.map_append, List.map_cons, List.map_nil] at h1 h2 h3 h4 h5
  have hlen : sg2.tensors.length = sg.tensors.length + 1 := by
    have := congrArg List.length h1; simpa using this
  obtain ⟨_, _, _, _, hT3, _, _, _⟩ := wireNewOp_spec _ _ _ _ _ _ hw
  obtain ⟨hc1, hc2⟩ := addOpCode_spec m.opcodes code
  have hbget : ∀ i : Nat, (sg2.tensors[i]?).map (·.buffer) = (sg.tensors.map (·.buffer) ++ [0])[i]? := by
    intro i; rw [← List.getElem?_map, h2]
  refine modelOK_of_step m _ sgi sg sg3 hsg hwf rfl rfl h6 h7 h8 hc2 (by rw [hT3]; omega) ?_
  refine wire_ok m _ sg sg2 sg3 inp _ info hok hlen h3 h4 h5 ?_ ?_ ?_ ?_ hc1 hc2 rfl rfl hv
    hinp.prodRange ((avail_iff _ _ _ _).1 hinp.tavail) hinp.consAfter hw
  · rw [h1, List.nodup_append]
    refine ⟨hok.names, by simp, ?_⟩
    intro a ha b hb
    rw [List.mem_singleton] at hb
    subst hb
    intro hab
    subst hab
    exact uniqueName_fresh _ _ ha
  · intro t ht
    have : t.buffer ∈ sg2.tensors.map (·.buffer) := List.mem_map.2 ⟨t, ht, rfl⟩
    rw [h2, List.mem_append] at this
    show t.buffer < bufs.length
    rw [h7]
    rcases this with hm | hm
    · obtain ⟨t0, g1, g2⟩ := List.mem_map.1 hm
      have := hok.bufr t0 g1
      omega
    · rw [List.mem_singleton] at hm; omega
  · intro t ht
    unfold ValidT at ht
    apply isConst_congr _ _ _ _ _ h8
    rw [hbget, List.getElem?_append_left (by simp; omega), List.getElem?_map]
  · have hg := hbget sg.tensors.length
    rw [List.getElem?_append_right (by simp)] at hg
    simp only [List.length_map, Nat.sub_self, List.getElem?_cons_zero] at hg
    cases hget : sg2.tensors[sg.tensors.length]? with
    | none => simp [hget] at hg
    | some tl =>
      simp only [hget, Option.map_some, Option.some.injEq] at hg
      rw [isConst_of_get _ sg2 _ tl (by omega) (by simpa using hget), hg]
      show constAt bufs 0 = false
      rw [h8]
      unfold constAt
      rw [hb0]

theorem quantizeOnly_ok (pt : PTable) (m m' : Model) (sgi : Nat) (sg : Subgraph) (inp : TIn) (info : TInfoOut)
    (hsg : m.subgraphs[sgi]? = some sg)
    (hwf : WF.modelOK m = true) (hinp : InpOK pt m sg inp)
    (h : quantizeOnly pt m sgi inp = .ok (m', info)) : WF.modelOK m' = true := by
  unfold quantizeOnly at h
  simp only [hsg, bind, Except.bind, pure, Except.pure] at h
  cases hq : quantizeTensor pt m.buffers sg inp.tensor inp.param with
  | error e => simp [hq] at h
  | ok r =>
    obtain ⟨bufs', sg'⟩ := r
    simp only [hq, Except.ok.injEq, Prod.mk.injEq] at h
    obtain ⟨rfl, -⟩ := h
    have hv := (validT_iff _ _).1 hinp.tvalid
    obtain ⟨h1, h2, h3, h4, h5, h6, h7, h8⟩ :=
      quantizeTensor_ok pt m bufs' sg sg' inp.tensor inp.param hv.1 (hinp.dataConst_get hv.1) hq
    have hsgok : SgOK m sg := ((modelOK_iff m).1 hwf).2.1 sg (List.mem_of_getElem? hsg)
    refine modelOK_of_step m _ sgi sg sg' hsg hwf rfl rfl h6 h7 h8 (Nat.le_refl _) ?_ ?_
    · have := congrArg List.length h1; simp at this; omega
    · exact SgOK_congr m _ sg sg' h7 h8 (Nat.le_refl _) h1 h2 h3 h4 h5 hsgok

theorem insertQuant_ok (pt : PTable) (m m' : Model) (sgi : Nat) (sg : Subgraph) (inp : TIn) (info : TInfoOut)
    (hsg : m.subgraphs[sgi]? = some sg)
    (hwf : WF.modelOK m = true) (hinp : InpOK pt m sg inp)
    (h : insertQuant pt m sgi inp = .ok (m', info)) : WF.modelOK m' = true := by
  unfold insertQuant at h
  simp only [hsg, bind, Except.bind, pure, Except.pure] at h
  cases hg : getTensor sg inp.tensor with
  | error e => simp [hg] at h
  | ok tn =>
    simp only [hg] at h
    split at h
    · simp at h
    · rename_i r hq
      obtain ⟨bufs, sg2⟩ := r
      split at h
      · simp at h
      · rename_i r' hw
        obtain ⟨sg3, info'⟩ := r'
        simp only [Except.ok.injEq, Prod.mk.injEq] at h
        obtain ⟨rfl, -⟩ := h
        exact insert_ok pt m sgi sg inp hsg hwf hinp _ _ tn _ bufs sg2 sg3 info' (.inr rfl) hq hw

theorem insertDequant_ok (pt : PTable) (m m' : Model) (sgi : Nat) (sg : Subgraph) (inp : TIn) (info : TInfoOut)
    (hsg : m.subgraphs[sgi]? = some sg)
    (hwf : WF.modelOK m = true) (hinp : InpOK pt m sg inp)
    (h : insertDequant pt m sgi inp = .ok (m', info)) : WF.modelOK m' = true := by
  unfold insertDequant at h
  simp only [hsg, bind, Except.bind, pure, Except.pure] at h
  cases hg : getTensor sg inp.tensor with
  | error e => simp [hg] at h
  | ok tn =>
    simp only [hg] at h
    split at h
    · simp at h
    · rename_i r hq
      obtain ⟨bufs, sg2⟩ := r
      split at h
      · simp at h
      · rename_i r' hw
        obtain ⟨sg3, info'⟩ := r'
        simp only [Except.ok.injEq, Prod.mk.injEq] at h
        obtain ⟨rfl, -⟩ := h
        exact insert_ok pt m sgi sg inp hsg hwf hinp _ _ tn _ bufs sg2 sg3 info' (.inl rfl) hq hw

end GraphStep
