import QProofs.PipeMat
import QProofs.ArithLemmas
/-!
# What materialisation requests for a tensor IS the reference formula applied to its statistics

* `refQDim`, `refParams`, `refData`, `refTensorParams`: the reference (TFLite-spec) parameter
  computation, split into its three ingredients: min/max formula (`Arith.zpScale`), quantized
  dimension (table `Tables.weightQDim` / `bmmQDim`), quantized values (`Arith.uniformQuantize`);
* `tensorQuantParams_eq`, `wrapper_none_eq`: `Mat.tensorQuantParams` / `Mat.wrapper` restated with them;
* `zpScale_elems`: every channel of the array formula is the scalar core `zpScale1` on that channel;
* `reduceKeep_*`, `initMinMax_*`: shape, size and `min ≤ max` of the on-the-spot weight statistics;
* `standardOp_sameAsInput`, `standardOp_sameAsOutput`: the parameter sharing of the constrained ops.
-/
open Graph Mat Arith Cfg Num Nd

set_option autoImplicit false

namespace MatParams

open GraphInv (bind_ok)

/-! ## the reference computation -/

/-- the quantized dimension attached to the parameters (`_get_tensor_quant_params`): none unless the
    tensor config is CHANNELWISE; then the runtime kernel's dimension for the op's weight -/
def refQDim (env : Env) (oi : OpInfo) (tc : TCfg) (content : Option (Arr Rat)) : PyM (Option Nat) :=
  if tc.gran == .channelwise then
    if oi.opName == "BATCH_MATMUL" then
      match content with
      | some c => .ok (some (bmmQDim c.shape.length (opAdjY env oi)))
      | none => .error .attributeError
    else match Tables.weightQDim.find? (·.1 == oi.opName) with
      | some e => .ok (some e.2)
      | none => .error .keyError
  else .ok none

/-- the reference parameters: the min/max formula (`tensor_zp_scale_from_min_max`) applied to the
    statistics `(mn, mx)` under the configured bit width and symmetry -/
def refParams (bits : Nat) (sym : Bool) (qdim : Option Nat) (mn mx : FArr) : PyM QParams :=
  match zpScale bits sym mn mx with
  | .ok zs => .ok { bits := bits, qdim := qdim, scale := zs.2, zp := zs.1, symmetric := sym }
  | .error e => .error e

/-- the quantized values attached to the parameters of a constant -/
def refData (tc : TCfg) (content : Option (Arr Rat)) (qp : QParams) : PyM (Option IArr) :=
  match content with
  | none => .ok none
  | some c =>
    if tc.gran == .blockwise then .error .unsupported
    else match uniformQuantize ⟨c, .f32⟩ qp with
      | .ok q => .ok (some q)
      | .error e => .error e

/-- reference parameter object for statistics `(mn, mx)` -/
def refTensorParams (env : Env) (oi : OpInfo) (tc : TCfg) (content : Option (Arr Rat)) (mn mx : FArr) : PyM Param :=
  match zpScale tc.bits.toNat tc.symmetric mn mx with
  | .error e => .error e
  | .ok zs =>
    match refQDim env oi tc content with
    | .error e => .error e
    | .ok qdim =>
      match refData tc content { bits := tc.bits.toNat, qdim := qdim, scale := zs.2, zp := zs.1, symmetric := tc.symmetric } with
      | .error e => .error e
      | .ok d => .ok (.uniform { bits := tc.bits.toNat, qdim := qdim, scale := zs.2, zp := zs.1, symmetric := tc.symmetric } d)

/-- **`tensorQuantParams` is the reference computation** (an empty statistics entry is `ValueError`) -/
theorem tensorQuantParams_eq (env : Env) (oi : OpInfo) (mm : Qsv) (tc : TCfg) (content : Option (Arr Rat)) :
    tensorQuantParams env oi mm tc content =
      match mm with
      | none => .error .valueError
      | some s => refTensorParams env oi tc content s.1 s.2 := by
  cases mm with
  | none => rfl
  | some s =>
    obtain ⟨mn, mx⟩ := s
    simp only [tensorQuantParams, refTensorParams, refQDim, refData, bind, Except.bind, pure, Except.pure,
      throw, throwThe, MonadExceptOf.throw]
    cases hz : zpScale tc.bits.toNat tc.symmetric mn mx with
    | error e => rfl
    | ok zs =>
      obtain ⟨zp, scale⟩ := zs
      simp only []
      cases hg : (tc.gran == Gran.channelwise) <;> cases hb : (oi.opName == "BATCH_MATMUL") <;>
        cases hbw : (tc.gran == Gran.blockwise) <;> cases content <;>
        simp only [Bool.false_eq_true, if_false, if_true] <;>
        first
          | rfl
          | (cases uniformQuantize _ _ <;> rfl)
          | (cases hf : Tables.weightQDim.find? (·.1 == oi.opName) <;> simp only [] <;>
              first | rfl | (cases uniformQuantize _ _ <;> rfl))

/-! ## `wrapper` without given parameters -/

/-- the tensor config `wrapper` uses: the weight config for a constant operand of a weight-only /
    dynamic-range op, the activation config otherwise -/
def tcfgOf (env : Env) (oi : OpInfo) (t : Tensor) : Option TCfg :=
  if (constData env t).isSome && (Tables.woOps.contains oi.opName || Tables.drqOps.contains oi.opName)
  then oi.cfg.weight else oi.cfg.act

/-- the statistics `wrapper` uses (repair D36): for a constant, always the true min/max of its data
    under the current op config (an empty constant has none); the statistics dictionary is consulted
    only for runtime tensors -/
def statsOf (env : Env) (qsvs : Qsvs) (oi : OpInfo) (t : Tensor) : PyM Qsv :=
  match constData env t with
  | some d =>
    if d.data.isEmpty then .ok none
    else match initMinMax env oi t d with
      | .ok r => .ok (some r)
      | .error e => .error e
  | none =>
    match Py.dictGet? qsvs t.name with
    | some e => .ok e
    | none => .error .valueError

theorem wrapper_none_eq (env : Env) (qsvs : Qsvs) (oi : OpInfo) (t : Tensor) (inbound : Bool) :
    wrapper env qsvs oi t inbound none =
      match tcfgOf env oi t with
      | none => mkReq t.name oi inbound none (constData env t).isSome
      | some tc =>
        match statsOf env qsvs oi t with
        | .error e => .error e
        | .ok mm =>
          match tensorQuantParams env oi mm tc (constData env t) with
          | .error e => .error e
          | .ok p => mkReq t.name oi inbound (some p) (constData env t).isSome := by
  unfold wrapper
  simp only []
  rw [show (if ((constData env t).isSome && (Tables.woOps.contains oi.opName || Tables.drqOps.contains oi.opName)) = true
        then oi.cfg.weight else oi.cfg.act) = tcfgOf env oi t from rfl]
  cases htc : tcfgOf env oi t with
  | none => rfl
  | some tc =>
    simp only [statsOf, bind, Except.bind, pure, Except.pure, throw, throwThe, MonadExceptOf.throw]
    cases hd : constData env t with
    | none =>
      simp only []
      cases hq : Py.dictGet? qsvs t.name with
      | none => rfl
      | some e =>
        simp only []
        cases tensorQuantParams env oi e tc none <;> rfl
    | some d =>
      simp only []
      cases he : d.data.isEmpty with
      | true =>
        simp only [if_true]
        cases tensorQuantParams env oi none tc (some d) <;> rfl
      | false =>
        simp only [Bool.false_eq_true, if_false]
        cases initMinMax env oi t d with
        | error e => rfl
        | ok r =>
          simp only []
          cases tensorQuantParams env oi (some r) tc (some d) <;> rfl

/-- `mkReq` under a static-range config: ADD_QUANTIZE / QUANTIZE_TENSOR for an operand,
    ADD_DEQUANTIZE for a result -/
def srqReq (name : String) (opId : Int) (inbound isConst : Bool) (p : Option Param) : CReq :=
  if inbound then ⟨name, none, some [⟨opId, [if isConst then .quantTensor else .addQuant], p⟩]⟩
  else ⟨name, some ⟨opId, [.addDequant], p⟩, none⟩

theorem mkReq_srq (name : String) (oi : OpInfo) (inbound : Bool) (p : Option Param) (isC : Bool)
    (h : isSRQ oi.cfg = true) : mkReq name oi inbound p isC = .ok (srqReq name oi.opId inbound isC p) := by
  unfold isSRQ at h
  unfold mkReq tensorXfs srqReq
  simp only [h, if_true, bind, Except.bind, pure, Except.pure]
  cases inbound <;> cases isC <;> rfl

/-! ## the array formula channel by channel -/

theorem zipB_ok {α β γ} [Inhabited α] [Inhabited β] (f : α → β → PyM γ) (a : Arr α) (b : Arr β) (c : Arr γ)
    (h : zipB f a b = .ok c) :
    ∃ rs, bshapeAny a.shape b.shape = some rs ∧ c.shape = rs ∧ c.data.length = numel rs ∧
      ∀ (i : Nat) x, c.data[i]? = some x →
        f (a.data.getD (bindex rs a.shape i) default) (b.data.getD (bindex rs b.shape i) default) = .ok x := by
  unfold zipB at h
  cases hrs : bshapeAny a.shape b.shape with
  | none => rw [hrs] at h; cases h
  | some rs =>
    rw [hrs] at h
    simp only [] at h
    obtain ⟨d, hd, h⟩ := bind_ok _ _ _ h
    simp only [pure, Except.pure, Except.ok.injEq] at h
    subst h
    have hp := Pipe.pointwise_of_forall₂ (Pipe.mapM_forall₂ _ _ _ hd)
    refine ⟨rs, rfl, rfl, by rw [← hp.1, List.length_range], ?_⟩
    intro i x hx
    have hi : i < numel rs := by
      have := (List.getElem?_eq_some_iff.1 hx).1
      rw [← hp.1, List.length_range] at this
      exact this
    exact hp.2 i i x (by simp [hi]) hx

/-- **every channel of `tensor_zp_scale_from_min_max` is the scalar core on that channel** -/
theorem zpScale_elems (bits : Nat) (sym : Bool) (mn mx : FArr) (zp : IArr) (scale : FArr)
    (h : zpScale bits sym mn mx = .ok (zp, scale)) :
    zp.w = storageBits bits ∧ scale.pr = mn.pr.join mx.pr ∧
    ∃ rs, bshapeAny mn.arr.shape mx.arr.shape = some rs ∧ zp.arr.shape = rs ∧ scale.arr.shape = rs ∧
      zp.arr.data.length = numel rs ∧ scale.arr.data.length = numel rs ∧
      ∀ (i : Nat) z s, zp.arr.data[i]? = some z → scale.arr.data[i]? = some s →
        zpScale1 (mn.pr.join mx.pr) bits sym (mn.arr.data.getD (bindex rs mn.arr.shape i) default)
          (mx.arr.data.getD (bindex rs mx.arr.shape i) default) = .ok (z, s) := by
  unfold zpScale at h
  obtain ⟨both, hb, h⟩ := bind_ok _ _ _ h
  simp only [pure, Except.pure, Except.ok.injEq, Prod.mk.injEq] at h
  obtain ⟨rfl, rfl⟩ := h
  obtain ⟨rs, hrs, hsh, hlen, hel⟩ := zipB_ok _ _ _ _ hb
  refine ⟨rfl, rfl, rs, hrs, hsh, hsh, by simp [Arr.map, hlen], by simp [Arr.map, hlen], ?_⟩
  intro i z s hz hs
  simp only [Arr.map, List.getElem?_map, Option.map_eq_some_iff] at hz hs
  obtain ⟨x, hx, rfl⟩ := hz
  obtain ⟨y, hy, rfl⟩ := hs
  rw [hx] at hy
  cases hy
  exact hel i x hx

theorem bshape_self : ∀ (s : List Nat), bshape s s = some s
  | [] => rfl
  | a :: as => by simp [bshape, bshape_self as]

theorem bshapeAny_self (s : List Nat) : bshapeAny s s = some s := by
  unfold bshapeAny padLeft
  simp [bshape_self]

/-- statistics of one common shape: channel `i` of the result is the scalar core on channel
    `k` of both `min` and `max` -/
theorem zpScale_elems_same (bits : Nat) (sym : Bool) (mn mx : FArr) (zp : IArr) (scale : FArr)
    (hsh : mn.arr.shape = mx.arr.shape) (h : zpScale bits sym mn mx = .ok (zp, scale)) :
    zp.arr.shape = mn.arr.shape ∧ scale.arr.shape = mn.arr.shape ∧
    zp.arr.data.length = numel mn.arr.shape ∧ scale.arr.data.length = numel mn.arr.shape ∧
    ∀ (i : Nat) z s, zp.arr.data[i]? = some z → scale.arr.data[i]? = some s →
      ∃ k, zpScale1 (mn.pr.join mx.pr) bits sym (mn.arr.data.getD k default) (mx.arr.data.getD k default) = .ok (z, s) := by
  obtain ⟨_, _, rs, hrs, h1, h2, h3, h4, h5⟩ := zpScale_elems bits sym mn mx zp scale h
  rw [← hsh, bshapeAny_self] at hrs
  cases hrs
  refine ⟨h1, h2, h3, h4, ?_⟩
  intro i z s hz hs
  have := h5 i z s hz hs
  rw [← hsh] at this
  exact ⟨_, this⟩

/-! ## `reduceKeep`: the on-the-spot statistics are the true min / max of every channel -/

/-- an order-selecting fold operator (`minR` with `≤`, `maxR` with `≥`) -/
structure Sel (f : Rat → Rat → Rat) (R : Rat → Rat → Prop) : Prop where
  sel : ∀ y x, f y x = y ∨ f y x = x
  r1 : ∀ y x, R (f y x) x
  r2 : ∀ y x z, R y z → R (f y x) z
  refl : ∀ x, R x x

theorem sel_min : Sel minR (· ≤ ·) where
  sel := by intro y x; unfold minR; split <;> simp
  r1 := ArithL.minR_le_right
  r2 := fun y x z h => le_trans (ArithL.minR_le_left y x) h
  refl := le_refl

theorem sel_max : Sel maxR (· ≥ ·) where
  sel := by intro y x; unfold maxR; split <;> simp
  r1 := ArithL.maxR_ge_right
  r2 := fun y x z h => le_trans h (ArithL.maxR_ge_left y x)
  refl := le_refl

/-- state of one cell after the first `m` elements: empty iff no element of the channel was seen;
    otherwise it holds one of the channel's elements, `R`-related to all of them -/
def CellInv (R : Rat → Rat → Prop) (J : Nat → Nat) (X : Nat → Rat) (m : Nat) (c : Option Rat) (j : Nat) : Prop :=
  match c with
  | none => ∀ i < m, J i ≠ j
  | some v => (∃ i < m, J i = j ∧ v = X i) ∧ ∀ i < m, J i = j → R v (X i)

theorem reduce_fold (f : Rat → Rat → Rat) (R : Rat → Rat → Prop) (hf : Sel f R) (J : Nat → Nat) (X : Nat → Rat)
    (n : Nat) : ∀ m,
    ((List.range m).foldl (fun acc i =>
        acc.set (J i) (match acc.getD (J i) none with | none => some (X i) | some y => some (f y (X i))))
      (List.replicate n none)).length = n ∧
    ∀ j < n, CellInv R J X m (((List.range m).foldl (fun acc i =>
        acc.set (J i) (match acc.getD (J i) none with | none => some (X i) | some y => some (f y (X i))))
      (List.replicate n none)).getD j none) j := by
  intro m
  induction m with
  | zero =>
    refine ⟨by simp, ?_⟩
    intro j hj
    simp only [List.range_zero, List.foldl_nil, List.getD_eq_getElem?_getD, List.getElem?_replicate, hj, if_true,
      Option.getD_some]
    intro i hi
    omega
  | succ m ih =>
    rw [List.range_succ, List.foldl_append]
    generalize (List.range m).foldl _ (List.replicate n none) = cells at ih
    obtain ⟨hlen, hinv⟩ := ih
    simp only [List.foldl_cons, List.foldl_nil]
    refine ⟨by simp [hlen], ?_⟩
    intro j hj
    by_cases hjm : J m = j
    · subst hjm
      have hold := hinv (J m) hj
      rw [List.getD_eq_getElem?_getD, List.getElem?_set_self (by omega), Option.getD_some]
      cases hc : cells.getD (J m) none with
      | none =>
        rw [hc] at hold
        refine ⟨⟨m, by omega, rfl, rfl⟩, ?_⟩
        intro i hi hji
        by_cases him : i = m
        · subst him; exact hf.refl _
        · exact absurd hji (hold i (by omega))
      | some y =>
        rw [hc] at hold
        obtain ⟨⟨i0, hi0, hj0, hv0⟩, hall⟩ := hold
        refine ⟨?_, ?_⟩
        · rcases hf.sel y (X m) with h | h
          · exact ⟨i0, by omega, hj0, by rw [h]; exact hv0⟩
          · exact ⟨m, by omega, rfl, h⟩
        · intro i hi hji
          by_cases him : i = m
          · subst him; exact hf.r1 _ _
          · exact hf.r2 _ _ _ (hall i (by omega) hji)
    · have hold := hinv j hj
      rw [List.getD_eq_getElem?_getD, List.getElem?_set_ne hjm, ← List.getD_eq_getElem?_getD]
      cases hc : cells.getD j none with
      | none =>
        rw [hc] at hold
        intro i hi
        by_cases him : i = m
        · subst him; exact hjm
        · exact hold i (by omega)
      | some v =>
        rw [hc] at hold
        obtain ⟨⟨i0, hi0, hj0, hv0⟩, hall⟩ := hold
        refine ⟨⟨i0, by omega, hj0, hv0⟩, ?_⟩
        intro i hi hji
        by_cases him : i = m
        · subst him; exact absurd hji hjm
        · exact hall i (by omega) hji

/-- the cells of `reduceKeep` before the final `getD 0` -/
def cellsOf (f : Rat → Rat → Rat) (a : Arr Rat) (ks : List Nat) : List (Option Rat) :=
  (List.range a.size).foldl (fun acc i =>
      acc.set (bindex a.shape ks i)
        (match acc.getD (bindex a.shape ks i) none with
         | none => some (a.data.getD i 0) | some y => some (f y (a.data.getD i 0))))
    (List.replicate (numel ks) none)

theorem reduceKeep_eq (f : Rat → Rat → Rat) (a : Arr Rat) (dims : Option (List Nat)) :
    reduceKeep f a dims = if a.data.isEmpty then .error .valueError
      else .ok ⟨keepShape a.shape dims, (cellsOf f a (keepShape a.shape dims)).map (·.getD 0)⟩ := rfl

theorem cellsOf_inv (f : Rat → Rat → Rat) (R : Rat → Rat → Prop) (hf : Sel f R) (a : Arr Rat) (ks : List Nat) :
    (cellsOf f a ks).length = numel ks ∧
    ∀ j < numel ks, CellInv R (bindex a.shape ks) (fun i => a.data.getD i 0) a.size ((cellsOf f a ks).getD j none) j :=
  reduce_fold f R hf (bindex a.shape ks) (fun i => a.data.getD i 0) (numel ks) a.size

/-- **`reduceKeep` with `minR` / `maxR`**: shape, size, and every cell is an element of its channel
    that is `R`-related to all elements of the channel (the true min / max) -/
theorem reduceKeep_spec (f : Rat → Rat → Rat) (R : Rat → Rat → Prop) (hf : Sel f R) (a : Arr Rat)
    (dims : Option (List Nat)) (r : Arr Rat) (h : reduceKeep f a dims = .ok r) :
    a.data ≠ [] ∧ r.shape = keepShape a.shape dims ∧ r.data.length = numel (keepShape a.shape dims) ∧
    ∀ j < numel (keepShape a.shape dims),
      ((∀ i < a.size, bindex a.shape (keepShape a.shape dims) i ≠ j) ∧ r.data.getD j 0 = 0) ∨
      ((∃ i < a.size, bindex a.shape (keepShape a.shape dims) i = j ∧ r.data.getD j 0 = a.data.getD i 0) ∧
        ∀ i < a.size, bindex a.shape (keepShape a.shape dims) i = j → R (r.data.getD j 0) (a.data.getD i 0)) := by
  rw [reduceKeep_eq] at h
  split at h
  · cases h
  · rename_i hne
    simp only [Except.ok.injEq] at h
    subst h
    obtain ⟨hlen, hinv⟩ := cellsOf_inv f R hf a (keepShape a.shape dims)
    generalize cellsOf f a (keepShape a.shape dims) = cells at hlen hinv
    refine ⟨by intro h0; rw [h0] at hne; exact hne rfl, rfl, by simp only [List.length_map]; exact hlen, ?_⟩
    intro j hj
    have hc := hinv j hj
    have hj' : j < cells.length := by omega
    simp only [List.getD_eq_getElem?_getD, List.getElem?_map, List.getElem?_eq_getElem hj',
      Option.getD_some, Option.map_some] at hc ⊢
    cases hcj : cells[j] with
    | none =>
      rw [hcj] at hc
      exact .inl ⟨hc, rfl⟩
    | some v =>
      rw [hcj] at hc
      exact .inr hc

/-- min and max taken over the same channels: same shape, and `min ≤ max` in every cell -/
theorem reduceKeep_min_le_max (a : Arr Rat) (dims : Option (List Nat)) (lo hi : Arr Rat)
    (hlo : reduceKeep minR a dims = .ok lo) (hhi : reduceKeep maxR a dims = .ok hi) :
    lo.shape = hi.shape ∧ ∀ k, lo.data.getD k 0 ≤ hi.data.getD k 0 := by
  obtain ⟨_, s1, l1, c1⟩ := reduceKeep_spec _ _ sel_min a dims lo hlo
  obtain ⟨_, s2, l2, c2⟩ := reduceKeep_spec _ _ sel_max a dims hi hhi
  refine ⟨by rw [s1, s2], ?_⟩
  intro k
  by_cases hk : k < numel (keepShape a.shape dims)
  · rcases c1 k hk with ⟨n1, z1⟩ | ⟨⟨i1, hi1, hj1, e1⟩, all1⟩
    · rcases c2 k hk with ⟨n2, z2⟩ | ⟨⟨i2, hi2, hj2, e2⟩, all2⟩
      · rw [z1, z2]
      · exact absurd hj2 (n1 i2 hi2)
    · rcases c2 k hk with ⟨n2, z2⟩ | ⟨⟨i2, hi2, hj2, e2⟩, all2⟩
      · exact absurd hj1 (n2 i1 hi1)
      · rw [e2]; exact all1 i2 hi2 hj2
  · rw [List.getD_eq_getElem?_getD, List.getD_eq_getElem?_getD, List.getElem?_eq_none (by omega),
      List.getElem?_eq_none (by omega)]

/-! ## number of channels of the statistics -/

theorem foldl_mul (s : List Nat) : ∀ a, s.foldl (· * ·) a = a * s.foldl (· * ·) 1 := by
  induction s with
  | nil => intro a; simp
  | cons b s ih =>
    intro a
    simp only [List.foldl_cons]
    rw [ih (a * b), ih (1 * b), Nat.one_mul, Nat.mul_assoc]

theorem numel_cons (a : Nat) (s : List Nat) : numel (a :: s) = a * numel s := by
  unfold numel
  rw [List.foldl_cons, foldl_mul, Nat.one_mul]

theorem numel_ones {α} (l : List α) : numel (l.map fun _ => 1) = 1 := by
  induction l with
  | nil => rfl
  | cons a l ih => rw [List.map_cons, numel_cons, ih]

theorem numel_map_ite (q c : Nat) : ∀ (l : List Nat), l.Nodup →
    numel (l.map fun i => if i = q then c else 1) = if q ∈ l then c else 1 := by
  intro l
  induction l with
  | nil => intro _; rfl
  | cons a l ih =>
    intro hn
    obtain ⟨ha, hl⟩ := List.nodup_cons.1 hn
    rw [List.map_cons, numel_cons, ih hl]
    by_cases haq : a = q
    · subst haq
      simp [ha]
    · have : ¬ q = a := fun h => haq h.symm
      simp [haq, this]

/-- per-tensor statistics have one cell -/
theorem numel_keepShape_none (shape : List Nat) : numel (keepShape shape none) = 1 := numel_ones shape

/-- per-channel statistics along dimension `q` have `shape[q]` cells (one when `q` is not a dimension) -/
theorem numel_keepShape_qdim (shape : List Nat) (q : Nat) :
    numel (keepShape shape (reduceDims (some q) shape.length)) = shape.getD q 1 := by
  unfold keepShape reduceDims
  simp only [Option.map_some]
  have : (List.range shape.length).map (fun i =>
        if ((List.range shape.length).filter (· != q)).contains i = true then 1 else shape.getD i 1) =
      (List.range shape.length).map (fun i => if i = q then shape.getD q 1 else 1) := by
    apply List.map_congr_left
    intro i hi
    rw [List.mem_range] at hi
    by_cases hiq : i = q
    · subst hiq
      simp
    · simp [hiq, hi]
  rw [this, numel_map_ite _ _ _ List.nodup_range]
  by_cases hq : q < shape.length
  · simp [hq]
  · simp only [List.mem_range, hq, if_false]
    rw [List.getD_eq_getElem?_getD, List.getElem?_eq_none (by omega)]
    rfl

/-- number of channels of a tensor of shape `shape` quantized along `qdim`: one when per-tensor,
    `shape[k]` along dimension `k` (one when `k` is not a dimension of the tensor) -/
def channels (shape : List Nat) (qdim : Option Nat) : Nat :=
  match qdim with | none => 1 | some k => shape.getD k 1

/-! ## every element of a well-formed constant belongs to one of the cells -/

theorem numel_nil : numel [] = 1 := rfl

theorem unravel_lt : ∀ (rs : List Nat) (i : Nat), i < numel rs → List.Forall₂ (· < ·) (unravel rs i) rs := by
  intro rs
  induction rs with
  | nil => intro i _; exact List.Forall₂.nil
  | cons a rest ih =>
    intro i hi
    rw [numel_cons] at hi
    have hpos : 0 < numel rest := by
      rcases Nat.eq_zero_or_pos (numel rest) with h | h
      · rw [h, Nat.mul_zero] at hi; omega
      · exact h
    unfold unravel
    refine List.Forall₂.cons ?_ (ih _ (Nat.mod_lt _ hpos))
    exact (Nat.div_lt_iff_lt_mul hpos).2 hi

theorem ravel_bproj_lt : ∀ (ks idx rs : List Nat), List.Forall₂ (· < ·) idx rs →
    List.Forall₂ (fun k r => k = 1 ∨ k = r) ks rs → ravel ks (bproj ks idx) < numel ks := by
  intro ks
  induction ks with
  | nil => intro idx rs _ _; simp [ravel, numel_nil]
  | cons k ks' ih =>
    intro idx rs h1 h2
    cases h2 with
    | @cons _ r _ rs' hk h2' =>
      cases h1 with
      | @cons i _ idx' _ hi h1' =>
        have ihh := ih idx' rs' h1' h2'
        simp only [bproj, ravel, numel_cons]
        have hj : (if k = 1 then 0 else i) < k := by
          split
          · omega
          · rcases hk with h | h
            · contradiction
            · omega
        calc (if k = 1 then 0 else i) * numel ks' + ravel ks' (bproj ks' idx')
            < (if k = 1 then 0 else i) * numel ks' + numel ks' := by omega
          _ = ((if k = 1 then 0 else i) + 1) * numel ks' := by rw [Nat.add_mul, Nat.one_mul]
          _ ≤ k * numel ks' := Nat.mul_le_mul_right _ hj

theorem keepShape_compat (shape : List Nat) (dims : Option (List Nat)) :
    List.Forall₂ (fun k r => k = 1 ∨ k = r) (keepShape shape dims) shape := by
  rw [List.forall₂_iff_get]
  cases dims with
  | none =>
    refine ⟨by simp [keepShape], ?_⟩
    intro i h1 h2
    left
    simp [keepShape]
  | some ds =>
    refine ⟨by simp [keepShape], ?_⟩
    intro i h1 h2
    simp only [keepShape, List.get_eq_getElem, List.getElem_map, List.getElem_range]
    split
    · exact .inl rfl
    · right
      rw [List.getD_eq_getElem?_getD, List.getElem?_eq_getElem h2, Option.getD_some]

theorem keepShape_length (shape : List Nat) (dims : Option (List Nat)) :
    (keepShape shape dims).length = shape.length := by
  cases dims <;> simp [keepShape]

/-- **element `i` of a constant of shape `shape` belongs to a cell of the statistics** -/
theorem bindex_keep_lt (shape : List Nat) (dims : Option (List Nat)) (i : Nat) (hi : i < numel shape) :
    bindex shape (keepShape shape dims) i < numel (keepShape shape dims) := by
  unfold bindex padLeft
  simp only [keepShape_length, Nat.sub_self, List.replicate_zero, List.nil_append]
  exact ravel_bproj_lt _ _ _ (unravel_lt shape i hi) (keepShape_compat shape dims)

/-! ## `initMinMax`: the on-the-spot statistics of a constant -/

/-- the dimension along which `init_tensor_min_max` keeps separate statistics: the op's weight
    dimension when the *weight* config is CHANNELWISE, none (one statistic for the tensor) otherwise -/
def statQDim (env : Env) (oi : OpInfo) (rank : Nat) : Option Nat :=
  match oi.cfg.weight with
  | some w =>
    if w.gran == .channelwise then
      (if oi.opName == "BATCH_MATMUL" then some (bmmQDim rank (opAdjY env oi))
       else (Tables.weightQDim.find? (·.1 == oi.opName)).map (·.2))
    else none
  | none => none

def weightBlockwise (oi : OpInfo) : Bool :=
  match oi.cfg.weight with | some w => w.gran == Gran.blockwise | none => false

theorem initMinMax_eq (env : Env) (oi : OpInfo) (t : Tensor) (d : Arr Rat) :
    initMinMax env oi t d =
      if weightBlockwise oi then .error .unsupported else
        match reduceKeep minR d (reduceDims (statQDim env oi d.shape.length) t.shape.length) with
        | .error e => .error e
        | .ok mn =>
          match reduceKeep maxR d (reduceDims (statQDim env oi d.shape.length) t.shape.length) with
          | .error e => .error e
          | .ok mx => .ok (⟨mn, .f32⟩, ⟨mx, .f32⟩) := by
  unfold initMinMax weightBlockwise statQDim
  simp only [bind, Except.bind, pure, Except.pure, throw, throwThe, MonadExceptOf.throw]
  cases oi.cfg.weight with
  | none =>
    simp only [Bool.false_eq_true, if_false]
    cases reduceKeep minR d _ <;> [rfl; (cases reduceKeep maxR d _ <;> rfl)]
  | some w =>
    simp only []
    cases (w.gran == Gran.blockwise) <;> simp only [Bool.false_eq_true, if_false, if_true]
    cases reduceKeep minR d _ <;> [rfl; (cases reduceKeep maxR d _ <;> rfl)]

theorem constData_shape (env : Env) (t : Tensor) (d : Arr Rat) (h : constData env t = some d) :
    d.shape = shapeNat t ∧ d.shape.length = t.shape.length := by
  unfold constData at h
  have : d.shape = shapeNat t := by
    split at h
    · split at h <;> (cases h; rfl)
    · cases h
  exact ⟨this, by rw [this]; simp [shapeNat]⟩

/-- **the statistics taken on the spot are the true per-tensor / per-channel min and max**:
    float32 arrays of one common shape (all dimensions but the quantized one collapsed), one cell
    per channel, every cell of `min` (`max`) is an element of its channel that is `≤` (`≥`) all
    elements of the channel, hence `min ≤ max` cell by cell -/
theorem initMinMax_spec (env : Env) (oi : OpInfo) (t : Tensor) (d : Arr Rat) (mn mx : FArr)
    (hrank : d.shape.length = t.shape.length) (h : initMinMax env oi t d = .ok (mn, mx)) :
    weightBlockwise oi = false ∧ d.data ≠ [] ∧ mn.pr = .f32 ∧ mx.pr = .f32 ∧
    reduceKeep minR d (reduceDims (statQDim env oi d.shape.length) d.shape.length) = .ok mn.arr ∧
    reduceKeep maxR d (reduceDims (statQDim env oi d.shape.length) d.shape.length) = .ok mx.arr ∧
    mn.arr.shape = mx.arr.shape ∧
    numel mn.arr.shape = (match statQDim env oi d.shape.length with | none => 1 | some q => d.shape.getD q 1) ∧
    mn.arr.data.length = (match statQDim env oi d.shape.length with | none => 1 | some q => d.shape.getD q 1) ∧
    mx.arr.data.length = (match statQDim env oi d.shape.length with | none => 1 | some q => d.shape.getD q 1) ∧
    ∀ k, mn.arr.data.getD k 0 ≤ mx.arr.data.getD k 0 := by
  rw [initMinMax_eq, ← hrank] at h
  split at h
  · cases h
  · rename_i hbw
    cases hlo : reduceKeep minR d (reduceDims (statQDim env oi d.shape.length) d.shape.length) with
    | error e => rw [hlo] at h; cases h
    | ok lo =>
      cases hhi : reduceKeep maxR d (reduceDims (statQDim env oi d.shape.length) d.shape.length) with
      | error e => rw [hlo, hhi] at h; cases h
      | ok hi =>
        rw [hlo, hhi] at h
        simp only [Except.ok.injEq, Prod.mk.injEq] at h
        obtain ⟨rfl, rfl⟩ := h
        obtain ⟨hne, s1, l1, _⟩ := reduceKeep_spec _ _ sel_min d _ lo hlo
        obtain ⟨_, s2, l2, _⟩ := reduceKeep_spec _ _ sel_max d _ hi hhi
        obtain ⟨hs, hle⟩ := reduceKeep_min_le_max d _ lo hi hlo hhi
        have hcount : numel (keepShape d.shape (reduceDims (statQDim env oi d.shape.length) d.shape.length)) =
            (match statQDim env oi d.shape.length with | none => 1 | some q => d.shape.getD q 1) := by
          cases statQDim env oi d.shape.length with
          | none => exact numel_keepShape_none _
          | some q => exact numel_keepShape_qdim _ q
        refine ⟨by simpa using hbw, hne, rfl, rfl, rfl, rfl, hs, ?_, ?_, ?_, hle⟩
        · rw [s1, hcount]
        · rw [l1, hcount]
        · rw [l2, hcount]

/-! ## the quantized dimension attached to the parameters is the one the statistics were kept along -/

theorem weightQDim_wo (n : String) (e : String × Nat) (h : Tables.weightQDim.find? (·.1 == n) = some e) :
    Tables.woOps.contains n = true := by
  have h1 : e ∈ Tables.weightQDim := List.mem_of_find?_eq_some h
  have h2 : (e.1 == n) = true := List.find?_some (p := fun x : String × Nat => x.1 == n) h
  have h3 : ∀ e ∈ Tables.weightQDim, Tables.woOps.contains e.1 = true := by decide
  rw [← (beq_iff_eq.1 h2)]
  exact h3 e h1

theorem bmm_wo : Tables.woOps.contains "BATCH_MATMUL" = true := by decide

/-- activation configs are per-tensor (every config of the shipped policy is) -/
def ActPerTensor (c : OpCfg) : Prop := ∀ a, c.act = some a → a.gran ≠ Gran.channelwise

theorem refQDim_stat (env : Env) (oi : OpInfo) (t : Tensor) (d : Arr Rat) (tc : TCfg) (qdim : Option Nat)
    (hd : constData env t = some d) (htc : tcfgOf env oi t = some tc) (hact : ActPerTensor oi.cfg)
    (h : refQDim env oi tc (some d) = .ok qdim) : statQDim env oi d.shape.length = qdim := by
  unfold tcfgOf at htc
  rw [hd] at htc
  simp only [Option.isSome_some, Bool.true_and] at htc
  unfold refQDim at h
  unfold statQDim
  by_cases hwo : (Tables.woOps.contains oi.opName || Tables.drqOps.contains oi.opName) = true
  · rw [if_pos hwo] at htc
    rw [htc]
    simp only []
    by_cases hg : (tc.gran == Gran.channelwise) = true
    · rw [if_pos hg] at h ⊢
      by_cases hb : (oi.opName == "BATCH_MATMUL") = true
      · rw [if_pos hb] at h ⊢
        simp only [Except.ok.injEq] at h
        exact h
      · rw [if_neg hb] at h ⊢
        cases hf : Tables.weightQDim.find? (·.1 == oi.opName) with
        | none => rw [hf] at h; cases h
        | some e =>
          rw [hf] at h
          simp only [Except.ok.injEq] at h
          rw [← h]; rfl
    · rw [if_neg hg] at h ⊢
      simp only [Except.ok.injEq] at h
      exact h
  · rw [if_neg hwo] at htc
    have hg : ¬ (tc.gran == Gran.channelwise) = true := by
      intro hg
      exact hact tc htc (beq_iff_eq.1 hg)
    rw [if_neg hg] at h
    simp only [Except.ok.injEq] at h
    subst h
    have hwo' : Tables.woOps.contains oi.opName = false := by
      cases hc : Tables.woOps.contains oi.opName with
      | false => rfl
      | true => rw [hc] at hwo; simp at hwo
    cases hw : oi.cfg.weight with
    | none => rfl
    | some w =>
      simp only []
      split
      · have hb : ¬ (oi.opName == "BATCH_MATMUL") = true := by
          intro hb
          rw [beq_iff_eq.1 hb, bmm_wo] at hwo'
          cases hwo'
        rw [if_neg hb]
        cases hf : Tables.weightQDim.find? (·.1 == oi.opName) with
        | none => rfl
        | some e => rw [weightQDim_wo _ _ hf] at hwo'; cases hwo'
      · rfl

/-- the attached quantized dimension is present only under a CHANNELWISE tensor config, and is then
    the dimension the runtime kernel expects (table `weightQDim`; `bmmQDim` for BATCH_MATMUL) -/
theorem refQDim_some (env : Env) (oi : OpInfo) (tc : TCfg) (content : Option (Arr Rat)) (k : Nat)
    (h : refQDim env oi tc content = .ok (some k)) :
    tc.gran = Gran.channelwise ∧
      ((oi.opName = "BATCH_MATMUL" ∧ ∃ c, content = some c ∧ k = bmmQDim c.shape.length (opAdjY env oi)) ∨
       (oi.opName ≠ "BATCH_MATMUL" ∧ Py.dictGet? Tables.weightQDim oi.opName = some k)) := by
  unfold refQDim at h
  by_cases hg : (tc.gran == Gran.channelwise) = true
  · rw [if_pos hg] at h
    refine ⟨beq_iff_eq.1 hg, ?_⟩
    by_cases hb : (oi.opName == "BATCH_MATMUL") = true
    · rw [if_pos hb] at h
      cases content with
      | none => cases h
      | some c =>
        simp only [Except.ok.injEq, Option.some.injEq] at h
        exact .inl ⟨beq_iff_eq.1 hb, c, rfl, h.symm⟩
    · rw [if_neg hb] at h
      right
      refine ⟨fun hh => hb (by rw [hh]; rfl), ?_⟩
      unfold Py.dictGet?
      cases hf : Tables.weightQDim.find? (·.1 == oi.opName) with
      | none => rw [hf] at h; cases h
      | some e =>
        rw [hf] at h
        simp only [Except.ok.injEq, Option.some.injEq] at h
        rw [← h]; rfl
  · rw [if_neg hg] at h
    cases h

/-! ## the request of an activation and of a constant -/

theorem refTensorParams_ok_iff (env : Env) (oi : OpInfo) (tc : TCfg) (content : Option (Arr Rat)) (mn mx : FArr)
    (p : Param) :
    refTensorParams env oi tc content mn mx = .ok p ↔
      ∃ qdim qp dat, refQDim env oi tc content = .ok qdim ∧
        refParams tc.bits.toNat tc.symmetric qdim mn mx = .ok qp ∧ refData tc content qp = .ok dat ∧
        p = .uniform qp dat := by
  unfold refTensorParams refParams
  cases hz : zpScale tc.bits.toNat tc.symmetric mn mx with
  | error e =>
    simp only []
    constructor
    · intro h; cases h
    · rintro ⟨_, _, _, _, h, _⟩; cases h
  | ok zs =>
    simp only []
    cases hq : refQDim env oi tc content with
    | error e =>
      simp only []
      constructor
      · intro h; cases h
      · rintro ⟨_, _, _, h, _⟩; cases h
    | ok qdim =>
      simp only []
      cases hdat : refData tc content { bits := tc.bits.toNat, qdim := qdim, scale := zs.2, zp := zs.1, symmetric := tc.symmetric } with
      | error e =>
        simp only []
        constructor
        · intro h; cases h
        · rintro ⟨qd, qp, dat, h1, h2, h3, _⟩
          simp only [Except.ok.injEq] at h1 h2
          subst h1; subst h2
          rw [hdat] at h3; cases h3
      | ok dat =>
        simp only [Except.ok.injEq]
        constructor
        · intro h; exact ⟨qdim, _, dat, rfl, rfl, hdat, h.symm⟩
        · rintro ⟨qd, qp, dat', h1, h2, h3, h4⟩
          subst h1; subst h2
          rw [hdat] at h3
          simp only [Except.ok.injEq] at h3
          subst h3
          exact h4.symm

theorem tcfgOf_nonconst (env : Env) (oi : OpInfo) (t : Tensor) (h : constData env t = none) :
    tcfgOf env oi t = oi.cfg.act := by
  unfold tcfgOf
  rw [h]
  rfl

/-- **request for a runtime tensor**: the reference parameters of its calibrated statistics;
    `ValueError` when the statistics are missing or empty -/
theorem wrapper_act_eq (env : Env) (qsvs : Qsvs) (oi : OpInfo) (t : Tensor) (inbound : Bool) (tc : TCfg)
    (hnc : constData env t = none) (hact : oi.cfg.act = some tc) :
    wrapper env qsvs oi t inbound none =
      match Py.dictGet? qsvs t.name with
      | some (some s) =>
        match refTensorParams env oi tc none s.1 s.2 with
        | .error e => .error e
        | .ok p => mkReq t.name oi inbound (some p) false
      | _ => .error .valueError := by
  rw [wrapper_none_eq, tcfgOf_nonconst env oi t hnc, hact]
  simp only [statsOf, hnc, Option.isSome_none]
  cases hq : Py.dictGet? qsvs t.name with
  | none => rfl
  | some e =>
    simp only [tensorQuantParams_eq]
    cases e with
    | none => rfl
    | some s => rfl

/-- **request for a constant**: the reference parameters of its statistics (always the true min/max
    taken on the spot, repair D36), with the quantized values attached -/
theorem wrapper_const_eq (env : Env) (qsvs : Qsvs) (oi : OpInfo) (t : Tensor) (inbound : Bool) (tc : TCfg)
    (d : Arr Rat) (hd : constData env t = some d) (htc : tcfgOf env oi t = some tc) :
    wrapper env qsvs oi t inbound none =
      match statsOf env qsvs oi t with
      | .error e => .error e
      | .ok none => .error .valueError
      | .ok (some s) =>
        match refTensorParams env oi tc (some d) s.1 s.2 with
        | .error e => .error e
        | .ok p => mkReq t.name oi inbound (some p) true := by
  rw [wrapper_none_eq, htc]
  simp only [hd, Option.isSome_some]
  cases hs : statsOf env qsvs oi t with
  | error e => rfl
  | ok mm =>
    simp only [tensorQuantParams_eq]
    cases mm with
    | none => rfl
    | some s => rfl

/-- **the statistics of a constant never depend on the statistics dictionary** (repair D36): they
    are exactly what `init_tensor_min_max` computes from the data under the current op config -/
theorem statsOf_const (env : Env) (qsvs : Qsvs) (oi : OpInfo) (t : Tensor) (d : Arr Rat) (mn mx : FArr)
    (hd : constData env t = some d) :
    statsOf env qsvs oi t = .ok (some (mn, mx)) ↔ initMinMax env oi t d = .ok (mn, mx) := by
  unfold statsOf
  rw [hd]
  simp only []
  cases he : d.data.isEmpty with
  | true =>
    simp only [if_true]
    constructor
    · intro h; cases h
    · intro h
      have hne := (initMinMax_spec env oi t d mn mx (constData_shape env t d hd).2 h).2.1
      rw [List.isEmpty_iff] at he
      exact absurd he hne
  | false =>
    simp only [Bool.false_eq_true, if_false]
    cases initMinMax env oi t d with
    | error e =>
      simp only []
      constructor <;> (intro h; cases h)
    | ok r =>
      simp only [Except.ok.injEq, Option.some.injEq]

/-- what calibration records for a float32 constant is what `init_tensor_min_max` computes -/
theorem initTensor_faithful (env : Env) (oi : OpInfo) (t : Tensor) (d : Arr Rat) (mm : FArr × FArr)
    (hd : constData env t = some d) (hf32 : t.dtype = Tables.ttFloat32)
    (h : Calib.initTensor env oi t = .ok (some mm)) : initMinMax env oi t d = .ok mm := by
  unfold Calib.initTensor Calib.constAny at h
  rw [hd] at h
  simp only [] at h
  split at h
  · cases h
  · obtain ⟨r, hr, h⟩ := bind_ok _ _ _ h
    obtain ⟨mn, mx⟩ := r
    simp only [pure, Except.pure, Except.ok.injEq, Option.some.injEq] at h
    obtain ⟨_, _, h1, h2, _⟩ := initMinMax_spec env oi t d mn mx (constData_shape env t d hd).2 hr
    have hp : Calib.statPrec t = .f32 := by unfold Calib.statPrec; rw [hf32]; rfl
    rw [hr, ← h, hp]
    obtain ⟨a1, p1⟩ := mn
    obtain ⟨a2, p2⟩ := mx
    simp only at h1 h2
    subst h1; subst h2
    rfl

/-! ## parameter sharing of the constrained ops -/

open Pipe in
theorem Split.oth_len {sg : Subgraph} {ign : List Nat} : ∀ {k cs sel oth upd}, Split sg ign k cs sel oth upd →
    oth.length = (cs.filter fun p => !ign.contains p.2).length := by
  intro k cs sel oth upd h
  induction h with
  | nil k => rfl
  | yes k p t cs sel oth upd ht hc hS ih =>
    rw [List.filter_cons_of_neg (by rw [hc]; decide)]
    exact ih
  | no k p t cs sel oth upd ht hc hS ih =>
    rw [List.filter_cons_of_pos (by rw [hc]; rfl)]
    simp [ih]

open Pipe in
/-- no tensor left to quantize: every slot is ignored -/
theorem Split.oth_nil {sg : Subgraph} {ign : List Nat} {k cs sel upd} (h : Split sg ign k cs sel [] upd) :
    ∀ p ∈ cs, ign.contains p.2 = true := by
  have hl := Split.oth_len h
  intro p hp
  cases hc : ign.contains p.2 with
  | true => rfl
  | false =>
    have : p ∈ cs.filter fun p => !ign.contains p.2 := List.mem_filter.2 ⟨hp, by rw [hc]; rfl⟩
    rw [List.eq_nil_of_length_eq_zero hl.symm] at this
    cases this

open Pipe in
/-- exactly one tensor left to quantize: exactly one slot is not ignored -/
theorem Split.oth_one {sg : Subgraph} {ign : List Nat} {k cs sel upd t} (h : Split sg ign k cs sel [t] upd) :
    ∃ q ∈ cs, ign.contains q.2 = false ∧ tensorAt sg q.1 = .ok t ∧
      ∀ q' ∈ cs, ign.contains q'.2 = false → q' = q := by
  have hl := Split.oth_len h
  obtain ⟨q, hq, hc, ht⟩ := Split.oth_mem h t List.mem_cons_self
  refine ⟨q, hq, hc, ht, ?_⟩
  intro q' hq' hc'
  have m1 : q ∈ cs.filter fun p => !ign.contains p.2 := List.mem_filter.2 ⟨hq, by rw [hc]; rfl⟩
  have m2 : q' ∈ cs.filter fun p => !ign.contains p.2 := List.mem_filter.2 ⟨hq', by rw [hc']; rfl⟩
  obtain ⟨x, hx⟩ := List.length_eq_one_iff.1 hl.symm
  rw [hx, List.mem_singleton] at m1 m2
  rw [m1, m2]

open Pipe in
/-- the requests handed to `mergeReqs` by a same-as-input op -/
theorem standardOp_reqs_in (env : Env) (sg : Subgraph) (qsvs : Qsvs) (oi : OpInfo)
    (gIn gOut : List Nat) (rs : List CReq) (qs' : Qsvs)
    (h : standardOp env sg qsvs oi .sameAsInput gIn gOut = .ok (rs, qs')) :
    ∃ (inIgn outIgn : List Nat) (ignInT inT ignOutT outT : List Tensor) (inIgnU outIgnU : List Nat)
      (A B : List CReq) (gO : Option Param),
      ignoredSlots sg oi.op.inputs gIn = .ok inIgn ∧ ignoredSlots sg oi.op.outputs gOut = .ok outIgn ∧
      splitTensors sg oi.op.inputs inIgn = .ok (ignInT, inT, inIgnU) ∧
      splitTensors sg oi.op.outputs outIgn = .ok (ignOutT, outT, outIgnU) ∧
      rs = mergeReqs (A ++ B) (ignInT.map fun t => noQuantReq t.name oi.opId true)
        (ignOutT.map fun t => noQuantReq t.name oi.opId false)
        (oi.op.inputs.filter (· != -1)).length (oi.op.outputs.filter (· != -1)).length inIgnU outIgnU ∧
      List.Forall₂ (fun t r => wrapper env qsvs oi t true none = .ok r) inT A ∧
      List.Forall₂ (fun t r => wrapper env qsvs oi t false gO = .ok r) outT B ∧
      ((inT = [] ∧ outT = []) ∨
        ∃ t ir p0, inT = [t] ∧ wrapper env qsvs oi t true none = .ok ir ∧ reqParam0 ir = .ok p0 ∧
          gO = stripData p0) := by
  unfold standardOp at h
  obtain ⟨inIgn, hinIgn, h1⟩ := bind_ok _ _ _ h
  clear h
  obtain ⟨outIgn, houtIgn, h2⟩ := bind_ok _ _ _ h1
  clear h1
  obtain ⟨⟨ignInT, inT, inIgnU⟩, hsplitIn, h3⟩ := bind_ok _ _ _ h2
  clear h2
  obtain ⟨⟨ignOutT, outT, outIgnU⟩, hsplitOut, h⟩ := bind_ok _ _ _ h3
  clear h3
  simp only [] at h
  refine ⟨inIgn, outIgn, ignInT, inT, ignOutT, outT, inIgnU, outIgnU, ?_⟩
  by_cases he : (inT.isEmpty && outT.isEmpty) = true
  · rw [if_pos he] at h
    simp only [pure, Except.pure, Except.ok.injEq, Prod.mk.injEq] at h
    simp only [Bool.and_eq_true, List.isEmpty_iff] at he
    obtain ⟨rfl, rfl⟩ := he
    exact ⟨[], [], none, hinIgn, houtIgn, hsplitIn, hsplitOut, h.1.symm, List.Forall₂.nil, List.Forall₂.nil,
      Or.inl ⟨rfl, rfl⟩⟩
  · rw [if_neg he] at h
    clear he
    obtain ⟨t, ht, h1⟩ := bind_ok _ _ _ h
    clear h
    obtain ⟨ir, hir, h2⟩ := bind_ok _ _ _ h1
    clear h1
    obtain ⟨p, hp, h3⟩ := bind_ok _ _ _ h2
    clear h2
    obtain ⟨outs, houts, h4⟩ := bind_ok _ _ _ h3
    clear h3
    obtain ⟨iq, hiq, h5⟩ := bind_ok _ _ _ h4
    clear h4
    obtain ⟨qs2, hqs2, h⟩ := bind_ok _ _ _ h5
    clear h5
    simp only [pure, Except.pure, Except.ok.injEq, Prod.mk.injEq] at h
    have hinT : inT = [t] := by
      rcases inT with _ | ⟨a, _ | ⟨b, l⟩⟩
      · cases ht
      · simp only [pure, Except.pure, Except.ok.injEq] at ht
        rw [ht]
      · cases ht
    refine ⟨[ir], outs, stripData p, hinIgn, houtIgn, hsplitIn, hsplitOut, h.1.symm, ?_,
      mapM_forall₂ _ _ _ houts, Or.inr ⟨t, ir, p, hinT, hir, hp, rfl⟩⟩
    rw [hinT]
    exact List.Forall₂.cons hir List.Forall₂.nil

open Pipe in
/-- **same-as-input ops** (reshape, transpose, split, strided-slice, average-pool): the requests come
    in slot order; operands are requested without given parameters; every result that is not ignored
    is requested with the parameter object of *the* operand that is not ignored (its quantized
    values stripped) -/
theorem standardOp_sameAsInput (env : Env) (sg : Subgraph) (qsvs : Qsvs) (oi : OpInfo)
    (gIn gOut : List Nat) (rs : List CReq) (qs' : Qsvs)
    (h : standardOp env sg qsvs oi .sameAsInput gIn gOut = .ok (rs, qs')) :
    ∃ (inIgn outIgn : List Nat) (rin rout : List CReq) (gO : Option Param),
      IgnSpec sg oi.op.inputs gIn inIgn ∧ IgnSpec sg oi.op.outputs gOut outIgn ∧
      rs = rin ++ rout ∧
      Pointwise (SlotReq env sg qsvs oi true inIgn none) (cslots oi.op.inputs) rin ∧
      Pointwise (SlotReq env sg qsvs oi false outIgn gO) (cslots oi.op.outputs) rout ∧
      (((∀ p ∈ cslots oi.op.inputs, inIgn.contains p.2 = true) ∧
          (∀ p ∈ cslots oi.op.outputs, outIgn.contains p.2 = true)) ∨
        ∃ q ∈ cslots oi.op.inputs, ∃ t ir p0, inIgn.contains q.2 = false ∧
          (∀ q' ∈ cslots oi.op.inputs, inIgn.contains q'.2 = false → q' = q) ∧
          tensorAt sg q.1 = .ok t ∧ wrapper env qsvs oi t true none = .ok ir ∧ reqParam0 ir = .ok p0 ∧
          gO = stripData p0) := by
  obtain ⟨inIgn, outIgn, ignInT, inT, ignOutT, outT, inIgnU, outIgnU, A, B, gO, hinIgn, houtIgn, hsplitIn, hsplitOut,
    hrs, hA, hB, hcase⟩ := standardOp_reqs_in env sg qsvs oi gIn gOut rs qs' h
  have hSI := splitTensors_spec _ _ _ _ _ _ hsplitIn
  have hSO := splitTensors_spec _ _ _ _ _ _ hsplitOut
  obtain ⟨rin, rout, hm, hrin, hrout⟩ := mergeReqs_shape
    (fun t => wrapper env qsvs oi t true none) (fun t => wrapper env qsvs oi t false gO)
    (fun t => noQuantReq t.name oi.opId true) (fun t => noQuantReq t.name oi.opId false) hSI hSO A B hA hB
  rw [cslots_length, cslots_length, hm] at hrs
  refine ⟨inIgn, outIgn, rin, rout, gO, ignoredSlots_spec _ _ _ _ hinIgn, ignoredSlots_spec _ _ _ _ houtIgn, hrs,
    pointwise_of_forall₂ hrin, pointwise_of_forall₂ hrout, ?_⟩
  rcases hcase with ⟨rfl, rfl⟩ | ⟨t, ir, p0, rfl, hw, hp0, hg⟩
  · exact .inl ⟨Split.oth_nil hSI, Split.oth_nil hSO⟩
  · obtain ⟨q, hq, hc, ht, huniq⟩ := Split.oth_one hSI
    exact .inr ⟨q, hq, t, ir, p0, hc, huniq, ht, hw, hp0, hg⟩

open Pipe in
/-- the requests handed to `mergeReqs` by a same-as-output op -/
theorem standardOp_reqs_out (env : Env) (sg : Subgraph) (qsvs : Qsvs) (oi : OpInfo)
    (gIn gOut : List Nat) (rs : List CReq) (qs' : Qsvs)
    (h : standardOp env sg qsvs oi .sameAsOutput gIn gOut = .ok (rs, qs')) :
    ∃ (inIgn outIgn : List Nat) (ignInT inT ignOutT outT : List Tensor) (inIgnU outIgnU : List Nat)
      (A B : List CReq) (g : Option Param),
      ignoredSlots sg oi.op.inputs gIn = .ok inIgn ∧ ignoredSlots sg oi.op.outputs gOut = .ok outIgn ∧
      splitTensors sg oi.op.inputs inIgn = .ok (ignInT, inT, inIgnU) ∧
      splitTensors sg oi.op.outputs outIgn = .ok (ignOutT, outT, outIgnU) ∧
      rs = mergeReqs (A ++ B) (ignInT.map fun t => noQuantReq t.name oi.opId true)
        (ignOutT.map fun t => noQuantReq t.name oi.opId false)
        (oi.op.inputs.filter (· != -1)).length (oi.op.outputs.filter (· != -1)).length inIgnU outIgnU ∧
      List.Forall₂ (fun t r => wrapper env qsvs oi t true g = .ok r) inT A ∧
      List.Forall₂ (fun t r => wrapper env qsvs oi t false none = .ok r) outT B ∧
      ((inT = [] ∧ outT = []) ∨
        ∃ t orq, outT = [t] ∧ wrapper env qsvs oi t false none = .ok orq ∧
          g = (match orq.producer with | some pr => pr.param | none => none)) := by
  unfold standardOp at h
  obtain ⟨inIgn, hinIgn, h1⟩ := bind_ok _ _ _ h
  clear h
  obtain ⟨outIgn, houtIgn, h2⟩ := bind_ok _ _ _ h1
  clear h1
  obtain ⟨⟨ignInT, inT, inIgnU⟩, hsplitIn, h3⟩ := bind_ok _ _ _ h2
  clear h2
  obtain ⟨⟨ignOutT, outT, outIgnU⟩, hsplitOut, h⟩ := bind_ok _ _ _ h3
  clear h3
  simp only [] at h
  refine ⟨inIgn, outIgn, ignInT, inT, ignOutT, outT, inIgnU, outIgnU, ?_⟩
  by_cases he : (inT.isEmpty && outT.isEmpty) = true
  · rw [if_pos he] at h
    simp only [pure, Except.pure, Except.ok.injEq, Prod.mk.injEq] at h
    simp only [Bool.and_eq_true, List.isEmpty_iff] at he
    obtain ⟨rfl, rfl⟩ := he
    exact ⟨[], [], none, hinIgn, houtIgn, hsplitIn, hsplitOut, h.1.symm, List.Forall₂.nil, List.Forall₂.nil,
      Or.inl ⟨rfl, rfl⟩⟩
  · rw [if_neg he] at h
    clear he
    obtain ⟨t, ht, h1⟩ := bind_ok _ _ _ h
    clear h
    obtain ⟨orq, horq, h2⟩ := bind_ok _ _ _ h1
    clear h1
    obtain ⟨ins, hins, h⟩ := bind_ok _ _ _ h2
    clear h2
    simp only [pure, Except.pure, Except.ok.injEq, Prod.mk.injEq] at h
    have houtT : outT = [t] := by
      rcases outT with _ | ⟨a, _ | ⟨b, l⟩⟩
      · cases ht
      · simp only [pure, Except.pure, Except.ok.injEq] at ht
        rw [ht]
      · cases ht
    refine ⟨ins, [orq], _, hinIgn, houtIgn, hsplitIn, hsplitOut, h.1.symm,
      mapM_forall₂ _ _ _ hins, ?_, Or.inr ⟨t, orq, houtT, horq, rfl⟩⟩
    rw [houtT]
    exact List.Forall₂.cons horq List.Forall₂.nil

open Pipe in
/-- **same-as-output ops** (concatenation): the result is requested without given parameters; every
    operand that is not ignored is requested with the parameter object of *the* result -/
theorem standardOp_sameAsOutput (env : Env) (sg : Subgraph) (qsvs : Qsvs) (oi : OpInfo)
    (gIn gOut : List Nat) (rs : List CReq) (qs' : Qsvs)
    (h : standardOp env sg qsvs oi .sameAsOutput gIn gOut = .ok (rs, qs')) :
    ∃ (inIgn outIgn : List Nat) (rin rout : List CReq) (g : Option Param),
      IgnSpec sg oi.op.inputs gIn inIgn ∧ IgnSpec sg oi.op.outputs gOut outIgn ∧
      rs = rin ++ rout ∧
      Pointwise (SlotReq env sg qsvs oi true inIgn g) (cslots oi.op.inputs) rin ∧
      Pointwise (SlotReq env sg qsvs oi false outIgn none) (cslots oi.op.outputs) rout ∧
      (((∀ p ∈ cslots oi.op.inputs, inIgn.contains p.2 = true) ∧
          (∀ p ∈ cslots oi.op.outputs, outIgn.contains p.2 = true)) ∨
        ∃ q ∈ cslots oi.op.outputs, ∃ t orq, outIgn.contains q.2 = false ∧
          (∀ q' ∈ cslots oi.op.outputs, outIgn.contains q'.2 = false → q' = q) ∧
          tensorAt sg q.1 = .ok t ∧ wrapper env qsvs oi t false none = .ok orq ∧
          g = (match orq.producer with | some pr => pr.param | none => none)) := by
  obtain ⟨inIgn, outIgn, ignInT, inT, ignOutT, outT, inIgnU, outIgnU, A, B, g, hinIgn, houtIgn, hsplitIn, hsplitOut,
    hrs, hA, hB, hcase⟩ := standardOp_reqs_out env sg qsvs oi gIn gOut rs qs' h
  have hSI := splitTensors_spec _ _ _ _ _ _ hsplitIn
  have hSO := splitTensors_spec _ _ _ _ _ _ hsplitOut
  obtain ⟨rin, rout, hm, hrin, hrout⟩ := mergeReqs_shape
    (fun t => wrapper env qsvs oi t true g) (fun t => wrapper env qsvs oi t false none)
    (fun t => noQuantReq t.name oi.opId true) (fun t => noQuantReq t.name oi.opId false) hSI hSO A B hA hB
  rw [cslots_length, cslots_length, hm] at hrs
  refine ⟨inIgn, outIgn, rin, rout, g, ignoredSlots_spec _ _ _ _ hinIgn, ignoredSlots_spec _ _ _ _ houtIgn, hrs,
    pointwise_of_forall₂ hrin, pointwise_of_forall₂ hrout, ?_⟩
  rcases hcase with ⟨rfl, rfl⟩ | ⟨t, orq, rfl, hw, hg⟩
  · exact .inl ⟨Split.oth_nil hSI, Split.oth_nil hSO⟩
  · obtain ⟨q, hq, hc, ht, huniq⟩ := Split.oth_one hSO
    exact .inr ⟨q, hq, t, orq, hc, huniq, ht, hw, hg⟩

/-! ## fixed output ranges (softmax, logistic, tanh) -/

/-- **fixed-range ops**: the requests are those of an unconstrained op, except that the result (last
    request) carries the range hard-coded in the runtime kernel instead of its calibrated one -/
theorem fixedRangeOp_spec (env : Env) (sg : Subgraph) (qsvs : Qsvs) (oi : OpInfo) (b : Bool)
    (rs : List CReq) (qs' : Qsvs) (h : fixedRangeOp env sg qsvs oi b = .ok (rs, qs')) :
    oi.op.outputs.length = 1 ∧ ∃ reqs qs, standardOp env sg qsvs oi .none [] [] = .ok (reqs, qs) ∧
      ((rs = reqs ∧ qs' = qs ∧
          (reqs.getLast? = none ∨ oi.cfg.act = none ∨ ∃ last, reqs.getLast? = some last ∧ last.producer = none)) ∨
        ∃ last a pr fp mm, reqs.getLast? = some last ∧ oi.cfg.act = some a ∧ last.producer = some pr ∧
          fixedParams b a.bits.toNat = some fp ∧ minMaxFromParams a.bits.toNat a.symmetric fp = .ok mm ∧
          rs = reqs.dropLast ++ [{ last with producer := some { pr with param := some (.uniform fp none) } }] ∧
          qs' = Py.dictSet qs last.name (some mm)) := by
  unfold fixedRangeOp at h
  simp only [bind, Except.bind, pure, Except.pure, throw, throwThe, MonadExceptOf.throw] at h
  split at h
  · cases h
  · rename_i hlen
    refine ⟨by simpa using hlen, ?_⟩
    split at h
    · cases h
    · rename_i v hstd
      obtain ⟨reqs, qs⟩ := v
      refine ⟨reqs, qs, hstd, ?_⟩
      simp only [] at h
      split at h
      · rename_i last a hlast hact
        split at h
        · rename_i hpr
          simp only [Except.ok.injEq, Prod.mk.injEq] at h
          exact .inl ⟨h.1.symm, h.2.symm, .inr (.inr ⟨last, hlast, hpr⟩)⟩
        · rename_i pr hpr
          split at h
          · cases h
          · rename_i fp hfp
            split at h
            · cases h
            · rename_i mm hmm
              split at h
              · cases h
              · simp only [Except.ok.injEq, Prod.mk.injEq] at h
                exact .inr ⟨last, a, pr, fp, mm, hlast, hact, hpr, hfp, hmm, h.1.symm, h.2.symm⟩
      · rename_i hno
        simp only [Except.ok.injEq, Prod.mk.injEq] at h
        refine .inl ⟨h.1.symm, h.2.symm, ?_⟩
        cases hl : reqs.getLast? with
        | none => exact .inl rfl
        | some last =>
          cases ha : oi.cfg.act with
          | none => exact .inr (.inl rfl)
          | some a => exact absurd ha (hno last a hl)

/-! ## the bias of the convolution-like ops -/

/-- **bias request under a static-range config**: the bias must be a constant; its request (placed at
    the bias position) carries `symmetric_quantize_bias_tensor(bias, input params, weight params)`
    where the input / weight parameters are the ones of the requests at the data / weight positions -/
theorem biasFor_srq (env : Env) (sg : Subgraph) (oi : OpInfo) (reqs rs : List CReq) (iIn iW iB : Nat) (bslot : Int)
    (hsrq : isSRQ oi.cfg = true) (hb : oi.op.inputs[iB]? = some bslot) (hne : bslot ≠ -1)
    (h : biasFor env sg oi reqs iIn iW iB = .ok rs) :
    ∃ bt bd rin rw qi di qw dw qp q, tensorAt sg bslot = .ok bt ∧ constData env bt = some bd ∧
      reqs[iIn]? = some rin ∧ reqs[iW]? = some rw ∧
      reqParam0 rin = .ok (some (.uniform qi di)) ∧ reqParam0 rw = .ok (some (.uniform qw dw)) ∧
      quantizeBias ⟨bd, .f32⟩ qi qw = .ok (qp, q) ∧ iB < reqs.length ∧
      rs = reqs.set iB (srqReq bt.name oi.opId true true (some (.uniform qp (some q)))) := by
  unfold biasFor at h
  rw [hb] at h
  simp only [] at h
  rw [if_neg (by simpa using hne)] at h
  obtain ⟨bt, hbt, h⟩ := bind_ok _ _ _ h
  simp only [hsrq, if_true] at h
  have fin : ∀ bp, (mkReq bt.name oi true bp true >>= fun r =>
        if iB < reqs.length then pure (reqs.set iB r) else throw PyErr.indexError) = .ok rs →
      iB < reqs.length ∧ rs = reqs.set iB (srqReq bt.name oi.opId true true bp) := by
    intro bp h
    obtain ⟨r, hr, h⟩ := bind_ok _ _ _ h
    rw [mkReq_srq _ _ _ _ _ hsrq] at hr
    simp only [Except.ok.injEq] at hr
    subst hr
    split at h
    · rename_i hlt
      simp only [pure, Except.pure, Except.ok.injEq] at h
      exact ⟨hlt, h.symm⟩
    · cases h
  cases hcd : constData env bt with
  | none =>
    rw [hcd] at h
    obtain ⟨_, h', _⟩ := bind_ok _ _ _ h
    cases h'
  | some bd =>
    rw [hcd] at h
    simp only [] at h
    obtain ⟨pin, hpin, h⟩ := bind_ok _ _ _ h
    obtain ⟨pw, hpw, h⟩ := bind_ok _ _ _ h
    cases hin : reqs[iIn]? with
    | none => rw [hin] at hpin; cases hpin
    | some rin =>
      cases hw : reqs[iW]? with
      | none => rw [hw] at hpw; cases hpw
      | some rw' =>
        rw [hin] at hpin
        rw [hw] at hpw
        simp only [] at hpin hpw
        have bad : ∀ {α} (k : Option Param → PyM α) (x : α),
            ((throw PyErr.attributeError : PyM (Option Param)) >>= k) = .ok x → False := by
          intro α k x h
          obtain ⟨_, h', _⟩ := bind_ok _ _ _ h
          cases h'
        cases pin with
        | none => exact (bad _ _ h).elim
        | some p1 =>
          cases p1 with
          | nonlinear b1 d1 => exact (bad _ _ h).elim
          | uniform qi di =>
            cases pw with
            | none => exact (bad _ _ h).elim
            | some p2 =>
              cases p2 with
              | nonlinear b2 d2 => exact (bad _ _ h).elim
              | uniform qw dw =>
                simp only [] at h
                obtain ⟨bp, hbp, h⟩ := bind_ok _ _ _ h
                obtain ⟨⟨qp, q⟩, hqb, hbp⟩ := bind_ok _ _ _ hbp
                simp only [pure, Except.pure, Except.ok.injEq] at hbp
                subst hbp
                obtain ⟨hlt, hrs⟩ := fin _ h
                exact ⟨bt, bd, rin, rw', qi, di, qw, dw, qp, q, hbt, hcd, rfl, rfl, hpin, hpw, hqb, hlt, hrs⟩

/-! ## the dispatch table -/

/-- the materialize function registered for op `k` under min/max uniform quantization -/
def minmaxFn (k : String) : Option String := Py.dictGet? Pipe.minmaxOps k

theorem registry_minmaxFn (k : String) :
    (Py.dictGet? Tables.registry Tables.algMinMax).bind (fun ops => Py.dictGet? ops k) = minmaxFn k := by
  rw [Pipe.registry_minmax]; rfl

theorem materializeOp_reshape (env : Env) (sg : Subgraph) (qsvs : Qsvs) (oi : OpInfo) :
    materializeOp env sg qsvs oi Tables.algMinMax "materialize_reshape" =
      standardOp env sg qsvs oi .sameAsInput [1] [] := by
  unfold materializeOp; rfl

theorem materializeOp_transpose (env : Env) (sg : Subgraph) (qsvs : Qsvs) (oi : OpInfo) :
    materializeOp env sg qsvs oi Tables.algMinMax "materialize_transpose" =
      standardOp env sg qsvs oi .sameAsInput [1] [] := by
  unfold materializeOp; rfl

theorem materializeOp_split (env : Env) (sg : Subgraph) (qsvs : Qsvs) (oi : OpInfo) :
    materializeOp env sg qsvs oi Tables.algMinMax "materialize_split" =
      standardOp env sg qsvs oi .sameAsInput [0] [] := by
  unfold materializeOp; rfl

theorem materializeOp_strided_slice (env : Env) (sg : Subgraph) (qsvs : Qsvs) (oi : OpInfo) :
    materializeOp env sg qsvs oi Tables.algMinMax "materialize_strided_slice" =
      standardOp env sg qsvs oi .sameAsInput [1, 2, 3] [] := by
  unfold materializeOp; rfl

theorem materializeOp_average_pool (env : Env) (sg : Subgraph) (qsvs : Qsvs) (oi : OpInfo) :
    materializeOp env sg qsvs oi Tables.algMinMax "materialize_average_pool_2d" =
      standardOp env sg qsvs oi .sameAsInput [] [] := by
  unfold materializeOp; rfl

theorem materializeOp_concatenation (env : Env) (sg : Subgraph) (qsvs : Qsvs) (oi : OpInfo) :
    materializeOp env sg qsvs oi Tables.algMinMax "materialize_concatenation" =
      standardOp env sg qsvs oi .sameAsOutput [] [] := by
  unfold materializeOp; rfl

theorem materializeOp_softmax_logistic (env : Env) (sg : Subgraph) (qsvs : Qsvs) (oi : OpInfo) :
    materializeOp env sg qsvs oi Tables.algMinMax "materialize_softmax_and_logistic" =
      fixedRangeOp env sg qsvs oi true := by
  unfold materializeOp; rfl

theorem materializeOp_tanh (env : Env) (sg : Subgraph) (qsvs : Qsvs) (oi : OpInfo) :
    materializeOp env sg qsvs oi Tables.algMinMax "materialize_tanh" =
      fixedRangeOp env sg qsvs oi false := by
  unfold materializeOp; rfl

theorem refData_some (tc : TCfg) (d : Arr Rat) (qp : QParams) (dat : Option IArr) :
    refData tc (some d) qp = .ok dat ↔
      tc.gran ≠ Gran.blockwise ∧ ∃ q, uniformQuantize ⟨d, .f32⟩ qp = .ok q ∧ dat = some q := by
  unfold refData
  simp only []
  by_cases hb : (tc.gran == Gran.blockwise) = true
  · rw [if_pos hb]
    constructor
    · intro h; cases h
    · rintro ⟨h, _⟩; exact absurd (beq_iff_eq.1 hb) h
  · rw [if_neg hb]
    have hb' : tc.gran ≠ Gran.blockwise := fun h => hb (by rw [h]; rfl)
    cases hu : uniformQuantize ⟨d, .f32⟩ qp with
    | error e =>
      simp only []
      constructor
      · intro h; cases h
      · rintro ⟨_, q, h, _⟩; cases h
    | ok q =>
      simp only [Except.ok.injEq]
      constructor
      · intro h; exact ⟨hb', q, rfl, h.symm⟩
      · rintro ⟨_, q', h, rfl⟩; rw [h]

/-- the request of a tensor that is handed parameters: they pass through unchanged, except that a
    constant handed data-free uniform parameters gets its quantized values attached (repair D21) -/
theorem wrapper_given_eq (env : Env) (qsvs : Qsvs) (oi : OpInfo) (t : Tensor) (inbound : Bool) (p : Param) :
    wrapper env qsvs oi t inbound (some p) =
      match p, constData env t with
      | .uniform qp none, some d =>
        match uniformQuantize ⟨d, .f32⟩ qp with
        | .error e => .error e
        | .ok q => mkReq t.name oi inbound (some (.uniform qp (some q))) true
      | _, _ => mkReq t.name oi inbound (some p) (constData env t).isSome := by
  unfold wrapper
  simp only [bind, Except.bind, pure, Except.pure]
  cases p with
  | nonlinear b dd => rfl
  | uniform qp dd =>
    cases dd with
    | some v => rfl
    | none =>
      cases hd : constData env t with
      | none => rfl
      | some d =>
        simp only []
        cases uniformQuantize ⟨d, .f32⟩ qp <;> rfl

/-! ## master characterisation of a request made without given parameters -/

/-- **`wrapper … none` succeeds exactly with the reference parameters of the tensor's statistics** -/
theorem wrapper_none_ok_iff (env : Env) (qsvs : Qsvs) (oi : OpInfo) (t : Tensor) (inbound : Bool) (r : CReq) :
    wrapper env qsvs oi t inbound none = .ok r ↔
      (tcfgOf env oi t = none ∧ mkReq t.name oi inbound none (constData env t).isSome = .ok r) ∨
      ∃ tc mn mx qdim qp dat, tcfgOf env oi t = some tc ∧ statsOf env qsvs oi t = .ok (some (mn, mx)) ∧
        refQDim env oi tc (constData env t) = .ok qdim ∧
        refParams tc.bits.toNat tc.symmetric qdim mn mx = .ok qp ∧
        refData tc (constData env t) qp = .ok dat ∧
        mkReq t.name oi inbound (some (.uniform qp dat)) (constData env t).isSome = .ok r := by
  rw [wrapper_none_eq]
  cases htc : tcfgOf env oi t with
  | none =>
    simp only []
    constructor
    · intro h; exact .inl ⟨trivial, h⟩
    · rintro (⟨_, h⟩ | ⟨tc, _, _, _, _, _, h, _⟩)
      · exact h
      · cases h
  | some tc =>
    simp only []
    cases hs : statsOf env qsvs oi t with
    | error e =>
      simp only []
      constructor
      · intro h; cases h
      · rintro (⟨h, _⟩ | ⟨_, _, _, _, _, _, _, h, _⟩) <;> cases h
    | ok mm =>
      simp only [tensorQuantParams_eq]
      cases mm with
      | none =>
        simp only []
        constructor
        · intro h; cases h
        · rintro (⟨h, _⟩ | ⟨_, _, _, _, _, _, _, h, _⟩) <;> cases h
      | some s =>
        obtain ⟨mn, mx⟩ := s
        simp only []
        constructor
        · intro h
          cases hp : refTensorParams env oi tc (constData env t) mn mx with
          | error e => rw [hp] at h; cases h
          | ok p =>
            rw [hp] at h
            obtain ⟨qdim, qp, dat, h1, h2, h3, rfl⟩ := (refTensorParams_ok_iff _ _ _ _ _ _ _).1 hp
            exact .inr ⟨tc, mn, mx, qdim, qp, dat, rfl, rfl, h1, h2, h3, h⟩
        · rintro (⟨h, _⟩ | ⟨tc', mn', mx', qdim, qp, dat, h0, hst, h1, h2, h3, h4⟩)
          · cases h
          · cases h0
            simp only [Except.ok.injEq, Option.some.injEq, Prod.mk.injEq] at hst
            obtain ⟨rfl, rfl⟩ := hst
            rw [(refTensorParams_ok_iff _ _ _ _ _ _ _).2 ⟨qdim, qp, dat, h1, h2, h3, rfl⟩]
            exact h4

/-! ## well-formed parameters -/

/-- finite positive scales, in-range zero points, scale and zero-point arrays of one shape and
    length, zero point 0 when symmetric -/
structure WellFormed (bits : Nat) (sym : Bool) (qp : QParams) : Prop where
  bits_eq : qp.bits = bits
  sym_eq : qp.symmetric = sym
  shape : qp.scale.arr.shape = qp.zp.arr.shape
  len : qp.scale.arr.data.length = qp.zp.arr.data.length
  wf : qp.scale.arr.data.length = numel qp.scale.arr.shape
  pos : ∀ s ∈ qp.scale.arr.data, 0 < s
  fin : ∀ s ∈ qp.scale.arr.data, qp.scale.pr.isFin s = true
  zp : ∀ z ∈ qp.zp.arr.data, qmin bits ≤ z ∧ z ≤ qmax bits
  zp0 : sym = true → ∀ z ∈ qp.zp.arr.data, z = 0

/-- a successful scalar core returns a finite scale -/
theorem zpScale1_fin (pr : Prec) (bits : Nat) (sym : Bool) (mn mx : Rat) (zp : Int) (s : Rat)
    (h : zpScale1 pr bits sym mn mx = .ok (zp, s)) : pr.isFin s = true := by
  unfold zpScale1 at h
  cases sym
  · simp only [Bool.false_eq_true, if_false] at h
    split at h
    · rename_i hf
      cases h
      simp only [Bool.and_eq_true] at hf
      exact hf.1.1.2
    · cases h
  · simp only [if_true] at h
    split at h
    · rename_i hf
      cases h
      exact hf
    · cases h

/-- statistics: `min` and `max` have one shape and `min ≤ max` cell by cell -/
def StatsOrdered (mn mx : FArr) : Prop :=
  mn.arr.shape = mx.arr.shape ∧ ∀ k, mn.arr.data.getD k 0 ≤ mx.arr.data.getD k 0

theorem default_rat : (default : Rat) = 0 := rfl

theorem materializeOp_fc_conv (env : Env) (sg : Subgraph) (qsvs : Qsvs) (oi : OpInfo) :
    materializeOp env sg qsvs oi Tables.algMinMax "materialize_fc_conv" =
      (standardOp env sg qsvs oi .none [2] [] >>= fun rq =>
        biasFor env sg oi rq.1 0 1 2 >>= fun r' => pure (r', rq.2)) := by
  unfold materializeOp; rfl

theorem materializeOp_conv2d_transpose (env : Env) (sg : Subgraph) (qsvs : Qsvs) (oi : OpInfo) :
    materializeOp env sg qsvs oi Tables.algMinMax "materialize_conv2d_transpose" =
      (do let (r, q) ← standardOp env sg qsvs oi .none [0, 3] []
          if r.length < 2 then throw PyErr.valueError
          let r' ← biasFor env sg oi r 2 1 3
          pure (r', q)) := by
  unfold materializeOp; rfl

/-! ## decidable equality of the request objects (for closed instances checked by the kernel) -/

deriving instance DecidableEq for Nd.Arr
deriving instance DecidableEq for Arith.FArr
deriving instance DecidableEq for Arith.IArr
deriving instance DecidableEq for Arith.QParams
deriving instance DecidableEq for Mat.Param
deriving instance DecidableEq for Mat.CO2T
deriving instance DecidableEq for Mat.CReq

end MatParams
