import QModel.Validate
import Mathlib.Tactic.Linarith
import Mathlib.Tactic.Positivity
import Mathlib.Tactic.Ring
import Mathlib.Data.List.Basic
import Mathlib.Data.List.Nodup
/-!
# validate(): metric laws and the one-entry-per-tensor partition (C18)

All eight statements are proved as given (no statement was changed).  `inputs_filed` does not
actually need the distinct-keys hypothesis `hnd` (it is kept, unused, to keep the statement as given).
-/
open Validate

namespace ValidateProofs

/-! ## sums of lists of rationals -/

theorem foldl_add_nonneg (l : List Rat) : ∀ (acc : Rat), 0 ≤ acc → (∀ x ∈ l, 0 ≤ x) →
    0 ≤ l.foldl (· + ·) acc := by
  induction l with
  | nil => intro acc h _; simpa using h
  | cons y ys ih =>
    intro acc hacc h
    simp only [List.foldl_cons]
    apply ih
    · have := h y (by simp); linarith
    · intro x hx; exact h x (by simp [hx])

theorem foldl_add_zeros (l : List Rat) (h : ∀ x ∈ l, x = 0) : l.foldl (· + ·) (0 : Rat) = 0 := by
  induction l with
  | nil => rfl
  | cons y ys ih =>
    simp only [List.foldl_cons]
    have hy : y = 0 := h y (by simp)
    subst hy
    simp only [add_zero]
    exact ih (fun x hx => h x (by simp [hx]))

theorem mem_zip_self {α} (a : List α) : ∀ p ∈ a.zip a, p.1 = p.2 := by
  induction a with
  | nil => intro p hp; simp at hp
  | cons x xs ih =>
    intro p hp
    simp only [List.zip_cons_cons, List.mem_cons] at hp
    rcases hp with rfl | hp
    · rfl
    · exact ih p hp

theorem zip_map_swap {α β} (f g : α × α → β) (hfg : ∀ x y, f (x, y) = g (y, x)) :
    ∀ (a b : List α), (a.zip b).map f = (b.zip a).map g := by
  intro a
  induction a with
  | nil => intro b; cases b <;> simp
  | cons x xs ih =>
    intro b
    cases b with
    | nil => simp
    | cons y ys => simp [hfg, ih ys]

theorem isEmpty_eq_of_length_eq {α} (a b : List α) (h : a.length = b.length) :
    a.isEmpty = b.isEmpty := by
  cases a <;> cases b <;> simp at h ⊢

/-! ## MSE -/

/-- MSE is non-negative -/
theorem mse_nonneg (a b : List Rat) (v : Rat) (h : mse a b = .ok v) : 0 ≤ v := by
  unfold mse at h
  split_ifs at h with h1 h2
  · cases h; exact le_refl _
  · cases h
    apply div_nonneg
    · apply foldl_add_nonneg _ _ (le_refl _)
      intro x hx
      simp only [List.mem_map] at hx
      obtain ⟨p, _, rfl⟩ := hx
      exact mul_self_nonneg _
    · exact Nat.cast_nonneg _

/-- MSE of equal arguments is 0 -/
theorem mse_refl (a : List Rat) : mse a a = .ok 0 := by
  unfold mse
  simp only [ne_eq, not_true_eq_false, if_false]
  split_ifs with h2
  · rfl
  · rw [foldl_add_zeros, zero_div]
    intro x hx
    simp only [List.mem_map] at hx
    obtain ⟨p, hp, rfl⟩ := hx
    rw [mem_zip_self a p hp]
    simp

/-- MSE is symmetric -/
theorem mse_symm (a b : List Rat) : mse a b = mse b a := by
  unfold mse
  by_cases hl : a.length = b.length
  · have hl' : b.length = a.length := hl.symm
    have he := isEmpty_eq_of_length_eq a b hl
    have hz := zip_map_swap (fun p : Rat × Rat => (p.1 - p.2) * (p.1 - p.2))
      (fun p : Rat × Rat => (p.1 - p.2) * (p.1 - p.2)) (fun x y => by ring) a b
    rw [if_neg (not_not.2 hl), if_neg (not_not.2 hl'), he, hz, hl]
  · have hl' : ¬ b.length = a.length := fun h => hl h.symm
    rw [if_pos hl, if_pos hl']

/-! ## median / MDR -/

theorem absQ_nonneg (x : Rat) : 0 ≤ absQ x := by
  unfold absQ
  split_ifs with h
  · linarith
  · linarith

theorem absQ_zero : absQ 0 = 0 := by
  unfold absQ; simp

theorem mem_insertSorted (x x' : Rat) (l : List Rat) :
    x' ∈ insertSorted x l ↔ x' = x ∨ x' ∈ l := by
  induction l with
  | nil => simp [insertSorted]
  | cons y ys ih =>
    unfold insertSorted
    split_ifs with h
    · simp
    · simp only [List.mem_cons, ih]
      tauto

theorem mem_sortR (x : Rat) (l : List Rat) : x ∈ sortR l ↔ x ∈ l := by
  induction l with
  | nil => simp [sortR]
  | cons y ys ih =>
    have : sortR (y :: ys) = insertSorted y (sortR ys) := rfl
    rw [this, mem_insertSorted, ih]
    simp

theorem getD_prop (P : Rat → Prop) (h0 : P 0) (s : List Rat) (hs : ∀ x ∈ s, P x) (i : Nat) :
    P (s.getD i 0) := by
  rw [List.getD_eq_getElem?_getD]
  cases hi : s[i]? with
  | none => simpa using h0
  | some y => simpa using hs y (List.mem_of_getElem? hi)

/-- the median of a list satisfies every "convex" property (containing 0) of its elements -/
theorem median_prop (P : Rat → Prop) (h0 : P 0) (havg : ∀ x y, P x → P y → P ((x + y) / 2))
    (l : List Rat) (hl : ∀ x ∈ l, P x) : P (median l) := by
  have hs : ∀ x ∈ sortR l, P x := fun x hx => hl x ((mem_sortR x l).1 hx)
  unfold median
  simp only
  split_ifs with h1 h2
  · exact h0
  · exact getD_prop P h0 _ hs _
  · exact havg _ _ (getD_prop P h0 _ hs _) (getD_prop P h0 _ hs _)

/-- the median-diff-ratio metric is non-negative -/
theorem mdr_nonneg (a b : List Rat) (v : Rat) (h : mdr a b = .ok v) : 0 ≤ v := by
  unfold mdr at h
  split_ifs at h with h1 h2
  · cases h; exact le_refl _
  · cases h
    apply median_prop (fun x => 0 ≤ x) (le_refl _)
    · intro x y hx hy
      have : 0 ≤ x + y := add_nonneg hx hy
      exact div_nonneg this (by norm_num)
    · intro x hx
      simp only [List.mem_map] at hx
      obtain ⟨p, _, rfl⟩ := hx
      apply div_nonneg (absQ_nonneg _)
      have := absQ_nonneg p.2
      linarith

/-- … and 0 on equal arguments -/
theorem mdr_refl (a : List Rat) : mdr a a = .ok 0 := by
  unfold mdr
  simp only [ne_eq, not_true_eq_false, if_false]
  split_ifs with h2
  · rfl
  · congr 1
    apply median_prop (fun x => x = 0) rfl
    · intro x y hx hy
      subst hx; subst hy; norm_num
    · intro x hx
      simp only [List.mem_map] at hx
      obtain ⟨p, hp, rfl⟩ := hx
      rw [mem_zip_self a p hp, sub_self, absQ_zero, zero_div]

/-- comparing a model with itself: every per-sample value is 0, hence every reported mean is 0 -/
theorem meanR_zeros (l : List Rat) (h : ∀ x ∈ l, x = 0) : meanR l = 0 := by
  unfold meanR
  split_ifs with h1
  · rfl
  · rw [foldl_add_zeros l h, zero_div]

/-! ## association-list dictionaries -/

abbrev Dict := List (String × Rat)

theorem dictGet?_none_of_not_mem (d : Dict) (k : String) (h : k ∉ d.map (·.1)) :
    Py.dictGet? d k = none := by
  induction d with
  | nil => rfl
  | cons e t ih =>
    simp only [List.map_cons, List.mem_cons, not_or] at h
    have h1 : (e.1 == k) = false := by
      simp only [beq_eq_false_iff_ne, ne_eq]; exact fun hh => h.1 hh.symm
    have := ih h.2
    simp only [Py.dictGet?, List.find?, h1] at this ⊢
    exact this

theorem dictSet_of_not_mem (d : Dict) (k : String) (v : Rat) (h : k ∉ d.map (·.1)) :
    Py.dictSet d k v = d ++ [(k, v)] := by
  induction d with
  | nil => rfl
  | cons e t ih =>
    obtain ⟨k', v'⟩ := e
    simp only [List.map_cons, List.mem_cons, not_or] at h
    have h1 : (k' == k) = false := by
      simp only [beq_eq_false_iff_ne, ne_eq]; exact fun hh => h.1 hh.symm
    simp only [Py.dictSet, h1, ih h.2, List.cons_append, Bool.false_eq_true, if_false]

theorem key_mem_dictSet (d : Dict) (k n : String) (v : Rat)
    (h : n = k ∨ n ∈ d.map (·.1)) : n ∈ (Py.dictSet d k v).map (·.1) := by
  induction d with
  | nil => simpa [Py.dictSet] using h
  | cons e t ih =>
    obtain ⟨k', v'⟩ := e
    by_cases hk : k' = k
    · subst hk
      simp only [Py.dictSet, beq_self_eq_true, if_true, List.map_cons, List.mem_cons] at h ⊢
      tauto
    · have hb : (k' == k) = false := by simpa using hk
      simp only [Py.dictSet, hb, Bool.false_eq_true, if_false, List.map_cons, List.mem_cons] at h ⊢
      rcases h with h | h | h
      · exact Or.inr (ih (Or.inl h))
      · exact Or.inl h
      · exact Or.inr (ih (Or.inr h))

theorem mem_of_dictGet? (d : Dict) (n : String) (v : Rat) (h : Py.dictGet? d n = some v) :
    (n, v) ∈ d := by
  unfold Py.dictGet? at h
  cases hf : d.find? (·.1 == n) with
  | none => simp [hf] at h
  | some e =>
    simp only [hf, Option.map_some, Option.some.injEq] at h
    have hm := List.mem_of_find?_eq_some hf
    have hp := List.find?_some hf
    simp only [beq_iff_eq] at hp
    obtain ⟨k, w⟩ := e
    simp only at hp h
    subst hp; subst h
    exact hm

/-- popping a present key of a dictionary with distinct keys removes exactly its entry -/
theorem perm_cons_filter (d : Dict) (n : String) (v : Rat) (hnd : (d.map (·.1)).Nodup)
    (hg : Py.dictGet? d n = some v) :
    List.Perm d ((n, v) :: d.filter (·.1 != n)) := by
  induction d with
  | nil => simp [Py.dictGet?] at hg
  | cons e t ih =>
    obtain ⟨k, w⟩ := e
    simp only [List.map_cons, List.nodup_cons] at hnd
    by_cases hk : k = n
    · subst hk
      have hw : w = v := by simpa [Py.dictGet?] using hg
      subst hw
      have hft : t.filter (·.1 != k) = t := by
        rw [List.filter_eq_self]
        intro e he
        simp only [bne_iff_ne, ne_eq]
        intro hek
        exact hnd.1 (hek ▸ List.mem_map_of_mem (f := (·.1)) he)
      simp [hft]
    · have hb : (k == n) = false := by simpa using hk
      have hg' : Py.dictGet? t n = some v := by
        simpa [Py.dictGet?, List.find?, hb] using hg
      have hfc : ((k, w) :: t).filter (fun x => x.1 != n) = (k, w) :: t.filter (fun x => x.1 != n) := by
        simp [hk]
      rw [hfc]
      exact ((ih hnd.2 hg').cons (k, w)).trans (List.Perm.swap _ _ _)

/-! ## `popGroup` -/

/-- the loop body of `popGroup` -/
def popStep (guarded : Bool) (st : Dict × Dict) (n : String) : PyM (Dict × Dict) :=
  match Py.dictGet? st.1 n with
  | some v => pure (st.1.filter (·.1 != n), Py.dictSet st.2 n v)
  | none => if guarded then pure st else throw .keyError

theorem popGroup_eq (guarded : Bool) (result : Dict) (names : List String) :
    popGroup guarded result names = names.foldlM (popStep guarded) (result, []) := rfl

theorem foldlM_cons_ok {α β} (f : β → α → PyM β) (a : α) (as : List α) (init r : β)
    (h : (a :: as).foldlM f init = .ok r) : ∃ s, f init a = .ok s ∧ as.foldlM f s = .ok r := by
  simp only [List.foldlM_cons, bind, Except.bind] at h
  cases hf : f init a with
  | error e => simp [hf] at h
  | ok s => exact ⟨s, rfl, by simpa [hf] using h⟩

/-- one step preserves "`rest ++ grp` is a permutation of the original dictionary" -/
theorem popStep_perm (guarded : Bool) (result : Dict) (hnd : (result.map (·.1)).Nodup)
    (st st' : Dict × Dict) (n : String) (hP : List.Perm (st.1 ++ st.2) result)
    (h : popStep guarded st n = .ok st') : List.Perm (st'.1 ++ st'.2) result := by
  unfold popStep at h
  have hnd' : ((st.1 ++ st.2).map (·.1)).Nodup := (hP.map (·.1)).nodup_iff.2 hnd
  rw [List.map_append, List.nodup_append] at hnd'
  obtain ⟨hnd1, _, hdisj⟩ := hnd'
  cases hg : Py.dictGet? st.1 n with
  | none =>
    simp only [hg] at h
    cases guarded with
    | true => simp only [if_true, pure, Except.pure, Except.ok.injEq] at h; subst h; exact hP
    | false => simp [throw, throwThe, MonadExceptOf.throw] at h
  | some v =>
    simp only [hg, pure, Except.pure, Except.ok.injEq] at h
    subst h
    have hmem : n ∈ st.1.map (·.1) := List.mem_map_of_mem (f := (·.1)) (mem_of_dictGet? _ _ _ hg)
    have hn2 : n ∉ st.2.map (·.1) := fun h2 => hdisj n hmem n h2 rfl
    simp only [dictSet_of_not_mem _ _ _ hn2]
    have h1 := perm_cons_filter st.1 n v hnd1 hg
    refine List.Perm.trans ?_ hP
    have h2 : List.Perm (st.1.filter (·.1 != n) ++ (st.2 ++ [(n, v)]))
        (((n, v) :: st.1.filter (·.1 != n)) ++ st.2) := by
      rw [← List.append_assoc]
      exact List.perm_append_comm.trans (by simp)
    exact h2.trans (h1.symm.append_right _)

theorem popFold_perm (guarded : Bool) (result : Dict) (hnd : (result.map (·.1)).Nodup) :
    ∀ (names : List String) (st r : Dict × Dict), List.Perm (st.1 ++ st.2) result →
      names.foldlM (popStep guarded) st = .ok r → List.Perm (r.1 ++ r.2) result := by
  intro names
  induction names with
  | nil =>
    intro st r hP h
    simp only [List.foldlM_nil, pure, Except.pure, Except.ok.injEq] at h
    subst h; exact hP
  | cons n ns ih =>
    intro st r hP h
    obtain ⟨s, hs, hr⟩ := foldlM_cons_ok _ _ _ _ _ h
    exact ih s r (popStep_perm guarded result hnd st s n hP hs) hr

/-- **`popGroup` invariant**: remaining dictionary and group together are a permutation of the
    dictionary the pops started from -/
theorem popGroup_perm (guarded : Bool) (result : Dict) (hnd : (result.map (·.1)).Nodup)
    (names : List String) (r : Dict × Dict) (h : popGroup guarded result names = .ok r) :
    List.Perm (r.1 ++ r.2) result := by
  rw [popGroup_eq] at h
  exact popFold_perm guarded result hnd names (result, []) r (by simp) h

/-- the keys of the group only grow, and an unguarded loop files every name it processes -/
theorem popFold_keys (guarded : Bool) :
    ∀ (names : List String) (st r : Dict × Dict),
      names.foldlM (popStep guarded) st = .ok r →
      (∀ k ∈ st.2.map (·.1), k ∈ r.2.map (·.1)) ∧
      (guarded = false → ∀ n ∈ names, n ∈ r.2.map (·.1)) := by
  intro names
  induction names with
  | nil =>
    intro st r h
    simp only [List.foldlM_nil, pure, Except.pure, Except.ok.injEq] at h
    subst h
    exact ⟨fun k hk => hk, fun _ n hn => by simp at hn⟩
  | cons n ns ih =>
    intro st r h
    obtain ⟨s, hs, hr⟩ := foldlM_cons_ok _ _ _ _ _ h
    obtain ⟨ih1, ih2⟩ := ih s r hr
    unfold popStep at hs
    cases hg : Py.dictGet? st.1 n with
    | none =>
      simp only [hg] at hs
      cases guarded with
      | true =>
        simp only [if_true, pure, Except.pure, Except.ok.injEq] at hs; subst hs
        exact ⟨ih1, fun hf => by simp at hf⟩
      | false => simp [throw, throwThe, MonadExceptOf.throw] at hs
    | some v =>
      simp only [hg, pure, Except.pure, Except.ok.injEq] at hs
      subst hs
      refine ⟨fun k hk => ih1 k (key_mem_dictSet _ _ _ _ (Or.inr hk)), fun hf m hm => ?_⟩
      simp only [List.mem_cons] at hm
      rcases hm with rfl | hm
      · exact ih1 m (key_mem_dictSet _ _ _ _ (Or.inl rfl))
      · exact ih2 hf m hm

/-! ## `fileGroups` -/

theorem fileGroups_ok (result : Dict) (ins outs cs : List String) (g : Groups)
    (h : fileGroups result ins outs cs = .ok g) :
    ∃ r1 r2 : Dict,
      popGroup false result ins = .ok (r1, g.inputs) ∧
      popGroup true r1 outs = .ok (r2, g.outputs) ∧
      popGroup true r2 cs = .ok (g.intermediates, g.constants) := by
  unfold fileGroups at h
  simp only [bind, Except.bind] at h
  cases h1 : popGroup false result ins with
  | error e => simp [h1] at h
  | ok p1 =>
    obtain ⟨r1, gi⟩ := p1
    simp only [h1] at h
    cases h2 : popGroup true r1 outs with
    | error e => simp [h2] at h
    | ok p2 =>
      obtain ⟨r2, go⟩ := p2
      simp only [h2] at h
      cases h3 : popGroup true r2 cs with
      | error e => simp [h3] at h
      | ok p3 =>
        obtain ⟨r3, gc⟩ := p3
        simp only [h3, pure, Except.pure, Except.ok.injEq] at h
        subst h
        exact ⟨r1, r2, rfl, h2, h3⟩

/-- **exactly one entry per tensor, in exactly one group**: the four groups returned by
    `add_new_signature_results` partition the result dictionary — every name of `result` occurs in
    exactly one of inputs / outputs / constants / intermediates, with its value, and nothing else occurs -/
theorem fileGroups_partition (result : List (String × Rat)) (hnd : (result.map (·.1)).Nodup)
    (ins outs cs : List String) (g : Groups) (h : fileGroups result ins outs cs = .ok g) :
    ((g.inputs ++ g.outputs ++ g.constants ++ g.intermediates).map (·.1)).Nodup ∧
    ∀ e : String × Rat, e ∈ g.inputs ++ g.outputs ++ g.constants ++ g.intermediates ↔ e ∈ result := by
  obtain ⟨r1, r2, h1, h2, h3⟩ := fileGroups_ok result ins outs cs g h
  have p1 : List.Perm (r1 ++ g.inputs) result := popGroup_perm false result hnd ins _ h1
  have hnd1 : (r1.map (·.1)).Nodup := by
    have := (p1.map (·.1)).nodup_iff.2 hnd
    rw [List.map_append] at this
    exact (List.nodup_append.1 this).1
  have p2 : List.Perm (r2 ++ g.outputs) r1 := popGroup_perm true r1 hnd1 outs _ h2
  have hnd2 : (r2.map (·.1)).Nodup := by
    have := (p2.map (·.1)).nodup_iff.2 hnd1
    rw [List.map_append] at this
    exact (List.nodup_append.1 this).1
  have p3 : List.Perm (g.intermediates ++ g.constants) r2 := popGroup_perm true r2 hnd2 cs _ h3
  have hp : List.Perm (g.inputs ++ g.outputs ++ g.constants ++ g.intermediates) result := by
    have q3 : List.Perm (g.constants ++ g.intermediates) r2 := List.perm_append_comm.trans p3
    have q2 : List.Perm (g.outputs ++ (g.constants ++ g.intermediates)) r1 :=
      ((List.Perm.append_left g.outputs q3).trans List.perm_append_comm).trans p2
    have q1 : List.Perm (g.inputs ++ (g.outputs ++ (g.constants ++ g.intermediates))) result :=
      ((List.Perm.append_left g.inputs q2).trans List.perm_append_comm).trans p1
    simpa [List.append_assoc] using q1
  exact ⟨(hp.map (·.1)).nodup_iff.2 hnd, fun e => hp.mem_iff⟩

/-- inputs are filed under inputs (and an unknown input name is an error, never a silent skip) -/
theorem inputs_filed (result : List (String × Rat)) (hnd : (result.map (·.1)).Nodup)
    (ins outs cs : List String) (g : Groups) (h : fileGroups result ins outs cs = .ok g) :
    ∀ n ∈ ins, ∃ v, (n, v) ∈ g.inputs := by
  have _ := hnd  -- not needed: a successful unguarded pop files its name whatever the keys are
  obtain ⟨r1, r2, h1, _, _⟩ := fileGroups_ok result ins outs cs g h
  rw [popGroup_eq] at h1
  have hk := (popFold_keys false ins (result, []) (r1, g.inputs) h1).2 rfl
  intro n hn
  have := hk n hn
  simp only [List.mem_map] at this
  obtain ⟨e, he, hen⟩ := this
  obtain ⟨k, v⟩ := e
  simp only at hen
  subst hen
  exact ⟨v, he⟩

end ValidateProofs
