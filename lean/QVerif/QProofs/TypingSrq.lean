import QProofs.MatParams
import QProofs.PipeMat
import QProofs.LocalityQsv
import QProofs.SharingData
/-!
# C03 end to end, request stage: the requests of an operator under a static-range config

`wrapper_srq`: under a static-range config every request made by `wrapper` is `srqReq` (ADD_QUANTIZE /
QUANTIZE_TENSOR for an operand, ADD_DEQUANTIZE for a result) with a uniform parameter object whose bit
width is that of the tensor config in force (`tcfgOf`: the activation config, or the weight config for a
constant operand of a weight-only / dynamic-range capable operator).
`materializeOp_minmax_cases`: the dispatch of the min/max algorithm as `standardOp` with given slots that
are all non-regular, followed by nothing, `biasFor`, or the fixed-range post-processing.
-/
open Graph Mat Cfg Pipe MatParams Locality PipeNF

namespace TypingSrq

theorem refParams_bits (bits : Nat) (sym : Bool) (qdim : Option Nat) (mn mx : Arith.FArr) (qp : Arith.QParams)
    (h : refParams bits sym qdim mn mx = .ok qp) : qp.bits = bits := by
  unfold refParams at h
  split at h
  · cases h; rfl
  · cases h

/-- **a request made by `wrapper` under a static-range config** -/
theorem wrapper_srq (env : Env) (qs : Qsvs) (oi : OpInfo) (t : Tensor) (b : Bool) (g : Option Param)
    (r : CReq) (hs : isSRQ oi.cfg = true) (tc : TCfg) (htc : tcfgOf env oi t = some tc)
    (hg : g = none ∨ ∃ qp d, g = some (.uniform qp d) ∧ qp.bits = tc.bits.toNat)
    (h : wrapper env qs oi t b g = .ok r) :
    ∃ qp d, r = srqReq t.name oi.opId b (constData env t).isSome (some (.uniform qp d)) ∧
      qp.bits = tc.bits.toNat := by
  rcases hg with rfl | ⟨qp, d, rfl, hb⟩
  · rcases (wrapper_none_ok_iff env qs oi t b r).1 h with ⟨h1, -⟩ | ⟨tc', mn, mx, qdim, qp, dat, h0, -, -, h2, -, h4⟩
    · rw [htc] at h1; cases h1
    · rw [htc] at h0; cases h0
      rw [mkReq_srq _ _ _ _ _ hs] at h4
      cases h4
      exact ⟨qp, dat, rfl, refParams_bits _ _ _ _ _ _ h2⟩
  · rw [wrapper_given_eq] at h
    cases d with
    | some v =>
      simp only [] at h
      rw [mkReq_srq _ _ _ _ _ hs] at h
      cases h
      exact ⟨qp, _, rfl, hb⟩
    | none =>
      cases hd : constData env t with
      | none =>
        rw [hd] at h
        simp only [] at h
        rw [mkReq_srq _ _ _ _ _ hs] at h
        cases h
        exact ⟨qp, _, rfl, hb⟩
      | some dd =>
        rw [hd] at h
        simp only [] at h
        cases hq : Arith.uniformQuantize ⟨dd, .f32⟩ qp with
        | error e => rw [hq] at h; cases h
        | ok q =>
          rw [hq] at h
          simp only [] at h
          rw [mkReq_srq _ _ _ _ _ hs] at h
          cases h
          exact ⟨qp, _, rfl, hb⟩

theorem tcfgOf_noWo (env : Env) (oi : OpInfo) (t : Tensor)
    (h : Tables.woOps.contains oi.opName = false ∧ Tables.drqOps.contains oi.opName = false) :
    tcfgOf env oi t = oi.cfg.act := by
  unfold tcfgOf
  rw [h.1, h.2]
  simp

/-- the request of one non-`-1` slot under a static-range config: `noQuantReq` iff the tensor is not
    float32 or the position is one of the given ones, `srqReq` with the bit width of the tensor config in
    force otherwise -/
def SrqSlot (env : Env) (sg : Subgraph) (oi : OpInfo) (inbound : Bool) (given : List Nat)
    (p : Int × Nat) (r : CReq) : Prop :=
  ∃ tn, tensorAt sg p.1 = .ok tn ∧
    (((tn.dtype ≠ Tables.ttFloat32 ∨ p.2 ∈ given) ∧ r = noQuantReq tn.name oi.opId inbound) ∨
     (tn.dtype = Tables.ttFloat32 ∧ p.2 ∉ given ∧
      (∃ prm, r = srqReq tn.name oi.opId inbound (constData env tn).isSome prm) ∧
      ∀ tc, tcfgOf env oi tn = some tc →
        ∃ qp d, r = srqReq tn.name oi.opId inbound (constData env tn).isSome (some (.uniform qp d)) ∧
          qp.bits = tc.bits.toNat))

/-- **`standardOp` under a static-range config**: the requests in slot order -/
theorem standardOp_srq (env : Env) (sg : Subgraph) (qs : Qsvs) (oi : OpInfo) (con : Constraint)
    (gIn gOut : List Nat) (rs0 : List CReq) (q0 : Qsvs) (hs : isSRQ oi.cfg = true)
    (hcon : con ≠ .none → Tables.woOps.contains oi.opName = false ∧ Tables.drqOps.contains oi.opName = false)
    (h : standardOp env sg qs oi con gIn gOut = .ok (rs0, q0)) :
    ∃ rin rout, rs0 = rin ++ rout ∧
      Pointwise (SrqSlot env sg oi true gIn) (cslots oi.op.inputs) rin ∧
      Pointwise (SrqSlot env sg oi false gOut) (cslots oi.op.outputs) rout := by
  obtain ⟨inIgn, outIgn, rin, rout, g, gO, hI, hO, hrs, hin, hout, hg, hgO⟩ :=
    standardOp_shape env sg qs oi con gIn gOut rs0 q0 h
  -- the given parameter objects have the activation bit width
  have hgb : g = none ∨ ((Tables.woOps.contains oi.opName = false ∧ Tables.drqOps.contains oi.opName = false) ∧
      ∃ a qp d, oi.cfg.act = some a ∧ g = some (.uniform qp d) ∧ qp.bits = a.bits.toNat) := by
    rcases hg with rfl | ⟨hc, p, -, t, orq, -, -, hw, rfl⟩
    · exact .inl rfl
    · have hnw := hcon (by rw [hc]; decide)
      have hact := tcfgOf_noWo env oi t hnw
      cases ha : oi.cfg.act with
      | none =>
        unfold isSRQ at hs
        rw [ha] at hs
        simp at hs
      | some a =>
        rw [ha] at hact
        obtain ⟨qp, d, rfl, hb⟩ := wrapper_srq env qs oi t false none orq hs a hact (.inl rfl) hw
        exact .inr ⟨hnw, a, qp, d, rfl, rfl, hb⟩
  have hgOb : gO = none ∨ ((Tables.woOps.contains oi.opName = false ∧ Tables.drqOps.contains oi.opName = false) ∧
      ∃ a qp d, oi.cfg.act = some a ∧ gO = some (.uniform qp d) ∧ qp.bits = a.bits.toNat) := by
    rcases hgO with rfl | ⟨hc, p, -, t, ir, p0, -, -, hw, hp0, rfl⟩
    · exact .inl rfl
    · have hnw := hcon (by rw [hc]; decide)
      have hact := tcfgOf_noWo env oi t hnw
      cases ha : oi.cfg.act with
      | none =>
        unfold isSRQ at hs
        rw [ha] at hs
        simp at hs
      | some a =>
        rw [ha] at hact
        obtain ⟨qp, d, rfl, hb⟩ := wrapper_srq env qs oi t true none ir hs a hact (.inl rfl) hw
        have : p0 = some (.uniform qp d) := by
          have : reqParam0 (srqReq t.name oi.opId true (constData env t).isSome (some (.uniform qp d))) =
              .ok (some (.uniform qp d)) := rfl
          rw [this] at hp0
          cases hp0
          rfl
        subst this
        cases d with
        | none => exact .inr ⟨hnw, a, qp, none, rfl, rfl, hb⟩
        | some v => exact .inr ⟨hnw, a, qp, none, rfl, rfl, hb⟩
  have key : ∀ (b : Bool) (slots : List Int) (given ign : List Nat) (g : Option Param),
      IgnSpec sg slots given ign →
      (g = none ∨ ((Tables.woOps.contains oi.opName = false ∧ Tables.drqOps.contains oi.opName = false) ∧
        ∃ a qp d, oi.cfg.act = some a ∧ g = some (.uniform qp d) ∧ qp.bits = a.bits.toNat)) →
      ∀ p ∈ cslots slots, ∀ r, SlotReq env sg qs oi b ign g p r → SrqSlot env sg oi b given p r := by
    intro b slots given ign g hspec hgb p hp r hsr
    obtain ⟨t, ht, hr⟩ := hsr
    have hpm := (mem_cslots slots p).1 hp
    have hiff := hspec p.2 p.1 t hpm.1 ht
    refine ⟨t, ht, ?_⟩
    split at hr
    · rename_i hc
      exact .inl ⟨hiff.1 hc, hr⟩
    · rename_i hc
      have hf : t.dtype = Tables.ttFloat32 := by
        by_contra hne
        exact hc (hiff.2 (.inl hne))
      have hng : p.2 ∉ given := fun hm => hc (hiff.2 (.inr hm))
      refine .inr ⟨hf, hng, ?_, ?_⟩
      · obtain ⟨prm, hprm⟩ := SharingData.wrapper_mkReq env qs oi t b g r hr
        rw [mkReq_srq _ _ _ _ _ hs] at hprm
        cases hprm
        exact ⟨prm, rfl⟩
      intro tc htc
      refine wrapper_srq env qs oi t b g r hs tc htc ?_ hr
      rcases hgb with rfl | ⟨hnw, a, qp, d, ha, rfl, hb⟩
      · exact .inl rfl
      · have := tcfgOf_noWo env oi t hnw
        rw [htc, ha] at this
        cases this
        exact .inr ⟨qp, d, rfl, hb⟩
  refine ⟨rin, rout, hrs, ⟨hin.1, ?_⟩, ⟨hout.1, ?_⟩⟩
  · intro j p r hp hr
    exact key true _ _ _ _ hI hgb p (List.mem_of_getElem? hp) r (hin.2 j p r hp hr)
  · intro j p r hp hr
    exact key false _ _ _ _ hO hgOb p (List.mem_of_getElem? hp) r (hout.2 j p r hp hr)

/-! ## the dispatch of the min/max algorithm -/

theorem minmax_table4 : ∀ e ∈ minmaxOps,
    (e.2 = "materialize_reshape" ∨ e.2 = "materialize_transpose" ∨ e.2 = "materialize_average_pool_2d" ∨
      e.2 = "materialize_strided_slice" ∨ e.2 = "materialize_split" ∨ e.2 = "materialize_concatenation") →
    Tables.woOps.contains e.1 = false ∧ Tables.drqOps.contains e.1 = false := by
  decide

theorem minmax_table6 : ∀ e ∈ minmaxOps,
    (e.2 = "materialize_fc_conv" → dataSlot e.1 = 0) ∧
    (e.2 = "materialize_conv2d_transpose" → dataSlot e.1 = 2) := by
  decide

theorem role_of_index (k : String) (g : List Nat) (h : indexSlots k = g) : ∀ i ∈ g, slotRole k i ≠ 0 := by
  intro i hi
  unfold slotRole
  rw [h, if_pos hi]
  decide

theorem role_of_bias (k : String) (b : Nat) (h : biasSlot k = some b) : slotRole k b ≠ 0 := by
  unfold slotRole
  by_cases hi : b ∈ indexSlots k
  · rw [if_pos hi]; decide
  · rw [if_neg hi, if_pos h]; decide

/-- the materialize function is not one of the two that process a bias -/
def NotConv (fn : String) : Prop := fn ≠ "materialize_fc_conv" ∧ fn ≠ "materialize_conv2d_transpose"

theorem notConv_of_eq (fn x : String) (h : fn = x) (h1 : x ≠ "materialize_fc_conv")
    (h2 : x ≠ "materialize_conv2d_transpose") : NotConv fn := by
  subst h; exact ⟨h1, h2⟩

/-- **the min/max algorithm** is `standardOp` on given slots that are all non-regular, followed by
    nothing, by `biasFor` (convolution-like operators) or by the fixed-range post-processing -/
theorem materializeOp_minmax_cases (env : Env) (sg : Subgraph) (qs : Qsvs) (oi : OpInfo) (fn : String)
    (rs : List CReq) (qs' : Qsvs) (hfn : (oi.opName, fn) ∈ minmaxOps)
    (h : materializeOp env sg qs oi Tables.algMinMax fn = .ok (rs, qs')) :
    ∃ con gIn rs0 q0, standardOp env sg qs oi con gIn [] = .ok (rs0, q0) ∧
      (∀ i ∈ gIn, slotRole oi.opName i ≠ 0) ∧
      (con ≠ .none → Tables.woOps.contains oi.opName = false ∧ Tables.drqOps.contains oi.opName = false) ∧
      ((rs = rs0 ∧ NotConv fn) ∨
       (∃ iIn iB, biasSlot oi.opName = some iB ∧ iB ∈ gIn ∧ iIn = dataSlot oi.opName ∧ iIn ∉ gIn ∧ iIn < iB ∧
          biasFor env sg oi rs0 iIn 1 iB = .ok rs ∧ ¬ NotConv fn) ∨
       (∃ b, oi.op.outputs.length = 1 ∧ fixPost oi b (rs0, q0) = .ok (rs, qs') ∧ NotConv fn)) := by
  have T1 := minmax_table1 _ hfn
  have T2 := minmax_table2 _ hfn
  have T3 := minmax_table3 _ hfn
  have T4 := minmax_table4 _ hfn
  have T6 := minmax_table6 _ hfn
  simp only at T1 T2 T3 T4 T6
  rw [materializeOp] at h
  have hF : (Tables.algMinMax == Tables.algFloatCasting) = false := by decide
  have hM : (Tables.algMinMax == Tables.algMinMax) = true := by decide
  rw [hF, hM] at h
  simp only [Bool.false_eq_true, if_false, if_true] at h
  have plain : ∀ (con : Constraint) (gIn : List Nat), NotConv fn → (∀ i ∈ gIn, slotRole oi.opName i ≠ 0) →
      (con ≠ .none → Tables.woOps.contains oi.opName = false ∧ Tables.drqOps.contains oi.opName = false) →
      standardOp env sg qs oi con gIn [] = .ok (rs, qs') →
      ∃ con gIn rs0 q0, standardOp env sg qs oi con gIn [] = .ok (rs0, q0) ∧
        (∀ i ∈ gIn, slotRole oi.opName i ≠ 0) ∧
        (con ≠ .none → Tables.woOps.contains oi.opName = false ∧ Tables.drqOps.contains oi.opName = false) ∧
        ((rs = rs0 ∧ NotConv fn) ∨
         (∃ iIn iB, biasSlot oi.opName = some iB ∧ iB ∈ gIn ∧ iIn = dataSlot oi.opName ∧ iIn ∉ gIn ∧ iIn < iB ∧
          biasFor env sg oi rs0 iIn 1 iB = .ok rs ∧ ¬ NotConv fn) ∨
         (∃ b, oi.op.outputs.length = 1 ∧ fixPost oi b (rs0, q0) = .ok (rs, qs') ∧ NotConv fn)) :=
    fun con gIn hnc h1 h2 hs => ⟨con, gIn, rs, qs', hs, h1, h2, .inl ⟨rfl, hnc⟩⟩
  have hnone : (Constraint.none ≠ Constraint.none → Tables.woOps.contains oi.opName = false ∧
      Tables.drqOps.contains oi.opName = false) := fun hne => absurd rfl hne
  by_cases c1 : (fn == "materialize_input" || fn == "materialize_output" || fn == "materialize_add" ||
      fn == "materialize_sub" || fn == "materialize_mul" || fn == "materialize_batch_matmul" ||
      fn == "materialize_gelu" || fn == "materialize_rsqrt") = true
  · rw [if_pos c1] at h
    have hnc : NotConv fn := by
      simp only [Bool.or_eq_true, beq_iff_eq] at c1
      rcases c1 with ((((((c | c) | c) | c) | c) | c) | c) | c <;>
        exact notConv_of_eq _ _ c (by decide) (by decide)
    exact plain _ _ hnc (fun i hi => (by cases hi)) hnone h
  rw [if_neg c1] at h
  by_cases c2 : (fn == "materialize_embedding_lookup") = true
  · rw [if_pos c2] at h
    exact plain _ _ (notConv_of_eq _ _ (eq_of_beq c2) (by decide) (by decide)) (role_of_index _ _ (T1.1 (eq_of_beq c2))) hnone h
  rw [if_neg c2] at h
  by_cases c3 : (fn == "materialize_mean") = true
  · rw [if_pos c3] at h
    exact plain _ _ (notConv_of_eq _ _ (eq_of_beq c3) (by decide) (by decide)) (role_of_index _ _ (T1.2.1 (eq_of_beq c3))) hnone h
  rw [if_neg c3] at h
  by_cases c4 : (fn == "materialize_reshape" || fn == "materialize_transpose") = true
  · rw [if_pos c4] at h
    simp only [Bool.or_eq_true, beq_iff_eq] at c4
    have hnc : NotConv fn := by
      rcases c4 with c | c <;> exact notConv_of_eq _ _ c (by decide) (by decide)
    exact plain _ _ hnc (role_of_index _ _ (T1.2.2 c4))
      (fun _ => T4 (by rcases c4 with c | c <;> simp [c])) h
  rw [if_neg c4] at h
  by_cases c5 : (fn == "materialize_average_pool_2d") = true
  · rw [if_pos c5] at h
    exact plain _ _ (notConv_of_eq _ _ (eq_of_beq c5) (by decide) (by decide)) (role_of_index _ _ (T2.1 (eq_of_beq c5))) (fun _ => T4 (by simp [eq_of_beq c5])) h
  rw [if_neg c5] at h
  by_cases c6 : (fn == "materialize_strided_slice") = true
  · rw [if_pos c6] at h
    exact plain _ _ (notConv_of_eq _ _ (eq_of_beq c6) (by decide) (by decide)) (role_of_index _ _ (T2.2.1 (eq_of_beq c6))) (fun _ => T4 (by simp [eq_of_beq c6])) h
  rw [if_neg c6] at h
  by_cases c7 : (fn == "materialize_split") = true
  · rw [if_pos c7] at h
    exact plain _ _ (notConv_of_eq _ _ (eq_of_beq c7) (by decide) (by decide)) (role_of_index _ _ (T2.2.2 (eq_of_beq c7))) (fun _ => T4 (by simp [eq_of_beq c7])) h
  rw [if_neg c7] at h
  by_cases c8 : (fn == "materialize_concatenation") = true
  · rw [if_pos c8] at h
    exact plain _ _ (notConv_of_eq _ _ (eq_of_beq c8) (by decide) (by decide)) (fun i hi => (by cases hi)) (fun _ => T4 (by simp [eq_of_beq c8])) h
  rw [if_neg c8] at h
  by_cases c9 : (fn == "materialize_fc_conv") = true
  · rw [if_pos c9] at h
    obtain ⟨hidx, hbs⟩ := T3.1 (eq_of_beq c9)
    obtain ⟨⟨r, q⟩, hs, h⟩ := GraphInv.bind_ok _ _ _ h
    obtain ⟨r', hb, h⟩ := GraphInv.bind_ok _ _ _ h
    cases h
    refine ⟨.none, [2], r, _, hs, ?_, hnone, .inr (.inl ⟨0, 2, hbs, by simp, (T6.1 (eq_of_beq c9)).symm, by simp, by omega, hb, fun hn => hn.1 (eq_of_beq c9)⟩)⟩
    intro i hi
    rw [List.mem_singleton.1 hi]
    exact role_of_bias _ _ hbs
  rw [if_neg c9] at h
  by_cases c10 : (fn == "materialize_conv2d_transpose") = true
  · rw [if_pos c10] at h
    obtain ⟨hidx, hbs⟩ := T3.2 (eq_of_beq c10)
    obtain ⟨⟨r, q⟩, hs, h⟩ := GraphInv.bind_ok _ _ _ h
    simp only [] at h
    have hb : biasFor env sg oi r 2 1 3 = .ok rs ∧ q = qs' := by
      split at h
      · obtain ⟨_, h', _⟩ := GraphInv.bind_ok _ _ _ h
        cases h'
      · obtain ⟨r', hb, h⟩ := GraphInv.bind_ok _ _ _ h
        cases h
        exact ⟨hb, rfl⟩
    obtain ⟨hb, rfl⟩ := hb
    refine ⟨.none, [0, 3], r, _, hs, ?_, hnone, .inr (.inl ⟨2, 3, hbs, by simp, (T6.2 (eq_of_beq c10)).symm, by simp, by omega, hb, fun hn => hn.2 (eq_of_beq c10)⟩)⟩
    intro i hi
    simp only [List.mem_cons, List.not_mem_nil, or_false] at hi
    rcases hi with rfl | rfl
    · exact role_of_index _ _ hidx 0 (by simp)
    · exact role_of_bias _ _ hbs
  rw [if_neg c10] at h
  have fixed : ∀ b, fixedRangeOp env sg qs oi b = .ok (rs, qs') →
      ∃ con gIn rs0 q0, standardOp env sg qs oi con gIn [] = .ok (rs0, q0) ∧
        (∀ i ∈ gIn, slotRole oi.opName i ≠ 0) ∧
        (con ≠ .none → Tables.woOps.contains oi.opName = false ∧ Tables.drqOps.contains oi.opName = false) ∧
        ((rs = rs0 ∧ NotConv fn) ∨
         (∃ iIn iB, biasSlot oi.opName = some iB ∧ iB ∈ gIn ∧ iIn = dataSlot oi.opName ∧ iIn ∉ gIn ∧ iIn < iB ∧
          biasFor env sg oi rs0 iIn 1 iB = .ok rs ∧ ¬ NotConv fn) ∨
         (∃ b, oi.op.outputs.length = 1 ∧ fixPost oi b (rs0, q0) = .ok (rs, qs') ∧ NotConv fn)) := by
    intro b hb
    rw [fixedRangeOp_eq] at hb
    by_cases hc : oi.op.outputs.length ≠ 1
    · rw [if_pos hc] at hb; cases hb
    · rw [if_neg hc] at hb
      obtain ⟨⟨reqs, q0⟩, hstd, hb⟩ := GraphInv.bind_ok _ _ _ hb
      exact ⟨.none, [], reqs, q0, hstd, fun i hi => (by cases hi), hnone,
        .inr (.inr ⟨b, by omega, hb, fun e => c9 (by rw [e]; rfl), fun e => c10 (by rw [e]; rfl)⟩)⟩
  by_cases c11 : (fn == "materialize_softmax_and_logistic") = true
  · rw [if_pos c11] at h
    exact fixed _ h
  rw [if_neg c11] at h
  by_cases c12 : (fn == "materialize_tanh") = true
  · rw [if_pos c12] at h
    exact fixed _ h
  rw [if_neg c12] at h
  cases h

/-! ## the requests of one operator under a static-range config -/

theorem fixedParams_bits (b : Bool) (bits : Nat) (fp : Arith.QParams) (h : fixedParams b bits = some fp) :
    fp.bits = bits := by
  unfold fixedParams at h
  simp only [] at h
  repeat' split at h
  all_goals cases h
  all_goals rfl

theorem mem_dropLast_of_ne {α} (l : List α) (last r : α) (hl : l.getLast? = some last) (hr : r ∈ l)
    (hne : r ≠ last) : r ∈ l.dropLast := by
  have := List.dropLast_append_getLast? last hl
  rw [← this] at hr
  rcases List.mem_append.1 hr with h | h
  · exact h
  · exact absurd (List.mem_singleton.1 h) hne

/-- what `fixPost` returns: the list itself, or the list with the parameter object of the producer side
    of its last request replaced by the fixed one -/
theorem fixPost_cases (oi : OpInfo) (b : Bool) (rs0 rs : List CReq) (q0 qs' : Qsvs)
    (h : fixPost oi b (rs0, q0) = .ok (rs, qs')) :
    rs = rs0 ∨ ∃ last pr a fp, rs0.getLast? = some last ∧ last.producer = some pr ∧ oi.cfg.act = some a ∧
      fp.bits = a.bits.toNat ∧
      rs = rs0.dropLast ++ [{ last with producer := some { pr with param := some (.uniform fp none) } }] := by
  unfold fixPost at h
  simp only [] at h
  split at h
  · rename_i last a hlast hact
    split at h
    · simp only [pure, Except.pure, Except.ok.injEq, Prod.mk.injEq] at h
      exact .inl h.1.symm
    · rename_i pr hpr
      split at h
      · cases h
      · rename_i fp hfp
        obtain ⟨mm, hmm, h⟩ := GraphInv.bind_ok _ _ _ h
        split at h
        · cases h
        · simp only [pure, Except.pure, Except.ok.injEq, Prod.mk.injEq] at h
          exact .inr ⟨last, pr, a, fp, hlast, hpr, hact, fixedParams_bits _ _ _ hfp, h.1.symm⟩
  · simp only [pure, Except.pure, Except.ok.injEq, Prod.mk.injEq] at h
    exact .inl h.1.symm

theorem role_zero (k : String) (j : Nat) (h : slotRole k j = 0) : j ∉ indexSlots k ∧ biasSlot k ≠ some j := by
  unfold slotRole at h
  by_cases h1 : j ∈ indexSlots k
  · rw [if_pos h1] at h; cases h
  · rw [if_neg h1] at h
    by_cases h2 : biasSlot k = some j
    · rw [if_pos h2] at h; cases h
    · exact ⟨h1, h2⟩

/-- **the requests of one operator under a static-range config of the min/max algorithm** -/
theorem materializeOp_srq (env : Env) (sg : Subgraph) (qs : Qsvs) (oi : OpInfo) (fn : String)
    (rs : List CReq) (qs' : Qsvs) (hfn : (oi.opName, fn) ∈ minmaxOps) (hs : isSRQ oi.cfg = true)
    (hmand : ∀ b, biasSlot oi.opName = some b → ∀ i < b, oi.op.inputs[i]? ≠ some (-1))
    (h : materializeOp env sg qs oi Tables.algMinMax fn = .ok (rs, qs')) :
    -- float32 operands in regular slots
    (∀ (j : Nat) (t : Int) (tn : Tensor), oi.op.inputs[j]? = some t → t ≠ -1 → slotRole oi.opName j = 0 →
      tensorAt sg t = .ok tn → tn.dtype = Tables.ttFloat32 → ∀ tc, tcfgOf env oi tn = some tc →
      ∃ qp d, srqReq tn.name oi.opId true (constData env tn).isSome (some (.uniform qp d)) ∈ rs ∧
        qp.bits = tc.bits.toNat) ∧
    -- operands that are not float32 (outside the bias slot)
    (∀ (j : Nat) (t : Int) (tn : Tensor), oi.op.inputs[j]? = some t → t ≠ -1 →
      tensorAt sg t = .ok tn → tn.dtype ≠ Tables.ttFloat32 → biasSlot oi.opName ≠ some j →
      noQuantReq tn.name oi.opId true ∈ rs) ∧
    -- float32 results
    (∀ (j : Nat) (t : Int) (tn : Tensor) (a : TCfg), oi.op.outputs[j]? = some t → t ≠ -1 →
      tensorAt sg t = .ok tn → tn.dtype = Tables.ttFloat32 → oi.cfg.act = some a → tcfgOf env oi tn = some a →
      ∃ qp d, srqReq tn.name oi.opId false (constData env tn).isSome (some (.uniform qp d)) ∈ rs ∧
        qp.bits = a.bits.toNat) := by
  obtain ⟨con, gIn, rs0, q0, hstd, hrole, hcon, hpost⟩ := materializeOp_minmax_cases env sg qs oi fn rs qs' hfn h
  obtain ⟨rin, rout, hrs0, hin, hout⟩ := standardOp_srq env sg qs oi con gIn [] rs0 q0 hs hcon hstd
  -- the request of an operand slot, with its position
  have hslotIn : ∀ (j : Nat) (t : Int) (tn : Tensor), oi.op.inputs[j]? = some t → t ≠ -1 → tensorAt sg t = .ok tn →
      ∃ (idx : Nat) (r : CReq), (cslots oi.op.inputs)[idx]? = some (t, j) ∧ rs0[idx]? = some r ∧
        (((tn.dtype ≠ Tables.ttFloat32 ∨ j ∈ gIn) ∧ r = noQuantReq tn.name oi.opId true) ∨
         (tn.dtype = Tables.ttFloat32 ∧ j ∉ gIn ∧
          (∃ prm, r = srqReq tn.name oi.opId true (constData env tn).isSome prm) ∧
          ∀ tc, tcfgOf env oi tn = some tc →
            ∃ qp d, r = srqReq tn.name oi.opId true (constData env tn).isSome (some (.uniform qp d)) ∧
              qp.bits = tc.bits.toNat)) := by
    intro j t tn hj hne htn
    have hm : (t, j) ∈ cslots oi.op.inputs := (mem_cslots _ _).2 ⟨hj, hne⟩
    obtain ⟨idx, hidx⟩ := List.mem_iff_getElem?.1 hm
    have hlt : idx < rin.length := by rw [← hin.1]; exact (List.getElem?_eq_some_iff.1 hidx).1
    have hr : rin[idx]? = some rin[idx] := List.getElem?_eq_getElem hlt
    obtain ⟨tn', htn', hcase⟩ := hin.2 idx _ _ hidx hr
    simp only at htn' hcase
    rw [htn] at htn'
    cases htn'
    exact ⟨idx, _, hidx, by rw [hrs0, List.getElem?_append_left hlt]; exact hr, hcase⟩
  -- an operand request survives the post-processing, unless it sits at the bias position
  have hkeepIn : ∀ (idx : Nat) (r : CReq), rs0[idx]? = some r → r.producer = none →
      (∀ iB bslot, biasSlot oi.opName = some iB → oi.op.inputs[iB]? = some bslot → bslot ≠ -1 → idx ≠ iB) →
      r ∈ rs := by
    intro idx r hr hnp hnb
    rcases hpost with ⟨rfl, -⟩ | ⟨iIn, iB, hbs, hbg, -, -, -, hb, -⟩ | ⟨b, -, hb, -⟩
    · exact List.mem_of_getElem? hr
    · rcases biasFor_unfold env sg oi rs0 rs iIn 1 iB hb with rfl | ⟨bslot, _, _, rb, hbsl, hbne, _, _, _, _, _, rfl⟩
      · exact List.mem_of_getElem? hr
      · have := hnb iB bslot hbs hbsl hbne
        exact List.mem_of_getElem? (by rw [List.getElem?_set_ne (fun e => this e.symm)]; exact hr)
    · rcases fixPost_cases oi b rs0 rs q0 qs' hb with rfl | ⟨last, pr, a, fp, hlast, hpr, -, -, rfl⟩
      · exact List.mem_of_getElem? hr
      · refine List.mem_append_left _ (mem_dropLast_of_ne rs0 last r hlast (List.mem_of_getElem? hr) ?_)
        intro e
        rw [e, hpr] at hnp
        cases hnp
  -- a slot that is not the bias slot does not sit at the bias position
  have hnotBias : ∀ (j : Nat) (t : Int) (idx : Nat), (cslots oi.op.inputs)[idx]? = some (t, j) →
      biasSlot oi.opName ≠ some j →
      ∀ iB bslot, biasSlot oi.opName = some iB → oi.op.inputs[iB]? = some bslot → bslot ≠ -1 → idx ≠ iB := by
    intro j t idx hidx hnj iB bslot hbs hget hne he
    subst he
    have := cslots_get oi.op.inputs idx bslot (hmand idx hbs) hget hne
    rw [hidx] at this
    cases this
    exact hnj hbs
  refine ⟨?_, ?_, ?_⟩
  · intro j t tn hj hne hrj htn hf tc htc
    obtain ⟨hni, hnb⟩ := role_zero _ _ hrj
    obtain ⟨idx, r, hidx, hr, hcase⟩ := hslotIn j t tn hj hne htn
    rcases hcase with ⟨hbad, -⟩ | ⟨-, -, -, hgood⟩
    · rcases hbad with hbad | hbad
      · exact absurd hf hbad
      · exact absurd hrj (hrole j hbad)
    · obtain ⟨qp, d, rfl, hb⟩ := hgood tc htc
      exact ⟨qp, d, hkeepIn idx _ hr (by unfold srqReq; rfl) (hnotBias j t idx hidx hnb), hb⟩
  · intro j t tn hj hne htn hnf hnb
    obtain ⟨idx, r, hidx, hr, hcase⟩ := hslotIn j t tn hj hne htn
    rcases hcase with ⟨-, rfl⟩ | ⟨hf, -⟩
    · exact hkeepIn idx _ hr rfl (hnotBias j t idx hidx hnb)
    · exact absurd hf hnf
  · intro j t tn a hj hne htn hf ha htc
    have hm : (t, j) ∈ cslots oi.op.outputs := (mem_cslots _ _).2 ⟨hj, hne⟩
    obtain ⟨idx, hidx⟩ := List.mem_iff_getElem?.1 hm
    have hlt : idx < rout.length := by rw [← hout.1]; exact (List.getElem?_eq_some_iff.1 hidx).1
    have hr : rout[idx]? = some rout[idx] := List.getElem?_eq_getElem hlt
    obtain ⟨tn', htn', hcase⟩ := hout.2 idx _ _ hidx hr
    simp only at htn' hcase
    rw [htn] at htn'
    cases htn'
    have hmem0 : rout[idx] ∈ rs0 := by rw [hrs0]; exact List.mem_append_right _ (List.getElem_mem hlt)
    rcases hcase with ⟨hbad, -⟩ | ⟨-, -, -, hgood⟩
    · rcases hbad with hbad | hbad
      · exact absurd hf hbad
      · cases hbad
    · obtain ⟨qp, d, hreq, hb⟩ := hgood a htc
      rw [hreq] at hmem0
      -- the post-processing keeps a result request, up to the parameter object of the last one
      rcases hpost with ⟨rfl, -⟩ | ⟨iIn, iB, hbs, hbg, -, -, -, hbf, -⟩ | ⟨b, -, hbf, -⟩
      · exact ⟨qp, d, hmem0, hb⟩
      · rcases biasFor_unfold env sg oi rs0 rs iIn 1 iB hbf with rfl | ⟨bslot, bt, bp, rb, hbsl, hbne, _, _, _, hmk, hlt', rfl⟩
        · exact ⟨qp, d, hmem0, hb⟩
        · -- the bias position holds an operand request
          obtain ⟨i0, hi0⟩ := List.mem_iff_getElem?.1 hmem0
          refine ⟨qp, d, List.mem_of_getElem? (show (rs0.set iB rb)[i0]? = _ from ?_), hb⟩
          rw [List.getElem?_set_ne ?_]
          · exact hi0
          · intro e
            subst e
            -- position `iB` of `rs0` is in `rin`
            have hci := cslots_get oi.op.inputs iB bslot (hmand iB hbs) hbsl hbne
            have hlin : iB < rin.length := by
              rw [← hin.1]; exact (List.getElem?_eq_some_iff.1 hci).1
            rw [hrs0, List.getElem?_append_left hlin] at hi0
            obtain ⟨tb, -, hcb⟩ := hin.2 iB _ _ hci hi0
            rcases hcb with ⟨-, hcb⟩ | ⟨-, -, ⟨prm, hcb⟩, -⟩
            · unfold srqReq noQuantReq at hcb
              simp at hcb
            · unfold srqReq at hcb
              simp at hcb
      · rcases fixPost_cases oi b rs0 rs q0 qs' hbf with rfl | ⟨last, pr, a', fp, hlast, hpr, ha', hfb, rfl⟩
        · exact ⟨qp, d, hmem0, hb⟩
        · by_cases hel : srqReq tn.name oi.opId false (constData env tn).isSome (some (.uniform qp d)) = last
          · refine ⟨fp, none, List.mem_append_right _ (List.mem_singleton.2 ?_), ?_⟩
            · rw [← hel] at hpr ⊢
              unfold srqReq at hpr ⊢
              simp only [Bool.false_eq_true, if_false, Option.some.injEq] at hpr ⊢
              subst hpr
              rfl
            · rw [ha] at ha'; cases ha'; exact hfb
          · exact ⟨qp, d, List.mem_append_left _ (mem_dropLast_of_ne rs0 last _ hlast hmem0 hel), hb⟩

/-! ## the bias -/

theorem minmax_table7 : ∀ e ∈ minmaxOps, ∀ b, biasSlot e.1 = some b → e.1 ≠ "EMBEDDING_LOOKUP" →
    e.2 = "materialize_fc_conv" ∨ e.2 = "materialize_conv2d_transpose" := by
  decide

theorem minmax_table8 : ∀ e ∈ minmaxOps, e.1 = "EMBEDDING_LOOKUP" →
    e.2 ≠ "materialize_fc_conv" ∧ e.2 ≠ "materialize_conv2d_transpose" := by
  decide

theorem quantizeBias_bits (b : Arith.FArr) (qi qw qp : Arith.QParams) (q : Arith.IArr)
    (h : Arith.quantizeBias b qi qw = .ok (qp, q)) : qp.bits = if qi.bits = 16 then 64 else 32 := by
  unfold Arith.quantizeBias at h
  obtain ⟨prod, _, h⟩ := GraphInv.bind_ok _ _ _ h
  obtain ⟨q', _, h⟩ := GraphInv.bind_ok _ _ _ h
  simp only [pure, Except.pure, Except.ok.injEq, Prod.mk.injEq] at h
  rw [← h.1]

/-- **the bias request of a convolution-like operator under a static-range config**: QUANTIZE_TENSOR
    with a uniform parameter object of 32 bits (64 bits when the data operand's parameters have 16 bits) -/
theorem materializeOp_srq_bias (env : Env) (sg : Subgraph) (qs : Qsvs) (oi : OpInfo) (fn : String)
    (rs : List CReq) (qs' : Qsvs) (hfn : (oi.opName, fn) ∈ minmaxOps) (hs : isSRQ oi.cfg = true)
    (hmand : ∀ b, biasSlot oi.opName = some b → ∀ i < b, oi.op.inputs[i]? ≠ some (-1))
    (h : materializeOp env sg qs oi Tables.algMinMax fn = .ok (rs, qs'))
    (iB : Nat) (hbs : biasSlot oi.opName = some iB) (hnemb : oi.opName ≠ "EMBEDDING_LOOKUP")
    (bslot : Int) (hb : oi.op.inputs[iB]? = some bslot) (hne : bslot ≠ -1) :
    ∃ bt tin a_in qp q, tensorAt sg bslot = .ok bt ∧ (constData env bt).isSome = true ∧
      oi.op.inputs[dataSlot oi.opName]? = some a_in ∧ tensorAt sg a_in = .ok tin ∧
      srqReq bt.name oi.opId true true (some (.uniform qp (some q))) ∈ rs ∧
      ∀ tc, tcfgOf env oi tin = some tc → qp.bits = if tc.bits.toNat = 16 then 64 else 32 := by
  obtain ⟨con, gIn, rs0, q0, hstd, hrole, hcon, hpost⟩ := materializeOp_minmax_cases env sg qs oi fn rs qs' hfn h
  obtain ⟨rin, rout, hrs0, hin, hout⟩ := standardOp_srq env sg qs oi con gIn [] rs0 q0 hs hcon hstd
  have T7 := minmax_table7 _ hfn
  simp only at T7
  have hconv := T7 iB hbs hnemb
  rcases hpost with ⟨-, hnc⟩ | ⟨iIn, iB', hbs', hbg, hds, hng, hlt, hbf, -⟩ | ⟨b, hlen, hbf, hnc⟩
  · -- no bias processing: impossible for an operator that has a bias slot
    exfalso
    rcases hconv with c | c
    · exact hnc.1 c
    · exact hnc.2 c
  · rw [hbs] at hbs'
    cases hbs'
    obtain ⟨bt, bd, rq, rw', qi, di, qw, dw, qp, q, e1, e2, e3, e4, e5, e6, e7, e8, e9⟩ :=
      MatParams.biasFor_srq env sg oi rs0 rs iIn 1 iB bslot hs hb hne hbf
    -- the data operand
    have hpre := hmand iB hbs
    have hdata : ∃ a_in, oi.op.inputs[iIn]? = some a_in ∧ a_in ≠ -1 := by
      have hlen : iIn < oi.op.inputs.length := by
        have := (List.getElem?_eq_some_iff.1 hb).1
        omega
      refine ⟨oi.op.inputs[iIn], List.getElem?_eq_getElem hlen, ?_⟩
      intro e
      exact hpre iIn hlt (by rw [List.getElem?_eq_getElem hlen, e])
    obtain ⟨a_in, ha_in, hane⟩ := hdata
    have hci := cslots_get oi.op.inputs iIn a_in (fun i hi => hpre i (by omega)) ha_in hane
    have hlin : iIn < rin.length := by rw [← hin.1]; exact (List.getElem?_eq_some_iff.1 hci).1
    have hr0 : rin[iIn]? = some rq := by
      rw [hrs0, List.getElem?_append_left hlin] at e3
      exact e3
    obtain ⟨tin, htin, hcase⟩ := hin.2 iIn _ _ hci hr0
    simp only at htin hcase
    refine ⟨bt, tin, a_in, qp, q, e1, by rw [e2]; rfl, by rw [← hds]; exact ha_in, htin, ?_, ?_⟩
    · rw [e9]
      exact List.mem_of_getElem? (List.getElem?_set_self e8)
    · intro tc htc
      rw [quantizeBias_bits _ _ _ _ _ e7]
      rcases hcase with ⟨-, hbad⟩ | ⟨-, -, -, hgood⟩
      · rw [hbad] at e5
        cases e5
      · obtain ⟨qp', d', hreq, hbits⟩ := hgood tc htc
        rw [hreq] at e5
        have : reqParam0 (srqReq tin.name oi.opId true (constData env tin).isSome (some (.uniform qp' d'))) =
            .ok (some (.uniform qp' d')) := rfl
        rw [this] at e5
        cases e5
        rw [hbits]
  · exfalso
    rcases hconv with c | c
    · exact hnc.1 c
    · exact hnc.2 c

/-! ## configs without activation quantization (dynamic range, weight only) -/

/-- a request with one side -/
def modeReq (name : String) (opId : Int) (inbound : Bool) (xfs : List Xf) (p : Option Param) : CReq :=
  if inbound then ⟨name, none, some [⟨opId, xfs, p⟩]⟩ else ⟨name, some ⟨opId, xfs, p⟩, none⟩

theorem mkReq_mode (name : String) (oi : OpInfo) (b : Bool) (p : Option Param) (isC : Bool) (r : CReq)
    (h : mkReq name oi b p isC = .ok r) :
    ∃ xfs, tensorXfs oi.cfg b isC = .ok xfs ∧ r = modeReq name oi.opId b xfs p := by
  obtain ⟨xfs, hx, hr⟩ := mkReq_spec name oi b p isC r h
  exact ⟨xfs, hx, by rw [hr]; rfl⟩

theorem noQuantReq_mode (name : String) (opId : Int) (b : Bool) :
    noQuantReq name opId b = modeReq name opId b [.noQuant] none := by
  cases b <;> rfl

/-- the config quantizes no activations: every side that is not a constant operand is `[NO_QUANTIZE]`
    (dynamic-range and weight-only configs) -/
def NoActMode (c : OpCfg) : Prop :=
  c.act = none ∧ ∀ b isC, (b && isC) = false → tensorXfs c b isC = .ok [.noQuant]

/-- **a request made by `wrapper` without given parameters** -/
theorem wrapper_none_mode (env : Env) (qs : Qsvs) (oi : OpInfo) (t : Tensor) (b : Bool) (r : CReq)
    (h : wrapper env qs oi t b none = .ok r) :
    ∃ xfs prm, tensorXfs oi.cfg b (constData env t).isSome = .ok xfs ∧ r = modeReq t.name oi.opId b xfs prm ∧
      (tcfgOf env oi t = none → prm = none) ∧
      (∀ tc, tcfgOf env oi t = some tc → ∃ qp d, prm = some (.uniform qp d) ∧ qp.bits = tc.bits.toNat) := by
  rcases (wrapper_none_ok_iff env qs oi t b r).1 h with ⟨h1, h2⟩ | ⟨tc', mn, mx, qdim, qp, dat, h0, -, -, h2, -, h4⟩
  · obtain ⟨xfs, hx, hr⟩ := mkReq_mode _ _ _ _ _ _ h2
    exact ⟨xfs, none, hx, hr, fun _ => rfl, fun tc htc => (by rw [h1] at htc; cases htc)⟩
  · obtain ⟨xfs, hx, hr⟩ := mkReq_mode _ _ _ _ _ _ h4
    refine ⟨xfs, _, hx, hr, fun hn => (by rw [h0] at hn; cases hn), ?_⟩
    intro tc htc
    rw [h0] at htc
    cases htc
    exact ⟨qp, dat, rfl, refParams_bits _ _ _ _ _ _ h2⟩

/-- the request of one non-`-1` slot when the config has no activation config -/
def NoActSlot (env : Env) (sg : Subgraph) (oi : OpInfo) (inbound : Bool) (given : List Nat)
    (p : Int × Nat) (r : CReq) : Prop :=
  ∃ tn, tensorAt sg p.1 = .ok tn ∧
    (((tn.dtype ≠ Tables.ttFloat32 ∨ p.2 ∈ given) ∧ r = noQuantReq tn.name oi.opId inbound) ∨
     (tn.dtype = Tables.ttFloat32 ∧ p.2 ∉ given ∧
      ∃ xfs prm, tensorXfs oi.cfg inbound (constData env tn).isSome = .ok xfs ∧
        r = modeReq tn.name oi.opId inbound xfs prm ∧
        (tcfgOf env oi tn = none → prm = none) ∧
        (∀ tc, tcfgOf env oi tn = some tc → ∃ qp d, prm = some (.uniform qp d) ∧ qp.bits = tc.bits.toNat)))

/-- **`standardOp` under a config without activation config**: the requests in slot order -/
theorem standardOp_noact (env : Env) (sg : Subgraph) (qs : Qsvs) (oi : OpInfo) (con : Constraint)
    (gIn gOut : List Nat) (rs0 : List CReq) (q0 : Qsvs) (hact : oi.cfg.act = none)
    (hcon : con ≠ .none → Tables.woOps.contains oi.opName = false ∧ Tables.drqOps.contains oi.opName = false)
    (h : standardOp env sg qs oi con gIn gOut = .ok (rs0, q0)) :
    ∃ rin rout, rs0 = rin ++ rout ∧
      Pointwise (NoActSlot env sg oi true gIn) (cslots oi.op.inputs) rin ∧
      Pointwise (NoActSlot env sg oi false gOut) (cslots oi.op.outputs) rout := by
  obtain ⟨inIgn, outIgn, rin, rout, g, gO, hI, hO, hrs, hin, hout, hg, hgO⟩ :=
    standardOp_shape env sg qs oi con gIn gOut rs0 q0 h
  -- no parameter object is ever handed on
  have hgn : g = none := by
    rcases hg with rfl | ⟨hc, p, -, t, orq, -, -, hw, rfl⟩
    · rfl
    · have hnw := hcon (by rw [hc]; decide)
      have htc : tcfgOf env oi t = none := by rw [tcfgOf_noWo env oi t hnw]; exact hact
      obtain ⟨xfs, prm, -, hr, hp, -⟩ := wrapper_none_mode env qs oi t false orq hw
      rw [hr, hp htc]
      rfl
  have hgOn : gO = none := by
    rcases hgO with rfl | ⟨hc, p, -, t, ir, p0, -, -, hw, hp0, rfl⟩
    · rfl
    · have hnw := hcon (by rw [hc]; decide)
      have htc : tcfgOf env oi t = none := by rw [tcfgOf_noWo env oi t hnw]; exact hact
      obtain ⟨xfs, prm, -, hr, hp, -⟩ := wrapper_none_mode env qs oi t true ir hw
      rw [hr, hp htc] at hp0
      have : reqParam0 (modeReq t.name oi.opId true xfs none) = .ok none := rfl
      rw [this] at hp0
      cases hp0
      rfl
  subst hgn hgOn
  have key : ∀ (b : Bool) (slots : List Int) (given ign : List Nat), IgnSpec sg slots given ign →
      ∀ p ∈ cslots slots, ∀ r, SlotReq env sg qs oi b ign none p r → NoActSlot env sg oi b given p r := by
    intro b slots given ign hspec p hp r hsr
    obtain ⟨t, ht, hr⟩ := hsr
    have hpm := (mem_cslots slots p).1 hp
    have hiff := hspec p.2 p.1 t hpm.1 ht
    refine ⟨t, ht, ?_⟩
    split at hr
    · rename_i hc
      exact .inl ⟨hiff.1 hc, hr⟩
    · rename_i hc
      have hf : t.dtype = Tables.ttFloat32 := by
        by_contra hne
        exact hc (hiff.2 (.inl hne))
      have hng : p.2 ∉ given := fun hm => hc (hiff.2 (.inr hm))
      exact .inr ⟨hf, hng, wrapper_none_mode env qs oi t b r hr⟩
  refine ⟨rin, rout, hrs, ⟨hin.1, ?_⟩, ⟨hout.1, ?_⟩⟩
  · intro j p r hp hr
    exact key true _ _ _ hI p (List.mem_of_getElem? hp) r (hin.2 j p r hp hr)
  · intro j p r hp hr
    exact key false _ _ _ hO p (List.mem_of_getElem? hp) r (hout.2 j p r hp hr)

theorem isSRQ_noact (c : OpCfg) (h : c.act = none) : isSRQ c = false := by
  unfold isSRQ
  rw [h]
  simp

/-- **the requests of one operator under a min/max config without activation quantization** -/
theorem materializeOp_noact (env : Env) (sg : Subgraph) (qs : Qsvs) (oi : OpInfo) (fn : String)
    (rs : List CReq) (qs' : Qsvs) (hfn : (oi.opName, fn) ∈ minmaxOps) (hm : NoActMode oi.cfg)
    (hmand : ∀ b, biasSlot oi.opName = some b → ∀ i < b, oi.op.inputs[i]? ≠ some (-1))
    (h : materializeOp env sg qs oi Tables.algMinMax fn = .ok (rs, qs')) :
    -- results
    (∀ (j : Nat) (t : Int) (tn : Tensor), oi.op.outputs[j]? = some t → t ≠ -1 → tensorAt sg t = .ok tn →
      ∃ prm, modeReq tn.name oi.opId false [.noQuant] prm ∈ rs) ∧
    -- operands that are runtime tensors, or not float32, or the bias
    (∀ (j : Nat) (t : Int) (tn : Tensor), oi.op.inputs[j]? = some t → t ≠ -1 → tensorAt sg t = .ok tn →
      ((constData env tn).isSome = false ∨ tn.dtype ≠ Tables.ttFloat32 ∨
        (biasSlot oi.opName = some j ∧ oi.opName ≠ "EMBEDDING_LOOKUP")) →
      ∃ prm, modeReq tn.name oi.opId true [.noQuant] prm ∈ rs) ∧
    -- float32 constants in regular slots
    (∀ (j : Nat) (t : Int) (tn : Tensor), oi.op.inputs[j]? = some t → t ≠ -1 → tensorAt sg t = .ok tn →
      slotRole oi.opName j = 0 → tn.dtype = Tables.ttFloat32 → (constData env tn).isSome = true →
      ∃ xfs prm, tensorXfs oi.cfg true true = .ok xfs ∧ modeReq tn.name oi.opId true xfs prm ∈ rs ∧
        ∀ tc, tcfgOf env oi tn = some tc → ∃ qp d, prm = some (.uniform qp d) ∧ qp.bits = tc.bits.toNat) := by
  obtain ⟨hact, hmode⟩ := hm
  obtain ⟨con, gIn, rs0, q0, hstd, hrole, hcon, hpost⟩ := materializeOp_minmax_cases env sg qs oi fn rs qs' hfn h
  obtain ⟨rin, rout, hrs0, hin, hout⟩ := standardOp_noact env sg qs oi con gIn [] rs0 q0 hact hcon hstd
  have T7 := minmax_table7 _ hfn
  simp only at T7
  -- the fixed-range post-processing does nothing without an activation config
  have hfix : ∀ b, fixPost oi b (rs0, q0) = .ok (rs, qs') → rs = rs0 := by
    intro b hb
    rcases fixPost_cases oi b rs0 rs q0 qs' hb with h | ⟨_, _, a, _, _, _, ha, _⟩
    · exact h
    · rw [hact] at ha; cases ha
  -- the request of an operand slot, with its position
  have hslotIn : ∀ (j : Nat) (t : Int) (tn : Tensor), oi.op.inputs[j]? = some t → t ≠ -1 → tensorAt sg t = .ok tn →
      ∃ (idx : Nat) (r : CReq), (cslots oi.op.inputs)[idx]? = some (t, j) ∧ rs0[idx]? = some r ∧
        (((tn.dtype ≠ Tables.ttFloat32 ∨ j ∈ gIn) ∧ r = noQuantReq tn.name oi.opId true) ∨
         (tn.dtype = Tables.ttFloat32 ∧ j ∉ gIn ∧
          ∃ xfs prm, tensorXfs oi.cfg true (constData env tn).isSome = .ok xfs ∧
            r = modeReq tn.name oi.opId true xfs prm ∧ (tcfgOf env oi tn = none → prm = none) ∧
            (∀ tc, tcfgOf env oi tn = some tc → ∃ qp d, prm = some (.uniform qp d) ∧ qp.bits = tc.bits.toNat))) := by
    intro j t tn hj hne htn
    have hm : (t, j) ∈ cslots oi.op.inputs := (mem_cslots _ _).2 ⟨hj, hne⟩
    obtain ⟨idx, hidx⟩ := List.mem_iff_getElem?.1 hm
    have hlt : idx < rin.length := by rw [← hin.1]; exact (List.getElem?_eq_some_iff.1 hidx).1
    have hr : rin[idx]? = some rin[idx] := List.getElem?_eq_getElem hlt
    obtain ⟨tn', htn', hcase⟩ := hin.2 idx _ _ hidx hr
    simp only at htn' hcase
    rw [htn] at htn'
    cases htn'
    exact ⟨idx, _, hidx, by rw [hrs0, List.getElem?_append_left hlt]; exact hr, hcase⟩
  have hkeep : ∀ (idx : Nat) (r : CReq), rs0[idx]? = some r →
      (∀ iB bslot, biasSlot oi.opName = some iB → oi.op.inputs[iB]? = some bslot → bslot ≠ -1 → idx ≠ iB) →
      r ∈ rs := by
    intro idx r hr hnb
    rcases hpost with ⟨rfl, -⟩ | ⟨iIn, iB, hbs, hbg, -, -, -, hb, -⟩ | ⟨b, -, hb, -⟩
    · exact List.mem_of_getElem? hr
    · rcases biasFor_unfold env sg oi rs0 rs iIn 1 iB hb with rfl | ⟨bslot, _, _, rb, hbsl, hbne, _, _, _, _, _, rfl⟩
      · exact List.mem_of_getElem? hr
      · have := hnb iB bslot hbs hbsl hbne
        exact List.mem_of_getElem? (by rw [List.getElem?_set_ne (fun e => this e.symm)]; exact hr)
    · rw [hfix b hb]; exact List.mem_of_getElem? hr
  have hnotBias : ∀ (j : Nat) (t : Int) (idx : Nat), (cslots oi.op.inputs)[idx]? = some (t, j) →
      biasSlot oi.opName ≠ some j →
      ∀ iB bslot, biasSlot oi.opName = some iB → oi.op.inputs[iB]? = some bslot → bslot ≠ -1 → idx ≠ iB := by
    intro j t idx hidx hnj iB bslot hbs hget hne he
    subst he
    have := cslots_get oi.op.inputs idx bslot (hmand idx hbs) hget hne
    rw [hidx] at this
    cases this
    exact hnj hbs
  refine ⟨?_, ?_, ?_⟩
  · -- results
    intro j t tn hj hne htn
    have hm' : (t, j) ∈ cslots oi.op.outputs := (mem_cslots _ _).2 ⟨hj, hne⟩
    obtain ⟨idx, hidx⟩ := List.mem_iff_getElem?.1 hm'
    have hlt : idx < rout.length := by rw [← hout.1]; exact (List.getElem?_eq_some_iff.1 hidx).1
    have hr : rout[idx]? = some rout[idx] := List.getElem?_eq_getElem hlt
    obtain ⟨tn', htn', hcase⟩ := hout.2 idx _ _ hidx hr
    simp only at htn' hcase
    rw [htn] at htn'
    cases htn'
    have hmem0 : rout[idx] ∈ rs0 := by rw [hrs0]; exact List.mem_append_right _ (List.getElem_mem hlt)
    -- the request is `[NO_QUANTIZE]`
    have hshape : ∃ prm, rout[idx] = modeReq tn.name oi.opId false [.noQuant] prm := by
      rcases hcase with ⟨-, hq⟩ | ⟨-, -, xfs, prm, hx, hq, -, -⟩
      · exact ⟨none, by rw [hq, noQuantReq_mode]⟩
      · rw [hmode false _ (by simp)] at hx
        cases hx
        exact ⟨prm, hq⟩
    obtain ⟨prm, hq⟩ := hshape
    rw [hq] at hmem0
    refine ⟨prm, ?_⟩
    rcases hpost with ⟨rfl, -⟩ | ⟨iIn, iB, hbs, hbg, -, -, -, hbf, -⟩ | ⟨b, -, hbf, -⟩
    · exact hmem0
    · rcases biasFor_unfold env sg oi rs0 rs iIn 1 iB hbf with rfl | ⟨bslot, bt, bp, rb, hbsl, hbne, _, _, _, hmk, hlt', rfl⟩
      · exact hmem0
      · obtain ⟨i0, hi0⟩ := List.mem_iff_getElem?.1 hmem0
        refine List.mem_of_getElem? (show (rs0.set iB rb)[i0]? = _ from ?_)
        rw [List.getElem?_set_ne ?_]
        · exact hi0
        · intro e
          subst e
          have hci := cslots_get oi.op.inputs iB bslot (hmand iB hbs) hbsl hbne
          have hlin : iB < rin.length := by
            rw [← hin.1]; exact (List.getElem?_eq_some_iff.1 hci).1
          rw [hrs0, List.getElem?_append_left hlin] at hi0
          obtain ⟨tb, -, hcb⟩ := hin.2 iB _ _ hci hi0
          rcases hcb with ⟨-, hcb⟩ | ⟨-, -, xfs', prm', -, hcb, -, -⟩
          · unfold modeReq noQuantReq at hcb
            simp at hcb
          · unfold modeReq at hcb
            simp at hcb
    · rw [hfix b hbf]; exact hmem0
  · -- operands with `[NO_QUANTIZE]`
    intro j t tn hj hne htn hwhy
    obtain ⟨idx, r, hidx, hr, hcase⟩ := hslotIn j t tn hj hne htn
    by_cases hbj : biasSlot oi.opName = some j ∧ oi.opName ≠ "EMBEDDING_LOOKUP"
    · -- the bias slot of a convolution-like operator
      obtain ⟨hbs, hnemb⟩ := hbj
      have hconv := T7 j hbs hnemb
      rcases hpost with ⟨-, hnc⟩ | ⟨iIn, iB, hbs', hbg, -, -, -, hbf, -⟩ | ⟨b, -, -, hnc⟩
      · rcases hconv with c | c
        · exact absurd c hnc.1
        · exact absurd c hnc.2
      · rw [hbs] at hbs'
        cases hbs'
        rcases biasFor_unfold env sg oi rs0 rs iIn 1 j hbf with rfl | ⟨bslot, bt, bp, rb, hbsl, hbne, hbt, _, _, hmk, hlt', rfl⟩
        · -- untouched: the request of the (given) bias position is `noQuantReq`
          rcases hcase with ⟨-, hq⟩ | ⟨-, hng, -⟩
          · exact ⟨none, by rw [← noQuantReq_mode, ← hq]; exact List.mem_of_getElem? hr⟩
          · exact absurd hbg hng
        · rw [hj] at hbsl
          cases hbsl
          rw [htn] at hbt
          cases hbt
          rw [isSRQ_noact _ hact] at hmk
          obtain ⟨xfs, hx, hq⟩ := mkReq_mode _ _ _ _ _ _ hmk
          rw [hmode true false (by simp)] at hx
          cases hx
          exact ⟨bp, by rw [← hq]; exact List.mem_of_getElem? (List.getElem?_set_self hlt')⟩
      · rcases hconv with c | c
        · exact absurd c hnc.1
        · exact absurd c hnc.2
    · -- an ordinary slot
      have hshape : ∃ prm, r = modeReq tn.name oi.opId true [.noQuant] prm := by
        rcases hcase with ⟨-, hq⟩ | ⟨hf, -, xfs, prm, hx, hq, -, -⟩
        · exact ⟨none, by rw [hq, noQuantReq_mode]⟩
        · rcases hwhy with hnc | hnf | hb
          · rw [hnc, hmode true false (by simp)] at hx
            cases hx
            exact ⟨prm, hq⟩
          · exact absurd hf hnf
          · exact absurd hb hbj
      obtain ⟨prm, hq⟩ := hshape
      refine ⟨prm, ?_⟩
      rw [← hq]
      by_cases hbs : biasSlot oi.opName = some j
      · -- EMBEDDING_LOOKUP: its third operand is an ordinary operand of the min/max algorithm
        have hemb : oi.opName = "EMBEDDING_LOOKUP" := by
          by_contra hne'
          exact hbj ⟨hbs, hne'⟩
        have hnc : NotConv fn := by
          have T1 := minmax_table8 _ hfn
          simp only at T1
          exact T1 hemb
        rcases hpost with ⟨rfl, -⟩ | ⟨iIn, iB, hbs', hbg, -, -, -, hbf, hconv⟩ | ⟨b, -, hbf, -⟩
        · exact List.mem_of_getElem? hr
        · exact absurd hnc hconv
        · rw [hfix b hbf]; exact List.mem_of_getElem? hr
      · exact hkeep idx r hr (hnotBias j t idx hidx hbs)
  · -- float32 constants in regular slots
    intro j t tn hj hne htn hrj hf hc
    obtain ⟨hni, hnb⟩ := role_zero _ _ hrj
    obtain ⟨idx, r, hidx, hr, hcase⟩ := hslotIn j t tn hj hne htn
    rcases hcase with ⟨hbad, -⟩ | ⟨-, -, xfs, prm, hx, hq, -, hbits⟩
    · rcases hbad with hbad | hbad
      · exact absurd hf hbad
      · exact absurd hrj (hrole j hbad)
    · rw [hc] at hx
      exact ⟨xfs, prm, hx, by rw [← hq]; exact hkeep idx r hr (hnotBias j t idx hidx hnb), hbits⟩

/-! ## float casting -/

/-- `Pipe.floatCastOp_unfold` with the weight's parameter object made explicit: float16 values -/
theorem floatCastOp_unfold16 (env : Env) (sg : Subgraph) (oi : OpInfo) (iIn iW iB : Nat) (rs : List CReq)
    (h : floatCastOp env sg oi iIn iW iB = .ok rs) :
    ∃ sIn sW sOut tin tw tout d, oi.op.inputs[iIn]? = some sIn ∧ oi.op.inputs[iW]? = some sW ∧
      oi.op.outputs[0]? = some sOut ∧ tensorAt sg sIn = .ok tin ∧ tensorAt sg sW = .ok tw ∧
      tensorAt sg sOut = .ok tout ∧ (constData env tw).isSome = true ∧
      noQuantReq tin.name oi.opId true ∈ rs ∧
      (⟨tw.name, none, some [(⟨oi.opId, [.addDequant], some (.nonlinear 16 d)⟩ : CO2T)]⟩ : CReq) ∈ rs ∧
      noQuantReq tout.name oi.opId false ∈ rs ∧
      ∀ b tb, oi.op.inputs[iB]? = some b → b ≠ -1 → tensorAt sg b = .ok tb →
        noQuantReq tb.name oi.opId true ∈ rs := by
  unfold floatCastOp at h
  simp only [] at h
  obtain ⟨sIn, hsIn, h⟩ := GraphInv.bind_ok _ _ _ h
  obtain ⟨tin, htin, h⟩ := GraphInv.bind_ok _ _ _ h
  obtain ⟨sW, hsW, h⟩ := GraphInv.bind_ok _ _ _ h
  obtain ⟨tw, htw, h⟩ := GraphInv.bind_ok _ _ _ h
  obtain ⟨sOut, hsOut, h⟩ := GraphInv.bind_ok _ _ _ h
  obtain ⟨tout, htout, h⟩ := GraphInv.bind_ok _ _ _ h
  obtain ⟨wd, hwd, h⟩ := GraphInv.bind_ok _ _ _ h
  obtain ⟨hh, _, h⟩ := GraphInv.bind_ok _ _ _ h
  have e1 : oi.op.inputs[iIn]? = some sIn := by
    split at hsIn
    · rename_i s hs; simp only [pure, Except.pure, Except.ok.injEq] at hsIn; rw [hs, hsIn]
    · cases hsIn
  have e2 : oi.op.inputs[iW]? = some sW := by
    split at hsW
    · rename_i s hs; simp only [pure, Except.pure, Except.ok.injEq] at hsW; rw [hs, hsW]
    · cases hsW
  have e3 : oi.op.outputs[0]? = some sOut := by
    split at hsOut
    · rename_i s hs; simp only [pure, Except.pure, Except.ok.injEq] at hsOut; rw [hs, hsOut]
    · cases hsOut
  have e4 : constData env tw = some wd := by
    split at hwd
    · rename_i d hd; simp only [pure, Except.pure, Except.ok.injEq] at hwd; rw [hd, hwd]
    · cases hwd
  refine ⟨sIn, sW, sOut, tin, tw, tout, some ⟨wd.shape, hh⟩, e1, e2, e3, htin, htw, htout, by rw [e4]; rfl, ?_⟩
  split at h
  · rename_i b hb
    split at h
    · rename_i hne
      obtain ⟨tb, htb, h⟩ := GraphInv.bind_ok _ _ _ h
      simp only [pure, Except.pure, Except.ok.injEq] at h
      subst h
      refine ⟨by simp, by simp, by simp, ?_⟩
      intro b' tb' hb' _ htb'
      rw [hb] at hb'
      cases hb'
      rw [htb] at htb'
      cases htb'
      simp
    · rename_i hne
      simp only [pure, Except.pure, Except.ok.injEq] at h
      subst h
      refine ⟨by simp, by simp, by simp, ?_⟩
      intro b' tb' hb' hne' _
      rw [hb] at hb'
      cases hb'
      simp at hne
      exact absurd hne hne'
  · rename_i hb
    simp only [pure, Except.pure, Except.ok.injEq] at h
    subst h
    refine ⟨by simp, by simp, by simp, ?_⟩
    intro b' tb' hb' _ _
    rw [hb] at hb'
    cases hb'

end TypingSrq
