import QProofs.PipeDefs
/-!
# `absReqs`: abstraction of concrete parameters to ids (first-appearance order)

The abstract request list is position-wise the concrete one, with every parameter `p` replaced by
the index of the first entry of the **final** table that is `Param.eqv`-equal to `p`.
-/
open Graph Mat Cfg Pipeline InstGen GenInstsOK

namespace Pipe

/-- abstraction of one `CO2T` relative to the final table `tbl` -/
def AbsO (tbl : List Param) (c : CO2T) (a : O2T) : Prop :=
  a.opId = c.opId ∧ a.xfs = c.xfs ∧
  match c.param, a.param with
  | none, none => True
  | some p, some i => tbl.findIdx? (fun q => q.eqv p) = some i
  | _, _ => False

/-- abstraction of one request relative to the final table `tbl` -/
def AbsR (tbl : List Param) (r : CReq) (a : TReq) : Prop :=
  a.name = r.name ∧
  (match r.producer, a.producer with
    | none, none => True
    | some c, some o => AbsO tbl c o
    | _, _ => False) ∧
  (match r.consumers, a.consumers with
    | none, none => True
    | some cs, some os => Pointwise (AbsO tbl) cs os
    | _, _ => False)

theorem arrEq_refl {α} [BEq α] [ReflBEq α] (a : Nd.Arr α) : arrEq a a = true := by
  simp [arrEq]

theorem optEq_refl {α} (f : α → α → Bool) (hf : ∀ a, f a a = true) (x : Option α) : optEq f x x = true := by
  cases x <;> simp [optEq, hf]

/-- `Param.eqv` is reflexive -/
theorem Param.eqv_refl (p : Param) : p.eqv p = true := by
  cases p with
  | uniform qp d => simp [Param.eqv, arrEq_refl, optEq_refl]
  | nonlinear b d => simp [Param.eqv, arrEq_refl, optEq_refl]

theorem optEq_isSome {α} (f : α → α → Bool) (x y : Option α) (h : optEq f x y = true) : x.isSome = y.isSome := by
  cases x <;> cases y <;> simp_all [optEq]

/-- `Param.eqv`-equal parameters agree on whether they carry data -/
theorem eqv_hasData (q p : Param) (h : q.eqv p = true) : hasData q = hasData p := by
  cases q <;> cases p <;> simp only [Param.eqv, Bool.and_eq_true] at h
  · exact optEq_isSome _ _ _ h.2
  · exact absurd h (by simp)
  · exact absurd h (by simp)
  · exact optEq_isSome _ _ _ h.2

theorem find_zipIdx_aux (tbl : List Param) (k i : Nat) :
    ((tbl.zipIdx k).map fun p => (p.2, pinfoOf p.1)).find? (·.1 == k + i) =
      (tbl[i]?).map fun p => (k + i, pinfoOf p) := by
  induction tbl generalizing k i with
  | nil => simp
  | cons a tl ih =>
    cases i with
    | zero => simp
    | succ i =>
      have := ih (k+1) i
      simp only [List.zipIdx_cons, List.map_cons, List.find?_cons]
      have hne : (k == k + (i+1)) = false := by simp
      simp only [hne]
      rw [show k + (i+1) = k + 1 + i by omega]
      simpa using this

/-- ids are positions in the table -/
theorem pinfo_ptableOf (tbl : List Param) (i : Nat) : pinfo (ptableOf tbl) i = (tbl[i]?).map pinfoOf := by
  have := find_zipIdx_aux tbl 0 i
  simp only [Nat.zero_add] at this
  unfold pinfo ptableOf
  rw [this]
  cases tbl[i]? <;> rfl

theorem findIdx?_ext {tbl : List Param} {f : Param → Bool} {i : Nat} (h : tbl.findIdx? f = some i)
    (ext : List Param) : (tbl ++ ext).findIdx? f = some i := by
  rw [List.findIdx?_append, h]; rfl

theorem pidOf_spec (tbl : List Param) (p : Param) :
    (∃ ext, (pidOf tbl p).1 = tbl ++ ext) ∧
      (pidOf tbl p).1.findIdx? (fun q => q.eqv p) = some (pidOf tbl p).2 := by
  unfold pidOf
  cases h : tbl.findIdx? (fun q => q.eqv p) with
  | some i => exact ⟨⟨[], by simp⟩, h⟩
  | none =>
    refine ⟨⟨[p], rfl⟩, ?_⟩
    simp [List.findIdx?_append, h, Param.eqv_refl]

theorem AbsO.mono {tbl : List Param} {c : CO2T} {a : O2T} (h : AbsO tbl c a) (ext : List Param) :
    AbsO (tbl ++ ext) c a := by
  obtain ⟨h1, h2, h3⟩ := h
  refine ⟨h1, h2, ?_⟩
  cases hc : c.param <;> cases ha : a.param <;> simp only [hc, ha] at h3 ⊢
  exact findIdx?_ext h3 ext

theorem Pointwise.mono {α β} {R R' : α → β → Prop} {l1 : List α} {l2 : List β}
    (h : Pointwise R l1 l2) (hR : ∀ a b, R a b → R' a b) : Pointwise R' l1 l2 :=
  ⟨h.1, fun j a b ha hb => hR a b (h.2 j a b ha hb)⟩

theorem Pointwise.nil {α β} (R : α → β → Prop) : Pointwise R [] [] :=
  ⟨rfl, fun j a b ha => by simp at ha⟩

theorem Pointwise.snoc {α β} {R : α → β → Prop} {l1 : List α} {l2 : List β} {a : α} {b : β}
    (h : Pointwise R l1 l2) (hab : R a b) : Pointwise R (l1 ++ [a]) (l2 ++ [b]) := by
  refine ⟨by simp [h.1], fun j x y hx hy => ?_⟩
  by_cases hj : j < l1.length
  · rw [List.getElem?_append_left hj] at hx
    rw [List.getElem?_append_left (h.1 ▸ hj)] at hy
    exact h.2 j x y hx hy
  · have hj' : l1.length ≤ j := Nat.le_of_not_lt hj
    rw [List.getElem?_append_right hj'] at hx
    rw [List.getElem?_append_right (h.1 ▸ hj')] at hy
    rw [← h.1] at hy
    cases hk : j - l1.length with
    | zero =>
      rw [hk] at hx hy
      simp at hx hy
      subst hx; subst hy; exact hab
    | succ k => rw [hk] at hx; simp at hx

theorem AbsR.mono {tbl : List Param} {r : CReq} {a : TReq} (h : AbsR tbl r a) (ext : List Param) :
    AbsR (tbl ++ ext) r a := by
  obtain ⟨h1, h2, h3⟩ := h
  refine ⟨h1, ?_, ?_⟩
  · cases hc : r.producer <;> cases ha : a.producer <;> simp only [hc, ha] at h2 ⊢
    exact h2.mono ext
  · cases hc : r.consumers <;> cases ha : a.consumers <;> simp only [hc, ha] at h3 ⊢
    exact h3.mono fun _ _ hh => hh.mono ext

theorem absO2T_spec (tbl : List Param) (c : CO2T) :
    (∃ ext, (absO2T tbl c).1 = tbl ++ ext) ∧ AbsO (absO2T tbl c).1 c (absO2T tbl c).2 := by
  unfold absO2T
  cases hc : c.param with
  | none => exact ⟨⟨[], by simp⟩, rfl, rfl, by simp [hc]⟩
  | some p =>
    obtain ⟨h1, h2⟩ := pidOf_spec tbl p
    refine ⟨h1, rfl, rfl, ?_⟩
    simp only [hc]
    exact h2

/-- generic table-threading fold -/
theorem fold_spec {α β} (R : List Param → α → β → Prop) (f : List Param → α → List Param × β)
    (hmono : ∀ t ext a b, R t a b → R (t ++ ext) a b)
    (hf : ∀ t x, (∃ ext, (f t x).1 = t ++ ext) ∧ R (f t x).1 x (f t x).2)
    (xs pre : List α) (t0 : List Param) (acc0 : List β) (h0 : Pointwise (R t0) pre acc0) :
    let res := xs.foldl (fun (st : List Param × List β) x => ((f st.1 x).1, st.2 ++ [(f st.1 x).2])) (t0, acc0)
    (∃ ext, res.1 = t0 ++ ext) ∧ Pointwise (R res.1) (pre ++ xs) res.2 := by
  induction xs generalizing pre t0 acc0 with
  | nil => exact ⟨⟨[], by simp⟩, by simpa using h0⟩
  | cons x xs ih =>
    obtain ⟨⟨e1, he1⟩, hR⟩ := hf t0 x
    have h1 : Pointwise (R (f t0 x).1) (pre ++ [x]) (acc0 ++ [(f t0 x).2]) := by
      refine Pointwise.snoc ?_ hR
      rw [he1]
      exact h0.mono fun a b hh => hmono _ _ _ _ hh
    obtain ⟨⟨e2, he2⟩, hP⟩ := ih (pre ++ [x]) (f t0 x).1 (acc0 ++ [(f t0 x).2]) h1
    simp only [List.foldl_cons]
    refine ⟨⟨e1 ++ e2, ?_⟩, ?_⟩
    · rw [he2, he1, List.append_assoc]
    · simpa [List.append_assoc] using hP

theorem fold_spec_nil {α β} (R : List Param → α → β → Prop) (f : List Param → α → List Param × β)
    (hmono : ∀ t ext a b, R t a b → R (t ++ ext) a b)
    (hf : ∀ t x, (∃ ext, (f t x).1 = t ++ ext) ∧ R (f t x).1 x (f t x).2)
    (xs : List α) (t0 : List Param) :
    (∃ ext, (xs.foldl (fun (st : List Param × List β) x => ((f st.1 x).1, st.2 ++ [(f st.1 x).2])) (t0, [])).1 = t0 ++ ext) ∧
      Pointwise (R (xs.foldl (fun (st : List Param × List β) x => ((f st.1 x).1, st.2 ++ [(f st.1 x).2])) (t0, [])).1) xs
        (xs.foldl (fun (st : List Param × List β) x => ((f st.1 x).1, st.2 ++ [(f st.1 x).2])) (t0, [])).2 := by
  have := fold_spec R f hmono hf xs [] t0 [] (Pointwise.nil _)
  simpa using this

/-- producer stage of `absReq` -/
def prodStage (tbl : List Param) : Option CO2T → List Param × Option O2T
  | none => (tbl, none)
  | some o => ((absO2T tbl o).1, some (absO2T tbl o).2)

/-- consumer stage of `absReq` -/
def consStage (t1 : List Param) : Option (List CO2T) → List Param × Option (List O2T)
  | none => (t1, none)
  | some cs =>
    let res := cs.foldl (fun (st : List Param × List O2T) c => ((absO2T st.1 c).1, st.2 ++ [(absO2T st.1 c).2])) (t1, [])
    (res.1, some res.2)

theorem absReq_eq (tbl : List Param) (r : CReq) :
    absReq tbl r = ((consStage (prodStage tbl r.producer).1 r.consumers).1,
      ⟨r.name, (prodStage tbl r.producer).2, (consStage (prodStage tbl r.producer).1 r.consumers).2⟩) := by
  unfold absReq
  cases r.producer <;> cases r.consumers <;> rfl

theorem prodStage_spec (tbl : List Param) (po : Option CO2T) :
    (∃ ext, (prodStage tbl po).1 = tbl ++ ext) ∧
      (match po, (prodStage tbl po).2 with
        | none, none => True
        | some c, some o => AbsO (prodStage tbl po).1 c o
        | _, _ => False) := by
  cases po with
  | none => exact ⟨⟨[], by simp [prodStage]⟩, trivial⟩
  | some o => exact absO2T_spec tbl o

theorem consStage_spec (t1 : List Param) (co : Option (List CO2T)) :
    (∃ ext, (consStage t1 co).1 = t1 ++ ext) ∧
      (match co, (consStage t1 co).2 with
        | none, none => True
        | some cs, some os => Pointwise (AbsO (consStage t1 co).1) cs os
        | _, _ => False) := by
  cases co with
  | none => exact ⟨⟨[], by simp [consStage]⟩, trivial⟩
  | some cs =>
    exact fold_spec_nil AbsO absO2T (fun _ ext _ _ hh => hh.mono ext) absO2T_spec cs t1

theorem absReq_spec (tbl : List Param) (r : CReq) :
    (∃ ext, (absReq tbl r).1 = tbl ++ ext) ∧ AbsR (absReq tbl r).1 r (absReq tbl r).2 := by
  rw [absReq_eq]
  obtain ⟨⟨x1, hx1⟩, hP⟩ := prodStage_spec tbl r.producer
  obtain ⟨⟨x2, hx2⟩, hC⟩ := consStage_spec (prodStage tbl r.producer).1 r.consumers
  refine ⟨⟨x1 ++ x2, by rw [hx2, hx1, List.append_assoc]⟩, rfl, ?_, hC⟩
  simp only
  rw [hx2]
  generalize prodStage tbl r.producer = ps at hP ⊢
  cases hpr : r.producer <;> cases hpa : ps.2 <;> simp only [hpr, hpa] at hP ⊢
  exact hP.mono x2

/-- **the abstract requests are the concrete ones with parameters replaced by their ids** -/
theorem absReqs_spec (reqs : List CReq) : Pointwise (AbsR (absReqs reqs).1) reqs (absReqs reqs).2 := by
  exact (fold_spec_nil AbsR absReq (fun _ ext _ _ hh => hh.mono ext) absReq_spec reqs []).2

end Pipe
